import SmVerif.Model.SourceMap
/-
Model of `SourceMapBuilder` (builder.rs) and of the builder-based transformations
`SourceMap::rewrite_with_mapping` (types.rs).  Hash maps are association lists (first match wins:
`entry(k).or_insert(v)` never overwrites).
-/
namespace SmVerif

structure Bld where
  file : Option Bytes := none
  nameMap : List (Bytes × Nat) := []
  names : List Bytes := []
  tokens : List Tok := []
  sourceMap : List (Bytes × Nat) := []
  root : Option Bytes := none
  sources : List Bytes := []
  contents : List (Option Bytes) := []
  mapping : List Nat := []                 -- `sources_mapping`: old id per new source
  ignore : List Nat := []
  debugId : Option Bytes := none
  deriving Repr, DecidableEq

namespace Bld

def new (file : Option Bytes) : Bld := { file := file }

def lookupKey (k : Bytes) : List (Bytes × Nat) → Option Nat
  | [] => none
  | (k', v) :: rest => if k' = k then some v else lookupKey k rest

/-- `add_source_with_id` -/
def addSourceWithId (b : Bld) (src : Bytes) (oldId : Nat) : Bld × Nat :=
  let count := b.sources.length
  match lookupKey src b.sourceMap with
  | some id =>
    -- `if id == count` can also hold for a stale entry after `set_source`... it cannot: ids are < count
    if id = count then ({ b with sources := b.sources ++ [src], mapping := b.mapping ++ [oldId] }, id)
    else (b, id)
  | none =>
    ({ b with sourceMap := b.sourceMap ++ [(src, count)], sources := b.sources ++ [src],
              mapping := b.mapping ++ [oldId] }, count)

def addSource (b : Bld) (src : Bytes) : Bld × Nat := b.addSourceWithId src NONE

/-- `add_name` -/
def addName (b : Bld) (name : Bytes) : Bld × Nat :=
  let count := b.names.length
  match lookupKey name b.nameMap with
  | some id => if id = count then ({ b with names := b.names ++ [name] }, id) else (b, id)
  | none => ({ b with nameMap := b.nameMap ++ [(name, count)], names := b.names ++ [name] }, count)

/-- `add_with_id` -/
def addWithId (b : Bld) (dl dc sl sc : Nat) (source : Option Bytes) (sourceId : Nat)
    (name : Option Bytes) (rng : Bool) : Bld × Tok :=
  let (b, srcId) := match source with
    | some s => b.addSourceWithId s sourceId
    | none => (b, NONE)
  let (b, nameId) := match name with
    | some n => b.addName n
    | none => (b, NONE)
  let t : Tok := { dl := dl, dc := dc, sl := sl, sc := sc, src := srcId, name := nameId, rng := rng }
  ({ b with tokens := b.tokens ++ [t] }, t)

def add (b : Bld) (dl dc sl sc : Nat) (source name : Option Bytes) (rng : Bool) : Bld × Tok :=
  b.addWithId dl dc sl sc source NONE name rng

/-- `add_raw` -/
def addRaw (b : Bld) (dl dc sl sc : Nat) (source name : Option Nat) (rng : Bool) : Bld × Tok :=
  let t : Tok := { dl := dl, dc := dc, sl := sl, sc := sc, src := source.getD NONE, name := name.getD NONE, rng := rng }
  ({ b with tokens := b.tokens ++ [t] }, t)

/-- `add_token(&token, with_name)` for a token `t` of map `m`; `srcCol` is what `Token::get_src_col`
reports (the raw column for iterated tokens) -/
def addToken (b : Bld) (m : SMap) (t : Tok) (withName : Bool) : Bld × Tok :=
  b.addWithId t.dl t.dc t.sl t.sc (m.tokSource t) t.src (if withName then m.tokName t else none) t.rng

/-- `set_source` (asserts `src_id != !0`, then indexes) -/
def setSource (b : Bld) (i : Nat) (v : Bytes) : Res Bld :=
  if i = NONE ∨ i ≥ b.sources.length then .error .panic else .ok { b with sources := b.sources.set i v }

/-- `set_source_contents` -/
def setSourceContents (b : Bld) (i : Nat) (v : Option Bytes) : Res Bld :=
  if i = NONE then .error .panic
  else
    let c := if b.sources.length > b.contents.length then SMap.resizeOpt b.contents b.sources.length else b.contents
    if i ≥ c.length then .error .panic else .ok { b with contents := c.set i v }

def getSourceContents (b : Bld) (i : Nat) : Option Bytes := (b.contents[i]?).join
def hasSourceContents (b : Bld) (i : Nat) : Bool := (b.getSourceContents i).isSome

def addToIgnoreList (b : Bld) (i : Nat) : Bld := { b with ignore := SMap.insertSorted i b.ignore }

/-- one source through `strip_prefixes`: the first prefix (with `/` appended if missing) that
matches is removed -/
def stripOne (prefixes : List Bytes) (s : Bytes) : Bytes :=
  match prefixes with
  | [] => s
  | p :: ps =>
    let p := if p.getLast? = some 47 then p else p ++ [47]
    if p.isPrefixOf s then s.drop p.length else stripOne ps s

def stripPrefixes (b : Bld) (prefixes : List Bytes) : Bld :=
  { b with sources := b.sources.map (stripOne prefixes) }

/-- `into_sourcemap` -/
def intoSourcemap (b : Bld) : SMap :=
  let contents := if b.contents.isEmpty then none else some b.contents
  let m := SMap.new b.file b.tokens b.names b.sources contents
  let m := m.setSourceRoot b.root
  let m := { m with debugId := b.debugId }
  b.ignore.foldl (fun m i => m.addToIgnoreList i) m

/-- `set_source_root`, `set_file`, `set_debug_id`, `get_source` on the builder -/
def setSourceRoot (b : Bld) (r : Option Bytes) : Bld := { b with root := r }
def setFile (b : Bld) (f : Option Bytes) : Bld := { b with file := f }
def setDebugId (b : Bld) (d : Option Bytes) : Bld := { b with debugId := d }
def getSource (b : Bld) (i : Nat) : Option Bytes := b.sources[i]?

end Bld

/-- `RewriteOptions` (the in-memory part: `load_local_source_contents` is off) -/
structure RewriteOpts where
  withNames : Bool := true
  withContents : Bool := true
  stripPrefixes : List Bytes := []
  deriving Repr

namespace SMap

/-- the token loop of `rewrite_with_mapping` -/
def rewriteLoop (m : SMap) (o : RewriteOpts) : List Tok → Bld → Res Bld
  | [], b => .ok b
  | t :: ts, b =>
    let (b, raw) := b.addToken m t o.withNames
    if raw.src ≠ NONE ∧ o.withContents ∧ !b.hasSourceContents raw.src then
      match b.setSourceContents raw.src (m.getSourceContents t.src) with
      | .error e => .error e
      | .ok b => rewriteLoop m o ts b
    else rewriteLoop m o ts b

/-- `rewrite_with_mapping` without the `~` common-prefix option (prefixes are explicit) -/
def rewriteWithMapping (m : SMap) (o : RewriteOpts) : Res (SMap × List Nat) :=
  let b := { Bld.new m.file with debugId := m.debugId }
  match rewriteLoop m o m.tokens b with
  | .error e => .error e
  | .ok b =>
    let b := if o.stripPrefixes.isEmpty then b else b.stripPrefixes o.stripPrefixes
    .ok (b.intoSourcemap, b.mapping)

def rewrite (m : SMap) (o : RewriteOpts) : Res SMap :=
  match m.rewriteWithMapping o with
  | .ok (m', _) => .ok m'
  | .error e => .error e

end SMap
end SmVerif
