import SmVerif.Model.Builder
/-
C09 additions to the model.

* `SMap.rewriteWithMapping` / `SMap.rewrite` of Model/Builder.lean are used unchanged (the C09
  correspondence run `rw.run` / `rw.raw` validates them against `SourceMap::rewrite`).
* The Hermes part that C09 needs (hermes.rs:129-156, `SourceMapHermes::rewrite`): the function maps
  (and the raw `x_facebook_sources` entries, by the same expression) are permuted through the
  `sources_mapping` returned by `rewrite_with_mapping`; `get_scope_for_token` picks the function map
  by the token's source id.  The function map itself stays abstract (`α`): C14 owns its decoder and
  the scope search; here only *which* function map a token is resolved against matters.

Out of scope (stated in the package report): the `"~"` entry of `strip_prefixes` (common-prefix
detection over paths) and `load_local_source_contents` (file system).
-/
namespace SmVerif.Rw
open SmVerif

/-- `mapping.iter().map(|idx| function_maps.get_mut(*idx as usize).and_then(Option::take)).collect()`:
every read *takes* the entry, so a second read of the same old id yields `None` -/
def takeLoop {α : Type} : List Nat → List (Option α) → List (Option α)
  | [], _ => []
  | i :: is, fms => (fms[i]?).join :: takeLoop is (fms.set i none)

/-- `SourceMapHermes::rewrite`: the map is rewritten, the function maps are permuted when there are
at least as many of them as new sources (the repaired guard of F9), else left as they are -/
def hermesRewrite {α : Type} (m : SMap) (fms : List (Option α)) (o : RewriteOpts) :
    Res (SMap × List (Option α)) :=
  match m.rewriteWithMapping o with
  | .error e => .error e
  | .ok (m', mapping) =>
    .ok (m', if fms.length ≥ mapping.length then takeLoop mapping fms else fms)

/-- `get_scope_for_token`: the function map is selected by `token.get_src_id()`; the search inside
the function map (`fmScope`, C14) sees the token's original line and column only -/
def scopeFor {α : Type} (fmScope : α → Nat → Nat → Option Bytes) (fms : List (Option α)) (t : Tok) :
    Option Bytes :=
  match (fms[t.src]?).join with
  | none => none
  | some fm => fmScope fm t.sl t.sc

/-! ### a concrete function map for the driver (decoded form; sorted entries) -/

structure FMap where
  names : List Bytes
  entries : List (Nat × Nat × Nat)      -- (line (1-based), column, name index), ascending
  deriving Repr, DecidableEq

/-- `get_scope_for_token` on one function map whose entries are ascending: `partition_point` is
then the number of entries at or before the key -/
def fmScope (fm : FMap) (sl sc : Nat) : Option Bytes :=
  if sl + 1 > NONE then none
  else
    let k := (fm.entries.filter fun e => Lookup.posLe (e.1, e.2.1) (sl + 1, sc)).length
    if k = 0 then none
    else match fm.entries[k - 1]? with
      | none => none
      | some e => fm.names[e.2.2]?

end SmVerif.Rw
