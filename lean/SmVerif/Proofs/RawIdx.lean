import SmVerif.Proofs.RawRt
/-
Document level, recursion over index maps: the map read back from what was written (`canonD`),
round trip, observational equality, second-generation stability.
-/
namespace SmVerif.RawIdx
open SmVerif SmVerif.Raw SmVerif.Mappings SmVerif.V3 SmVerif.Lookup SmVerif.RawP SmVerif.RawRt

mutual
/-- the decoded map obtained by reading back what was written for a decoded map -/
def canonD : DMap → DMap
  | .regular m => .regular (canon m)
  | .hermes m raw => .hermes (canon m) raw
  | .index file secs _ _ => .index file (canonSecs secs) none none
def canonSecs : DSecs → DSecs
  | .nil => .nil
  | .cons l c u m rest => .cons l c u (canonOpt m) (canonSecs rest)
def canonOpt : DOpt → DOpt
  | .none => .none
  | .some m => .some (canonD m)
end

mutual
/-- C01's observational equality, `a` read back from what was written for `b`: regular maps as in
`ObsEq`, Hermes maps additionally with the same payload, index maps with the same file and
section by section the same offset, url and embedded map -/
def ObsEqD : DMap → DMap → Prop
  | .regular a, .regular b => ObsEq a b
  | .hermes a ra, .hermes b rb => ObsEq a b ∧ ra = rb
  | .index fa sa _ _, .index fb sb _ _ => fa = fb ∧ ObsEqSecs sa sb
  | _, _ => False
def ObsEqSecs : DSecs → DSecs → Prop
  | .nil, .nil => True
  | .cons l c u m rest, .cons l' c' u' m' rest' => l = l' ∧ c = c' ∧ u = u' ∧ ObsEqOpt m m' ∧ ObsEqSecs rest rest'
  | _, _ => False
def ObsEqOpt : DOpt → DOpt → Prop
  | .none, .none => True
  | .some a, .some b => ObsEqD a b
  | _, _ => False
end

/-! ### sections -/

theorem sortSecs_sorted : ∀ secs : DSecs, secsSorted secs → sortSecs secs = secs
  | .nil, _ => rfl
  | .cons l c u m .nil, _ => rfl
  | .cons l c u m (.cons l' c' u' m' rest), h => by
    obtain ⟨h1, h2⟩ := h
    rw [sortSecs, sortSecs_sorted _ h2, insertSec, if_pos h1]

theorem offLe_total (a b : Nat × Nat) : offLe a b = true ∨ offLe b a = true := by
  unfold offLe
  simp only [Bool.or_eq_true, decide_eq_true_eq, Bool.and_eq_true]
  omega

theorem offLe_trans {a b c : Nat × Nat} (h1 : offLe a b = true) (h2 : offLe b c = true) : offLe a c = true := by
  unfold offLe at *
  simp only [Bool.or_eq_true, decide_eq_true_eq, Bool.and_eq_true] at *
  omega

/-- head offset bound: every section of the list starts at or after `p` -/
def lowerBound (p : Nat × Nat) : DSecs → Prop
  | .nil => True
  | .cons l c _ _ _ => offLe p (l, c) = true

theorem insertSec_sorted (l c : Nat) (u : Option Bytes) (m : DOpt) :
    ∀ secs : DSecs, secsSorted secs → secsSorted (insertSec l c u m secs) ∧
      (∀ p, offLe p (l, c) = true → lowerBound p secs → lowerBound p (insertSec l c u m secs))
  | .nil, _ => ⟨trivial, fun _ hp _ => hp⟩
  | .cons l' c' u' m' rest, h => by
    rw [insertSec]
    by_cases hle : offLe (l, c) (l', c') = true
    · rw [if_pos hle]
      exact ⟨⟨hle, h⟩, fun _ hp _ => hp⟩
    · rw [if_neg hle]
      have hge : offLe (l', c') (l, c) = true := by
        rcases offLe_total (l, c) (l', c') with h' | h'
        · exact absurd h' hle
        · exact h'
      have hrest : secsSorted rest := by
        cases rest with
        | nil => trivial
        | cons _ _ _ _ _ => exact h.2
      have hlb : lowerBound (l', c') rest := by
        cases rest with
        | nil => trivial
        | cons _ _ _ _ _ => exact h.1
      obtain ⟨ih1, ih2⟩ := insertSec_sorted l c u m rest hrest
      have hlb' := ih2 (l', c') hge hlb
      refine ⟨?_, fun p _ hp => hp⟩
      cases hi : insertSec l c u m rest with
      | nil => trivial
      | cons a b x y z =>
        rw [hi] at ih1 hlb'
        exact ⟨hlb', ih1⟩

theorem sortSecs_isSorted : ∀ secs : DSecs, secsSorted (sortSecs secs)
  | .nil => trivial
  | .cons l c u m rest => by
    rw [sortSecs]
    exact (insertSec_sorted l c u m _ (sortSecs_isSorted rest)).1

theorem insertSec_wf (P : SMap → Prop) (l c : Nat) (u : Option Bytes) (m : DOpt) (hm : WfOpt P m) :
    ∀ secs : DSecs, WfSecs P secs → WfSecs P (insertSec l c u m secs)
  | .nil, _ => by rw [insertSec, WfSecs]; exact ⟨hm, trivial⟩
  | .cons l' c' u' m' rest, h => by
    rw [WfSecs] at h
    rw [insertSec]
    by_cases hle : offLe (l, c) (l', c') = true
    · rw [if_pos hle, WfSecs, WfSecs]; exact ⟨hm, h⟩
    · rw [if_neg hle, WfSecs]; exact ⟨h.1, insertSec_wf P l c u m hm rest h.2⟩

theorem sortSecs_wf (P : SMap → Prop) : ∀ secs : DSecs, WfSecs P secs → WfSecs P (sortSecs secs)
  | .nil, _ => by rw [sortSecs]; trivial
  | .cons l c u m rest, h => by
    rw [WfSecs] at h
    rw [sortSecs]
    exact insertSec_wf P l c u m h.1 _ (sortSecs_wf P rest h.2)

theorem canonSecs_sorted : ∀ secs : DSecs, secsSorted secs → secsSorted (canonSecs secs)
  | .nil, _ => by rw [canonSecs]; trivial
  | .cons l c u m .nil, _ => by rw [canonSecs, canonSecs]; trivial
  | .cons l c u m (.cons l' c' u' m' rest), h => by
    have := canonSecs_sorted (.cons l' c' u' m' rest) h.2
    rw [canonSecs] at this ⊢
    rw [canonSecs]
    exact ⟨h.1, this⟩

/-! ### the recursion -/

theorem file_str_lenient (which : Nat) (file : Option Bytes) :
    (file.map JVal.str).map (lenientFile which) = file := by
  cases file <;> rfl

theorem asRawRegular_fb (m : SMap) (f : RawFlat) (h : asRawRegular m = .ok f) : f.fbSources = none := by
  unfold asRawRegular at h
  dsimp only at h
  cases h1 : serializeRangeMappings m.tokens with
  | error e => rw [h1] at h; cases h
  | ok rm =>
    rw [h1] at h
    cases h2 : serializeMappings m.tokens m.names.length with
    | error e => rw [h2] at h; cases h
    | ok mp =>
      rw [h2] at h
      cases h
      rfl

mutual
/-- a well-formed map can always be written -/
theorem asRaw_total : ∀ dm : DMap, WfD WfMap dm → ∃ r, asRaw dm = .ok r
  | .regular m, h => by
    obtain ⟨f, hf⟩ := asRawRegular_total m h
    exact ⟨_, by rw [asRaw, hf]⟩
  | .hermes m raw, h => by
    obtain ⟨f, hf⟩ := asRawRegular_total m h
    exact ⟨_, by rw [asRaw, hf]⟩
  | .index file secs fbo mmp, h => by
    obtain ⟨rs, hrs⟩ := asRawSecs_total secs h.2
    exact ⟨_, by rw [asRaw, hrs]⟩
theorem asRawSecs_total : ∀ secs : DSecs, WfSecs WfMap secs → ∃ rs, asRawSecs secs = .ok rs
  | .nil, _ => ⟨_, by rw [asRawSecs]⟩
  | .cons l c u m rest, h => by
    rw [WfSecs] at h
    obtain ⟨rm, hrm⟩ := asRawOpt_total m h.1
    obtain ⟨rs, hrs⟩ := asRawSecs_total rest h.2
    exact ⟨_, by rw [asRawSecs, hrm, hrs]⟩
theorem asRawOpt_total : ∀ m : DOpt, WfOpt WfMap m → ∃ r, asRawOpt m = .ok r
  | .none, _ => ⟨_, by rw [asRawOpt]⟩
  | .some dm, h => by
    rw [WfOpt] at h
    obtain ⟨r, hr⟩ := asRaw_total dm h
    exact ⟨_, by rw [asRawOpt, hr]⟩
end

mutual
/-- **round trip**: reading back what was written for a well-formed map gives `canonD` of it -/
theorem decode_asRawD : ∀ (dm : DMap) (r : RawDoc), WfD WfMap dm → asRaw dm = .ok r → decodeCommon r = .ok (canonD dm)
  | .regular m, r, h, he => by
    rw [asRaw] at he
    cases hf : asRawRegular m with
    | error e => rw [hf] at he; cases he
    | ok f =>
      rw [hf] at he
      cases he
      rw [decodeCommon, asRawRegular_fb m f hf]
      simp only [Option.isSome_none, Bool.false_eq_true, ↓reduceIte]
      rw [decode_asRaw m f h hf, canonD]
  | .hermes m raw, r, h, he => by
    rw [asRaw] at he
    cases hf : asRawRegular m with
    | error e => rw [hf] at he; cases he
    | ok f =>
      rw [hf] at he
      cases he
      rw [decodeCommon]
      simp only [Option.isSome_some, ↓reduceIte, decodeHermes]
      rw [decodeRegular_fb, decode_asRaw m f h hf, canonD]
  | .index file secs fbo mmp, r, h, he => by
    rw [asRaw] at he
    cases hs : asRawSecs secs with
    | error e => rw [hs] at he; cases he
    | ok rs =>
      rw [hs] at he
      cases he
      rw [decodeCommon, decode_asRawSecs secs rs h.2 hs, canonD]
      simp only [indexFlat, file_str_lenient]
      rw [sortSecs_sorted _ (canonSecs_sorted secs h.1)]
theorem decode_asRawSecs : ∀ (secs : DSecs) (rs : RawSecs), WfSecs WfMap secs → asRawSecs secs = .ok rs →
    decodeSecs rs = .ok (canonSecs secs)
  | .nil, rs, _, he => by
    rw [asRawSecs] at he
    cases he
    rw [decodeSecs, canonSecs]
  | .cons l c u m rest, rs, h, he => by
    rw [WfSecs] at h
    rw [asRawSecs] at he
    cases hm : asRawOpt m with
    | error e => rw [hm] at he; cases he
    | ok rm =>
      rw [hm] at he
      cases hr : asRawSecs rest with
      | error e => rw [hr] at he; cases he
      | ok rr =>
        rw [hr] at he
        cases he
        rw [decodeSecs, decode_asRawOpt m rm h.1 hm, decode_asRawSecs rest rr h.2 hr, canonSecs]
theorem decode_asRawOpt : ∀ (m : DOpt) (r : RawOpt), WfOpt WfMap m → asRawOpt m = .ok r →
    decodeOpt r = .ok (canonOpt m)
  | .none, r, _, he => by
    rw [asRawOpt] at he
    cases he
    rw [decodeOpt, canonOpt]
  | .some dm, r, h, he => by
    rw [WfOpt] at h
    rw [asRawOpt] at he
    cases hd : asRaw dm with
    | error e => rw [hd] at he; cases he
    | ok d =>
      rw [hd] at he
      cases he
      rw [decodeOpt, decode_asRawD dm d h hd, canonOpt]
end

mutual
/-- the map read back is observationally equal to the map written -/
theorem canonD_obs : ∀ dm : DMap, WfD WfMap dm → ObsEqD (canonD dm) dm
  | .regular m, h => by rw [canonD, ObsEqD]; exact canon_obs m h
  | .hermes m raw, h => by rw [canonD, ObsEqD]; exact ⟨canon_obs m h, rfl⟩
  | .index file secs fbo mmp, h => by rw [canonD, ObsEqD]; exact ⟨rfl, canonSecs_obs secs h.2⟩
theorem canonSecs_obs : ∀ secs : DSecs, WfSecs WfMap secs → ObsEqSecs (canonSecs secs) secs
  | .nil, _ => by rw [canonSecs, ObsEqSecs]; trivial
  | .cons l c u m rest, h => by
    rw [WfSecs] at h
    rw [canonSecs, ObsEqSecs]
    exact ⟨rfl, rfl, rfl, canonOpt_obs m h.1, canonSecs_obs rest h.2⟩
theorem canonOpt_obs : ∀ m : DOpt, WfOpt WfMap m → ObsEqOpt (canonOpt m) m
  | .none, _ => by rw [canonOpt, ObsEqOpt]; trivial
  | .some dm, h => by
    rw [WfOpt] at h
    rw [canonOpt, ObsEqOpt]
    exact canonD_obs dm h
end

mutual
/-- the map read back is again well-formed, with tokens in wire normal form -/
theorem canonD_decoded : ∀ dm : DMap, WfD WfMap dm → WfD Decoded (canonD dm)
  | .regular m, h => by rw [canonD, WfD]; exact canon_decoded m h
  | .hermes m raw, h => by rw [canonD, WfD]; exact canon_decoded m h
  | .index file secs fbo mmp, h => by
    rw [canonD, WfD]
    exact ⟨canonSecs_sorted secs h.1, canonSecs_decoded secs h.2⟩
theorem canonSecs_decoded : ∀ secs : DSecs, WfSecs WfMap secs → WfSecs Decoded (canonSecs secs)
  | .nil, _ => by rw [canonSecs, WfSecs]; trivial
  | .cons l c u m rest, h => by
    rw [WfSecs] at h
    rw [canonSecs, WfSecs]
    exact ⟨canonOpt_decoded m h.1, canonSecs_decoded rest h.2⟩
theorem canonOpt_decoded : ∀ m : DOpt, WfOpt WfMap m → WfOpt Decoded (canonOpt m)
  | .none, _ => by rw [canonOpt, WfOpt]; trivial
  | .some dm, h => by
    rw [WfOpt] at h
    rw [canonOpt, WfOpt]
    exact canonD_decoded dm h
end

mutual
theorem wfD_mono {P Q : SMap → Prop} (hpq : ∀ m, P m → Q m) : ∀ dm : DMap, WfD P dm → WfD Q dm
  | .regular m, h => by rw [WfD] at h ⊢; exact hpq m h
  | .hermes m raw, h => by rw [WfD] at h ⊢; exact hpq m h
  | .index file secs fbo mmp, h => by rw [WfD] at h ⊢; exact ⟨h.1, wfSecs_mono hpq secs h.2⟩
theorem wfSecs_mono {P Q : SMap → Prop} (hpq : ∀ m, P m → Q m) : ∀ secs : DSecs, WfSecs P secs → WfSecs Q secs
  | .nil, _ => by rw [WfSecs]; trivial
  | .cons l c u m rest, h => by
    rw [WfSecs] at h ⊢
    exact ⟨wfOpt_mono hpq m h.1, wfSecs_mono hpq rest h.2⟩
theorem wfOpt_mono {P Q : SMap → Prop} (hpq : ∀ m, P m → Q m) : ∀ m : DOpt, WfOpt P m → WfOpt Q m
  | .none, _ => by rw [WfOpt]; trivial
  | .some dm, h => by rw [WfOpt] at h ⊢; exact wfD_mono hpq dm h
end

mutual
/-- **second generation**: writing the map that was read back gives the same record -/
theorem asRaw_canonD : ∀ dm : DMap, WfD Decoded dm → asRaw (canonD dm) = asRaw dm
  | .regular m, h => by rw [canonD, asRaw, asRaw, asRaw_canon m h]
  | .hermes m raw, h => by rw [canonD, asRaw, asRaw, asRaw_canon m h]
  | .index file secs fbo mmp, h => by rw [canonD, asRaw, asRaw, asRawSecs_canon secs h.2]
theorem asRawSecs_canon : ∀ secs : DSecs, WfSecs Decoded secs → asRawSecs (canonSecs secs) = asRawSecs secs
  | .nil, _ => by rw [canonSecs]
  | .cons l c u m rest, h => by
    rw [WfSecs] at h
    rw [canonSecs, asRawSecs, asRawSecs, asRawOpt_canon m h.1, asRawSecs_canon rest h.2]
theorem asRawOpt_canon : ∀ m : DOpt, WfOpt Decoded m → asRawOpt (canonOpt m) = asRawOpt m
  | .none, _ => by rw [canonOpt]
  | .some dm, h => by
    rw [WfOpt] at h
    rw [canonOpt, asRawOpt, asRawOpt, asRaw_canonD dm h]
end

/-! ### what decoding a document gives -/

mutual
/-- no `mappings` string of the document has 2^32 or more lines, no `sources` / `names` array 2^32
or more entries (the model's lists are unbounded) -/
def SmallDoc : RawDoc → Prop
  | .plain f => SmallFlat f
  | .indexed _ secs => SmallSecs secs
def SmallSecs : RawSecs → Prop
  | .nil => True
  | .cons _ _ _ m rest => SmallOpt m ∧ SmallSecs rest
def SmallOpt : RawOpt → Prop
  | .none => True
  | .some d => SmallDoc d
end

mutual
theorem decodeCommon_decoded : ∀ (d : RawDoc) (dm : DMap), SmallDoc d → decodeCommon d = .ok dm → WfD Decoded dm
  | .plain f, dm, hs, h => by
    rw [SmallDoc] at hs
    rw [decodeCommon] at h
    by_cases hfb : f.fbSources.isSome = true
    · rw [if_pos hfb, decodeHermes] at h
      cases hf : f.fbSources with
      | none => rw [hf] at hfb; cases hfb
      | some raw =>
        rw [hf] at h
        simp only at h
        cases hr : decodeRegular f with
        | error e => rw [hr] at h; cases h
        | ok m =>
          rw [hr] at h
          cases h
          rw [WfD]
          exact decodeRegular_decoded f m hs hr
    · rw [if_neg hfb] at h
      cases hr : decodeRegular f with
      | error e => rw [hr] at h; cases h
      | ok m =>
        rw [hr] at h
        cases h
        rw [WfD]
        exact decodeRegular_decoded f m hs hr
  | .indexed f secs, dm, hs, h => by
    rw [SmallDoc] at hs
    rw [decodeCommon] at h
    cases hd : decodeSecs secs with
    | error e => rw [hd] at h; cases h
    | ok ds =>
      rw [hd] at h
      cases h
      rw [WfD]
      exact ⟨sortSecs_isSorted ds, sortSecs_wf Decoded ds (decodeSecs_decoded secs ds hs hd)⟩
theorem decodeSecs_decoded : ∀ (secs : RawSecs) (ds : DSecs), SmallSecs secs → decodeSecs secs = .ok ds → WfSecs Decoded ds
  | .nil, ds, _, h => by
    rw [decodeSecs] at h
    cases h
    rw [WfSecs]; trivial
  | .cons l c u m rest, ds, hs, h => by
    rw [SmallSecs] at hs
    rw [decodeSecs] at h
    cases hm : decodeOpt m with
    | error e => rw [hm] at h; cases h
    | ok dm =>
      rw [hm] at h
      cases hr : decodeSecs rest with
      | error e => rw [hr] at h; cases h
      | ok dr =>
        rw [hr] at h
        cases h
        rw [WfSecs]
        exact ⟨decodeOpt_decoded m dm hs.1 hm, decodeSecs_decoded rest dr hs.2 hr⟩
theorem decodeOpt_decoded : ∀ (m : RawOpt) (dm : DOpt), SmallOpt m → decodeOpt m = .ok dm → WfOpt Decoded dm
  | .none, dm, _, h => by
    rw [decodeOpt] at h
    cases h
    rw [WfOpt]; trivial
  | .some d, dm, hs, h => by
    rw [SmallOpt] at hs
    rw [decodeOpt] at h
    cases hd : decodeCommon d with
    | error e => rw [hd] at h; cases h
    | ok x =>
      rw [hd] at h
      cases h
      rw [WfOpt]
      exact decodeCommon_decoded d x hs hd
end

end SmVerif.RawIdx
