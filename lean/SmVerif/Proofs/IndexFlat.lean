import SmVerif.Proofs.IndexBld
/-
C08 helper lemmas, part 2: `flatten` is the builder loop run over the specification's token list;
what `into_sourcemap` makes of the builder; nested indexes by structural induction.
-/
namespace SmVerif.IndexP
open SmVerif SmVerif.Lookup SmVerif.Index SmVerif.Index.Spec

/-! ### the token loop -/

theorem flattenTok_eq (m : SMap) (ol oc : Nat) (t : Tok) (b : Bld) :
    flattenTok m ol oc t b =
      if fitsShift ol oc (xOfTok m t).v = true then bldStep b (shiftX ol oc (xOfTok m t)) else .error .flatten := by
  unfold flattenTok fitsShift
  by_cases h0 : t.dl = 0
  · by_cases h1 : t.dc + oc > NONE
    · have : ¬ (t.dc + oc ≤ NONE) := by omega
      simp [xOfTok, h0, h1, this]
    · by_cases h2 : t.dl + ol > NONE
      · have : ¬ (ol ≤ NONE) := by omega
        simp [xOfTok, h0, h1, this]
      · have h1' : t.dc + oc ≤ NONE := by omega
        have h2' : ol ≤ NONE := by omega
        have h2'' : ¬ NONE < ol := by omega
        have h1'' : ¬ NONE < t.dc + oc := by omega
        simp [xOfTok, h0, h1', h2', h1'', h2'', bldStep, shiftX, shiftV]
        rfl
  · by_cases h2 : t.dl + ol > NONE
    · have : ¬ (t.dl + ol ≤ NONE) := by omega
      simp [xOfTok, h0, h2, this]
    · have h2' : t.dl + ol ≤ NONE := by omega
      have h2'' : ¬ NONE < t.dl + ol := by omega
      simp [xOfTok, h0, h2', h2'', bldStep, shiftX, shiftV]
      rfl

/-- the tokens of a plain section map, resolved and shifted -/
def shifted (m : SMap) (ol oc : Nat) (ts : List Tok) : List XTok := ts.map fun t => shiftX ol oc (xOfTok m t)

def allFit (m : SMap) (ol oc : Nat) (ts : List Tok) : Bool := ts.all fun t => fitsShift ol oc (xOfTok m t).v

theorem flattenToks_inv (m : SMap) (ol oc : Nat) (ts : List Tok) :
    ∀ (b : Bld) (xs : List XTok), Inv b xs → xs.length + ts.length ≤ NONE →
      (allFit m ol oc ts = true →
        ∃ b', flattenToks m ol oc ts b = .ok b' ∧ Inv b' (xs ++ shifted m ol oc ts) ∧ b'.file = b.file ∧ b'.root = b.root) ∧
      (allFit m ol oc ts = false → flattenToks m ol oc ts b = .error .flatten) := by
  induction ts with
  | nil =>
    intro b xs h _
    exact ⟨fun _ => ⟨b, rfl, by simpa [shifted] using h, rfl, rfl⟩, fun hf => by simp [allFit] at hf⟩
  | cons t ts ih =>
    intro b xs h hsz
    simp only [List.length_cons] at hsz
    by_cases hfit : fitsShift ol oc (xOfTok m t).v = true
    · obtain ⟨b1, hs1, hi1, hf1, hr1⟩ := inv_step h (shiftX ol oc (xOfTok m t)) (by omega)
      obtain ⟨ihok, iherr⟩ := ih b1 (xs ++ [shiftX ol oc (xOfTok m t)]) hi1 (by simp; omega)
      have hstep : flattenTok m ol oc t b = .ok b1 := by rw [flattenTok_eq, if_pos hfit, hs1]
      constructor
      · intro hall
        have hall' : allFit m ol oc ts = true := by
          simp only [allFit, List.all_cons, Bool.and_eq_true] at hall ⊢; exact hall.2
        obtain ⟨b2, hs2, hi2, hf2, hr2⟩ := ihok hall'
        refine ⟨b2, ?_, ?_, by rw [hf2, hf1], by rw [hr2, hr1]⟩
        · simp only [flattenToks, hstep, hs2]
        · simpa [shifted] using hi2
      · intro hall
        have hall' : allFit m ol oc ts = false := by
          simp only [allFit, List.all_cons, hfit, Bool.true_and] at hall ⊢; exact hall
        simp only [flattenToks, hstep, iherr hall']
    · constructor
      · intro hall
        simp only [allFit, List.all_cons, Bool.and_eq_true] at hall
        exact absurd hall.1 hfit
      · intro _
        have hstep : flattenTok m ol oc t b = .error .flatten := by rw [flattenTok_eq, if_neg hfit]
        simp only [flattenToks, hstep]

/-! ### `into_sourcemap` -/

theorem foldl_ignore (l : List Nat) (m : SMap) :
    let r := l.foldl (fun m i => m.addToIgnoreList i) m
    r.tokens = m.tokens ∧ r.names = m.names ∧ r.sources = m.sources ∧ r.prefixed = m.prefixed ∧
      r.contents = m.contents ∧ r.file = m.file ∧ ∀ j, j ∈ r.ignore ↔ j ∈ m.ignore ∨ j ∈ l := by
  induction l generalizing m with
  | nil => simp
  | cons i l ih =>
    obtain ⟨h1, h2, h3, h4, h5, h6, h7⟩ := ih (m.addToIgnoreList i)
    simp only [List.foldl_cons]
    refine ⟨h1, h2, h3, h4, h5, h6, fun j => ?_⟩
    rw [h7 j]
    simp only [SMap.addToIgnoreList, insertSorted_mem, List.mem_cons]
    constructor
    · rintro ((h | h) | h)
      · exact Or.inr (Or.inl h)
      · exact Or.inl h
      · exact Or.inr (Or.inr h)
    · rintro (h | h | h)
      · exact Or.inl (Or.inr h)
      · exact Or.inl (Or.inl h)
      · exact Or.inr h

theorem into_fields (b : Bld) (hroot : b.root = none) :
    let m := b.intoSourcemap
    m.tokens = sortToks b.tokens ∧ m.names = b.names ∧ m.sources = b.sources ∧ m.prefixed = none ∧
      m.contents = b.contents ∧ m.file = b.file ∧ ∀ j, j ∈ m.ignore ↔ j ∈ b.ignore := by
  unfold Bld.intoSourcemap
  simp only [hroot, SMap.setSourceRoot]
  generalize hm0 : ({ SMap.new b.file b.tokens b.names b.sources
      (if b.contents.isEmpty = true then none else some b.contents) with root := none, prefixed := none, debugId := b.debugId } : SMap) = m0
  obtain ⟨h1, h2, h3, h4, h5, h6, h7⟩ := foldl_ignore b.ignore m0
  have hc : m0.contents = b.contents := by
    subst hm0
    simp only [SMap.new]
    by_cases he : b.contents.isEmpty = true
    · simp only [he, ↓reduceIte, Option.getD_none]
      exact (List.isEmpty_iff.mp he).symm
    · simp [he]
  refine ⟨?_, ?_, ?_, ?_, ?_, ?_, ?_⟩
  · rw [h1]; subst hm0; rfl
  · rw [h2]; subst hm0; rfl
  · rw [h3]; subst hm0; rfl
  · rw [h4]; subst hm0; rfl
  · rw [h5]; exact hc
  · rw [h6]; subst hm0; rfl
  · intro j; rw [h7 j]; subst hm0; simp [SMap.new]

/-- contents / ignore flag of a token re-read by source name -/
def normX (xs : List XTok) (x : XTok) : XTok := { x with cont := firstCont xs x.v.src, ign := anyIgn xs x.v.src }

theorem byName_eq (xs : List XTok) : byName xs = xs.map (normX xs) := rfl

/-- what the flattened map reports for a token of the builder -/
theorem into_view {b : Bld} {xs : List XTok} (h : Inv b xs) (hroot : b.root = none) (hsz : xs.length < NONE)
    {t : Tok} {x : XTok} (hr : Rel b.sources b.names t x) :
    xOfTok b.intoSourcemap t = normX xs x := by
  obtain ⟨_, hnm, hsrc, hpre, hcont, _, hign⟩ := into_fields b hroot
  obtain ⟨hdl, hdc, hsl, hsc, hrng, hrs, hrn⟩ := hr
  have hS := h.slen
  have hN := h.nlen
  have hC := h.clen
  -- source
  have hts : b.intoSourcemap.tokSource t = x.v.src := by
    simp only [SMap.tokSource, SMap.getSource, hpre, hsrc, Option.getD_none]
    cases hx : x.v.src with
    | none => rw [hx] at hrs; simp only [IdRel] at hrs; simp [hrs]
    | some s =>
      rw [hx] at hrs; simp only [IdRel] at hrs
      have : t.src < b.sources.length := by
        rcases Nat.lt_or_ge t.src b.sources.length with h' | h'
        · exact h'
        · rw [List.getElem?_eq_none h'] at hrs; exact absurd hrs (by simp)
      have hne : ¬ t.src = NONE := by omega
      simp [hne, hrs]
  have htn : b.intoSourcemap.tokName t = x.v.name := by
    simp only [SMap.tokName, SMap.getName, hnm]
    cases hx : x.v.name with
    | none => rw [hx] at hrn; simp only [IdRel] at hrn; simp [hrn]
    | some s =>
      rw [hx] at hrn; simp only [IdRel] at hrn
      have : t.name < b.names.length := by
        rcases Nat.lt_or_ge t.name b.names.length with h' | h'
        · exact h'
        · rw [List.getElem?_eq_none h'] at hrn; exact absurd hrn (by simp)
      have hne : ¬ t.name = NONE := by omega
      simp [hne, hrn]
  -- contents
  have htc : b.intoSourcemap.getSourceContents t.src = firstCont xs x.v.src := by
    simp only [SMap.getSourceContents, hcont]
    cases hx : x.v.src with
    | none =>
      rw [hx] at hrs; simp only [IdRel] at hrs
      rw [hrs, List.getElem?_eq_none (by omega)]; rfl
    | some s =>
      rw [hx] at hrs; simp only [IdRel] at hrs
      have := h.cont t.src s hrs
      simpa [Bld.getSourceContents] using this
  -- ignore flag
  have hti : b.intoSourcemap.ignore.contains t.src = anyIgn xs x.v.src := by
    rw [Bool.eq_iff_iff]
    simp only [List.contains_iff_mem, anyIgn, List.any_eq_true, Bool.and_eq_true, beq_iff_eq]
    rw [hign, h.ign]
    constructor
    · rintro ⟨y, hy, hyi, hyr⟩
      refine ⟨y, hy, hyi, ?_⟩
      cases hx : x.v.src with
      | none =>
        rw [hx] at hrs; simp only [IdRel] at hrs
        cases hys : y.v.src with
        | none => rfl
        | some s' =>
          rw [hys, hrs] at hyr; simp only [IdRel] at hyr
          rw [List.getElem?_eq_none (by omega)] at hyr; exact absurd hyr (by simp)
      | some s =>
        rw [hx] at hrs; simp only [IdRel] at hrs
        cases hys : y.v.src with
        | none =>
          rw [hys] at hyr; simp only [IdRel] at hyr
          have : t.src < b.sources.length := by
            rcases Nat.lt_or_ge t.src b.sources.length with h' | h'
            · exact h'
            · rw [List.getElem?_eq_none h'] at hrs; exact absurd hrs (by simp)
          omega
        | some s' =>
          rw [hys] at hyr; simp only [IdRel] at hyr
          rw [hrs] at hyr; exact hyr.symm
    · rintro ⟨y, hy, hyi, hys⟩
      refine ⟨y, hy, hyi, ?_⟩
      rw [hys]; exact hrs
  simp only [xOfTok, normX, hts, htn, htc, hti, hdl, hdc, hsl, hsc, hrng]

theorem sortToks_view (m : SMap) (ts : List Tok) :
    (sortToks ts).map (xOfTok m) = sortX (ts.map (xOfTok m)) := by
  unfold sortToks sortX
  exact List.map_mergeSort (fun a _ b _ => rfl)

theorem into_spec {b : Bld} {xs : List XTok} (h : Inv b xs) (hroot : b.root = none) (hsz : xs.length < NONE) :
    b.intoSourcemap.tokens.map (xOfTok b.intoSourcemap) = sortX (byName xs) := by
  obtain ⟨htk, _⟩ := into_fields b hroot
  rw [htk, sortToks_view, byName_eq]
  congr 1
  exact h.rel.map_eq fun t x hr => into_view h hroot hsz hr

/-! ### sections and nested indexes -/

theorem sortX_length (xs : List XTok) : (sortX xs).length = xs.length := by
  unfold sortX; exact List.length_mergeSort _

mutual
theorem specX_length : (d : DMap) → (specX d).length = tokCount d
  | .regular m => by simp [specX, tokCount]
  | .hermes m => by simp [specX, tokCount]
  | .index _ secs => by
    rw [specX, sortX_length, byName_eq, List.length_map, tokCount]
    exact specSecs_length secs
theorem specSecs_length : (secs : Secs) → (specSecs secs).length = tokCountSecs secs
  | .nil => by simp [specSecs, tokCountSecs]
  | .unres _ _ _ rest => by rw [specSecs, tokCountSecs]; exact specSecs_length rest
  | .cons _ _ _ d rest => by
    rw [specSecs, tokCountSecs, List.length_append, List.length_map, specX_length d, specSecs_length rest]
end

/-- `sectionMap` delivers the specification's tokens, or fails exactly when the map is not flattenable -/
def SecOk (d : DMap) : Prop :=
  (flattenable d = true → ∃ m, sectionMap d = .ok m ∧ m.tokens.map (xOfTok m) = specX d) ∧
  (flattenable d = false → sectionMap d = .error .flatten)

def SecsOk (secs : Secs) : Prop :=
  ∀ (b : Bld) (xs : List XTok), Inv b xs → xs.length + tokCountSecs secs < NONE →
    (flattenableSecs secs = true →
      ∃ b', flattenSecs secs b = .ok b' ∧ Inv b' (xs ++ specSecs secs) ∧ b'.file = b.file ∧ b'.root = b.root) ∧
    (flattenableSecs secs = false → flattenSecs secs b = .error .flatten)

theorem secOk_index (f : Option Bytes) (secs : Secs) (hs : SecsOk secs) (hsz : tokCountSecs secs < NONE) :
    SecOk (.index f secs) := by
  obtain ⟨hok, herr⟩ := hs (Bld.new f) [] (inv_new f) (by simpa using hsz)
  constructor
  · intro hf
    rw [flattenable] at hf
    obtain ⟨b', hb', hinv, _, hroot⟩ := hok hf
    refine ⟨b'.intoSourcemap, ?_, ?_⟩
    · rw [sectionMap, hb']
    · rw [specX]
      simp only [List.nil_append] at hinv
      exact into_spec hinv (by rw [hroot]; rfl) (by rw [specSecs_length]; exact hsz)
  · intro hf
    rw [flattenable] at hf
    rw [sectionMap, herr hf]

theorem secsOk_cons (ol oc : Nat) (url : Option Bytes) (d : DMap) (rest : Secs)
    (hd : tokCount d < NONE → SecOk d) (hrest : SecsOk rest) : SecsOk (.cons ol oc url d rest) := by
  intro b xs hinv hsz
  rw [tokCountSecs] at hsz
  obtain ⟨hdok, hderr⟩ := hd (by omega)
  by_cases hfd : flattenable d = true
  · obtain ⟨m, hm, hview⟩ := hdok hfd
    have hlen : m.tokens.length = tokCount d := by
      have := congrArg List.length hview
      rw [List.length_map, specX_length] at this; exact this
    have hall : allFit m ol oc m.tokens = (specX d).all (fun x => fitsShift ol oc x.v) := by
      rw [← hview, allFit, List.all_map]; rfl
    have hsh : shifted m ol oc m.tokens = (specX d).map (shiftX ol oc) := by
      rw [← hview, shifted, List.map_map]; rfl
    obtain ⟨htok, hterr⟩ := flattenToks_inv m ol oc m.tokens b xs hinv (by omega)
    by_cases hfit : allFit m ol oc m.tokens = true
    · obtain ⟨b1, hb1, hinv1, hf1, hr1⟩ := htok hfit
      obtain ⟨hrok, hrerr⟩ := hrest b1 (xs ++ shifted m ol oc m.tokens) hinv1
        (by rw [hsh]; simp only [List.length_append, List.length_map, specX_length]; omega)
      constructor
      · intro hfl
        rw [flattenableSecs] at hfl
        simp only [Bool.and_eq_true] at hfl
        obtain ⟨b2, hb2, hinv2, hf2, hr2⟩ := hrok hfl.2
        refine ⟨b2, ?_, ?_, by rw [hf2, hf1], by rw [hr2, hr1]⟩
        · rw [flattenSecs, hm]; simp only [hb1, hb2]
        · rw [specSecs, ← hsh, ← List.append_assoc]; exact hinv2
      · intro hfl
        rw [flattenableSecs, hfd, ← hall, hfit] at hfl
        simp only [Bool.and_self, Bool.true_and] at hfl
        rw [flattenSecs, hm]; simp only [hb1, hrerr hfl]
    · have hfit' : allFit m ol oc m.tokens = false := by simpa using hfit
      constructor
      · intro hfl
        rw [flattenableSecs, ← hall, hfit'] at hfl
        simp at hfl
      · intro _
        rw [flattenSecs, hm]; simp only [hterr hfit']
  · have hfd' : flattenable d = false := by simpa using hfd
    constructor
    · intro hfl
      rw [flattenableSecs, hfd'] at hfl
      simp at hfl
    · intro _
      rw [flattenSecs, hderr hfd']

mutual
theorem sectionMap_spec : (d : DMap) → tokCount d < NONE → SecOk d
  | .regular m, _ => ⟨fun _ => ⟨m, by rw [sectionMap], by rw [specX]⟩, fun h => by simp [flattenable] at h⟩
  | .hermes m, _ => ⟨fun _ => ⟨m, by rw [sectionMap], by rw [specX]⟩, fun h => by simp [flattenable] at h⟩
  | .index f secs, hsz => secOk_index f secs (flattenSecs_spec secs) (by rw [tokCount] at hsz; exact hsz)
theorem flattenSecs_spec : (secs : Secs) → SecsOk secs
  | .nil => by
    intro b xs hinv _
    exact ⟨fun _ => ⟨b, by rw [flattenSecs], by simpa [specSecs] using hinv, rfl, rfl⟩,
      fun h => by simp [flattenableSecs] at h⟩
  | .unres _ _ _ _ => by
    intro b xs _ _
    exact ⟨fun h => by simp [flattenableSecs] at h, fun _ => by rw [flattenSecs]⟩
  | .cons ol oc url d rest => secsOk_cons ol oc url d rest (sectionMap_spec d) (flattenSecs_spec rest)
end

end SmVerif.IndexP
