import SmVerif.Proofs.VlqSpec
import SmVerif.Model.Hermes
/-
C14 helper lemmas, part 1: `parse_vlq_segment_into` never takes the overflow-panic branch, never
returns an empty list, and every value it returns has magnitude at most 2^62 - so the `i64`
additions of `decode_hermes` cannot overflow.
-/
namespace SmVerif.Hermes
open SmVerif SmVerif.Vlq

/-- magnitude at most 2^62 -/
def Bnd (v : Int) : Prop := -4611686018427387904 ≤ v ∧ v ≤ 4611686018427387904

theorem finish_bnd {c : Int} (h : inI64 c = true) : Bnd (finish c) := by
  unfold inI64 at h
  simp only [Bool.and_eq_true, decide_eq_true_eq] at h
  unfold finish Bnd
  split <;> omega

theorem parseLoop_safe : ∀ (bs : List Nat) (cur : Int) (k : Nat) (acc : List Int),
    (k ≤ 12 → 0 ≤ cur ∧ cur < ((2 ^ (5 * k) : Nat) : Int)) →
    (∀ v ∈ acc, Bnd v) →
    parseLoop bs cur k acc ≠ .error .panic ∧
    ∀ vs, parseLoop bs cur k acc = .ok vs → vs ≠ [] ∧ ∀ v ∈ vs, Bnd v := by
  intro bs
  induction bs with
  | nil =>
    intro cur k acc _ hacc
    simp only [parseLoop, decLoop]
    by_cases h1 : cur ≠ 0 ∨ k ≠ 0
    · simp [h1]
    · simp only [h1, ↓reduceIte]
      by_cases h2 : acc = []
      · simp [h2]
      · simp only [h2, ↓reduceIte]
        refine ⟨by simp, ?_⟩
        intro vs hvs
        simp only [Except.ok.injEq] at hvs
        subst hvs
        refine ⟨by simpa using h2, ?_⟩
        intro v hv
        exact hacc v (by simpa using hv)
  | cons c cs ih =>
    intro cur k acc hcur hacc
    rw [parseLoop]
    cases hc : b64Rev c with
    | none => simp
    | some d =>
      simp only
      by_cases hk : 13 ≤ k
      · simp [hk]
      · simp only [hk, ↓reduceIte]
        have hk12 : k ≤ 12 := by omega
        obtain ⟨hc0, hc1⟩ := hcur hk12
        have hP := two_pow_pos' (5 * k)
        have hPle := pow_le_60 k hk12
        have hx : ((d % 32 : Nat) : Int) * (2 : Int) ^ (5 * k)
            = (((d % 32) * 2 ^ (5 * k) : Nat) : Int) := by simp
        have hd32 : d % 32 < 32 := Nat.mod_lt _ (by omega)
        have hmul : (d % 32) * 2 ^ (5 * k) ≤ 31 * 2 ^ (5 * k) :=
          Nat.mul_le_mul_right _ (by omega)
        rw [hx]
        -- the sum stays inside i64
        have hin : inI64 (cur + wrap64 (((d % 32) * 2 ^ (5 * k) : Nat) : Int)) = true := by
          by_cases hk' : k = 12
          · have hP12 : 2 ^ (5 * k) = 1152921504606846976 := by rw [hk']
            rw [hP12] at hc1 ⊢
            unfold wrap64
            apply inI64_of <;> omega
          · have hk11 : k ≤ 11 := by omega
            have hPle2 : 32 * 2 ^ (5 * k) ≤ 1152921504606846976 := by
              have := pow_le_60 (k + 1) (by omega)
              rw [pow5_succ] at this
              exact this
            rw [wrap64_id (by omega) (by omega)]
            apply inI64_of <;> omega
        simp only [hin, Bool.not_true, Bool.false_eq_true, ↓reduceIte]
        by_cases hd : d / 32 = 0
        · simp only [hd, ↓reduceIte]
          apply ih 0 0 _ (by intro _; simp)
          intro v hv
          rcases List.mem_cons.mp hv with h | h
          · subst h; exact finish_bnd hin
          · exact hacc v h
        · simp only [hd, ↓reduceIte]
          apply ih _ (k + 1) acc _ hacc
          intro hk1
          have hk11 : k ≤ 11 := by omega
          have hPle2 : 32 * 2 ^ (5 * k) ≤ 1152921504606846976 := by
            have := pow_le_60 (k + 1) (by omega)
            rw [pow5_succ] at this
            exact this
          rw [wrap64_id (by omega) (by omega), pow5_succ]
          constructor <;> omega

/-- `parse_vlq_segment_into` never panics -/
theorem parseVlq_ne_panic (s : List Nat) : parseVlq s ≠ .error .panic :=
  (parseLoop_safe s 0 0 [] (by intro _; simp) (by simp)).1

/-- a successful parse returns at least one value, all of magnitude ≤ 2^62 -/
theorem parseVlq_ok_bnd {s : List Nat} {vs : List Int} (h : parseVlq s = .ok vs) :
    vs ≠ [] ∧ ∀ v ∈ vs, Bnd v :=
  (parseLoop_safe s 0 0 [] (by intro _; simp) (by simp)).2 vs h

theorem parseLoop_ne_diverge : ∀ (bs : List Nat) (cur : Int) (k : Nat) (acc : List Int),
    parseLoop bs cur k acc ≠ .error .diverge := by
  intro bs
  induction bs with
  | nil =>
    intro cur k acc
    simp only [parseLoop, decLoop]
    split
    · simp
    · split <;> simp
  | cons c cs ih =>
    intro cur k acc
    rw [parseLoop]
    cases b64Rev c with
    | none => simp
    | some d =>
      simp only
      split
      · simp
      · split
        · simp
        · split
          · exact ih _ _ _
          · exact ih _ _ _

theorem parseVlq_ne_diverge (s : List Nat) : parseVlq s ≠ .error .diverge :=
  parseLoop_ne_diverge s 0 0 []

end SmVerif.Hermes
