import SmVerif.Proofs.Lookup
import SmVerif.Model.HermesSpec
/-
C14 helper lemmas, part 4: `partition_point(|o| key(o) <= q) - 1` on entries in non-decreasing
order is the last entry at or before `q`.
-/
namespace SmVerif.Hermes
open SmVerif SmVerif.Lookup SmVerif.Hermes.Metro

/-! ### the bisection as a partition point -/

theorem partitionPoint_spec (keys : List Pos) (q : Pos) (hs : SortedK keys) :
    partitionPoint keys q ≤ keys.length ∧
    (∀ i, i < partitionPoint keys q → posLe (keys.getD i (0, 0)) q = true) ∧
    (∀ i, partitionPoint keys q ≤ i → i < keys.length → posLe (keys.getD i (0, 0)) q = false) := by
  by_cases hne : keys.length = 0
  · simp [partitionPoint, hne]
  · obtain ⟨hb, hb0, hgt⟩ := bsearchLoop_spec keys q hs keys.length keys.length 0 (by omega)
      (by omega) (by omega) (Or.inl rfl) (fun i hi hl => by omega)
    unfold partitionPoint
    simp only [hne, ↓reduceIte]
    generalize bsearchLoop keys q keys.length keys.length 0 = b at hb hb0 hgt
    by_cases hle : posLe (keys.getD b (0, 0)) q = true
    · simp only [hle, ↓reduceIte]
      refine ⟨by omega, ?_, ?_⟩
      · intro i hi
        exact posLe_trans (hs i b (by omega) hb) hle
      · intro i hi hl
        rw [posLe_false_iff]
        exact hgt i (by omega) hl
    · have hlf : posLe (keys.getD b (0, 0)) q = false := by simpa using hle
      simp only [hlf, Bool.false_eq_true, ↓reduceIte, Nat.add_zero]
      have hb00 : b = 0 := by
        rcases hb0 with h | h
        · exact h
        · exact absurd h hle
      subst hb00
      refine ⟨by omega, by intro i hi; simp at hi, ?_⟩
      intro i _ hl
      by_cases hi0 : i = 0
      · subst hi0; simpa using hle
      · rw [posLe_false_iff]; exact hgt i (by omega) hl

/-- when every key lies after `q` the bisection never moves (no order assumption) -/
theorem bsearchLoop_all_gt (keys : List Pos) (q : Pos)
    (h : ∀ i, i < keys.length → posLt q (keys.getD i (0, 0)) = true) :
    ∀ fuel size base, base + size ≤ keys.length → bsearchLoop keys q fuel size base = base := by
  intro fuel
  induction fuel with
  | zero => intro size base _; rfl
  | succ fuel ih =>
    intro size base hb
    rw [bsearchLoop]
    by_cases hsz : size ≤ 1
    · simp [hsz]
    · simp only [hsz, ↓reduceIte]
      have hmid : base + size / 2 < keys.length := by omega
      simp only [h _ hmid, ↓reduceIte]
      exact ih _ _ (by omega)

theorem partitionPoint_all_gt (keys : List Pos) (q : Pos)
    (h : ∀ i, i < keys.length → posLt q (keys.getD i (0, 0)) = true) : partitionPoint keys q = 0 := by
  unfold partitionPoint
  by_cases hne : keys.length = 0
  · simp [hne]
  · simp only [hne, ↓reduceIte]
    rw [bsearchLoop_all_gt keys q h _ _ _ (by omega)]
    have h0 := h 0 (by omega)
    have : posLe (keys.getD 0 (0, 0)) q = false := by rw [posLe_false_iff]; exact h0
    simp only [this, Bool.false_eq_true, ↓reduceIte]

/-! ### filter on a partitioned list -/

theorem filter_eq_take {α} (p : α → Bool) : ∀ (l : List α) (k : Nat), k ≤ l.length →
    (∀ i (h : i < l.length), i < k → p l[i] = true) →
    (∀ i (h : i < l.length), k ≤ i → p l[i] = false) → l.filter p = l.take k := by
  intro l
  induction l with
  | nil => intro k _ _ _; simp
  | cons a l ih =>
    intro k hk h1 h2
    cases k with
    | zero =>
      simp only [List.take_zero, List.filter_eq_nil_iff]
      intro x hx
      obtain ⟨i, hi, rfl⟩ := List.getElem_of_mem hx
      simp [h2 i hi (by omega)]
    | succ k =>
      have ha : p a = true := h1 0 (by simp) (by omega)
      simp only [List.filter_cons, ha, ↓reduceIte, List.take_succ_cons, List.cons.injEq, true_and]
      apply ih k (by simpa using hk)
      · intro i hi hik
        have := h1 (i + 1) (by simpa using hi) (by omega)
        simpa using this
      · intro i hi hik
        have := h2 (i + 1) (by simpa using hi) (by omega)
        simpa using this

theorem getLast?_take {α} (l : List α) (k : Nat) (hk : k ≤ l.length) :
    (l.take k).getLast? = if k = 0 then none else l[k - 1]? := by
  by_cases h0 : k = 0
  · subst h0; simp
  · simp only [h0, ↓reduceIte]
    rw [List.getLast?_eq_getElem?, List.length_take, Nat.min_eq_left hk, List.getElem?_take]
    simp only [ite_eq_left_iff]
    omega

/-! ### the scope -/

theorem getD_map_pos (es : List Entry) (i : Nat) (hi : i < es.length) :
    (es.map Entry.pos).getD i (0, 0) = es[i].pos := by
  simp [List.getD_eq_getElem?_getD, hi]

theorem sortedK_entries {es : List Entry} (h : Sorted es) : SortedK (es.map Entry.pos) :=
  sortedK_of_pairwise (List.pairwise_map.mpr h)

/-- on entries in non-decreasing order the element before the partition point is the last entry
at or before `q` -/
theorem lastLE_eq (es : List Entry) (q : Pos) (hs : Sorted es) :
    lastLE es q =
      if partitionPoint (es.map Entry.pos) q = 0 then none
      else es[partitionPoint (es.map Entry.pos) q - 1]? := by
  obtain ⟨hle, h1, h2⟩ := partitionPoint_spec (es.map Entry.pos) q (sortedK_entries hs)
  rw [List.length_map] at hle h2
  generalize partitionPoint (es.map Entry.pos) q = k at hle h1 h2
  unfold lastLE
  rw [filter_eq_take (fun e => posLe e.pos q) es k hle, getLast?_take es k hle]
  · intro i hi hik
    have := h1 i hik
    rwa [getD_map_pos es i hi] at this
  · intro i hi hik
    have := h2 i hik hi
    rwa [getD_map_pos es i hi] at this

theorem scopeAt_eq_scope (fms : List (Option FMap)) (src sl sc : Nat) (fm : FMap)
    (hfm : fms[src]? = some (some fm)) (hs : Sorted fm.entries) (hl : sl < NONE) :
    scopeAt fms src sl sc = Metro.scope fm sl sc := by
  unfold scopeAt Metro.scope
  simp only [hfm]
  have : ¬ sl + 1 > NONE := by omega
  simp only [this, ↓reduceIte]
  rw [lastLE_eq fm.entries (sl + 1, sc) hs]
  by_cases h0 : partitionPoint (fm.entries.map Entry.pos) (sl + 1, sc) = 0
  · simp [h0]
  · simp only [h0, ↓reduceIte]
    cases fm.entries[partitionPoint (fm.entries.map Entry.pos) (sl + 1, sc) - 1]? <;> rfl

/-- no order assumption: if every entry lies after the position, nothing is returned -/
theorem scopeAt_before_all (fms : List (Option FMap)) (src sl sc : Nat) (fm : FMap)
    (hfm : fms[src]? = some (some fm))
    (hall : ∀ e ∈ fm.entries, posLt (sl + 1, sc) e.pos = true) : scopeAt fms src sl sc = none := by
  unfold scopeAt
  simp only [hfm]
  split
  · rfl
  · have : partitionPoint (fm.entries.map Entry.pos) (sl + 1, sc) = 0 := by
      apply partitionPoint_all_gt
      intro i hi
      rw [List.length_map] at hi
      rw [getD_map_pos _ i hi]
      exact hall _ (List.getElem_mem hi)
    simp [this]

end SmVerif.Hermes
