import SmVerif.Proofs.IndexGlb
import SmVerif.Model.Index
/-
C08 helper lemmas, part 4: the index lookup - sections as a list, the offset subtraction never
underflows (for any arrangement of sections), and the choice of the section.
-/
namespace SmVerif.IndexP
open SmVerif SmVerif.Lookup SmVerif.Index SmVerif.Index.Spec

/-- the sections of an index as a list: offset and embedded map -/
def sections : Secs → List (Pos × Option DMap)
  | .nil => []
  | .unres ol oc _ rest => ((ol, oc), none) :: sections rest
  | .cons ol oc _ d rest => ((ol, oc), some d) :: sections rest

theorem offsets_eq : (secs : Secs) → offsets secs = (sections secs).map (·.1)
  | .nil => rfl
  | .unres _ _ _ rest => by rw [offsets, sections, List.map_cons, offsets_eq rest]
  | .cons _ _ _ _ rest => by rw [offsets, sections, List.map_cons, offsets_eq rest]

/-- a lookup answered by one section: at the position relative to the section's offset -/
def inSection (s : Pos × Option DMap) (q : Pos) : Res (Option Origin) :=
  match s.2 with
  | none => .ok none
  | some d => dmapLookup d (subPos q s.1)

theorem lookupAt_eq : (secs : Secs) → (i : Nat) → (q : Pos) →
    (∀ s, (sections secs)[i]? = some s → posLe s.1 q = true) →
    lookupAt secs i q = match (sections secs)[i]? with
      | none => .ok none
      | some s => inSection s q
  | .nil, i, q, _ => by simp [lookupAt, sections]
  | .unres _ _ _ _, 0, q, _ => by simp [lookupAt, sections, inSection]
  | .unres _ _ _ rest, i + 1, q, h => by
    rw [lookupAt, lookupAt_eq rest i q (fun s hs => h s (by simpa [sections] using hs))]
    simp [sections]
  | .cons ol oc _ d _, 0, q, h => by
    have hle := h ((ol, oc), some d) (by simp [sections])
    rw [posLe_iff] at hle
    simp only at hle
    rw [lookupAt]
    simp only [sections, List.getElem?_cons_zero, inSection, subPos]
    have h1 : ¬ q.1 < ol := by omega
    by_cases h2 : q.1 = ol
    · have h3 : ¬ q.2 < oc := by omega
      simp [h2, h3]
    · simp [h1, h2]
  | .cons _ _ _ _ rest, i + 1, q, h => by
    rw [lookupAt, lookupAt_eq rest i q (fun s hs => h s (by simpa [sections] using hs))]
    simp [sections]

theorem getD_offsets (secs : Secs) (i : Nat) (s : Pos × Option DMap) (hs : (sections secs)[i]? = some s) :
    (offsets secs).getD i (0, 0) = s.1 := by
  rw [offsets_eq, List.getD_eq_getElem?_getD, List.getElem?_map, hs]; rfl

/-- the index lookup in terms of the chosen section -/
theorem dmapLookup_index (f : Option Bytes) (secs : Secs) (q : Pos) :
    dmapLookup (.index f secs) q = match glb (offsets secs) q with
      | none => .ok none
      | some i => match (sections secs)[i]? with
        | none => .ok none
        | some s => inSection s q := by
  rw [dmapLookup]
  cases hg : glb (offsets secs) q with
  | none => rfl
  | some i =>
    simp only
    apply lookupAt_eq
    intro s hs
    have := (glb_le_any _ q i hg).2
    rw [getD_offsets secs i s hs] at this
    exact this

/-! ### no panic, whatever the arrangement of the sections -/

mutual
/-- every plain map inside has its tokens in order (an invariant of `SourceMap`, C04) -/
def leavesSorted : DMap → Prop
  | .regular m => SortedT m.tokens
  | .hermes m => SortedT m.tokens
  | .index _ secs => leavesSortedSecs secs
def leavesSortedSecs : Secs → Prop
  | .nil => True
  | .unres _ _ _ rest => leavesSortedSecs rest
  | .cons _ _ _ d rest => leavesSorted d ∧ leavesSortedSecs rest
end

theorem leafLookup_ok (m : SMap) (q : Pos) (h : SortedT m.tokens) : ∃ r, leafLookup m q = .ok r := by
  obtain ⟨r, hr⟩ := lookup_ok m.tokens q h
  unfold leafLookup
  rw [hr]
  cases r with
  | none => exact ⟨_, rfl⟩
  | some p => obtain ⟨i, t, c⟩ := p; exact ⟨_, rfl⟩

mutual
theorem dmapLookup_safe : (d : DMap) → leavesSorted d → ∀ q, ∃ r, dmapLookup d q = .ok r
  | .regular m, h, q => by rw [dmapLookup]; exact leafLookup_ok m q (by rw [leavesSorted] at h; exact h)
  | .hermes m, h, q => by rw [dmapLookup]; exact leafLookup_ok m q (by rw [leavesSorted] at h; exact h)
  | .index f secs, h, q => by
    rw [dmapLookup_index]
    cases glb (offsets secs) q with
    | none => exact ⟨_, rfl⟩
    | some i =>
      simp only
      cases hs : (sections secs)[i]? with
      | none => exact ⟨_, rfl⟩
      | some s => exact inSection_safe secs (by rw [leavesSorted] at h; exact h) i s hs q
theorem inSection_safe : (secs : Secs) → leavesSortedSecs secs → ∀ (i : Nat) (s : Pos × Option DMap), (sections secs)[i]? = some s →
    ∀ q, ∃ r, inSection s q = .ok r
  | .nil, _, i, s, hs, _ => by simp [sections] at hs
  | .unres _ _ _ rest, h, 0, s, hs, q => by
    simp only [sections, List.getElem?_cons_zero, Option.some.injEq] at hs
    subst hs; exact ⟨_, rfl⟩
  | .unres _ _ _ rest, h, i + 1, s, hs, q =>
    inSection_safe rest (by rw [leavesSortedSecs] at h; exact h) i s (by simpa [sections] using hs) q
  | .cons _ _ _ d rest, h, 0, s, hs, q => by
    simp only [sections, List.getElem?_cons_zero, Option.some.injEq] at hs
    subst hs
    rw [leavesSortedSecs] at h
    exact dmapLookup_safe d h.1 _
  | .cons _ _ _ d rest, h, i + 1, s, hs, q =>
    inSection_safe rest (by rw [leavesSortedSecs] at h; exact h.2) i s (by simpa [sections] using hs) q
end

/-! ### the section that answers -/

theorem sortedK_of_strict {keys : List Pos} (h : keys.Pairwise (fun a b => posLt a b = true)) : SortedK keys := by
  apply sortedK_of_pairwise
  refine h.imp ?_
  intro a b hab
  rw [posLe_iff]; rw [posLt_iff] at hab; omega

theorem strict_getD {keys : List Pos} (h : keys.Pairwise (fun a b => posLt a b = true)) {i j : Nat}
    (hij : i < j) (hj : j < keys.length) : posLt (keys.getD i (0, 0)) (keys.getD j (0, 0)) = true := by
  have hi : i < keys.length := by omega
  have := List.pairwise_iff_getElem.mp h i j hi hj hij
  simpa [List.getD_eq_getElem?_getD, hi, hj] using this

/-- no section at or before `q` - no answer (any arrangement of sections) -/
theorem choice_none (f : Option Bytes) (secs : Secs) (q : Pos)
    (hnone : ∀ s ∈ sections secs, posLe s.1 q = false) : dmapLookup (.index f secs) q = .ok none := by
  rw [dmapLookup_index]
  cases hg : glb (offsets secs) q with
  | none => rfl
  | some i =>
    exfalso
    obtain ⟨hi, hle⟩ := glb_le_any _ q i hg
    rw [offsets_eq, List.length_map] at hi
    have hs : (sections secs)[i]? = some (sections secs)[i] := List.getElem?_eq_getElem hi
    rw [getD_offsets secs i _ hs, hnone _ (List.getElem_mem hi)] at hle
    exact absurd hle (by simp)

/-- with strictly increasing offsets: the section with the greatest offset not after `q` answers -/
theorem choice_some (f : Option Bytes) (secs : Secs) (q : Pos)
    (hinc : (offsets secs).Pairwise (fun a b => posLt a b = true))
    (s : Pos × Option DMap) (hs : s ∈ sections secs) (hle : posLe s.1 q = true)
    (hmax : ∀ s' ∈ sections secs, posLe s'.1 q = true → posLe s'.1 s.1 = true) :
    dmapLookup (.index f secs) q = inSection s q := by
  rw [dmapLookup_index]
  have hsk := sortedK_of_strict hinc
  obtain ⟨k, hk, hks⟩ := List.getElem_of_mem hs
  have hks' : (sections secs)[k]? = some s := by rw [List.getElem?_eq_getElem hk, hks]
  have hkl : k < (offsets secs).length := by rw [offsets_eq, List.length_map]; exact hk
  cases hg : glb (offsets secs) q with
  | none =>
    exfalso
    have := glb_none _ q hsk hg k hkl
    rw [getD_offsets secs k s hks', hle] at this
    exact absurd this (by simp)
  | some i =>
    obtain ⟨hi, hile, himax, _⟩ := glb_some _ q hsk i hg
    have hil : i < (sections secs).length := by rw [offsets_eq, List.length_map] at hi; exact hi
    have his : (sections secs)[i]? = some (sections secs)[i] := List.getElem?_eq_getElem hil
    -- both offsets are maximal among those not after q, hence equal, hence the same index
    have h1 : posLe ((offsets secs).getD k (0, 0)) ((offsets secs).getD i (0, 0)) = true :=
      himax k hkl (by rw [getD_offsets secs k s hks']; exact hle)
    have h2 : posLe ((offsets secs).getD i (0, 0)) ((offsets secs).getD k (0, 0)) = true := by
      rw [getD_offsets secs k s hks', getD_offsets secs i _ his]
      apply hmax _ (List.getElem_mem hil)
      rw [← getD_offsets secs i _ his]; exact hile
    have hik : i = k := by
      rcases Nat.lt_trichotomy i k with h | h | h
      · exact (posLt_irrefl_le (strict_getD hinc h hkl) h1).elim
      · exact h
      · exact (posLt_irrefl_le (strict_getD hinc h hi) h2).elim
    subst hik
    simp only [hks']

end SmVerif.IndexP
