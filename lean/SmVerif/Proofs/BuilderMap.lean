import SmVerif.Proofs.Builder
/-
C13 — helper lemmas for the map side: the `sources_prefixed` cache, the read rule, setters,
save/load at the level of the serde fields.
-/
namespace SmVerif.C13
open SmVerif SmVerif.C13Spec

/-! ### `prefix_source` is the documented joining rule -/

theorem isAbs_eq (s : Bytes) :
    (!s.isEmpty && Consts.absPrefixes.any (fun p => SMap.isPrefixOf p s)) = isAbs s := by
  rw [← absForms_current]
  cases s with
  | nil => decide
  | cons x xs => simp [isAbs, SMap.isPrefixOf]

theorem prefixSource_eq_join (r s : Bytes) (hr : r ≠ []) : SMap.prefixSource r s = join (some r) s := by
  unfold SMap.prefixSource join
  simp only [isAbs_eq, hr, false_or, stripSlash]
  by_cases h : isAbs s = true
  · simp [h]
  · simp only [h]
    split <;> simp

theorem join_none (s : Bytes) : join none s = s := rfl
theorem join_empty (s : Bytes) : join (some []) s = s := by simp [join]

/-! ### the well-formedness of a map: the prefixed cache is a function of raw names and root -/

def MapWF (m : SMap) : Prop :=
  m.prefixed = (match m.root with
    | some r => if r.isEmpty then none else some (m.sources.map (SMap.prefixSource r))
    | none => none) ∧
  m.ignore.Pairwise (· < ·)

theorem sourcesRead_eq (m : SMap) (h : MapWF m) : m.sourcesRead = m.sources.map (join m.root) := by
  unfold SMap.sourcesRead
  rw [h.1]
  cases hr : m.root with
  | none =>
    have : join none = id := funext join_none
    simp [this]
  | some r =>
    by_cases he : r = []
    · subst he
      have : join (some []) = id := funext join_empty
      simp [this]
    · have : r.isEmpty = false := by cases r <;> simp_all
      simp only [this, Bool.false_eq_true, ↓reduceIte, Option.getD_some]
      apply List.map_congr_left
      intro s _; exact prefixSource_eq_join r s he

theorem getSource_eq (m : SMap) (h : MapWF m) (i : Nat) : m.getSource i = (m.sources[i]?).map (join m.root) := by
  have := sourcesRead_eq m h
  unfold SMap.sourcesRead at this
  unfold SMap.getSource
  rw [this, List.getElem?_map]

theorem wf_new (file : Option Bytes) (toks : List Tok) (names sources : List Bytes)
    (contents : Option (List (Option Bytes))) : MapWF (SMap.new file toks names sources contents) :=
  ⟨rfl, List.Pairwise.nil⟩

theorem wf_setSourceRoot (m : SMap) (h : MapWF m) (r : Option Bytes) : MapWF (m.setSourceRoot r) := by
  unfold SMap.setSourceRoot
  cases r with
  | none => exact ⟨rfl, h.2⟩
  | some r =>
    by_cases he : r.isEmpty = true
    · simp only [he, ↓reduceIte]; exact ⟨by simp [he], h.2⟩
    · simp only [he]; exact ⟨by simp [he], h.2⟩

/-! ### ordered insert folded over a sorted list -/

theorem insertSorted_max (x : Nat) : ∀ (acc : List Nat), (∀ a ∈ acc, a < x) → SMap.insertSorted x acc = acc ++ [x]
  | [], _ => rfl
  | y :: ys, h => by
    have hy : y < x := h y (by simp)
    have h1 : ¬ x < y := by omega
    have h2 : ¬ x = y := by omega
    simp only [SMap.insertSorted, h1, h2, ↓reduceIte, List.cons_append]
    rw [insertSorted_max x ys (fun a ha => h a (by simp [ha]))]

theorem foldl_insert_sorted : ∀ (l acc : List Nat), (acc ++ l).Pairwise (· < ·) →
    l.foldl (fun acc i => SMap.insertSorted i acc) acc = acc ++ l
  | [], acc, _ => by simp
  | x :: xs, acc, h => by
    simp only [List.foldl_cons]
    have hx : ∀ a ∈ acc, a < x := by
      intro a ha
      exact (List.pairwise_append.1 h).2.2 a ha x (by simp)
    rw [insertSorted_max x acc hx, foldl_insert_sorted xs (acc ++ [x]) (by simpa using h)]
    simp

theorem foldl_insert_pairwise : ∀ (l acc : List Nat), acc.Pairwise (· < ·) →
    (l.foldl (fun acc i => SMap.insertSorted i acc) acc).Pairwise (· < ·)
  | [], _, h => h
  | x :: xs, acc, h => foldl_insert_pairwise xs _ (insertSorted_sorted x acc h)

theorem foldl_addToIgnoreList : ∀ (l : List Nat) (m : SMap),
    l.foldl (fun m i => m.addToIgnoreList i) m =
      { m with ignore := l.foldl (fun acc i => SMap.insertSorted i acc) m.ignore }
  | [], _ => rfl
  | x :: xs, m => by
    simp only [List.foldl_cons]
    rw [foldl_addToIgnoreList xs (m.addToIgnoreList x)]
    rfl

/-! ### `Vec::resize`, general form -/

theorem resizeOpt_length' (l : List (Option Bytes)) (n : Nat) : (SMap.resizeOpt l n).length = n := by
  unfold SMap.resizeOpt; split
  · simp; omega
  · simp; omega

theorem resizeOpt_get' (l : List (Option Bytes)) (n j : Nat) (hj : j < n) :
    ((SMap.resizeOpt l n)[j]?).join = (l[j]?).join := by
  unfold SMap.resizeOpt; split
  · rw [List.getElem?_take]; simp [hj]
  · rw [List.getElem?_append]
    by_cases hjl : j < l.length
    · simp [hjl]
    · simp only [hjl, ↓reduceIte]
      rw [List.getElem?_eq_none (Nat.le_of_not_lt hjl)]
      by_cases h2 : j - l.length < n - l.length
      · simp [h2]
      · simp [h2]

/-! ### abstraction of a map -/

def absOf (m : SMap) : AMap :=
  { raw := m.sources, root := m.root, contents := m.sourceContents, names := m.names,
    ignore := m.ignore, file := m.file, debugId := m.debugId }

theorem sourceContents_length (m : SMap) : m.sourceContents.length = m.sources.length := by
  simp [SMap.sourceContents]

theorem sourceContents_get (m : SMap) (j : Nat) :
    m.sourceContents[j]? = if j < m.sources.length then some ((m.contents[j]?).join) else none := by
  unfold SMap.sourceContents SMap.getSourceContents
  rw [List.getElem?_map]
  by_cases hj : j < m.sources.length
  · simp [hj]
  · simp [hj]

theorem sourceContents_congr (m m' : SMap) (hs : m'.sources.length = m.sources.length)
    (hc : ∀ j, j < m.sources.length → (m'.contents[j]?).join = (m.contents[j]?).join) :
    m'.sourceContents = m.sourceContents := by
  apply List.ext_getElem?
  intro j
  rw [sourceContents_get, sourceContents_get, hs]
  by_cases hj : j < m.sources.length
  · simp only [hj, ↓reduceIte, hc j hj]
  · simp only [hj, ↓reduceIte]

/-! ### the setters -/

theorem absOf_eq (m' : SMap) (a : AMap) (h1 : m'.sources = a.raw) (h2 : m'.root = a.root)
    (h3 : m'.sourceContents = a.contents) (h4 : m'.names = a.names) (h5 : m'.ignore = a.ignore)
    (h6 : m'.file = a.file) (h7 : m'.debugId = a.debugId) : absOf m' = a := by
  cases a
  simp only at h1 h2 h3 h4 h5 h6 h7
  simp only [absOf, h1, h2, h3, h4, h5, h6, h7]

theorem abs_setSourceRoot (m : SMap) (r : Option Bytes) :
    absOf (m.setSourceRoot r) = { absOf m with root := r } := by
  unfold SMap.setSourceRoot
  cases r with
  | none => rfl
  | some r => by_cases he : r.isEmpty = true <;> simp only [he] <;> rfl

theorem setSource_ok (m : SMap) (h : MapWF m) (i : Nat) (v : Bytes) (hi : i < m.sources.length) :
    ∃ m', m.setSource i v = .ok m' ∧ MapWF m' ∧ absOf m' = { absOf m with raw := m.sources.set i v } := by
  have hi' : ¬ i ≥ m.sources.length := by omega
  have hp := h.1
  cases hr : m.root with
  | none =>
    rw [hr] at hp
    have e : m.setSource i v = .ok { m with sources := m.sources.set i v } := by
      unfold SMap.setSource; simp only [hi', ↓reduceIte, hp]
    refine ⟨_, e, ⟨?_, h.2⟩, absOf_eq _ _ rfl rfl ?_ rfl rfl rfl rfl⟩
    · simp only [hr]; exact hp
    · exact sourceContents_congr _ _ (by simp) (fun j _ => rfl)
  | some r =>
    rw [hr] at hp
    by_cases he : r.isEmpty = true
    · simp only [he, ↓reduceIte] at hp
      have e : m.setSource i v = .ok { m with sources := m.sources.set i v } := by
        unfold SMap.setSource; simp only [hi', ↓reduceIte, hp]
      refine ⟨_, e, ⟨?_, h.2⟩, absOf_eq _ _ rfl rfl ?_ rfl rfl rfl rfl⟩
      · simp only [hr, he, ↓reduceIte]; exact hp
      · exact sourceContents_congr _ _ (by simp) (fun j _ => rfl)
    · have he' : r.isEmpty = false := by simpa using he
      simp only [he', Bool.false_eq_true, ↓reduceIte] at hp
      have e : m.setSource i v = .ok { m with sources := m.sources.set i v, prefixed := some ((m.sources.map (SMap.prefixSource r)).set i (SMap.prefixSource r v)) } := by
        unfold SMap.setSource; simp only [hi', ↓reduceIte, hp, List.length_map, hr]
      refine ⟨_, e, ⟨?_, h.2⟩, absOf_eq _ _ rfl rfl ?_ rfl rfl rfl rfl⟩
      · simp only [hr, he', Bool.false_eq_true, ↓reduceIte, List.map_set]
      · exact sourceContents_congr _ _ (by simp) (fun j _ => rfl)

theorem setSource_err (m : SMap) (i : Nat) (v : Bytes) (hi : ¬ i < m.sources.length) :
    m.setSource i v = .error .panic := by
  unfold SMap.setSource
  have hi' : i ≥ m.sources.length := by omega
  simp [hi']

theorem setSourceContents_ok (m : SMap) (h : MapWF m) (i : Nat) (v : Option Bytes) (hi : i < m.sources.length) :
    ∃ m', m.setSourceContents i v = .ok m' ∧ MapWF m' ∧
      absOf m' = { absOf m with contents := m.sourceContents.set i v } := by
  unfold SMap.setSourceContents
  generalize hc : (if m.contents.length ≠ m.sources.length then SMap.resizeOpt m.contents m.sources.length
    else m.contents) = c
  have hl : c.length = m.sources.length := by
    subst hc; split
    · exact resizeOpt_length' _ _
    · rename_i hne; simpa using hne
  have hg : ∀ j, j < m.sources.length → (c[j]?).join = (m.contents[j]?).join := by
    intro j hj; subst hc; split
    · exact resizeOpt_get' _ _ _ hj
    · rfl
  have hi' : ¬ i ≥ c.length := by omega
  simp only [hi', ↓reduceIte]
  refine ⟨_, rfl, ⟨h.1, h.2⟩, absOf_eq _ _ rfl rfl ?_ rfl rfl rfl rfl⟩
  apply List.ext_getElem?
  intro j
  rw [sourceContents_get]
  show (if j < m.sources.length then some (((c.set i v)[j]?).join) else none) = (m.sourceContents.set i v)[j]?
  rw [List.getElem?_set, List.getElem?_set, sourceContents_get, sourceContents_length]
  by_cases hj : j < m.sources.length
  · by_cases hij : i = j
    · subst hij; simp [hj, hl]
    · simp only [hj, hij, ↓reduceIte, hg j hj]
  · have hij : ¬ i = j := by omega
    simp only [hj, hij, ↓reduceIte]

theorem setSourceContents_err (m : SMap) (i : Nat) (v : Option Bytes) (hi : ¬ i < m.sources.length) :
    m.setSourceContents i v = .error .panic := by
  unfold SMap.setSourceContents
  generalize hc : (if m.contents.length ≠ m.sources.length then SMap.resizeOpt m.contents m.sources.length
    else m.contents) = c
  have hl : c.length = m.sources.length := by
    subst hc; split
    · exact resizeOpt_length' _ _
    · rename_i hne; simpa using hne
  have hi' : i ≥ c.length := by omega
  simp [hi']

/-! ### save / load -/

theorem any_isSome_false {l : List (Option Bytes)} (h : l.any Option.isSome = false) : ∀ x ∈ l, x = none := by
  intro x hx
  have := (List.any_eq_false.1 h) x hx
  cases x <;> simp_all

/-- what `to_writer` + `from_slice` produce, field by field -/
def reloaded (m : SMap) : SMap :=
  { file := m.file, tokens := Lookup.sortToks m.tokens, names := m.names, root := m.root, sources := m.sources,
    prefixed := (match m.root with
      | some r => if r.isEmpty then none else some (m.sources.map (SMap.prefixSource r))
      | none => none),
    contents := (if m.sourceContents.any Option.isSome then some m.sourceContents else none).getD [],
    ignore := m.ignore, debugId := m.debugId }

theorem reload_eq (m : SMap) (h : m.ignore.Pairwise (· < ·)) : m.reload = reloaded m := by
  have hign : (if m.ignore.isEmpty then none else some m.ignore : Option (List Nat)).getD [] = m.ignore := by
    cases hi : m.ignore <;> simp
  have hfold : m.ignore.foldl (fun acc i => SMap.insertSorted i acc) [] = m.ignore := by
    have := foldl_insert_sorted m.ignore [] (by simpa using h)
    simpa using this
  unfold SMap.reload SMap.ofRawFields
  simp only [SMap.asRawFields, hign, foldl_addToIgnoreList]
  unfold reloaded SMap.setSourceRoot SMap.new SMap.setDebugId
  cases m.root with
  | none => simp only [hfold]
  | some r =>
    by_cases he : r.isEmpty = true
    · simp only [he, ↓reduceIte, hfold]
    · have he' : r.isEmpty = false := by simpa using he
      simp only [he', Bool.false_eq_true, ↓reduceIte, hfold]

theorem reload_spec (m : SMap) (h : MapWF m) : MapWF m.reload ∧ absOf m.reload = absOf m := by
  rw [reload_eq m h.2]
  refine ⟨⟨rfl, h.2⟩, absOf_eq _ _ rfl rfl ?_ rfl rfl rfl rfl⟩
  apply List.ext_getElem?
  intro j
  rw [sourceContents_get]
  show (if j < m.sources.length then
      some ((((if m.sourceContents.any Option.isSome then some m.sourceContents else none).getD [])[j]?).join)
    else none) = m.sourceContents[j]?
  by_cases hj : j < m.sources.length
  · simp only [hj, ↓reduceIte]
    have hx : m.sourceContents[j]? = some ((m.contents[j]?).join) := by
      rw [sourceContents_get]; simp [hj]
    by_cases ha : m.sourceContents.any Option.isSome = true
    · simp only [ha, ↓reduceIte, Option.getD_some, hx]; simp
    · have ha' : m.sourceContents.any Option.isSome = false := by simpa using ha
      simp only [ha', Bool.false_eq_true, ↓reduceIte, Option.getD_none]
      have := any_isSome_false ha' _ (List.mem_of_getElem? hx)
      rw [hx, this]; simp
  · simp only [hj, ↓reduceIte]
    rw [sourceContents_get]; simp [hj]

/-! ### one call on a map, sequences of calls -/

theorem setInsert_eq' : ∀ (x : Nat) (l : List Nat), setInsert x l = SMap.insertSorted x l
  | _, [] => rfl
  | x, y :: ys => by
    simp only [setInsert, SMap.insertSorted, setInsert_eq' x ys]

theorem mstep_ok (m : SMap) (h : MapWF m) (op : MOp) (m' : SMap) (hs : m.step op = .ok m') :
    MapWF m' ∧ (absOf m).step op = some (absOf m') := by
  cases op with
  | setSourceRoot r =>
    simp only [SMap.step, Except.ok.injEq] at hs; subst hs
    exact ⟨wf_setSourceRoot m h r, by simp only [AMap.step, abs_setSourceRoot]⟩
  | setSource i v =>
    by_cases hi : i < m.sources.length
    · obtain ⟨m1, e, hw, ha⟩ := setSource_ok m h i v hi
      simp only [SMap.step, e, Except.ok.injEq] at hs; subst hs
      refine ⟨hw, ?_⟩
      have hi2 : i < (absOf m).raw.length := hi
      simp only [AMap.step, hi2, ↓reduceIte, ha]; rfl
    · simp [SMap.step, setSource_err m i v hi] at hs
  | setSourceContents i v =>
    by_cases hi : i < m.sources.length
    · obtain ⟨m1, e, hw, ha⟩ := setSourceContents_ok m h i v hi
      simp only [SMap.step, e, Except.ok.injEq] at hs; subst hs
      refine ⟨hw, ?_⟩
      have hi2 : i < (absOf m).raw.length := hi
      simp only [AMap.step, hi2, ↓reduceIte, ha]; rfl
    · simp [SMap.step, setSourceContents_err m i v hi] at hs
  | reload =>
    simp only [SMap.step, Except.ok.injEq] at hs; subst hs
    obtain ⟨hw, ha⟩ := reload_spec m h
    exact ⟨hw, by simp only [AMap.step, ha]⟩
  | addToIgnoreList i =>
    simp only [SMap.step, Except.ok.injEq] at hs; subst hs
    refine ⟨⟨h.1, insertSorted_sorted i _ h.2⟩, ?_⟩
    simp only [AMap.step, Option.some.injEq]
    exact (absOf_eq _ _ rfl rfl rfl rfl (setInsert_eq' i m.ignore).symm rfl rfl).symm
  | setFile f =>
    simp only [SMap.step, Except.ok.injEq] at hs; subst hs
    exact ⟨⟨h.1, h.2⟩, rfl⟩
  | setDebugId d =>
    simp only [SMap.step, Except.ok.injEq] at hs; subst hs
    exact ⟨⟨h.1, h.2⟩, rfl⟩

theorem mstep_err (m : SMap) (h : MapWF m) (op : MOp) (e : Err) (hs : m.step op = .error e) :
    e = .panic ∧ (absOf m).step op = none := by
  cases op with
  | setSource i v =>
    by_cases hi : i < m.sources.length
    · obtain ⟨m1, e1, _, _⟩ := setSource_ok m h i v hi
      simp [SMap.step, e1] at hs
    · have := setSource_err m i v hi
      simp only [SMap.step, this, Except.error.injEq] at hs
      have hi2 : ¬ i < (absOf m).raw.length := hi
      exact ⟨hs.symm, by simp only [AMap.step, hi2, ↓reduceIte]⟩
  | setSourceContents i v =>
    by_cases hi : i < m.sources.length
    · obtain ⟨m1, e1, _, _⟩ := setSourceContents_ok m h i v hi
      simp [SMap.step, e1] at hs
    · have := setSourceContents_err m i v hi
      simp only [SMap.step, this, Except.error.injEq] at hs
      have hi2 : ¬ i < (absOf m).raw.length := hi
      exact ⟨hs.symm, by simp only [AMap.step, hi2, ↓reduceIte]⟩
  | _ => simp [SMap.step] at hs

/-- all states of a successful run are well-formed and are the states of the abstract run -/
theorem mtrace_ok : ∀ (ops : List MOp) (m : SMap) (_ : MapWF m) (ms : List SMap), m.trace ops = .ok ms →
    (absOf m).trace ops = some (ms.map absOf) ∧ ∀ x ∈ ms, MapWF x
  | [], m, h, ms, ht => by
    simp only [SMap.trace, Except.ok.injEq] at ht; subst ht
    exact ⟨rfl, by simpa using h⟩
  | op :: ops, m, h, ms, ht => by
    simp only [SMap.trace] at ht
    cases hs : m.step op with
    | error e => simp [hs] at ht
    | ok m1 =>
      simp only [hs] at ht
      obtain ⟨hw, ha⟩ := mstep_ok m h op m1 hs
      cases hr : m1.trace ops with
      | error e => simp [hr] at ht
      | ok ms1 =>
        simp only [hr, Except.ok.injEq] at ht; subst ht
        obtain ⟨ih1, ih2⟩ := mtrace_ok ops m1 hw ms1 hr
        refine ⟨by simp only [AMap.trace, ha, ih1, Option.map_some, List.map_cons], ?_⟩
        intro x hx
        rcases List.mem_cons.1 hx with e | hm
        · subst e; exact h
        · exact ih2 x hm

theorem mtrace_err : ∀ (ops : List MOp) (m : SMap) (_ : MapWF m) (e : Err), m.trace ops = .error e →
    e = .panic ∧ (absOf m).trace ops = none
  | [], m, _, e, ht => by simp [SMap.trace] at ht
  | op :: ops, m, h, e, ht => by
    simp only [SMap.trace] at ht
    cases hs : m.step op with
    | error e1 =>
      simp only [hs, Except.error.injEq] at ht; subst ht
      obtain ⟨he, ha⟩ := mstep_err m h op e1 hs
      exact ⟨he, by simp only [AMap.trace, ha]⟩
    | ok m1 =>
      simp only [hs] at ht
      obtain ⟨hw, ha⟩ := mstep_ok m h op m1 hs
      cases hr : m1.trace ops with
      | error e1 =>
        simp only [hr, Except.error.injEq] at ht; subst ht
        obtain ⟨he, ih⟩ := mtrace_err ops m1 hw e1 hr
        exact ⟨he, by simp only [AMap.trace, ha, ih, Option.map_none]⟩
      | ok ms1 => simp [hr] at ht

theorem mrun_ok : ∀ (ops : List MOp) (m : SMap) (_ : MapWF m) (m' : SMap), m.runOps ops = .ok m' →
    (absOf m).run ops = some (absOf m') ∧ MapWF m'
  | [], m, h, m', hr => by
    simp only [SMap.runOps, Except.ok.injEq] at hr; subst hr; exact ⟨rfl, h⟩
  | op :: ops, m, h, m', hr => by
    simp only [SMap.runOps] at hr
    cases hs : m.step op with
    | error e => simp [hs] at hr
    | ok m1 =>
      simp only [hs] at hr
      obtain ⟨hw, ha⟩ := mstep_ok m h op m1 hs
      obtain ⟨ih1, ih2⟩ := mrun_ok ops m1 hw m' hr
      exact ⟨by simp only [AMap.run, ha, ih1], ih2⟩

/-- what is observed of a well-formed map is the view of its abstraction -/
theorem view_eq (m : SMap) (h : MapWF m) : { m.view with toks := [] } = (absOf m).view := by
  simp only [SMap.view, AMap.view, absOf, sourcesRead_eq m h, SMap.asRawFields]

end SmVerif.C13
