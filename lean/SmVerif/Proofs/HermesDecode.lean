import SmVerif.Proofs.HermesVlq
import SmVerif.Proofs.Decode
import SmVerif.Model.HermesSpec
/-
C14 helper lemmas, part 2: the function-map decoder of `decode_hermes` (running state, wrapping
casts) against Metro's reading (prefix sums).
-/
namespace SmVerif.Hermes
open SmVerif SmVerif.Vlq SmVerif.Mappings SmVerif.V3 SmVerif.Hermes.Metro

/-! ### one segment -/

theorem wrapU32_lt (x : Int) : wrapU32 x < U32 := by
  unfold wrapU32 U32; omega

theorem addCast_ok {cur : Nat} {d : Int} (hc : cur < U32) (hd : Bnd d) :
    addCast cur d = .ok (wrapU32 ((cur : Int) + d)) := by
  unfold addCast
  have : inI64 ((cur : Int) + d) = true := by
    unfold U32 at hc; unfold Bnd at hd
    apply inI64_of <;> omega
  simp [this]

theorem getD_bnd {l : List Int} (h : ∀ v ∈ l, Bnd v) (i : Nat) : Bnd (l.getD i 0) := by
  rw [List.getD_eq_getElem?_getD]
  cases hi : l[i]? with
  | none => simp [Bnd]
  | some v => simpa using h v (List.mem_of_getElem? hi)

theorem stepSeg_ok {c n l : Nat} (hc : c < U32) (hn : n < U32) (hl : l < U32) (n0 : Int)
    (rest : List Int) (hb : ∀ v ∈ n0 :: rest, Bnd v) :
    stepSeg c n l (n0 :: rest) = .ok (some
      { line := wrapU32 ((l : Int) + rest.getD 1 0), column := wrapU32 ((c : Int) + n0),
        name := wrapU32 ((n : Int) + rest.getD 0 0) }) := by
  have hr : ∀ v ∈ rest, Bnd v := fun v hv => hb v (List.mem_cons_of_mem _ hv)
  simp only [stepSeg, addCast_ok hc (hb n0 (by simp)), addCast_ok hn (getD_bnd hr 0),
    addCast_ok hl (getD_bnd hr 1)]

/-! ### the segment loop, one step -/

theorem decodeSegs_skip (segs : List (List Nat)) (c n l : Nat) (acc : List Entry) :
    decodeSegs ([] :: segs) c n l acc = decodeSegs segs c n l acc := by
  rw [decodeSegs]; simp

theorem decodeSegs_err {seg : List Nat} (segs : List (List Nat)) (c n l : Nat) (acc : List Entry)
    (hne : seg ≠ []) {e : Err} (hp : parseVlq seg = .error e) :
    decodeSegs (seg :: segs) c n l acc = .ok none := by
  have hnp : e ≠ .panic := by
    intro h; subst h; exact parseVlq_ne_panic seg hp
  rw [decodeSegs]
  simp [hne, hp, hnp]

theorem decodeSegs_step {seg : List Nat} (segs : List (List Nat)) {c n l : Nat} (acc : List Entry)
    (hc : c < U32) (hn : n < U32) (hl : l < U32)
    (hne : seg ≠ []) {vs : List Int} (hp : parseVlq seg = .ok vs) :
    decodeSegs (seg :: segs) c n l acc =
      decodeSegs segs (wrapU32 ((c : Int) + fld 0 vs)) (wrapU32 ((n : Int) + fld 1 vs))
        (wrapU32 ((l : Int) + fld 2 vs))
        ({ line := wrapU32 ((l : Int) + fld 2 vs), column := wrapU32 ((c : Int) + fld 0 vs),
           name := wrapU32 ((n : Int) + fld 1 vs) } :: acc) := by
  obtain ⟨hvne, hvb⟩ := parseVlq_ok_bnd hp
  cases vs with
  | nil => exact absurd rfl hvne
  | cons n0 rest =>
    rw [decodeSegs]
    simp only [hne, ↓reduceIte, hp, stepSeg_ok hc hn hl n0 rest hvb]
    simp [fld]

/-! ### totality: the decoder never panics and keeps its state in u32 -/

theorem decodeSegs_total : ∀ (segs : List (List Nat)) (c n l : Nat) (acc : List Entry),
    c < U32 → n < U32 → l < U32 →
    (∃ n' l' acc', decodeSegs segs c n l acc = .ok (some (n', l', acc')) ∧ n' < U32 ∧ l' < U32) ∨
      decodeSegs segs c n l acc = .ok none := by
  intro segs
  induction segs with
  | nil =>
    intro c n l acc _ hn hl
    exact Or.inl ⟨n, l, acc, by simp [decodeSegs], hn, hl⟩
  | cons seg segs ih =>
    intro c n l acc hc hn hl
    by_cases hne : seg = []
    · subst hne
      rw [decodeSegs_skip]
      exact ih c n l acc hc hn hl
    · cases hp : parseVlq seg with
      | error e => exact Or.inr (decodeSegs_err segs c n l acc hne hp)
      | ok vs =>
        rw [decodeSegs_step segs acc hc hn hl hne hp]
        exact ih _ _ _ _ (wrapU32_lt _) (wrapU32_lt _) (wrapU32_lt _)

theorem decodeLines_skip (lns : List (List Nat)) (n l : Nat) (acc : List Entry) :
    decodeLines ([] :: lns) n l acc = decodeLines lns n l acc := by
  rw [decodeLines]; simp

theorem decodeLines_total : ∀ (lns : List (List Nat)) (n l : Nat) (acc : List Entry),
    n < U32 → l < U32 → ∃ r, decodeLines lns n l acc = .ok r := by
  intro lns
  induction lns with
  | nil => intro n l acc _ _; exact ⟨some acc.reverse, by simp [decodeLines]⟩
  | cons ln lns ih =>
    intro n l acc hn hl
    by_cases hne : ln = []
    · subst hne; rw [decodeLines_skip]; exact ih n l acc hn hl
    · rw [decodeLines]
      simp only [hne, ↓reduceIte]
      rcases decodeSegs_total (splitOn COMMA ln) 0 n l acc (by simp [U32]) hn hl with
        ⟨n', l', acc', h, hn', hl'⟩ | h
      · rw [h]; exact ih n' l' acc' hn' hl'
      · rw [h]; exact ⟨none, rfl⟩

theorem decodeMeta_total (m : Meta) : ∃ r, decodeMeta m = .ok r := by
  unfold decodeMeta
  obtain ⟨r, hr⟩ := decodeLines_total (splitOn SEMI m.mappings) 0 1 [] (by simp [U32]) (by simp [U32])
  rw [hr]
  cases r with
  | none => exact ⟨none, rfl⟩
  | some es => exact ⟨_, rfl⟩

theorem decodeSrc_total (r : RawSrc) : ∃ f, decodeSrc r = .ok f := by
  match r with
  | none => exact ⟨none, rfl⟩
  | some [] => exact ⟨none, rfl⟩
  | some (m :: _) => exact decodeMeta_total m

/-- the function map the code computes for one element of `x_facebook_sources` -/
def fmModel (r : RawSrc) : Option FMap :=
  match decodeSrc r with
  | .ok f => f
  | .error _ => none

theorem decodeSrc_eq (r : RawSrc) : decodeSrc r = .ok (fmModel r) := by
  obtain ⟨f, hf⟩ := decodeSrc_total r
  simp [fmModel, hf]

/-- every source is decoded on its own: the result is the pointwise image of the payload -/
theorem decodeSources_eq : ∀ raw : List RawSrc, decodeSources raw = .ok (raw.map fmModel) := by
  intro raw
  induction raw with
  | nil => rfl
  | cons r rs ih => simp [decodeSources, decodeSrc_eq, ih]

/-! ### Metro's reading, operationally (running sums over mathematical integers) -/

def walkSegs : List (List Int) → Int → Int → Int → List (Int × Int × Int)
  | [], _, _, _ => []
  | f :: fs, c, n, l =>
    (l + fld 2 f, c + fld 0 f, n + fld 1 f) :: walkSegs fs (c + fld 0 f) (n + fld 1 f) (l + fld 2 f)

def walkGroups : List (List (List Int)) → Int → Int → List (Int × Int × Int)
  | [], _, _ => []
  | g :: gs, n, l =>
    walkSegs g 0 n l ++ walkGroups gs (n + (g.map (fld 1)).sum) (l + (g.map (fld 2)).sum)

theorem prefixSums_length : ∀ xs : List Int, (prefixSums xs).length = xs.length := by
  intro xs
  induction xs with
  | nil => rfl
  | cons x xs ih => simp [prefixSums, ih]

theorem map_add_map_add (a b : Int) (xs : List Int) :
    (xs.map (b + ·)).map (a + ·) = xs.map ((a + b) + ·) := by
  rw [List.map_map]
  apply List.map_congr_left
  intro x _
  simp [Int.add_assoc]

theorem walkSegs_eq : ∀ (fs : List (List Int)) (c n l : Int),
    walkSegs fs c n l =
      List.zip ((prefixSums (fs.map (fld 2))).map (l + ·))
        (List.zip ((prefixSums (fs.map (fld 0))).map (c + ·)) ((prefixSums (fs.map (fld 1))).map (n + ·))) := by
  intro fs
  induction fs with
  | nil => intro c n l; rfl
  | cons f fs ih =>
    intro c n l
    simp only [walkSegs, List.map_cons, prefixSums, List.zip_cons_cons, map_add_map_add]
    rw [ih]

theorem prefixSums_append : ∀ (a b : List Int),
    prefixSums (a ++ b) = prefixSums a ++ (prefixSums b).map (a.sum + ·) := by
  intro a
  induction a with
  | nil => intro b; simp [prefixSums]
  | cons x a ih =>
    intro b
    simp only [List.cons_append, prefixSums, ih, List.map_append, map_add_map_add, List.sum_cons]

theorem walkGroups_eq : ∀ (gs : List (List (List Int))) (n l : Int),
    walkGroups gs n l =
      List.zip ((prefixSums (gs.flatten.map (fld 2))).map (l + ·))
        (List.zip ((gs.map fun g => prefixSums (g.map (fld 0))).flatten)
          ((prefixSums (gs.flatten.map (fld 1))).map (n + ·))) := by
  intro gs
  induction gs with
  | nil => intro n l; rfl
  | cons g gs ih =>
    intro n l
    simp only [walkGroups, List.flatten_cons, List.map_cons, List.map_append, prefixSums_append,
      map_add_map_add]
    rw [ih, walkSegs_eq]
    have h0 : (prefixSums (g.map (fld 0))).map ((0 : Int) + ·) = prefixSums (g.map (fld 0)) := by
      simp
    rw [h0]
    rw [List.zip_append (by simp [prefixSums_length]), List.zip_append (by simp [prefixSums_length])]

theorem triples_eq_walk (gs : List (List (List Int))) : triples gs = walkGroups gs 0 1 := by
  rw [walkGroups_eq]
  unfold triples
  simp

end SmVerif.Hermes
