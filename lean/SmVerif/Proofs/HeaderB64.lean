import SmVerif.Model.Header
/-
Helper lemmas for C12 (data URLs): the RFC 4648 codec of the model round-trips, and the chain of
accepted preambles of `decode_data_url` picks the preamble the URL was built with.  Core Lean only.
-/
namespace SmVerif.Header
open SmVerif

theorem b64Val_char : ∀ v, v < 64 → b64Val (b64Char v) = some v := by decide
theorem b64Char_ne_pad : ∀ v, v < 64 → b64Char v ≠ PAD := by decide
theorem b64Char_alphabet : ∀ v, v < 64 → Consts.b64Chars[v]? = some (b64Char v) := by decide

theorem block3 (a b c : Nat) (ha : a < 256) (hb : b < 256) (hc : c < 256) :
    b64Block (b64Char (a / 4)) (b64Char (a % 4 * 16 + b / 16)) (b64Char (b % 16 * 4 + c / 64)) (b64Char (c % 64))
      = some [a, b, c] := by
  have h1 : a / 4 < 64 := by omega
  have h2 : a % 4 * 16 + b / 16 < 64 := by omega
  have h3 : b % 16 * 4 + c / 64 < 64 := by omega
  have h4 : c % 64 < 64 := by omega
  simp only [b64Block, b64Val_char _ h1, b64Val_char _ h2, b64Val_char _ h3, b64Val_char _ h4,
    b64Char_ne_pad _ h3, b64Char_ne_pad _ h4, false_and, ↓reduceIte]
  congr 1
  congr 1
  · omega
  · congr 1
    · omega
    · congr 1; omega

theorem block2 (a b : Nat) (ha : a < 256) (hb : b < 256) :
    b64Block (b64Char (a / 4)) (b64Char (a % 4 * 16 + b / 16)) (b64Char (b % 16 * 4)) PAD = some [a, b] := by
  have h1 : a / 4 < 64 := by omega
  have h2 : a % 4 * 16 + b / 16 < 64 := by omega
  have h3 : b % 16 * 4 < 64 := by omega
  have h5 : b % 16 * 4 % 4 = 0 := by omega
  simp only [b64Block, b64Val_char _ h1, b64Val_char _ h2, b64Val_char _ h3,
    b64Char_ne_pad _ h3, false_and, ↓reduceIte, h5]
  congr 1
  congr 1
  · omega
  · congr 1; omega

theorem block1 (a : Nat) (ha : a < 256) :
    b64Block (b64Char (a / 4)) (b64Char (a % 4 * 16)) PAD PAD = some [a] := by
  have h1 : a / 4 < 64 := by omega
  have h2 : a % 4 * 16 < 64 := by omega
  have h5 : a % 4 * 16 % 16 = 0 := by omega
  simp only [b64Block, b64Val_char _ h1, b64Val_char _ h2, and_self, ↓reduceIte, h5]
  congr 1
  congr 1
  omega

/-- RFC 4648 round trip: decoding the encoding of any byte string gives it back -/
theorem b64_roundtrip : ∀ (p : List Nat), (∀ x ∈ p, x < 256) → b64Decode (b64Encode p) = some p := by
  intro p
  fun_induction b64Encode p with
  | case1 => intro _; rfl
  | case2 a => intro h; simp [b64Decode, block1 a (h a (by simp))]
  | case3 a b => intro h; simp [b64Decode, block2 a b (h a (by simp)) (h b (by simp))]
  | case4 a b c rest ih =>
    intro h
    have := ih (fun x hx => h x (by simp [hx]))
    simp [b64Decode, block3 a b c (h a (by simp)) (h b (by simp)) (h c (by simp)), this]


theorem stripPrefix_append (p x : List Nat) : stripPrefix p (p ++ x) = some x := by
  induction p with
  | nil => cases x <;> rfl
  | cons a as ih => simp [stripPrefix, ih]

/-- two strings differ at a position both have -/
def diverge : List Nat → List Nat → Bool
  | a :: as, b :: bs => a != b || diverge as bs
  | _, _ => false

theorem stripPrefix_diverge (p q x : List Nat) (h : diverge p q = true) : stripPrefix p (q ++ x) = none := by
  induction p generalizing q with
  | nil => simp [diverge] at h
  | cons a as ih =>
    cases q with
    | nil => simp [diverge] at h
    | cons b bs =>
      by_cases hab : a = b
      · subst hab
        have : diverge as bs = true := by simpa [diverge] using h
        simp [stripPrefix, ih bs this]
      · simp [stripPrefix, hab]

/-- every preamble diverges from all later ones: the `or_else` chain cannot pick a wrong one -/
def earlierDiverge : List (List Nat) → Bool
  | [] => true
  | p :: ps => ps.all (fun q => diverge p q) && earlierDiverge ps

theorem stripAccepted_hit (l : List (List Nat)) (pre x : List Nat) (hd : earlierDiverge l = true)
    (hm : pre ∈ l) : stripAccepted l (pre ++ x) = some x := by
  induction l with
  | nil => cases hm
  | cons p ps ih =>
    simp only [earlierDiverge, Bool.and_eq_true, List.all_eq_true] at hd
    by_cases hp : pre = p
    · subst hp; simp [stripAccepted, stripPrefix_append]
    · have hin : pre ∈ ps := by
        cases hm with
        | head => exact absurd rfl hp
        | tail _ h => exact h
      simp [stripAccepted, stripPrefix_diverge p pre x (hd.1 pre hin), ih hd.2 hin]

theorem accepted_diverge : earlierDiverge Consts.dataUrlAccepted = true := by decide


end SmVerif.Header
