import SmVerif.Model.Index
/-
C08 helper lemmas, part 1: the builder as used by `flatten` - one loop iteration on a resolved
token (`bldStep`), its effect on the builder's tables, and the invariant that ties the builder to
the list of resolved tokens it has consumed.
-/
namespace SmVerif.IndexP
open SmVerif SmVerif.Lookup SmVerif.Index SmVerif.Index.Spec

/-- one iteration of the token loop of `flatten` on an already resolved (and shifted) token -/
def bldStep (b : Bld) (x : XTok) : Res Bld :=
  let (b1, raw) := b.add x.v.dl x.v.dc x.v.sl x.v.sc x.v.src x.v.name x.v.rng
  let r2 : Res Bld :=
    if x.v.src.isSome && !b1.hasSourceContents raw.src then b1.setSourceContents raw.src x.cont
    else .ok b1
  match r2 with
  | .error e => .error e
  | .ok b2 => .ok (if x.ign then b2.addToIgnoreList raw.src else b2)

def bldRun : Bld → List XTok → Res Bld
  | b, [] => .ok b
  | b, x :: xs =>
    match bldStep b x with
    | .error e => .error e
    | .ok b' => bldRun b' xs

/-- the interning table maps exactly the listed strings to their positions -/
def KeyInv (tbl : List (Bytes × Nat)) (l : List Bytes) : Prop :=
  ∀ s i, Bld.lookupKey s tbl = some i ↔ l[i]? = some s

/-- an id stands for a string: `!0` for none, otherwise the table entry -/
def IdRel (l : List Bytes) (id : Nat) : Option Bytes → Prop
  | none => id = NONE
  | some s => l[id]? = some s

theorem lookupKey_append (s k : Bytes) (v : Nat) (tbl : List (Bytes × Nat)) :
    Bld.lookupKey s (tbl ++ [(k, v)]) = (Bld.lookupKey s tbl).or (if k = s then some v else none) := by
  induction tbl with
  | nil => simp [Bld.lookupKey]
  | cons p rest ih =>
    obtain ⟨k', v'⟩ := p
    simp only [List.cons_append, Bld.lookupKey]
    by_cases h : k' = s
    · simp [h]
    · simp [h, ih]

theorem keyInv_lt {tbl l} (h : KeyInv tbl l) {s i} (hl : Bld.lookupKey s tbl = some i) : i < l.length := by
  have := (h s i).mp hl
  rcases Nat.lt_or_ge i l.length with h' | h'
  · exact h'
  · rw [List.getElem?_eq_none h'] at this; exact absurd this (by simp)

theorem keyInv_none {tbl l} (h : KeyInv tbl l) {s} (hl : Bld.lookupKey s tbl = none) : s ∉ l := by
  intro hm
  obtain ⟨i, hi, rfl⟩ := List.getElem_of_mem hm
  have := (h l[i] i).mpr (List.getElem?_eq_getElem hi)
  rw [hl] at this; exact absurd this (by simp)

theorem keyInv_extend {tbl l} (h : KeyInv tbl l) {s} (hl : Bld.lookupKey s tbl = none) :
    KeyInv (tbl ++ [(s, l.length)]) (l ++ [s]) := by
  intro s' i
  rw [lookupKey_append]
  constructor
  · intro hh
    cases hk : Bld.lookupKey s' tbl with
    | some j =>
      rw [hk] at hh
      simp at hh
      subst hh
      rw [List.getElem?_append_left (keyInv_lt h hk)]
      exact (h s' j).mp hk
    | none =>
      rw [hk] at hh
      by_cases he : s = s'
      · simp [he] at hh
        subst hh
        simp [he]
      · simp [he] at hh
  · intro hh
    by_cases hi : i < l.length
    · rw [List.getElem?_append_left hi] at hh
      rw [(h s' i).mpr hh]; simp
    · have hi' : l.length ≤ i := by omega
      rw [List.getElem?_append_right hi'] at hh
      have hi0 : i - l.length = 0 := by
        rcases Nat.eq_zero_or_pos (i - l.length) with h0 | h0
        · exact h0
        · rw [List.getElem?_eq_none (by simp; omega)] at hh; exact absurd hh (by simp)
      rw [hi0] at hh
      simp only [List.getElem?_cons_zero, Option.some.injEq] at hh
      subst hh
      have : i = l.length := by omega
      subst this
      -- `s` is new: no earlier entry
      rw [hl]; simp

/-- two ids of one string coincide -/
theorem keyInv_inj {tbl} {l : List Bytes} (h : KeyInv tbl l) {s : Bytes} {i j : Nat} (hi : l[i]? = some s) (hj : l[j]? = some s) : i = j := by
  have h1 := (h s i).mpr hi
  have h2 := (h s j).mpr hj
  rw [h1] at h2; exact Option.some.inj h2

/-! ### `add_source_with_id`, `add_name` -/

theorem addSource_spec (b : Bld) (s : Bytes) (old : Nat) (h : KeyInv b.sourceMap b.sources) :
    ∃ sm' srcs' mp' id, b.addSourceWithId s old = ({ b with sourceMap := sm', sources := srcs', mapping := mp' }, id) ∧
      KeyInv sm' srcs' ∧ srcs'[id]? = some s ∧ (srcs' = b.sources ∨ (srcs' = b.sources ++ [s] ∧ s ∉ b.sources)) := by
  unfold Bld.addSourceWithId
  cases hk : Bld.lookupKey s b.sourceMap with
  | some id =>
    have hlt := keyInv_lt h hk
    have hne : ¬ id = b.sources.length := by omega
    simp only [hne, ↓reduceIte]
    exact ⟨b.sourceMap, b.sources, b.mapping, id, rfl, h, (h s id).mp hk, Or.inl rfl⟩
  | none =>
    simp only
    refine ⟨_, _, _, _, rfl, keyInv_extend h hk, ?_, Or.inr ⟨rfl, keyInv_none h hk⟩⟩
    simp

theorem addName_spec (b : Bld) (s : Bytes) (h : KeyInv b.nameMap b.names) :
    ∃ nm' ns' id, b.addName s = ({ b with nameMap := nm', names := ns' }, id) ∧
      KeyInv nm' ns' ∧ ns'[id]? = some s ∧ (ns' = b.names ∨ (ns' = b.names ++ [s] ∧ s ∉ b.names)) := by
  unfold Bld.addName
  cases hk : Bld.lookupKey s b.nameMap with
  | some id =>
    have hlt := keyInv_lt h hk
    have hne : ¬ id = b.names.length := by omega
    simp only [hne, ↓reduceIte]
    exact ⟨b.nameMap, b.names, id, rfl, h, (h s id).mp hk, Or.inl rfl⟩
  | none =>
    simp only
    refine ⟨_, _, _, rfl, keyInv_extend h hk, ?_, Or.inr ⟨rfl, keyInv_none h hk⟩⟩
    simp

/-! ### contents and ignore list -/

theorem insertSorted_mem (a x : Nat) (l : List Nat) : a ∈ SMap.insertSorted x l ↔ a = x ∨ a ∈ l := by
  induction l with
  | nil => simp [SMap.insertSorted]
  | cons y ys ih =>
    unfold SMap.insertSorted
    by_cases h1 : x < y
    · simp [h1]
    · by_cases h2 : x = y
      · subst h2; simp
      · simp only [h1, h2, ↓reduceIte, List.mem_cons, ih]
        constructor
        · rintro (h | h | h)
          · exact Or.inr (Or.inl h)
          · exact Or.inl h
          · exact Or.inr (Or.inr h)
        · rintro (h | h | h)
          · exact Or.inr (Or.inl h)
          · exact Or.inl h
          · exact Or.inr (Or.inr h)

theorem resize_spec (c : List (Option Bytes)) (n : Nat) (h : c.length ≤ n) :
    (SMap.resizeOpt c n).length = n ∧ ∀ j : Nat, ((SMap.resizeOpt c n)[j]?).join = (c[j]?).join := by
  unfold SMap.resizeOpt
  by_cases hge : c.length ≥ n
  · have : c.length = n := by omega
    simp only [hge, ↓reduceIte]
    subst this
    simp
  · simp only [hge, ↓reduceIte]
    refine ⟨by simp; omega, fun j => ?_⟩
    by_cases hj : j < c.length
    · rw [List.getElem?_append_left hj]
    · rw [List.getElem?_append_right (by omega), List.getElem?_eq_none (show c.length ≤ j by omega)]
      by_cases hj2 : j - c.length < n - c.length
      · simp [hj2]
      · simp [hj2]

theorem setContents_spec (b : Bld) (i : Nat) (v : Option Bytes) (hi : i < b.sources.length) (hn : i ≠ NONE)
    (hc : b.contents.length ≤ b.sources.length) :
    ∃ c', b.setSourceContents i v = .ok { b with contents := c' } ∧ c'.length = b.sources.length ∧
      ∀ j : Nat, (c'[j]?).join = if j = i then v else (b.contents[j]?).join := by
  unfold Bld.setSourceContents
  simp only [hn, ↓reduceIte]
  have hcs : ∀ c : List (Option Bytes), c.length = b.sources.length → (∀ j : Nat, (c[j]?).join = (b.contents[j]?).join) →
      ∃ c', (if i ≥ c.length then (Except.error Err.panic : Res Bld) else .ok { b with contents := c.set i v }) =
          .ok { b with contents := c' } ∧ c'.length = b.sources.length ∧
        ∀ j : Nat, (c'[j]?).join = if j = i then v else (b.contents[j]?).join := by
    intro c hlen hget
    have : ¬ i ≥ c.length := by omega
    simp only [this, ↓reduceIte]
    refine ⟨_, rfl, by simp [hlen], fun j => ?_⟩
    rw [List.getElem?_set]
    by_cases hji : j = i
    · subst hji; simp [show j < c.length by omega]
    · have : ¬ i = j := fun h => hji h.symm
      simp [this, hji, hget j]
  by_cases hgt : b.sources.length > b.contents.length
  · simp only [hgt, ↓reduceIte]
    obtain ⟨h1, h2⟩ := resize_spec b.contents b.sources.length hc
    exact hcs _ h1 h2
  · simp only [hgt, ↓reduceIte]
    exact hcs _ (by omega) (fun _ => rfl)

/-! ### `add` -/

/-- a table after interning `x`: unchanged, or extended by the new string -/
def Ext (l' l : List Bytes) (x : Option Bytes) : Prop :=
  l' = l ∨ ∃ s, x = some s ∧ l' = l ++ [s] ∧ s ∉ l

theorem add_spec (b : Bld) (dl dc sl sc : Nat) (src name : Option Bytes) (rng : Bool)
    (h1 : KeyInv b.sourceMap b.sources) (h2 : KeyInv b.nameMap b.names) :
    ∃ sm' srcs' mp' nm' ns' sid nid,
      b.add dl dc sl sc src name rng =
        ({ b with sourceMap := sm', sources := srcs', mapping := mp', nameMap := nm', names := ns',
                  tokens := b.tokens ++ [⟨dl, dc, sl, sc, sid, nid, rng⟩] }, ⟨dl, dc, sl, sc, sid, nid, rng⟩) ∧
      KeyInv sm' srcs' ∧ KeyInv nm' ns' ∧ IdRel srcs' sid src ∧ IdRel ns' nid name ∧
      Ext srcs' b.sources src ∧ Ext ns' b.names name := by
  unfold Bld.add Bld.addWithId
  cases src with
  | none =>
    cases name with
    | none =>
      exact ⟨b.sourceMap, b.sources, b.mapping, b.nameMap, b.names, NONE, NONE, rfl, h1, h2, rfl, rfl,
        Or.inl rfl, Or.inl rfl⟩
    | some n =>
      obtain ⟨nm', ns', id, he, hk, hg, hx⟩ := addName_spec b n h2
      simp only [he]
      refine ⟨b.sourceMap, b.sources, b.mapping, nm', ns', NONE, id, rfl, h1, hk, rfl, hg, Or.inl rfl, ?_⟩
      rcases hx with hx | ⟨hx, hn⟩
      · exact Or.inl hx
      · exact Or.inr ⟨n, rfl, hx, hn⟩
  | some s =>
    obtain ⟨sm', srcs', mp', sid, hse, hsk, hsg, hsx⟩ := addSource_spec b s NONE h1
    have hsx' : Ext srcs' b.sources (some s) := by
      rcases hsx with hx | ⟨hx, hn⟩
      · exact Or.inl hx
      · exact Or.inr ⟨s, rfl, hx, hn⟩
    cases name with
    | none =>
      simp only [hse]
      exact ⟨sm', srcs', mp', b.nameMap, b.names, sid, NONE, rfl, hsk, h2, hsg, rfl, hsx', Or.inl rfl⟩
    | some n =>
      obtain ⟨nm', ns', id, he, hk, hg, hx⟩ :=
        addName_spec { b with sourceMap := sm', sources := srcs', mapping := mp' } n h2
      simp only [hse, he]
      refine ⟨sm', srcs', mp', nm', ns', sid, id, rfl, hsk, hk, hsg, hg, hsx', ?_⟩
      rcases hx with hx | ⟨hx, hn⟩
      · exact Or.inl hx
      · exact Or.inr ⟨n, rfl, hx, hn⟩

theorem ext_length {l' l : List Bytes} {x} (h : Ext l' l x) : l.length ≤ l'.length ∧ l'.length ≤ l.length + 1 := by
  rcases h with h | ⟨s, _, h, _⟩ <;> subst h <;> simp

/-! ### one loop iteration -/

/-- the effect of one iteration of the flatten loop on the builder -/
structure StepSpec (b b' : Bld) (x : XTok) (sid nid : Nat) : Prop where
  k1 : KeyInv b'.sourceMap b'.sources
  k2 : KeyInv b'.nameMap b'.names
  rs : IdRel b'.sources sid x.v.src
  rn : IdRel b'.names nid x.v.name
  es : Ext b'.sources b.sources x.v.src
  en : Ext b'.names b.names x.v.name
  toks : b'.tokens = b.tokens ++ [⟨x.v.dl, x.v.dc, x.v.sl, x.v.sc, sid, nid, x.v.rng⟩]
  clen : b'.contents.length ≤ b'.sources.length
  cont : ∀ j, b'.getSourceContents j =
    if x.v.src.isSome = true ∧ j = sid ∧ b.getSourceContents j = none then x.cont else b.getSourceContents j
  ign : ∀ j, j ∈ b'.ignore ↔ j ∈ b.ignore ∨ (x.ign = true ∧ j = sid)
  file : b'.file = b.file
  root : b'.root = b.root

theorem bldStep_spec (b : Bld) (x : XTok) (h1 : KeyInv b.sourceMap b.sources) (h2 : KeyInv b.nameMap b.names)
    (hc : b.contents.length ≤ b.sources.length) (hsz : b.sources.length < NONE) :
    ∃ b' sid nid, bldStep b x = .ok b' ∧ StepSpec b b' x sid nid := by
  obtain ⟨sm', srcs', mp', nm', ns', sid, nid, hadd, hk1, hk2, hrs, hrn, hes, hen⟩ :=
    add_spec b x.v.dl x.v.dc x.v.sl x.v.sc x.v.src x.v.name x.v.rng h1 h2
  unfold bldStep
  rw [hadd]
  simp only
  generalize hb1 : Bld.mk b.file nm' ns' (b.tokens ++ [⟨x.v.dl, x.v.dc, x.v.sl, x.v.sc, sid, nid, x.v.rng⟩]) sm' b.root srcs' b.contents mp' b.ignore b.debugId = b1
  have e_src : b1.sources = srcs' := by subst hb1; rfl
  have e_sm : b1.sourceMap = sm' := by subst hb1; rfl
  have e_nm : b1.nameMap = nm' := by subst hb1; rfl
  have e_ns : b1.names = ns' := by subst hb1; rfl
  have e_tk : b1.tokens = b.tokens ++ [⟨x.v.dl, x.v.dc, x.v.sl, x.v.sc, sid, nid, x.v.rng⟩] := by subst hb1; rfl
  have e_ct : b1.contents = b.contents := by subst hb1; rfl
  have e_ig : b1.ignore = b.ignore := by subst hb1; rfl
  have e_fl : b1.file = b.file := by subst hb1; rfl
  have e_rt : b1.root = b.root := by subst hb1; rfl
  have hlen := ext_length hes
  -- the contents step
  have hstep2 : ∃ b2 : Bld,
      (if (x.v.src.isSome && !b1.hasSourceContents sid) = true then b1.setSourceContents sid x.cont else .ok b1) = .ok b2 ∧
      b2.sources = srcs' ∧ b2.sourceMap = sm' ∧ b2.nameMap = nm' ∧ b2.names = ns' ∧ b2.tokens = b1.tokens ∧
      b2.ignore = b.ignore ∧ b2.file = b.file ∧ b2.root = b.root ∧ b2.contents.length ≤ srcs'.length ∧
      ∀ j, b2.getSourceContents j =
        if x.v.src.isSome = true ∧ j = sid ∧ b.getSourceContents j = none then x.cont else b.getSourceContents j := by
    by_cases hcond : (x.v.src.isSome && !b1.hasSourceContents sid) = true
    · rw [if_pos hcond]
      simp only [Bool.and_eq_true, Bool.not_eq_eq_eq_not, Bool.not_true] at hcond
      obtain ⟨hsome, hhas⟩ := hcond
      obtain ⟨s, hs⟩ := Option.isSome_iff_exists.mp hsome
      rw [hs] at hrs
      have hsid : sid < srcs'.length := by
        rcases Nat.lt_or_ge sid srcs'.length with h' | h'
        · exact h'
        · simp only [IdRel] at hrs; rw [List.getElem?_eq_none h'] at hrs; exact absurd hrs (by simp)
      obtain ⟨c', hset, hc'len, hc'get⟩ := setContents_spec b1 sid x.cont (by rw [e_src]; exact hsid)
        (by omega) (by rw [e_src, e_ct]; omega)
      refine ⟨_, hset, e_src, e_sm, e_nm, e_ns, rfl, e_ig, e_fl, e_rt, ?_, fun j => ?_⟩
      · show c'.length ≤ srcs'.length
        rw [hc'len, e_src]; exact Nat.le_refl _
      · show (c'[j]?).join = _
        rw [hc'get j, e_ct]
        have hnone : b.getSourceContents sid = none := by
          have : b1.getSourceContents sid = none := by
            simp only [Bld.hasSourceContents] at hhas
            cases hg : b1.getSourceContents sid with
            | none => rfl
            | some v => rw [hg] at hhas; simp at hhas
          simpa [Bld.getSourceContents, e_ct] using this
        by_cases hj : j = sid
        · subst hj; simp [hsome, hnone]
        · simp [hj, Bld.getSourceContents]
    · rw [if_neg hcond]
      refine ⟨b1, rfl, e_src, e_sm, e_nm, e_ns, rfl, e_ig, e_fl, e_rt, by rw [e_ct]; omega, fun j => ?_⟩
      have hb1c : b1.getSourceContents j = b.getSourceContents j := by simp [Bld.getSourceContents, e_ct]
      rw [hb1c]
      by_cases hj : x.v.src.isSome = true ∧ j = sid ∧ b.getSourceContents j = none
      · obtain ⟨hsome, hjs, hnone⟩ := hj
        subst hjs
        exfalso; apply hcond
        have : b1.hasSourceContents j = false := by
          simp [Bld.hasSourceContents, Bld.getSourceContents, e_ct]
          simpa [Bld.getSourceContents] using hnone
        simp [hsome, this]
      · rw [if_neg hj]
  obtain ⟨b2, hb2, f_src, f_sm, f_nm, f_ns, f_tk, f_ig, f_fl, f_rt, f_cl, f_ct⟩ := hstep2
  rw [hb2]
  simp only
  by_cases hign : x.ign = true
  · refine ⟨_, sid, nid, rfl, ?_⟩
    simp only [hign, ↓reduceIte]
    exact {
      k1 := by show KeyInv b2.sourceMap b2.sources; rw [f_sm, f_src]; exact hk1
      k2 := by show KeyInv b2.nameMap b2.names; rw [f_nm, f_ns]; exact hk2
      rs := by show IdRel b2.sources sid x.v.src; rw [f_src]; exact hrs
      rn := by show IdRel b2.names nid x.v.name; rw [f_ns]; exact hrn
      es := by show Ext b2.sources b.sources x.v.src; rw [f_src]; exact hes
      en := by show Ext b2.names b.names x.v.name; rw [f_ns]; exact hen
      toks := by show b2.tokens = _; rw [f_tk, e_tk]
      clen := by show b2.contents.length ≤ b2.sources.length; rw [f_src]; exact f_cl
      cont := f_ct
      ign := by
        intro j
        show j ∈ SMap.insertSorted sid b2.ignore ↔ _
        rw [insertSorted_mem, f_ig]
        constructor
        · rintro (h | h)
          · exact Or.inr ⟨hign, h⟩
          · exact Or.inl h
        · rintro (h | ⟨_, h⟩)
          · exact Or.inr h
          · exact Or.inl h
      file := f_fl
      root := f_rt }
  · refine ⟨_, sid, nid, rfl, ?_⟩
    simp only [hign]
    exact {
      k1 := by show KeyInv b2.sourceMap b2.sources; rw [f_sm, f_src]; exact hk1
      k2 := by show KeyInv b2.nameMap b2.names; rw [f_nm, f_ns]; exact hk2
      rs := by show IdRel b2.sources sid x.v.src; rw [f_src]; exact hrs
      rn := by show IdRel b2.names nid x.v.name; rw [f_ns]; exact hrn
      es := by show Ext b2.sources b.sources x.v.src; rw [f_src]; exact hes
      en := by show Ext b2.names b.names x.v.name; rw [f_ns]; exact hen
      toks := by show b2.tokens = _; rw [f_tk, e_tk]
      clen := by show b2.contents.length ≤ b2.sources.length; rw [f_src]; exact f_cl
      cont := f_ct
      ign := by
        intro j
        show j ∈ b2.ignore ↔ _
        rw [f_ig]
        simp [hign]
      file := f_fl
      root := f_rt }

/-! ### pointwise relation between two lists -/

inductive All₂ {α β : Type} (R : α → β → Prop) : List α → List β → Prop
  | nil : All₂ R [] []
  | cons {a b as bs} : R a b → All₂ R as bs → All₂ R (a :: as) (b :: bs)

theorem All₂.append {α β : Type} {R : α → β → Prop} {a c : List α} {b d : List β}
    (h1 : All₂ R a b) (h2 : All₂ R c d) : All₂ R (a ++ c) (b ++ d) := by
  induction h1 with
  | nil => exact h2
  | cons hr _ ih => exact All₂.cons hr ih

theorem All₂.imp {α β : Type} {R S : α → β → Prop} (h : ∀ a b, R a b → S a b) {l1 : List α} {l2 : List β}
    (h1 : All₂ R l1 l2) : All₂ S l1 l2 := by
  induction h1 with
  | nil => exact All₂.nil
  | cons hr _ ih => exact All₂.cons (h _ _ hr) ih

theorem All₂.length_eq {α β : Type} {R : α → β → Prop} {l1 : List α} {l2 : List β}
    (h1 : All₂ R l1 l2) : l1.length = l2.length := by
  induction h1 with
  | nil => rfl
  | cons _ _ ih => simp [ih]

theorem All₂.map_eq {α β γ : Type} {R : α → β → Prop} {f : α → γ} {g : β → γ} {l1 : List α} {l2 : List β}
    (h1 : All₂ R l1 l2) (h : ∀ a b, R a b → f a = g b) : l1.map f = l2.map g := by
  induction h1 with
  | nil => rfl
  | cons hr _ ih => simp [h _ _ hr, ih]

theorem All₂.of_mem_right {α β : Type} {R : α → β → Prop} {l1 : List α} {l2 : List β}
    (h1 : All₂ R l1 l2) {b : β} (hb : b ∈ l2) : ∃ a ∈ l1, R a b := by
  induction h1 with
  | nil => simp at hb
  | cons hr _ ih =>
    rcases List.mem_cons.mp hb with rfl | hb
    · exact ⟨_, List.mem_cons_self, hr⟩
    · obtain ⟨a, ha, hab⟩ := ih hb
      exact ⟨a, List.mem_cons_of_mem _ ha, hab⟩

theorem All₂.split_right {α β : Type} {R : α → β → Prop} {l : List α} {xs ys : List β}
    (h : All₂ R l (xs ++ ys)) : ∃ l1 l2, l = l1 ++ l2 ∧ All₂ R l1 xs ∧ All₂ R l2 ys := by
  induction xs generalizing l with
  | nil => exact ⟨[], l, rfl, All₂.nil, h⟩
  | cons x xs ih =>
    cases h with
    | cons hr ht =>
      obtain ⟨l1, l2, he, h1, h2⟩ := ih ht
      exact ⟨_ :: l1, l2, by rw [he]; rfl, All₂.cons hr h1, h2⟩

theorem All₂.getElem? {α β : Type} {R : α → β → Prop} {l1 : List α} {l2 : List β}
    (h : All₂ R l1 l2) {i : Nat} {b : β} (hb : l2[i]? = some b) : ∃ a, l1[i]? = some a ∧ R a b := by
  induction h generalizing i with
  | nil => simp at hb
  | cons hr _ ih =>
    cases i with
    | zero => simp at hb; subst hb; exact ⟨_, by simp, hr⟩
    | succ i => simp at hb; obtain ⟨a, ha, hab⟩ := ih hb; exact ⟨a, by simpa using ha, hab⟩

/-! ### the invariant of the flatten loop -/

/-- a builder token stands for a resolved token -/
def Rel (S N : List Bytes) (t : Tok) (x : XTok) : Prop :=
  t.dl = x.v.dl ∧ t.dc = x.v.dc ∧ t.sl = x.v.sl ∧ t.sc = x.v.sc ∧ t.rng = x.v.rng ∧
    IdRel S t.src x.v.src ∧ IdRel N t.name x.v.name

theorem idRel_mono {l l' : List Bytes} {y : Option Bytes} (he : Ext l' l y) {i : Nat} {o : Option Bytes}
    (h : IdRel l i o) : IdRel l' i o := by
  cases o with
  | none => exact h
  | some s =>
    simp only [IdRel] at *
    rcases he with he | ⟨s', _, he, _⟩
    · rw [he]; exact h
    · rw [he]
      have hi : i < l.length := by
        rcases Nat.lt_or_ge i l.length with h' | h'
        · exact h'
        · rw [List.getElem?_eq_none h'] at h; exact absurd h (by simp)
      rw [List.getElem?_append_left hi]; exact h

/-- the builder `b` has consumed exactly the resolved tokens `xs` -/
structure Inv (b : Bld) (xs : List XTok) : Prop where
  k1 : KeyInv b.sourceMap b.sources
  k2 : KeyInv b.nameMap b.names
  rel : All₂ (Rel b.sources b.names) b.tokens xs
  clen : b.contents.length ≤ b.sources.length
  cont : ∀ (i : Nat) (s : Bytes), b.sources[i]? = some s → b.getSourceContents i = firstCont xs (some s)
  ign : ∀ i, i ∈ b.ignore ↔ ∃ x ∈ xs, x.ign = true ∧ IdRel b.sources i x.v.src
  slen : b.sources.length ≤ xs.length
  nlen : b.names.length ≤ xs.length
  srcs : b.sources = dedupFirst (xs.filterMap (·.v.src)) []
  nms : b.names = dedupFirst (xs.filterMap (·.v.name)) []

theorem dedupFirst_snoc (l : List Bytes) (s : Bytes) : ∀ acc,
    dedupFirst (l ++ [s]) acc =
      if (dedupFirst l acc).contains s then dedupFirst l acc else dedupFirst l acc ++ [s] := by
  induction l with
  | nil => intro acc; simp [dedupFirst]
  | cons a l ih =>
    intro acc
    simp only [List.cons_append, dedupFirst]
    by_cases h : acc.contains a = true
    · simp only [h, ↓reduceIte]; exact ih acc
    · simp only [h]; exact ih (acc ++ [a])

/-- interning one more (optional) string extends the first-appearance list accordingly -/
theorem dedup_step {l' l : List Bytes} {o : Option Bytes} {k : Nat} (ys : List (Option Bytes))
    (hl : l = dedupFirst (ys.filterMap id) []) (he : Ext l' l o) (hr : IdRel l' k o) :
    l' = dedupFirst ((ys ++ [o]).filterMap id) [] := by
  rw [List.filterMap_append]
  cases o with
  | none =>
    simp only [List.filterMap_cons, id_eq, List.filterMap_nil, List.append_nil]
    rcases he with he | ⟨s, hs, _, _⟩
    · rw [he]; exact hl
    · simp at hs
  | some s =>
    simp only [List.filterMap_cons, id_eq, List.filterMap_nil]
    rw [dedupFirst_snoc, ← hl]
    simp only [IdRel] at hr
    rcases he with he | ⟨s', hs', he, hnew⟩
    · have hmem : s ∈ l := by rw [← he]; exact List.mem_of_getElem? hr
      have : l.contains s = true := by simpa using hmem
      rw [this, he]; rfl
    · simp only [Option.some.injEq] at hs'
      subst hs'
      have : ¬ l.contains s = true := by simpa using hnew
      rw [if_neg this, he]

theorem inv_new (f : Option Bytes) : Inv (Bld.new f) [] where
  k1 := by intro s i; simp [Bld.new, Bld.lookupKey]
  k2 := by intro s i; simp [Bld.new, Bld.lookupKey]
  rel := All₂.nil
  clen := by simp [Bld.new]
  cont := by intro i s h; simp [Bld.new] at h
  ign := by intro i; simp [Bld.new]
  slen := by simp [Bld.new]
  nlen := by simp [Bld.new]
  srcs := by simp [Bld.new, dedupFirst]
  nms := by simp [Bld.new, dedupFirst]

theorem inv_src_mem {b : Bld} {xs : List XTok} (h : Inv b xs) {x : XTok} (hx : x ∈ xs) {s : Bytes}
    (hs : x.v.src = some s) : ∃ i : Nat, b.sources[i]? = some s := by
  obtain ⟨t, _, hr⟩ := h.rel.of_mem_right hx
  have := hr.2.2.2.2.2.1
  rw [hs] at this
  exact ⟨t.src, this⟩

theorem firstCont_append (xs : List XTok) (x : XTok) (s : Bytes) :
    firstCont (xs ++ [x]) (some s) = (firstCont xs (some s)).or (if x.v.src = some s then x.cont else none) := by
  simp only [firstCont, List.findSome?_append]
  congr 1
  simp [List.findSome?]
  split <;> simp_all

theorem firstCont_none_of_not_mem (xs : List XTok) (s : Bytes) (h : ∀ x ∈ xs, x.v.src ≠ some s) :
    firstCont xs (some s) = none := by
  simp only [firstCont]
  rw [List.findSome?_eq_none_iff]
  intro x hx
  simp [h x hx]

theorem inv_step {b : Bld} {xs : List XTok} (h : Inv b xs) (x : XTok) (hsz : xs.length < NONE) :
    ∃ b', bldStep b x = .ok b' ∧ Inv b' (xs ++ [x]) ∧ b'.file = b.file ∧ b'.root = b.root := by
  have hs := h.slen
  obtain ⟨b', sid, nid, hstep, sp⟩ := bldStep_spec b x h.k1 h.k2 h.clen (by omega)
  refine ⟨b', hstep, ?_, sp.file, sp.root⟩
  have hls := ext_length sp.es
  have hln := ext_length sp.en
  -- old entries keep their ids
  have hold : ∀ (i : Nat) (s : Bytes), b.sources[i]? = some s → b'.sources[i]? = some s :=
    fun i s hi => idRel_mono (o := some s) sp.es hi
  exact {
    k1 := sp.k1
    k2 := sp.k2
    rel := by
      rw [sp.toks]
      refine All₂.append (h.rel.imp ?_) (All₂.cons ?_ All₂.nil)
      · intro t y hr
        exact ⟨hr.1, hr.2.1, hr.2.2.1, hr.2.2.2.1, hr.2.2.2.2.1, idRel_mono sp.es hr.2.2.2.2.2.1,
          idRel_mono sp.en hr.2.2.2.2.2.2⟩
      · exact ⟨rfl, rfl, rfl, rfl, rfl, sp.rs, sp.rn⟩
    clen := sp.clen
    cont := by
      intro i s hi
      rw [sp.cont i, firstCont_append]
      by_cases hold_i : i < b.sources.length
      · -- an entry that was there before
        have hbi : b.sources[i]? = some s := by
          rcases sp.es with he | ⟨s', _, he, _⟩
          · rw [he] at hi; exact hi
          · rw [he, List.getElem?_append_left hold_i] at hi; exact hi
        have hc0 := h.cont i s hbi
        by_cases hxs : x.v.src = some s
        · have hsid : i = sid := by
            have := sp.rs; rw [hxs] at this
            exact keyInv_inj sp.k1 hi this
          subst hsid
          cases hc : b.getSourceContents i with
          | none => rw [hc] at hc0; simp [hxs, ← hc0]
          | some c => rw [hc] at hc0; simp [← hc0]
        · have hne : ¬ (x.v.src.isSome = true ∧ i = sid ∧ b.getSourceContents i = none) := by
            rintro ⟨hsome, hsid, _⟩
            obtain ⟨s', hs'⟩ := Option.isSome_iff_exists.mp hsome
            have hrs := sp.rs; rw [hs'] at hrs
            have hrs' : b'.sources[sid]? = some s' := hrs
            subst hsid
            rw [hi] at hrs'
            exact hxs (by rw [hs']; exact congrArg some (Option.some.inj hrs').symm)
          rw [if_neg hne, if_neg hxs, hc0]; simp
      · -- the entry this step created
        rcases sp.es with he | ⟨s', hxs, he, hnew⟩
        · rw [he] at hi
          rw [List.getElem?_eq_none (by omega)] at hi; exact absurd hi (by simp)
        · rw [he, List.getElem?_append_right (by omega)] at hi
          have hi0 : i - b.sources.length = 0 := by
            rcases Nat.eq_zero_or_pos (i - b.sources.length) with h0 | h0
            · exact h0
            · rw [List.getElem?_eq_none (by simp; omega)] at hi; exact absurd hi (by simp)
          rw [hi0] at hi
          simp only [List.getElem?_cons_zero, Option.some.injEq] at hi
          subst hi
          have hil : i = b.sources.length := by omega
          have hsid : i = sid := by
            have h1 : b'.sources[i]? = some s' := by rw [he, hil]; simp
            have h2 := sp.rs; rw [hxs] at h2
            exact keyInv_inj sp.k1 h1 h2
          have hnone : b.getSourceContents i = none := by
            simp only [Bld.getSourceContents]
            rw [List.getElem?_eq_none (by have := h.clen; omega)]; rfl
          have hfc : firstCont xs (some s') = none := by
            apply firstCont_none_of_not_mem
            intro y hy hys
            obtain ⟨j, hj⟩ := inv_src_mem h hy hys
            exact hnew (List.mem_of_getElem? hj)
          rw [hfc]
          subst hsid
          simp [hxs, hnone]
    ign := by
      intro j
      rw [sp.ign j, h.ign j]
      constructor
      · rintro (⟨y, hy, hyi, hyr⟩ | ⟨hxi, hj⟩)
        · exact ⟨y, List.mem_append_left _ hy, hyi, idRel_mono sp.es hyr⟩
        · exact ⟨x, by simp, hxi, hj ▸ sp.rs⟩
      · rintro ⟨y, hy, hyi, hyr⟩
        rcases List.mem_append.mp hy with hy | hy
        · left
          refine ⟨y, hy, hyi, ?_⟩
          cases hys : y.v.src with
          | none => rw [hys] at hyr; exact hyr
          | some s =>
            rw [hys] at hyr
            obtain ⟨j0, hj0⟩ := inv_src_mem h hy hys
            have : j = j0 := keyInv_inj sp.k1 hyr (hold j0 s hj0)
            subst this; exact hj0
        · simp only [List.mem_singleton] at hy
          subst hy
          right
          refine ⟨hyi, ?_⟩
          cases hys : y.v.src with
          | none =>
            rw [hys] at hyr
            have := sp.rs; rw [hys] at this
            simp only [IdRel] at hyr this
            omega
          | some s =>
            rw [hys] at hyr
            have := sp.rs; rw [hys] at this
            exact keyInv_inj sp.k1 hyr this
    slen := by simp; omega
    nlen := by simp; have := h.nlen; omega
    srcs := by
      have := dedup_step (xs.map (·.v.src)) (by rw [List.filterMap_map]; exact h.srcs) sp.es sp.rs
      rw [this, List.filterMap_append, List.filterMap_append, List.filterMap_map]
      rfl
    nms := by
      have := dedup_step (xs.map (·.v.name)) (by rw [List.filterMap_map]; exact h.nms) sp.en sp.rn
      rw [this, List.filterMap_append, List.filterMap_append, List.filterMap_map]
      rfl }

theorem inv_run {b : Bld} {xs : List XTok} (h : Inv b xs) (ys : List XTok) (hsz : xs.length + ys.length ≤ NONE) :
    ∃ b', bldRun b ys = .ok b' ∧ Inv b' (xs ++ ys) ∧ b'.file = b.file ∧ b'.root = b.root := by
  induction ys generalizing b xs with
  | nil => exact ⟨b, rfl, by simpa using h, rfl, rfl⟩
  | cons y ys ih =>
    obtain ⟨b1, hs1, hi1, hf1, hr1⟩ := inv_step h y (by simp at hsz; omega)
    obtain ⟨b2, hs2, hi2, hf2, hr2⟩ := ih hi1 (by simp at hsz ⊢; omega)
    refine ⟨b2, ?_, by simpa using hi2, by rw [hf2, hf1], by rw [hr2, hr1]⟩
    simp only [bldRun, hs1, hs2]

end SmVerif.IndexP
