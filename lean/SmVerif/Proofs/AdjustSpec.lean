import SmVerif.Proofs.AdjustRanges
/-
Helper lemmas for C10, part 3: with distinct keys (and coordinates below `2^30`) the ranges of
`create_ranges` are exactly the stretches of the specification, all of them non-empty, the sweep's
overlap test is the specification's "non-empty overlap", and therefore the pushed tokens are a
permutation of `composePairs` (`sweepList_perm_composePairs`).
-/
namespace SmVerif.Adjust
open SmVerif SmVerif.Lookup

/-! ### folds of `posMin` -/

theorem posMin_of_le {a b : Pos} (h : posLe a b = true) : posMin a b = a := by
  simp [posMin, h]

theorem posMin_comm (a b : Pos) : posMin a b = posMin b a := by
  apply posLe_antisymm
  · exact le_posMin (posMin_le_right a b) (posMin_le_left a b)
  · exact le_posMin (posMin_le_right b a) (posMin_le_left b a)

theorem posMin_right_comm (z x y : Pos) : posMin (posMin z x) y = posMin (posMin z y) x := by
  apply posLe_antisymm
  · apply le_posMin
    · apply le_posMin
      · exact posLe_trans (posMin_le_left _ _) (posMin_le_left _ _)
      · exact posMin_le_right _ _
    · exact posLe_trans (posMin_le_left _ _) (posMin_le_right _ _)
  · apply le_posMin
    · apply le_posMin
      · exact posLe_trans (posMin_le_left _ _) (posMin_le_left _ _)
      · exact posMin_le_right _ _
    · exact posLe_trans (posMin_le_left _ _) (posMin_le_right _ _)

theorem foldl_posMin_of_le (l : List Pos) (m : Pos) (h : ∀ x ∈ l, posLe m x = true) :
    l.foldl posMin m = m := by
  induction l with
  | nil => rfl
  | cons x l ih =>
    rw [List.foldl_cons, posMin_of_le (h x (by simp))]
    exact ih (fun y hy => h y (List.mem_cons_of_mem _ hy))

theorem lt_foldl_posMin (c : Pos) (l : List Pos) : ∀ (e : Pos), posLt c e = true →
    (∀ x ∈ l, posLt c x = true) → posLt c (l.foldl posMin e) = true := by
  induction l with
  | nil => intro e he _; exact he
  | cons x l ih =>
    intro e he hl
    rw [List.foldl_cons]
    apply ih
    · exact lt_posMin_iff.mpr ⟨he, hl x (by simp)⟩
    · exact fun y hy => hl y (List.mem_cons_of_mem _ hy)

/-! ### stretch ends without indices -/

/-- end of `t`'s stretch among `s` when keys are distinct: the least key above `t`'s, capped at the
end of the line -/
def G (key : Tok → Pos) (s : List Tok) (t : Tok) : Pos :=
  ((s.filter fun u => posLt (key t) (key u)).map key).foldl posMin ((key t).1, NONE)

def StrictSorted (key : Tok → Pos) (s : List Tok) : Prop :=
  s.Pairwise (fun x y => posLt (key x) (key y) = true)

def Distinct (key : Tok → Pos) (ts : List Tok) : Prop :=
  ts.Pairwise (fun x y => key x ≠ key y)

theorem distinctKeys_iff (key : Tok → Pos) (ts : List Tok) :
    distinctKeys key ts = true ↔ Distinct key ts := by
  simp [distinctKeys, Distinct, List.pairwise_map]

theorem G_perm (key : Tok → Pos) {s₁ s₂ : List Tok} (h : s₁.Perm s₂) (t : Tok) :
    G key s₁ t = G key s₂ t := by
  unfold G
  apply List.Perm.foldl_eq' ((h.filter _).map key)
  intro x _ y _ z
  exact posMin_right_comm z x y

theorem strictSorted_of (key : Tok → Pos) {s : List Tok} (hs : KeySorted key s) (hd : Distinct key s) :
    StrictSorted key s := by
  unfold StrictSorted KeySorted Distinct at *
  induction s with
  | nil => exact List.Pairwise.nil
  | cons x l ih =>
    rw [List.pairwise_cons] at hs hd ⊢
    refine ⟨?_, ih hs.2 hd.2⟩
    intro y hy
    have h1 := hs.1 y hy
    have h2 := hd.1 y hy
    rw [posLe_iff] at h1; rw [posLt_iff]
    have : ¬ ((key x).1 = (key y).1 ∧ (key x).2 = (key y).2) := fun h => h2 (Prod.ext h.1 h.2)
    omega

theorem rangesOfSorted_eq_map (key : Tok → Pos) : ∀ (suf pre : List Tok),
    StrictSorted key (pre ++ suf) → U32Keys key suf →
    rangesOfSorted key suf = suf.map fun t => ⟨key t, G key (pre ++ suf) t, t⟩ := by
  intro suf
  induction suf with
  | nil => intro _ _ _; rfl
  | cons t rest ih =>
    intro pre hs hu
    obtain ⟨_, hsuf, hcross⟩ := List.pairwise_append.mp hs
    have hrest : ∀ u ∈ rest, posLt (key t) (key u) = true := (List.pairwise_cons.mp hsuf).1
    have hrs : rest.Pairwise (fun x y => posLt (key x) (key y) = true) := (List.pairwise_cons.mp hsuf).2
    simp only [rangesOfSorted, List.map_cons]
    have htail := ih (pre ++ [t]) (by rw [List.append_assoc]; exact hs)
      (fun u hu' => hu u (List.mem_cons_of_mem _ hu'))
    rw [List.append_assoc] at htail
    rw [htail]
    congr 2
    -- the head's end
    have hf : (pre ++ t :: rest).filter (fun u => posLt (key t) (key u)) = rest := by
      rw [List.filter_append, List.filter_cons]
      have h1 : pre.filter (fun u => posLt (key t) (key u)) = [] := by
        rw [List.filter_eq_nil_iff]
        intro u hu'
        have := hcross u hu' t (by simp)
        rw [posLt_iff] at this; simp only [posLt_iff]; omega
      have h2 : posLt (key t) (key t) = false := by
        rw [← Bool.not_eq_true, posLt_iff]; omega
      have h3 : rest.filter (fun u => posLt (key t) (key u)) = rest :=
        List.filter_eq_self.mpr hrest
      rw [h1, h2, h3]; rfl
    unfold G
    rw [hf]
    have ht := hu t (by simp)
    cases rest with
    | nil =>
      simp only [List.map_nil, List.foldl_nil]
      unfold posMin
      by_cases hc : posLe (NONE, NONE) ((key t).1, NONE) = true
      · simp only [hc, ↓reduceIte]
        rw [posLe_iff] at hc; dsimp only [NONE] at hc ht ⊢
        apply Prod.ext <;> simp only [] <;> omega
      · have hf' : posLe (NONE, NONE) ((key t).1, NONE) = false := by simpa using hc
        simp only [hf', Bool.false_eq_true, ↓reduceIte]
    | cons n rest' =>
      simp only [List.map_cons, List.foldl_cons]
      rw [foldl_posMin_of_le, posMin_comm]
      intro x hx
      obtain ⟨u, hu', rfl⟩ := List.mem_map.mp hx
      have h1 := (List.pairwise_cons.mp hrs).1 u hu'
      refine posLe_trans (posMin_le_right _ _) ?_
      rw [posLt_iff] at h1; rw [posLe_iff]; omega

theorem createRanges_eq_map (key : Tok → Pos) (ts : List Tok) (hd : Distinct key ts)
    (hu : U32Keys key ts) :
    createRanges key ts = (sortByKey key ts).map fun t => ⟨key t, G key ts t, t⟩ := by
  have hp := sortByKey_perm key ts
  have hd' : Distinct key (sortByKey key ts) :=
    (hp.pairwise_iff (fun {x y} (h : key x ≠ key y) => Ne.symm h)).mpr hd
  have hss := strictSorted_of key (sortByKey_sorted key ts) hd'
  unfold createRanges
  rw [rangesOfSorted_eq_map key _ [] (by simpa using hss) (fun t ht => hu t (hp.mem_iff.mp ht))]
  apply List.map_congr_left
  intro t _
  simp only [List.nil_append]
  rw [G_perm key hp t]

/-! ### the specification's stretches -/

theorem filter_zipIdx_fst {α β} (Q : α → Bool) (f : α → β) : ∀ (l : List α) (k : Nat),
    ((l.zipIdx k).filter fun p => Q p.1).map (fun p => f p.1) = (l.filter Q).map f := by
  intro l
  induction l with
  | nil => intro k; rfl
  | cons x l ih =>
    intro k
    rw [List.zipIdx_cons, List.filter_cons, List.filter_cons]
    by_cases h : Q x = true
    · simp only [h, ↓reduceIte, List.map_cons, ih]
    · have hf : Q x = false := by simpa using h
      simp only [hf, Bool.false_eq_true, ↓reduceIte, ih]

theorem map_zipIdx_fst {α β} (f : α → β) : ∀ (l : List α) (k : Nat),
    (l.zipIdx k).map (fun p => f p.1) = l.map f := by
  intro l
  induction l with
  | nil => intro k; rfl
  | cons x l ih => intro k; rw [List.zipIdx_cons, List.map_cons, List.map_cons, ih]

theorem index_unique (key : Tok → Pos) {ts : List Tok} (hd : Distinct key ts) {t u : Tok} {i j : Nat}
    (ht : (t, i) ∈ ts.zipIdx) (hu : (u, j) ∈ ts.zipIdx) (hk : key t = key u) : i = j := by
  obtain ⟨hi, h1⟩ := List.mem_zipIdx' ht
  obtain ⟨hj, h2⟩ := List.mem_zipIdx' hu
  rw [h1, h2] at hk
  have hp := List.pairwise_iff_getElem.mp hd
  rcases Nat.lt_trichotomy i j with h | h | h
  · exact absurd hk (hp i j hi hj h)
  · exact h
  · exact absurd hk.symm (hp j i hj hi h)

theorem stretchEnd_eq_G (key : Tok → Pos) {ts : List Tok} (hd : Distinct key ts) {t : Tok} {i : Nat}
    (ht : (t, i) ∈ ts.zipIdx) : stretchEnd key ts i t = G key ts t := by
  unfold stretchEnd G
  have hfil : (ts.zipIdx.filter fun p => follows key t i p.1 p.2)
      = ts.zipIdx.filter fun p => posLt (key t) (key p.1) := by
    apply List.filter_congr
    intro p hp
    obtain ⟨u, j⟩ := p
    simp only [follows]
    by_cases hk : key t = key u
    · have := index_unique key hd ht hp hk
      subst this
      simp
    · simp [hk]
  rw [hfil, filter_zipIdx_fst (fun u => posLt (key t) (key u)) key ts 0]

theorem stretches_eq_map (key : Tok → Pos) (ts : List Tok) (hd : Distinct key ts) :
    stretches key ts = ts.map fun t => (key t, G key ts t, t) := by
  unfold stretches
  rw [← map_zipIdx_fst (fun t => (key t, G key ts t, t)) ts 0]
  apply List.map_congr_left
  intro p hp
  obtain ⟨t, i⟩ := p
  simp only
  rw [stretchEnd_eq_G key hd hp]

def toS (r : Range) : Pos × Pos × Tok := (r.start, r.stop, r.value)

theorem ranges_perm_stretches (key : Tok → Pos) (ts : List Tok) (hd : Distinct key ts)
    (hu : U32Keys key ts) : ((createRanges key ts).map toS).Perm (stretches key ts) := by
  rw [createRanges_eq_map key ts hd hu, stretches_eq_map key ts hd, List.map_map]
  exact (sortByKey_perm key ts).map _

/-- with distinct keys and columns below `u32::MAX` every range is non-empty -/
theorem createRanges_nonempty (key : Tok → Pos) (ts : List Tok) (hd : Distinct key ts)
    (hu : ∀ t ∈ ts, (key t).1 ≤ NONE ∧ (key t).2 < NONE) :
    ∀ r ∈ createRanges key ts, posLt r.start r.stop = true := by
  intro r hr
  rw [createRanges_eq_map key ts hd (fun t ht => ⟨(hu t ht).1, Nat.le_of_lt (hu t ht).2⟩)] at hr
  obtain ⟨t, ht, rfl⟩ := List.mem_map.mp hr
  have ht' := hu t ((sortByKey_perm key ts).mem_iff.mp ht)
  simp only
  unfold G
  apply lt_foldl_posMin
  · rw [posLt_iff]; dsimp only [NONE] at ht' ⊢; omega
  · intro x hx
    obtain ⟨u, hu', rfl⟩ := List.mem_map.mp hx
    exact (List.mem_filter.mp hu').2

/-! ### the overlap tests agree on non-empty ranges -/

theorem one_eq_composeOne {ra ro : Range} (ha : posLt ra.start ra.stop = true)
    (ho : posLt ro.start ro.stop = true) : one ra ro = composeOne (toS ro) (toS ra) := by
  unfold one composeOne toS
  have hc : posLt (posMax ro.start ra.start) (posMin ro.stop ra.stop) = ovb ro ra := by
    rw [Bool.eq_iff_iff, posMax_lt_iff, lt_posMin_iff, lt_posMin_iff]
    simp only [ovb, Bool.and_eq_true]
    constructor
    · intro h; exact ⟨h.1.2, h.2.1⟩
    · intro h; exact ⟨⟨ho, h.1⟩, ⟨h.2, ha⟩⟩
  simp only [hc]
  rfl

theorem filterMap_congr' {α β} {l : List α} {f g : α → Option β} (h : ∀ a ∈ l, f a = g a) :
    l.filterMap f = l.filterMap g := by
  induction l with
  | nil => rfl
  | cons x l ih =>
    rw [List.filterMap_cons, List.filterMap_cons, h x (by simp),
      ih (fun a ha => h a (List.mem_cons_of_mem _ ha))]

theorem perm_flatMap_left {α β} (l : List α) {f g : α → List β} (h : ∀ a ∈ l, (f a).Perm (g a)) :
    (l.flatMap f).Perm (l.flatMap g) := by
  induction l with
  | nil => exact List.Perm.refl _
  | cons x l ih =>
    simp only [List.flatMap_cons]
    exact (h x (by simp)).append (ih (fun a ha => h a (List.mem_cons_of_mem _ ha)))

theorem sweepList_perm_composePairs (o a : List Tok) (hdo : Distinct dstKey o) (hda : Distinct srcKey a)
    (ho : ∀ t ∈ o, smallTok t) (ha : ∀ t ∈ a, smallTok t) :
    (sweepList o a).Perm (composePairs o a) := by
  have huo : ∀ t ∈ o, (dstKey t).1 ≤ NONE ∧ (dstKey t).2 < NONE := by
    intro t ht; obtain ⟨h1, h2, _, _⟩ := ho t ht
    simp only [dstKey, NONE]; omega
  have hua : ∀ t ∈ a, (srcKey t).1 ≤ NONE ∧ (srcKey t).2 < NONE := by
    intro t ht; obtain ⟨_, _, h3, h4⟩ := ha t ht
    simp only [srcKey, NONE]; omega
  have hneo := createRanges_nonempty dstKey o hdo huo
  have hnea := createRanges_nonempty srcKey a hda hua
  have hpo := ranges_perm_stretches dstKey o hdo (fun t ht => ⟨(huo t ht).1, Nat.le_of_lt (huo t ht).2⟩)
  have hpa := ranges_perm_stretches srcKey a hda (fun t ht => ⟨(hua t ht).1, Nat.le_of_lt (hua t ht).2⟩)
  have h1 : sweepList o a = ((createRanges srcKey a).map toS).flatMap fun sa =>
      ((createRanges dstKey o).map toS).filterMap fun so => composeOne so sa := by
    unfold sweepList
    rw [List.flatMap_map]
    apply flatMap_congr'
    intro ra hra
    rw [List.filterMap_map]
    apply filterMap_congr'
    intro ro hro
    exact one_eq_composeOne (hnea ra hra) (hneo ro hro)
  rw [h1]
  unfold composePairs
  refine (List.Perm.flatMap_right _ hpa).trans ?_
  apply perm_flatMap_left
  intro sa _
  exact hpo.filterMap _

end SmVerif.Adjust
