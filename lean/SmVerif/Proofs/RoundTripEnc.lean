import SmVerif.Proofs.RoundTripSeg
import SmVerif.Proofs.RoundTripRmi
/-
Layer C of the C01 round trip: the two serialisers, rewritten as functions that produce the text
still to be written (front-recursive), so that the decoder can be run in lock step.
-/
namespace SmVerif.RoundTrip
open SmVerif SmVerif.Vlq SmVerif.Mappings SmVerif.V3

/-- generated lines never go back -/
def Mono : Nat → List Tok → Prop
  | _, [] => True
  | l, t :: ts => l ≤ t.dl ∧ Mono t.dl ts

/-- text `serializeLoop` still appends -/
def emit (nn : Nat) : List Tok → Option Tok → EState → List Nat
  | [], _, _ => []
  | t :: ts, prev, st =>
    if t.dl ≠ st.line then
      List.replicate (t.dl - st.line) SEMI ++
        (tokText nn t { st with line := t.dl, col := 0 } ++
          emit nn ts (some t) (tokState nn t { st with line := t.dl, col := 0 }))
    else match prev with
      | none => tokText nn t st ++ emit nn ts (some t) (tokState nn t st)
      | some p =>
        if p = t then emit nn ts (some t) st
        else COMMA :: (tokText nn t st ++ emit nn ts (some t) (tokState nn t st))

theorem serializeLoop_eq (nsrc nn : Nat) : ∀ (ts : List Tok) (prev : Option Tok) (st : EState) (out : List Nat),
    wfToks nsrc ts = true → EBound st → Mono st.line ts →
    serializeLoop nn ts prev st out = .ok (out ++ emit nn ts prev st) := by
  intro ts
  induction ts with
  | nil => intro prev st out _ _ _; simp [serializeLoop, emit]
  | cons t ts ih =>
    intro prev st out hwf hb hm
    have hwt : wfTok nsrc t = true := by simp [wfToks] at hwf; exact hwf.1
    have hwts : wfToks nsrc ts = true := by simp [wfToks] at hwf ⊢; exact hwf.2
    obtain ⟨hle, hm'⟩ := hm
    rw [serializeLoop.eq_def, emit.eq_def]
    simp only
    by_cases hl : t.dl ≠ st.line
    · have hnlt : ¬ t.dl < st.line := by omega
      have hb0 : EBound { st with line := t.dl, col := 0 } := by
        obtain ⟨_, b2, b3, b4, b5⟩ := hb
        exact ⟨by simp [U32], b2, b3, b4, b5⟩
      simp only [hl, hnlt, ↓reduceIte, ne_eq, not_false_eq_true, encodeTok_eq nsrc nn t _ hwt hb0]
      rw [ih _ _ _ hwts (tokState_bound nsrc nn t _ hwt hb0) (by rw [tokState_line]; exact hm')]
      simp [tokText]
    · have hl' : t.dl = st.line := by omega
      simp only [hl, ↓reduceIte]
      cases prev with
      | none =>
        simp only [encodeTok_eq nsrc nn t _ hwt hb]
        rw [ih _ _ _ hwts (tokState_bound nsrc nn t _ hwt hb) (by rw [tokState_line, ← hl']; exact hm')]
        simp [tokText]
      | some p =>
        simp only
        by_cases hp : p = t
        · simp only [hp, ↓reduceIte]
          exact ih _ _ _ hwts hb (by rw [← hl']; exact hm')
        · simp only [hp, ↓reduceIte, encodeTok_eq nsrc nn t _ hwt hb]
          rw [ih _ _ _ hwts (tokState_bound nsrc nn t _ hwt hb) (by rw [tokState_line, ← hl']; exact hm')]
          simp [tokText]

/-! ### range mappings -/

def lineBits (bits : List Bool) (had : Bool) : List Nat := if had then encodeRmi bits else []

/-- text `serializeRmiLoop` still appends -/
def rmiTail : List Tok → Option Tok → Nat → List Bool → Bool → Nat → List Nat
  | [], _, _, bits, had, _ => lineBits bits had
  | t :: ts, prev, line, bits, had, seg =>
    if t.dl ≠ line then
      lineBits bits had ++ (List.replicate (t.dl - line) SEMI ++
        (if t.rng then rmiTail ts (some t) t.dl (setBit [] 0) true 1
         else rmiTail ts (some t) t.dl [] false 1))
    else if prev = some t then rmiTail ts (some t) line bits had seg
    else if t.rng then rmiTail ts (some t) line (setBit bits seg) true (seg + 1)
    else rmiTail ts (some t) line bits had (seg + 1)

/-- final value of the `empty` flag -/
def rmiEmpty : List Tok → Option Tok → Nat → Bool → Bool
  | [], _, _, e => e
  | t :: ts, prev, line, e =>
    if t.dl ≠ line then rmiEmpty ts (some t) t.dl (if t.rng then false else e)
    else if prev = some t then rmiEmpty ts (some t) line e
    else rmiEmpty ts (some t) line (if t.rng then false else e)

theorem serializeRmiLoop_eq : ∀ (ts : List Tok) (prev : Option Tok) (line : Nat) (bits : List Bool)
    (had : Bool) (seg : Nat) (empty : Bool) (out : List Nat), Mono line ts →
    serializeRmiLoop ts prev line bits had seg empty out =
      .ok (if rmiEmpty ts prev line empty then none else some (out ++ rmiTail ts prev line bits had seg)) := by
  intro ts
  induction ts with
  | nil =>
    intro prev line bits had seg empty out _
    simp only [serializeRmiLoop, rmiEmpty, rmiTail, lineBits]
    cases empty <;> cases had <;> simp
  | cons t ts ih =>
    intro prev line bits had seg empty out hm
    obtain ⟨hle, hm'⟩ := hm
    have hnlt : ¬ t.dl < line := by omega
    rw [serializeRmiLoop, rmiEmpty, rmiTail]
    simp only [hnlt, ↓reduceIte]
    by_cases hl : t.dl ≠ line
    · obtain ⟨k, hk⟩ : ∃ k, t.dl - line = k + 1 := ⟨t.dl - line - 1, by omega⟩
      have hk' : t.dl - line - 1 = k := by omega
      simp only [hl, ne_eq, not_false_eq_true, decide_true, Bool.not_true, Bool.false_and,
        Bool.false_eq_true, ↓reduceIte, hk, List.replicate_succ]
      cases hr : t.rng
      · simp only [Bool.false_eq_true, ↓reduceIte]
        rw [ih _ _ _ _ _ _ _ hm']
        cases had <;> simp [lineBits]
      · simp only [↓reduceIte]
        rw [ih _ _ _ _ _ _ _ hm']
        cases had <;> simp [lineBits]
    · have hl' : t.dl = line := by omega
      subst hl'
      simp only [ne_eq, not_true_eq_false, decide_false, Bool.not_false, Bool.true_and, ↓reduceIte,
        decide_eq_true_eq]
      by_cases hp : prev = some t
      · simp only [hp, ↓reduceIte]
        exact ih _ _ _ _ _ _ _ hm'
      · simp only [hp, ↓reduceIte]
        cases hr : t.rng
        · simp only [Bool.false_eq_true, ↓reduceIte]
          exact ih _ _ _ _ _ _ _ hm'
        · simp only [↓reduceIte]
          exact ih _ _ _ _ _ _ _ hm'

end SmVerif.RoundTrip
