import SmVerif.Model.SourceViewConc
import SmVerif.Proofs.ConcSplit
/-
C16: the invariant of the concurrent `SourceView` model and its preservation by every step of
every thread (any number of threads, any programs, any stale value returned by the relaxed load).
-/
namespace SmVerif.SVC
open SmVerif SmVerif.SV

/-- line indices are `u32`: `line_count` asks for line `!0` and the `lines()` iterator counts in `u32`,
so the statements about `c` and `a` calls are for texts with at most 2^32-1 lines -/
def Fits (src : List Nat) : Prop := (splitLines src).length ≤ NONE

theorem fits_of_length (src : List Nat) (h : src.length + 1 ≤ NONE) : Fits src :=
  Nat.le_trans (splitLines_length_le src) h

/-- the shared state: `lines` is a prefix of the specification's pieces and the remaining pieces are
the split of the unprocessed suffix (so `processed` is the offset of piece `lines.length`), or the
text is finished (`processed = len + 1`, all pieces cached); no value `processed` ever had exceeds the
current one; the lock is not poisoned -/
structure SInv (src : List Nat) (sh : Sh) : Prop where
  split : (sh.processed ≤ src.length ∧ splitLines src = sh.lines ++ splitLines (src.drop sh.processed))
          ∨ (sh.processed = src.length + 1 ∧ splitLines src = sh.lines)
  hist : ∀ v ∈ sh.history, v ≤ sh.processed
  cur : sh.processed ∈ sh.history
  npois : sh.poisoned = false

/-- the `get_line` in progress belongs to the call at the head of the program -/
def CtxOk (src : List Nat) (cl : Call) (ctx : Ctx) (idx : Nat) : Prop :=
  match cl with
  | .g i => ctx = .plain ∧ idx = i
  | .c => ctx = .count ∧ idx = NONE
  | .a => ∃ acc, ctx = .all acc ∧ acc = (splitLines src).take idx ∧ idx ≤ (splitLines src).length

def PhOk (src : List Nat) (sh : Sh) (me : Nat) (idx : Nat) : Ph → Prop
  | .loop => sh.lock = some me ∧ sh.processed ≤ src.length ∧ sh.lines[idx]? = none
  | .finGet => sh.lock ≠ some me ∧ sh.processed > src.length
  | _ => sh.lock ≠ some me

def PcOk (src : List Nat) (sh : Sh) (me : Nat) (prog : List Call) : Pc → Prop
  | .idle => sh.lock ≠ some me
  | .panicked => False
  | .cnt => sh.lock ≠ some me ∧ sh.processed > src.length ∧ ∃ rest, prog = .c :: rest
  | .gl ctx idx ph => PhOk src sh me idx ph ∧ ∃ cl rest, prog = cl :: rest ∧ CtxOk src cl ctx idx

/-- one thread against the shared state: every recorded result is the specification's answer, the
thread has not panicked, it holds the lock exactly in phase `loop` (and then the text is unfinished
and its line is not cached yet), a thread that saw "finished" is right about it -/
structure TInv (src : List Nat) (sh : Sh) (me : Nat) (th : Th) : Prop where
  res : ∀ cv ∈ th.results, cv.2 = specAns src cv.1
  pc : PcOk src sh me th.prog th.pc

structure Inv (src : List Nat) (progs : List (List Call)) (s : State) : Prop where
  sh : SInv src s.sh
  th : ∀ t th, s.threads[t]? = some th → TInv src s.sh t th
  holder : ∀ t, s.sh.lock = some t → t < s.threads.length
  len : s.threads.length = progs.length
  calls : ∀ (t : Nat) (x : Th), s.threads[t]? = some x → progs[t]? = some x.calls

/-- what a step of thread `me` can do to the shared state, as far as the other threads care -/
structure Ext (me : Nat) (sh sh' : Sh) : Prop where
  before : sh.lock = none ∨ sh.lock = some me
  after : sh'.lock = none ∨ sh'.lock = some me
  mono : sh.processed ≤ sh'.processed

theorem TInv.stable {src : List Nat} {sh sh' : Sh} {me u : Nat} {th : Th} (hne : u ≠ me)
    (hE : Ext me sh sh') (h : TInv src sh u th) : TInv src sh' u th := by
  have hl' : sh'.lock ≠ some u := by
    rcases hE.after with h' | h' <;> simp [h']
    exact fun e => hne e.symm
  have hl : sh.lock ≠ some u := by
    rcases hE.before with h' | h' <;> simp [h']
    exact fun e => hne e.symm
  refine ⟨h.res, ?_⟩
  have hp := h.pc
  cases hpc : th.pc with
  | idle => simpa [PcOk] using hl'
  | panicked => simp [hpc, PcOk] at hp
  | cnt =>
    simp only [hpc, PcOk] at hp ⊢
    exact ⟨hl', Nat.lt_of_lt_of_le hp.2.1 hE.mono, hp.2.2⟩
  | gl ctx idx ph =>
    simp only [hpc, PcOk] at hp ⊢
    refine ⟨?_, hp.2⟩
    cases ph with
    | loop => exact absurd hp.1.1 hl
    | finGet => exact ⟨hl', Nat.lt_of_lt_of_le hp.1.2 hE.mono⟩
    | start => exact hl'
    | fin => exact hl'
    | acq => exact hl'

/-! ### facts read off the shared invariant -/

theorem SInv.hit {src : List Nat} {sh : Sh} (h : SInv src sh) {idx : Nat} {l : List Nat}
    (hl : sh.lines[idx]? = some l) : (splitLines src)[idx]? = some l := by
  have hlt : idx < sh.lines.length := by
    rcases Nat.lt_or_ge idx sh.lines.length with h' | h'
    · exact h'
    · rw [List.getElem?_eq_none h'] at hl; cases hl
  rcases h.split with ⟨_, e⟩ | ⟨_, e⟩
  · rw [e, List.getElem?_append_left hlt]; exact hl
  · rw [e]; exact hl

theorem SInv.finished {src : List Nat} {sh : Sh} (h : SInv src sh) (hp : sh.processed > src.length) :
    splitLines src = sh.lines := by
  rcases h.split with ⟨h', _⟩ | ⟨_, e⟩
  · omega
  · exact e

theorem SInv.withLock {src : List Nat} {sh : Sh} (h : SInv src sh) (l : Option Nat) :
    SInv src { sh with lock := l } := ⟨h.split, h.hist, h.cur, h.npois⟩

/-! ### returning from `get_line` -/

theorem finish_eq (th : Th) (cl : Call) (rest : List Call) (v : Val) (hp : th.prog = cl :: rest) :
    th.finish v = { prog := rest, results := th.results ++ [(cl, v)], pc := .idle } := by
  simp [Th.finish, hp]

theorem ret_inv {src : List Nat} {sh : Sh} {me : Nat} {th : Th} {cl : Call} {rest : List Call}
    {ctx : Ctx} {idx : Nat} {r : Option (List Nat)} (hfit : Fits src)
    (hres : ∀ cv ∈ th.results, cv.2 = specAns src cv.1) (hprog : th.prog = cl :: rest)
    (hctx : CtxOk src cl ctx idx) (hlock : sh.lock ≠ some me)
    (hr : r = (splitLines src)[idx]?) (hnone : r = none → sh.processed > src.length) :
    TInv src sh me (th.ret ctx idx r) := by
  cases cl with
  | g i =>
    obtain ⟨rfl, rfl⟩ := hctx
    simp only [Th.ret, finish_eq th _ _ _ hprog]
    refine ⟨?_, by simpa [PcOk] using hlock⟩
    intro cv hcv
    rcases List.mem_append.1 hcv with h | h
    · exact hres cv h
    · have : cv = (Call.g idx, Val.line r) := by simpa using h
      subst this; simp [specAns, hr]
  | c =>
    obtain ⟨rfl, rfl⟩ := hctx
    simp only [Th.ret]
    refine ⟨hres, ?_⟩
    have hn : r = none := by
      rw [hr]; exact List.getElem?_eq_none hfit
    exact ⟨hlock, hnone hn, rest, hprog⟩
  | a =>
    obtain ⟨acc, rfl, hacc, hle⟩ := hctx
    cases r with
    | none =>
      simp only [Th.ret, finish_eq th _ _ _ hprog]
      refine ⟨?_, by simpa [PcOk] using hlock⟩
      intro cv hcv
      rcases List.mem_append.1 hcv with h | h
      · exact hres cv h
      · have : cv = (Call.a, Val.all acc) := by simpa using h
        subst this
        have hge : (splitLines src).length ≤ idx := by
          rcases Nat.lt_or_ge idx (splitLines src).length with h' | h'
          · have := (List.getElem?_eq_getElem h'); rw [← hr] at this; cases this
          · exact h'
        simp [specAns, hacc, List.take_of_length_le hge]
    | some l =>
      have hlt : idx < (splitLines src).length := by
        rcases Nat.lt_or_ge idx (splitLines src).length with h' | h'
        · exact h'
        · rw [List.getElem?_eq_none h'] at hr; cases hr
      have hU : ¬ (idx + 1 ≥ U32) := by
        have : (splitLines src).length ≤ NONE := hfit
        simp only [NONE] at this; simp only [U32]; omega
      simp only [Th.ret, hU, ↓reduceIte]
      refine ⟨hres, ?_⟩
      refine ⟨hlock, Call.a, rest, hprog, acc ++ [l], rfl, ?_, hlt⟩
      rw [List.take_add_one, ← hr, hacc]; rfl

/-! ### every step of every thread preserves the invariant -/

theorem startStep_inv {src : List Nat} {sh sh' : Sh} {me : Nat} {th th' : Th} {cl : Call}
    {rest : List Call} {ctx : Ctx} {idx : Nat} (hfit : Fits src) (hS : SInv src sh)
    (hres : ∀ cv ∈ th.results, cv.2 = specAns src cv.1) (hprog : th.prog = cl :: rest)
    (hctx : CtxOk src cl ctx idx) (h : startStep sh th ctx idx = some (sh', th')) :
    sh' = sh ∧ sh.lock = none ∧ TInv src sh me th' := by
  unfold startStep at h
  by_cases hl : sh.lock = none
  · have hlm : sh.lock ≠ some me := by simp [hl]
    simp only [hl, ne_eq, not_true_eq_false, ↓reduceIte, hS.npois, Bool.false_eq_true] at h
    cases hi : sh.lines[idx]? with
    | some l =>
      simp only [hi, Option.some.injEq, Prod.mk.injEq] at h
      obtain ⟨rfl, rfl⟩ := h
      exact ⟨rfl, hl, ret_inv hfit hres hprog hctx hlm (hS.hit hi).symm (by simp)⟩
    | none =>
      simp only [hi, Option.some.injEq, Prod.mk.injEq] at h
      obtain ⟨rfl, rfl⟩ := h
      exact ⟨rfl, hl, hres, ⟨hlm, cl, rest, hprog, hctx⟩⟩
  · simp [hl] at h

theorem Ext.refl_free {me : Nat} {sh : Sh} (h : sh.lock = none) : Ext me sh sh :=
  ⟨Or.inl h, Or.inl h, Nat.le_refl _⟩

/-- the shared state after one loop iteration at `processed ≤ len` -/
theorem loop_shared {src : List Nat} {sh : Sh} (hS : SInv src sh) (hle : sh.processed ≤ src.length)
    (l : Option Nat) :
    let r := scan (src.drop sh.processed)
    let p' := sh.processed + r.2.1
    SInv src { sh with processed := p', history := sh.history ++ [p'], lines := sh.lines ++ [r.1], lock := l }
    ∧ sh.processed ≤ p'
    ∧ (r.2.2 = true → p' = src.length + 1 ∧ splitLines src = sh.lines ++ [r.1])
    ∧ (r.2.2 = false → p' ≤ src.length)
    ∧ ∃ X, splitLines src = (sh.lines ++ [r.1]) ++ X := by
  intro r p'
  obtain ⟨hadv, hdone, hnd⟩ := split_drop_step src sh.processed hle
  have hsplit : splitLines src = sh.lines ++ splitLines (src.drop sh.processed) := by
    rcases hS.split with ⟨_, e⟩ | ⟨e, _⟩
    · exact e
    · omega
  have hmono : sh.processed ≤ p' := Nat.le_add_right _ _
  have hhist : ∀ v ∈ sh.history ++ [p'], v ≤ p' := by
    intro v hv
    rcases List.mem_append.1 hv with h | h
    · exact Nat.le_trans (hS.hist v h) hmono
    · have : v = p' := by simpa using h
      omega
  have hcur : p' ∈ sh.history ++ [p'] := by simp
  by_cases hd : r.2.2 = true
  · obtain ⟨e1, e2⟩ := hdone hd
    have hL : splitLines src = sh.lines ++ [r.1] := by rw [hsplit, e1]
    refine ⟨⟨Or.inr ⟨e2, hL⟩, hhist, hcur, hS.npois⟩, hmono, fun _ => ⟨e2, hL⟩, fun h => ?_, [], by simpa using hL⟩
    rw [hd] at h; cases h
  · have hd' : r.2.2 = false := by simpa using hd
    obtain ⟨e1, e2⟩ := hnd hd'
    have hL : splitLines src = (sh.lines ++ [r.1]) ++ splitLines (src.drop p') := by
      rw [hsplit, e1]; simp only [List.append_assoc, List.cons_append, List.nil_append]; rfl
    refine ⟨⟨Or.inl ⟨e2, hL⟩, hhist, hcur, hS.npois⟩, hmono, fun h => ?_, fun _ => e2, _, hL⟩
    rw [hd'] at h; cases h

theorem tstep_inv {src : List Nat} {sh sh' : Sh} {me v : Nat} {th th' : Th} (hfit : Fits src)
    (hS : SInv src sh) (hT : TInv src sh me th) (h : tstep true src sh me th v = some (sh', th')) :
    SInv src sh' ∧ TInv src sh' me th' ∧ (sh' = sh ∨ Ext me sh sh') := by
  have hres := hT.res
  have hpc := hT.pc
  unfold tstep at h
  cases hp : th.pc with
  | panicked => simp [hp] at h
  | idle =>
    simp only [hp] at h
    cases hprog : th.prog with
    | nil => simp [hprog] at h
    | cons cl rest =>
      cases cl with
      | g i =>
        simp only [hprog] at h
        obtain ⟨rfl, hl, hT'⟩ := startStep_inv (me := me) hfit hS hres hprog (by simp [CtxOk]) h
        exact ⟨hS, hT', Or.inl rfl⟩
      | c =>
        simp only [hprog] at h
        obtain ⟨rfl, hl, hT'⟩ := startStep_inv (me := me) hfit hS hres hprog (by simp [CtxOk]) h
        exact ⟨hS, hT', Or.inl rfl⟩
      | a =>
        simp only [hprog] at h
        obtain ⟨rfl, hl, hT'⟩ := startStep_inv (me := me) hfit hS hres hprog
          (show CtxOk src .a (.all []) 0 from ⟨[], rfl, by simp, Nat.zero_le _⟩) h
        exact ⟨hS, hT', Or.inl rfl⟩
  | cnt =>
    simp only [hp] at h
    simp only [hp, PcOk] at hpc
    obtain ⟨hlm, hfin, rest, hprog⟩ := hpc
    by_cases hl : sh.lock = none
    · simp only [hl, ne_eq, not_true_eq_false, ↓reduceIte, hS.npois, Bool.false_eq_true,
        Option.some.injEq, Prod.mk.injEq] at h
      obtain ⟨rfl, rfl⟩ := h
      refine ⟨hS, ⟨?_, ?_⟩, Or.inl rfl⟩
      · rw [finish_eq th _ _ _ hprog]
        intro cv hcv
        rcases List.mem_append.1 hcv with h' | h'
        · exact hres cv h'
        · have : cv = (Call.c, Val.count sh.lines.length) := by simpa using h'
          subst this; simp [specAns, hS.finished hfin]
      · rw [finish_eq th _ _ _ hprog]; simpa [PcOk] using hlm
    · simp [hl] at h
  | gl ctx idx ph =>
    simp only [hp, PcOk] at hpc
    obtain ⟨hph, cl, rest, hprog, hctx⟩ := hpc
    cases ph with
    | start =>
      simp only [hp] at h
      obtain ⟨rfl, hl, hT'⟩ := startStep_inv (me := me) hfit hS hres hprog hctx h
      exact ⟨hS, hT', Or.inl rfl⟩
    | fin =>
      simp only [hp] at h
      simp only [PhOk] at hph
      by_cases hv : v ∈ sh.history
      · simp only [hv, ↓reduceIte] at h
        by_cases hgt : v > src.length
        · simp only [hgt, ↓reduceIte, Option.some.injEq, Prod.mk.injEq] at h
          obtain ⟨rfl, rfl⟩ := h
          have hle := hS.hist v hv
          refine ⟨hS, ⟨hres, ?_⟩, Or.inl rfl⟩
          simp only [PcOk, PhOk]
          exact ⟨⟨hph, by omega⟩, cl, rest, hprog, hctx⟩
        · simp only [hgt, ↓reduceIte, Option.some.injEq, Prod.mk.injEq] at h
          obtain ⟨rfl, rfl⟩ := h
          refine ⟨hS, ⟨hres, ?_⟩, Or.inl rfl⟩
          simp only [PcOk, PhOk]
          exact ⟨hph, cl, rest, hprog, hctx⟩
      · simp [hv] at h
    | finGet =>
      simp only [hp] at h
      simp only [PhOk] at hph
      obtain ⟨hlm, hfin⟩ := hph
      by_cases hl : sh.lock = none
      · simp only [hl, ne_eq, not_true_eq_false, ↓reduceIte, hS.npois, Bool.false_eq_true,
          Option.some.injEq, Prod.mk.injEq] at h
        obtain ⟨rfl, rfl⟩ := h
        exact ⟨hS, ret_inv hfit hres hprog hctx hlm (by rw [hS.finished hfin]) (fun _ => hfin), Or.inl rfl⟩
      · simp [hl] at h
    | acq =>
      simp only [hp] at h
      simp only [PhOk] at hph
      by_cases hl : sh.lock = none
      · simp only [hl, ne_eq, not_true_eq_false, ↓reduceIte, hS.npois, Bool.false_eq_true] at h
        cases hi : sh.lines[idx]? with
        | some l =>
          simp only [hi, Option.some.injEq, Prod.mk.injEq] at h
          obtain ⟨rfl, rfl⟩ := h
          exact ⟨hS, ret_inv hfit hres hprog hctx hph (hS.hit hi).symm (by simp), Or.inl rfl⟩
        | none =>
          simp only [hi] at h
          by_cases hfin : sh.processed > src.length
          · simp only [hfin, ↓reduceIte, Option.some.injEq, Prod.mk.injEq] at h
            obtain ⟨rfl, rfl⟩ := h
            exact ⟨hS, ret_inv hfit hres hprog hctx hph (by rw [hS.finished hfin, hi]) (fun _ => hfin),
              Or.inl rfl⟩
          · simp only [hfin, ↓reduceIte, Option.some.injEq, Prod.mk.injEq] at h
            obtain ⟨rfl, rfl⟩ := h
            refine ⟨⟨hS.split, hS.hist, hS.cur, rfl⟩, ⟨hres, ?_⟩, Or.inr ⟨Or.inl hl, Or.inr rfl, Nat.le_refl _⟩⟩
            simp only [PcOk, PhOk]
            exact ⟨⟨trivial, by omega, hi⟩, cl, rest, hprog, hctx⟩
      · simp [hl] at h
    | loop =>
      simp only [hp] at h
      simp only [PhOk] at hph
      obtain ⟨hlk, hle, hmiss⟩ := hph
      have hngt : ¬ sh.processed > src.length := by omega
      simp only [hlk, ne_eq, not_true_eq_false, ↓reduceIte, hngt] at h
      have hfree := loop_shared hS hle none
      have hkeep := loop_shared hS hle (some me)
      simp only at hfree hkeep
      obtain ⟨hS1, hmono, hdone, hnd, X, hX⟩ := hfree
      obtain ⟨hS2, _⟩ := hkeep
      cases hi : (sh.lines ++ [(scan (src.drop sh.processed)).1])[idx]? with
      | some l =>
        simp only [hi, Option.some.injEq, Prod.mk.injEq] at h
        obtain ⟨rfl, rfl⟩ := h
        have hlt : idx < (sh.lines ++ [(scan (src.drop sh.processed)).1]).length := by
          rcases Nat.lt_or_ge idx (sh.lines ++ [(scan (src.drop sh.processed)).1]).length with h' | h'
          · exact h'
          · rw [List.getElem?_eq_none h'] at hi; cases hi
        have hL : (splitLines src)[idx]? = some l := by
          rw [hX, List.getElem?_append_left hlt]; exact hi
        exact ⟨hS1, ret_inv hfit hres hprog hctx (by simp) hL.symm (by simp),
          Or.inr ⟨Or.inr hlk, Or.inl rfl, hmono⟩⟩
      | none =>
        simp only [hi] at h
        by_cases hd : (scan (src.drop sh.processed)).2.2 = true
        · simp only [hd, ↓reduceIte, Option.some.injEq, Prod.mk.injEq] at h
          obtain ⟨rfl, rfl⟩ := h
          obtain ⟨e2, hL⟩ := hdone hd
          refine ⟨hS1, ret_inv hfit hres hprog hctx (by simp) (by rw [hL, hi]) (fun _ => ?_),
            Or.inr ⟨Or.inr hlk, Or.inl rfl, hmono⟩⟩
          show sh.processed + _ > src.length
          omega
        · have hd' : (scan (src.drop sh.processed)).2.2 = false := by simpa using hd
          simp only [hd', Bool.false_eq_true, ↓reduceIte, Option.some.injEq, Prod.mk.injEq] at h
          obtain ⟨rfl, rfl⟩ := h
          refine ⟨hS2, ⟨hres, ?_⟩, Or.inr ⟨Or.inr hlk, Or.inr rfl, hmono⟩⟩
          rw [hp]
          simp only [PcOk, PhOk]
          exact ⟨⟨trivial, hnd hd', hi⟩, cl, rest, hprog, hctx⟩


/-- a step only ever changes the thread's pc, records a result for the call at the head of its
program, or panics -/
theorem tstep_shape (fixed : Bool) (src : List Nat) (sh sh' : Sh) (me v : Nat) (th th' : Th)
    (h : tstep fixed src sh me th v = some (sh', th')) :
    th' = th ∨ (∃ pc, th' = { th with pc := pc }) ∨ (∃ ctx idx r, th' = th.ret ctx idx r) ∨
      (∃ v, th' = th.finish v) ∨ th' = th.crash := by
  unfold tstep startStep at h
  repeat' split at h
  all_goals (try (dsimp only at h; repeat' split at h))
  all_goals (first | (cases h) | skip)
  all_goals (first | (simp at h; done) | skip)
  all_goals (try (simp only [Option.some.injEq, Prod.mk.injEq] at h; obtain ⟨rfl, rfl⟩ := h))
  all_goals (first | (left; rfl) | (right; left; exact ⟨_, rfl⟩) | (right; right; left; exact ⟨_, _, _, rfl⟩) |
    (right; right; right; left; exact ⟨_, rfl⟩) | (right; right; right; right; rfl) | skip)

theorem finish_calls (th : Th) (v : Val) : (th.finish v).calls = th.calls := by
  unfold Th.finish Th.calls
  cases th.prog <;> simp

theorem crash_pc (th : Th) : th.crash.pc = .panicked := by
  unfold Th.crash; cases th.prog <;> rfl

theorem ret_calls (th : Th) (ctx : Ctx) (idx : Nat) (r : Option (List Nat)) :
    (th.ret ctx idx r).calls = th.calls ∨ (th.ret ctx idx r).pc = .panicked := by
  unfold Th.ret
  cases ctx with
  | plain => exact Or.inl (finish_calls _ _)
  | count => exact Or.inl rfl
  | all acc =>
    cases r with
    | none => exact Or.inl (finish_calls _ _)
    | some l =>
      dsimp only
      split
      · exact Or.inr (crash_pc _)
      · exact Or.inl rfl

theorem tstep_calls {fixed : Bool} {src : List Nat} {sh sh' : Sh} {me v : Nat} {th th' : Th}
    (h : tstep fixed src sh me th v = some (sh', th')) :
    th'.calls = th.calls ∨ th'.pc = .panicked := by
  rcases tstep_shape fixed src sh sh' me v th th' h with rfl | ⟨pc, rfl⟩ | ⟨ctx, idx, r, rfl⟩ | ⟨v, rfl⟩ | rfl
  · exact Or.inl rfl
  · exact Or.inl rfl
  · exact ret_calls _ _ _ _
  · exact Or.inl (finish_calls _ _)
  · exact Or.inr (crash_pc _)

/-! ### the whole system -/

theorem inv_init (src : List Nat) (progs : List (List Call)) : Inv src progs (initState progs) := by
  refine ⟨⟨Or.inl ⟨Nat.zero_le _, by simp [initState]⟩, ?_, ?_, rfl⟩, ?_, ?_, ?_, ?_⟩
  · intro v hv; simp [initState] at hv; simp [hv, initState]
  · simp [initState]
  · intro t th hth
    simp only [initState, List.getElem?_map] at hth
    cases hp : progs[t]? with
    | none => simp [hp] at hth
    | some p =>
      simp only [hp, Option.map_some, Option.some.injEq] at hth
      subst hth
      exact ⟨by simp, by simp [PcOk, initState]⟩
  · intro t ht; simp [initState] at ht
  · simp [initState]
  · intro t th hth
    simp only [initState, List.getElem?_map] at hth
    cases hp : progs[t]? with
    | none => simp [hp] at hth
    | some p =>
      simp only [hp, Option.map_some, Option.some.injEq] at hth
      subst hth
      simp [Th.calls]

theorem step_inv {src : List Nat} {progs : List (List Call)} {s s' : State} {t v : Nat}
    (hfit : Fits src) (hI : Inv src progs s) (h : step? true src s t v = some s') : Inv src progs s' := by
  unfold step? at h
  cases hth : s.threads[t]? with
  | none => simp [hth] at h
  | some th =>
    simp only [hth] at h
    cases hts : tstep true src s.sh t th v with
    | none => simp [hts] at h
    | some r =>
      obtain ⟨sh', th'⟩ := r
      simp only [hts, Option.some.injEq] at h
      subst h
      obtain ⟨hS', hT', hE⟩ := tstep_inv hfit hI.sh (hI.th t th hth) hts
      have htlt : t < s.threads.length := by
        rcases Nat.lt_or_ge t s.threads.length with h' | h'
        · exact h'
        · rw [List.getElem?_eq_none h'] at hth; cases hth
      refine ⟨hS', ?_, ?_, ?_, ?_⟩
      · intro u thu hu
        simp only [List.getElem?_set] at hu
        by_cases hut : t = u
        · subst hut
          simp only [↓reduceIte, htlt, Option.some.injEq] at hu
          subst hu; exact hT'
        · simp only [hut, ↓reduceIte] at hu
          have hold := hI.th u thu hu
          rcases hE with rfl | hE
          · exact hold
          · exact hold.stable (fun e => hut e.symm) hE
      · intro u hu
        simp only [List.length_set]
        rcases hE with rfl | hE
        · exact hI.holder u hu
        · rcases hE.after with h' | h'
          · rw [h'] at hu; cases hu
          · rw [h'] at hu; cases hu; exact htlt
      · simp only [List.length_set]; exact hI.len
      · intro u thu hu
        simp only [List.getElem?_set] at hu
        by_cases hut : t = u
        · subst hut
          simp only [↓reduceIte, htlt, Option.some.injEq] at hu
          subst hu
          rcases tstep_calls hts with h' | h'
          · rw [h']; exact hI.calls t th hth
          · have := hT'.pc; rw [h'] at this; exact absurd this (by simp [PcOk])
        · simp only [hut, ↓reduceIte] at hu
          exact hI.calls u thu hu

theorem spawn_inv {src : List Nat} {progs : List (List Call)} {s : State} (p : List Call)
    (hI : Inv src progs s) :
    Inv src (progs ++ [p]) { s with threads := s.threads ++ [{ prog := p }] } := by
  refine ⟨hI.sh, ?_, ?_, ?_, ?_⟩
  · intro u thu hu
    simp only [List.getElem?_append] at hu
    by_cases hlt : u < s.threads.length
    · simp only [hlt, ↓reduceIte] at hu; exact hI.th u thu hu
    · simp only [hlt, ↓reduceIte] at hu
      have hu0 : u - s.threads.length = 0 := by
        rcases Nat.eq_zero_or_pos (u - s.threads.length) with h' | h'
        · exact h'
        · rw [List.getElem?_eq_none (by simp only [List.length_cons, List.length_nil]; omega)] at hu; cases hu
      simp only [hu0, List.getElem?_cons_zero, Option.some.injEq] at hu
      subst hu
      refine ⟨by simp, ?_⟩
      simp only [PcOk]
      intro hl
      exact hlt (hI.holder u hl)
  · intro u hu
    have := hI.holder u hu
    simp only [List.length_append, List.length_cons, List.length_nil]; omega
  · simp [hI.len]
  · intro u thu hu
    simp only [List.getElem?_append] at hu ⊢
    by_cases hlt : u < s.threads.length
    · have hlt' : u < progs.length := by rw [← hI.len]; exact hlt
      simp only [hlt, ↓reduceIte] at hu
      simp only [hlt', ↓reduceIte]
      exact hI.calls u thu hu
    · have hlt' : ¬ u < progs.length := by rw [← hI.len]; exact hlt
      simp only [hlt, ↓reduceIte] at hu
      simp only [hlt', ↓reduceIte]
      have hu0 : u - s.threads.length = 0 := by
        rcases Nat.eq_zero_or_pos (u - s.threads.length) with h' | h'
        · exact h'
        · rw [List.getElem?_eq_none (by simp only [List.length_cons, List.length_nil]; omega)] at hu; cases hu
      rw [← hI.len, hu0]
      simp only [hu0, List.getElem?_cons_zero, Option.some.injEq] at hu
      subst hu
      simp [Th.calls]

theorem reachable_inv {src : List Nat} {progs : List (List Call)} {s : State} (hfit : Fits src)
    (hR : Reachable src progs s) : Inv src progs s := by
  induction hR with
  | init progs => exact inv_init src progs
  | step _ hstep ih => exact step_inv hfit ih hstep
  | spawn p _ ih => exact spawn_inv p ih

end SmVerif.SVC
