import SmVerif.Proofs.HermesDecode
/-
C14 helper lemmas, part 5: `decode_regular`'s token loop never panics or diverges, and every token
it produces has u32 coordinates (so that the C01 round-trip theorem applies to decoded maps).
-/
namespace SmVerif.Hermes
open SmVerif SmVerif.Vlq SmVerif.Mappings SmVerif.V3

/-- the call did not panic and did not hang -/
def NoCrash {α} (r : Res α) : Prop := ∀ e, r = .error e → e ≠ .panic ∧ e ≠ .diverge

theorem noCrash_ok {α} (a : α) : NoCrash (.ok a : Res α) := by
  intro e h; cases h

theorem decodeSeg_noCrash (nsrc nn dl : Nat) (bits : List Bool) (i dc : Nat) (st : DState)
    (nums : List Int) (hne : nums ≠ []) : NoCrash (Mappings.decodeSeg nsrc nn dl bits i dc st nums) := by
  rcases nums with _ | ⟨n0, _ | ⟨n1, _ | ⟨n2, _ | ⟨n3, _ | ⟨n4, _ | ⟨n5, r⟩⟩⟩⟩⟩⟩
  · exact absurd rfl hne
  · rw [Decode.decodeSeg_one]; exact noCrash_ok _
  · intro e h; cases h; simp
  · intro e h; cases h; simp
  · by_cases hs : (st.src : Int) + n1 < 0 ∨ (st.src : Int) + n1 ≥ (nsrc : Int)
    · rw [Decode.decodeSeg_four_bad _ _ _ _ _ _ _ _ _ _ _ hs]; intro e h; cases h; simp
    · rw [Decode.decodeSeg_four _ _ _ _ _ _ _ _ _ _ _ hs]; exact noCrash_ok _
  · by_cases hs : (st.src : Int) + n1 < 0 ∨ (st.src : Int) + n1 ≥ (nsrc : Int)
    · rw [Decode.decodeSeg_five_bad_src _ _ _ _ _ _ _ _ _ _ _ _ hs]; intro e h; cases h; simp
    · by_cases hn : (st.name : Int) + n4 < 0 ∨ (st.name : Int) + n4 ≥ (nn : Int)
      · rw [Decode.decodeSeg_five_bad_name _ _ _ _ _ _ _ _ _ _ _ _ hs hn]; intro e h; cases h; simp
      · rw [Decode.decodeSeg_five _ _ _ _ _ _ _ _ _ _ _ _ hs hn]; exact noCrash_ok _
  · intro e h; cases h; simp

theorem mdecodeSegs_noCrash (nsrc nn dl : Nat) (bits : List Bool) :
    ∀ (segs : List (List Nat)) (i dc : Nat) (st : DState) (acc : List Tok),
    NoCrash (Mappings.decodeSegs nsrc nn dl bits segs i dc st acc) := by
  intro segs
  induction segs with
  | nil => intro i dc st acc; rw [Mappings.decodeSegs]; exact noCrash_ok _
  | cons seg segs ih =>
    intro i dc st acc
    rw [Mappings.decodeSegs]
    by_cases hs : seg = []
    · simp only [hs, ↓reduceIte]; exact ih _ _ _ _
    · simp only [hs, ↓reduceIte]
      cases hp : parseVlq seg with
      | error e =>
        intro e' h
        simp only [Except.error.injEq] at h
        subst h
        exact ⟨fun h => parseVlq_ne_panic seg (h ▸ hp), fun h => parseVlq_ne_diverge seg (h ▸ hp)⟩
      | ok nums =>
        simp only
        have hne := (parseVlq_ok_bnd hp).1
        cases hd : Mappings.decodeSeg nsrc nn dl bits i dc st nums with
        | error e =>
          intro e' h
          simp only [Except.error.injEq] at h
          subst h
          exact decodeSeg_noCrash nsrc nn dl bits i dc st nums hne e hd
        | ok x =>
          obtain ⟨t, dc', st'⟩ := x
          exact ih _ _ _ _

theorem mdecodeLines_noCrash (nsrc nn : Nat) :
    ∀ (lines rl : List (List Nat)) (dl : Nat) (st : DState) (acc : List Tok),
    NoCrash (Mappings.decodeLines nsrc nn lines rl dl st acc) := by
  intro lines
  induction lines with
  | nil => intro rl dl st acc; rw [Mappings.decodeLines]; exact noCrash_ok _
  | cons line lines ih =>
    intro rl dl st acc
    rw [Mappings.decodeLines]
    by_cases hs : line = []
    · rw [if_pos hs]; exact ih _ _ _ _
    · rw [if_neg hs]
      cases hr : decodeRmi (rl.headD []) with
      | none => intro e h; cases h; simp
      | some bits =>
        simp only
        cases hd : Mappings.decodeSegs nsrc nn dl bits (splitOn COMMA line) 0 0 st acc with
        | error e =>
          intro e' h
          simp only [Except.error.injEq] at h
          subst h
          exact mdecodeSegs_noCrash nsrc nn dl bits _ _ _ _ _ e hd
        | ok x =>
          obtain ⟨st', acc'⟩ := x
          exact ih _ _ _ _

/-- `decode_regular`'s token loop never panics and never hangs -/
theorem decodeMappings_noCrash (m rmi : List Nat) (nsrc nn : Nat) :
    NoCrash (decodeMappings m rmi nsrc nn) :=
  mdecodeLines_noCrash nsrc nn _ _ _ _ _

/-! ### decoded tokens have u32 coordinates -/

/-- generated line below `L`, the three wrapped coordinates u32 -/
def Coord (L : Nat) (t : Tok) : Prop := t.dl < L ∧ t.dc < U32 ∧ t.sl < U32 ∧ t.sc < U32

theorem decodeSeg_ok_coord {nsrc nn dl : Nat} {bits : List Bool} {i dc : Nat} {st : DState}
    {nums : List Int} {t : Tok} {dc' : Nat} {st' : DState} {L : Nat} (hL : dl < L)
    (h : Mappings.decodeSeg nsrc nn dl bits i dc st nums = .ok (t, dc', st')) : Coord L t := by
  have h0 : 0 < U32 := by simp [U32]
  rcases nums with _ | ⟨n0, _ | ⟨n1, _ | ⟨n2, _ | ⟨n3, _ | ⟨n4, _ | ⟨n5, r⟩⟩⟩⟩⟩⟩
  · cases h
  · rw [Decode.decodeSeg_one] at h
    cases h
    exact ⟨hL, wrapU32_lt _, h0, h0⟩
  · cases h
  · cases h
  · by_cases hs : (st.src : Int) + n1 < 0 ∨ (st.src : Int) + n1 ≥ (nsrc : Int)
    · rw [Decode.decodeSeg_four_bad _ _ _ _ _ _ _ _ _ _ _ hs] at h; cases h
    · rw [Decode.decodeSeg_four _ _ _ _ _ _ _ _ _ _ _ hs] at h
      cases h
      exact ⟨hL, wrapU32_lt _, wrapU32_lt _, wrapU32_lt _⟩
  · by_cases hs : (st.src : Int) + n1 < 0 ∨ (st.src : Int) + n1 ≥ (nsrc : Int)
    · rw [Decode.decodeSeg_five_bad_src _ _ _ _ _ _ _ _ _ _ _ _ hs] at h; cases h
    · by_cases hn : (st.name : Int) + n4 < 0 ∨ (st.name : Int) + n4 ≥ (nn : Int)
      · rw [Decode.decodeSeg_five_bad_name _ _ _ _ _ _ _ _ _ _ _ _ hs hn] at h; cases h
      · rw [Decode.decodeSeg_five _ _ _ _ _ _ _ _ _ _ _ _ hs hn] at h
        cases h
        exact ⟨hL, wrapU32_lt _, wrapU32_lt _, wrapU32_lt _⟩
  · cases h

theorem mdecodeSegs_coord {nsrc nn dl : Nat} {bits : List Bool} {L : Nat} (hL : dl < L) :
    ∀ (segs : List (List Nat)) (i dc : Nat) (st : DState) (acc : List Tok) (r : DState × List Tok),
    (∀ t ∈ acc, Coord L t) → Mappings.decodeSegs nsrc nn dl bits segs i dc st acc = .ok r →
    ∀ t ∈ r.2, Coord L t := by
  intro segs
  induction segs with
  | nil =>
    intro i dc st acc r ha h
    rw [Mappings.decodeSegs] at h
    cases h
    exact ha
  | cons seg segs ih =>
    intro i dc st acc r ha h
    rcases Decode.decodeSegs_cons_inv h with ⟨_, h'⟩ | ⟨_, nums, t, dc', st', _, hd, h'⟩
    · exact ih (i + 1) dc st acc r ha h'
    · refine ih (i + 1) dc' st' (t :: acc) r ?_ h'
      intro t' ht'
      rcases List.mem_cons.mp ht' with rfl | ht'
      · exact decodeSeg_ok_coord hL hd
      · exact ha t' ht'

theorem mdecodeLines_coord {nsrc nn : Nat} {L : Nat} :
    ∀ (lines rl : List (List Nat)) (dl : Nat) (st : DState) (acc ts : List Tok),
    dl + lines.length ≤ L →
    (∀ t ∈ acc, Coord L t) → Mappings.decodeLines nsrc nn lines rl dl st acc = .ok ts →
    ∀ t ∈ ts, Coord L t := by
  intro lines
  induction lines with
  | nil =>
    intro rl dl st acc ts _ ha h
    rw [Mappings.decodeLines] at h
    cases h
    intro t ht
    exact ha t (List.mem_reverse.mp ht)
  | cons line lines ih =>
    intro rl dl st acc ts hL ha h
    simp only [List.length_cons] at hL
    rcases Decode.decodeLines_cons_inv h with ⟨_, h'⟩ | ⟨_, bits, st', acc', _, hd, h'⟩
    · exact ih rl.tail (dl + 1) st acc ts (by omega) ha h'
    · exact ih rl.tail (dl + 1) st' acc' ts (by omega)
        (mdecodeSegs_coord (by omega) _ _ _ _ _ _ ha hd) h'

theorem splitOn_length_le (sep : Nat) : ∀ s : List Nat, (splitOn sep s).length ≤ s.length + 1 := by
  intro s
  induction s with
  | nil => simp [splitOn]
  | cons c cs ih =>
    rw [splitOn]
    by_cases h : c = sep
    · simp only [h, ↓reduceIte, List.length_cons]; omega
    · simp only [h, ↓reduceIte]
      cases hs : splitOn sep cs with
      | nil => simp
      | cons p ps => rw [hs] at ih; simp only [List.length_cons] at ih ⊢; omega

/-- a successfully decoded mapping string of fewer than 2^32 bytes, for at most 2^32 sources and
names, yields tokens that are well-formed in the sense of C01 -/
theorem decodeMappings_wf {m rmi : List Nat} {nsrc nn : Nat} {ts : List Tok}
    (h : decodeMappings m rmi nsrc nn = .ok ts)
    (hm : m.length < U32) (hs : nsrc ≤ U32) (hn : nn ≤ U32) : wfToks nsrc ts = true := by
  have hc := mdecodeLines_coord (L := U32) (splitOn SEMI m) (splitOn SEMI rmi) 0 {} [] ts
    (by have := splitOn_length_le SEMI m; omega) (by simp) h
  have hr : ∀ t ∈ ts, Decode.Resolves nsrc nn t :=
    Decode.decodeLines_resolves _ _ _ _ _ _ (by intro t ht; simp at ht) h
  unfold wfToks
  rw [List.all_eq_true]
  intro t ht
  obtain ⟨h1, h2, h3, h4⟩ := hc t ht
  obtain ⟨h5, h6⟩ := hr t ht
  unfold wfTok
  have hN : NONE < U32 := by simp [NONE, U32]
  have hsrc : t.src < U32 := by rcases h5 with h | h <;> omega
  have hname : t.name < U32 := by rcases h6 with h | h <;> omega
  simp only [Bool.and_eq_true, decide_eq_true_eq, Bool.or_eq_true]
  exact ⟨⟨⟨⟨⟨⟨h1, h2⟩, h3⟩, h4⟩, hsrc⟩, hname⟩, h5⟩

end SmVerif.Hermes
