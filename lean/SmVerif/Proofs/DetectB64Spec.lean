import SmVerif.Model.Detect
import SmVerif.Proofs.DetectB64
/-
C18 helper lemmas, part 4: the codec's encoder is RFC 4648 read as a bit string (`Spec.specB64`).
-/
namespace SmVerif.Detect
open SmVerif SmVerif.Detect.Spec

theorem groups6_fuel (n m : Nat) (bits : List Nat) (hn : bits.length ≤ n) (hm : bits.length ≤ m) :
    groups6 n bits = groups6 m bits := by
  induction n generalizing m bits with
  | zero =>
    have : bits = [] := by simpa using hn
    subst this
    cases m <;> simp [groups6]
  | succ n ih =>
    cases bits with
    | nil => cases m <;> simp [groups6]
    | cons x xs =>
      cases m with
      | zero => simp at hm
      | succ m =>
        simp only [groups6, List.isEmpty_cons, Bool.false_eq_true, ↓reduceIte]
        congr 1
        apply ih
        · simp only [List.length_drop, List.length_cons] at hn ⊢; omega
        · simp only [List.length_drop, List.length_cons] at hm ⊢; omega

theorem alphabet_eq_fin : ∀ d : Fin 64, alphabet.getD d.val 0 = encChar d.val := by decide
theorem alphabet_eq (d : Nat) (h : d < 64) : alphabet.getD d 0 = encChar d := alphabet_eq_fin ⟨d, h⟩

/-- the symbols before padding -/
def symsOf (bs : Bytes) : Bytes :=
  (groups6 (bs.flatMap bitsOfByte).length (bs.flatMap bitsOfByte)).map fun g => alphabet.getD (valOfBits g) 0

theorem specB64_eq (bs : Bytes) : specB64 bs = symsOf bs ++ List.replicate ((4 - (symsOf bs).length % 4) % 4) 61 := rfl

theorem groups6_step (n b0 b1 b2 b3 b4 b5 : Nat) (rest : List Nat) :
    groups6 (n + 1) (b0 :: b1 :: b2 :: b3 :: b4 :: b5 :: rest) = [b0, b1, b2, b3, b4, b5] :: groups6 n rest := by
  simp [groups6]

theorem valOfBits6 (x0 x1 x2 x3 x4 x5 : Nat) :
    valOfBits [x0, x1, x2, x3, x4, x5] = x0 * 32 + x1 * 16 + x2 * 8 + x3 * 4 + x4 * 2 + x5 := by
  simp only [valOfBits, List.foldl]; omega

theorem symsOf_three (a b c : Nat) (r : Bytes) (ha : a < 256) (hb : b < 256) (hc : c < 256) :
    symsOf (a :: b :: c :: r) =
      encChar (a / 4) :: encChar ((a % 4) * 16 + b / 16) :: encChar ((b % 16) * 4 + c / 64) :: encChar (c % 64)
        :: symsOf r := by
  unfold symsOf
  simp only [List.flatMap_cons]
  generalize hR : r.flatMap bitsOfByte = R
  have e1 : a / 128 % 2 * 32 + a / 64 % 2 * 16 + a / 32 % 2 * 8 + a / 16 % 2 * 4 + a / 8 % 2 * 2 + a / 4 % 2 = a / 4 := by omega
  have e2 : a / 2 % 2 * 32 + a % 2 * 16 + b / 128 % 2 * 8 + b / 64 % 2 * 4 + b / 32 % 2 * 2 + b / 16 % 2 = (a % 4) * 16 + b / 16 := by omega
  have e3 : b / 8 % 2 * 32 + b / 4 % 2 * 16 + b / 2 % 2 * 8 + b % 2 * 4 + c / 128 % 2 * 2 + c / 64 % 2 = (b % 16) * 4 + c / 64 := by omega
  have e4 : c / 32 % 2 * 32 + c / 16 % 2 * 16 + c / 8 % 2 * 8 + c / 4 % 2 * 4 + c / 2 % 2 * 2 + c % 2 = c % 64 := by omega
  simp only [bitsOfByte, List.cons_append, List.nil_append, List.length_cons]
  rw [groups6_step, groups6_step, groups6_step, groups6_step]
  rw [groups6_fuel _ R.length R (by omega) (Nat.le_refl _)]
  simp only [List.map_cons, valOfBits6, e1, e2, e3, e4]
  rw [alphabet_eq _ (by omega), alphabet_eq _ (by omega), alphabet_eq _ (by omega), alphabet_eq _ (by omega)]

theorem symsOf_two (a b : Nat) (ha : a < 256) (hb : b < 256) :
    symsOf [a, b] = [encChar (a / 4), encChar ((a % 4) * 16 + b / 16), encChar ((b % 16) * 4)] := by
  have e1 : a / 128 % 2 * 32 + a / 64 % 2 * 16 + a / 32 % 2 * 8 + a / 16 % 2 * 4 + a / 8 % 2 * 2 + a / 4 % 2 = a / 4 := by omega
  have e2 : a / 2 % 2 * 32 + a % 2 * 16 + b / 128 % 2 * 8 + b / 64 % 2 * 4 + b / 32 % 2 * 2 + b / 16 % 2 = (a % 4) * 16 + b / 16 := by omega
  have e3 : b / 8 % 2 * 32 + b / 4 % 2 * 16 + b / 2 % 2 * 8 + b % 2 * 4 + 0 * 2 + 0 = (b % 16) * 4 := by omega
  unfold symsOf
  simp only [List.flatMap_cons, List.flatMap_nil, bitsOfByte, List.cons_append, List.nil_append, List.length_cons,
    List.length_nil, List.append_nil]
  rw [groups6_step, groups6_step]
  simp only [groups6, List.isEmpty_cons, Bool.false_eq_true, ↓reduceIte, List.take, List.drop, List.length_cons,
    List.length_nil, List.isEmpty_nil, List.map_cons, List.map_nil]
  simp only [show List.replicate (6 - (0 + 1 + 1 + 1 + 1)) 0 = [0, 0] from rfl, List.cons_append, List.nil_append,
    valOfBits6, e1, e2, e3]
  rw [alphabet_eq _ (by omega), alphabet_eq _ (by omega), alphabet_eq _ (by omega)]
  simp

theorem symsOf_one (a : Nat) (ha : a < 256) :
    symsOf [a] = [encChar (a / 4), encChar ((a % 4) * 16)] := by
  have e1 : a / 128 % 2 * 32 + a / 64 % 2 * 16 + a / 32 % 2 * 8 + a / 16 % 2 * 4 + a / 8 % 2 * 2 + a / 4 % 2 = a / 4 := by omega
  have e2 : a / 2 % 2 * 32 + a % 2 * 16 + 0 * 8 + 0 * 4 + 0 * 2 + 0 = (a % 4) * 16 := by omega
  unfold symsOf
  simp only [List.flatMap_cons, List.flatMap_nil, bitsOfByte, List.length_cons,
    List.length_nil, List.append_nil]
  rw [groups6_step]
  simp only [groups6, List.isEmpty_cons, Bool.false_eq_true, ↓reduceIte, List.take, List.drop, List.length_cons,
    List.length_nil, List.isEmpty_nil, List.map_cons, List.map_nil]
  simp only [show List.replicate (6 - (0 + 1 + 1)) 0 = [0, 0, 0, 0] from rfl, List.cons_append, List.nil_append,
    valOfBits6, e1, e2]
  rw [alphabet_eq _ (by omega), alphabet_eq _ (by omega)]
  simp

/-- the codec's encoder is RFC 4648 read as a bit string -/
theorem b64Encode_eq_spec (bs : Bytes) (h : IsBytes bs) : b64Encode bs = specB64 bs := by
  induction bs using b64Encode.induct with
  | case1 a b c r ih =>
    have ha : a < 256 := h a (by simp)
    have hb : b < 256 := h b (by simp)
    have hc : c < 256 := h c (by simp)
    have hr : IsBytes r := fun x hx => h x (by simp [hx])
    rw [specB64_eq, symsOf_three a b c r ha hb hc, b64Encode, ih hr, specB64_eq]
    simp only [List.length_cons, List.cons_append]
    have : ((symsOf r).length + 1 + 1 + 1 + 1) % 4 = (symsOf r).length % 4 := by omega
    rw [this]
  | case2 a b =>
    have ha : a < 256 := h a (by simp)
    have hb : b < 256 := h b (by simp)
    rw [specB64_eq, symsOf_two a b ha hb]
    rfl
  | case3 a =>
    have ha : a < 256 := h a (by simp)
    rw [specB64_eq, symsOf_one a ha]
    rfl
  | case4 => rfl

end SmVerif.Detect
