import SmVerif.Model.SourceViewSlice
import SmVerif.Proofs.SourceView
/-
C15, slice part: well-formed UTF-8 characters against `next_code_point`, the two loops of
`get_line_slice` against `sliceSpec` (on a character boundary and inside a surrogate pair), and
well-formedness of the lines of a well-formed text.
-/
namespace SmVerif.SV
open SmVerif

theorem isCont_iff (b : Nat) : isCont b = true ↔ 128 ≤ b ∧ b < 192 := by
  simp [isCont]

/-- the four shapes of a well-formed character, as arithmetic facts -/
theorem validChar_cases (c : List Nat) (h : validChar c = true) :
    (∃ a, c = [a] ∧ a < 128) ∨
    (∃ a b, c = [a, b] ∧ 194 ≤ a ∧ a ≤ 223 ∧ 128 ≤ b ∧ b < 192) ∨
    (∃ a b d, c = [a, b, d] ∧ 224 ≤ a ∧ a ≤ 239 ∧ 128 ≤ b ∧ b < 192 ∧ 128 ≤ d ∧ d < 192 ∧
      (a = 224 → 160 ≤ b) ∧ (a = 237 → b ≤ 159)) ∨
    (∃ a b d e, c = [a, b, d, e] ∧ 240 ≤ a ∧ a ≤ 244 ∧ 128 ≤ b ∧ b < 192 ∧ 128 ≤ d ∧ d < 192 ∧
      128 ≤ e ∧ e < 192 ∧ (a = 240 → 144 ≤ b) ∧ (a = 244 → b ≤ 143)) := by
  match c, h with
  | [], h => simp [validChar] at h
  | [a], h => left; exact ⟨a, rfl, by simpa [validChar] using h⟩
  | [a, b], h =>
    right; left
    simp [validChar, isCont] at h
    exact ⟨a, b, rfl, by omega⟩
  | [a, b, d], h =>
    right; right; left
    simp [validChar, isCont] at h
    exact ⟨a, b, d, rfl, by omega⟩
  | [a, b, d, e], h =>
    right; right; right
    simp [validChar, isCont] at h
    exact ⟨a, b, d, e, rfl, by omega⟩
  | _ :: _ :: _ :: _ :: _ :: _, h => simp [validChar] at h

theorem nextCodePoint_valid (c rest : List Nat) (h : validChar c = true) :
    nextCodePoint (c ++ rest) = some (codePoint c, rest) := by
  rcases validChar_cases c h with ⟨a, rfl, hc⟩ | ⟨a, b, rfl, hc⟩ | ⟨a, b, d, rfl, hc⟩ | ⟨a, b, d, e, rfl, hc⟩
  · simp [nextCodePoint, codePoint, leadPayload, hc]
  · have h1 : ¬ a < 128 := by omega
    have h2 : a < 224 := by omega
    simp [nextCodePoint, codePoint, leadPayload, h1, h2]
    omega
  · have h1 : ¬ a < 128 := by omega
    have h2 : ¬ a < 224 := by omega
    have h3 : a < 240 := by omega
    simp [nextCodePoint, codePoint, leadPayload, h1, h2, h3]
    omega
  · have h1 : ¬ a < 128 := by omega
    have h2 : ¬ a < 224 := by omega
    have h3 : ¬ a < 240 := by omega
    simp [nextCodePoint, codePoint, leadPayload, h1, h2, h3]
    omega

theorem lenUtf8_codePoint (c : List Nat) (h : validChar c = true) : lenUtf8 (codePoint c) = c.length := by
  rcases validChar_cases c h with ⟨a, rfl, hc⟩ | ⟨a, b, rfl, hc⟩ | ⟨a, b, d, rfl, hc⟩ | ⟨a, b, d, e, rfl, hc⟩
  · simp [codePoint, leadPayload, lenUtf8, hc]
  · have h1 : ¬ a < 128 := by omega
    have h2 : a < 224 := by omega
    have hcp : codePoint [a, b] = (a - 192) * 64 + (b - 128) := by simp [codePoint, leadPayload, h1, h2]
    unfold lenUtf8
    rw [hcp, if_neg (by omega), if_pos (by omega)]; rfl
  · have h1 : ¬ a < 128 := by omega
    have h2 : ¬ a < 224 := by omega
    have h3 : a < 240 := by omega
    have hcp : codePoint [a, b, d] = ((a - 224) * 64 + (b - 128)) * 64 + (d - 128) := by
      simp [codePoint, leadPayload, h1, h2, h3]
    unfold lenUtf8
    rw [hcp, if_neg (by omega), if_neg (by omega), if_pos (by omega)]; rfl
  · have h1 : ¬ a < 128 := by omega
    have h2 : ¬ a < 224 := by omega
    have h3 : ¬ a < 240 := by omega
    have hcp : codePoint [a, b, d, e] = (((a - 240) * 64 + (b - 128)) * 64 + (d - 128)) * 64 + (e - 128) := by
      simp [codePoint, leadPayload, h1, h2, h3]
    unfold lenUtf8
    rw [hcp, if_neg (by omega), if_neg (by omega), if_neg (by omega)]; rfl

theorem lenUtf16_codePoint (c : List Nat) : lenUtf16 (codePoint c) = units c := by
  unfold lenUtf16 units
  by_cases h : codePoint c < 65536
  · rw [if_pos h, if_neg (by omega)]
  · rw [if_neg h, if_pos (by omega)]

theorem units_pos (c : List Nat) : 1 ≤ units c ∧ units c ≤ 2 := by
  unfold units; split <;> omega

theorem validChar_shape (c : List Nat) (h : validChar c = true) :
    ∃ lead conts, c = lead :: conts ∧ isCont lead = false ∧ ∀ b ∈ conts, isCont b = true := by
  rcases validChar_cases c h with ⟨a, rfl, hc⟩ | ⟨a, b, rfl, hc⟩ | ⟨a, b, d, rfl, hc⟩ | ⟨a, b, d, e, rfl, hc⟩
  · exact ⟨a, [], rfl, by simp [isCont]; omega, by simp⟩
  · exact ⟨a, [b], rfl, by simp [isCont]; omega, by simp [isCont]; omega⟩
  · exact ⟨a, [b, d], rfl, by simp [isCont]; omega, by simp [isCont]; omega⟩
  · exact ⟨a, [b, d, e], rfl, by simp [isCont]; omega, by simp [isCont]; omega⟩
def AllValid (cs : List (List Nat)) : Prop := ∀ c ∈ cs, validChar c = true

theorem AllValid.tail {c : List Nat} {cs : List (List Nat)} (h : AllValid (c :: cs)) : AllValid cs :=
  fun x hx => h x (List.mem_cons_of_mem _ hx)

theorem AllValid.head {c : List Nat} {cs : List (List Nat)} (h : AllValid (c :: cs)) : validChar c = true :=
  h c (List.mem_cons_self ..)

theorem validChar_length (c : List Nat) (h : validChar c = true) : 1 ≤ c.length := by
  obtain ⟨l, cs, rfl, _⟩ := validChar_shape c h
  simp

theorem flatten_length_ge (cs : List (List Nat)) (h : AllValid cs) : cs.length ≤ cs.flatten.length := by
  induction cs with
  | nil => simp
  | cons c cs ih =>
    have := validChar_length c h.head
    have := ih h.tail
    simp only [List.flatten_cons, List.length_append, List.length_cons]
    omega

theorem charsFuel_valid (cs : List (List Nat)) (h : AllValid cs) :
    ∀ fuel, cs.length ≤ fuel → charsFuel fuel cs.flatten = cs.map codePoint := by
  induction cs with
  | nil => intro fuel _; cases fuel <;> simp [charsFuel, nextCodePoint]
  | cons c cs ih =>
    intro fuel hf
    cases fuel with
    | zero => simp at hf
    | succ f =>
      simp only [List.flatten_cons, charsFuel, nextCodePoint_valid c _ h.head, List.map_cons]
      rw [ih h.tail f (by simpa using hf)]

theorem chars_valid (cs : List (List Nat)) (h : AllValid cs) : chars cs.flatten = cs.map codePoint :=
  charsFuel_valid cs h _ (flatten_length_ge cs h)

theorem specCharsAux_conts (conts : List Nat) (h : ∀ b ∈ conts, isCont b = true) :
    ∀ (rest cur : List Nat), specCharsAux (conts ++ rest) cur = specCharsAux rest (conts.reverse ++ cur) := by
  induction conts with
  | nil => intro rest cur; simp
  | cons b conts ih =>
    intro rest cur
    have hb : isCont b = true := h b (List.mem_cons_self ..)
    simp only [List.cons_append, specCharsAux, hb, if_true]
    rw [ih (fun x hx => h x (List.mem_cons_of_mem _ hx))]
    simp

theorem specCharsAux_valid (cs : List (List Nat)) (h : AllValid cs) : ∀ cur : List Nat,
    specCharsAux cs.flatten cur = (if cur.isEmpty then [] else [cur.reverse]) ++ cs := by
  induction cs with
  | nil => intro cur; simp [specCharsAux]
  | cons c cs ih =>
    intro cur
    obtain ⟨lead, conts, rfl, hl, hc⟩ := validChar_shape c h.head
    have e : specCharsAux ((lead :: conts) :: cs).flatten cur
        = (if cur.isEmpty then [] else [cur.reverse]) ++ specCharsAux (conts ++ cs.flatten) [lead] := by
      simp only [List.flatten_cons, List.cons_append, specCharsAux, hl]
      cases cur <;> simp
    rw [e, specCharsAux_conts conts hc, ih h.tail]
    simp

theorem specChars_valid (cs : List (List Nat)) (h : AllValid cs) : specChars cs.flatten = cs := by
  unfold specChars
  rw [specCharsAux_valid cs h]; simp
theorem takeLoop_eq_skipLoop (lim : Nat) (cs : List Nat) : ∀ o i,
    takeLoop lim cs o i = ((skipLoop lim cs o i).1, (skipLoop lim cs o i).2.1) := by
  induction cs with
  | nil => intro o i; simp [takeLoop, skipLoop]
  | cons c cs ih =>
    intro o i
    simp only [takeLoop, skipLoop]
    split
    · rfl
    · exact ih _ _

theorem totalUnits_nil : totalUnits [] = 0 := rfl
theorem totalUnits_cons (c : List Nat) (cs : List (List Nat)) : totalUnits (c :: cs) = units c + totalUnits cs := by
  simp [totalUnits]
theorem totalUnits_append (a b : List (List Nat)) : totalUnits (a ++ b) = totalUnits a + totalUnits b := by
  simp [totalUnits]

theorem withStarts_append (a b : List (List Nat)) : ∀ s,
    withStarts (a ++ b) s = withStarts a s ++ withStarts b (s + totalUnits a) := by
  induction a with
  | nil => intro s; simp [withStarts, totalUnits_nil]
  | cons c a ih => intro s; simp [withStarts, ih, totalUnits_cons, Nat.add_assoc]

theorem withStarts_ge (cs : List (List Nat)) : ∀ s, ∀ e ∈ withStarts cs s, s ≤ e.1 := by
  induction cs with
  | nil => intro s e he; simp [withStarts] at he
  | cons c cs ih =>
    intro s e he
    simp only [withStarts, List.mem_cons] at he
    rcases he with rfl | he
    · exact Nat.le_refl _
    · have := ih _ e he; omega

theorem withStarts_map_snd (cs : List (List Nat)) : ∀ s, (withStarts cs s).map (·.2) = cs := by
  induction cs with
  | nil => intro s; rfl
  | cons c cs ih => intro s; simp [withStarts, ih]

/-- the loop shared by both phases of `get_line_slice`: it consumes exactly the characters that
start before `col` -/
theorem skipLoop_spec (col : Nat) (cs : List (List Nat)) (h : AllValid cs) : ∀ off idx,
    ∃ pre post, cs = pre ++ post ∧
      skipLoop col (cs.map codePoint) off idx
        = (off + pre.flatten.length, idx + totalUnits pre, post.map codePoint) ∧
      (∀ e ∈ withStarts pre idx, e.1 < col) ∧ (post = [] ∨ col ≤ idx + totalUnits pre) := by
  induction cs with
  | nil => intro off idx; exact ⟨[], [], rfl, by simp [skipLoop, totalUnits_nil], by simp [withStarts], Or.inl rfl⟩
  | cons c cs ih =>
    intro off idx
    by_cases hi : idx ≥ col
    · refine ⟨[], c :: cs, rfl, ?_, by simp [withStarts], Or.inr (by simp [totalUnits_nil]; omega)⟩
      simp [skipLoop, hi, totalUnits_nil]
    · obtain ⟨pre, post, hcs, hsk, hpre, hpost⟩ := ih h.tail (off + lenUtf8 (codePoint c)) (idx + lenUtf16 (codePoint c))
      rw [lenUtf8_codePoint c h.head] at hsk
      rw [lenUtf16_codePoint] at hsk hpre hpost
      refine ⟨c :: pre, post, by rw [hcs]; rfl, ?_, ?_, ?_⟩
      · simp only [List.map_cons, skipLoop, if_neg hi, lenUtf8_codePoint c h.head, lenUtf16_codePoint]
        rw [hsk]; simp [totalUnits_cons, Nat.add_assoc]
      · intro e he
        simp only [withStarts, List.mem_cons] at he
        rcases he with rfl | he
        · simp only; omega
        · exact hpre e he
      · rw [totalUnits_cons]; rcases hpost with hp | hp
        · exact Or.inl hp
        · right; omega

theorem isCharBoundary_flatten (X : List Nat) (Y : List (List Nat)) (h : AllValid Y) :
    isCharBoundary (X ++ Y.flatten) X.length = true := by
  unfold isCharBoundary
  by_cases h0 : X.length = 0
  · simp [h0]
  · rw [if_neg h0]
    cases Y with
    | nil => simp
    | cons c Y =>
      obtain ⟨lead, conts, rfl, hl, _⟩ := validChar_shape c h.head
      have : (X ++ ((lead :: conts) :: Y).flatten)[X.length]? = some lead := by simp
      rw [this]
      simp [isCont] at hl ⊢
      omega

theorem strGet_flatten (pre mid post : List (List Nat)) (h : AllValid (mid ++ post)) :
    strGet (pre ++ mid ++ post).flatten pre.flatten.length (pre.flatten.length + mid.flatten.length)
      = some mid.flatten := by
  have hpost : AllValid post := fun c hc => h c (List.mem_append_right _ hc)
  have b1 : isCharBoundary (pre ++ mid ++ post).flatten pre.flatten.length = true := by
    have := isCharBoundary_flatten pre.flatten (mid ++ post) h
    simpa [List.append_assoc] using this
  have b2 : isCharBoundary (pre ++ mid ++ post).flatten (pre.flatten.length + mid.flatten.length) = true := by
    have := isCharBoundary_flatten (pre ++ mid).flatten post hpost
    simpa using this
  unfold strGet
  rw [if_pos ⟨by omega, b1, b2⟩]
  simp [List.append_assoc]
theorem withStarts_end (cs : List (List Nat)) : ∀ s, ∀ e ∈ withStarts cs s, e.1 + units e.2 ≤ s + totalUnits cs := by
  induction cs with
  | nil => intro s e he; simp [withStarts] at he
  | cons c cs ih =>
    intro s e he
    simp only [withStarts, List.mem_cons] at he
    rw [totalUnits_cons]
    rcases he with rfl | he
    · simp only; omega
    · have := ih _ e he; omega

theorem sliceSpec_decomp (pre mid post : List (List Nat)) (hv : AllValid (pre ++ mid ++ post)) (c n : Nat)
    (h1 : ∀ e ∈ withStarts pre 0, e.1 + units e.2 ≤ c)
    (h2 : ∀ e ∈ withStarts mid (totalUnits pre), c ≤ e.1 ∧ e.1 < c + n)
    (h3 : ∀ e ∈ withStarts post (totalUnits pre + totalUnits mid), c + n ≤ e.1) :
    sliceSpec (pre ++ mid ++ post).flatten c n
      = if totalUnits (pre ++ mid ++ post) < c + n then none else some mid.flatten := by
  unfold sliceSpec
  rw [specChars_valid _ hv]
  simp only
  split
  · rfl
  · congr 1
    rw [withStarts_append, withStarts_append, List.filter_append, List.filter_append]
    have f1 : (withStarts pre 0).filter (fun x => decide (max x.1 c < min (x.1 + units x.2) (c + n))) = [] := by
      rw [List.filter_eq_nil_iff]
      intro e he
      have := h1 e he
      simp only [decide_eq_true_eq]; omega
    have f2 : (withStarts mid (0 + totalUnits pre)).filter (fun x => decide (max x.1 c < min (x.1 + units x.2) (c + n)))
        = withStarts mid (0 + totalUnits pre) := by
      rw [List.filter_eq_self]
      intro e he
      rw [Nat.zero_add] at he
      have := h2 e he
      have := units_pos e.2
      simp only [decide_eq_true_eq]; omega
    have f3 : (withStarts post (0 + totalUnits (pre ++ mid))).filter (fun x => decide (max x.1 c < min (x.1 + units x.2) (c + n))) = [] := by
      rw [List.filter_eq_nil_iff]
      intro e he
      rw [Nat.zero_add, totalUnits_append] at he
      have := h3 e he
      simp only [decide_eq_true_eq]; omega
    simp only [f1, f2, f3, List.nil_append, List.append_nil]
    rw [List.flatMap_def, withStarts_map_snd]

theorem sliceLine_decomp (cs : List (List Nat)) (hv : AllValid cs) (c n : Nat) :
    ∃ pre mid post, cs = pre ++ mid ++ post ∧
      sliceLine cs.flatten c n
        = (if totalUnits pre + totalUnits mid < c + n then none else some mid.flatten) ∧
      (∀ e ∈ withStarts pre 0, e.1 < c) ∧ (mid ++ post = [] ∨ c ≤ totalUnits pre) ∧
      (∀ e ∈ withStarts mid (totalUnits pre), e.1 < c + n) ∧
      (post = [] ∨ c + n ≤ totalUnits pre + totalUnits mid) := by
  obtain ⟨pre, rest, hcs, hsk, hpre, hrest⟩ := skipLoop_spec c cs hv 0 0
  have hvrest : AllValid rest := fun x hx => hv x (by rw [hcs]; exact List.mem_append_right _ hx)
  obtain ⟨mid, post, hrs, hsk2, hmid, hpost⟩ :=
    skipLoop_spec (c + n) rest hvrest (0 + pre.flatten.length) (0 + totalUnits pre)
  simp only [Nat.zero_add] at hsk hsk2 hmid hpost hrest
  refine ⟨pre, mid, post, by rw [hcs, hrs, List.append_assoc], ?_, hpre, by rw [← hrs]; exact hrest, hmid, hpost⟩
  unfold sliceLine
  rw [chars_valid cs hv, hsk]
  simp only
  rw [takeLoop_eq_skipLoop, hsk2]
  simp only
  split
  · rfl
  · have e : cs = pre ++ mid ++ post := by rw [hcs, hrs, List.append_assoc]
    rw [e]
    exact strGet_flatten pre mid post (by rw [← hrs]; exact hvrest)

theorem withStarts_ne_nil {cs : List (List Nat)} {s : Nat} {e : Nat × List Nat} (h : e ∈ withStarts cs s) : cs ≠ [] := by
  intro h0; subst h0; simp [withStarts] at h

/-- no character of the line has column `c` strictly inside it -/
def NoMid (cs : List (List Nat)) (c : Nat) : Prop :=
  ∀ e ∈ withStarts cs 0, ¬(e.1 < c ∧ c < e.1 + units e.2)

theorem sliceLine_boundary (cs : List (List Nat)) (hv : AllValid cs) (c n : Nat) (hb : NoMid cs c) :
    sliceLine cs.flatten c n = sliceSpec cs.flatten c n := by
  obtain ⟨pre, mid, post, e, hm, hpre, hrest, hmid, hpost⟩ := sliceLine_decomp cs hv c n
  rw [hm]
  subst e
  have h1 : ∀ e ∈ withStarts pre 0, e.1 + units e.2 ≤ c := by
    intro e he
    have hmem : e ∈ withStarts (pre ++ mid ++ post) 0 := by
      rw [List.append_assoc, withStarts_append]; exact List.mem_append_left _ he
    have := hb e hmem
    have := hpre e he
    omega
  have h2 : ∀ e ∈ withStarts mid (totalUnits pre), c ≤ e.1 ∧ e.1 < c + n := by
    intro e he
    have hne := withStarts_ne_nil he
    have : c ≤ totalUnits pre := by
      rcases hrest with h0 | h0
      · exact absurd (List.append_eq_nil_iff.1 h0).1 hne
      · exact h0
    have := withStarts_ge mid _ e he
    have := hmid e he
    omega
  have h3 : ∀ e ∈ withStarts post (totalUnits pre + totalUnits mid), c + n ≤ e.1 := by
    intro e he
    have hne := withStarts_ne_nil he
    have := withStarts_ge post _ e he
    rcases hpost with h0 | h0
    · exact absurd h0 hne
    · omega
  rw [sliceSpec_decomp pre mid post hv c n h1 h2 h3]
  have hiff : totalUnits pre + totalUnits mid < c + n ↔ totalUnits (pre ++ mid ++ post) < c + n := by
    rw [totalUnits_append, totalUnits_append]
    rcases hpost with h0 | h0
    · subst h0; simp [totalUnits_nil]
    · omega
  by_cases hq : totalUnits pre + totalUnits mid < c + n
  · rw [if_pos hq, if_pos (hiff.1 hq)]
  · rw [if_neg hq, if_neg (fun h => hq (hiff.2 h))]

/-- column strictly inside a surrogate pair: the code starts after the pair (and keeps the end),
i.e. it answers the request `(c+1, n-1)` -/
theorem sliceLine_midpair (cs : List (List Nat)) (hv : AllValid cs) (c n : Nat)
    (hmp : ∃ e ∈ withStarts cs 0, e.1 < c ∧ c < e.1 + units e.2) :
    sliceLine cs.flatten c n = sliceSpec cs.flatten (c + 1) (n - 1) := by
  obtain ⟨pre, mid, post, e, hm, hpre, hrest, hmid, hpost⟩ := sliceLine_decomp cs hv c n
  rw [hm]
  subst e
  obtain ⟨e0, he0, hlo, hhi⟩ := hmp
  have htp : c + 1 ≤ totalUnits pre := by
    rw [withStarts_append, withStarts_append, List.mem_append, List.mem_append] at he0
    rcases he0 with (he0 | he0) | he0
    · have := withStarts_end pre 0 e0 he0; omega
    · have hne := withStarts_ne_nil he0
      have := withStarts_ge mid _ e0 he0
      rcases hrest with h0 | h0
      · exact absurd (List.append_eq_nil_iff.1 h0).1 hne
      · omega
    · have hne := withStarts_ne_nil he0
      have := withStarts_ge post _ e0 he0
      rw [totalUnits_append] at this
      rcases hrest with h0 | h0
      · exact absurd (List.append_eq_nil_iff.1 h0).2 hne
      · omega
  have h1 : ∀ e ∈ withStarts pre 0, e.1 + units e.2 ≤ c + 1 := by
    intro e he
    have := hpre e he
    have := units_pos e.2
    omega
  have h2 : ∀ e ∈ withStarts mid (totalUnits pre), c + 1 ≤ e.1 ∧ e.1 < c + 1 + (n - 1) := by
    intro e he
    have := withStarts_ge mid _ e he
    have := hmid e he
    omega
  have h3 : ∀ e ∈ withStarts post (totalUnits pre + totalUnits mid), c + 1 + (n - 1) ≤ e.1 := by
    intro e he
    have hne := withStarts_ne_nil he
    have := withStarts_ge post _ e he
    rcases hpost with h0 | h0
    · exact absurd h0 hne
    · omega
  rw [sliceSpec_decomp pre mid post hv (c + 1) (n - 1) h1 h2 h3]
  have hiff : totalUnits pre + totalUnits mid < c + n ↔ totalUnits (pre ++ mid ++ post) < c + 1 + (n - 1) := by
    rw [totalUnits_append, totalUnits_append]
    rcases hpost with h0 | h0
    · subst h0; simp only [totalUnits_nil]; omega
    · omega
  by_cases hq : totalUnits pre + totalUnits mid < c + n
  · rw [if_pos hq, if_pos (hiff.1 hq)]
  · rw [if_neg hq, if_neg (fun h => hq (hiff.2 h))]
theorem validUtf8_nil : ValidUtf8 [] := ⟨[], by simp, rfl⟩

theorem validUtf8_append {X Y : List Nat} (hx : ValidUtf8 X) (hy : ValidUtf8 Y) : ValidUtf8 (X ++ Y) := by
  obtain ⟨a, ha, rfl⟩ := hx
  obtain ⟨b, hb, rfl⟩ := hy
  refine ⟨a ++ b, ?_, by simp⟩
  intro c hc
  rcases List.mem_append.1 hc with h | h
  · exact ha c h
  · exact hb c h

/-- a well-formed text can be cut on both sides of an ASCII byte -/
theorem validUtf8_split (cs : List (List Nat)) (hv : AllValid cs) : ∀ (X Y : List Nat) (b : Nat),
    b < 128 → cs.flatten = X ++ b :: Y → ValidUtf8 X ∧ ValidUtf8 Y := by
  induction cs with
  | nil => intro X Y b _ h; simp at h
  | cons c cs ih =>
    intro X Y b hb h
    rw [List.flatten_cons, List.append_eq_append_iff] at h
    rcases h with ⟨a', hX, hrest⟩ | ⟨c', hc, hrest⟩
    · obtain ⟨h1, h2⟩ := ih hv.tail a' Y b hb hrest
      refine ⟨?_, h2⟩
      rw [hX]
      exact validUtf8_append ⟨[c], by intro x hx; simp at hx; subst hx; exact hv.head, by simp⟩ h1
    · cases c' with
      | nil =>
        simp only [List.append_nil, List.nil_append] at hc hrest
        obtain ⟨h1, h2⟩ := ih hv.tail [] Y b hb (by simpa using hrest.symm)
        refine ⟨?_, h2⟩
        rw [← hc]
        exact ⟨[c], by intro x hx; simp at hx; subst hx; exact hv.head, by simp⟩
      | cons b' c'' =>
        simp only [List.cons_append, List.cons.injEq] at hrest
        obtain ⟨rfl, hY⟩ := hrest
        obtain ⟨lead, conts, hshape, hl, hconts⟩ := validChar_shape c hv.head
        cases X with
        | nil =>
          simp only [List.nil_append] at hc
          rcases validChar_cases c hv.head with ⟨a, hca, _⟩ | ⟨a, b2, hca, _⟩ | ⟨a, b2, d, hca, _⟩ | ⟨a, b2, d, e, hca, _⟩
          · rw [hca] at hc
            simp only [List.cons.injEq] at hc
            obtain ⟨_, hnil⟩ := hc
            subst hnil
            refine ⟨validUtf8_nil, ⟨cs, hv.tail, by simpa using hY⟩⟩
          all_goals (rw [hca] at hc; simp only [List.cons.injEq] at hc; omega)
        | cons x X' =>
          rw [hshape] at hc
          simp only [List.cons_append, List.cons.injEq] at hc
          have : isCont b = true := hconts b (by rw [hc.2]; simp)
          rw [isCont_iff] at this
          omega

theorem splitLinesAux_valid (rest cur : List Nat) :
    ValidUtf8 (cur.reverse ++ rest) → ∀ l ∈ splitLinesAux rest cur, ValidUtf8 l := by
  fun_induction splitLinesAux rest cur with
  | case1 cur => intro h l hl; simp at hl; subst hl; simpa using h
  | case2 cur rest ih =>
    intro h l hl
    obtain ⟨cs, hv, hcs⟩ := h
    obtain ⟨h1, h2⟩ := validUtf8_split cs hv _ _ 13 (by omega) hcs.symm
    obtain ⟨cs2, hv2, hcs2⟩ := h2
    obtain ⟨_, h3⟩ := validUtf8_split cs2 hv2 [] _ 10 (by omega) (by simpa using hcs2.symm)
    simp only [List.mem_cons] at hl
    rcases hl with rfl | hl
    · exact h1
    · exact ih (by simpa using h3) l hl
  | case3 cur rest hne ih =>
    intro h l hl
    obtain ⟨cs, hv, hcs⟩ := h
    obtain ⟨h1, h2⟩ := validUtf8_split cs hv _ _ 13 (by omega) hcs.symm
    simp only [List.mem_cons] at hl
    rcases hl with rfl | hl
    · exact h1
    · exact ih (by simpa using h2) l hl
  | case4 cur rest ih =>
    intro h l hl
    obtain ⟨cs, hv, hcs⟩ := h
    obtain ⟨h1, h2⟩ := validUtf8_split cs hv _ _ 10 (by omega) hcs.symm
    simp only [List.mem_cons] at hl
    rcases hl with rfl | hl
    · exact h1
    · exact ih (by simpa using h2) l hl
  | case5 cur b rest h1 h2 h3 ih =>
    intro h l hl
    exact ih (by simpa using h) l hl

theorem splitLines_valid (src : List Nat) (h : ValidUtf8 src) : ∀ l ∈ splitLines src, ValidUtf8 l :=
  splitLinesAux_valid src [] (by simpa using h)
end SmVerif.SV
