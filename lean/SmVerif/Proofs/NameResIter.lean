import SmVerif.Proofs.NameResText
import SmVerif.Proofs.Lookup
/-
C17 helper lemmas, part 2: one step of `RevTokenIter`, the cache invariant, the collected
sequence.
-/
namespace SmVerif.NameRes
open SmVerif SmVerif.Lookup

/-- the cache describes one prefix `a` of its line: `col` is the prefix's UTF-16 length and `off`
its byte length -/
def CacheOK (lines : List Str) (c : Cache) : Prop :=
  ∃ a b, lines[c.line]? = some (a ++ b) ∧ c.text = a ++ b ∧ c.col = u16len a ∧ c.off = u8len a

theorem onBoundary_cases (lines : List Str) (t : Tok) (l : Str) (h : onBoundary lines t = true)
    (hl : lines[t.dl]? = some l) : (∃ a b, l = a ++ b ∧ u16len a = t.dc) ∨ u16len l < t.dc := by
  simp only [onBoundary, hl, Bool.or_eq_true, decide_eq_true_eq] at h
  rcases h with h | h
  · rcases Nat.lt_or_eq_of_le h with h | h
    · exact Or.inr h
    · exact Or.inl ⟨l, [], by simp, h⟩
  · cases hs : suffixAt l t.dc with
    | none => rw [hs] at h; simp at h
    | some s =>
      obtain ⟨a, ha, hu⟩ := suffixAt_some l t.dc s hs
      exact Or.inl ⟨a, s, ha, hu⟩

/-! ### `findOffset` -/

theorem findOffset_ok (text : Str) (last : Option (Nat × Nat)) (col : Nat)
    (h : ∀ lc lo, last = some (lc, lo) → col ≤ lc) : ∃ off, findOffset text last col = .ok off := by
  cases last with
  | none => exact ⟨_, rfl⟩
  | some p =>
    obtain ⟨lc, lo⟩ := p
    have hle := h lc lo rfl
    simp only [findOffset]
    rw [if_neg (by omega)]
    apply bwd_ok
    rw [u8len_reverse]
    cases ht : takeBytes text lo with
    | none => simp [u8len]
    | some p => simp [takeBytes_u8len text lo p ht]

theorem findOffset_fwd_boundary (a b : Str) : findOffset (a ++ b) none (u16len a) = .ok (u8len a) := by
  simp only [findOffset, fwd_boundary]

theorem findOffset_fwd_past (l : Str) (col : Nat) (h : u16len l ≤ col) :
    findOffset l none col = .ok (u8len l) := by
  simp only [findOffset, fwd_past l col h]

theorem findOffset_bwd (a m b1 : Str) :
    findOffset (a ++ m ++ b1) (some (u16len (a ++ m), u8len (a ++ m))) (u16len a) = .ok (u8len a) := by
  simp only [findOffset]
  rw [if_neg (by rw [u16len_append]; omega), takeBytes_append]
  have : u16len (a ++ m) - u16len a = u16len m := by rw [u16len_append]; omega
  rw [this]
  exact bwd_boundary a m

/-! ### `emit` -/

theorem emit_ok (P : Preds) (text : Str) (tk : Nat × Tok) (tok' : Option (Nat × Tok)) (off : Nat) :
    ∃ x st', emit P text tk tok' off = .ok (some (tk, x), st') ∧ x ≠ some [] ∧ st'.tok = tok' ∧
      (∀ c, st'.cache = some c → c.line = tk.2.dl ∧ c.col = tk.2.dc) := by
  simp only [emit]
  by_cases h : off ≥ u8len text
  · rw [if_pos h]
    exact ⟨none, _, rfl, by simp, rfl, by simp⟩
  · rw [if_neg h]
    cases hd : dropBytes text off with
    | none => exact ⟨none, _, rfl, by simp, rfl, by simp⟩
    | some rest =>
      simp only [getJavascriptToken_eq]
      refine ⟨identAtStart P rest, _, rfl, identAtStart_ne_nil P rest, rfl, ?_⟩
      intro c hc
      simp at hc; subst hc; exact ⟨rfl, rfl⟩

theorem identAtStart_nil (P : Preds) : identAtStart P [] = none := by
  simp [identAtStart]

theorem emit_boundary (P : Preds) (a b : Str) (tk : Nat × Tok) (tok' : Option (Nat × Tok)) :
    emit P (a ++ b) tk tok' (u8len a) = .ok (some (tk, identAtStart P b),
      { tok := tok', cache := if b = [] then none else some ⟨a ++ b, tk.2.dl, tk.2.dc, u8len a⟩ }) := by
  simp only [emit]
  cases b with
  | nil =>
    rw [if_pos (by simp)]
    simp [identAtStart_nil]
  | cons c b =>
    have := len8_pos c
    rw [if_neg (by rw [u8len_append]; simp only [u8len]; omega), dropBytes_append]
    simp only [getJavascriptToken_eq]
    simp

/-! ### one step of the iterator -/

/-- the token the iterator moves to after the token with index `j` -/
def prevTok (ts : List Tok) (j : Nat) : Option (Nat × Tok) :=
  if j > 0 then (ts[j - 1]?).map fun u => (j - 1, u) else none

theorem selectLine_cached (lines : List Str) (c : Cache) (t : Tok) (h : c.line = t.dl) :
    selectLine lines (some c) t = (c.text, some (c.col, c.off)) := by
  simp [selectLine, h]

theorem selectLine_fresh (lines : List Str) (cache : Option Cache) (t : Tok)
    (h : ∀ c, cache = some c → c.line ≠ t.dl) :
    selectLine lines cache t = selectLine lines none t := by
  cases cache with
  | none => rfl
  | some c => simp only [selectLine, if_neg (h c rfl)]

/-- a step never fails when the cached column is not smaller than the token's (sortedness) -/
theorem revNext_ok (P : Preds) (lines : List Str) (ts : List Tok) (st : RevIter) (j : Nat) (t : Tok)
    (htok : st.tok = some (j, t))
    (hc : ∀ c, st.cache = some c → c.line = t.dl → t.dc ≤ c.col) :
    ∃ x st', revNext P lines ts st = .ok (some ((j, t), x), st') ∧ x ≠ some [] ∧
      st'.tok = prevTok ts j ∧ (∀ c, st'.cache = some c → c.line = t.dl ∧ c.col = t.dc) := by
  simp only [revNext, htok]
  have hsel : ∀ lc lo, (selectLine lines st.cache t).2 = some (lc, lo) → t.dc ≤ lc := by
    intro lc lo h
    cases hcache : st.cache with
    | none => rw [hcache] at h; simp only [selectLine] at h; split at h <;> simp at h
    | some c =>
      rw [hcache] at h
      by_cases hl : c.line = t.dl
      · rw [selectLine_cached lines c t hl] at h
        simp at h
        rw [← h.1]; exact hc c hcache hl
      · rw [selectLine_fresh lines (some c) t (by intro c' h'; simp at h'; subst h'; exact hl)] at h
        simp only [selectLine] at h
        split at h <;> simp at h
  obtain ⟨off, hoff⟩ := findOffset_ok (selectLine lines st.cache t).1 (selectLine lines st.cache t).2 t.dc hsel
  rw [hoff]
  obtain ⟨x, st', he, hx, ht, hcc⟩ := emit_ok P (selectLine lines st.cache t).1 (j, t)
    (if j > 0 then (ts[j - 1]?).map fun u => (j - 1, u) else none) off
  exact ⟨x, st', he, hx, ht, hcc⟩

/-- common end of the three ways to reach a column that is a position of the line -/
theorem step_boundary (P : Preds) (lines : List Str) (t : Tok) (j : Nat) (tok' : Option (Nat × Tok)) (a b : Str)
    (hl : lines[t.dl]? = some (a ++ b)) (hu : u16len a = t.dc) :
    ∃ st', emit P (a ++ b) (j, t) tok' (u8len a) = .ok (some ((j, t), textAt P lines t.dl t.dc), st') ∧
      st'.tok = tok' ∧ (∀ c, st'.cache = some c → CacheOK lines c ∧ c.line = t.dl ∧ c.col = t.dc) := by
  refine ⟨{ tok := tok', cache := if b = [] then none else some ⟨a ++ b, t.dl, t.dc, u8len a⟩ }, ?_, rfl, ?_⟩
  · rw [emit_boundary]
    simp only [textAt, hl, ← hu, suffixAt_append]
  · intro c hc
    simp only at hc
    by_cases hb : b = []
    · simp [hb] at hc
    · simp only [hb, ↓reduceIte, Option.some.injEq] at hc
      subst hc
      exact ⟨⟨a, b, hl, rfl, hu.symm, rfl⟩, rfl, rfl⟩

/-- one step on a consistent cache: the text is `textAt`, whichever scan was used -/
theorem revNext_correct (P : Preds) (lines : List Str) (ts : List Tok) (st : RevIter) (j : Nat) (t : Tok)
    (htok : st.tok = some (j, t))
    (hc : ∀ c, st.cache = some c → CacheOK lines c ∧ (c.line = t.dl → t.dc ≤ c.col))
    (hb : onBoundary lines t = true) :
    ∃ st', revNext P lines ts st = .ok (some ((j, t), textAt P lines t.dl t.dc), st') ∧
      st'.tok = prevTok ts j ∧
      (∀ c, st'.cache = some c → CacheOK lines c ∧ c.line = t.dl ∧ c.col = t.dc) := by
  simp only [revNext, htok]
  by_cases hcached : ∃ c, st.cache = some c ∧ c.line = t.dl
  · -- backward scan from the cached offset
    obtain ⟨c, hcache, hline⟩ := hcached
    obtain ⟨⟨a1, b1, hl1, htext, hcol, hoff⟩, hle⟩ := hc c hcache
    have hle := hle hline
    rw [hcache, selectLine_cached lines c t hline]
    rw [hline] at hl1
    rcases onBoundary_cases lines t _ hb hl1 with ⟨a, b, hab, hu⟩ | hpast
    · obtain ⟨m, hm⟩ := prefix_of_u16_le hab.symm (by omega)
      have hb' : b = m ++ b1 := by
        rw [hm, List.append_assoc] at hab
        exact (List.append_cancel_left hab).symm
      have e1 : findOffset c.text (some (c.col, c.off)) t.dc = .ok (u8len a) := by
        rw [htext, hcol, hoff, hm, ← hu]
        exact findOffset_bwd a m b1
      simp only [e1]
      have e2 : c.text = a ++ b := by rw [htext, hab]
      rw [e2]
      rw [hab] at hl1
      exact step_boundary P lines t j _ a b hl1 hu
    · rw [u16len_append] at hpast; omega
  · -- forward scan over the line
    have hfresh : ∀ c, st.cache = some c → c.line ≠ t.dl := fun c h1 h2 => hcached ⟨c, h1, h2⟩
    rw [selectLine_fresh lines st.cache t hfresh]
    simp only [selectLine]
    cases hl : lines[t.dl]? with
    | none =>
      simp only [findOffset, fwd, emit, u8len, ge_iff_le, Nat.le_refl, ↓reduceIte]
      refine ⟨⟨prevTok ts j, none⟩, ?_, rfl, by simp⟩
      simp [textAt, hl, prevTok]
    | some l =>
      simp only
      rcases onBoundary_cases lines t l hb hl with ⟨a, b, hab, hu⟩ | hpast
      · subst hab
        rw [← hu, findOffset_fwd_boundary]
        simp only
        rw [hu]
        exact step_boundary P lines t j _ a b hl hu
      · rw [findOffset_fwd_past l t.dc (by omega)]
        simp only [emit, ge_iff_le, Nat.le_refl, ↓reduceIte]
        refine ⟨⟨prevTok ts j, none⟩, ?_, rfl, by simp⟩
        simp [textAt, hl, suffixAt_past l t.dc hpast, prevTok]

/-! ### the collected sequence -/

theorem revCollect_none (P : Preds) (lines : List Str) (ts : List Tok) (n : Nat) (st : RevIter)
    (h : st.tok = none) : revCollect P lines ts n st = .ok [] := by
  cases n with
  | zero => rfl
  | succ n => simp [revCollect, revNext, h]

/-- consecutive tokens of an ordered map -/
theorem sorted_prev {ts : List Tok} (hs : SortedT ts) (j : Nat) (t u : Tok) (hj : 0 < j)
    (ht : ts[j]? = some t) (hu : ts[j - 1]? = some u) : posLe (Tok.pos u) (Tok.pos t) = true := by
  have hjl : j < ts.length := by
    rcases Nat.lt_or_ge j ts.length with h | h
    · exact h
    · rw [List.getElem?_eq_none h] at ht; simp at ht
  have := (List.pairwise_iff_getElem.mp hs) (j - 1) j (by omega) hjl (by omega)
  rw [List.getElem?_eq_getElem hjl] at ht
  rw [List.getElem?_eq_getElem (by omega : j - 1 < ts.length)] at hu
  simp at ht hu
  rw [ht, hu] at this; exact this

/-- the items walking back from token `j`, at most `n`, as a recursion -/
def itemsFrom (P : Preds) (lines : List Str) (ts : List Tok) : Nat → Nat → List Item
  | 0, _ => []
  | n + 1, j =>
    match ts[j]? with
    | none => []
    | some t => ((j, t), textAt P lines t.dl t.dc) :: (if j = 0 then [] else itemsFrom P lines ts n (j - 1))

theorem revCollect_correct (P : Preds) (lines : List Str) (ts : List Tok) (hs : SortedT ts) :
    ∀ (n j : Nat) (st : RevIter) (t : Tok), ts[j]? = some t → st.tok = some (j, t) →
      (∀ c, st.cache = some c → CacheOK lines c ∧ (c.line = t.dl → t.dc ≤ c.col)) →
      (∀ k, k < n → k ≤ j → ∀ u, ts[j - k]? = some u → onBoundary lines u = true) →
      revCollect P lines ts n st = .ok (itemsFrom P lines ts n j) := by
  intro n
  induction n with
  | zero => intro j st t _ _ _ _; rfl
  | succ n ih =>
    intro j st t ht htok hc hb
    obtain ⟨st', hstep, htok', hc'⟩ := revNext_correct P lines ts st j t htok hc (hb 0 (by omega) (by omega) t ht)
    simp only [revCollect, hstep, itemsFrom, ht]
    by_cases hj : j = 0
    · subst hj
      have : st'.tok = none := by rw [htok']; simp [prevTok]
      rw [revCollect_none P lines ts n st' this]
      simp
    · have hjl : j < ts.length := by
        rcases Nat.lt_or_ge j ts.length with h | h
        · exact h
        · rw [List.getElem?_eq_none h] at ht; simp at ht
      have hu : ts[j - 1]? = some ts[j - 1] := List.getElem?_eq_getElem (by omega)
      have htok'' : st'.tok = some (j - 1, ts[j - 1]) := by
        rw [htok']; simp only [prevTok]; rw [if_pos (by omega), hu]; rfl
      have hle := sorted_prev hs j t ts[j - 1] (by omega) ht hu
      rw [posLe_iff] at hle
      simp only [Tok.pos] at hle
      rw [ih (j - 1) st' ts[j - 1] hu htok'' ?_ ?_]
      · simp [hj]
      · intro c hcc
        obtain ⟨h1, h2, h3⟩ := hc' c hcc
        refine ⟨h1, fun h4 => ?_⟩
        omega
      · intro k hk hkj u hu'
        have : j - 1 - k = j - (k + 1) := by omega
        rw [this] at hu'
        exact hb (k + 1) (by omega) (by omega) u hu'

theorem revCollect_ok (P : Preds) (lines : List Str) (ts : List Tok) (hs : SortedT ts) :
    ∀ (n j : Nat) (st : RevIter) (t : Tok), ts[j]? = some t → st.tok = some (j, t) →
      (∀ c, st.cache = some c → c.line = t.dl → t.dc ≤ c.col) →
      ∃ L, revCollect P lines ts n st = .ok L ∧ L.length ≤ n ∧ ∀ x ∈ L, x.2 ≠ some [] := by
  intro n
  induction n with
  | zero => intro j st t _ _ _; exact ⟨[], rfl, by simp, by simp⟩
  | succ n ih =>
    intro j st t ht htok hc
    obtain ⟨x, st', hstep, hx, htok', hc'⟩ := revNext_ok P lines ts st j t htok hc
    simp only [revCollect, hstep]
    by_cases hj : j = 0
    · subst hj
      have : st'.tok = none := by rw [htok']; simp [prevTok]
      rw [revCollect_none P lines ts n st' this]
      exact ⟨[((0, t), x)], rfl, by simp, by simpa using hx⟩
    · have hjl : j < ts.length := by
        rcases Nat.lt_or_ge j ts.length with h | h
        · exact h
        · rw [List.getElem?_eq_none h] at ht; simp at ht
      have hu : ts[j - 1]? = some ts[j - 1] := List.getElem?_eq_getElem (by omega)
      have htok'' : st'.tok = some (j - 1, ts[j - 1]) := by
        rw [htok']; simp only [prevTok]; rw [if_pos (by omega), hu]; rfl
      have hle := sorted_prev hs j t ts[j - 1] (by omega) ht hu
      rw [posLe_iff] at hle
      simp only [Tok.pos] at hle
      obtain ⟨L, hL, hlen, hne⟩ := ih (j - 1) st' ts[j - 1] hu htok'' (by
        intro c hcc h4
        obtain ⟨h2, h3⟩ := hc' c hcc
        omega)
      rw [hL]
      refine ⟨((j, t), x) :: L, rfl, by simp; omega, ?_⟩
      intro y hy
      rcases List.mem_cons.mp hy with rfl | hy
      · exact hx
      · exact hne y hy

/-- the recursion is the specification's list -/
theorem itemsFrom_eq (P : Preds) (lines : List Str) (ts : List Tok) :
    ∀ (n j : Nat), j < ts.length → itemsFrom P lines ts n j = itemsBack P lines ts j n := by
  intro n
  induction n with
  | zero => intro j _; simp [itemsFrom, itemsBack, windowIdx]
  | succ n ih =>
    intro j hj
    have hm : min (j + 1) (n + 1) = min j n + 1 := by omega
    simp only [itemsFrom, itemsBack, windowIdx, hm, List.range_succ_eq_map, List.map_cons, List.map_map,
      List.filterMap_cons, Nat.sub_zero, List.getElem?_eq_getElem hj, Option.map_some]
    congr 1
    by_cases hj0 : j = 0
    · subst hj0; simp
    · rw [if_neg hj0, ih (j - 1) (by omega)]
      simp only [itemsBack, windowIdx]
      have hm2 : min (j - 1 + 1) n = min j n := by omega
      rw [hm2]
      congr 1
      apply List.map_congr_left
      intro k _
      simp only [Function.comp]
      omega

end SmVerif.NameRes
