import SmVerif.Proofs.HermesScope
import SmVerif.Proofs.HermesSafe
import SmVerif.Proofs.RoundTripTop
/-
C14 helper lemmas, part 6: `lookup_token` on an ordered token list is a function of the list *as a
sequence of values* (first token at the queried position, else the last token before it), hence
unchanged when exact consecutive duplicates are dropped and hidden fields are normalised - which is
all that `to_writer` + decoding does to the tokens.
-/
namespace SmVerif.Hermes
open SmVerif SmVerif.Lookup SmVerif.V3 SmVerif.Mappings

/-! ### which token `glb` returns -/

theorem glb_inexact_last (keys : List Pos) (q : Pos) (hs : SortedK keys) (i : Nat)
    (hg : glb keys q = some i) (hne : keys.getD i (0, 0) ≠ q) :
    ∀ j, i < j → j < keys.length → posLt q (keys.getD j (0, 0)) = true := by
  by_cases hlen : keys.length = 0
  · simp [glb, bsearch, hlen] at hg
  · obtain ⟨b, hb, hb0, hgt, hbs⟩ := bsearch_spec keys q hs hlen
    unfold glb at hg
    rw [hbs] at hg
    by_cases hk : keys.getD b (0, 0) = q
    · simp only [hk, ↓reduceIte, Option.some.injEq] at hg
      obtain ⟨hw1, hw2, _⟩ := walkBack_spec keys q b
      rw [hg] at hw1 hw2
      have hki : keys.getD i (0, 0) = q := by
        by_cases hib : i = b
        · rw [hib]; exact hk
        · exact hw2 i (Nat.le_refl _) (by omega)
      exact absurd hki hne
    · simp only [hk, ↓reduceIte] at hg
      by_cases hlt : posLt (keys.getD b (0, 0)) q = true
      · simp only [hlt, ↓reduceIte] at hg
        have hib : i = b := by simp at hg; omega
        subst hib
        intro j hj hjl
        exact hgt j hj hjl
      · simp only [hlt] at hg
        have hnle : ¬ posLe (keys.getD b (0, 0)) q = true := by
          intro hle
          have hge : posLe q (keys.getD b (0, 0)) = true := by
            rw [← posLt_false_iff]; simpa using hlt
          exact hk (posLe_antisymm hle hge)
        have hb00 : b = 0 := by
          rcases hb0 with h | h
          · exact h
          · exact (hnle h).elim
        subst hb00
        simp at hg

/-- the token `lookup_token` lands on -/
def lookupT (ts : List Tok) (q : Pos) : Option Tok := (glb (ts.map Tok.pos) q).bind (ts[·]?)

/-- the same, declaratively: the first token at `q` if there is one, else the last token before `q` -/
def pick (ts : List Tok) (q : Pos) : Option Tok :=
  match ts.find? (fun t => decide (Tok.pos t = q)) with
  | some t => some t
  | none => (ts.filter fun t => posLe (Tok.pos t) q).getLast?

theorem lookupT_eq_pick (ts : List Tok) (q : Pos) (h : SortedT ts) : lookupT ts q = pick ts q := by
  unfold lookupT pick
  cases hg : glb (ts.map Tok.pos) q with
  | none =>
    have hall := (glb_tok_none_iff ts q h).mp hg
    have hf : ts.find? (fun t => decide (Tok.pos t = q)) = none := by
      rw [List.find?_eq_none]
      intro t ht hp
      simp only [decide_eq_true_eq] at hp
      have := hall t ht
      rw [posLe_of_eq hp] at this
      cases this
    have hfl : (ts.filter fun t => posLe (Tok.pos t) q) = [] := by
      rw [List.filter_eq_nil_iff]
      intro t ht
      simp [hall t ht]
    simp [hf, hfl]
  | some i =>
    obtain ⟨hi, hle, hmax, hfirst⟩ := glb_tok_some ts q h i hg
    simp only [Option.bind_some, List.getElem?_eq_getElem hi]
    by_cases hq : Tok.pos ts[i] = q
    · have hf : ts.find? (fun t => decide (Tok.pos t = q)) = some ts[i] := by
        rw [List.find?_eq_some_iff_getElem]
        refine ⟨by simp [hq], i, hi, rfl, ?_⟩
        intro j hj
        simpa using hfirst hq j hj
      simp [hf]
    · have hf : ts.find? (fun t => decide (Tok.pos t = q)) = none := by
        rw [List.find?_eq_none]
        intro u hu hp
        simp only [decide_eq_true_eq] at hp
        have h1 := hmax u hu (posLe_of_eq hp)
        rw [hp] at h1
        exact hq (posLe_antisymm hle h1)
      have hlast := glb_inexact_last (ts.map Tok.pos) q (sortedK_map h) i hg
        (by rw [Lookup.getD_map_pos ts i hi]; exact hq)
      have hsk := sortedK_map h
      have hfl : (ts.filter fun t => posLe (Tok.pos t) q) = ts.take (i + 1) := by
        apply filter_eq_take _ ts (i + 1) (by omega)
        · intro j hj hji
          have := hsk j i (by omega) (by rw [List.length_map]; exact hi)
          rw [Lookup.getD_map_pos ts j hj, Lookup.getD_map_pos ts i hi] at this
          exact posLe_trans this hle
        · intro j hj hji
          have := hlast j (by omega) (by rw [List.length_map]; exact hj)
          rw [Lookup.getD_map_pos ts j hj] at this
          rw [posLe_false_iff]; exact this
      rw [hf, hfl, getLast?_take ts (i + 1) (by omega)]
      simp [List.getElem?_eq_getElem hi]

/-! ### dropping exact consecutive duplicates -/

theorem dedup_sublist : ∀ ts : List Tok, (dedup ts).Sublist ts := by
  intro ts
  fun_induction dedup ts with
  | case1 => exact List.Sublist.slnil
  | case2 t => exact List.Sublist.refl _
  | case3 a rest ih => exact List.Sublist.cons _ ih
  | case4 a b rest h ih => exact List.Sublist.cons_cons _ ih

theorem find?_dedup (p : Tok → Bool) : ∀ ts : List Tok, (dedup ts).find? p = ts.find? p := by
  intro ts
  fun_induction dedup ts with
  | case1 => rfl
  | case2 t => rfl
  | case3 a rest ih =>
    rw [ih]
    by_cases hp : p a = true
    · simp [hp]
    · simp [hp]
  | case4 a b rest h ih =>
    rw [List.find?_cons, ih, List.find?_cons (a := a)]

theorem getLast?_filter_dedup (p : Tok → Bool) : ∀ ts : List Tok,
    ((dedup ts).filter p).getLast? = (ts.filter p).getLast? := by
  intro ts
  fun_induction dedup ts with
  | case1 => rfl
  | case2 t => rfl
  | case3 a rest ih =>
    rw [ih]
    by_cases hp : p a = true
    · simp [hp, List.getLast?_cons_cons]
    · simp [hp]
  | case4 a b rest h ih =>
    rw [List.filter_cons, List.filter_cons (x := a)]
    by_cases hp : p a = true
    · simp only [hp, ↓reduceIte]
      rw [List.getLast?_cons, List.getLast?_cons, ih]
    · simp only [hp]
      exact ih

theorem pick_dedup (ts : List Tok) (q : Pos) : pick (dedup ts) q = pick ts q := by
  unfold pick
  rw [find?_dedup, getLast?_filter_dedup]

theorem sortedT_dedup {ts : List Tok} (h : SortedT ts) : SortedT (dedup ts) :=
  List.Pairwise.sublist (dedup_sublist ts) h

theorem lookupT_dedup (ts : List Tok) (q : Pos) (h : SortedT ts) :
    lookupT (dedup ts) q = lookupT ts q := by
  rw [lookupT_eq_pick _ _ (sortedT_dedup h), lookupT_eq_pick _ _ h, pick_dedup]

/-! ### normalising hidden fields -/

theorem normTok_pos (nn : Nat) (t : Tok) : Tok.pos (normTok nn t) = Tok.pos t := by
  unfold normTok Tok.pos
  split
  · rfl
  · split <;> rfl

theorem map_norm_pos (nn : Nat) (ts : List Tok) :
    (ts.map (normTok nn)).map Tok.pos = ts.map Tok.pos := by
  rw [List.map_map]
  apply List.map_congr_left
  intro t _
  exact normTok_pos nn t

theorem lookupT_map_norm (nn : Nat) (ts : List Tok) (q : Pos) :
    lookupT (ts.map (normTok nn)) q = (lookupT ts q).map (normTok nn) := by
  unfold lookupT
  rw [map_norm_pos]
  cases glb (ts.map Tok.pos) q with
  | none => rfl
  | some i => simp [List.getElem?_map]

theorem sortedT_map_norm {nn : Nat} {ts : List Tok} (h : SortedT ts) : SortedT (ts.map (normTok nn)) := by
  unfold SortedT at h ⊢
  rw [List.pairwise_map]
  simpa [normTok_pos] using h

/-! ### `get_original_function_name` through `lookupT` -/

/-- the answer for a bytecode offset once the token is known -/
def fnAnswer (fms : List (Option FMap)) (off : Nat) (t : Tok) : Res (Option Name) :=
  if t.rng && t.dl = 0 then
    if off < t.dc then .error .panic
    else .ok (scopeAt fms t.src t.sl (satAdd t.sc (off - t.dc)))
  else .ok (scopeAt fms t.src t.sl t.sc)

theorem functionName_eq (h : HMap) (off : Nat) :
    functionName h off = match lookupT h.toks (0, off) with
      | none => .ok none
      | some t => fnAnswer h.fms off t := by
  unfold functionName lookup lookupT
  cases glb (h.toks.map Tok.pos) (0, off) with
  | none => rfl
  | some i =>
    simp only [Option.bind_some]
    cases h.toks[i]? with
    | none => rfl
    | some t =>
      simp only [fnAnswer]
      by_cases hc : (t.rng && decide (t.dl = 0)) = true
      · simp only [hc, ↓reduceIte]
        by_cases ho : off < t.dc
        · simp [ho]
        · simp [ho]
      · simp only [hc]
        rfl

theorem scopeAt_none_src (fms : List (Option FMap)) (hlen : fms.length ≤ NONE) (sl sc : Nat) :
    scopeAt fms NONE sl sc = none := by
  unfold scopeAt
  have : fms[NONE]? = none := by rw [List.getElem?_eq_none_iff]; exact hlen
  simp [this]

theorem fnAnswer_norm (fms : List (Option FMap)) (hlen : fms.length ≤ NONE) (nn off : Nat) (t : Tok) :
    fnAnswer fms off (normTok nn t) = fnAnswer fms off t := by
  unfold normTok
  by_cases hs : t.src = NONE
  · simp only [hs, ↓reduceIte, fnAnswer, scopeAt_none_src fms hlen]
  · simp only [hs, ↓reduceIte]
    split <;> rfl

theorem scopeTok_norm (fms : List (Option FMap)) (hlen : fms.length ≤ NONE) (nn : Nat) (t : Tok) :
    scopeTok fms (normTok nn t) = scopeTok fms t := by
  unfold normTok scopeTok
  by_cases hs : t.src = NONE
  · simp only [hs, ↓reduceIte, scopeAt_none_src fms hlen]
  · simp only [hs, ↓reduceIte]
    split <;> rfl

end SmVerif.Hermes
