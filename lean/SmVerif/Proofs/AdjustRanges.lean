import SmVerif.Proofs.Adjust
/-
Helper lemmas for C10, part 2: what `create_ranges` produces (weakly ordered ranges, for any token
list with `u32` coordinates), when the displacement arithmetic is exact (coordinates below `2^30`), and
the resulting closed form of `adjustToks` for *all* small-coordinate inputs, duplicated keys included
(`adjustToks_exact`).
-/
namespace SmVerif.Adjust
open SmVerif SmVerif.Lookup

/-! ### `min` / `max` on positions -/

theorem posMin_le_left (a b : Pos) : posLe (posMin a b) a = true := by
  unfold posMin
  by_cases h : posLe a b = true
  · simp only [h, ↓reduceIte]; exact posLe_refl _
  · simp only [h]
    rcases posLe_total a b with h' | h'
    · exact absurd h' h
    · exact h'

theorem posMin_le_right (a b : Pos) : posLe (posMin a b) b = true := by
  unfold posMin
  by_cases h : posLe a b = true
  · simp only [h, ↓reduceIte]
  · simp only [h]; exact posLe_refl _

theorem le_posMin {a b c : Pos} (h1 : posLe c a = true) (h2 : posLe c b = true) :
    posLe c (posMin a b) = true := by
  unfold posMin
  by_cases h : posLe a b = true
  · simp only [h, ↓reduceIte]; exact h1
  · simp only [h]; exact h2

theorem posMin_mem (a b : Pos) : posMin a b = a ∨ posMin a b = b := by
  unfold posMin
  by_cases h : posLe a b = true
  · simp only [h, ↓reduceIte]; exact Or.inl trivial
  · simp only [h]; exact Or.inr (by trivial)

theorem lt_posMin_iff {a b c : Pos} :
    posLt c (posMin a b) = true ↔ posLt c a = true ∧ posLt c b = true := by
  unfold posMin
  by_cases h : posLe a b = true
  · simp only [h, ↓reduceIte]
    rw [posLe_iff] at h; simp only [posLt_iff]; omega
  · have hf : posLe a b = false := by simpa using h
    simp only [hf, Bool.false_eq_true, ↓reduceIte]
    have h' : posLt b a = true := (posLe_false_iff _ _).mp hf
    rw [posLt_iff] at h'; simp only [posLt_iff]; omega

theorem posMax_lt_iff {a b c : Pos} :
    posLt (posMax a b) c = true ↔ posLt a c = true ∧ posLt b c = true := by
  unfold posMax
  by_cases h : posLe a b = true
  · simp only [h, ↓reduceIte]
    rw [posLe_iff] at h; simp only [posLt_iff]; omega
  · have hf : posLe a b = false := by simpa using h
    simp only [hf, Bool.false_eq_true, ↓reduceIte]
    have h' : posLt b a = true := (posLe_false_iff _ _).mp hf
    rw [posLt_iff] at h'; simp only [posLt_iff]; omega

/-! ### `create_ranges` -/

def KeySorted (key : Tok → Pos) (s : List Tok) : Prop :=
  s.Pairwise (fun x y => posLe (key x) (key y) = true)

/-- the keys are `u32` pairs -/
def U32Keys (key : Tok → Pos) (s : List Tok) : Prop := ∀ t ∈ s, (key t).1 ≤ NONE ∧ (key t).2 ≤ NONE

theorem sortByKey_sorted (key : Tok → Pos) (ts : List Tok) : KeySorted key (sortByKey key ts) := by
  unfold KeySorted sortByKey
  exact List.pairwise_mergeSort (le := fun a b : Tok => posLe (key a) (key b))
    (fun a b c h1 h2 => posLe_trans h1 h2)
    (fun a b => by rcases posLe_total (key a) (key b) with h | h <;> simp [h]) ts

theorem sortByKey_perm (key : Tok → Pos) (ts : List Tok) : (sortByKey key ts).Perm ts :=
  List.mergeSort_perm _ _

theorem rangesOfSorted_value (key : Tok → Pos) (s : List Tok) :
    (rangesOfSorted key s).map (·.value) = s := by
  induction s with
  | nil => rfl
  | cons t rest ih => simp only [rangesOfSorted, List.map_cons, ih]

/-- each range starts at its token's key and ends on the same line -/
theorem rangesOfSorted_mem (key : Tok → Pos) (s : List Tok) :
    ∀ r ∈ rangesOfSorted key s, r.value ∈ s ∧ r.start = key r.value ∧
      posLe r.stop (r.start.1, NONE) = true := by
  induction s with
  | nil => intro r hr; simp [rangesOfSorted] at hr
  | cons t rest ih =>
    intro r hr
    simp only [rangesOfSorted, List.mem_cons] at hr
    rcases hr with rfl | hr
    · exact ⟨by simp, rfl, posMin_le_right _ _⟩
    · obtain ⟨h1, h2, h3⟩ := ih r hr
      exact ⟨List.mem_cons_of_mem _ h1, h2, h3⟩

theorem rangesOfSorted_WS (key : Tok → Pos) (s : List Tok) (hs : KeySorted key s) (hu : U32Keys key s) :
    WS (rangesOfSorted key s) := by
  induction s with
  | nil => exact ⟨by simp [rangesOfSorted], by simp [rangesOfSorted]⟩
  | cons t rest ih =>
    have hs' : KeySorted key rest := (List.pairwise_cons.mp hs).2
    have hle : ∀ u ∈ rest, posLe (key t) (key u) = true := (List.pairwise_cons.mp hs).1
    have ih := ih hs' (fun u hu' => hu u (List.mem_cons_of_mem _ hu'))
    have ht := hu t (by simp)
    simp only [rangesOfSorted]
    refine ⟨?_, ?_⟩
    · intro r hr
      rcases List.mem_cons.mp hr with rfl | hr
      · apply le_posMin
        · cases rest with
          | nil => simp only; rw [posLe_iff]; dsimp only [NONE] at ht ⊢; omega
          | cons n rest' => exact hle n (by simp)
        · rw [posLe_iff]; dsimp only [NONE] at ht ⊢; omega
      · exact ih.1 r hr
    · rw [List.pairwise_cons]
      refine ⟨?_, ih.2⟩
      intro r' hr'
      obtain ⟨hv, hst, _⟩ := rangesOfSorted_mem key rest r' hr'
      simp only
      rw [hst]
      cases rest with
      | nil => simp at hv
      | cons n rest' =>
        simp only
        refine posLe_trans (posMin_le_left _ _) ?_
        rcases List.mem_cons.mp hv with h | h
        · rw [h]; exact posLe_refl _
        · exact (List.pairwise_cons.mp hs').1 _ h

theorem createRanges_WS (key : Tok → Pos) (ts : List Tok) (hu : U32Keys key ts) :
    WS (createRanges key ts) := by
  apply rangesOfSorted_WS key _ (sortByKey_sorted key ts)
  intro t ht
  exact hu t ((sortByKey_perm key ts).mem_iff.mp ht)

theorem createRanges_mem (key : Tok → Pos) (ts : List Tok) :
    ∀ r ∈ createRanges key ts, r.value ∈ ts ∧ r.start = key r.value ∧
      posLe r.stop (r.start.1, NONE) = true := by
  intro r hr
  obtain ⟨h1, h2, h3⟩ := rangesOfSorted_mem key _ r hr
  exact ⟨(sortByKey_perm key ts).mem_iff.mp h1, h2, h3⟩

theorem createRanges_values_perm (key : Tok → Pos) (ts : List Tok) :
    ((createRanges key ts).map (·.value)).Perm ts := by
  unfold createRanges
  rw [rangesOfSorted_value]
  exact sortByKey_perm key ts

/-! ### exact arithmetic below `2^30` -/

def smallTok (t : Tok) : Prop :=
  t.dl < 1073741824 ∧ t.dc < 1073741824 ∧ t.sl < 1073741824 ∧ t.sc < 1073741824

theorem coordsSmall_iff (ts : List Tok) : coordsSmall ts = true ↔ ∀ t ∈ ts, smallTok t := by
  simp [coordsSmall, smallTok, List.all_eq_true, and_assoc]

theorem asI32_small {x : Nat} (h : x < 2147483648) : asI32 x = (x : Int) := by
  simp [asI32, h]

theorem i32Sub_ok {x y : Int} (h1 : -2147483648 ≤ x - y) (h2 : x - y ≤ 2147483647) :
    i32Sub x y = .ok (x - y) := by
  simp [i32Sub, inI32, h1, h2]

theorem i32Add_ok {x y : Int} (h1 : -2147483648 ≤ x + y) (h2 : x + y ≤ 2147483647) :
    i32Add x y = .ok (x + y) := by
  simp [i32Add, inI32, h1, h2]

theorem diffs_small {a : Range} (h : smallTok a.value) :
    diffs a = .ok ((a.value.dl : Int) - a.value.sl, (a.value.dc : Int) - a.value.sc) := by
  obtain ⟨h1, h2, h3, h4⟩ := h
  unfold diffs
  rw [asI32_small (by omega), asI32_small (by omega), asI32_small (by omega), asI32_small (by omega)]
  rw [i32Sub_ok (by omega) (by omega), i32Sub_ok (by omega) (by omega)]

theorem wrapU32_exact {p d s : Nat} (h1 : s ≤ p) (h2 : p + d - s < 4294967296) :
    wrapU32 ((p : Int) + ((d : Int) - (s : Int))) = p + d - s := by
  unfold wrapU32; omega

theorem emit_small {a o : Range} (ha : smallTok a.value)
    (hp1 : (posMax o.start a.start).1 = a.value.sl)
    (hp2 : a.value.sc ≤ (posMax o.start a.start).2)
    (hb : (posMax o.start a.start).2 < 1073741824) :
    emit a o ((a.value.dl : Int) - a.value.sl) ((a.value.dc : Int) - a.value.sc) = .ok (E o a) := by
  obtain ⟨h1, h2, h3, h4⟩ := ha
  unfold emit E
  generalize posMax o.start a.start = p at *
  simp only
  rw [asI32_small (by omega), asI32_small (by omega)]
  rw [i32Add_ok (by omega) (by omega)]
  simp only
  rw [i32Add_ok (by omega) (by omega)]
  simp only
  rw [wrapU32_exact (by omega) (by omega), wrapU32_exact (by omega) (by omega)]

/-- position of an emission: on the adjustment token's line, at or after its column -/
theorem posMax_on_line {o a : Range} (he : posLe a.stop (a.start.1, NONE) = true)
    (hlt : posLt o.start a.stop = true) :
    (posMax o.start a.start).1 = a.start.1 ∧ a.start.2 ≤ (posMax o.start a.start).2 ∧
      ((posMax o.start a.start) = o.start ∨ (posMax o.start a.start) = a.start) := by
  unfold posMax
  by_cases h : posLe o.start a.start = true
  · simp only [h, ↓reduceIte]; refine ⟨?_, ?_, ?_⟩ <;> simp
  · have hf : posLe o.start a.start = false := by simpa using h
    simp only [hf, Bool.false_eq_true, ↓reduceIte]
    have h' : posLt a.start o.start = true := (posLe_false_iff _ _).mp hf
    rw [posLe_iff] at he; rw [posLt_iff] at hlt h'
    simp only [] at he
    refine ⟨by omega, by omega, Or.inl (by trivial)⟩

theorem arithOK_small (rs : List Range) (a : Range) (hs : a.start = srcKey a.value)
    (he : posLe a.stop (a.start.1, NONE) = true) (ha : smallTok a.value)
    (hrs : ∀ o ∈ rs, o.start.2 < 1073741824) : ArithOK rs a := by
  refine ⟨_, _, diffs_small ha, ?_⟩
  intro o ho hlt
  obtain ⟨q1, q2, q3⟩ := posMax_on_line he hlt
  have hsk : a.start.1 = a.value.sl ∧ a.start.2 = a.value.sc := by rw [hs]; exact ⟨rfl, rfl⟩
  apply emit_small ha
  · omega
  · omega
  · rcases q3 with q | q
    · rw [q]; exact hrs o ho
    · rw [q]; have := ha.2.2.2; omega

/-! ### closed form of `adjustToks` for small coordinates (duplicated keys included) -/

/-- the tokens pushed by the sweep, as a comprehension over the two range lists -/
def sweepList (o a : List Tok) : List Tok :=
  (createRanges srcKey a).flatMap fun ra => (createRanges dstKey o).filterMap (one ra)

theorem adjustToks_exact (o a : List Tok) (ho : coordsSmall o = true) (ha : coordsSmall a = true) :
    adjustToks o a = .ok (sortToks (sweepList o a)) := by
  rw [coordsSmall_iff] at ho ha
  unfold adjustToks sweepList
  cases hro : createRanges dstKey o with
  | nil =>
    simp only
    have : ((createRanges srcKey a).flatMap fun ra => ([] : List Range).filterMap (one ra)) = [] := by
      rw [List.flatMap_eq_nil_iff]; intro x _; rfl
    rw [this]; simp [sortToks]
  | cons r rs =>
    simp only
    have huo : U32Keys dstKey o := by
      intro t ht; obtain ⟨h1, h2, _, _⟩ := ho t ht
      simp only [dstKey, NONE]; omega
    have hua : U32Keys srcKey a := by
      intro t ht; obtain ⟨_, _, h3, h4⟩ := ha t ht
      simp only [srcKey, NONE]; omega
    have hwo : WS (r :: rs) := hro ▸ createRanges_WS dstKey o huo
    have hwa := createRanges_WS srcKey a hua
    have hok : ∀ x ∈ createRanges srcKey a, ArithOK (r :: rs) x := by
      intro x hx
      obtain ⟨hv, hst, hen⟩ := createRanges_mem srcKey a x hx
      apply arithOK_small _ x hst hen (ha _ hv)
      intro y hy
      obtain ⟨hv', hst', _⟩ := createRanges_mem dstKey o y (hro ▸ hy)
      rw [hst']; exact (ho _ hv').2.1
    rw [sweep_spec (r :: rs) _ r rs (fun _ h => h) hwo hwa hok]

end SmVerif.Adjust
