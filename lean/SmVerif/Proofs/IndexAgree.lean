import SmVerif.Proofs.IndexWf
/-
C08 helper lemmas, part 6: what the index lookup finds, the flattened map finds at the same
position (same source, original line, original column incl. the range shift, name).
Structure: both lookups are reduced to the index predicate `IsGlb`; the section shift transports it
from the section's own token list to the section's block in the flattened list; the blocks before
and after do not interfere; nested indexes by structural induction.
-/
namespace SmVerif.IndexP
open SmVerif SmVerif.Lookup SmVerif.Index SmVerif.Index.Spec

/-- the agreement statement for one decoded map -/
def AgreeD (d : DMap) : Prop :=
  ∀ q o, dmapLookup d q = .ok (some o) →
    ∃ m i t c, sectionMap d = .ok m ∧ lookup m.tokens q = .ok (some (i, t, c)) ∧ originOf m t c = o

theorem agree_leaf (m : SMap) (d : DMap) (hd : d = .regular m ∨ d = .hermes m) : AgreeD d := by
  intro q o h
  have hl : leafLookup m q = .ok (some o) := by
    rcases hd with rfl | rfl <;> (rw [dmapLookup] at h; exact h)
  have hsm : sectionMap d = .ok m := by
    rcases hd with rfl | rfl <;> rw [sectionMap]
  unfold leafLookup at hl
  cases hlk : lookup m.tokens q with
  | error e => rw [hlk] at hl; simp at hl
  | ok r =>
    rw [hlk] at hl
    cases r with
    | none => simp at hl
    | some p =>
      obtain ⟨i, t, c⟩ := p
      simp only [Except.ok.injEq, Option.some.injEq] at hl
      exact ⟨m, i, t, c, hsm, hlk, hl⟩

/-! ### small facts -/

theorem rel_pos {S N : List Bytes} {t : Tok} {x : XTok} (h : Rel S N t x) : Tok.pos t = x.v.pos := by
  obtain ⟨h1, h2, _⟩ := h
  simp [Tok.pos, VTok.pos, h1, h2]

theorem all2_pos {S N : List Bytes} {ts : List Tok} {xs : List XTok} (h : All₂ (Rel S N) ts xs) :
    ts.map Tok.pos = xs.map (fun x => x.v.pos) := h.map_eq fun _ _ hr => rel_pos hr

theorem sortedT_of_pos {ts : List Tok} {xs : List XTok} (hp : ts.map Tok.pos = xs.map (fun x => x.v.pos))
    (hs : SortedX xs) : SortedT ts := by
  have h1 : (xs.map (fun x => x.v.pos)).Pairwise (fun a b => posLe a b = true) := List.pairwise_map.mpr hs
  rw [← hp] at h1
  exact List.pairwise_map.mp h1

mutual
theorem wf_flattenable : (d : DMap) → wf d = true → flattenable d = true
  | .regular _, _ => by rw [flattenable]
  | .hermes _, _ => by rw [flattenable]
  | .index f secs, h => by rw [flattenable]; exact wfSecs_flattenable secs (by rw [wf_index] at h; exact h)
theorem wfSecs_flattenable : (secs : Secs) → wfSecs secs = true → flattenableSecs secs = true
  | .nil, _ => by rw [flattenableSecs]
  | .unres _ _ _ _, h => by rw [wfSecs, wfSecsG] at h; simp at h
  | .cons ol oc url d rest, h => by
    rw [wfSecs, wfSecsG] at h
    simp only [Bool.and_eq_true] at h
    obtain ⟨⟨⟨hd, hfit⟩, _⟩, hrest⟩ := h
    rw [flattenableSecs]
    simp only [Bool.and_eq_true]
    exact ⟨⟨wf_flattenable d hd, hfit⟩, wfSecs_flattenable rest hrest⟩
end

theorem tokCount_le : (secs : Secs) → ∀ s ∈ sections secs, ∀ d, s.2 = some d → tokCount d ≤ tokCountSecs secs
  | .nil, s, hs, _, _ => by simp [sections] at hs
  | .unres _ _ _ rest, s, hs, d, hd => by
    rw [sections, List.mem_cons] at hs
    rw [tokCountSecs]
    rcases hs with rfl | hs
    · simp at hd
    · exact tokCount_le rest s hs d hd
  | .cons _ _ _ d0 rest, s, hs, d, hd => by
    rw [sections, List.mem_cons] at hs
    rw [tokCountSecs]
    rcases hs with rfl | hs
    · simp only [Option.some.injEq] at hd
      subst hd; omega
    · have := tokCount_le rest s hs d hd; omega

theorem take_drop_getElem {α : Type} (l : List α) (i : Nat) (s : α) (h : l[i]? = some s) :
    l = l.take i ++ s :: l.drop (i + 1) := by
  induction l generalizing i with
  | nil => simp at h
  | cons a l ih =>
    cases i with
    | zero => simp at h; subst h; simp
    | succ i =>
      simp only [List.getElem?_cons_succ] at h
      simp only [List.take_succ_cons, List.drop_succ_cons, List.cons_append]
      rw [← ih i h]

/-! ### one level of an index -/

theorem agree_index (f : Option Bytes) (secs : Secs) (hwf : wfSecs secs = true) (hsz : tokCountSecs secs < NONE)
    (IH : ∀ s ∈ sections secs, ∀ d, s.2 = some d → AgreeD d) : AgreeD (.index f secs) := by
  intro q o hlk
  rw [dmapLookup_index] at hlk
  have hinc := offsets_strict secs hwf
  have hsk := sortedK_of_strict hinc
  cases hg : glb (offsets secs) q with
  | none => rw [hg] at hlk; simp at hlk
  | some i =>
    rw [hg] at hlk
    simp only at hlk
    cases hs : (sections secs)[i]? with
    | none => rw [hs] at hlk; simp at hlk
    | some s =>
      rw [hs] at hlk
      simp only at hlk
      obtain ⟨hw1, _⟩ := wfSecs_sections secs hwf
      obtain ⟨d, hsd, hwd, _⟩ := hw1 i s hs
      unfold inSection at hlk
      rw [hsd] at hlk
      simp only at hlk
      -- what `glb` says about the chosen section
      have hglb := glb_isGlb _ q hsk i hg
      have hil : i < (sections secs).length := by
        have := hglb.1; rw [offsets_eq, List.length_map] at this; exact this
      have hile : posLe s.1 q = true := by
        have := hglb.2.1; rwa [getD_offsets secs i s hs] at this
      have hlater : ∀ (j : Nat) (s' : Pos × Option DMap), i < j → (sections secs)[j]? = some s' →
          posLt q s'.1 = true := by
        intro j s' hij hs'
        have hjl : j < (offsets secs).length := by
          rw [offsets_eq, List.length_map]
          rcases Nat.lt_or_ge j (sections secs).length with h' | h'
          · exact h'
          · rw [List.getElem?_eq_none h'] at hs'; exact absurd hs' (by simp)
        by_cases hk : (offsets secs).getD i (0, 0) = q
        · have := strict_getD hinc hij hjl
          rw [hk, getD_offsets secs j s' hs'] at this; exact this
        · have := hglb.2.2.2 hk j hij hjl
          rw [getD_offsets secs j s' hs'] at this; exact this
      -- the section's own answer (induction hypothesis)
      have hmem : s ∈ sections secs := List.mem_of_getElem? hs
      obtain ⟨md, i', t, c, hmd, hlmd, horg⟩ := IH s hmem d hsd (subPos q s.1) o hlk
      have hszd : tokCount d < NONE := by have := tokCount_le secs s hmem d hsd; omega
      obtain ⟨hdok, _⟩ := sectionMap_spec d hszd
      obtain ⟨md', hmd', hview⟩ := hdok (wf_flattenable d hwd)
      rw [hmd] at hmd'
      simp only [Except.ok.injEq] at hmd'
      subst hmd'
      -- the flattened map
      obtain ⟨hsok, _⟩ := flattenSecs_spec secs (Bld.new f) [] (inv_new f) (by simpa using hsz)
      obtain ⟨b', hb', hinv, _, hroot⟩ := hsok (wfSecs_flattenable secs hwf)
      simp only [List.nil_append] at hinv
      have hroot' : b'.root = none := by rw [hroot]; rfl
      have hm : sectionMap (.index f secs) = .ok b'.intoSourcemap := by rw [sectionMap, hb']
      obtain ⟨htk, _⟩ := into_fields b' hroot'
      have hxsorted := (specSecs_sorted secs hwf).1
      have hbsorted : SortedT b'.tokens := sortedT_of_pos (all2_pos hinv.rel) hxsorted
      have htk' : b'.intoSourcemap.tokens = b'.tokens := by
        rw [htk]; unfold sortToks; exact List.mergeSort_of_pairwise hbsorted
      -- the three blocks
      have hdecomp := take_drop_getElem (sections secs) i s hs
      have hspec : specSecs secs =
          ((sections secs).take i).flatMap secX ++ (secX s ++ ((sections secs).drop (i + 1)).flatMap secX) := by
        rw [specSecs_eq]
        conv => lhs; rw [hdecomp]
        rw [List.flatMap_append, List.flatMap_cons]
      have hrel := hinv.rel
      rw [hspec] at hrel
      obtain ⟨T1, T23, hT, hr1, hr23⟩ := All₂.split_right hrel
      obtain ⟨T2, T3, hT', hr2, hr3⟩ := All₂.split_right hr23
      have hk1 : ∀ a ∈ T1.map Tok.pos, posLt a q = true := by
        intro a ha
        rw [all2_pos hr1] at ha
        obtain ⟨x, hx, rfl⟩ := List.mem_map.mp ha
        exact posLt_of_lt_of_le (before_section secs hwf i s hs x hx) hile
      have hk3 : ∀ a ∈ T3.map Tok.pos, posLt q a = true := by
        intro a ha
        rw [all2_pos hr3] at ha
        obtain ⟨x, hx, rfl⟩ := List.mem_map.mp ha
        exact after_section secs i q hlater x hx
      have hsecX : secX s = md.tokens.map fun u => shiftX s.1.1 s.1.2 (xOfTok md u) := by
        unfold secX; rw [hsd]; simp only; rw [← hview, List.map_map]; rfl
      have hk2 : T2.map Tok.pos = (md.tokens.map Tok.pos).map (shiftP s.1) := by
        rw [all2_pos hr2, hsecX, List.map_map, List.map_map]; rfl
      -- the section's lookup, as an index predicate
      obtain ⟨hgmd, htmd, hc1, hc2⟩ := lookup_some_inv md.tokens _ i' t c hlmd
      have hmdsorted : SortedT md.tokens := by
        have := specX_sorted d hwd
        rw [← hview, SortedX, List.pairwise_map] at this
        exact this
      have hg1 := glb_isGlb _ _ (sortedK_map hmdsorted) i' hgmd
      have hg2 := isGlb_map _ (shiftP s.1) q (subPos q s.1) i'
        (fun p => shift_le s.1 p q hile) (fun p => shift_lt s.1 p q hile) (fun p => shift_eq s.1 p q hile) hg1
      rw [← hk2] at hg2
      have hg3 := isGlb_block (T1.map Tok.pos) (T2.map Tok.pos) (T3.map Tok.pos) q i' hk1 hk3 hg2
      have hkeys : b'.tokens.map Tok.pos = T1.map Tok.pos ++ (T2.map Tok.pos ++ T3.map Tok.pos) := by
        rw [hT, hT']; simp
      have hgF : glb (b'.tokens.map Tok.pos) q = some (T1.length + i') := by
        apply isGlb_glb _ q (sortedK_map hbsorted)
        rw [hkeys]; simpa using hg3
      -- the token found there
      have hxi : (secX s)[i']? = some (shiftX s.1.1 s.1.2 (xOfTok md t)) := by
        rw [hsecX, List.getElem?_map, htmd]; rfl
      obtain ⟨t', ht', hrel'⟩ := All₂.getElem? hr2 hxi
      have hi2 : i' < T2.length := by
        rcases Nat.lt_or_ge i' T2.length with h' | h'
        · exact h'
        · rw [List.getElem?_eq_none h'] at ht'; exact absurd ht' (by simp)
      have hF : b'.tokens[T1.length + i']? = some t' := by
        rw [hT, hT', List.getElem?_append_right (by omega), Nat.add_sub_cancel_left,
          List.getElem?_append_left hi2, ht']
      obtain ⟨hdl, hdc, hsl, hsc, hrng, _, _⟩ := hrel'
      simp only [shiftX, shiftV, xOfTok] at hdl hdc hsl hsc hrng
      have hq1 : s.1.1 ≤ q.1 ∧ (q.1 = s.1.1 → s.1.2 ≤ q.2) := by
        rw [posLe_iff] at hile; omega
      refine ⟨b'.intoSourcemap, T1.length + i', t', c, hm, ?_, ?_⟩
      · rw [htk']
        unfold lookup
        rw [hgF]
        simp only [hF]
        by_cases hcond : t.rng = true ∧ t.dl = (subPos q s.1).1
        · obtain ⟨hnlt, hceq⟩ := hc1 hcond
          obtain ⟨hr, hl⟩ := hcond
          simp only [subPos] at hl hnlt hceq
          have hcond' : (t'.rng && decide (t'.dl = q.1)) = true := by
            rw [hrng, hdl]; simp only [Bool.and_eq_true, decide_eq_true_eq]; exact ⟨hr, by omega⟩
          rw [if_pos hcond']
          by_cases h0 : t.dl = 0
          · have hq : q.1 = s.1.1 := by omega
            simp only [hq, ↓reduceIte] at hnlt hceq
            rw [hdc]; simp only [h0, ↓reduceIte]
            have : ¬ q.2 < t.dc + s.1.2 := by have := hq1.2 hq; omega
            rw [if_neg this, hsc, hceq]
            have : q.2 - (t.dc + s.1.2) = q.2 - s.1.2 - t.dc := by omega
            rw [this]
          · have hq : ¬ q.1 = s.1.1 := by omega
            simp only [hq, ↓reduceIte] at hnlt hceq
            rw [hdc]; simp only [h0, ↓reduceIte]
            rw [if_neg hnlt, hsc, hceq]
        · have hceq := hc2 hcond
          have hcond' : ¬ (t'.rng && decide (t'.dl = q.1)) = true := by
            rw [hrng, hdl]; simp only [Bool.and_eq_true, decide_eq_true_eq]
            rintro ⟨hr, hl⟩
            apply hcond
            refine ⟨hr, ?_⟩
            simp only [subPos]; omega
          rw [if_neg hcond', hsc, hceq]
      · have hv := into_view hinv hroot' (by rw [specSecs_length]; exact hsz)
          (t := t') (x := shiftX s.1.1 s.1.2 (xOfTok md t)) (by
            have := (All₂.getElem? hr2 hxi)
            obtain ⟨t'', ht'', hr''⟩ := this
            rw [ht'] at ht''
            simp only [Option.some.injEq] at ht''
            subst ht''; exact hr'')
        have hsrc : b'.intoSourcemap.tokSource t' = md.tokSource t := by
          have := congrArg (fun x => x.v.src) hv
          simpa [xOfTok, normX, shiftX, shiftV] using this
        have hname : b'.intoSourcemap.tokName t' = md.tokName t := by
          have := congrArg (fun x => x.v.name) hv
          simpa [xOfTok, normX, shiftX, shiftV] using this
        rw [← horg]
        simp only [originOf, hsrc, hname, hsl]

/-! ### all levels -/

mutual
theorem agreeD : (d : DMap) → wf d = true → tokCount d < NONE → AgreeD d
  | .regular m, _, _ => agree_leaf m _ (Or.inl rfl)
  | .hermes m, _, _ => agree_leaf m _ (Or.inr rfl)
  | .index f secs, hwf, hsz =>
    agree_index f secs (by rw [wf_index] at hwf; exact hwf) (by rw [tokCount] at hsz; exact hsz)
      (agreeS secs (by rw [wf_index] at hwf; exact hwf) (by rw [tokCount] at hsz; exact hsz))
theorem agreeS : (secs : Secs) → wfSecs secs = true → tokCountSecs secs < NONE →
    ∀ s ∈ sections secs, ∀ d, s.2 = some d → AgreeD d
  | .nil, _, _, s, hs, _, _ => by simp [sections] at hs
  | .unres _ _ _ _, h, _, _, _, _, _ => by rw [wfSecs, wfSecsG] at h; simp at h
  | .cons ol oc url d0 rest, h, hsz, s, hs, d, hd => by
    have h' := h
    rw [wfSecs, wfSecsG] at h'
    simp only [Bool.and_eq_true] at h'
    obtain ⟨⟨⟨hd0, _⟩, _⟩, hrest⟩ := h'
    rw [tokCountSecs] at hsz
    rw [sections, List.mem_cons] at hs
    rcases hs with rfl | hs
    · simp only [Option.some.injEq] at hd
      subst hd
      exact agreeD d0 hd0 (by omega)
    · exact agreeS rest hrest (by omega) s hs d hd
end

end SmVerif.IndexP
