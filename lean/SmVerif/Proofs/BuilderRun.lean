import SmVerif.Proofs.BuilderRefine
import SmVerif.Proofs.BuilderMap
/-
C13 — sequences of builder calls, and `into_sourcemap`.
-/
namespace SmVerif.C13
open SmVerif SmVerif.C13Spec

theorem run_ok : ∀ (ops : List BOp) (b : Bld) (a : ABld) (_ : Inv b) (_ : Rel b a) (b' : Bld) (outs : List BOut),
    b.run ops = .ok (b', outs) → ∃ a', a.run ops = some (a', outs) ∧ Rel b' a' ∧ Inv b' ∧ Grows b b'
  | [], b, a, hI, hR, b', outs, h => by
    simp only [Bld.run, Except.ok.injEq, Prod.mk.injEq] at h
    obtain ⟨h1, h2⟩ := h; subst h1; subst h2
    exact ⟨a, rfl, hR, hI, Grows.refl b⟩
  | op :: ops, b, a, hI, hR, b', outs, h => by
    simp only [Bld.run] at h
    cases hs : b.step op with
    | error e => simp [hs] at h
    | ok r =>
      obtain ⟨b1, o⟩ := r
      simp only [hs] at h
      obtain ⟨a1, ha1, hR1, hI1, hG1⟩ := step_ok b a hI hR op b1 o hs
      cases hr : b1.run ops with
      | error e => simp [hr] at h
      | ok r2 =>
        obtain ⟨b2, os⟩ := r2
        simp only [hr, Except.ok.injEq, Prod.mk.injEq] at h
        obtain ⟨h1, h2⟩ := h; subst h1; subst h2
        obtain ⟨a2, ha2, hR2, hI2, hG2⟩ := run_ok ops b1 a1 hI1 hR1 b2 os hr
        exact ⟨a2, by simp only [ABld.run, ha1, ha2], hR2, hI2, hG1.trans hG2⟩

theorem run_err : ∀ (ops : List BOp) (b : Bld) (a : ABld) (_ : Inv b) (_ : Rel b a) (e : Err),
    b.run ops = .error e → e = .panic ∧ a.run ops = none
  | [], b, a, _, _, e, h => by simp [Bld.run] at h
  | op :: ops, b, a, hI, hR, e, h => by
    simp only [Bld.run] at h
    cases hs : b.step op with
    | error e1 =>
      simp only [hs, Except.error.injEq] at h; subst h
      obtain ⟨he, ha⟩ := step_err b a hI hR op e1 hs
      exact ⟨he, by simp only [ABld.run, ha]⟩
    | ok r =>
      obtain ⟨b1, o⟩ := r
      simp only [hs] at h
      obtain ⟨a1, ha1, hR1, hI1, _⟩ := step_ok b a hI hR op b1 o hs
      cases hr : b1.run ops with
      | error e1 =>
        simp only [hr, Except.error.injEq] at h; subst h
        obtain ⟨he, ha⟩ := run_err ops b1 a1 hI1 hR1 e1 hr
        exact ⟨he, by simp only [ABld.run, ha1, ha]⟩
      | ok r2 => obtain ⟨b2, os⟩ := r2; simp [hr] at h

/-! ### `into_sourcemap` -/

/-- the finished map, field by field -/
def finished (b : Bld) : SMap :=
  { file := b.file, tokens := Lookup.sortToks b.tokens, names := b.names, root := b.root, sources := b.sources,
    prefixed := (match b.root with
      | some r => if r.isEmpty then none else some (b.sources.map (SMap.prefixSource r))
      | none => none),
    contents := b.contents, ignore := b.ignore, debugId := b.debugId }

theorem intoSourcemap_eq (b : Bld) (h : b.ignore.Pairwise (· < ·)) : b.intoSourcemap = finished b := by
  have hfold : b.ignore.foldl (fun acc i => SMap.insertSorted i acc) [] = b.ignore := by
    have := foldl_insert_sorted b.ignore [] (by simpa using h)
    simpa using this
  have hc : (if b.contents.isEmpty then none else some b.contents : Option (List (Option Bytes))).getD [] = b.contents := by
    cases hi : b.contents <;> simp
  unfold Bld.intoSourcemap
  simp only [foldl_addToIgnoreList]
  unfold finished SMap.setSourceRoot SMap.new
  cases b.root with
  | none => simp only [hfold, hc]
  | some r =>
    by_cases he : r.isEmpty = true
    · simp only [he, ↓reduceIte, hfold, hc]
    · have he' : r.isEmpty = false := by simpa using he
      simp only [he', Bool.false_eq_true, ↓reduceIte, hfold, hc]

theorem wf_finished (b : Bld) (h : b.ignore.Pairwise (· < ·)) : MapWF (finished b) := ⟨rfl, h⟩

theorem posLe_view (m : SMap) (t u : Tok) :
    Lookup.posLe (Lookup.Tok.pos t) (Lookup.Tok.pos u) = C13Spec.posLe (m.tokView t) (m.tokView u) := by
  rw [Bool.eq_iff_iff]
  simp [Lookup.posLe, C13Spec.posLe, SMap.tokView, Lookup.Tok.pos]
  constructor
  · rintro (h | ⟨h1, h2⟩)
    · exact Or.inl h
    · exact Or.inr ⟨of_decide_eq_true h1, h2⟩
  · rintro (h | ⟨h1, h2⟩)
    · exact Or.inl h
    · exact Or.inr ⟨decide_eq_true h1, h2⟩

theorem tokSource_finished (b : Bld) (h : b.ignore.Pairwise (· < ·)) (t : Tok) :
    (finished b).tokSource t = if t.src = SmVerif.NONE then none else (b.sources[t.src]?).map (join b.root) := by
  unfold SMap.tokSource
  rw [getSource_eq _ (wf_finished b h)]
  rfl

theorem idRel_source (b : Bld) (h : b.ignore.Pairwise (· < ·)) (hs : b.sources.length ≤ SmVerif.NONE)
    (t : Tok) (src : Option Bytes) (hr : idRel b.sources t.src src) :
    (finished b).tokSource t = src.map (join b.root) := by
  rw [tokSource_finished b h]
  cases src with
  | none => simp [show t.src = SmVerif.NONE from hr]
  | some s =>
    have hg : b.sources[t.src]? = some s := hr
    have hlt := (List.getElem?_eq_some_iff.1 hg).1
    have hne : ¬ t.src = SmVerif.NONE := by omega
    simp [hne, hg]

theorem idRel_name (b : Bld) (hn : b.names.length ≤ SmVerif.NONE)
    (t : Tok) (name : Option Bytes) (hr : idRel b.names t.name name) :
    (finished b).tokName t = name := by
  unfold SMap.tokName SMap.getName
  cases name with
  | none => simp [show t.name = SmVerif.NONE from hr]
  | some s =>
    have hg : b.names[t.name]? = some s := hr
    have hlt := (List.getElem?_eq_some_iff.1 hg).1
    have hne : ¬ t.name = SmVerif.NONE := by omega
    simp only [hne, ↓reduceIte]
    exact hg

theorem optIdx_some (l : List Bytes) (i : Nat) :
    optIdx l (some i) = if i = SmVerif.NONE then none else l[i]? := rfl

/-- a stored token shows in the finished map what the abstract token demands -/
theorem tokView_eq (b : Bld) (a : ABld) (hI : Inv b) (hR : Rel b a)
    (hs : b.sources.length ≤ SmVerif.NONE) (hn : b.names.length ≤ SmVerif.NONE)
    (t : Tok) (x : ATok) (hr : tokRel b.sources b.names t x) : (finished b).tokView t = a.tokView x := by
  cases x with
  | named dl dc sl sc src name rng =>
    obtain ⟨h1, h2, h3, h4, h5, h6, h7⟩ := hr
    simp only [SMap.tokView, ABld.tokView, h1, h2, h3, h4, h5, idRel_source b hI.ignore_sorted hs t src h6,
      idRel_name b hn t name h7, hR.root]
  | raw dl dc sl sc src name rng =>
    have ht : t = { dl := dl, dc := dc, sl := sl, sc := sc, src := src.getD SmVerif.NONE,
                    name := name.getD SmVerif.NONE, rng := rng } := hr
    subst ht
    simp only [SMap.tokView, ABld.tokView, tokSource_finished b hI.ignore_sorted, hR.root, hR.sources, hR.names,
      SMap.tokName, SMap.getName, TokView.mk.injEq, true_and]
    refine ⟨?_, ?_⟩
    · cases src with
      | none => simp [optIdx]
      | some i =>
        simp only [Option.getD_some, optIdx_some]
        by_cases hi : i = SmVerif.NONE <;> simp [hi]
    · cases name with
      | none => simp [optIdx]
      | some i =>
        simp only [Option.getD_some, optIdx_some]
        by_cases hi : i = SmVerif.NONE <;> simp [hi, finished]

/-- **the finished map is what the abstract interning model says it is** -/
theorem finish_eq (b : Bld) (a : ABld) (hI : Inv b) (hR : Rel b a)
    (hs : b.sources.length ≤ SmVerif.NONE) (hn : b.names.length ≤ SmVerif.NONE) :
    b.intoSourcemap.view = a.finish := by
  rw [intoSourcemap_eq b hI.ignore_sorted]
  have hw := wf_finished b hI.ignore_sorted
  have htoks : (finished b).tokens.map (finished b).tokView = (a.toks.map a.tokView).mergeSort C13Spec.posLe := by
    show (Lookup.sortToks b.tokens).map _ = _
    unfold Lookup.sortToks
    rw [List.map_mergeSort (s := C13Spec.posLe) (fun t _ u _ => posLe_view (finished b) t u)]
    rw [toksRel.map_eq (finished b).tokView a.tokView (tokView_eq b a hI hR hs hn) hR.toks]
  have hcont : (finished b).sourceContents = (List.range a.sources.length).map fun i => lookupLog i a.contents := by
    unfold SMap.sourceContents
    rw [hR.sources]
    apply List.map_congr_left
    intro i _
    exact hR.contents i
  simp only [SMap.view, ABld.finish, htoks, hcont, sourcesRead_eq _ hw, SMap.asRawFields]
  simp only [finished, hR.sources, hR.names, hR.root, hR.file, hR.debugId, hR.ignore]

end SmVerif.C13
