import SmVerif.Model.NameResSpec
/-
C17 helper lemmas, part 1: lengths, byte slicing, the two scans, identifiers.
-/
namespace SmVerif.NameRes
open SmVerif

theorem len8_pos (c : Char) : 1 ≤ len8 c := by
  unfold len8; split <;> (try split) <;> (try split) <;> omega

theorem len16_pos (c : Char) : 1 ≤ len16 c := by
  unfold len16; split <;> omega

theorem u8len_append (a b : Str) : u8len (a ++ b) = u8len a + u8len b := by
  induction a with
  | nil => simp [u8len]
  | cons c a ih => simp [u8len, ih]; omega

theorem u16len_append (a b : Str) : u16len (a ++ b) = u16len a + u16len b := by
  induction a with
  | nil => simp [u16len]
  | cons c a ih => simp [u16len, ih]; omega

theorem u8len_reverse (a : Str) : u8len a.reverse = u8len a := by
  induction a with
  | nil => rfl
  | cons c a ih => simp [u8len_append, u8len, ih]; omega

theorem u16len_reverse (a : Str) : u16len a.reverse = u16len a := by
  induction a with
  | nil => rfl
  | cons c a ih => simp [u16len_append, u16len, ih]; omega

theorem u8len_eq_zero {a : Str} (h : u8len a = 0) : a = [] := by
  cases a with
  | nil => rfl
  | cons c a => have := len8_pos c; simp [u8len] at h; omega

theorem u16len_eq_zero {a : Str} (h : u16len a = 0) : a = [] := by
  cases a with
  | nil => rfl
  | cons c a => have := len16_pos c; simp [u16len] at h; omega

/-! ### byte slicing -/

theorem takeBytes_append (a b : Str) : takeBytes (a ++ b) (u8len a) = some a := by
  induction a with
  | nil => cases b <;> simp [takeBytes, u8len]
  | cons c a ih =>
    have := len8_pos c
    simp only [List.cons_append, takeBytes, u8len]
    rw [if_neg (by omega), if_neg (by omega)]
    have : len8 c + u8len a - len8 c = u8len a := by omega
    rw [this, ih]; rfl

theorem dropBytes_append (a b : Str) : dropBytes (a ++ b) (u8len a) = some b := by
  induction a with
  | nil => cases b <;> simp [dropBytes, u8len]
  | cons c a ih =>
    have := len8_pos c
    simp only [List.cons_append, dropBytes, u8len]
    rw [if_neg (by omega), if_neg (by omega)]
    have : len8 c + u8len a - len8 c = u8len a := by omega
    rw [this, ih]

/-- a successful `get(..n)` returns exactly `n` bytes -/
theorem takeBytes_u8len : ∀ (s : Str) (n : Nat) (p : Str), takeBytes s n = some p → u8len p = n := by
  intro s
  induction s with
  | nil =>
    intro n p h
    simp only [takeBytes] at h
    split at h
    · simp at h; subst h; simp [u8len, *]
    · simp at h
  | cons c s ih =>
    intro n p h
    simp only [takeBytes] at h
    split at h
    · simp at h; subst h; simp [u8len, *]
    · split at h
      · simp at h
      · cases hr : takeBytes s (n - len8 c) with
        | none => rw [hr] at h; simp at h
        | some r =>
          rw [hr] at h; simp at h; subst h
          have := ih _ _ hr
          simp [u8len]; omega

/-! ### the forward scan -/

theorem fwd_stop (col : Nat) (b : Str) (off idx : Nat) (h : col ≤ idx) : fwd col b off idx = off := by
  cases b with
  | nil => rfl
  | cons c b => simp [fwd, h]

theorem fwd_append (col : Nat) (a b : Str) : ∀ (off idx : Nat), idx + u16len a ≤ col →
    fwd col (a ++ b) off idx = fwd col b (off + u8len a) (idx + u16len a) := by
  induction a with
  | nil => intro off idx _; simp [u8len, u16len]
  | cons c a ih =>
    intro off idx h
    have := len16_pos c
    simp only [u16len] at h
    simp only [List.cons_append, fwd]
    rw [if_neg (by omega), ih _ _ (by omega)]
    simp only [u8len, u16len]
    congr 1 <;> omega

/-- scanning to a column that is the UTF-16 length of a prefix gives that prefix's byte length -/
theorem fwd_boundary (a b : Str) : fwd (u16len a) (a ++ b) 0 0 = u8len a := by
  rw [fwd_append _ _ _ _ _ (by omega), fwd_stop _ _ _ _ (by omega)]; omega

/-- scanning to a column at or past the end gives the line's byte length -/
theorem fwd_past (l : Str) (col : Nat) (h : u16len l ≤ col) : fwd col l 0 0 = u8len l := by
  have := fwd_append col l [] 0 0 (by omega)
  rw [List.append_nil] at this
  rw [this]; simp [fwd]

/-! ### the backward scan -/

theorem bwd_stop (move : Nat) (b : Str) (off idx : Nat) (h : move ≤ idx) : bwd move b off idx = .ok off := by
  cases b with
  | nil => rfl
  | cons c b => simp [bwd, h]

theorem bwd_append (move : Nat) (a b : Str) : ∀ (off idx : Nat), idx + u16len a ≤ move → u8len a ≤ off →
    bwd move (a ++ b) off idx = bwd move b (off - u8len a) (idx + u16len a) := by
  induction a with
  | nil => intro off idx _ _; simp [u8len, u16len]
  | cons c a ih =>
    intro off idx h h8
    have := len16_pos c
    simp only [u16len] at h
    simp only [u8len] at h8
    simp only [List.cons_append, bwd]
    rw [if_neg (by omega), if_neg (by omega), ih _ _ (by omega) (by omega)]
    simp only [u8len, u16len]
    congr 1 <;> omega

/-- the checked subtraction in the backward scan cannot underflow when the offset covers the
characters scanned -/
theorem bwd_ok (move : Nat) (r : Str) : ∀ (off idx : Nat), u8len r ≤ off → ∃ o, bwd move r off idx = .ok o := by
  induction r with
  | nil => intro off idx _; exact ⟨off, rfl⟩
  | cons c r ih =>
    intro off idx h
    simp only [u8len] at h
    simp only [bwd]
    by_cases hm : idx ≥ move
    · rw [if_pos hm]; exact ⟨off, rfl⟩
    · rw [if_neg hm, if_neg (by omega)]
      exact ih _ _ (by omega)

/-- moving back from the end of `a ++ m` by the UTF-16 length of `m` lands at the end of `a` -/
theorem bwd_boundary (a m : Str) :
    bwd (u16len m) (a ++ m).reverse (u8len (a ++ m)) 0 = .ok (u8len a) := by
  rw [List.reverse_append, bwd_append _ _ _ _ _ (by rw [u16len_reverse]; omega)
    (by rw [u8len_reverse, u8len_append]; omega)]
  rw [bwd_stop _ _ _ _ (by rw [u16len_reverse]; omega), u8len_reverse, u8len_append]
  congr 1; omega

/-! ### the specification's suffix -/

theorem suffixAt_append (a b : Str) : suffixAt (a ++ b) (u16len a) = some b := by
  induction a with
  | nil => cases b <;> simp [suffixAt, u16len]
  | cons c a ih =>
    have := len16_pos c
    obtain ⟨n, hn⟩ : ∃ n, len16 c + u16len a = n + 1 := ⟨len16 c + u16len a - 1, by omega⟩
    simp only [List.cons_append, u16len, hn, suffixAt]
    rw [if_neg (by omega)]
    have : n + 1 - len16 c = u16len a := by omega
    rw [this, ih]

theorem suffixAt_some : ∀ (l : Str) (col : Nat) (s : Str), suffixAt l col = some s →
    ∃ a, l = a ++ s ∧ u16len a = col := by
  intro l
  induction l with
  | nil =>
    intro col s h
    cases col with
    | zero => simp [suffixAt] at h; subst h; exact ⟨[], rfl, rfl⟩
    | succ n => simp [suffixAt] at h
  | cons c l ih =>
    intro col s h
    cases col with
    | zero => simp [suffixAt] at h; subst h; exact ⟨[], rfl, rfl⟩
    | succ n =>
      simp only [suffixAt] at h
      split at h
      · simp at h
      · obtain ⟨a, ha, hu⟩ := ih _ _ h
        refine ⟨c :: a, by rw [ha]; rfl, ?_⟩
        simp only [u16len]; omega

theorem suffixAt_past (l : Str) (col : Nat) (h : u16len l < col) : suffixAt l col = none := by
  cases hs : suffixAt l col with
  | none => rfl
  | some s =>
    obtain ⟨a, ha, hu⟩ := suffixAt_some l col s hs
    rw [ha, u16len_append] at h; omega

/-- two prefixes of one line: the one with the smaller UTF-16 length is a prefix of the other -/
theorem prefix_of_u16_le {a b a1 b1 : Str} (h : a ++ b = a1 ++ b1) (hle : u16len a ≤ u16len a1) :
    ∃ m, a1 = a ++ m := by
  rcases List.append_eq_append_iff.mp h with ⟨m, h1, _⟩ | ⟨m, h1, _⟩
  · exact ⟨m, h1⟩
  · rw [h1, u16len_append] at hle
    have : m = [] := u16len_eq_zero (by omega)
    subst this
    exact ⟨[], by simpa using h1.symm⟩

/-! ### identifiers -/

theorem stripLoop_eq (P : Preds) (cs : Str) : ∀ i, stripLoop P cs i i = i + u8len (cs.takeWhile (isValidContinue P)) := by
  induction cs with
  | nil => intro i; simp [stripLoop, u8len]
  | cons c cs ih =>
    intro i
    simp only [stripLoop, List.takeWhile]
    by_cases hc : isValidContinue P c = true
    · simp only [hc, ↓reduceIte, u8len]
      rw [ih]; omega
    · simp only [hc, u8len]
      simp

/-- what `strip_identifier` computes; in particular the slice never panics -/
def stripSpec (P : Preds) : Str → Option Str
  | [] => none
  | c :: cs => if isValidStart P c then some (c :: cs.takeWhile (isValidContinue P)) else none

theorem stripIdentifier_eq (P : Preds) (s : Str) : stripIdentifier P s = .ok (stripSpec P s) := by
  cases s with
  | nil => rfl
  | cons c cs =>
    simp only [stripIdentifier, stripSpec]
    by_cases hs : isValidStart P c = true
    · simp only [hs, Bool.not_true, Bool.false_eq_true, ↓reduceIte]
      rw [stripLoop_eq]
      have h1 : c :: cs = (c :: cs.takeWhile (isValidContinue P)) ++ cs.dropWhile (isValidContinue P) := by
        simp [List.takeWhile_append_dropWhile]
      have h2 : len8 c + u8len (cs.takeWhile (isValidContinue P)) = u8len (c :: cs.takeWhile (isValidContinue P)) := rfl
      have h3 : takeBytes (c :: cs) (u8len (c :: cs.takeWhile (isValidContinue P))) =
          some (c :: cs.takeWhile (isValidContinue P)) := by
        have := takeBytes_append (c :: cs.takeWhile (isValidContinue P)) (cs.dropWhile (isValidContinue P))
        rw [← h1] at this; exact this
      simp only [sliceTo]
      rw [h2, h3]
    · simp [hs]

theorem dropWhile_head_not {α} (p : α → Bool) : ∀ (l : List α) (c : α) (w : List α),
    l.dropWhile p = c :: w → p c = false := by
  intro l
  induction l with
  | nil => intro c w h; simp at h
  | cons a l ih =>
    intro c w h
    simp only [List.dropWhile] at h
    by_cases ha : p a = true
    · simp only [ha] at h; exact ih c w h
    · simp only [ha] at h
      simp at h
      simpa [h.1] using ha

theorem getJavascriptToken_eq (P : Preds) (s : Str) : getJavascriptToken P s = .ok (identAtStart P s) := by
  simp only [getJavascriptToken, firstWord, identAtStart]
  cases hd : s.dropWhile P.isWs with
  | nil => simp
  | cons c w =>
    have hc := dropWhile_head_not P.isWs s c w hd
    simp only [List.takeWhile, hc, Bool.not_false]
    rw [stripIdentifier_eq]
    simp only [stripSpec]

theorem identAtStart_ne_nil (P : Preds) (s : Str) : identAtStart P s ≠ some [] := by
  simp only [identAtStart]
  split
  · simp
  · split <;> simp

theorem textAt_ne_nil (P : Preds) (lines : List Str) (l c : Nat) : textAt P lines l c ≠ some [] := by
  simp only [textAt]
  split
  · simp
  · split
    · simp
    · exact identAtStart_ne_nil P _

theorem u8len_takeWhile_eq (p : Char → Bool) (cs : Str) :
    (u8len (cs.takeWhile p) = u8len cs) ↔ cs.all p = true := by
  induction cs with
  | nil => simp [u8len]
  | cons c cs ih =>
    simp only [List.takeWhile, List.all_cons]
    by_cases hc : p c = true
    · simp only [hc, u8len, Bool.true_and]
      rw [← ih]; omega
    · have := len8_pos c
      simp only [hc, u8len]
      simp; omega

/-- `is_valid_javascript_identifier`: true for identifiers - and for the empty string -/
theorem isValidJsIdentifier_eq (P : Preds) (s : Str) :
    isValidJsIdentifier P s = .ok (s.isEmpty || isIdentifier P s) := by
  simp only [isValidJsIdentifier, stripIdentifier_eq]
  cases s with
  | nil => simp [stripSpec, u8len, isIdentifier]
  | cons c cs =>
    have := len8_pos c
    simp only [stripSpec, isIdentifier, List.isEmpty_cons, Bool.false_or]
    by_cases hs : isValidStart P c = true
    · simp only [hs, ↓reduceIte, Bool.true_and, u8len]
      congr 1
      have := u8len_takeWhile_eq (isValidContinue P) cs
      by_cases ha : cs.all (isValidContinue P) = true
      · have := this.mpr ha
        rw [ha]; simp; omega
      · have hne : ¬ u8len (cs.takeWhile (isValidContinue P)) = u8len cs := fun h => ha (this.mp h)
        simp only [ha]
        simp; omega
    · simp only [hs, Bool.false_and, u8len]
      simp; omega

end SmVerif.NameRes
