import SmVerif.Proofs.SourceViewUtf8
/-
C15: `get_line_slice` on the state machine, one request (`step`) and request sequences (`runReqs`)
against the stateless specification `specAns`.
-/
namespace SmVerif.SV
open SmVerif

theorem midPair_iff (cs : List (List Nat)) (hv : AllValid cs) (c : Nat) :
    midPair cs.flatten c = true ↔ ∃ e ∈ withStarts cs 0, e.1 < c ∧ c < e.1 + units e.2 := by
  unfold midPair
  rw [specChars_valid cs hv, List.any_eq_true]
  simp

theorem sliceLine_eq_spec (line : List Nat) (hv : ValidUtf8 line) (c n : Nat) (hb : midPair line c = false) :
    sliceLine line c n = sliceSpec line c n := by
  obtain ⟨cs, hcs, rfl⟩ := hv
  apply sliceLine_boundary cs hcs c n
  intro e he hmid
  have : midPair cs.flatten c = true := (midPair_iff cs hcs c).2 ⟨e, he, hmid⟩
  rw [hb] at this; cases this

theorem sliceLine_mid (line : List Nat) (hv : ValidUtf8 line) (c n : Nat) (hm : midPair line c = true) :
    sliceLine line c n = sliceSpec line (c + 1) (n - 1) := by
  obtain ⟨cs, hcs, rfl⟩ := hv
  exact sliceLine_midpair cs hcs c n ((midPair_iff cs hcs c).1 hm)

theorem getElem?_mem' {α} {l : List α} {i : Nat} {a : α} (h : l[i]? = some a) : a ∈ l :=
  List.mem_of_getElem? h

/-- `get_line_slice` from any state satisfying the invariant -/
theorem getLineSlice_run (src : List Nat) (st : St) (h : Inv src st) (l c n : Nat) :
    ∃ st', getLineSlice src st l c n = .ok ((splitLines src)[l]?.bind fun ln => sliceLine ln c n, st') ∧
      Inv src st' := by
  obtain ⟨st', hg, _, _, hi⟩ := getLine_spec src l st h
  unfold getLineSlice
  rw [hg]
  cases (splitLines src)[l]? with
  | none => exact ⟨st', rfl, hi⟩
  | some ln => exact ⟨st', rfl, hi⟩

theorem getLineSlice_spec (src : List Nat) (st : St) (h : Inv src st) (hv : ValidUtf8 src) (l c n : Nat)
    (hb : ∀ ln, (splitLines src)[l]? = some ln → midPair ln c = false) :
    ∃ st', getLineSlice src st l c n = .ok ((splitLines src)[l]?.bind fun ln => sliceSpec ln c n, st') ∧
      Inv src st' := by
  obtain ⟨st', hg, hi⟩ := getLineSlice_run src st h l c n
  refine ⟨st', ?_, hi⟩
  rw [hg]
  cases hq : (splitLines src)[l]? with
  | none => rfl
  | some ln =>
    simp only [Option.bind_some]
    rw [sliceLine_eq_spec ln (splitLines_valid src hv ln (getElem?_mem' hq)) c n (hb ln hq)]

/-- every request keeps the invariant, whatever it returns -/
theorem step_inv (src : List Nat) (st : St) (h : Inv src st) (q : Req) (a : Ans) (st' : St)
    (hs : step src st q = .ok (a, st')) : Inv src st' := by
  cases q with
  | get i =>
    obtain ⟨st1, hg, _, _, hi⟩ := getLine_spec src i st h
    simp only [step, hg, Except.ok.injEq, Prod.mk.injEq] at hs
    rw [← hs.2]; exact hi
  | count =>
    obtain ⟨st1, hg, _, _, hi⟩ := getLine_spec src NONE st h
    simp only [step, lineCount, hg, Except.ok.injEq, Prod.mk.injEq] at hs
    rw [← hs.2]; exact hi
  | all =>
    simp only [step] at hs
    cases hq : allLines32 src st with
    | error e => rw [hq] at hs; cases hs
    | ok r =>
      rw [hq] at hs
      simp only [Except.ok.injEq, Prod.mk.injEq] at hs
      rw [← hs.2]
      exact linesIter32_inv src _ _ _ _ _ _ h hq
  | slice l c n =>
    obtain ⟨st1, hg, hi⟩ := getLineSlice_run src st h l c n
    simp only [step, hg, Except.ok.injEq, Prod.mk.injEq] at hs
    rw [← hs.2]; exact hi

theorem runReqs_inv (src : List Nat) : ∀ (reqs : List Req) (st : St) (as : List Ans) (st' : St),
    Inv src st → runReqs src st reqs = .ok (as, st') → Inv src st' := by
  intro reqs
  induction reqs with
  | nil => intro st as st' h hr; simp only [runReqs, Except.ok.injEq, Prod.mk.injEq] at hr; rw [← hr.2]; exact h
  | cons q qs ih =>
    intro st as st' h hr
    simp only [runReqs] at hr
    cases hs : step src st q with
    | error e => rw [hs] at hr; cases hr
    | ok r =>
      obtain ⟨a, st1⟩ := r
      rw [hs] at hr
      simp only at hr
      cases hq : runReqs src st1 qs with
      | error e => rw [hq] at hr; cases hr
      | ok r2 =>
        obtain ⟨as2, st2⟩ := r2
        rw [hq] at hr
        simp only [Except.ok.injEq, Prod.mk.injEq] at hr
        rw [← hr.2]
        exact ih st1 as2 st2 (step_inv src st h q a st1 hs) hq

/-- one request against the specification -/
theorem step_spec (src : List Nat) (st : St) (h : Inv src st) (hv : ValidUtf8 src)
    (hn : (splitLines src).length < U32) (q : Req) (hq : reqMidPair src q = false) :
    ∃ st', step src st q = .ok (specAns src q, st') ∧ Inv src st' := by
  cases q with
  | get i =>
    obtain ⟨st1, hg, _, _, hi⟩ := getLine_spec src i st h
    exact ⟨st1, by simp only [step, hg, specAns], hi⟩
  | count =>
    obtain ⟨st1, hg, hi⟩ := lineCount_spec src st h (Nat.le_of_lt hn)
    exact ⟨st1, by simp only [step, hg, specAns], hi⟩
  | all =>
    obtain ⟨st1, hg, hi⟩ := allLines32_spec src st h hn
    exact ⟨st1, by simp only [step, hg, specAns], hi⟩
  | slice l c n =>
    have hb : ∀ ln, (splitLines src)[l]? = some ln → midPair ln c = false := by
      intro ln hl
      simpa only [reqMidPair, hl] using hq
    obtain ⟨st1, hg, hi⟩ := getLineSlice_spec src st h hv l c n hb
    exact ⟨st1, by simp only [step, hg, specAns], hi⟩

theorem runReqs_spec (src : List Nat) (hv : ValidUtf8 src) (hn : (splitLines src).length < U32) :
    ∀ (reqs : List Req) (st : St), Inv src st → (∀ q ∈ reqs, reqMidPair src q = false) →
      ∃ st', runReqs src st reqs = .ok (reqs.map (specAns src), st') ∧ Inv src st' := by
  intro reqs
  induction reqs with
  | nil => intro st h _; exact ⟨st, rfl, h⟩
  | cons q qs ih =>
    intro st h hm
    obtain ⟨st1, hs, hi1⟩ := step_spec src st h hv hn q (hm q (List.mem_cons_self ..))
    obtain ⟨st2, hr, hi2⟩ := ih st1 hi1 (fun x hx => hm x (List.mem_cons_of_mem _ hx))
    exact ⟨st2, by simp only [runReqs, hs, hr, List.map_cons], hi2⟩

/-- no request sequence panics or hangs (the only panic site left is the `u32` counter of `Lines`
on a text of 2^32 lines) -/
theorem step_total (src : List Nat) (st : St) (h : Inv src st) (q : Req)
    (hn : (splitLines src).length < U32 ∨ q ≠ Req.all) :
    ∃ a st', step src st q = .ok (a, st') := by
  cases q with
  | get i =>
    obtain ⟨st1, hg, _⟩ := getLine_spec src i st h
    exact ⟨.line (splitLines src)[i]?, st1, by simp only [step, hg]⟩
  | count =>
    obtain ⟨st1, hg, _⟩ := getLine_spec src NONE st h
    exact ⟨.count st1.lines.length, st1, by simp only [step, lineCount, hg]⟩
  | all =>
    rcases hn with hn | hn
    · obtain ⟨st1, hg, _⟩ := allLines32_spec src st h hn
      exact ⟨.all (splitLines src), st1, by simp only [step, hg]⟩
    · exact absurd rfl hn
  | slice l c n =>
    obtain ⟨st1, hg, _⟩ := getLineSlice_run src st h l c n
    exact ⟨.line ((splitLines src)[l]?.bind fun ln => sliceLine ln c n), st1, by simp only [step, hg]⟩

theorem runReqs_total (src : List Nat) : ∀ (reqs : List Req) (st : St), Inv src st →
    ((splitLines src).length < U32 ∨ Req.all ∉ reqs) →
    ∃ as st', runReqs src st reqs = .ok (as, st') := by
  intro reqs
  induction reqs with
  | nil => intro st _ _; exact ⟨[], st, rfl⟩
  | cons q qs ih =>
    intro st h hn
    have hq : (splitLines src).length < U32 ∨ q ≠ Req.all := by
      rcases hn with hn | hn
      · exact Or.inl hn
      · right; intro e; subst e; exact hn (List.mem_cons_self ..)
    obtain ⟨a, st1, hs⟩ := step_total src st h q hq
    have hqs : (splitLines src).length < U32 ∨ Req.all ∉ qs := by
      rcases hn with hn | hn
      · exact Or.inl hn
      · right; intro hm; exact hn (List.mem_cons_of_mem _ hm)
    obtain ⟨as, st2, hr⟩ := ih st1 (step_inv src st h q a st1 hs) hqs
    exact ⟨a :: as, st2, by simp only [runReqs, hs, hr]⟩

/-- the invariant in the form of the property: the cache is a prefix of the pieces and
`processed_until` is the offset of the next piece, or one past the end when finished -/
theorem inv_public (src : List Nat) (st : St) (h : Inv src st) :
    st.lines.length ≤ (splitLines src).length ∧
    st.lines = (splitLines src).take st.lines.length ∧
    st.processed = (if st.lines.length < (splitLines src).length then (lineStarts src).getD st.lines.length 0
                    else src.length + 1) := by
  rcases h with ⟨hp, hsplit, A, hA, hstarts⟩ | ⟨hp, hl⟩
  · have h1 : 1 ≤ (splitLines (src.drop st.processed)).length := (splitLines_length _).1
    have hlen : (splitLines src).length = st.lines.length + (splitLines (src.drop st.processed)).length := by
      rw (occs := .pos [1]) [hsplit]; simp
    refine ⟨by omega, ?_, ?_⟩
    · rw [hsplit]; simp
    · rw [if_pos (by omega), hstarts, ← hA]
      simp
  · refine ⟨by rw [hl]; exact Nat.le_refl _, by rw [← hl]; simp, ?_⟩
    rw [if_neg (by rw [hl]; omega), hp]
end SmVerif.SV
