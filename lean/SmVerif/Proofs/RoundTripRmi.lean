import SmVerif.Model.V3Spec
/-
Bit-level codec of `rangeMappings` (C07): `decodeRmi (encodeRmi bits)` reads like `bits`.
-/
namespace SmVerif.RoundTrip
open SmVerif SmVerif.Mappings

theorem rmiVal_rmiChar : ∀ v, v < 64 → rmiVal (rmiChar v) = some v := by
  decide +kernel

theorem bitsVal_lt : ∀ (c : List Bool), bitsVal c < 2 ^ c.length := by
  intro c
  induction c with
  | nil => simp [bitsVal]
  | cons b c ih =>
    simp only [bitsVal, List.length_cons, Nat.pow_succ]
    split <;> omega

theorem bitsVal_lt64 (c : List Bool) (h : c.length ≤ 6) : bitsVal c < 64 := by
  have h1 := bitsVal_lt c
  have h2 : 2 ^ c.length ≤ 2 ^ 6 := Nat.pow_le_pow_right (by omega) h
  omega

theorem bits6_bitsVal (c : List Bool) (h : c.length ≤ 6) :
    bits6 (bitsVal c) = c ++ List.replicate (6 - c.length) false := by
  match c, h with
  | [], _ => decide
  | [a], _ => revert a; decide
  | [a, b], _ => revert a b; decide
  | [a, b, c], _ => revert a b c; decide
  | [a, b, c, d], _ => revert a b c d; decide
  | [a, b, c, d, e], _ => revert a b c d e; decide
  | [a, b, c, d, e, f], _ => revert a b c d e f; decide
  | _ :: _ :: _ :: _ :: _ :: _ :: _ :: _, h => simp at h

theorem getD_append_replicate_false (t : List Bool) (k i : Nat) :
    (t ++ List.replicate k false).getD i false = t.getD i false := by
  simp only [List.getD_eq_getElem?_getD]
  by_cases h : i < t.length
  · rw [List.getElem?_append_left h]
  · rw [List.getElem?_append_right (by omega)]
    have : t[i]? = none := by simp; omega
    rw [this]
    simp [List.getElem?_replicate]
    split <;> rfl

theorem chunks6_cons (b : Bool) (bs : List Bool) :
    chunks6 (b :: bs) = (b :: bs).take 6 :: chunks6 ((b :: bs).drop 6) := by
  rw [chunks6]

/-- decoding the chunked text gives the bits back, padded to a multiple of 6 -/
theorem decodeRmi_chunks : ∀ (n : Nat) (t : List Bool), t.length ≤ n →
    ∃ back, decodeRmi ((chunks6 t).map fun c => rmiChar (bitsVal c)) = some back ∧
      ∀ i, back.getD i false = t.getD i false := by
  intro n
  induction n with
  | zero =>
    intro t ht
    have : t = [] := by cases t <;> simp_all
    subst this
    exact ⟨[], by simp [chunks6, decodeRmi], fun _ => rfl⟩
  | succ n ih =>
    intro t ht
    cases t with
    | nil => exact ⟨[], by simp [chunks6, decodeRmi], fun _ => rfl⟩
    | cons b bs =>
      obtain ⟨back, hb, hg⟩ := ih ((b :: bs).drop 6) (by simp at ht ⊢; omega)
      have hlen : ((b :: bs).take 6).length ≤ 6 := by simp; omega
      refine ⟨bits6 (bitsVal ((b :: bs).take 6)) ++ back, ?_, ?_⟩
      · rw [chunks6_cons, List.map_cons, decodeRmi, rmiVal_rmiChar _ (bitsVal_lt64 _ hlen)]
        simp only [hb, Option.map_some]
      · intro i
        rw [bits6_bitsVal _ hlen]
        generalize hT : b :: bs = T at *
        simp only [List.getD_eq_getElem?_getD] at hg ⊢
        by_cases hi : i < 6
        · by_cases hi2 : i < T.length
          · rw [List.getElem?_append_left (by simp; omega), List.getElem?_append_left (by simp; omega)]
            simp [hi]
          · rw [List.getElem?_append_left (by simp; omega), List.getElem?_append_right (by simp; omega)]
            have : T[i]? = none := by simp; omega
            rw [this]
            simp [List.getElem?_replicate]
            split <;> rfl
        · rw [List.getElem?_append_right (by simp; omega)]
          have hl : (List.take 6 T ++ List.replicate (6 - (List.take 6 T).length) false).length = 6 := by
            simp; omega
          rw [hl, hg (i - 6)]
          simp only [List.getElem?_drop]
          congr 2
          omega

theorem dropWhile_false_split : ∀ l : List Bool,
    ∃ k, l = List.replicate k false ++ l.dropWhile (· = false) := by
  intro l
  induction l with
  | nil => exact ⟨0, rfl⟩
  | cons b l ih =>
    cases b with
    | true => exact ⟨0, by simp⟩
    | false =>
      obtain ⟨k, hk⟩ := ih
      refine ⟨k + 1, ?_⟩
      simp only [List.dropWhile_cons, decide_true, ↓reduceIte, List.replicate_succ, List.cons_append]
      rw [← hk]

theorem trimFalse_split (bs : List Bool) : ∃ k, bs = trimFalse bs ++ List.replicate k false := by
  obtain ⟨k, hk⟩ := dropWhile_false_split bs.reverse
  refine ⟨k, ?_⟩
  have := congrArg List.reverse hk
  simp only [List.reverse_reverse, List.reverse_append, List.reverse_replicate] at this
  exact this

theorem trimFalse_getD (bs : List Bool) (i : Nat) : (trimFalse bs).getD i false = bs.getD i false := by
  obtain ⟨k, hk⟩ := trimFalse_split bs
  conv => rhs; rw [hk]
  rw [getD_append_replicate_false]

theorem decodeRmi_encodeRmi (bits : List Bool) :
    ∃ back, decodeRmi (encodeRmi bits) = some back ∧ ∀ i, back.getD i false = bits.getD i false := by
  unfold encodeRmi
  simp only
  by_cases he : (trimFalse bits).isEmpty = true
  · simp only [he, ↓reduceIte]
    obtain ⟨back, hb, hg⟩ := decodeRmi_chunks _ [false] (Nat.le_refl _)
    refine ⟨back, hb, fun i => ?_⟩
    rw [hg i, ← trimFalse_getD bits i]
    have : trimFalse bits = [] := by simpa using he
    rw [this]
    cases i <;> simp
  · simp only [he, Bool.false_eq_true, ↓reduceIte]
    obtain ⟨back, hb, hg⟩ := decodeRmi_chunks _ (trimFalse bits) (Nat.le_refl _)
    exact ⟨back, hb, fun i => by rw [hg i, trimFalse_getD]⟩

end SmVerif.RoundTrip
