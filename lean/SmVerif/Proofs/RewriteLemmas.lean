import SmVerif.Model.Rewrite
import SmVerif.Model.RewriteSpec
/-
C09 helper lemmas, part 1: lists (first-use order, interning), association lists, prefix stripping.
-/
namespace SmVerif.RwProofs
open SmVerif SmVerif.RwSpec

/-! ### first-use order -/

/-- what `add_source` / `add_name` do to the `Vec` -/
def intern (acc : List Bytes) (x : Bytes) : List Bytes := if x ∈ acc then acc else acc ++ [x]

def internOpt (l : List Bytes) : Option Bytes → List Bytes
  | none => l
  | some s => intern l s

theorem mem_firstUse {l : List Bytes} {x : Bytes} : x ∈ firstUse l ↔ x ∈ l := by
  induction l with
  | nil => simp [firstUse]
  | cons y ys ih =>
    simp only [firstUse, List.mem_cons, List.mem_filter, ih]
    by_cases h : x = y
    · simp [h]
    · simp [h]

theorem nodup_firstUse (l : List Bytes) : (firstUse l).Nodup := by
  induction l with
  | nil => simp [firstUse]
  | cons y ys ih =>
    simp only [firstUse, List.nodup_cons, List.mem_filter]
    refine ⟨by simp, ?_⟩
    exact List.Nodup.sublist List.filter_sublist ih

theorem length_firstUse_le (l : List Bytes) : (firstUse l).length ≤ l.length := by
  induction l with
  | nil => simp [firstUse]
  | cons y ys ih =>
    simp only [firstUse, List.length_cons]
    have := List.length_filter_le (fun z => z != y) (firstUse ys)
    omega

theorem foldl_intern_eq (l acc : List Bytes) :
    l.foldl intern acc = acc ++ (firstUse l).filter (fun y => !(acc.contains y)) := by
  induction l generalizing acc with
  | nil => simp [firstUse]
  | cons x xs ih =>
    simp only [List.foldl_cons, ih, firstUse, intern]
    by_cases h : x ∈ acc
    · simp only [h, ↓reduceIte, List.filter_cons, List.contains_eq_mem, decide_true, Bool.not_true,
        Bool.false_eq_true, List.filter_filter]
      congr 1
      apply List.filter_congr
      intro y _
      by_cases hy : y = x
      · subst hy; simp [h]
      · simp [hy]
    · simp only [h, ↓reduceIte, List.filter_cons, List.contains_eq_mem, decide_false, Bool.not_false,
        List.filter_filter, List.append_assoc, List.cons_append, List.nil_append]
      congr 2
      apply List.filter_congr
      intro y _
      by_cases hy : y = x
      · subst hy; simp
      · simp [hy]

theorem firstUse_eq_foldl (l : List Bytes) : firstUse l = l.foldl intern [] := by
  rw [foldl_intern_eq]; simp only [List.nil_append, List.contains_nil, Bool.not_false]
  exact (List.filter_eq_self.mpr (fun _ _ => rfl)).symm

theorem firstUse_snoc (l : List Bytes) (x : Bytes) : firstUse (l ++ [x]) = intern (firstUse l) x := by
  rw [firstUse_eq_foldl, List.foldl_append, ← firstUse_eq_foldl]; rfl

theorem firstUse_append_opt (l : List Bytes) (x : Option Bytes) :
    firstUse (l ++ x.toList) = internOpt (firstUse l) x := by
  cases x with
  | none => simp [internOpt]
  | some s => simpa [internOpt] using firstUse_snoc l s

theorem filterMap_snoc {α β} (f : α → Option β) (l : List α) (a : α) :
    (l ++ [a]).filterMap f = l.filterMap f ++ (f a).toList := by
  rw [List.filterMap_append]; cases h : f a <;> simp [h]

theorem internOpt_eq_or_snoc (l : List Bytes) (x : Option Bytes) :
    internOpt l x = l ∨ ∃ s, x = some s ∧ s ∉ l ∧ internOpt l x = l ++ [s] := by
  cases x with
  | none => left; rfl
  | some s =>
    by_cases h : s ∈ l
    · left; simp [internOpt, intern, h]
    · right; exact ⟨s, rfl, h, by simp [internOpt, intern, h]⟩

theorem mem_internOpt_self (l : List Bytes) (s : Bytes) : s ∈ internOpt l (some s) := by
  by_cases h : s ∈ l <;> simp [internOpt, intern, h]

/-! ### `idxOf` -/

theorem idxOf_snoc_mem {l : List Bytes} {s x : Bytes} (h : s ∈ l) : (l ++ [x]).idxOf s = l.idxOf s := by
  rw [List.idxOf_append]; simp [h]

theorem idxOf_snoc_self {l : List Bytes} {s : Bytes} (h : s ∉ l) : (l ++ [s]).idxOf s = l.length := by
  rw [List.idxOf_append]; simp [h]

theorem getElem?_idxOf {l : List Bytes} {s : Bytes} (h : s ∈ l) : l[l.idxOf s]? = some s := by
  have hlt := List.idxOf_lt_length_iff.mpr h
  rw [List.getElem?_eq_getElem hlt, List.getElem_idxOf hlt]

/-! ### the interning tables (`FxHashMap<Arc<str>, u32>` as a first-match association list) -/

/-- the table maps exactly the strings of the `Vec` to their index -/
def MapInv (map : List (Bytes × Nat)) (l : List Bytes) : Prop :=
  ∀ k, Bld.lookupKey k map = if k ∈ l then some (l.idxOf k) else none

theorem lookupKey_snoc (k s : Bytes) (c : Nat) (map : List (Bytes × Nat)) :
    Bld.lookupKey k (map ++ [(s, c)]) =
      match Bld.lookupKey k map with
      | some v => some v
      | none => if s = k then some c else none := by
  induction map with
  | nil => simp [Bld.lookupKey]
  | cons p ps ih =>
    obtain ⟨k', v⟩ := p
    simp only [List.cons_append, Bld.lookupKey]
    by_cases h : k' = k
    · simp [h]
    · simp only [h, ↓reduceIte]; exact ih

theorem MapInv.nil : MapInv [] [] := by intro k; simp [Bld.lookupKey]

theorem MapInv.snoc {map : List (Bytes × Nat)} {l : List Bytes} {s : Bytes} (h : MapInv map l)
    (hs : s ∉ l) : MapInv (map ++ [(s, l.length)]) (l ++ [s]) := by
  intro k
  rw [lookupKey_snoc, h k]
  by_cases hk : k ∈ l
  · simp [hk, idxOf_snoc_mem hk]
  · by_cases hks : s = k
    · subst hks; simp [hs, idxOf_snoc_self hs]
    · have : ¬ k = s := fun e => hks e.symm
      simp [hk, hks, this]

/-! ### prefix stripping: the builder's loop is the specification's `find?` -/

theorem stripOne_eq_strip (ps : List Bytes) (s : Bytes) : Bld.stripOne ps s = strip ps s := by
  induction ps with
  | nil => simp [Bld.stripOne, strip]
  | cons p ps ih =>
    simp only [Bld.stripOne, strip, List.map_cons, List.find?_cons, normPrefix]
    by_cases h : (if p.getLast? = some 47 then p else p ++ [47]).isPrefixOf s = true
    · simp [h]
    · simp only [h]
      simp only [Bool.false_eq_true, ↓reduceIte]
      rw [ih]; rfl

end SmVerif.RwProofs
