import SmVerif.Proofs.RoundTripMain
/-
Top level of the C01 round trip: from `encDec` to the lock-step induction.
-/
namespace SmVerif.RoundTrip
open SmVerif SmVerif.Vlq SmVerif.Mappings SmVerif.V3 SmVerif.Lookup

theorem mono_of_sorted : ∀ (ts : List Tok) (l : Nat), (∀ t ∈ ts, l ≤ t.dl) → SortedByPos ts → Mono l ts := by
  intro ts
  induction ts with
  | nil => intro _ _ _; trivial
  | cons t ts ih =>
    intro l hl hs
    unfold SortedByPos at hs
    rw [List.pairwise_cons] at hs
    refine ⟨hl t (by simp), ih t.dl ?_ hs.2⟩
    intro t' ht'
    have := hs.1 t' ht'
    simp [posLe, Tok.pos] at this
    rcases this with h | ⟨h, _⟩
    · have := of_decide_eq_true h; omega
    · have := of_decide_eq_true h; omega

theorem decodeLines_congr (nsrc nn : Nat) : ∀ (lines rl rl' : List (List Nat)) (dl : Nat) (st : DState)
    (acc : List Tok), (∀ j, rl.getD j [] = rl'.getD j []) →
    decodeLines nsrc nn lines rl dl st acc = decodeLines nsrc nn lines rl' dl st acc := by
  intro lines
  induction lines with
  | nil => intro rl rl' dl st acc _; simp [decodeLines]
  | cons line lines ih =>
    intro rl rl' dl st acc h
    have hh : rl.headD [] = rl'.headD [] := by
      have := h 0
      cases rl <;> cases rl' <;> simp_all
    have ht : ∀ j, rl.tail.getD j [] = rl'.tail.getD j [] := by
      intro j
      have := h (j + 1)
      cases rl <;> cases rl' <;> simp_all
    rw [decodeLines, decodeLines]
    simp only [hh]
    by_cases hl : line = []
    · simp only [hl, ↓reduceIte]; exact ih _ _ _ _ _ ht
    · simp only [hl, ↓reduceIte]
      cases decodeRmi (rl'.headD []) with
      | none => rfl
      | some bits =>
        simp only
        cases decodeSegs nsrc nn dl bits (splitOn COMMA line) 0 0 st acc with
        | error e => rfl
        | ok r =>
          obtain ⟨st', acc'⟩ := r
          simp only
          exact ih _ _ _ _ _ ht

theorem rmiEmpty_false : ∀ (ts : List Tok) (prev : Option Tok) (line : Nat),
    rmiEmpty ts prev line false = false := by
  intro ts
  induction ts with
  | nil => intro _ _; rfl
  | cons t ts ih =>
    intro prev line
    rw [rmiEmpty]
    split
    · simp [ih]
    · split
      · exact ih _ _
      · simp [ih]

theorem rmiTail_empty : ∀ (ts : List Tok) (prev : Option Tok) (line seg : Nat),
    rmiEmpty ts prev line true = true → ∃ n, rmiTail ts prev line [] false seg = List.replicate n SEMI := by
  intro ts
  induction ts with
  | nil => intro _ _ _ _; exact ⟨0, by simp [rmiTail, lineBits]⟩
  | cons t ts ih =>
    intro prev line seg h
    rw [rmiEmpty] at h
    rw [rmiTail]
    by_cases hl : t.dl ≠ line
    · simp only [hl, ne_eq, not_false_eq_true, ↓reduceIte] at h ⊢
      cases hr : t.rng
      · simp only [hr, Bool.false_eq_true, ↓reduceIte] at h ⊢
        obtain ⟨n, hn⟩ := ih (some t) t.dl 1 h
        refine ⟨t.dl - line + n, ?_⟩
        rw [hn]
        simp [lineBits]
      · simp [hr, rmiEmpty_false] at h
    · simp only [hl, ↓reduceIte] at h ⊢
      by_cases hp : prev = some t
      · simp only [hp, ↓reduceIte] at h ⊢
        exact ih _ _ _ h
      · simp only [hp, ↓reduceIte] at h ⊢
        cases hr : t.rng
        · simp only [hr, Bool.false_eq_true, ↓reduceIte] at h ⊢
          exact ih _ _ _ h
        · simp [hr, rmiEmpty_false] at h

theorem getD_all_nil (L : List (List Nat)) (h : ∀ x ∈ L, x = []) (j : Nat) : L.getD j [] = [] := by
  rw [List.getD_eq_getElem?_getD]
  cases hj : L[j]? with
  | none => rfl
  | some x => exact h x (List.mem_of_getElem? hj)

theorem splitOn_replicate_getD (n j : Nat) : (splitOn SEMI (List.replicate n SEMI)).getD j [] = [] := by
  have := splitOn_replicate SEMI n []
  rw [List.append_nil] at this
  rw [this]
  apply getD_all_nil
  intro x hx
  simp only [splitOn, List.mem_append, List.mem_replicate, List.mem_singleton] at hx
  rcases hx with ⟨_, h⟩ | h <;> exact h

/-- decoding against the full range text -/
theorem top_full (nsrc nn : Nat) (t : Tok) (ts : List Tok) (hwf : wfToks nsrc (t :: ts) = true)
    (hm : Mono 0 (t :: ts)) :
    decodeLines nsrc nn (splitOn SEMI (emit nn (t :: ts) none {}))
        (splitOn SEMI (rmiTail (t :: ts) none 0 [] false 0)) 0 {} [] =
      .ok (normTok nn t :: (dd t ts).map (normTok nn)) := by
  have hwt : wfTok nsrc t = true := by simp [wfToks] at hwf; exact hwf.1
  have hwts : wfToks nsrc ts = true := by simp [wfToks] at hwf ⊢; exact hwf.2
  have hmid := mid_all nsrc nn ts hwts
  obtain ⟨_, hm'⟩ := hm
  have hb0 : EBound {} := ⟨by simp [U32], by simp [U32], by simp [U32], by simp [U32], by simp [U32]⟩
  by_cases h0 : t.dl ≠ 0
  · have hb1 : EBound { ({} : EState) with line := t.dl, col := 0 } := hb0
    have := first_of_mid nsrc nn t ts hmid hwt { ({} : EState) with line := t.dl, col := 0 } hb1 rfl rfl hm' []
    have hd : dstOf { ({} : EState) with line := t.dl, col := 0 } = ({} : DState) := rfl
    rw [hd] at this
    rw [emit_newline nn t ts none {} h0, rmiTail_newline t ts none 0 [] false 0 h0]
    simp only [Nat.sub_zero, lineBits, Bool.false_eq_true, ↓reduceIte, List.nil_append]
    rw [splitOn_replicate, splitOn_replicate, decodeLines_skip]
    simp only [List.drop_left', List.length_replicate, Nat.zero_add]
    simpa using this
  · have h0' : t.dl = 0 := by omega
    have hr : rmiTail (t :: ts) none 0 [] false 0 = rmiAfterFirst t ts := by
      unfold rmiAfterFirst
      rw [rmiTail]
      simp [h0']
    have := first_of_mid nsrc nn t ts hmid hwt {} hb0 h0'.symm rfl hm' []
    have hd : dstOf ({} : EState) = ({} : DState) := rfl
    rw [hd] at this
    rw [h0'] at this
    rw [emit_first nn t ts {} h0', hr]
    simpa using this

theorem encDec_eq (nsrc nn : Nat) (ts : List Tok) (hwf : wfToks nsrc ts = true) (hs : SortedByPos ts) :
    encDec nsrc nn ts = .ok ((dedup ts).map (normTok nn)) := by
  have hm : Mono 0 ts := mono_of_sorted ts 0 (fun _ _ => Nat.zero_le _) hs
  have hb0 : EBound {} := ⟨by simp [U32], by simp [U32], by simp [U32], by simp [U32], by simp [U32]⟩
  unfold encDec serializeRangeMappings serializeMappings
  rw [serializeRmiLoop_eq ts none 0 [] false 0 true [] hm, serializeLoop_eq nsrc nn ts none {} [] hwf hb0 hm]
  simp only [List.nil_append]
  unfold decodeMappings
  cases ts with
  | nil => simp [emit, splitOn, decodeLines, dedup]
  | cons t ts =>
    rw [dedup_cons, List.map_cons]
    have hfull := top_full nsrc nn t ts hwf hm
    by_cases he : rmiEmpty (t :: ts) none 0 true = true
    · simp only [he, ↓reduceIte, Option.getD_none]
      rw [← hfull]
      apply decodeLines_congr
      intro j
      obtain ⟨n, hn⟩ := rmiTail_empty (t :: ts) none 0 0 he
      rw [hn, splitOn_replicate_getD]
      cases j <;> simp [splitOn]
    · simp only [he, Bool.false_eq_true, ↓reduceIte, Option.getD_some]
      exact hfull

end SmVerif.RoundTrip
