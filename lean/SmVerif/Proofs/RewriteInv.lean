import SmVerif.Proofs.RewriteLemmas
/-
C09 helper lemmas, part 2: what one `add_token` does to a builder whose interning tables are
consistent, and the loop invariant of `rewrite_with_mapping`.
-/
namespace SmVerif.RwProofs
open SmVerif SmVerif.RwSpec

/-! ### `add_source_with_id`, `add_name`, `add_token` as equations -/

def mapStep (map : List (Bytes × Nat)) (l : List Bytes) : Option Bytes → List (Bytes × Nat)
  | none => map
  | some s => if s ∈ l then map else map ++ [(s, l.length)]

def mappingStep (mp : List Nat) (l : List Bytes) (oid : Nat) : Option Bytes → List Nat
  | none => mp
  | some s => if s ∈ l then mp else mp ++ [oid]

/-- the id the builder hands out for a string, read off the final `Vec` -/
def idOf (l : List Bytes) : Option Bytes → Nat
  | none => NONE
  | some s => l.idxOf s

theorem addSourceWithId_eq (b : Bld) (s : Bytes) (oid : Nat) (h : MapInv b.sourceMap b.sources) :
    b.addSourceWithId s oid =
      ({ b with sourceMap := mapStep b.sourceMap b.sources (some s), sources := internOpt b.sources (some s),
                mapping := mappingStep b.mapping b.sources oid (some s) },
       idOf (internOpt b.sources (some s)) (some s)) := by
  unfold Bld.addSourceWithId
  rw [h s]
  by_cases hs : s ∈ b.sources
  · have hlt := List.idxOf_lt_length_iff.mpr hs
    have hne : ¬ List.idxOf s b.sources = b.sources.length := by omega
    simp [hs, hne, mapStep, mappingStep, internOpt, intern, idOf]
  · simp [hs, mapStep, mappingStep, internOpt, intern, idOf, idxOf_snoc_self hs]

theorem addName_eq (b : Bld) (n : Bytes) (h : MapInv b.nameMap b.names) :
    b.addName n =
      ({ b with nameMap := mapStep b.nameMap b.names (some n), names := internOpt b.names (some n) },
       idOf (internOpt b.names (some n)) (some n)) := by
  unfold Bld.addName
  rw [h n]
  by_cases hs : n ∈ b.names
  · have hlt := List.idxOf_lt_length_iff.mpr hs
    have hne : ¬ List.idxOf n b.names = b.names.length := by omega
    simp [hs, hne, mapStep, internOpt, intern, idOf]
  · simp [hs, mapStep, internOpt, intern, idOf, idxOf_snoc_self hs]

/-- the token the rewrite stores for `t`, ids read off the given `Vec`s -/
def newTok (m : SMap) (wn : Bool) (srcs names : List Bytes) (t : Tok) : Tok :=
  { dl := t.dl, dc := t.dc, sl := t.sl, sc := t.sc,
    src := idOf srcs (m.tokSource t),
    name := idOf names (if wn then m.tokName t else none),
    rng := t.rng }

theorem addToken_eq (b : Bld) (m : SMap) (t : Tok) (wn : Bool)
    (hS : MapInv b.sourceMap b.sources) (hN : MapInv b.nameMap b.names) :
    b.addToken m t wn =
      let s? := m.tokSource t
      let n? := if wn then m.tokName t else none
      let srcs := internOpt b.sources s?
      let names := internOpt b.names n?
      ({ file := b.file, nameMap := mapStep b.nameMap b.names n?, names := names,
         tokens := b.tokens ++ [newTok m wn srcs names t],
         sourceMap := mapStep b.sourceMap b.sources s?, root := b.root, sources := srcs,
         contents := b.contents, mapping := mappingStep b.mapping b.sources t.src s?,
         ignore := b.ignore, debugId := b.debugId },
       newTok m wn srcs names t) := by
  unfold Bld.addToken Bld.addWithId
  cases hs : m.tokSource t with
  | none =>
    cases hn : (if wn then m.tokName t else none) with
    | none => simp [newTok, hs, hn, mapStep, mappingStep, internOpt, idOf]
    | some n =>
      simp only []
      rw [addName_eq b n hN]
      simp [newTok, hs, hn, mapStep, mappingStep, internOpt, idOf]
  | some s =>
    simp only []
    rw [addSourceWithId_eq b s t.src hS]
    cases hn : (if wn then m.tokName t else none) with
    | none => simp [newTok, hs, hn, mapStep, mappingStep, internOpt, idOf]
    | some n =>
      simp only []
      rw [addName_eq _ n (by simpa using hN)]
      simp [newTok, hs, hn, mapStep, mappingStep, internOpt, idOf]


/-! ### pure list facts used by the invariant -/

theorem MapInv.step {map : List (Bytes × Nat)} {l : List Bytes} (h : MapInv map l) (x : Option Bytes) :
    MapInv (mapStep map l x) (internOpt l x) := by
  cases x with
  | none => exact h
  | some s =>
    by_cases hs : s ∈ l
    · simpa [mapStep, internOpt, intern, hs] using h
    · simpa [mapStep, internOpt, intern, hs] using h.snoc hs

theorem idOf_internOpt (l : List Bytes) (x y : Option Bytes) (h : ∀ s, x = some s → s ∈ l) :
    idOf (internOpt l y) x = idOf l x := by
  cases x with
  | none => rfl
  | some s =>
    rcases internOpt_eq_or_snoc l y with e | ⟨z, _, _, e⟩
    · rw [e]
    · rw [e]; exact idxOf_snoc_mem (h s rfl)

/-- the first source id used with name `s` -/
def firstId (m : SMap) (ts : List Tok) (s : Bytes) : Nat :=
  ((ts.find? fun t => m.tokSource t == some s).map (·.src)).getD NONE

theorem contentsIn_snoc (m : SMap) (ts : List Tok) (t : Tok) (s : Bytes) :
    contentsIn m (ts ++ [t]) s =
      (contentsIn m ts s).or (if m.tokSource t == some s then m.getSourceContents t.src else none) := by
  unfold contentsIn
  rw [List.filter_append, List.findSome?_append]
  by_cases h : (m.tokSource t == some s) = true
  · simp [h]
  · simp [h]

theorem contentsIn_none_of_unused (m : SMap) (ts : List Tok) (s : Bytes)
    (h : s ∉ ts.filterMap m.tokSource) : contentsIn m ts s = none := by
  unfold contentsIn
  have : (ts.filter fun t => m.tokSource t == some s) = [] := by
    rw [List.filter_eq_nil_iff]
    intro t ht hc
    apply h
    rw [List.mem_filterMap]
    exact ⟨t, ht, by simpa using hc⟩
  rw [this]; rfl

theorem firstId_snoc_used (m : SMap) (ts : List Tok) (t : Tok) (s : Bytes)
    (h : s ∈ ts.filterMap m.tokSource) : firstId m (ts ++ [t]) s = firstId m ts s := by
  unfold firstId
  rw [List.find?_append]
  rw [List.mem_filterMap] at h
  obtain ⟨t0, ht0, e⟩ := h
  have : ((ts.find? fun t => m.tokSource t == some s)).isSome := by
    rw [List.find?_isSome]; exact ⟨t0, ht0, by simp [e]⟩
  rcases hf : (ts.find? fun t => m.tokSource t == some s) with _ | x
  · simp [hf] at this
  · simp

theorem firstId_snoc_new (m : SMap) (ts : List Tok) (t : Tok) (s : Bytes)
    (h : s ∉ ts.filterMap m.tokSource) (ht : m.tokSource t = some s) : firstId m (ts ++ [t]) s = t.src := by
  unfold firstId
  rw [List.find?_append]
  have : (ts.find? fun t => m.tokSource t == some s) = none := by
    rw [List.find?_eq_none]
    intro t0 ht0 hc
    apply h
    rw [List.mem_filterMap]
    exact ⟨t0, ht0, by simpa using hc⟩
  rw [this]; simp [ht]

theorem map_set_idxOf {β} (l : List Bytes) (hnd : l.Nodup) (s : Bytes) (hs : s ∈ l) (g g' : Bytes → β)
    (hg : ∀ x ∈ l, x ≠ s → g' x = g x) : l.map g' = (l.map g).set (l.idxOf s) (g' s) := by
  apply List.ext_getElem?
  intro j
  rw [List.getElem?_set, List.getElem?_map, List.getElem?_map]
  have hlt := List.idxOf_lt_length_iff.mpr hs
  by_cases hj : l.idxOf s = j
  · subst hj
    simp [hlt]
  · simp only [hj, ↓reduceIte]
    rcases hx : l[j]? with _ | x
    · rfl
    · have hjl : j < l.length := by
        rcases Nat.lt_or_ge j l.length with h | h
        · exact h
        · rw [List.getElem?_eq_none h] at hx; cases hx
      have hxe : l[j] = x := by
        rw [List.getElem?_eq_getElem hjl] at hx; exact Option.some.inj hx
      have hne : x ≠ s := by
        intro e
        apply hj
        have := hnd.idxOf_getElem j hjl
        rw [hxe, e] at this; exact this
      simp [hg x (hxe ▸ List.getElem_mem hjl) hne]

theorem resize_set_snoc (c : List (Option Bytes)) (v : Option Bytes) :
    (SMap.resizeOpt c (c.length + 1)).set c.length v = c ++ [v] := by
  unfold SMap.resizeOpt
  have : ¬ c.length ≥ c.length + 1 := by omega
  simp [this]

end SmVerif.RwProofs
