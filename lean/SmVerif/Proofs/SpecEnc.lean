import SmVerif.Proofs.RoundTripTop
import SmVerif.Proofs.Decode
/-
The independent v3 reader (`V3.specDecode`) reads the encoder's output back as the de-duplicated,
normalised tokens: on the encoder's text no value leaves 63 bits and no running sum leaves u32, so the
reading is never `outside`; `Decode.sim_mappings` and `RoundTrip.encDec_eq` do the rest.
-/
namespace SmVerif.SpecEnc
open SmVerif SmVerif.Vlq SmVerif.Mappings SmVerif.V3 SmVerif.Lookup SmVerif.RoundTrip SmVerif.Decode

/-! ### digit groups of an encoded segment -/

theorem groupValue_encDigits (n : Nat) : groupValue (encDigits n) = n := by
  induction n using Nat.strongRecOn with
  | _ n ih =>
    rw [encDigits]
    split
    · simp only [groupValue]; omega
    · simp only [groupValue]
      rw [ih (n / 32) (by omega)]
      omega

theorem splitGroups_encDigits (n : Nat) : ∀ (rest cur : List Nat),
    splitGroups (encDigits n ++ rest) cur =
      ((cur.reverse ++ encDigits n) :: (splitGroups rest []).1, (splitGroups rest []).2) := by
  induction n using Nat.strongRecOn with
  | _ n ih =>
    intro rest cur
    rw [encDigits]
    split
    · rename_i h
      have h0 : n / 32 = 0 := by omega
      rw [List.singleton_append, splitGroups]
      simp only [h0, ↓reduceIte, List.reverse_cons]
    · rename_i h
      have h1 : ¬ ((n % 32 + 32) / 32 = 0) := by omega
      rw [List.cons_append, splitGroups]
      simp only [h1, ↓reduceIte]
      rw [ih (n / 32) (by omega)]
      simp

theorem splitGroups_segDigits : ∀ xs : List Int,
    splitGroups (segDigits xs) [] = (xs.map (fun x => encDigits (zig x)), []) := by
  intro xs
  induction xs with
  | nil => rfl
  | cons x xs ih =>
    have : segDigits (x :: xs) = encDigits (zig x) ++ segDigits xs := by simp [segDigits]
    rw [this, splitGroups_encDigits, ih]
    simp

theorem segFits_text (xs : List Int)
    (hb : ∀ x ∈ xs, -4611686018427387904 < x ∧ x < 4611686018427387904) :
    segFits ((segDigits xs).map b64Char) = true := by
  unfold segFits
  rw [toDigits_map_b64Char _ (segDigits_lt xs)]
  simp only [splitGroups_segDigits, List.all_eq_true, List.mem_map, Bool.or_eq_true, decide_eq_true_eq]
  rintro g ⟨x, hx, rfl⟩
  right
  rw [groupValue_encDigits]
  exact zig_lt x (hb x hx).1 (hb x hx).2

theorem fields_text (xs : List Int) (hne : xs ≠ [])
    (hb : ∀ x ∈ xs, -4611686018427387904 < x ∧ x < 4611686018427387904) :
    fields ((segDigits xs).map b64Char) = some xs := by
  have hd := toDigits_map_b64Char _ (segDigits_lt xs)
  have h := C11.c11_agrees_standard _ _ hd (segFits_hfit hd (segFits_text xs hb))
  rw [parseVlq_segDigits xs hne hb] at h
  unfold fields
  rw [hd]
  simp only
  rw [← h]

theorem segFits_tokText (nsrc nn : Nat) (t : Tok) (st : EState) (hwf : wfTok nsrc t = true) (hb : EBound st) :
    segFits (tokText nn t st) = true :=
  segFits_text _ (tokDiffs_bound nsrc nn t st hwf hb)

theorem fields_tokText (nsrc nn : Nat) (t : Tok) (st : EState) (hwf : wfTok nsrc t = true) (hb : EBound st) :
    fields (tokText nn t st) = some (tokDiffs nn t st) :=
  fields_text _ (tokDiffs_ne_nil nn t st) (tokDiffs_bound nsrc nn t st hwf hb)

/-! ### located segments of the encoder's text -/

/-- the located segments from the middle of line `l` on: `txt` is the text from here on -/
def midSegs (txt : List Nat) (l i : Nat) : List Seg :=
  locSegs (splitOn COMMA ((splitOn SEMI txt).headD [])).tail i l ++ locLines (splitOn SEMI txt).tail (l + 1)

theorem midSegs_nil (l i : Nat) : midSegs [] l i = [] := by
  simp [midSegs, splitOn, locSegs_nil, locLines_nil]

theorem midSegs_tok (nn : Nat) (t : Tok) (st : EState) (E : List Nat) (l i : Nat) (hE : SepStart E) :
    midSegs (COMMA :: (tokText nn t st ++ E)) l i = ⟨l, i, tokText nn t st⟩ :: midSegs E l (i + 1) := by
  have hns : SEMI ∉ COMMA :: tokText nn t st := by
    simp only [List.mem_cons, not_or]
    exact ⟨by decide, tokText_nosemi nn t st⟩
  unfold midSegs
  rw [← List.cons_append, splitOn_append SEMI _ _ hns]
  simp only [List.headD_cons, List.tail_cons, List.cons_append]
  rw [splitOn_sep_cons, List.tail_cons, splitOn_append COMMA _ _ (tokText_nocomma nn t st),
    sepStart_head E hE, List.append_nil, locSegs_cons, if_neg (tokText_ne_nil nn t st)]
  rfl

theorem locSegs_split_nil (i l : Nat) : locSegs (splitOn COMMA []) i l = [] := by
  simp [splitOn, locSegs_cons, locSegs_nil]

theorem locLines_skip : ∀ (k : Nat) (L : List (List Nat)) (dl : Nat),
    locLines (List.replicate k [] ++ L) dl = locLines L (dl + k) := by
  intro k
  induction k with
  | zero => intro L dl; simp
  | succ k ih =>
    intro L dl
    rw [List.replicate_succ, List.cons_append, locLines_cons, locSegs_split_nil, List.nil_append, ih]
    congr 1
    omega

theorem midSegs_newline (l i k : Nat) (X : List Nat) :
    midSegs (SEMI :: (List.replicate k SEMI ++ X)) l i = locLines (splitOn SEMI X) (l + 1 + k) := by
  unfold midSegs
  rw [splitOn_sep_cons, splitOn_replicate]
  simp only [List.headD_cons, List.tail_cons]
  have : (splitOn COMMA []).tail = [] := by simp [splitOn]
  rw [this, locSegs_nil, List.nil_append, locLines_skip]

theorem locLines_first (nn : Nat) (t : Tok) (st : EState) (E : List Nat) (l : Nat) (hE : SepStart E) :
    locLines (splitOn SEMI (tokText nn t st ++ E)) l = ⟨l, 0, tokText nn t st⟩ :: midSegs E l 1 := by
  rw [splitOn_append SEMI _ _ (tokText_nosemi nn t st), locLines_cons,
    splitOn_append COMMA _ _ (tokText_nocomma nn t st), sepStart_head E hE, List.append_nil,
    locSegs_cons, if_neg (tokText_ne_nil nn t st)]
  rfl

/-! ### one step of the reader over the segment written for a token -/

/-- the reader's running sums equal the encoder's state -/
def CoupS (a : Acc) (st : EState) : Prop :=
  a.src = (st.src : Int) ∧ a.sl = (st.sl : Int) ∧ a.sc = (st.sc : Int) ∧ a.name = (st.name : Int)

theorem inU32_nat (n : Nat) (h : n < U32) : inU32 (n : Int) = true := by
  unfold U32 at h
  simp only [inU32, Bool.and_eq_true, decide_eq_true_eq]
  omega

theorem add_sub_nat (x : Int) (a b : Nat) (h : x = (a : Int)) : x + ((b : Int) - (a : Int)) = (b : Int) := by
  omega

/-- a segment list on which the reader, started in `a`, neither leaves u32 nor meets a value beyond
63 bits nor faults -/
def Reads (nsrc nn : Nat) (rb : Nat → Nat → Bool) (L : List Seg) (a : Acc) (out : List Tok) : Prop :=
  (∀ sg ∈ L, segFits sg.bytes = true) ∧ ∃ out', accumulate nsrc nn rb (tag L) a out false = .toks out'

theorem reads_nil (nsrc nn : Nat) (rb : Nat → Nat → Bool) (a : Acc) (out : List Tok) :
    Reads nsrc nn rb [] a out :=
  ⟨fun _ h => by simp at h, out.reverse, by rw [tag_nil, accumulate]; rfl⟩

theorem reads_tok (nsrc nn : Nat) (rb : Nat → Nat → Bool) (t : Tok) (est : EState) (i : Nat)
    (rest : List Seg) (a : Acc) (out : List Tok)
    (hwf : wfTok nsrc t = true) (hb : EBound est) (hc : CoupS a est)
    (hcol : (if t.dl = a.line then a.col else 0) = (est.col : Int))
    (h : ∀ a' tk, a'.line = t.dl → a'.col = (t.dc : Int) → CoupS a' (tokState nn t est) →
      Reads nsrc nn rb rest a' (tk :: out)) :
    Reads nsrc nn rb (⟨t.dl, i, tokText nn t est⟩ :: rest) a out := by
  have hfit := segFits_tokText nsrc nn t est hwf hb
  have hfl := fields_tokText nsrc nn t est hwf hb
  obtain ⟨hsrc, hsl, hsc, hname⟩ := hc
  have hwf' := (wfTok_iff nsrc t).mp hwf
  obtain ⟨_, h1, h2, h3, h4, h5, h6⟩ := hwf'
  have hcolv : (if t.dl = a.line then a.col else 0) + ((t.dc : Int) - (est.col : Int)) = (t.dc : Int) :=
    add_sub_nat _ _ _ hcol
  have hslv : a.sl + ((t.sl : Int) - (est.sl : Int)) = (t.sl : Int) := add_sub_nat _ _ _ hsl
  have hscv : a.sc + ((t.sc : Int) - (est.sc : Int)) = (t.sc : Int) := add_sub_nat _ _ _ hsc
  have hsrcv : a.src + ((t.src : Int) - (est.src : Int)) = (t.src : Int) := add_sub_nat _ _ _ hsrc
  have hnamev : a.name + ((t.name : Int) - (est.name : Int)) = (t.name : Int) := add_sub_nat _ _ _ hname
  have i1 := inU32_nat _ h1
  have i2 := inU32_nat _ h2
  have i3 := inU32_nat _ h3
  refine ⟨?_, ?_⟩
  · intro sg hsg
    rcases List.mem_cons.mp hsg with rfl | hsg
    · exact hfit
    · exact (h { line := t.dl, col := t.dc, src := (tokState nn t est).src, sl := (tokState nn t est).sl,
                 sc := (tokState nn t est).sc, name := (tokState nn t est).name } default rfl rfl
               ⟨rfl, rfl, rfl, rfl⟩).1 sg hsg
  · rw [tag_cons]
    simp only [hfl]
    unfold tokDiffs tokState at *
    by_cases hs : t.src = NONE
    · simp only [hs, ↓reduceIte] at h ⊢
      rw [accumulate.eq_3]
      simp only [hcolv, i1, Bool.not_true, Bool.or_false]
      refine (h _ _ ?_ ?_ ?_).2
      · rfl
      · rfl
      · exact ⟨hsrc, hsl, hsc, hname⟩
    · have hlt : t.src < nsrc := by
        rcases h6 with h6 | h6
        · exact absurd h6 hs
        · exact h6
      by_cases hn : t.name ≠ NONE ∧ t.name < nn
      · simp only [hs, hn, ↓reduceIte, ne_eq, not_false_eq_true, and_self] at h ⊢
        have hc1 : ¬ (a.src + ((t.src : Int) - (est.src : Int)) < 0 ∨
            a.src + ((t.src : Int) - (est.src : Int)) ≥ (nsrc : Int)) := by rw [hsrcv]; omega
        have hc2 : ¬ (a.name + ((t.name : Int) - (est.name : Int)) < 0 ∨
            a.name + ((t.name : Int) - (est.name : Int)) ≥ (nn : Int)) := by rw [hnamev]; omega
        rw [accumulate_five _ _ _ _ _ _ _ _ _ _ _ _ _ hc1 hc2]
        simp only [hcolv, hslv, hscv, hsrcv, hnamev, i1, i2, i3, Bool.not_true, Bool.or_false]
        refine (h _ _ ?_ ?_ ?_).2
        · rfl
        · rfl
        · exact ⟨rfl, rfl, rfl, rfl⟩
      · simp only [hs, hn, ↓reduceIte] at h ⊢
        have hc1 : ¬ (a.src + ((t.src : Int) - (est.src : Int)) < 0 ∨
            a.src + ((t.src : Int) - (est.src : Int)) ≥ (nsrc : Int)) := by rw [hsrcv]; omega
        rw [accumulate_four _ _ _ _ _ _ _ _ _ _ _ _ hc1]
        simp only [hcolv, hslv, hscv, hsrcv, i1, i2, i3, Bool.not_true, Bool.or_false]
        refine (h _ _ ?_ ?_ ?_).2
        · rfl
        · rfl
        · exact ⟨rfl, rfl, rfl, hname⟩

/-! ### the induction over the token list -/

def MidStmt (nsrc nn : Nat) (rb : Nat → Nat → Bool) (ts : List Tok) : Prop :=
  ∀ (l : Nat) (p : Tok) (est : EState) (seg : Nat) (a : Acc) (out : List Tok),
    EBound est → est.line = l → Mono l ts → p.dl = l → CoupS a est → a.line = l → a.col = (est.col : Int) →
    Reads nsrc nn rb (midSegs (emit nn ts (some p) est) l seg) a out

theorem first_of_mid (nsrc nn : Nat) (rb : Nat → Nat → Bool) (t : Tok) (ts : List Tok)
    (hmid : MidStmt nsrc nn rb ts) (hwt : wfTok nsrc t = true) (st : EState) (hb : EBound st)
    (hline : st.line = t.dl) (hcol : st.col = 0) (hm : Mono t.dl ts) (a : Acc) (out : List Tok)
    (hc : CoupS a st) (hcol0 : (if t.dl = a.line then a.col else 0) = 0) :
    Reads nsrc nn rb
      (locLines (splitOn SEMI (tokText nn t st ++ emit nn ts (some t) (tokState nn t st))) t.dl) a out := by
  have hline' : (tokState nn t st).line = t.dl := by rw [tokState_line, hline]
  have hE : SepStart (emit nn ts (some t) (tokState nn t st)) :=
    emit_sepStart nn ts t _ (by rw [hline']; exact hm)
  have hb' := tokState_bound nsrc nn t st hwt hb
  rw [locLines_first nn t st _ _ hE]
  refine reads_tok nsrc nn rb t st 0 _ a out hwt hb hc (by rw [hcol0, hcol]; rfl) ?_
  intro a' tk hl' hc' hcs'
  exact hmid t.dl t (tokState nn t st) 1 a' (tk :: out) hb' hline' hm rfl hcs' hl'
    (by rw [hc', tokState_col])

theorem mid_all (nsrc nn : Nat) (rb : Nat → Nat → Bool) :
    ∀ ts : List Tok, wfToks nsrc ts = true → MidStmt nsrc nn rb ts := by
  intro ts
  induction ts with
  | nil =>
    intro _ l p est seg a out _ _ _ _ _ _ _
    rw [emit, midSegs_nil]
    exact reads_nil nsrc nn rb a out
  | cons t ts ih =>
    intro hwf l p est seg a out hb hline hm hp hc hal hac
    have hwt : wfTok nsrc t = true := by simp [wfToks] at hwf; exact hwf.1
    have hwts : wfToks nsrc ts = true := by simp [wfToks] at hwf ⊢; exact hwf.2
    have ih := ih hwts
    obtain ⟨hle, hm'⟩ := hm
    by_cases hl : t.dl ≠ l
    · obtain ⟨k, hk⟩ : ∃ k, t.dl - l = k + 1 := ⟨t.dl - l - 1, by omega⟩
      have hl2 : t.dl ≠ est.line := by rw [hline]; exact hl
      have hk2 : t.dl - est.line = k + 1 := by rw [hline]; exact hk
      rw [emit_newline _ _ _ _ _ hl2, hk2, List.replicate_succ, List.cons_append, midSegs_newline]
      have hlk : l + 1 + k = t.dl := by omega
      rw [hlk]
      have hb0 : EBound { est with line := t.dl, col := 0 } := by
        obtain ⟨_, b2, b3, b4, b5⟩ := hb
        exact ⟨by simp [U32], b2, b3, b4, b5⟩
      have hne : ¬ t.dl = a.line := by rw [hal]; exact hl
      exact first_of_mid nsrc nn rb t ts ih hwt { est with line := t.dl, col := 0 } hb0 rfl rfl hm' a out
        hc (by rw [if_neg hne])
    · have hl' : t.dl = l := by omega
      subst hl'
      by_cases hpt : p = t
      · subst hpt
        rw [emit_dup _ _ _ _ hline.symm]
        exact ih p.dl p est seg a out hb hline hm' rfl hc hal hac
      · rw [emit_next _ _ _ _ _ hline.symm hpt]
        have hline' : (tokState nn t est).line = t.dl := by rw [tokState_line, hline]
        have hE : SepStart (emit nn ts (some t) (tokState nn t est)) :=
          emit_sepStart nn ts t _ (by rw [hline']; exact hm')
        have hb' := tokState_bound nsrc nn t est hwt hb
        rw [midSegs_tok nn t est _ _ _ hE]
        refine reads_tok nsrc nn rb t est seg _ a out hwt hb hc (by rw [if_pos hal.symm]; exact hac) ?_
        intro a' tk hl' hc' hcs'
        exact ih t.dl t (tokState nn t est) (seg + 1) a' (tk :: out) hb' hline' hm' rfl hcs' hl'
          (by rw [hc', tokState_col])

/-- the independent reader over the whole text written for `ts`, with any range bits -/
theorem top_reads (nsrc nn : Nat) (rb : Nat → Nat → Bool) (ts : List Tok) (hwf : wfToks nsrc ts = true)
    (hm : Mono 0 ts) : Reads nsrc nn rb (segments (emit nn ts none {})) {} [] := by
  rw [segments_eq]
  cases ts with
  | nil =>
    have : locLines (splitOn SEMI (emit nn [] none {})) 0 = [] := by
      rw [emit, show splitOn SEMI [] = [[]] from rfl, locLines_cons, locSegs_split_nil, locLines_nil]
      rfl
    rw [this]
    exact reads_nil nsrc nn rb {} []
  | cons t ts =>
    have hwt : wfTok nsrc t = true := by simp [wfToks] at hwf; exact hwf.1
    have hwts : wfToks nsrc ts = true := by simp [wfToks] at hwf ⊢; exact hwf.2
    have hmid := mid_all nsrc nn rb ts hwts
    obtain ⟨_, hm'⟩ := hm
    have hb0 : EBound {} := ⟨by simp [U32], by simp [U32], by simp [U32], by simp [U32], by simp [U32]⟩
    have hc0 : CoupS {} {} := ⟨rfl, rfl, rfl, rfl⟩
    by_cases h0 : t.dl ≠ 0
    · have hb1 : EBound { ({} : EState) with line := t.dl, col := 0 } := hb0
      have := first_of_mid nsrc nn rb t ts hmid hwt { ({} : EState) with line := t.dl, col := 0 } hb1 rfl rfl
        hm' {} [] hc0 (by split <;> rfl)
      rw [emit_newline nn t ts none {} h0]
      simp only [Nat.sub_zero]
      rw [splitOn_replicate, locLines_skip, Nat.zero_add]
      exact this
    · have h0' : t.dl = 0 := by omega
      have := first_of_mid nsrc nn rb t ts hmid hwt {} hb0 h0'.symm rfl hm' {} [] hc0 (by split <;> rfl)
      rw [h0'] at this
      rw [emit_first nn t ts {} h0']
      exact this

/-! ### the theorem -/

/-- The independent v3 reader reads the encoder's output back as the de-duplicated, normalised tokens. -/
theorem spec_reads_encoder (nsrc nn : Nat) (ts : List Tok)
    (hwf : wfToks nsrc ts = true) (hs : SortedByPos ts) :
    ∃ m r, serializeMappings ts nn = .ok m ∧ serializeRangeMappings ts = .ok r ∧
      specDecode m (r.getD []) nsrc nn = .toks ((dedup ts).map (normTok nn)) := by
  have hm : Mono 0 ts := mono_of_sorted ts 0 (fun _ _ => Nat.zero_le _) hs
  have hb0 : EBound {} := ⟨by simp [U32], by simp [U32], by simp [U32], by simp [U32], by simp [U32]⟩
  have h1 : serializeMappings ts nn = .ok (emit nn ts none {}) := by
    unfold serializeMappings
    rw [serializeLoop_eq nsrc nn ts none {} [] hwf hb0 hm, List.nil_append]
  have h2 := serializeRmiLoop_eq ts none 0 [] false 0 true [] hm
  refine ⟨_, _, h1, h2, ?_⟩
  generalize (if rmiEmpty ts none 0 true = true then none
    else some ([] ++ rmiTail ts none 0 [] false 0) : Option (List Nat)) = r at h2 ⊢
  have hed := encDec_eq nsrc nn ts hwf hs
  unfold encDec at hed
  rw [h1] at hed
  have h2' : serializeRangeMappings ts = .ok r := h2
  rw [h2'] at hed
  simp only at hed
  obtain ⟨hfit, out', hacc⟩ := top_reads nsrc nn (rangeBit (r.getD [])) ts hwf hm
  have hany : (segments (emit nn ts none {})).any (fun s => !segFits s.bytes) = false := by
    rw [List.any_eq_false]
    intro sg hsg
    simp [hfit sg hsg]
  have hspec : specDecode (emit nn ts none {}) (r.getD []) nsrc nn =
      accumulate nsrc nn (rangeBit (r.getD [])) (tag (segments (emit nn ts none {}))) {} [] false := by
    unfold specDecode
    simp only [hany, Bool.false_eq_true, ↓reduceIte]
    rfl
  rw [hspec]
  rcases sim_mappings (emit nn ts none {}) (r.getD []) nsrc nn hfit with
    ⟨⟨e, he⟩, _⟩ | ⟨ts', hd, ho | ht⟩
  · rw [he] at hed; cases hed
  · rw [hacc] at ho; cases ho
  · rw [hd] at hed
    cases hed
    exact ht

-- hypotheses of `spec_reads_encoder`: a list with a duplicate, a token without source, an unresolved name
-- and a line jump meets them
example : wfToks 2 [⟨0, 0, 0, 0, 0, 0, true⟩, ⟨0, 0, 0, 0, 0, 0, true⟩, ⟨0, 5, 3, 2, 1, NONE, false⟩,
    ⟨2, 1, 0, 0, NONE, 7, false⟩, ⟨2, 9, 1, 4, 0, 5, true⟩] = true := by decide
example : SortedByPos [⟨0, 0, 0, 0, 0, 0, true⟩, ⟨0, 0, 0, 0, 0, 0, true⟩, ⟨0, 5, 3, 2, 1, NONE, false⟩,
    ⟨2, 1, 0, 0, NONE, 7, false⟩, ⟨2, 9, 1, 4, 0, 5, true⟩] := by
  simp [SortedByPos, posLe, Tok.pos]

end SmVerif.SpecEnc
