import SmVerif.Proofs.RoundTripEnc
/-
Lock-step run of the decoder over the text the serialisers produce.
-/
namespace SmVerif.RoundTrip
open SmVerif SmVerif.Vlq SmVerif.Mappings SmVerif.V3

/-! ### equations of the front-recursive serialisers -/

theorem emit_newline (nn : Nat) (t : Tok) (ts : List Tok) (prev : Option Tok) (st : EState)
    (h : t.dl ≠ st.line) :
    emit nn (t :: ts) prev st = List.replicate (t.dl - st.line) SEMI ++
        (tokText nn t { st with line := t.dl, col := 0 } ++
          emit nn ts (some t) (tokState nn t { st with line := t.dl, col := 0 })) := by
  rw [emit.eq_def]; simp only [h, ne_eq, not_false_eq_true, ↓reduceIte]

theorem emit_first (nn : Nat) (t : Tok) (ts : List Tok) (st : EState) (h : t.dl = st.line) :
    emit nn (t :: ts) none st = tokText nn t st ++ emit nn ts (some t) (tokState nn t st) := by
  rw [emit.eq_def]; simp only [h, ne_eq, not_true_eq_false, ↓reduceIte]

theorem emit_dup (nn : Nat) (t : Tok) (ts : List Tok) (st : EState) (h : t.dl = st.line) :
    emit nn (t :: ts) (some t) st = emit nn ts (some t) st := by
  rw [emit.eq_def]; simp only [h, ne_eq, not_true_eq_false, ↓reduceIte]

theorem emit_next (nn : Nat) (t p : Tok) (ts : List Tok) (st : EState) (h : t.dl = st.line) (hp : p ≠ t) :
    emit nn (t :: ts) (some p) st = COMMA :: (tokText nn t st ++ emit nn ts (some t) (tokState nn t st)) := by
  rw [emit.eq_def]; simp only [h, hp, ne_eq, not_true_eq_false, ↓reduceIte]

/-- what follows the first token of a line in the range text -/
def rmiAfterFirst (t : Tok) (ts : List Tok) : List Nat :=
  if t.rng then rmiTail ts (some t) t.dl (setBit [] 0) true 1 else rmiTail ts (some t) t.dl [] false 1

theorem rmiTail_newline (t : Tok) (ts : List Tok) (prev : Option Tok) (line : Nat) (bits : List Bool)
    (had : Bool) (seg : Nat) (h : t.dl ≠ line) :
    rmiTail (t :: ts) prev line bits had seg =
      lineBits bits had ++ (List.replicate (t.dl - line) SEMI ++ rmiAfterFirst t ts) := by
  rw [rmiTail]; simp only [h, ne_eq, not_false_eq_true, ↓reduceIte, rmiAfterFirst]

theorem rmiTail_dup (t : Tok) (ts : List Tok) (bits : List Bool) (had : Bool) (seg : Nat) :
    rmiTail (t :: ts) (some t) t.dl bits had seg = rmiTail ts (some t) t.dl bits had seg := by
  rw [rmiTail]; simp only [ne_eq, not_true_eq_false, ↓reduceIte]

theorem rmiTail_next (t : Tok) (ts : List Tok) (prev : Option Tok) (bits : List Bool) (had : Bool) (seg : Nat)
    (hp : prev ≠ some t) :
    rmiTail (t :: ts) prev t.dl bits had seg =
      if t.rng then rmiTail ts (some t) t.dl (setBit bits seg) true (seg + 1)
      else rmiTail ts (some t) t.dl bits had (seg + 1) := by
  rw [rmiTail]; simp only [ne_eq, not_true_eq_false, hp, ↓reduceIte]

/-! ### bit vectors -/

theorem setBit_getD (bits : List Bool) (i j : Nat) :
    (setBit bits i).getD j false = if j = i then true else bits.getD j false := by
  unfold setBit
  simp only [List.getD_eq_getElem?_getD, List.getElem?_set]
  by_cases h : i = j
  · subst h
    have : i < bits.length + (i + 1 - bits.length) := by omega
    simp [this]
  · have h' : ¬ j = i := fun e => h e.symm
    simp only [h, h', ↓reduceIte]
    have := getD_append_replicate_false bits (i + 1 - bits.length) j
    simpa only [List.getD_eq_getElem?_getD] using this

theorem rmiChar_ne_semi (v : Nat) : rmiChar v ≠ SEMI := by
  unfold rmiChar SEMI
  split
  · omega
  · split
    · omega
    · split
      · omega
      · split <;> omega

theorem lineBits_nosemi (bits : List Bool) (had : Bool) : SEMI ∉ lineBits bits had := by
  unfold lineBits
  split
  · unfold encodeRmi
    simp only [List.mem_map, not_exists, not_and]
    intro c _ h
    exact rmiChar_ne_semi _ h
  · simp

theorem lineBits_decode (bits : List Bool) (had : Bool)
    (h : had = false → ∀ j, bits.getD j false = false) :
    ∃ back, decodeRmi (lineBits bits had) = some back ∧ ∀ j, back.getD j false = bits.getD j false := by
  unfold lineBits
  cases had with
  | true => simpa using decodeRmi_encodeRmi bits
  | false =>
    refine ⟨[], by simp [decodeRmi], fun j => ?_⟩
    rw [h rfl j]; simp

theorem Mono_weaken : ∀ (ts : List Tok) (l l' : Nat), l' ≤ l → Mono l ts → Mono l' ts := by
  intro ts l l' hl hm
  cases ts with
  | nil => trivial
  | cons t ts => exact ⟨Nat.le_trans hl hm.1, hm.2⟩

/-- the range text of the current line decodes, and bits already set stay as they are -/
theorem rmiTail_head : ∀ (ts : List Tok) (prev : Option Tok) (line : Nat) (bits : List Bool)
    (had : Bool) (seg : Nat), Mono line ts → (had = false → ∀ j, bits.getD j false = false) →
    ∃ back, decodeRmi ((splitOn SEMI (rmiTail ts prev line bits had seg)).headD []) = some back ∧
      ∀ j, j < seg → back.getD j false = bits.getD j false := by
  intro ts
  induction ts with
  | nil =>
    intro prev line bits had seg _ hinv
    obtain ⟨back, hb, hg⟩ := lineBits_decode bits had hinv
    refine ⟨back, ?_, fun j _ => hg j⟩
    rw [rmiTail, splitOn_nosep _ _ (lineBits_nosemi bits had)]
    exact hb
  | cons t ts ih =>
    intro prev line bits had seg hm hinv
    obtain ⟨hle, hm'⟩ := hm
    by_cases hl : t.dl ≠ line
    · obtain ⟨back, hb, hg⟩ := lineBits_decode bits had hinv
      refine ⟨back, ?_, fun j _ => hg j⟩
      obtain ⟨k, hk⟩ : ∃ k, t.dl - line = k + 1 := ⟨t.dl - line - 1, by omega⟩
      rw [rmiTail_newline _ _ _ _ _ _ _ hl, hk, List.replicate_succ, List.cons_append,
        splitOn_append _ _ _ (lineBits_nosemi bits had), splitOn_sep_cons]
      simpa using hb
    · have hl' : line = t.dl := by omega
      subst hl'
      by_cases hp : prev = some t
      · subst hp
        rw [rmiTail_dup]
        exact ih _ _ _ _ _ hm' hinv
      · rw [rmiTail_next _ _ _ _ _ _ hp]
        cases hr : t.rng
        · simp only [Bool.false_eq_true, ↓reduceIte]
          obtain ⟨back, hb, hg⟩ := ih (some t) t.dl bits had (seg + 1) hm' hinv
          exact ⟨back, hb, fun j hj => hg j (by omega)⟩
        · simp only [↓reduceIte]
          obtain ⟨back, hb, hg⟩ := ih (some t) t.dl (setBit bits seg) true (seg + 1) hm' (by simp)
          refine ⟨back, hb, fun j hj => ?_⟩
          rw [hg j (by omega), setBit_getD]
          simp [show j ≠ seg by omega]

end SmVerif.RoundTrip
