import SmVerif.Proofs.RewriteInv
/-
C09 helper lemmas, part 3: the loop of `rewrite_with_mapping` keeps the builder equal to a closed
form of the tokens processed so far.
-/
namespace SmVerif.RwProofs
open SmVerif SmVerif.RwSpec

/-- the loop body -/
def stepRes (m : SMap) (o : RewriteOpts) (t : Tok) (b : Bld) : Res Bld :=
  let r := b.addToken m t o.withNames
  if r.2.src ≠ NONE ∧ o.withContents ∧ !r.1.hasSourceContents r.2.src then
    r.1.setSourceContents r.2.src (m.getSourceContents t.src)
  else .ok r.1

theorem rewriteLoop_cons (m : SMap) (o : RewriteOpts) (t : Tok) (ts : List Tok) (b : Bld) :
    SMap.rewriteLoop m o (t :: ts) b =
      match stepRes m o t b with
      | .error e => .error e
      | .ok b' => SMap.rewriteLoop m o ts b' := by
  rcases h : b.addToken m t o.withNames with ⟨b1, raw⟩
  simp only [SMap.rewriteLoop, stepRes, h]
  split
  · rfl
  · rfl

/-- names as the rewrite sees them -/
def nameOf (m : SMap) (o : RewriteOpts) (t : Tok) : Option Bytes := if o.withNames then m.tokName t else none

structure Inv (m : SMap) (o : RewriteOpts) (done : List Tok) (b : Bld) : Prop where
  srcs : b.sources = firstUse (done.filterMap m.tokSource)
  srcMap : MapInv b.sourceMap b.sources
  names : b.names = firstUse (done.filterMap (nameOf m o))
  nameMap : MapInv b.nameMap b.names
  toks : b.tokens = done.map (newTok m o.withNames b.sources b.names)
  contents : b.contents = if o.withContents then b.sources.map (contentsIn m done) else []
  mapping : b.mapping = b.sources.map (firstId m done)
  file : b.file = m.file
  debugId : b.debugId = m.debugId
  root : b.root = none
  ignore : b.ignore = []

theorem Inv.init (m : SMap) (o : RewriteOpts) : Inv m o [] { Bld.new m.file with debugId := m.debugId } := by
  constructor <;> simp [Bld.new, firstUse, MapInv.nil]

theorem mem_srcs_iff {m : SMap} {o : RewriteOpts} {done : List Tok} {b : Bld} (h : Inv m o done b) (s : Bytes) :
    s ∈ b.sources ↔ s ∈ done.filterMap m.tokSource := by
  rw [h.srcs, mem_firstUse]

theorem Inv.srcs_len {m : SMap} {o : RewriteOpts} {done : List Tok} {b : Bld} (h : Inv m o done b) :
    b.sources.length ≤ done.length := by
  rw [h.srcs]
  exact Nat.le_trans (length_firstUse_le _) (List.length_filterMap_le _ _)

theorem Inv.names_len {m : SMap} {o : RewriteOpts} {done : List Tok} {b : Bld} (h : Inv m o done b) :
    b.names.length ≤ done.length := by
  rw [h.names]
  exact Nat.le_trans (length_firstUse_le _) (List.length_filterMap_le _ _)

/-- the contents column after one more token -/
theorem contents_step (m : SMap) (done : List Tok) (t : Tok) (S : List Bytes)
    (_hS : S = firstUse (done.filterMap m.tokSource)) :
    ∀ s' ∈ S, m.tokSource t ≠ some s' → contentsIn m (done ++ [t]) s' = contentsIn m done s' := by
  intro s' _ hne
  rw [contentsIn_snoc]
  have : (m.tokSource t == some s') = false := by simpa using hne
  simp [this]

theorem step_inv (m : SMap) (o : RewriteOpts) (done : List Tok) (t : Tok) (b : Bld)
    (h : Inv m o done b) (hlen : done.length < NONE) :
    ∃ b1, stepRes m o t b = .ok b1 ∧ Inv m o (done ++ [t]) b1 := by
  -- the builder after `add_token`
  have hadd := addToken_eq b m t o.withNames h.srcMap h.nameMap
  simp only [] at hadd
  generalize hS' : internOpt b.sources (m.tokSource t) = S' at hadd
  generalize hN' : internOpt b.names (if o.withNames then m.tokName t else none) = N' at hadd
  have hsrcs' : S' = firstUse ((done ++ [t]).filterMap m.tokSource) := by
    rw [filterMap_snoc, firstUse_append_opt, ← h.srcs, hS']
  have hnames' : N' = firstUse ((done ++ [t]).filterMap (nameOf m o)) := by
    rw [filterMap_snoc, firstUse_append_opt, ← h.names]; exact hN'.symm
  have hnd : b.sources.Nodup := h.srcs ▸ nodup_firstUse _
  -- the token list
  have htoks : b.tokens ++ [newTok m o.withNames S' N' t] = (done ++ [t]).map (newTok m o.withNames S' N') := by
    rw [List.map_append, h.toks]
    congr 1
    apply List.map_congr_left
    intro t0 ht0
    unfold newTok
    have e1 : idOf S' (m.tokSource t0) = idOf b.sources (m.tokSource t0) := by
      rw [← hS']; apply idOf_internOpt
      intro s hs
      rw [h.srcs, mem_firstUse, List.mem_filterMap]; exact ⟨t0, ht0, hs⟩
    have e2 : idOf N' (if o.withNames then m.tokName t0 else none) = idOf b.names (if o.withNames then m.tokName t0 else none) := by
      rw [← hN']; apply idOf_internOpt
      intro s hs
      rw [h.names, mem_firstUse, List.mem_filterMap]; exact ⟨t0, ht0, hs⟩
    rw [e1, e2]
  -- the mapping column
  have hmapping : mappingStep b.mapping b.sources t.src (m.tokSource t) = S'.map (firstId m (done ++ [t])) := by
    rw [← hS', h.mapping]
    cases hs : m.tokSource t with
    | none =>
      simp only [mappingStep, internOpt]
      apply List.map_congr_left
      intro s' hs'
      exact (firstId_snoc_used m done t s' ((mem_srcs_iff h s').mp hs')).symm
    | some s =>
      by_cases hm : s ∈ b.sources
      · simp only [mappingStep, internOpt, intern, hm, ↓reduceIte]
        apply List.map_congr_left
        intro s' hs'
        exact (firstId_snoc_used m done t s' ((mem_srcs_iff h s').mp hs')).symm
      · simp only [mappingStep, internOpt, intern, hm, ↓reduceIte, List.map_append, List.map_cons, List.map_nil]
        congr 1
        · apply List.map_congr_left
          intro s' hs'
          exact (firstId_snoc_used m done t s' ((mem_srcs_iff h s').mp hs')).symm
        · rw [firstId_snoc_new m done t s (fun hc => hm ((mem_srcs_iff h s).mpr hc)) hs]
  -- every field except `contents`
  have mk : ∀ C1, C1 = (if o.withContents then S'.map (contentsIn m (done ++ [t])) else []) →
      Inv m o (done ++ [t])
        { file := b.file, nameMap := mapStep b.nameMap b.names (if o.withNames then m.tokName t else none), names := N',
          tokens := b.tokens ++ [newTok m o.withNames S' N' t],
          sourceMap := mapStep b.sourceMap b.sources (m.tokSource t), root := b.root, sources := S',
          contents := C1, mapping := mappingStep b.mapping b.sources t.src (m.tokSource t),
          ignore := b.ignore, debugId := b.debugId } := by
    intro C1 hC1
    exact { srcs := hsrcs', srcMap := hS' ▸ h.srcMap.step _, names := hnames', nameMap := hN' ▸ h.nameMap.step _,
            toks := htoks, contents := hC1, mapping := hmapping, file := h.file, debugId := h.debugId,
            root := h.root, ignore := h.ignore }
  -- the contents column
  obtain ⟨B1, hB1⟩ : ∃ B1 : Bld, B1 =
      { file := b.file, nameMap := mapStep b.nameMap b.names (if o.withNames then m.tokName t else none), names := N',
        tokens := b.tokens ++ [newTok m o.withNames S' N' t],
        sourceMap := mapStep b.sourceMap b.sources (m.tokSource t), root := b.root, sources := S',
        contents := b.contents, mapping := mappingStep b.mapping b.sources t.src (m.tokSource t),
        ignore := b.ignore, debugId := b.debugId } := ⟨_, rfl⟩
  have hB1c : B1.contents = b.contents := by rw [hB1]
  have hB1s : B1.sources = S' := by rw [hB1]
  have mk' : ∀ C1, C1 = (if o.withContents then S'.map (contentsIn m (done ++ [t])) else []) →
      Inv m o (done ++ [t]) { B1 with contents := C1 } := by
    intro C1 hC1; rw [hB1]; exact mk C1 hC1
  have mk0 : b.contents = (if o.withContents then S'.map (contentsIn m (done ++ [t])) else []) →
      Inv m o (done ++ [t]) B1 := by
    intro hC
    have := mk' B1.contents (hB1c ▸ hC)
    exact this
  have hstep : stepRes m o t b =
      if idOf S' (m.tokSource t) ≠ NONE ∧ o.withContents ∧ !B1.hasSourceContents (idOf S' (m.tokSource t)) then
        B1.setSourceContents (idOf S' (m.tokSource t)) (m.getSourceContents t.src)
      else .ok B1 := by
    unfold stepRes; rw [hadd, ← hB1]; rfl
  clear hadd mk hB1
  rw [hstep]
  cases hs : m.tokSource t with
  | none =>
    have e : S' = b.sources := by rw [← hS', hs]; rfl
    refine ⟨B1, by simp [idOf], mk0 ?_⟩
    rw [h.contents, e]
    by_cases hc : o.withContents = true
    · simp only [hc, ↓reduceIte]
      apply List.map_congr_left
      intro s' hs'
      exact (contents_step m done t b.sources h.srcs s' hs' (by simp [hs])).symm
    · simp [hc]
  | some s =>
    have hsS' : s ∈ S' := by rw [← hS', hs]; exact mem_internOpt_self _ _
    have hS'len : S'.length ≤ done.length + 1 := by
      rw [hsrcs']
      refine Nat.le_trans (length_firstUse_le _) (Nat.le_trans (List.length_filterMap_le _ _) ?_)
      simp
    have hidlt : S'.idxOf s < S'.length := List.idxOf_lt_length_iff.mpr hsS'
    have hidne : S'.idxOf s ≠ NONE := by omega
    simp only [idOf]
    by_cases hc : o.withContents = true
    · -- contents are kept
      have hbc : b.contents = b.sources.map (contentsIn m done) := by rw [h.contents]; simp [hc]
      by_cases hm : s ∈ b.sources
      · have e : S' = b.sources := by rw [← hS', hs]; simp [internOpt, intern, hm]
        have hother : ∀ x ∈ b.sources, x ≠ s → contentsIn m (done ++ [t]) x = contentsIn m done x := by
          intro x hx hne
          exact contents_step m done t b.sources h.srcs x hx (by rw [hs]; intro e; exact hne (Option.some.inj e).symm)
        have hget : (b.contents[b.sources.idxOf s]?).join = contentsIn m done s := by
          rw [hbc, List.getElem?_map, getElem?_idxOf hm]; rfl
        cases hg : contentsIn m done s with
        | some v =>
          -- the name already has contents: nothing is stored
          have hsame : contentsIn m (done ++ [t]) s = contentsIn m done s := by
            rw [contentsIn_snoc, hg]; rfl
          refine ⟨B1, by simp [e, hc, Bld.hasSourceContents, Bld.getSourceContents, hB1c, hget, hg], mk0 ?_⟩
          rw [hbc, e]; simp only [hc, ↓reduceIte]
          apply List.map_congr_left
          intro x hx
          by_cases hxs : x = s
          · rw [hxs, hsame]
          · exact (hother x hx hxs).symm
        | none =>
          have hnew : contentsIn m (done ++ [t]) s = m.getSourceContents t.src := by
            rw [contentsIn_snoc, hg]; simp [hs]
          have hlt : b.sources.idxOf s < b.contents.length := by
            rw [hbc, List.length_map]; exact List.idxOf_lt_length_iff.mpr hm
          have hlen' : ¬ b.sources.length > b.contents.length := by rw [hbc, List.length_map]; omega
          have hidne' : b.sources.idxOf s ≠ NONE := e ▸ hidne
          refine ⟨{ B1 with contents := b.contents.set (b.sources.idxOf s) (m.getSourceContents t.src) }, ?_, mk' _ ?_⟩
          · simp only [e, hc, Bld.hasSourceContents, Bld.getSourceContents, hB1c, hB1s, hget, hg,
              Bld.setSourceContents, hlen', hidne']
            simp [hidne', Nat.not_le.mpr hlt]
          · rw [e]; simp only [hc, ↓reduceIte]
            rw [hbc, ← hnew]
            exact (map_set_idxOf b.sources hnd s hm _ _ hother).symm
      · -- a new name: the contents vector grows by one entry
        have e : S' = b.sources ++ [s] := by rw [← hS', hs]; simp [internOpt, intern, hm]
        have hunused : s ∉ done.filterMap m.tokSource := fun hc' => hm ((mem_srcs_iff h s).mpr hc')
        have hnew : contentsIn m (done ++ [t]) s = m.getSourceContents t.src := by
          rw [contentsIn_snoc, contentsIn_none_of_unused m done s hunused]; simp [hs]
        have hclen : b.contents.length = b.sources.length := by rw [hbc, List.length_map]
        have hid : (b.sources ++ [s]).idxOf s = b.contents.length := by rw [idxOf_snoc_self hm, hclen]
        have hnone : (b.contents[b.contents.length]?) = none := List.getElem?_eq_none (Nat.le_refl _)
        have hidne' : b.contents.length ≠ NONE := by rw [← hid, ← e]; exact hidne
        have hlen1 : (b.sources ++ [s]).length = b.contents.length + 1 := by simp [hclen]
        refine ⟨{ B1 with contents := b.contents ++ [m.getSourceContents t.src] }, ?_, mk' _ ?_⟩
        · simp only [e, hc, hid, Bld.hasSourceContents, Bld.getSourceContents, hB1c, hB1s, hnone,
            Bld.setSourceContents, hidne', hlen1]
          have h1 : ¬ b.contents.length + 1 ≤ b.contents.length := by omega
          simp [SMap.resizeOpt, h1, hidne']
        · rw [e]; simp only [hc, ↓reduceIte, List.map_append, List.map_cons, List.map_nil]
          rw [hbc, hnew]
          congr 1
          apply List.map_congr_left
          intro x hx
          refine (contents_step m done t b.sources h.srcs x hx ?_).symm
          rw [hs]; intro ex; exact hm ((Option.some.inj ex) ▸ hx)
    · -- contents are dropped
      have hbc : b.contents = [] := by rw [h.contents]; simp [hc]
      refine ⟨B1, by simp [hc], mk0 ?_⟩
      rw [hbc]; simp [hc]

end SmVerif.RwProofs
