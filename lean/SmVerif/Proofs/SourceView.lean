import SmVerif.Model.SourceViewSlice
/-
C15, line part: `scan` against `splitLines` / `lineStarts`, the invariant of the cache, and the
specification of `getLine`, `lineCount`, `allLines`, `allLines32` from any state satisfying it.
-/
namespace SmVerif.SV
open SmVerif

theorem scan_nil : scan [] = ([], 1, true) := by
  simp [scan]

theorem scan_cons_not (b : Nat) (rest : List Nat) (h : isNl b = false) :
    scan (b :: rest) = (b :: (scan rest).1, (scan rest).2.1 + 1, (scan rest).2.2) := by
  unfold scan
  rw [List.findIdx?_cons]
  simp only [h]
  cases hf : rest.findIdx? isNl with
  | none => simp
  | some i => simp; split <;> omega

theorem scan_cons_nl (b : Nat) (rest : List Nat) (h : isNl b = true) :
    scan (b :: rest) = ([], (if b = 13 ∧ rest.head? = some 10 then 2 else 1), false) := by
  unfold scan
  rw [List.findIdx?_cons]
  simp [h, List.head?_eq_getElem?]

theorem isNl_iff (b : Nat) : isNl b = true ↔ b = 10 ∨ b = 13 := by
  simp [isNl]

/-- one `scan` step against the specification: the piece found and where the rest starts -/
theorem splitLinesAux_scan (rest : List Nat) : ∀ cur : List Nat,
    splitLinesAux rest cur =
      if (scan rest).2.2 then [cur.reverse ++ (scan rest).1]
      else (cur.reverse ++ (scan rest).1) :: splitLinesAux (rest.drop (scan rest).2.1) [] := by
  induction rest with
  | nil => intro cur; simp [scan_nil, splitLinesAux]
  | cons b rest ih =>
    intro cur
    by_cases hb : isNl b = true
    · rw [scan_cons_nl b rest hb]
      rcases (isNl_iff b).1 hb with rfl | rfl
      · simp [splitLinesAux]
      · cases rest with
        | nil => simp [splitLinesAux]
        | cons c rest' =>
          by_cases hc : c = 10
          · subst hc; simp [splitLinesAux]
          · rw [splitLinesAux.eq_3 _ _ (by intro r h; cases h; exact hc rfl)]
            simp [hc]
    · have hb' : isNl b = false := by simpa using hb
      have h10 : b ≠ 10 := fun h => hb ((isNl_iff b).2 (Or.inl h))
      have h13 : b ≠ 13 := fun h => hb ((isNl_iff b).2 (Or.inr h))
      rw [splitLinesAux.eq_5 _ _ _ (fun _ h _ => h13 h) h13 h10, ih, scan_cons_not b rest hb']
      simp
theorem lineStartsAux_scan (rest : List Nat) : ∀ pos : Nat,
    lineStartsAux rest pos =
      if (scan rest).2.2 then []
      else (pos + (scan rest).2.1) :: lineStartsAux (rest.drop (scan rest).2.1) (pos + (scan rest).2.1) := by
  induction rest with
  | nil => intro pos; simp [scan_nil, lineStartsAux]
  | cons b rest ih =>
    intro pos
    by_cases hb : isNl b = true
    · rw [scan_cons_nl b rest hb]
      rcases (isNl_iff b).1 hb with rfl | rfl
      · simp [lineStartsAux]
      · cases rest with
        | nil => simp [lineStartsAux]
        | cons c rest' =>
          by_cases hc : c = 10
          · subst hc; simp [lineStartsAux]
          · rw [lineStartsAux.eq_3 _ _ (by intro r h; cases h; exact hc rfl)]
            simp [hc]
    · have hb' : isNl b = false := by simpa using hb
      have h10 : b ≠ 10 := fun h => hb ((isNl_iff b).2 (Or.inl h))
      have h13 : b ≠ 13 := fun h => hb ((isNl_iff b).2 (Or.inr h))
      rw [lineStartsAux.eq_5 _ _ _ (fun _ h _ => h13 h) h13 h10, ih, scan_cons_not b rest hb']
      have e : pos + 1 + (scan rest).2.1 = pos + ((scan rest).2.1 + 1) := by omega
      simp [e]

/-- `scan` advances by at least one byte; unless it reports the end it stays inside the text,
and at the end it moves one past it -/
theorem scan_adv (rest : List Nat) :
    1 ≤ (scan rest).2.1 ∧ ((scan rest).2.2 = false → (scan rest).2.1 ≤ rest.length) ∧
      ((scan rest).2.2 = true → (scan rest).2.1 = rest.length + 1) := by
  induction rest with
  | nil => simp [scan_nil]
  | cons b rest ih =>
    by_cases hb : isNl b = true
    · rw [scan_cons_nl b rest hb]
      cases rest with
      | nil => simp
      | cons c r => simp; split <;> omega
    · have hb' : isNl b = false := by simpa using hb
      rw [scan_cons_not b rest hb']
      simp only [List.length_cons]
      cases h : (scan rest).2.2 <;> simp_all <;> omega

theorem splitLinesAux_length (rest cur : List Nat) : 1 ≤ (splitLinesAux rest cur).length ∧
    (splitLinesAux rest cur).length ≤ rest.length + 1 := by
  fun_induction splitLinesAux rest cur <;> simp_all <;> omega
/-! ### the invariant of the line index -/

/-- indexing has reached the start of piece `st.lines.length` and is not finished -/
def InvOpen (src : List Nat) (st : St) : Prop :=
  st.processed ≤ src.length ∧ splitLines src = st.lines ++ splitLines (src.drop st.processed) ∧
  ∃ A : List Nat, A.length = st.lines.length ∧
    lineStarts src = A ++ st.processed :: lineStartsAux (src.drop st.processed) st.processed

/-- indexing is finished -/
def InvDone (src : List Nat) (st : St) : Prop :=
  st.processed = src.length + 1 ∧ st.lines = splitLines src

def Inv (src : List Nat) (st : St) : Prop := InvOpen src st ∨ InvDone src st

theorem inv_init (src : List Nat) : Inv src {} := by
  left
  refine ⟨by simp, by simp, [], by simp, by simp [lineStarts]⟩

theorem indexLoop_spec (src : List Nat) (idx : Nat) : ∀ (fuel : Nat) (st : St),
    InvOpen src st → st.lines[idx]? = none → src.length + 1 - st.processed ≤ fuel →
    ∃ st', indexLoop src idx fuel st = .ok ((splitLines src)[idx]?, st') ∧
      st'.lines[idx]? = (splitLines src)[idx]? ∧
      ((splitLines src)[idx]? = none → st'.lines = splitLines src) ∧ Inv src st' := by
  intro fuel
  induction fuel with
  | zero => intro st ⟨hp, _, _⟩ _ hf; omega
  | succ fuel ih =>
    intro st hinv hnone hf
    obtain ⟨hp, hsplit, A, hA, hstarts⟩ := hinv
    have h1 := splitLinesAux_scan (src.drop st.processed) []
    have h2 := lineStartsAux_scan (src.drop st.processed) st.processed
    have h3 := scan_adv (src.drop st.processed)
    unfold indexLoop
    rw [if_neg (by omega)]
    generalize hs : scan (src.drop st.processed) = s at h1 h2 h3
    obtain ⟨line, adv, done⟩ := s
    simp only [] at h1 h2 h3 ⊢
    simp only [List.reverse_nil, List.nil_append, List.drop_drop] at h1 h2
    have hlen : (src.drop st.processed).length = src.length - st.processed := by simp
    cases done with
    | true =>
      simp only [if_true] at h1 h2
      have hfull : splitLines src = st.lines ++ [line] := by
        rw [hsplit]; unfold splitLines; rw [h1]
      have hdone : Inv src { processed := st.processed + adv, lines := st.lines ++ [line] } := by
        right; refine ⟨?_, hfull.symm⟩
        have := h3.2.2 rfl
        simp only; omega
      have hidx : (st.lines ++ [line])[idx]? = (splitLines src)[idx]? := by rw [hfull]
      rw [hidx]
      cases h : (splitLines src)[idx]? with
      | none =>
        refine ⟨_, rfl, ?_, ?_, hdone⟩
        · simp only [hidx, h]
        · intro _; exact hfull.symm
      | some l =>
        refine ⟨_, rfl, ?_, ?_, hdone⟩
        · simp only [hidx, h]
        · intro h'; cases h'
    | false =>
      simp only [Bool.false_eq_true, if_false] at h1 h2
      have hfull : splitLines src = (st.lines ++ [line]) ++ splitLines (src.drop (st.processed + adv)) := by
        rw [hsplit]; unfold splitLines; rw [h1]; simp
      have hopen : InvOpen src { processed := st.processed + adv, lines := st.lines ++ [line] } := by
        have := h3.2.1 rfl
        refine ⟨by simp only; omega, hfull, A ++ [st.processed], by simp [hA], ?_⟩
        rw [hstarts, h2]; simp
      cases h : (st.lines ++ [line])[idx]? with
      | some l =>
        have hi : idx < (st.lines ++ [line]).length := by
          rcases List.getElem?_eq_some_iff.1 h with ⟨hlt, _⟩; exact hlt
        have hspec : (splitLines src)[idx]? = some l := by
          rw [hfull, List.getElem?_append_left hi, h]
        rw [hspec]
        refine ⟨_, rfl, h, ?_, Or.inl hopen⟩
        intro h'; cases h'
      | none =>
        simp only [Bool.false_eq_true, if_false]
        exact ih _ hopen h (by simp only; omega)

theorem inv_prefix {src : List Nat} {st : St} (h : Inv src st) : ∃ rest, splitLines src = st.lines ++ rest := by
  rcases h with ⟨_, h, _⟩ | ⟨_, h⟩
  · exact ⟨_, h⟩
  · exact ⟨[], by simp [h]⟩

/-- `get_line` from any state satisfying the invariant: the answer is the specification's, the
line asked for is cached afterwards (or everything is), the invariant is kept -/
theorem getLine_spec (src : List Nat) (idx : Nat) (st : St) (h : Inv src st) :
    ∃ st', getLine src st idx = .ok ((splitLines src)[idx]?, st') ∧
      st'.lines[idx]? = (splitLines src)[idx]? ∧
      ((splitLines src)[idx]? = none → st'.lines = splitLines src) ∧ Inv src st' := by
  unfold getLine
  cases hc : st.lines[idx]? with
  | some l =>
    obtain ⟨rest, hr⟩ := inv_prefix h
    have hi : idx < st.lines.length := (List.getElem?_eq_some_iff.1 hc).1
    have hspec : (splitLines src)[idx]? = some l := by
      rw [hr, List.getElem?_append_left hi, hc]
    rw [hspec]
    refine ⟨st, rfl, hc, ?_, h⟩
    intro h'; cases h'
  | none =>
    simp only
    by_cases hfin : st.processed > src.length
    · rw [if_pos hfin]
      rcases h with ⟨hp, _⟩ | ⟨hp, hl⟩
      · omega
      · refine ⟨st, by rw [← hl, hc], by rw [hl], fun _ => hl, Or.inr ⟨hp, hl⟩⟩
    · rw [if_neg hfin, if_neg hfin]
      rcases h with ho | ⟨hp, _⟩
      · exact indexLoop_spec src idx (fuelFor src) st ho hc (by unfold fuelFor; omega)
      · omega

theorem lineCount_spec (src : List Nat) (st : St) (h : Inv src st) (hn : (splitLines src).length ≤ U32) :
    ∃ st', lineCount src st = .ok ((splitLines src).length, st') ∧ Inv src st' := by
  obtain ⟨st', hg, hc, hnone, hi⟩ := getLine_spec src NONE st h
  unfold lineCount
  rw [hg]
  refine ⟨st', ?_, hi⟩
  simp only
  congr 2
  cases hq : (splitLines src)[NONE]? with
  | none => rw [hnone hq]
  | some l =>
    rw [hq] at hc
    have h1 : NONE < st'.lines.length := (List.getElem?_eq_some_iff.1 hc).1
    obtain ⟨rest, hr⟩ := inv_prefix hi
    have h2 : (splitLines src).length = st'.lines.length + rest.length := by rw [hr]; simp
    unfold U32 at hn; unfold NONE at h1
    omega

theorem linesIter32_spec (src : List Nat) (hn : (splitLines src).length < U32) :
    ∀ (fuel i : Nat) (st : St) (acc : List (List Nat)), Inv src st →
      acc.reverse = (splitLines src).take i → i ≤ (splitLines src).length →
      (splitLines src).length - i + 1 ≤ fuel →
      ∃ st', linesIter32 src fuel i st acc = .ok (splitLines src, st') ∧ Inv src st' := by
  intro fuel
  induction fuel with
  | zero => intro i st acc _ _ _ hf; omega
  | succ fuel ih =>
    intro i st acc hinv hacc hi hf
    obtain ⟨st', hg, _, _, hi'⟩ := getLine_spec src i st hinv
    unfold linesIter32
    rw [hg]
    cases hq : (splitLines src)[i]? with
    | none =>
      simp only
      have : (splitLines src).length ≤ i := List.getElem?_eq_none_iff.1 hq
      refine ⟨st', ?_, hi'⟩
      rw [hacc, List.take_of_length_le this]
    | some l =>
      simp only
      have hlt : i < (splitLines src).length := (List.getElem?_eq_some_iff.1 hq).1
      rw [if_neg (by omega)]
      refine ih (i + 1) st' (l :: acc) hi' ?_ (by omega) (by omega)
      rw [List.reverse_cons, hacc, List.take_add_one, hq]
      simp

theorem linesIter_spec (src : List Nat) :
    ∀ (fuel i : Nat) (st : St) (acc : List (List Nat)), Inv src st →
      acc.reverse = (splitLines src).take i → i ≤ (splitLines src).length →
      (splitLines src).length - i + 1 ≤ fuel →
      ∃ st', linesIter src fuel i st acc = .ok (splitLines src, st') ∧ Inv src st' := by
  intro fuel
  induction fuel with
  | zero => intro i st acc _ _ _ hf; omega
  | succ fuel ih =>
    intro i st acc hinv hacc hi hf
    obtain ⟨st', hg, _, _, hi'⟩ := getLine_spec src i st hinv
    unfold linesIter
    rw [hg]
    cases hq : (splitLines src)[i]? with
    | none =>
      simp only
      have : (splitLines src).length ≤ i := List.getElem?_eq_none_iff.1 hq
      refine ⟨st', ?_, hi'⟩
      rw [hacc, List.take_of_length_le this]
    | some l =>
      simp only
      have hlt : i < (splitLines src).length := (List.getElem?_eq_some_iff.1 hq).1
      refine ih (i + 1) st' (l :: acc) hi' ?_ (by omega) (by omega)
      rw [List.reverse_cons, hacc, List.take_add_one, hq]
      simp

theorem splitLines_length (src : List Nat) :
    1 ≤ (splitLines src).length ∧ (splitLines src).length ≤ src.length + 1 :=
  splitLinesAux_length src []

theorem allLines32_spec (src : List Nat) (st : St) (h : Inv src st) (hn : (splitLines src).length < U32) :
    ∃ st', allLines32 src st = .ok (splitLines src, st') ∧ Inv src st' := by
  have := splitLines_length src
  exact linesIter32_spec src hn _ 0 st [] h (by simp) (by omega) (by unfold fuelFor; omega)

theorem allLines_spec (src : List Nat) (st : St) (h : Inv src st) :
    ∃ st', allLines src st = .ok (splitLines src, st') ∧ Inv src st' := by
  have := splitLines_length src
  exact linesIter_spec src _ 0 st [] h (by simp) (by omega) (by unfold fuelFor; omega)

/-- whatever `lines()` returns, it keeps the invariant (no bound on the number of lines needed) -/
theorem linesIter32_inv (src : List Nat) :
    ∀ (fuel i : Nat) (st : St) (acc : List (List Nat)) (r : List (List Nat)) (st' : St), Inv src st →
      linesIter32 src fuel i st acc = .ok (r, st') → Inv src st' := by
  intro fuel
  induction fuel with
  | zero => intro i st acc r st' _ h; simp [linesIter32] at h
  | succ fuel ih =>
    intro i st acc r st' hinv h
    obtain ⟨st1, hg, _, _, hi'⟩ := getLine_spec src i st hinv
    unfold linesIter32 at h
    rw [hg] at h
    cases hq : (splitLines src)[i]? with
    | none =>
      rw [hq] at h
      simp only [Except.ok.injEq, Prod.mk.injEq] at h
      rw [← h.2]; exact hi'
    | some l =>
      rw [hq] at h
      simp only at h
      split at h
      · cases h
      · exact ih _ _ _ _ _ hi' h
/-! ### what `lineStarts` means -/

theorem lineStartsAux_sem (rest cur : List Nat) : ∀ pos : Nat,
    (lineStartsAux rest pos).length + 1 = (splitLinesAux rest cur).length ∧
    ∀ j s, (lineStartsAux rest pos)[j]? = some s →
      pos ≤ s ∧ splitLinesAux (rest.drop (s - pos)) [] = (splitLinesAux rest cur).drop (j + 1) := by
  fun_induction splitLinesAux rest cur with
  | case1 cur => intro pos; simp [lineStartsAux]
  | case2 cur rest ih =>
    intro pos
    obtain ⟨ih1, ih2⟩ := ih (pos + 2)
    rw [lineStartsAux.eq_2]
    refine ⟨by simp [ih1], ?_⟩
    intro j s hs
    cases j with
    | zero =>
      simp only [List.getElem?_cons_zero, Option.some.injEq] at hs
      subst hs
      have : pos + 2 - pos = 2 := by omega
      simp [this]
    | succ j =>
      simp only [List.getElem?_cons_succ] at hs
      obtain ⟨h1, h2⟩ := ih2 j s hs
      refine ⟨by omega, ?_⟩
      have : s - pos = (s - (pos + 2)) + 2 := by omega
      rw [this]
      simpa using h2
  | case3 cur rest hne ih =>
    intro pos
    obtain ⟨ih1, ih2⟩ := ih (pos + 1)
    rw [lineStartsAux.eq_3 _ _ hne]
    refine ⟨by simp [ih1], ?_⟩
    intro j s hs
    cases j with
    | zero =>
      simp only [List.getElem?_cons_zero, Option.some.injEq] at hs
      subst hs
      have : pos + 1 - pos = 1 := by omega
      simp [this]
    | succ j =>
      simp only [List.getElem?_cons_succ] at hs
      obtain ⟨h1, h2⟩ := ih2 j s hs
      refine ⟨by omega, ?_⟩
      have : s - pos = (s - (pos + 1)) + 1 := by omega
      rw [this]
      simpa using h2
  | case4 cur rest ih =>
    intro pos
    obtain ⟨ih1, ih2⟩ := ih (pos + 1)
    rw [lineStartsAux.eq_4]
    refine ⟨by simp [ih1], ?_⟩
    intro j s hs
    cases j with
    | zero =>
      simp only [List.getElem?_cons_zero, Option.some.injEq] at hs
      subst hs
      have : pos + 1 - pos = 1 := by omega
      simp [this]
    | succ j =>
      simp only [List.getElem?_cons_succ] at hs
      obtain ⟨h1, h2⟩ := ih2 j s hs
      refine ⟨by omega, ?_⟩
      have : s - pos = (s - (pos + 1)) + 1 := by omega
      rw [this]
      simpa using h2
  | case5 cur b rest h1 h2 h3 ih =>
    intro pos
    obtain ⟨ih1, ih2⟩ := ih (pos + 1)
    rw [lineStartsAux.eq_5 _ _ _ h1 h2 h3]
    refine ⟨ih1, ?_⟩
    intro j s hs
    obtain ⟨h1', h2'⟩ := ih2 j s hs
    refine ⟨by omega, ?_⟩
    have : s - pos = (s - (pos + 1)) + 1 := by omega
    rw [this]
    simpa using h2'

/-- `lineStarts` has one entry per piece -/
theorem lineStarts_length (src : List Nat) : (lineStarts src).length = (splitLines src).length := by
  unfold lineStarts splitLines
  have := (lineStartsAux_sem src [] 0).1
  simp only [List.length_cons]; omega

/-- ... and entry `k` is where piece `k` begins: splitting the text from there gives pieces `k, k+1, …` -/
theorem lineStarts_drop (src : List Nat) (k s : Nat) (h : (lineStarts src)[k]? = some s) :
    splitLines (src.drop s) = (splitLines src).drop k := by
  unfold lineStarts at h
  cases k with
  | zero => simp at h; subst h; simp
  | succ k =>
    simp only [List.getElem?_cons_succ] at h
    have := ((lineStartsAux_sem src [] 0).2 k s h).2
    simpa [splitLines] using this
end SmVerif.SV
