import SmVerif.Proofs.AdjustSpec
/-
Helper lemmas for C10, part 4: evaluating the model and the specification on concrete inputs inside
the kernel.  `List.mergeSort` does not reduce by `decide`/`rfl`, so the witnesses are stated on inputs
that are already ordered (where every sort is the identity, `List.mergeSort_of_pairwise`).
-/
namespace SmVerif.Adjust
open SmVerif SmVerif.Lookup

/-- `adjustToks` without its three sorts -/
def adjustNoSort (o a : List Tok) : Res (List Tok) :=
  match rangesOfSorted dstKey o with
  | [] => .ok []
  | r :: rs => sweep r rs (rangesOfSorted srcKey a)

theorem sortByKey_of_sorted {key : Tok → Pos} {l : List Tok} (h : KeySorted key l) :
    sortByKey key l = l := List.mergeSort_of_pairwise h

theorem sortToks_of_sorted {l : List Tok} (h : SortedByPos l) : sortToks l = l :=
  List.mergeSort_of_pairwise h

theorem adjustToks_of_sorted {o a ts : List Tok} (ho : KeySorted dstKey o) (ha : KeySorted srcKey a)
    (h : adjustNoSort o a = .ok ts) (hs : SortedByPos ts) : adjustToks o a = .ok ts := by
  unfold adjustToks createRanges
  rw [sortByKey_of_sorted ho, sortByKey_of_sorted ha]
  unfold adjustNoSort at h
  split at h
  · rename_i hr; rw [hr]; cases h; rfl
  · rename_i r rs hr
    rw [hr]
    simp only [h, sortToks_of_sorted hs]

theorem adjustToks_of_sorted_error {o a : List Tok} {e : Err} (ho : KeySorted dstKey o)
    (ha : KeySorted srcKey a) (h : adjustNoSort o a = .error e) : adjustToks o a = .error e := by
  unfold adjustToks createRanges
  rw [sortByKey_of_sorted ho, sortByKey_of_sorted ha]
  unfold adjustNoSort at h
  split at h
  · cases h
  · rename_i r rs hr
    rw [hr]
    simp only [h]

theorem composeSpec_of_sorted {o a l : List Tok} (h : composePairs o a = l) (hs : SortedByPos l) :
    composeSpec o a = l := by
  unfold composeSpec; rw [h]; exact sortToks_of_sorted hs

instance (key : Tok → Pos) (l : List Tok) : Decidable (KeySorted key l) := by
  unfold KeySorted; infer_instance
instance (l : List Tok) : Decidable (SortedByPos l) := by
  unfold SortedByPos; infer_instance

/-- for lists that cannot be permutations because their lengths differ -/
theorem not_perm_of_length {α} {l₁ l₂ : List α} (h : l₁.length ≠ l₂.length) : ¬ l₁.Perm l₂ :=
  fun hp => h hp.length_eq

theorem pos_injective_of_pairwise {l : List Tok} (h : l.Pairwise (fun x y => Tok.pos x ≠ Tok.pos y)) :
    ∀ x ∈ l, ∀ y ∈ l, Tok.pos x = Tok.pos y → x = y := by
  induction l with
  | nil => intro x hx; cases hx
  | cons z l ih =>
    rw [List.pairwise_cons] at h
    intro x hx y hy he
    rcases List.mem_cons.mp hx with hxz | hxl
    · rcases List.mem_cons.mp hy with hyz | hyl
      · rw [hxz, hyz]
      · rw [hxz] at he; exact absurd he (h.1 y hyl)
    · rcases List.mem_cons.mp hy with hyz | hyl
      · rw [hyz] at he; exact absurd he.symm (h.1 x hxl)
      · exact ih h.2 x hxl y hyl he

theorem adjustToks_of_sorted' {o a raw : List Tok} (ho : KeySorted dstKey o) (ha : KeySorted srcKey a)
    (h : adjustNoSort o a = .ok raw) : adjustToks o a = .ok (sortToks raw) := by
  unfold adjustToks createRanges
  rw [sortByKey_of_sorted ho, sortByKey_of_sorted ha]
  unfold adjustNoSort at h
  split at h
  · rename_i hr; rw [hr]; cases h; simp [sortToks]
  · rename_i r rs hr
    rw [hr]
    simp only [h]

/-- the position-sort of a list whose positions are pairwise distinct is its only ordered permutation -/
theorem sortToks_eq_of_perm_sorted {l l' : List Tok} (hp : l.Perm l') (hs : SortedByPos l')
    (hinj : l'.Pairwise (fun x y => Tok.pos x ≠ Tok.pos y)) : sortToks l = l' := by
  have hsorted : SortedByPos (sortToks l) := by
    unfold SortedByPos sortToks
    exact List.pairwise_mergeSort (le := fun a b : Tok => posLe (Tok.pos a) (Tok.pos b))
      (fun a b c h1 h2 => posLe_trans h1 h2)
      (fun a b => by rcases posLe_total (Tok.pos a) (Tok.pos b) with h | h <;> simp [h]) l
  have hp' : (sortToks l).Perm l' := (List.mergeSort_perm _ _).trans hp
  apply List.Perm.eq_of_pairwise (le := fun x y => posLe (Tok.pos x) (Tok.pos y) = true) _ hsorted hs hp'
  intro x y hx hy h1 h2
  exact pos_injective_of_pairwise hinj x (hp'.mem_iff.mp hx) y hy (posLe_antisymm h1 h2)

end SmVerif.Adjust
