import SmVerif.Proofs.HermesDecode
/-
C14 helper lemmas, part 3: on a well-formed function-map text the decoder of `decode_hermes`
returns exactly Metro's reading; on an unreadable text it returns `None`.
-/
namespace SmVerif.Hermes
open SmVerif SmVerif.Vlq SmVerif.Mappings SmVerif.V3 SmVerif.Hermes.Metro

theorem allSome_cons_some {α} {x : Option α} {xs : List (Option α)} {ys : List α}
    (h : allSome (x :: xs) = some ys) : ∃ a as, x = some a ∧ allSome xs = some as ∧ ys = a :: as := by
  cases x with
  | none => simp [allSome] at h
  | some a =>
    cases hx : allSome xs with
    | none => simp [allSome, hx] at h
    | some as =>
      simp only [allSome, hx, Option.map_some, Option.some.injEq] at h
      exact ⟨a, as, rfl, rfl, h.symm⟩

theorem allSome_cons_none {α} {a : α} {xs : List (Option α)}
    (h : allSome (some a :: xs) = none) : allSome xs = none := by
  cases hx : allSome xs with
  | none => rfl
  | some as => simp [allSome, hx] at h

/-- all three coordinates of a triple are u32s -/
def InR (t : Int × Int × Int) : Prop := inU32 t.1 = true ∧ inU32 t.2.1 = true ∧ inU32 t.2.2 = true

/-! ### one `;` group -/

theorem decodeSegs_unreadable : ∀ (segs : List (List Nat)) (c n l : Nat) (acc : List Entry),
    c < U32 → n < U32 → l < U32 →
    (∀ s ∈ segs.filter (· ≠ []), segFits s = true) →
    allSome ((segs.filter (· ≠ [])).map V3.fields) = none →
    decodeSegs segs c n l acc = .ok none := by
  intro segs
  induction segs with
  | nil => intro c n l acc _ _ _ _ h; simp [allSome] at h
  | cons seg segs ih =>
    intro c n l acc hc hn hl hfit hnone
    by_cases hne : seg = []
    · subst hne
      rw [decodeSegs_skip]
      exact ih c n l acc hc hn hl (by simpa using hfit) (by simpa using hnone)
    · have hfl : (seg :: segs).filter (· ≠ []) = seg :: segs.filter (· ≠ []) := by simp [hne]
      rw [hfl] at hfit hnone
      have hsf : segFits seg = true := hfit seg (by simp)
      simp only [List.map_cons] at hnone
      cases hf : V3.fields seg with
      | none =>
        obtain ⟨e, he⟩ := Decode.parse_of_fields_none hsf hf
        exact decodeSegs_err segs c n l acc hne he
      | some vs =>
        rw [hf] at hnone
        rw [decodeSegs_step segs acc hc hn hl hne (Decode.parse_of_fields_some hsf hf)]
        exact ih _ _ _ _ (wrapU32_lt _) (wrapU32_lt _) (wrapU32_lt _)
          (fun s hs => hfit s (List.mem_cons_of_mem _ hs)) (allSome_cons_none hnone)

theorem cast_toNat_of_inU32 {x : Int} (h : inU32 x = true) : ((wrapU32 x : Nat) : Int) = x := by
  rw [Decode.wrapU32_of_inU32 h]
  have := Decode.inU32_nonneg h
  omega

theorem decodeSegs_readable : ∀ (segs : List (List Nat)) (fs : List (List Int)) (c n l : Nat)
    (acc : List Entry),
    c < U32 → n < U32 → l < U32 →
    (∀ s ∈ segs.filter (· ≠ []), segFits s = true) →
    allSome ((segs.filter (· ≠ [])).map V3.fields) = some fs →
    (∀ t ∈ walkSegs fs c n l, InR t) →
    ∃ n' l', decodeSegs segs c n l acc =
        .ok (some (n', l', ((walkSegs fs c n l).map toEntry).reverse ++ acc)) ∧
      (n' : Int) = (n : Int) + (fs.map (fld 1)).sum ∧ (l' : Int) = (l : Int) + (fs.map (fld 2)).sum ∧
      n' < U32 ∧ l' < U32 := by
  intro segs
  induction segs with
  | nil =>
    intro fs c n l acc _ hn hl _ hsome _
    simp only [List.filter_nil, List.map_nil, allSome, Option.some.injEq] at hsome
    subst hsome
    exact ⟨n, l, by simp [decodeSegs, walkSegs], by simp, by simp, hn, hl⟩
  | cons seg segs ih =>
    intro fs c n l acc hc hn hl hfit hsome hrange
    by_cases hne : seg = []
    · subst hne
      rw [decodeSegs_skip]
      exact ih fs c n l acc hc hn hl (by simpa using hfit) (by simpa using hsome) hrange
    · have hfl : (seg :: segs).filter (· ≠ []) = seg :: segs.filter (· ≠ []) := by simp [hne]
      rw [hfl] at hfit hsome
      have hsf : segFits seg = true := hfit seg (by simp)
      simp only [List.map_cons] at hsome
      obtain ⟨f, fs', hf, hrest, rfl⟩ := allSome_cons_some hsome
      rw [decodeSegs_step segs acc hc hn hl hne (Decode.parse_of_fields_some hsf hf)]
      simp only [walkSegs] at hrange ⊢
      obtain ⟨h1, h2, h3⟩ := hrange _ (List.mem_cons_self ..)
      simp only at h1 h2 h3
      have e1 := cast_toNat_of_inU32 h1
      have e2 := cast_toNat_of_inU32 h2
      have e3 := cast_toNat_of_inU32 h3
      obtain ⟨n', l', hdec, hn', hl', hnb, hlb⟩ :=
        ih fs' (wrapU32 ((c : Int) + fld 0 f)) (wrapU32 ((n : Int) + fld 1 f)) (wrapU32 ((l : Int) + fld 2 f))
          ({ line := wrapU32 ((l : Int) + fld 2 f), column := wrapU32 ((c : Int) + fld 0 f),
             name := wrapU32 ((n : Int) + fld 1 f) } :: acc)
          (wrapU32_lt _) (wrapU32_lt _) (wrapU32_lt _)
          (fun s hs => hfit s (List.mem_cons_of_mem _ hs)) hrest
          (by
            rw [e1, e2, e3]
            intro t ht
            exact hrange t (List.mem_cons_of_mem _ ht))
      rw [e1, e2, e3] at hdec
      rw [e3] at hn'
      rw [e1] at hl'
      refine ⟨n', l', ?_, ?_, ?_, hnb, hlb⟩
      · rw [hdec]
        simp [toEntry, Decode.wrapU32_of_inU32 h1, Decode.wrapU32_of_inU32 h2,
          Decode.wrapU32_of_inU32 h3]
      · rw [hn']; simp only [List.map_cons, List.sum_cons]; omega
      · rw [hl']; simp only [List.map_cons, List.sum_cons]; omega

/-! ### the whole text -/

/-- Metro's reading of a list of `;` pieces -/
def readLines (lns : List (List Nat)) : Option (List (List (List Int))) :=
  allSome ((lns.filter (· ≠ [])).map fun ln => allSome ((pieces COMMA ln).map V3.fields))

theorem readGroups_eq (m : List Nat) : readGroups m = readLines (splitOn SEMI m) := by
  unfold readGroups readLines groupTexts pieces
  rw [List.map_map]
  rfl

def FitLines (lns : List (List Nat)) : Prop :=
  ∀ ln ∈ lns.filter (· ≠ []), ∀ s ∈ pieces COMMA ln, segFits s = true

theorem fitLines_of_fits {m : Meta} (h : fits m = true) : FitLines (splitOn SEMI m.mappings) := by
  unfold fits groupTexts at h
  simp only [List.all_eq_true, List.mem_map, forall_exists_index, and_imp,
    forall_apply_eq_imp_iff₂] at h
  intro ln hln s hs
  exact h ln hln s hs

theorem decodeLines_unreadable : ∀ (lns : List (List Nat)) (n l : Nat) (acc : List Entry),
    n < U32 → l < U32 → FitLines lns → readLines lns = none →
    decodeLines lns n l acc = .ok none := by
  intro lns
  induction lns with
  | nil => intro n l acc _ _ _ h; simp [readLines, allSome] at h
  | cons ln lns ih =>
    intro n l acc hn hl hfit hnone
    by_cases hne : ln = []
    · subst hne
      rw [decodeLines_skip]
      exact ih n l acc hn hl (by simpa [FitLines] using hfit) (by simpa [readLines] using hnone)
    · have hfl : (ln :: lns).filter (· ≠ []) = ln :: lns.filter (· ≠ []) := by simp [hne]
      unfold FitLines at hfit
      unfold readLines at hnone
      rw [hfl] at hfit hnone
      simp only [List.map_cons] at hnone
      rw [decodeLines]
      simp only [hne, ↓reduceIte]
      have hfit0 : ∀ s ∈ (splitOn COMMA ln).filter (· ≠ []), segFits s = true :=
        hfit ln (by simp)
      cases hg : allSome ((pieces COMMA ln).map V3.fields) with
      | none =>
        rw [decodeSegs_unreadable (splitOn COMMA ln) 0 n l acc (by simp [U32]) hn hl hfit0 hg]
      | some g =>
        rw [hg] at hnone
        rcases decodeSegs_total (splitOn COMMA ln) 0 n l acc (by simp [U32]) hn hl with
          ⟨n', l', acc', h, hn', hl'⟩ | h
        · rw [h]
          exact ih n' l' acc' hn' hl' (fun ln' hln' => hfit ln' (List.mem_cons_of_mem _ hln'))
            (allSome_cons_none hnone)
        · rw [h]

theorem decodeLines_readable : ∀ (lns : List (List Nat)) (gs : List (List (List Int))) (n l : Nat)
    (acc : List Entry),
    n < U32 → l < U32 → FitLines lns → readLines lns = some gs →
    (∀ t ∈ walkGroups gs n l, InR t) →
    decodeLines lns n l acc = .ok (some (acc.reverse ++ (walkGroups gs n l).map toEntry)) := by
  intro lns
  induction lns with
  | nil =>
    intro gs n l acc _ _ _ hsome _
    simp only [readLines, List.filter_nil, List.map_nil, allSome, Option.some.injEq] at hsome
    subst hsome
    simp [decodeLines, walkGroups]
  | cons ln lns ih =>
    intro gs n l acc hn hl hfit hsome hrange
    by_cases hne : ln = []
    · subst hne
      rw [decodeLines_skip]
      exact ih gs n l acc hn hl (by simpa [FitLines] using hfit) (by simpa [readLines] using hsome) hrange
    · have hfl : (ln :: lns).filter (· ≠ []) = ln :: lns.filter (· ≠ []) := by simp [hne]
      unfold FitLines at hfit
      unfold readLines at hsome
      rw [hfl] at hfit hsome
      simp only [List.map_cons] at hsome
      obtain ⟨g, gs', hg, hrest, rfl⟩ := allSome_cons_some hsome
      have hfit0 : ∀ s ∈ (splitOn COMMA ln).filter (· ≠ []), segFits s = true :=
        hfit ln (by simp)
      simp only [walkGroups] at hrange ⊢
      obtain ⟨n', l', hdec, hn', hl', hnb, hlb⟩ :=
        decodeSegs_readable (splitOn COMMA ln) g 0 n l acc (by simp [U32]) hn hl hfit0 hg
          (fun t ht => hrange t (List.mem_append_left _ (by simpa using ht)))
      rw [decodeLines]
      simp only [hne, ↓reduceIte, hdec]
      have := ih gs' n' l' (((walkSegs g (0 : Nat) n l).map toEntry).reverse ++ acc) hnb hlb
        (fun ln' hln' => hfit ln' (List.mem_cons_of_mem _ hln')) hrest
        (by
          rw [hn', hl']
          intro t ht
          exact hrange t (List.mem_append_right _ ht))
      rw [this, hn', hl']
      simp

/-- **decoder = Metro's reading** on a well-formed text -/
theorem decodeMeta_eq_read (m : Meta) (hwf : wfMeta m = true) :
    decodeMeta m = .ok ((Metro.read m).map fun es => { names := m.names, entries := es }) := by
  unfold wfMeta at hwf
  simp only [Bool.and_eq_true] at hwf
  obtain ⟨hfits, hrange⟩ := hwf
  have hfl := fitLines_of_fits hfits
  unfold decodeMeta Metro.read
  unfold inRange at hrange
  rw [readGroups_eq] at hrange ⊢
  cases hr : readLines (splitOn SEMI m.mappings) with
  | none =>
    rw [decodeLines_unreadable _ 0 1 [] (by simp [U32]) (by simp [U32]) hfl hr]
    rfl
  | some gs =>
    rw [hr] at hrange
    simp only [List.all_eq_true, Bool.and_eq_true] at hrange
    rw [triples_eq_walk] at hrange
    have := decodeLines_readable _ gs 0 1 [] (by simp [U32]) (by simp [U32]) hfl hr
      (by
        intro t ht
        have := hrange t (by simpa using ht)
        exact ⟨this.1.1, this.1.2, this.2⟩)
    rw [this]
    simp [triples_eq_walk]

end SmVerif.Hermes
