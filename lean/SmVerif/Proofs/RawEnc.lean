import SmVerif.Model.DocSpec
import SmVerif.Proofs.Raw
import SmVerif.Proofs.SpecEnc
import SmVerif.Props.C04
import SmVerif.Props.C02
/-
C03 (document level): the record `as_raw_sourcemap` produces for a map meets the executable
specification `DocSpec.checkEncoded`.

1. which keys serde writes (`emitted`), driven by the regenerated table `Consts.serdeFields`;
2. the regular map: `checkFlat_ok`;
3. the recursion over index maps: `checkEncoded_ok` / `checkSecs_ok` / `checkOpt_ok`.
-/
namespace SmVerif.RawEnc
open SmVerif SmVerif.Raw SmVerif.Mappings SmVerif.V3 SmVerif.Lookup SmVerif.RawP SmVerif.DocSpec

/-! ### 1. key sets -/

theorem key_file : key "file" = [102, 105, 108, 101] := by decide
theorem key_sourceRoot : key "sourceRoot" = [115, 111, 117, 114, 99, 101, 82, 111, 111, 116] := by decide
theorem key_sourcesContent : key "sourcesContent" = [115, 111, 117, 114, 99, 101, 115, 67, 111, 110, 116, 101, 110, 116] := by decide
theorem key_ignoreList : key "ignoreList" = [105, 103, 110, 111, 114, 101, 76, 105, 115, 116] := by decide
theorem key_debug_id : key "debug_id" = [100, 101, 98, 117, 103, 95, 105, 100] := by decide
theorem key_version : key "version" = [118, 101, 114, 115, 105, 111, 110] := by decide
theorem key_mappings : key "mappings" = [109, 97, 112, 112, 105, 110, 103, 115] := by decide
theorem key_sources : key "sources" = [115, 111, 117, 114, 99, 101, 115] := by decide
theorem key_names : key "names" = [110, 97, 109, 101, 115] := by decide

theorem mem_emittedOf (table : List (String × List Nat × Bool)) (isSome : String → Bool) (k : Bytes) (b : Bool) :
    (k, b) ∈ emittedOf table isSome ↔
      ∃ e ∈ table, e.2.1 = k ∧ (if b then isSome e.1 = true else (isSome e.1 = false ∧ e.2.2 = false)) := by
  unfold emittedOf
  rw [List.mem_filterMap]
  constructor
  · rintro ⟨⟨fld, ky, sk⟩, hm, h⟩
    refine ⟨_, hm, ?_⟩
    dsimp only at h ⊢
    by_cases h1 : isSome fld = true
    · simp only [h1, ↓reduceIte, Option.some.injEq, Prod.mk.injEq] at h
      obtain ⟨rfl, rfl⟩ := h
      simp [h1]
    · by_cases h2 : sk = true
      · simp [h1, h2] at h
      · simp only [h1, h2, Bool.false_eq_true, ↓reduceIte, Option.some.injEq, Prod.mk.injEq] at h
        obtain ⟨rfl, rfl⟩ := h
        simp_all
  · rintro ⟨⟨fld, ky, sk⟩, hm, hk, h⟩
    refine ⟨_, hm, ?_⟩
    dsimp only at hk h ⊢
    subst hk
    cases b
    · simp_all
    · simp_all

/-- the entries of the regenerated table that carry a given key -/
def entriesFor (k : Bytes) : List (String × List Nat × Bool) := Consts.serdeFields.filter (fun e => e.2.1 = k)

theorem mem_emitted (d : RawDoc) (k : Bytes) (b : Bool) :
    (k, b) ∈ emitted d ↔
      ∃ e ∈ entriesFor k, (if b then fieldSome d e.1 = true else (fieldSome d e.1 = false ∧ e.2.2 = false)) := by
  unfold emitted entriesFor
  rw [mem_emittedOf]
  constructor
  · rintro ⟨e, hm, hk, h⟩
    exact ⟨e, List.mem_filter.mpr ⟨hm, by simpa using hk⟩, h⟩
  · rintro ⟨e, hm, h⟩
    rw [List.mem_filter] at hm
    exact ⟨e, hm.1, by simpa using hm.2, h⟩

theorem mem_emittedKeys (d : RawDoc) (k : Bytes) :
    k ∈ emittedKeys d ↔ ∃ b, (k, b) ∈ emitted d := by
  unfold emittedKeys
  simp

theorem entries_file : entriesFor [102, 105, 108, 101] = [("file", [102, 105, 108, 101], true)] := by decide
theorem entries_sourceRoot : entriesFor [115, 111, 117, 114, 99, 101, 82, 111, 111, 116] =
    [("source_root", [115, 111, 117, 114, 99, 101, 82, 111, 111, 116], true)] := by decide
theorem entries_sourcesContent : entriesFor [115, 111, 117, 114, 99, 101, 115, 67, 111, 110, 116, 101, 110, 116] =
    [("sources_content", [115, 111, 117, 114, 99, 101, 115, 67, 111, 110, 116, 101, 110, 116], true)] := by decide
theorem entries_ignoreList : entriesFor [105, 103, 110, 111, 114, 101, 76, 105, 115, 116] =
    [("ignore_list", [105, 103, 110, 111, 114, 101, 76, 105, 115, 116], true)] := by decide
theorem entries_debug_id : entriesFor [100, 101, 98, 117, 103, 95, 105, 100] =
    [("debug_id", [100, 101, 98, 117, 103, 95, 105, 100], true)] := by decide
theorem entries_version : entriesFor [118, 101, 114, 115, 105, 111, 110] =
    [("version", [118, 101, 114, 115, 105, 111, 110], false)] := by decide
theorem entries_mappings : entriesFor [109, 97, 112, 112, 105, 110, 103, 115] =
    [("mappings", [109, 97, 112, 112, 105, 110, 103, 115], true)] := by decide
theorem entries_sources : entriesFor [115, 111, 117, 114, 99, 101, 115] =
    [("sources", [115, 111, 117, 114, 99, 101, 115], false)] := by decide
theorem entries_names : entriesFor [110, 97, 109, 101, 115] =
    [("names", [110, 97, 109, 101, 115], true)] := by decide

theorem fs_file (d : RawDoc) : fieldSome d "file" = d.flat.file.isSome := by rfl
theorem fs_source_root (d : RawDoc) : fieldSome d "source_root" = d.flat.sourceRoot.isSome := by rfl
theorem fs_sources_content (d : RawDoc) : fieldSome d "sources_content" = d.flat.sourcesContent.isSome := by rfl
theorem fs_ignore_list (d : RawDoc) : fieldSome d "ignore_list" = d.flat.ignoreList.isSome := by rfl
theorem fs_debug_id (d : RawDoc) : fieldSome d "debug_id" = d.flat.debugId.isSome := by rfl
theorem fs_version (d : RawDoc) : fieldSome d "version" = d.flat.version.isSome := by rfl
theorem fs_mappings (d : RawDoc) : fieldSome d "mappings" = d.flat.mappings.isSome := by rfl
theorem fs_sources (d : RawDoc) : fieldSome d "sources" = d.flat.sources.isSome := by rfl
theorem fs_names (d : RawDoc) : fieldSome d "names" = d.flat.names.isSome := by rfl

/-- exact characterisations, one per key -/
theorem emitted_file (d : RawDoc) (b : Bool) :
    (key "file", b) ∈ emitted d ↔ (b = true ∧ d.flat.file.isSome = true) := by
  rw [key_file, mem_emitted, entries_file]; cases b <;> simp [fs_file]
theorem emitted_sourceRoot (d : RawDoc) (b : Bool) :
    (key "sourceRoot", b) ∈ emitted d ↔ (b = true ∧ d.flat.sourceRoot.isSome = true) := by
  rw [key_sourceRoot, mem_emitted, entries_sourceRoot]; cases b <;> simp [fs_source_root]
theorem emitted_sourcesContent (d : RawDoc) (b : Bool) :
    (key "sourcesContent", b) ∈ emitted d ↔ (b = true ∧ d.flat.sourcesContent.isSome = true) := by
  rw [key_sourcesContent, mem_emitted, entries_sourcesContent]; cases b <;> simp [fs_sources_content]
theorem emitted_ignoreList (d : RawDoc) (b : Bool) :
    (key "ignoreList", b) ∈ emitted d ↔ (b = true ∧ d.flat.ignoreList.isSome = true) := by
  rw [key_ignoreList, mem_emitted, entries_ignoreList]; cases b <;> simp [fs_ignore_list]
theorem emitted_debug_id (d : RawDoc) (b : Bool) :
    (key "debug_id", b) ∈ emitted d ↔ (b = true ∧ d.flat.debugId.isSome = true) := by
  rw [key_debug_id, mem_emitted, entries_debug_id]; cases b <;> simp [fs_debug_id]

theorem optional_key_omitted (d : RawDoc) :
    (d.flat.file = none → key "file" ∉ emittedKeys d) ∧
    (d.flat.sourceRoot = none → key "sourceRoot" ∉ emittedKeys d) ∧
    (d.flat.sourcesContent = none → key "sourcesContent" ∉ emittedKeys d) ∧
    (d.flat.ignoreList = none → key "ignoreList" ∉ emittedKeys d) ∧
    (d.flat.debugId = none → key "debug_id" ∉ emittedKeys d) := by
  refine ⟨?_, ?_, ?_, ?_, ?_⟩ <;> intro h <;> rw [mem_emittedKeys] <;> rintro ⟨b, hb⟩
  · rw [emitted_file] at hb; simp [h] at hb
  · rw [emitted_sourceRoot] at hb; simp [h] at hb
  · rw [emitted_sourcesContent] at hb; simp [h] at hb
  · rw [emitted_ignoreList] at hb; simp [h] at hb
  · rw [emitted_debug_id] at hb; simp [h] at hb

theorem optional_never_null (d : RawDoc) : ∀ k ∈ optionalKeys, (k, false) ∉ emitted d := by
  intro k hk
  simp only [optionalKeys, List.mem_cons, List.not_mem_nil, or_false] at hk
  rcases hk with rfl | rfl | rfl | rfl | rfl
  · rw [emitted_file]; simp
  · rw [emitted_sourceRoot]; simp
  · rw [emitted_sourcesContent]; simp
  · rw [emitted_ignoreList]; simp
  · rw [emitted_debug_id]; simp

theorem present_key (d : RawDoc) :
    (d.flat.version.isSome → (key "version", true) ∈ emitted d) ∧
    (d.flat.mappings.isSome → (key "mappings", true) ∈ emitted d) ∧
    (d.flat.sources.isSome → (key "sources", true) ∈ emitted d) ∧
    (d.flat.names.isSome → (key "names", true) ∈ emitted d) := by
  refine ⟨?_, ?_, ?_, ?_⟩ <;> intro h
  · rw [key_version, mem_emitted, entries_version]; simpa [fs_version] using h
  · rw [key_mappings, mem_emitted, entries_mappings]; simpa [fs_mappings] using h
  · rw [key_sources, mem_emitted, entries_sources]; simpa [fs_sources] using h
  · rw [key_names, mem_emitted, entries_names]; simpa [fs_names] using h

theorem index_sources_null (file : Option Bytes) (rs : RawSecs) :
    (key "sources", false) ∈ emitted (.indexed (indexFlat file) rs) := by
  rw [key_sources, mem_emitted, entries_sources]
  simp [fs_sources, RawDoc.flat, indexFlat]

/-! ### 2. the regular map -/

theorem hasKey_iff (e : List (Bytes × Bool)) (k : Bytes) : hasKey e k = true ↔ ∃ b, (k, b) ∈ e := by
  unfold hasKey
  rw [List.any_eq_true]
  constructor
  · rintro ⟨⟨k', b⟩, hm, hk⟩
    have : k' = k := by simpa using hk
    subst this
    exact ⟨b, hm⟩
  · rintro ⟨b, hm⟩
    exact ⟨_, hm, by simp⟩

theorem isNullKey_iff (e : List (Bytes × Bool)) (k : Bytes) : isNullKey e k = true ↔ (k, false) ∈ e := by
  unfold isNullKey
  rw [List.any_eq_true]
  constructor
  · rintro ⟨⟨k', b⟩, hm, hk⟩
    have : k' = k ∧ b = false := by simpa using hk
    obtain ⟨rfl, rfl⟩ := this
    exact hm
  · intro hm
    exact ⟨_, hm, by simp⟩

theorem range_map_getElem? {α} (l : List α) : (List.range l.length).map (fun i => l[i]?) = l.map some := by
  apply List.ext_getElem
  · simp
  · intro i h1 h2
    simp at h1
    simp [h1]

theorem isAbsolute_eq (s : Bytes) : DocSpec.isAbsolute s = C02.isAbs s := by
  unfold DocSpec.isAbsolute C02.isAbs
  rw [C02.c02_abs_prefixes]
  simp [List.any, Bool.or_assoc]

theorem stripSlash_eq (r : Bytes) : DocSpec.stripSlash r = C02.stripSlash r := rfl

theorem prefixed_eq_join (root : Option Bytes) (sources : List Bytes) :
    (prefixedOf root sources).getD sources = sources.map (joinRoot root) := by
  unfold prefixedOf
  cases root with
  | none =>
    have : joinRoot none = id := by funext s; rfl
    simp [this]
  | some r =>
    by_cases hr : r.isEmpty = true
    · have : joinRoot (some r) = id := by funext s; simp [joinRoot, hr]
      simp [hr, this]
    · simp only [hr, Bool.false_eq_true, ↓reduceIte, Option.getD_some]
      apply List.map_congr_left
      intro s _
      rw [C02.prefixSource_eq]
      simp only [joinRoot, hr, Bool.false_eq_true, ↓reduceIte, isAbsolute_eq, stripSlash_eq]
      split <;> simp

theorem sources_ok (m : SMap) (h : WfMap m) :
    (((m.sources.map some).map fun s => joinRoot m.root (s.getD [])).map some) =
      (List.range m.sources.length).map m.getSource := by
  have hg : m.getSource = fun i => ((prefixedOf m.root m.sources).getD m.sources)[i]? := by
    funext i; unfold SMap.getSource; rw [h.prefixed]
  rw [hg, prefixed_eq_join]
  have := range_map_getElem? (m.sources.map (joinRoot m.root))
  rw [List.length_map] at this
  rw [this]
  simp [Function.comp_def]

theorem range_map_join {α} (l : List (Option α)) (n : Nat) (hn : l.length = n) :
    (List.range n).map (fun i => (l[i]?).join) = l := by
  subst hn
  apply List.ext_getElem
  · simp
  · intro i h1 h2
    simp [h2]

theorem sourceContents_length (m : SMap) : m.sourceContents.length = m.sources.length := by
  simp [SMap.sourceContents]

theorem all_none_eq {α} (l : List (Option α)) (h : l.any Option.isSome = false) (n : Nat) (hn : l.length = n) :
    (List.range n).map (fun i => (([] : List (Option α))[i]?).join) = l := by
  subst hn
  apply List.ext_getElem
  · simp
  · intro i h1 h2
    rw [List.any_eq_false] at h
    have := h l[i] (List.getElem_mem h2)
    simp only [List.getElem_map, List.getElem?_nil, Option.join_none]
    cases hx : l[i] with
    | none => rfl
    | some v => rw [hx] at this; simp at this

theorem contents_ok (m : SMap) :
    (List.range m.sources.length).map (fun i =>
      (((if m.sourceContents.any Option.isSome then some m.sourceContents else none).getD [])[i]?).join)
      = m.sourceContents := by
  by_cases hc : m.sourceContents.any Option.isSome = true
  · simp only [hc, ↓reduceIte, Option.getD_some]
    exact range_map_join _ _ (sourceContents_length m)
  · simp only [hc, Bool.false_eq_true, ↓reduceIte, Option.getD_none]
    exact all_none_eq _ (by simpa using hc) _ (sourceContents_length m)

theorem contents_len_ok (m : SMap) :
    ¬ ((if m.sourceContents.any Option.isSome then some m.sourceContents else none).getD []).length > m.sources.length := by
  by_cases hc : m.sourceContents.any Option.isSome = true
  · simp [hc, sourceContents_length]
  · simp [hc]

theorem all_isNone_eq {α} (l : List (Option α)) : l.all Option.isNone = !l.any Option.isSome := by
  induction l with
  | nil => rfl
  | cons a t ih => cases a <;> simp [ih]


/-- the shape of the record `asRawRegular` produces -/
theorem asRawRegular_ok {m : SMap} {f : RawFlat} (he : asRawRegular m = .ok f) :
    ∃ rm mp, serializeRangeMappings m.tokens = .ok rm ∧ serializeMappings m.tokens m.names.length = .ok mp ∧
      f = { version := some (Consts.encoderVersions.getD 0 0)
            file := m.file.map JVal.str
            sources := some (m.sources.map some)
            sourceRoot := m.root
            sourcesContent := if m.sourceContents.any Option.isSome then some m.sourceContents else none
            names := some (m.names.map JVal.str)
            rangeMappings := rm
            mappings := some mp
            ignoreList := if m.ignore.isEmpty then none else some m.ignore
            debugId := m.debugId } := by
  unfold asRawRegular at he
  dsimp only at he
  cases h1 : serializeRangeMappings m.tokens with
  | error e => rw [h1] at he; cases he
  | ok rm =>
    rw [h1] at he
    dsimp only at he
    cases h2 : serializeMappings m.tokens m.names.length with
    | error e => rw [h2] at he; cases he
    | ok mp =>
      rw [h2] at he
      exact ⟨rm, mp, rfl, rfl, (Except.ok.inj he).symm⟩

theorem spec_ok (m : SMap) (h : WfMap m) (rm : Option Bytes) (mp : Bytes)
    (h1 : serializeRangeMappings m.tokens = .ok rm) (h2 : serializeMappings m.tokens m.names.length = .ok mp) :
    specDecode mp (rm.getD []) m.sources.length m.names.length =
      .toks (roundTripSpec m.names.length m.tokens) := by
  obtain ⟨mp', rm', e1, e2, e3⟩ := SpecEnc.spec_reads_encoder m.sources.length m.names.length m.tokens h.toks h.sorted
  rw [h2] at e1
  rw [h1] at e2
  cases e1
  cases e2
  rw [e3]
  unfold roundTripSpec
  rw [C04.c04_sort_of_sorted m.tokens h.sorted]

theorem checkFlat_of_fields (m : SMap) (g : RawFlat) (mp : Bytes) (h : WfMap m)
    (hv : g.version = some 3) (hmp : g.mappings = some mp)
    (hspec : specDecode mp (g.rangeMappings.getD []) m.sources.length m.names.length =
      .toks (roundTripSpec m.names.length m.tokens))
    (hsrc : g.sources = some (m.sources.map some))
    (hnames : g.names = some (m.names.map JVal.str))
    (hroot : g.sourceRoot = m.root)
    (hfile : g.file = m.file.map JVal.str)
    (hdid : g.debugId = m.debugId)
    (hig : g.ignoreList = if m.ignore.isEmpty then none else some m.ignore)
    (hsc : g.sourcesContent = if m.sourceContents.any Option.isSome then some m.sourceContents else none) :
    checkFlat m g (emitted (.plain g)) = none := by
  have hflat : (RawDoc.plain g).flat = g := rfl
  have k0 : optionalKeys.any (isNullKey (emitted (.plain g))) = false := by
    rw [List.any_eq_false]
    intro k hk hn
    exact optional_never_null _ k hk ((isNullKey_iff _ _).mp hn)
  have k1 : (m.file.isNone && hasKey (emitted (.plain g)) (key "file")) = false := by
    rw [Bool.and_eq_false_iff]
    by_cases hh : hasKey (emitted (.plain g)) (key "file") = true
    · left
      obtain ⟨b, hb⟩ := (hasKey_iff _ _).mp hh
      rw [emitted_file, hflat, hfile] at hb
      cases hm : m.file <;> simp_all
    · right; simpa using hh
  have k2 : (m.root.isNone && hasKey (emitted (.plain g)) (key "sourceRoot")) = false := by
    rw [Bool.and_eq_false_iff]
    by_cases hh : hasKey (emitted (.plain g)) (key "sourceRoot") = true
    · left
      obtain ⟨b, hb⟩ := (hasKey_iff _ _).mp hh
      rw [emitted_sourceRoot, hflat, hroot] at hb
      cases hm : m.root <;> simp_all
    · right; simpa using hh
  have k3 : (m.sourceContents.all Option.isNone && hasKey (emitted (.plain g)) (key "sourcesContent")) = false := by
    rw [Bool.and_eq_false_iff]
    by_cases hh : hasKey (emitted (.plain g)) (key "sourcesContent") = true
    · left
      obtain ⟨b, hb⟩ := (hasKey_iff _ _).mp hh
      rw [emitted_sourcesContent, hflat, hsc] at hb
      rw [all_isNone_eq]
      by_cases hc : m.sourceContents.any Option.isSome = true
      · simp [hc]
      · simp [hc] at hb
    · right; simpa using hh
  have k4 : (m.ignore.isEmpty && hasKey (emitted (.plain g)) (key "ignoreList")) = false := by
    rw [Bool.and_eq_false_iff]
    by_cases hh : hasKey (emitted (.plain g)) (key "ignoreList") = true
    · left
      obtain ⟨b, hb⟩ := (hasKey_iff _ _).mp hh
      rw [emitted_ignoreList, hflat, hig] at hb
      by_cases hc : m.ignore.isEmpty = true
      · simp [hc] at hb
      · simpa using hc
    · right; simpa using hh
  have k5 : (m.debugId.isNone && hasKey (emitted (.plain g)) (key "debug_id")) = false := by
    rw [Bool.and_eq_false_iff]
    by_cases hh : hasKey (emitted (.plain g)) (key "debug_id") = true
    · left
      obtain ⟨b, hb⟩ := (hasKey_iff _ _).mp hh
      rw [emitted_debug_id, hflat, hdid] at hb
      cases hm : m.debugId <;> simp_all
    · right; simpa using hh
  have k6 : (hasKey (emitted (.plain g)) (key "version") && hasKey (emitted (.plain g)) (key "mappings") &&
      hasKey (emitted (.plain g)) (key "sources") && hasKey (emitted (.plain g)) (key "names")) = true := by
    obtain ⟨p1, p2, p3, p4⟩ := present_key (.plain g)
    rw [hflat] at p1 p2 p3 p4
    have q1 := (hasKey_iff _ _).mpr ⟨true, p1 (by simp [hv])⟩
    have q2 := (hasKey_iff _ _).mpr ⟨true, p2 (by simp [hmp])⟩
    have q3 := (hasKey_iff _ _).mpr ⟨true, p3 (by simp [hsrc])⟩
    have q4 := (hasKey_iff _ _).mpr ⟨true, p4 (by simp [hnames])⟩
    simp [q1, q2, q3, q4]
  have s1 : (g.sources.isNone || (g.sources.getD []).any Option.isNone) = false := by
    rw [hsrc]; simp
  have s2 : ((g.sources.getD []).map fun s => joinRoot g.sourceRoot (s.getD [])).map some =
      (List.range m.sources.length).map m.getSource := by
    rw [hsrc, hroot]; exact sources_ok m h
  have i1 : g.ignoreList.getD [] = m.ignore := by
    rw [hig]
    by_cases hc : m.ignore.isEmpty = true
    · simp only [hc, ↓reduceIte, Option.getD_none]
      exact (List.isEmpty_iff.mp hc).symm
    · simp [hc]
  have i2 : g.ignoreList ≠ some [] := by
    rw [hig]
    by_cases hc : m.ignore.isEmpty = true
    · simp [hc]
    · simp only [hc, Bool.false_eq_true, ↓reduceIte, ne_eq, Option.some.injEq]
      intro hn; rw [hn] at hc; simp at hc
  have c1 : (List.range m.sources.length).map (fun i => ((g.sourcesContent.getD [])[i]?).join) = m.sourceContents := by
    rw [hsc]; exact contents_ok m
  have c2 : ¬ (g.sourcesContent.getD []).length > m.sources.length := by
    rw [hsc]; exact contents_len_ok m
  unfold checkFlat
  simp only [hmp, hspec]
  rw [if_neg (by simp [hv]), if_neg (by simp), if_neg (by simp [s1]), if_neg (by simp [s2]),
    if_neg (by simp [hnames]), if_neg (by simp [hroot]), if_neg (by simp [hfile]), if_neg (by simp [hdid]),
    if_neg (by simp [i1]), if_neg i2, if_neg (by simp [c1]), if_neg c2, if_neg (by simp [k0]),
    if_neg (by simp [k1]), if_neg (by simp [k2]), if_neg (by simp [k3]), if_neg (by simp [k4]),
    if_neg (by simp [k5]), if_neg (by simp [k6])]

theorem checkFlat_ok (m : SMap) (f : RawFlat) (x : Option FbSources) (h : WfMap m) (he : asRawRegular m = .ok f) :
    checkFlat m { f with fbSources := x } (emitted (.plain { f with fbSources := x })) = none := by
  obtain ⟨rm, mp, h1, h2, rfl⟩ := asRawRegular_ok he
  refine checkFlat_of_fields m _ mp h ?_ rfl ?_ rfl rfl rfl rfl rfl rfl rfl
  · show some (Consts.encoderVersions.getD 0 0) = some 3
    have : Consts.encoderVersions.getD 0 0 = 3 := by decide
    rw [this]
  · exact spec_ok m h rm mp h1 h2

/-! ### hypotheses of the theorems below are met by concrete, non-trivial maps -/

/-- a map with a root ending in `/`, a relative and an absolute source, contents for the first source
only, an ignore list, a token without name and a duplicate token -/
def exMap : SMap :=
  { file := some [97], tokens := [⟨0, 0, 0, 0, 0, 0, false⟩, ⟨0, 0, 0, 0, 0, 0, false⟩, ⟨0, 5, 3, 2, 1, NONE, false⟩, ⟨2, 1, 0, 0, NONE, 7, true⟩],
    names := [[110]], root := some [114, 47], sources := [[97], [47, 98]],
    prefixed := some [[114, 47, 97], [47, 98]], contents := [some [120]], ignore := [1] }

theorem exMap_wf : WfMap exMap where
  toks := by decide
  sorted := by simp [exMap, SortedByPos, Lookup.posLe, Tok.pos]
  prefixed := by decide
  ignore := by simp [exMap]

example : ∃ f, asRawRegular exMap = .ok f := ⟨_, rfl⟩

def exIndex : DMap :=
  .index (some [105]) (.cons 0 0 none (.some (.hermes exMap [none, none]))
    (.cons 1 0 (some [117]) .none (.cons 1 0 none (.some (.index none .nil none none)) .nil))) none none

example : WfD WfMap exIndex := by
  simp [exIndex, WfD, WfSecs, WfOpt, secsSorted, offLe, exMap_wf]
example : ∃ r, asRaw exIndex = .ok r := ⟨_, rfl⟩

/-! ### 3. index maps -/

theorem index_version (file : Option Bytes) : (indexFlat file).version = some 3 := by
  show some (Consts.encoderVersions.getD 1 0) = some 3
  have : Consts.encoderVersions.getD 1 0 = 3 := by decide
  rw [this]

theorem index_file (file : Option Bytes) : (indexFlat file).file = file.map JVal.str := rfl

theorem index_file_key (file : Option Bytes) (rs : RawSecs) :
    (file.isNone && hasKey (emitted (.indexed (indexFlat file) rs)) (key "file")) = false := by
  rw [Bool.and_eq_false_iff]
  by_cases hh : hasKey (emitted (.indexed (indexFlat file) rs)) (key "file") = true
  · left
    obtain ⟨b, hb⟩ := (hasKey_iff _ _).mp hh
    rw [emitted_file] at hb
    have : (RawDoc.indexed (indexFlat file) rs).flat.file = file.map JVal.str := rfl
    rw [this] at hb
    cases file <;> simp_all
  · right; simpa using hh

theorem index_file_null (file : Option Bytes) (rs : RawSecs) :
    isNullKey (emitted (.indexed (indexFlat file) rs)) (key "file") = false := by
  cases hn : isNullKey (emitted (.indexed (indexFlat file) rs)) (key "file") with
  | false => rfl
  | true =>
    have := (isNullKey_iff _ _).mp hn
    rw [emitted_file] at this
    simp at this

/-- the `file` key of an index map is present exactly when the map has a file, and never null -/
theorem index_file_emitted (file : Option Bytes) (rs : RawSecs) (b : Bool) :
    (key "file", b) ∈ emitted (.indexed (indexFlat file) rs) ↔ (b = true ∧ file.isSome = true) := by
  rw [emitted_file]
  have : (RawDoc.indexed (indexFlat file) rs).flat.file = file.map JVal.str := rfl
  rw [this]
  simp

mutual
theorem checkEncoded_ok : ∀ (dm : DMap) (r : RawDoc), WfD WfMap dm → asRaw dm = .ok r → checkEncoded dm r = none
  | .regular m, r, hw, he => by
    rw [asRaw] at he
    rw [WfD] at hw
    cases hf : asRawRegular m with
    | error e => rw [hf] at he; cases he
    | ok f =>
      rw [hf] at he
      cases he
      rw [checkEncoded]
      exact checkFlat_ok m f f.fbSources hw hf
  | .hermes m raw, r, hw, he => by
    rw [asRaw] at he
    rw [WfD] at hw
    cases hf : asRawRegular m with
    | error e => rw [hf] at he; cases he
    | ok f =>
      rw [hf] at he
      cases he
      rw [checkEncoded]
      rw [if_neg (by simp)]
      exact checkFlat_ok m f (some raw) hw hf
  | .index file secs a b, r, hw, he => by
    rw [asRaw] at he
    rw [WfD] at hw
    cases hs : asRawSecs secs with
    | error e => rw [hs] at he; cases he
    | ok rs =>
      rw [hs] at he
      cases he
      rw [checkEncoded]
      rw [if_neg (by simp [index_version]), if_neg (by simp [index_file]),
        if_neg (by simp [index_file_key]), if_neg (by simp [index_file_null])]
      exact checkSecs_ok secs rs hw.2 hs
theorem checkSecs_ok : ∀ (secs : DSecs) (rs : RawSecs), WfSecs WfMap secs → asRawSecs secs = .ok rs → checkSecs secs rs = none
  | .nil, rs, _, he => by
    rw [asRawSecs] at he
    cases he
    rw [checkSecs]
  | .cons l c u m rest, rs, hw, he => by
    rw [asRawSecs] at he
    rw [WfSecs] at hw
    cases ho : asRawOpt m with
    | error e => rw [ho] at he; cases he
    | ok rm =>
      rw [ho] at he
      dsimp only at he
      cases hr : asRawSecs rest with
      | error e => rw [hr] at he; cases he
      | ok rs' =>
        rw [hr] at he
        cases he
        rw [checkSecs]
        rw [if_neg (by simp), if_neg (by simp), checkOpt_ok m rm hw.1 ho]
        exact checkSecs_ok rest rs' hw.2 hr
theorem checkOpt_ok : ∀ (o : DOpt) (ro : RawOpt), WfOpt WfMap o → asRawOpt o = .ok ro → checkOpt o ro = none
  | .none, ro, _, he => by
    rw [asRawOpt] at he
    cases he
    rw [checkOpt]
  | .some m, ro, hw, he => by
    rw [asRawOpt] at he
    rw [WfOpt] at hw
    cases hd : asRaw m with
    | error e => rw [hd] at he; cases he
    | ok d =>
      rw [hd] at he
      cases he
      rw [checkOpt]
      exact checkEncoded_ok m d hw hd
end

end SmVerif.RawEnc
