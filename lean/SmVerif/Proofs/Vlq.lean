import SmVerif.Model.Vlq
/-
Helper lemmas about the VLQ model (core Lean only).
-/
namespace SmVerif.Vlq
open SmVerif

theorem wrap64_id {x : Int} (h1 : -9223372036854775808 ≤ x) (h2 : x < 9223372036854775808) :
    wrap64 x = x := by
  unfold wrap64; omega

theorem inI64_of {x : Int} (h1 : -9223372036854775808 ≤ x) (h2 : x < 9223372036854775808) :
    inI64 x = true := by
  unfold inI64; simp; omega

theorem unzig_zig (x : Int) : unzig (zig x) = x := by
  unfold unzig zig; split <;> split <;> omega

theorem finish_nat (m : Nat) : finish (m : Int) = unzig m := by
  unfold finish unzig
  split <;> split <;> omega

theorem pow5_succ (k : Nat) : 2 ^ (5 * (k + 1)) = 32 * 2 ^ (5 * k) := by
  rw [Nat.mul_add, Nat.pow_add]; omega

theorem two_pow_pos' (k : Nat) : 0 < 2 ^ k := Nat.pow_pos (by omega)

theorem cast_two_pow (k : Nat) : (2 : Int) ^ k = ((2 ^ k : Nat) : Int) := by
  simp

/-- one step of `decLoop` on a continuation digit without wrap-around -/
theorem decLoop_cons (d : Nat) (ds : List Nat) (cur : Int) (k : Nat) (acc : List Int) (hk : k < 13) :
    decLoop (d :: ds) cur k acc =
      (let cur' := cur + wrap64 ((d % 32 : Nat) * (2 : Int) ^ (5 * k))
       if !inI64 cur' then .error .panic
       else if d / 32 = 0 then decLoop ds 0 0 (finish cur' :: acc)
       else decLoop ds cur' (k + 1) acc) := by
  rw [decLoop]
  have : ¬ 13 ≤ k := by omega
  simp [this]

/-- the core round-trip lemma: decoding the digits of `n` adds `n · 2^(5k)` to the accumulator -/
theorem decLoop_encDigits (n : Nat) : ∀ (c k : Nat) (rest : List Nat) (acc : List Int),
    k < 13 → c + n * 2 ^ (5 * k) < 9223372036854775808 →
    decLoop (encDigits n ++ rest) (c : Int) k acc
      = decLoop rest 0 0 (unzig (c + n * 2 ^ (5 * k)) :: acc) := by
  induction n using Nat.strongRecOn with
  | _ n ih =>
    intro c k rest acc hk hb
    have hP := two_pow_pos' (5 * k)
    rw [encDigits]
    split
    · -- last digit
      rename_i hn
      simp only [List.cons_append, List.nil_append]
      rw [decLoop_cons _ _ _ _ _ hk]
      have hmod : n % 32 = n := Nat.mod_eq_of_lt hn
      have hdiv : n / 32 = 0 := Nat.div_eq_of_lt hn
      simp only [hmod, hdiv]
      have hx : ((n : Nat) : Int) * (2 : Int) ^ (5 * k) = ((n * 2 ^ (5 * k) : Nat) : Int) := by
        simp
      rw [hx]
      have hlt : ((n * 2 ^ (5 * k) : Nat) : Int) < 9223372036854775808 := by omega
      rw [wrap64_id (by omega) hlt]
      have hin : inI64 ((c : Int) + ((n * 2 ^ (5 * k) : Nat) : Int)) = true :=
        inI64_of (by omega) (by omega)
      simp only [hin]
      have : (c : Int) + ((n * 2 ^ (5 * k) : Nat) : Int) = ((c + n * 2 ^ (5 * k) : Nat) : Int) := by
        omega
      rw [this, finish_nat]
      simp
    · rename_i hn
      have hn : 32 ≤ n := by omega
      simp only [List.cons_append]
      rw [decLoop_cons _ _ _ _ _ hk]
      have hmod : (n % 32 + 32) % 32 = n % 32 := by omega
      have hdiv : ¬ (n % 32 + 32) / 32 = 0 := by omega
      simp only [hmod, hdiv]
      -- bounds
      have hsplit : n * 2 ^ (5 * k) = (n % 32) * 2 ^ (5 * k) + (n / 32) * (32 * 2 ^ (5 * k)) := by
        have h := Nat.div_add_mod n 32
        calc n * 2 ^ (5 * k) = (32 * (n / 32) + n % 32) * 2 ^ (5 * k) := by rw [h]
          _ = (n % 32) * 2 ^ (5 * k) + (n / 32) * (32 * 2 ^ (5 * k)) := by
            rw [Nat.add_mul, Nat.add_comm, Nat.mul_assoc, Nat.mul_left_comm]
      have hk1 : k + 1 < 13 := by
        -- 32 * 2^(5k) ≤ n * 2^(5k) < 2^63
        have h1 : 32 * 2 ^ (5 * k) ≤ n * 2 ^ (5 * k) := Nat.mul_le_mul_right _ hn
        have h2 : 2 ^ (5 * (k + 1)) < 2 ^ 63 := by rw [pow5_succ]; omega
        have h3 : 5 * (k + 1) < 63 := (Nat.pow_lt_pow_iff_right (by omega)).mp h2
        omega
      have hx : ((n % 32 : Nat) : Int) * (2 : Int) ^ (5 * k) = (((n % 32) * 2 ^ (5 * k) : Nat) : Int) := by
        simp
      rw [hx]
      have hle : (n / 32) * (32 * 2 ^ (5 * k)) ≥ 0 := Nat.zero_le _
      rw [wrap64_id (by omega) (by omega)]
      have hin : inI64 ((c : Int) + (((n % 32) * 2 ^ (5 * k) : Nat) : Int)) = true :=
        inI64_of (by omega) (by omega)
      simp only [hin]
      have hc' : (c : Int) + (((n % 32) * 2 ^ (5 * k) : Nat) : Int)
          = ((c + (n % 32) * 2 ^ (5 * k) : Nat) : Int) := by omega
      rw [hc']
      have := ih (n / 32) (by omega) (c + (n % 32) * 2 ^ (5 * k)) (k + 1) rest acc hk1
        (by rw [pow5_succ]; omega)
      simp only [Bool.not_true, Bool.false_eq_true, ↓reduceIte] at *
      rw [this]
      congr 3
      rw [pow5_succ]; omega

end SmVerif.Vlq

namespace SmVerif.Vlq
open SmVerif

/-! ### the regenerated tables -/

theorem b64Rev_b64Char : ∀ d, d < 64 → b64Rev (b64Char d) = some d := by
  decide +kernel

theorem b64Rev_foreign : ∀ c, c < 256 → c ∉ Consts.b64Chars → b64Rev c = none := by
  decide +kernel

theorem b64Rev_big (c : Nat) (h : 256 ≤ c) : b64Rev c = none := by
  unfold b64Rev
  have : Consts.b64Table.length = 256 := by decide +kernel
  have : Consts.b64Table[c]? = none := by
    rw [List.getElem?_eq_none_iff]; omega
  simp [this]

theorem b64Rev_lt : ∀ c, c < 256 → ∀ d, b64Rev c = some d → d < 64 := by
  decide +kernel

/-! ### bytes vs digits -/

theorem parseLoop_eq_decLoop : ∀ (bs ds : List Nat) (cur : Int) (k : Nat) (acc : List Int),
    toDigits bs = some ds → parseLoop bs cur k acc = decLoop ds cur k acc := by
  intro bs
  induction bs with
  | nil =>
    intro ds cur k acc h
    simp [toDigits] at h
    subst h
    simp [parseLoop]
  | cons c cs ih =>
    intro ds cur k acc h
    simp only [toDigits] at h
    cases hc : b64Rev c with
    | none => simp [hc] at h
    | some d =>
      simp only [hc] at h
      cases hcs : toDigits cs with
      | none => simp [hcs] at h
      | some ds' =>
        simp [hcs] at h
        subst h
        rw [parseLoop, decLoop]
        simp only [hc]
        split
        · rfl
        · split
          · rfl
          · split
            · exact ih ds' 0 0 _ hcs
            · exact ih ds' _ _ _ hcs

theorem toDigits_map_b64Char : ∀ ds : List Nat, (∀ d ∈ ds, d < 64) →
    toDigits (ds.map b64Char) = some ds := by
  intro ds
  induction ds with
  | nil => intro _; rfl
  | cons d ds ih =>
    intro h
    have hd : d < 64 := h d (by simp)
    simp only [List.map_cons, toDigits, b64Rev_b64Char d hd]
    rw [ih (fun x hx => h x (by simp [hx]))]
    rfl

theorem encDigits_lt (n : Nat) : ∀ d ∈ encDigits n, d < 64 := by
  induction n using Nat.strongRecOn with
  | _ n ih =>
    rw [encDigits]
    split
    · intro d hd; simp at hd; omega
    · intro d hd
      simp only [List.mem_cons] at hd
      cases hd with
      | inl h => omega
      | inr h => exact ih (n / 32) (by omega) d h

theorem toDigits_append : ∀ (a b : List Nat) (da db : List Nat),
    toDigits a = some da → toDigits b = some db → toDigits (a ++ b) = some (da ++ db) := by
  intro a
  induction a with
  | nil => intro b da db ha hb; simp [toDigits] at ha; subst ha; simpa using hb
  | cons c cs ih =>
    intro b da db ha hb
    simp only [toDigits] at ha
    cases hc : b64Rev c with
    | none => simp [hc] at ha
    | some d =>
      simp only [hc] at ha
      cases hcs : toDigits cs with
      | none => simp [hcs] at ha
      | some ds' =>
        simp [hcs] at ha
        subst ha
        simp only [List.cons_append, toDigits, hc, ih b ds' db hcs hb]
        rfl

/-! ### encoder facts -/

theorem encodeVlq_of_zig (x : Int) (h1 : -4611686018427387904 < x) (h2 : x < 4611686018427387904) :
    encodeVlq x = .ok ((encDigits (zig x)).map b64Char) := by
  unfold encodeVlq
  have hne : ¬ x = -9223372036854775808 := by omega
  simp only [hne, ↓reduceIte]
  by_cases hx : x < 0
  · simp only [hx, ↓reduceIte]
    rw [wrap64_id (by omega) (by omega)]
    have : ¬ (2 * -x + 1 < 0) := by omega
    simp only [this, ↓reduceIte]
    have : (2 * -x + 1).toNat = zig x := by unfold zig; simp only [hx, ↓reduceIte]; omega
    rw [this]
  · simp only [hx, ↓reduceIte]
    rw [wrap64_id (by omega) (by omega)]
    have : ¬ (2 * x < 0) := by omega
    simp only [this, ↓reduceIte]
    have : (2 * x).toNat = zig x := by unfold zig; simp only [hx, ↓reduceIte]; omega
    rw [this]

theorem zig_lt (x : Int) (h1 : -4611686018427387904 < x) (h2 : x < 4611686018427387904) :
    zig x < 9223372036854775808 := by
  unfold zig; split <;> omega

/-- digits emitted for a list of in-range integers -/
def segDigits (xs : List Int) : List Nat := (xs.map fun x => encDigits (zig x)).flatten

theorem encodeSeg_ok : ∀ xs : List Int,
    (∀ x ∈ xs, -4611686018427387904 < x ∧ x < 4611686018427387904) →
    encodeSeg xs = .ok ((segDigits xs).map b64Char) := by
  intro xs
  induction xs with
  | nil => intro _; rfl
  | cons x xs ih =>
    intro h
    have hx := h x (by simp)
    rw [encodeSeg, encodeVlq_of_zig x hx.1 hx.2, ih (fun y hy => h y (by simp [hy]))]
    simp [segDigits]

theorem segDigits_lt (xs : List Int) : ∀ d ∈ segDigits xs, d < 64 := by
  intro d hd
  simp only [segDigits, List.mem_flatten, List.mem_map] at hd
  obtain ⟨l, ⟨x, _, rfl⟩, hdl⟩ := hd
  exact encDigits_lt _ d hdl

theorem decLoop_segDigits : ∀ (xs : List Int) (acc : List Int) (rest : List Nat),
    (∀ x ∈ xs, -4611686018427387904 < x ∧ x < 4611686018427387904) →
    decLoop (segDigits xs ++ rest) 0 0 acc = decLoop rest 0 0 (xs.reverse ++ acc) := by
  intro xs
  induction xs with
  | nil => intro acc rest _; simp [segDigits]
  | cons x xs ih =>
    intro acc rest h
    have hx := h x (by simp)
    have hz := zig_lt x hx.1 hx.2
    have : segDigits (x :: xs) ++ rest = encDigits (zig x) ++ (segDigits xs ++ rest) := by
      simp [segDigits]
    rw [this]
    have hd := decLoop_encDigits (zig x) 0 0 (segDigits xs ++ rest) acc (by omega) (by simpa using hz)
    simp only [Int.natCast_zero] at hd
    rw [hd, ih _ _ (fun y hy => h y (by simp [hy]))]
    simp [unzig_zig]

end SmVerif.Vlq
