import SmVerif.Proofs.Builder
/-
C13 — the model of `SourceMapBuilder` refines the abstract interning model, call by call.
-/
namespace SmVerif.C13
open SmVerif SmVerif.C13Spec

theorem none_eq : C13Spec.NONE = SmVerif.NONE := rfl

/-- the id stored in a token against the string the token was added with -/
def idRel (l : List Bytes) (i : Nat) : Option Bytes → Prop
  | none => i = SmVerif.NONE
  | some s => l[i]? = some s

/-- a stored token against the abstract token -/
def tokRel (srcs names : List Bytes) (t : Tok) : ATok → Prop
  | .named dl dc sl sc src name rng =>
    t.dl = dl ∧ t.dc = dc ∧ t.sl = sl ∧ t.sc = sc ∧ t.rng = rng ∧ idRel srcs t.src src ∧ idRel names t.name name
  | .raw dl dc sl sc src name rng =>
    t = { dl := dl, dc := dc, sl := sl, sc := sc, src := src.getD SmVerif.NONE,
          name := name.getD SmVerif.NONE, rng := rng }

def toksRel (srcs names : List Bytes) : List Tok → List ATok → Prop
  | [], [] => True
  | t :: ts, x :: xs => tokRel srcs names t x ∧ toksRel srcs names ts xs
  | [], _ :: _ => False
  | _ :: _, [] => False

theorem idRel.ext {l l' : List Bytes} (h : Ext l l') {i : Nat} {o : Option Bytes} (hr : idRel l i o) : idRel l' i o := by
  cases o with
  | none => exact hr
  | some s => exact h i s hr

theorem tokRel.ext {s s' n n' : List Bytes} (hs : Ext s s') (hn : Ext n n') {t : Tok} {x : ATok}
    (hr : tokRel s n t x) : tokRel s' n' t x := by
  cases x with
  | named dl dc sl sc src name rng =>
    obtain ⟨h1, h2, h3, h4, h5, h6, h7⟩ := hr
    exact ⟨h1, h2, h3, h4, h5, h6.ext hs, h7.ext hn⟩
  | raw dl dc sl sc src name rng => exact hr

theorem toksRel.ext {s s' n n' : List Bytes} (hs : Ext s s') (hn : Ext n n') :
    ∀ {ts : List Tok} {xs : List ATok}, toksRel s n ts xs → toksRel s' n' ts xs
  | [], [], _ => trivial
  | _ :: _, _ :: _, h => ⟨h.1.ext hs hn, toksRel.ext hs hn h.2⟩
  | [], _ :: _, h => h.elim
  | _ :: _, [], h => h.elim

theorem toksRel.snoc {s n : List Bytes} {t : Tok} {x : ATok} (ht : tokRel s n t x) :
    ∀ {ts : List Tok} {xs : List ATok}, toksRel s n ts xs → toksRel s n (ts ++ [t]) (xs ++ [x])
  | [], [], _ => ⟨ht, trivial⟩
  | _ :: _, _ :: _, h => ⟨h.1, toksRel.snoc ht h.2⟩
  | [], _ :: _, h => h.elim
  | _ :: _, [], h => h.elim

theorem toksRel.map_eq {β} {s n : List Bytes} (f : Tok → β) (g : ATok → β)
    (hfg : ∀ t x, tokRel s n t x → f t = g x) :
    ∀ {ts : List Tok} {xs : List ATok}, toksRel s n ts xs → ts.map f = xs.map g
  | [], [], _ => rfl
  | t :: _, x :: _, h => by
    simp only [List.map_cons]
    rw [hfg t x h.1, toksRel.map_eq f g hfg h.2]
  | [], _ :: _, h => h.elim
  | _ :: _, [], h => h.elim

/-- the refinement relation between a builder state and the abstract interning model -/
structure Rel (b : Bld) (a : ABld) : Prop where
  sources : a.sources = b.sources
  names : a.names = b.names
  root : a.root = b.root
  file : a.file = b.file
  debugId : a.debugId = b.debugId
  ignore : a.ignore = b.ignore
  contents : ∀ i, b.getSourceContents i = lookupLog i a.contents
  toks : toksRel b.sources b.names b.tokens a.toks

theorem rel_new (f : Option Bytes) : Rel (Bld.new f) { file := f } :=
  ⟨rfl, rfl, rfl, rfl, rfl, rfl, fun i => by simp [Bld.getSourceContents, Bld.new, lookupLog], trivial⟩

theorem setInsert_eq : ∀ (x : Nat) (l : List Nat), setInsert x l = SMap.insertSorted x l
  | _, [] => rfl
  | x, y :: ys => by
    simp only [setInsert, SMap.insertSorted, setInsert_eq x ys]

/-! ### `Vec::resize` and `set_source_contents` -/

theorem resizeOpt_length (l : List (Option Bytes)) (n : Nat) (h : l.length ≤ n) : (SMap.resizeOpt l n).length = n := by
  unfold SMap.resizeOpt; split
  · simp; omega
  · simp; omega

theorem resizeOpt_get (l : List (Option Bytes)) (n : Nat) (h : l.length ≤ n) (j : Nat) :
    ((SMap.resizeOpt l n)[j]?).join = (l[j]?).join := by
  unfold SMap.resizeOpt; split
  · rw [List.take_of_length_le (by omega)]
  · rw [List.getElem?_append]
    by_cases hj : j < l.length
    · simp [hj]
    · simp only [hj, ↓reduceIte]
      rw [List.getElem?_eq_none (Nat.le_of_not_lt hj)]
      by_cases h2 : j - l.length < n - l.length
      · simp [h2]
      · simp [h2]

theorem bld_setSourceContents_ok (b : Bld) (hI : Inv b) (i : Nat) (v : Option Bytes)
    (hi : i < b.sources.length) (hn : i ≠ SmVerif.NONE) :
    ∃ c, b.setSourceContents i v = .ok { b with contents := c } ∧ c.length = b.sources.length ∧
      ∀ j, (c[j]?).join = if j = i then v else (b.contents[j]?).join := by
  unfold Bld.setSourceContents
  simp only [hn, ↓reduceIte]
  have hle := hI.contents_le
  by_cases hgt : b.sources.length > b.contents.length
  · simp only [hgt, ↓reduceIte]
    have hl := resizeOpt_length b.contents b.sources.length hle
    have hi' : ¬ i ≥ (SMap.resizeOpt b.contents b.sources.length).length := by omega
    simp only [hi', ↓reduceIte]
    refine ⟨_, rfl, by simp [hl], ?_⟩
    intro j
    rw [List.getElem?_set]
    by_cases hji : i = j
    · subst hji; simp [hl, hi]
    · have : ¬ j = i := fun e => hji e.symm
      simp only [hji, this, ↓reduceIte]
      exact resizeOpt_get _ _ hle j
  · simp only [hgt, ↓reduceIte]
    have hl : b.contents.length = b.sources.length := by omega
    have hi' : ¬ i ≥ b.contents.length := by omega
    simp only [hi', ↓reduceIte]
    refine ⟨_, rfl, by simp [hl], ?_⟩
    intro j
    rw [List.getElem?_set]
    by_cases hji : i = j
    · subst hji; simp [hl, hi]
    · have : ¬ j = i := fun e => hji e.symm
      simp only [hji, this, ↓reduceIte]

theorem bld_setSourceContents_err (b : Bld) (hI : Inv b) (i : Nat) (v : Option Bytes)
    (h : ¬ (i < b.sources.length ∧ i ≠ SmVerif.NONE)) : b.setSourceContents i v = .error .panic := by
  unfold Bld.setSourceContents
  by_cases hn : i = SmVerif.NONE
  · simp [hn]
  · simp only [hn, ↓reduceIte]
    have hi : ¬ i < b.sources.length := fun hlt => h ⟨hlt, hn⟩
    have hle := hI.contents_le
    by_cases hgt : b.sources.length > b.contents.length
    · simp only [hgt, ↓reduceIte]
      have hl := resizeOpt_length b.contents b.sources.length hle
      have hi' : i ≥ (SMap.resizeOpt b.contents b.sources.length).length := by omega
      simp [hi']
    · simp only [hgt, ↓reduceIte]
      have hi' : i ≥ b.contents.length := by omega
      simp [hi']

/-! ### one call -/

/-- what a successful call guarantees besides the refinement: tables only grow at the end -/
structure Grows (b b' : Bld) : Prop where
  sources : Ext b.sources b'.sources
  names : Ext b.names b'.names
  tokens : ∃ r, b'.tokens = b.tokens ++ r

theorem Grows.refl (b : Bld) : Grows b b := ⟨Ext.refl _, Ext.refl _, [], by simp⟩
theorem Grows.trans {a b c : Bld} (h1 : Grows a b) (h2 : Grows b c) : Grows a c := by
  obtain ⟨r1, e1⟩ := h1.tokens
  obtain ⟨r2, e2⟩ := h2.tokens
  exact ⟨h1.sources.trans h2.sources, h1.names.trans h2.names, r1 ++ r2, by rw [e2, e1, List.append_assoc]⟩

theorem optIntern_getElem? (l : List Bytes) (o : Option Bytes) : idRel (optIntern l o) (optId l o) o := by
  cases o with
  | none => exact none_eq
  | some s => exact intern_getElem? l s

/-- every successful call of the model is a call of the abstract model with the same result -/
theorem step_ok (b : Bld) (a : ABld) (hI : Inv b) (hR : Rel b a) (op : BOp) (b' : Bld) (o : BOut)
    (h : b.step op = .ok (b', o)) :
    ∃ a', a.step op = some (a', o) ∧ Rel b' a' ∧ Inv b' ∧ Grows b b' := by
  cases op with
  | addSource s =>
    simp only [Bld.step, Except.ok.injEq, Prod.mk.injEq] at h
    obtain ⟨hb, ho⟩ := h
    obtain ⟨h1, h2, _, _, hn, _, hc, ht, hi, hr, hf, hd⟩ := addSourceWithId_spec b hI s SmVerif.NONE
    have hI' := inv_addSourceWithId b hI s SmVerif.NONE
    change (b.addSource s).2 = _ at h1
    change (b.addSource s).1.sources = _ at h2
    change (b.addSource s).1.names = _ at hn
    change (b.addSource s).1.contents = _ at hc
    change (b.addSource s).1.tokens = _ at ht
    change (b.addSource s).1.ignore = _ at hi
    change (b.addSource s).1.root = _ at hr
    change (b.addSource s).1.file = _ at hf
    change (b.addSource s).1.debugId = _ at hd
    change Inv (b.addSource s).1 at hI'
    rw [hb] at h2 hn hc ht hi hr hf hd hI'
    refine ⟨{ a with sources := intern a.sources s }, ?_, ?_, hI', ?_⟩
    · simp only [ABld.step, hR.sources, ← ho, h1]
    · refine ⟨by simp [hR.sources, h2], by simp [hR.names, hn], by simp [hR.root, hr], by simp [hR.file, hf],
        by simp [hR.debugId, hd], by simp [hR.ignore, hi], ?_, ?_⟩
      · intro i; simp only [Bld.getSourceContents, hc]; exact hR.contents i
      · rw [ht, hn, h2]; exact hR.toks.ext (ext_intern _ _) (Ext.refl _)
    · exact ⟨by rw [h2]; exact ext_intern _ _, by rw [hn]; exact Ext.refl _, [], by simp [ht]⟩
  | addName s =>
    simp only [Bld.step, Except.ok.injEq, Prod.mk.injEq] at h
    obtain ⟨hb, ho⟩ := h
    obtain ⟨h1, h2, _, hs, _, _, hc, ht, hi, hr, hf, hd⟩ := addName_spec b hI s
    have hI' := inv_addName b hI s
    rw [hb] at h2 hs hc ht hi hr hf hd hI'
    refine ⟨{ a with names := intern a.names s }, ?_, ?_, hI', ?_⟩
    · simp only [ABld.step, hR.names, ← ho, h1]
    · refine ⟨by simp [hR.sources, hs], by simp [hR.names, h2], by simp [hR.root, hr], by simp [hR.file, hf],
        by simp [hR.debugId, hd], by simp [hR.ignore, hi], ?_, ?_⟩
      · intro i; simp only [Bld.getSourceContents, hc]; exact hR.contents i
      · rw [ht, hs, h2]; exact hR.toks.ext (Ext.refl _) (ext_intern _ _)
    · exact ⟨by rw [hs]; exact Ext.refl _, by rw [h2]; exact ext_intern _ _, [], by simp [ht]⟩
  | add dl dc sl sc src name rng =>
    simp only [Bld.step, add_eq, Except.ok.injEq, Prod.mk.injEq] at h
    obtain ⟨hb, ho⟩ := h
    obtain ⟨hI1, hid1, hs1, hn1, hnm1, hc1, ht1, hi1, hr1, hf1, hd1⟩ := srcStep_spec b hI src
    obtain ⟨hI2, hid2, hn2, hs2, hsm2, hm2, hc2, ht2, hi2, hr2, hf2, hd2⟩ := nameStep_spec (srcStep b src).1 hI1 name
    rw [hn1] at hid2 hn2
    rw [hs1] at hs2
    rw [hc1] at hc2
    rw [ht1] at ht2
    rw [hi1] at hi2
    rw [hr1] at hr2
    rw [hf1] at hf2
    rw [hd1] at hd2
    subst hb
    refine ⟨{ a with sources := optIntern a.sources src, names := optIntern a.names name,
                     toks := a.toks ++ [.named dl dc sl sc src name rng] }, ?_, ?_, ?_, ?_⟩
    · simp only [ABld.step, hR.sources, hR.names, ← ho, hid1, hid2]
    · refine ⟨by simp [hR.sources, hs2], by simp [hR.names, hn2], by simp [hR.root, hr2], by simp [hR.file, hf2],
        by simp [hR.debugId, hd2], by simp [hR.ignore, hi2], ?_, ?_⟩
      · intro i; simp only [Bld.getSourceContents, hc2]; exact hR.contents i
      · simp only [hs2, hn2, ht2]
        refine toksRel.snoc ?_ (hR.toks.ext (ext_optIntern _ _) (ext_optIntern _ _))
        refine ⟨rfl, rfl, rfl, rfl, rfl, ?_, ?_⟩
        · simp only [hid1]; exact optIntern_getElem? _ _
        · simp only [hid2]; exact optIntern_getElem? _ _
    · exact ⟨hI2.src, hI2.nam, hI2.contents_le, hI2.mapping_len, hI2.ignore_sorted⟩
    · refine ⟨?_, ?_, ⟨[Tok.mk dl dc sl sc (srcStep b src).2 (nameStep (srcStep b src).1 name).2 rng], ?_⟩⟩
      · show Ext b.sources (nameStep (srcStep b src).1 name).1.sources
        rw [hs2]; exact ext_optIntern _ _
      · show Ext b.names (nameStep (srcStep b src).1 name).1.names
        rw [hn2]; exact ext_optIntern _ _
      · show (nameStep (srcStep b src).1 name).1.tokens ++ _ = _
        rw [ht2]
  | addRaw dl dc sl sc src name rng =>
    simp only [Bld.step, Bld.addRaw, Except.ok.injEq, Prod.mk.injEq] at h
    obtain ⟨hb, ho⟩ := h
    subst hb
    refine ⟨{ a with toks := a.toks ++ [.raw dl dc sl sc src name rng] }, ?_, ?_, ?_, ?_⟩
    · simp only [ABld.step, ← ho]; rfl
    · exact ⟨hR.sources, hR.names, hR.root, hR.file, hR.debugId, hR.ignore, hR.contents, toksRel.snoc (show tokRel _ _ _ (.raw dl dc sl sc src name rng) from rfl) hR.toks⟩
    · exact ⟨hI.src, hI.nam, hI.contents_le, hI.mapping_len, hI.ignore_sorted⟩
    · exact ⟨Ext.refl _, Ext.refl _, _, rfl⟩
  | setSourceContents i v =>
    by_cases hv : i < b.sources.length ∧ i ≠ SmVerif.NONE
    · obtain ⟨c, hc, hl, hg⟩ := bld_setSourceContents_ok b hI i v hv.1 hv.2
      simp only [Bld.step, hc, Except.ok.injEq, Prod.mk.injEq] at h
      obtain ⟨hb, ho⟩ := h
      subst hb
      refine ⟨{ a with contents := (i, v) :: a.contents }, ?_, ?_, ?_, ?_⟩
      · have : i < a.sources.length ∧ i ≠ C13Spec.NONE := by rw [hR.sources]; exact hv
        simp only [ABld.step]; rw [if_pos this, ← ho]
      · refine ⟨hR.sources, hR.names, hR.root, hR.file, hR.debugId, hR.ignore, ?_, hR.toks⟩
        intro j
        simp only [Bld.getSourceContents, lookupLog, hg j]
        by_cases hji : j = i
        · subst hji; simp
        · have : ¬ i = j := fun e => hji e.symm
          simp only [hji, this, ↓reduceIte]; exact hR.contents j
      · exact ⟨hI.src, hI.nam, by simp [hl], hI.mapping_len, hI.ignore_sorted⟩
      · exact ⟨Ext.refl _, Ext.refl _, [], by simp⟩
    · simp [Bld.step, bld_setSourceContents_err b hI i v hv] at h
  | addToIgnoreList i =>
    simp only [Bld.step, Bld.addToIgnoreList, Except.ok.injEq, Prod.mk.injEq] at h
    obtain ⟨hb, ho⟩ := h
    subst hb
    refine ⟨{ a with ignore := setInsert i a.ignore }, ?_, ?_, ?_, ?_⟩
    · simp only [ABld.step, ← ho]
    · exact ⟨hR.sources, hR.names, hR.root, hR.file, hR.debugId, by simp [setInsert_eq, hR.ignore], hR.contents, hR.toks⟩
    · exact ⟨hI.src, hI.nam, hI.contents_le, hI.mapping_len, insertSorted_sorted i _ hI.ignore_sorted⟩
    · exact ⟨Ext.refl _, Ext.refl _, [], by simp⟩
  | setSourceRoot r =>
    simp only [Bld.step, Bld.setSourceRoot, Except.ok.injEq, Prod.mk.injEq] at h
    obtain ⟨hb, ho⟩ := h
    subst hb
    exact ⟨{ a with root := r }, by simp only [ABld.step, ← ho],
      ⟨hR.sources, hR.names, rfl, hR.file, hR.debugId, hR.ignore, hR.contents, hR.toks⟩,
      ⟨hI.src, hI.nam, hI.contents_le, hI.mapping_len, hI.ignore_sorted⟩, ⟨Ext.refl _, Ext.refl _, [], by simp⟩⟩
  | setFile f =>
    simp only [Bld.step, Bld.setFile, Except.ok.injEq, Prod.mk.injEq] at h
    obtain ⟨hb, ho⟩ := h
    subst hb
    exact ⟨{ a with file := f }, by simp only [ABld.step, ← ho],
      ⟨hR.sources, hR.names, hR.root, rfl, hR.debugId, hR.ignore, hR.contents, hR.toks⟩,
      ⟨hI.src, hI.nam, hI.contents_le, hI.mapping_len, hI.ignore_sorted⟩, ⟨Ext.refl _, Ext.refl _, [], by simp⟩⟩
  | setDebugId d =>
    simp only [Bld.step, Bld.setDebugId, Except.ok.injEq, Prod.mk.injEq] at h
    obtain ⟨hb, ho⟩ := h
    subst hb
    exact ⟨{ a with debugId := d }, by simp only [ABld.step, ← ho],
      ⟨hR.sources, hR.names, hR.root, hR.file, rfl, hR.ignore, hR.contents, hR.toks⟩,
      ⟨hI.src, hI.nam, hI.contents_le, hI.mapping_len, hI.ignore_sorted⟩, ⟨Ext.refl _, Ext.refl _, [], by simp⟩⟩
  | getSource i =>
    simp only [Bld.step, Bld.getSource, Except.ok.injEq, Prod.mk.injEq] at h
    obtain ⟨hb, ho⟩ := h
    subst hb
    exact ⟨a, by simp only [ABld.step, ← ho, hR.sources], hR, hI, Grows.refl _⟩

/-- a call fails in the model only as the documented panic, and exactly where the abstract model is undefined -/
theorem step_err (b : Bld) (a : ABld) (hI : Inv b) (hR : Rel b a) (op : BOp) (e : Err)
    (h : b.step op = .error e) : e = .panic ∧ a.step op = none := by
  cases op with
  | setSourceContents i v =>
    by_cases hv : i < b.sources.length ∧ i ≠ SmVerif.NONE
    · obtain ⟨c, hc, _, _⟩ := bld_setSourceContents_ok b hI i v hv.1 hv.2
      simp [Bld.step, hc] at h
    · simp only [Bld.step, bld_setSourceContents_err b hI i v hv, Except.error.injEq] at h
      have : ¬ (i < a.sources.length ∧ i ≠ C13Spec.NONE) := by rw [hR.sources]; exact hv
      exact ⟨h.symm, by simp only [ABld.step, this, ↓reduceIte]⟩
  | _ => simp [Bld.step] at h

end SmVerif.C13
