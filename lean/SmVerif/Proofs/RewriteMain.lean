import SmVerif.Proofs.RewriteLoop
import SmVerif.Props.C04
/-
C09 helper lemmas, part 4: the whole of `rewrite_with_mapping` in closed form, and the observation
of its result.
-/
namespace SmVerif.RwProofs
open SmVerif SmVerif.RwSpec SmVerif.Lookup

theorem loop_inv (m : SMap) (o : RewriteOpts) :
    ∀ (ts done : List Tok) (b : Bld), Inv m o done b → done.length + ts.length ≤ NONE →
      ∃ b', SMap.rewriteLoop m o ts b = .ok b' ∧ Inv m o (done ++ ts) b' := by
  intro ts
  induction ts with
  | nil => intro done b h _; exact ⟨b, by simp [SMap.rewriteLoop], by simpa using h⟩
  | cons t ts ih =>
    intro done b h hlen
    simp only [List.length_cons] at hlen
    obtain ⟨b1, hb1, hinv1⟩ := step_inv m o done t b h (by omega)
    obtain ⟨b', hb', hinv'⟩ := ih (done ++ [t]) b1 hinv1 (by simp; omega)
    refine ⟨b', ?_, by simpa using hinv'⟩
    rw [rewriteLoop_cons, hb1]; exact hb'

/-- the map that `into_sourcemap` makes of the final builder (after `strip_prefixes`) -/
def finalMap (b : Bld) (prefixes : List Bytes) : SMap :=
  { file := b.file, tokens := sortToks b.tokens, names := b.names, root := none,
    sources := b.sources.map (strip prefixes), prefixed := none, contents := b.contents,
    ignore := [], debugId := b.debugId }

theorem map_stripOne_nil (l : List Bytes) : l.map (strip []) = l := by
  have : strip [] = id := by funext s; simp [strip]
  rw [this]; simp

theorem intoSourcemap_eq (b : Bld) (prefixes : List Bytes) (hr : b.root = none) (hi : b.ignore = []) :
    (if prefixes.isEmpty then b else b.stripPrefixes prefixes).intoSourcemap = finalMap b prefixes := by
  have hc : ∀ c : List (Option Bytes), (if c = [] then none else some c).getD [] = c := by
    intro c; cases c <;> simp
  by_cases hp : prefixes.isEmpty = true
  · have : prefixes = [] := by simpa using hp
    subst this
    simp only [List.isEmpty_nil, ↓reduceIte]
    simp [Bld.intoSourcemap, finalMap, SMap.new, SMap.setSourceRoot, hr, hi, hc, map_stripOne_nil]
  · simp only [hp]
    simp [Bld.intoSourcemap, Bld.stripPrefixes, finalMap, SMap.new, SMap.setSourceRoot, hr, hi, hc]
    intro s _; exact stripOne_eq_strip _ _

/-- `rewrite_with_mapping` in closed form -/
theorem rewriteWithMapping_closed (m : SMap) (o : RewriteOpts) (hlen : m.tokens.length ≤ NONE) :
    ∃ b, Inv m o m.tokens b ∧ m.rewriteWithMapping o = .ok (finalMap b o.stripPrefixes, b.mapping) := by
  obtain ⟨b, hb, hinv⟩ := loop_inv m o m.tokens [] _ (Inv.init m o) (by simpa using hlen)
  simp only [List.nil_append] at hinv
  refine ⟨b, hinv, ?_⟩
  unfold SMap.rewriteWithMapping
  simp only [hb]
  rw [intoSourcemap_eq b o.stripPrefixes hinv.root hinv.ignore]
  by_cases hp : o.stripPrefixes.isEmpty = true <;> simp [hp, Bld.stripPrefixes]


/-! ### closed form in terms of the input map only -/

/-- names that survive -/
def namesOut (m : SMap) (o : RewriteOpts) : List Bytes := if o.withNames then nameStrings m else []

/-- the rewritten map, as a value -/
def closedMap (m : SMap) (o : RewriteOpts) : SMap :=
  { file := m.file
    tokens := m.tokens.map (newTok m o.withNames (srcStrings m) (namesOut m o))
    names := namesOut m o
    root := none
    sources := (srcStrings m).map (strip o.stripPrefixes)
    prefixed := none
    contents := if o.withContents then (srcStrings m).map (contentsFor m) else []
    ignore := []
    debugId := m.debugId }

/-- `sources_mapping`: for every new source the id under which its name was first used -/
def closedMapping (m : SMap) : List Nat := (srcStrings m).map (firstId m m.tokens)

theorem names_closed (m : SMap) (o : RewriteOpts) :
    firstUse (m.tokens.filterMap (nameOf m o)) = namesOut m o := by
  unfold namesOut nameStrings
  by_cases h : o.withNames = true
  · have : nameOf m o = m.tokName := by funext t; simp [nameOf, h]
    rw [this]; simp [h]
  · have : nameOf m o = fun _ => none := by funext t; simp [nameOf, h]
    have hnil : m.tokens.filterMap (fun _ => (none : Option Bytes)) = [] := by
      induction m.tokens with
      | nil => rfl
      | cons a as ih => simp
    rw [this, hnil]; simp [h, firstUse]

theorem sort_map_newTok (m : SMap) (wn : Bool) (S N : List Bytes) (ts : List Tok) (h : SortedByPos ts) :
    sortToks (ts.map (newTok m wn S N)) = ts.map (newTok m wn S N) := by
  apply C04.c04_sort_of_sorted
  unfold C04.Sorted
  exact List.Pairwise.map _ (fun a b hab => hab) h

theorem rewriteWithMapping_eq (m : SMap) (o : RewriteOpts) (hs : SortedByPos m.tokens)
    (hlen : m.tokens.length ≤ NONE) :
    m.rewriteWithMapping o = .ok (closedMap m o, closedMapping m) := by
  obtain ⟨b, hinv, hb⟩ := rewriteWithMapping_closed m o hlen
  rw [hb]
  have hS : b.sources = srcStrings m := hinv.srcs
  have hN : b.names = namesOut m o := by rw [hinv.names, names_closed]
  congr 2
  · unfold finalMap closedMap
    rw [hinv.toks, sort_map_newTok m _ _ _ _ hs, hS, hN, hinv.file, hinv.debugId, hinv.contents, hS]
    rfl
  · rw [hinv.mapping, hS]; rfl

theorem rewrite_eq (m : SMap) (o : RewriteOpts) (hs : SortedByPos m.tokens) (hlen : m.tokens.length ≤ NONE) :
    m.rewrite o = .ok (closedMap m o) := by
  unfold SMap.rewrite; rw [rewriteWithMapping_eq m o hs hlen]

/-! ### observing the closed form -/

theorem resolve_idOf (l : List Bytes) (f : Bytes → Bytes) (x : Option Bytes)
    (hx : ∀ s, x = some s → s ∈ l) (hl : l.length ≤ NONE) :
    (if idOf l x = NONE then none else (l.map f)[idOf l x]?) = x.map f := by
  cases x with
  | none => simp [idOf]
  | some s =>
    have hm := hx s rfl
    have hlt := List.idxOf_lt_length_iff.mpr hm
    have hne : ¬ l.idxOf s = NONE := by omega
    simp only [idOf, hne, ↓reduceIte, List.getElem?_map, getElem?_idxOf hm, Option.map_some]

theorem srcStrings_len (m : SMap) : (srcStrings m).length ≤ m.tokens.length :=
  Nat.le_trans (length_firstUse_le _) (List.length_filterMap_le _ _)

theorem namesOut_len (m : SMap) (o : RewriteOpts) : (namesOut m o).length ≤ m.tokens.length := by
  unfold namesOut
  by_cases h : o.withNames = true
  · simp only [h, ↓reduceIte]
    exact Nat.le_trans (length_firstUse_le _) (List.length_filterMap_le _ _)
  · simp [h]

theorem mem_namesOut (m : SMap) (o : RewriteOpts) (t : Tok) (ht : t ∈ m.tokens) (n : Bytes)
    (hn : (if o.withNames then m.tokName t else none) = some n) : n ∈ namesOut m o := by
  unfold namesOut
  by_cases h : o.withNames = true
  · simp only [h, ↓reduceIte] at hn ⊢
    rw [nameStrings, mem_firstUse, List.mem_filterMap]; exact ⟨t, ht, hn⟩
  · simp [h] at hn

theorem view_closed (m : SMap) (o : RewriteOpts) (hlen : m.tokens.length ≤ NONE) (t : Tok) (ht : t ∈ m.tokens) :
    view (closedMap m o) (newTok m o.withNames (srcStrings m) (namesOut m o) t) =
      xform o.withNames o.stripPrefixes (view m t) := by
  have h1 := resolve_idOf (srcStrings m) (strip o.stripPrefixes) (m.tokSource t)
    (fun s hs => by rw [srcStrings, mem_firstUse, List.mem_filterMap]; exact ⟨t, ht, hs⟩)
    (Nat.le_trans (srcStrings_len m) hlen)
  have h2 := resolve_idOf (namesOut m o) id (if o.withNames then m.tokName t else none)
    (fun n hn => mem_namesOut m o t ht n hn) (Nat.le_trans (namesOut_len m o) hlen)
  simp only [List.map_id, Option.map_id_fun, id_eq] at h2
  have hsrc : (closedMap m o).tokSource (newTok m o.withNames (srcStrings m) (namesOut m o) t) =
      (m.tokSource t).map (strip o.stripPrefixes) := h1
  have hname : (closedMap m o).tokName (newTok m o.withNames (srcStrings m) (namesOut m o) t) =
      (if o.withNames then m.tokName t else none) := h2
  unfold view xform
  rw [hsrc, hname]
  rfl

theorem range_map_join (S : List Bytes) (g : Bytes → Option Bytes) :
    (List.range S.length).map (fun i => ((S.map g)[i]?).join) = S.map g := by
  apply List.ext_getElem
  · simp
  · intro i h1 h2
    simp only [List.length_map, List.length_range] at h1
    simp [h1]

theorem range_map_none (S : List Bytes) :
    (List.range S.length).map (fun i => (([] : List (Option Bytes))[i]?).join) = S.map (fun _ => none) := by
  apply List.ext_getElem
  · simp
  · intro i h1 h2
    simp

theorem observe_closed (m : SMap) (o : RewriteOpts) (hlen : m.tokens.length ≤ NONE) :
    observe (closedMap m o) = rewriteSpec m o.withNames o.withContents o.stripPrefixes := by
  unfold observe rewriteSpec
  congr 1
  · -- tokens
    show (m.tokens.map (newTok m o.withNames (srcStrings m) (namesOut m o))).map (view (closedMap m o)) = _
    rw [List.map_map]
    apply List.map_congr_left
    intro t ht
    exact view_closed m o hlen t ht
  · -- contents
    show SMap.sourceContents (closedMap m o) = _
    unfold SMap.sourceContents SMap.getSourceContents closedMap
    simp only [List.length_map]
    by_cases hc : o.withContents = true
    · simp only [hc, ↓reduceIte]
      exact range_map_join _ _
    · simp only [hc]
      simp only [Bool.false_eq_true, ↓reduceIte]
      exact range_map_none _

end SmVerif.RwProofs
