import SmVerif.Model.Raw
import SmVerif.Model.V3Spec
/-
Document level (C01-C03): characterisation of `decodeRegular` / `asRawRegular` as plain records.
-/
namespace SmVerif.RawP
open SmVerif SmVerif.Raw SmVerif.Mappings

/-- `add_to_ignore_list` over a list -/
def ignoreOf (l : List Nat) (ig : List Nat) : List Nat := l.foldl (fun g i => SMap.insertSorted i g) ig

theorem foldl_ignore (l : List Nat) (m : SMap) :
    l.foldl SMap.addToIgnoreList m = { m with ignore := ignoreOf l m.ignore } := by
  induction l generalizing m with
  | nil => rfl
  | cons x xs ih =>
    rw [List.foldl_cons, ih]
    simp [SMap.addToIgnoreList, ignoreOf]

/-- `sources_prefixed` as `set_source_root` leaves it -/
def prefixedOf (root : Option Bytes) (sources : List Bytes) : Option (List Bytes) :=
  match root with
  | some r => if r.isEmpty then none else some (sources.map (SMap.prefixSource r))
  | none => none

theorem setSourceRoot_eq (m : SMap) (root : Option Bytes) :
    m.setSourceRoot root = { m with root := root, prefixed := prefixedOf root m.sources } := by
  unfold SMap.setSourceRoot prefixedOf
  cases root with
  | none => rfl
  | some r =>
    by_cases h : r.isEmpty = true
    · simp [h]
    · simp [h]

/-- the names / sources `decode_regular` hands to `SourceMap::new` -/
def namesOf (f : RawFlat) : List Bytes := (f.names.getD []).map lenientName
def sourcesOf (f : RawFlat) : List Bytes := (f.sources.getD []).map fun s => s.getD []

/-- the map `decode_regular` builds once the token loop has succeeded -/
def builtMap (f : RawFlat) (toks : List Tok) : SMap :=
  { file := f.file.map (lenientFile 0)
    tokens := Lookup.sortToks toks
    names := namesOf f
    root := f.sourceRoot
    sources := sourcesOf f
    prefixed := prefixedOf f.sourceRoot (sourcesOf f)
    contents := f.sourcesContent.getD []
    ignore := ignoreOf (f.ignoreList.getD []) []
    debugId := optOr f.debugId f.debugIdNew }

theorem decodeRegular_eq (f : RawFlat) :
    decodeRegular f =
      match decodeMappings (f.mappings.getD []) (f.rangeMappings.getD []) (f.sources.getD []).length
          (f.names.getD []).length with
      | .error e => .error e
      | .ok toks => .ok (builtMap f toks) := by
  unfold decodeRegular
  dsimp only
  generalize decodeMappings (f.mappings.getD []) (f.rangeMappings.getD []) (f.sources.getD []).length
      (f.names.getD []).length = r
  cases r with
  | error e => rfl
  | ok toks =>
    simp only [foldl_ignore, setSourceRoot_eq, SMap.new, builtMap, namesOf, sourcesOf]

theorem decodeRegular_ok {f : RawFlat} {m : SMap} (h : decodeRegular f = .ok m) :
    ∃ toks, decodeMappings (f.mappings.getD []) (f.rangeMappings.getD []) (f.sources.getD []).length
        (f.names.getD []).length = .ok toks ∧ m = builtMap f toks := by
  rw [decodeRegular_eq] at h
  cases hd : decodeMappings (f.mappings.getD []) (f.rangeMappings.getD []) (f.sources.getD []).length
      (f.names.getD []).length with
  | error e => rw [hd] at h; cases h
  | ok toks =>
    rw [hd] at h
    exact ⟨toks, rfl, (Except.ok.inj h).symm⟩

theorem sourcesOf_length (f : RawFlat) : (sourcesOf f).length = (f.sources.getD []).length := by
  simp [sourcesOf]
theorem namesOf_length (f : RawFlat) : (namesOf f).length = (f.names.getD []).length := by
  simp [namesOf]

end SmVerif.RawP

/-! ### well-formed maps, the normal form a map takes on the wire -/
namespace SmVerif.RawP
open SmVerif SmVerif.Raw SmVerif.Mappings SmVerif.V3

/-- well-formed regular map: C01's quantifier (u32 coordinates, a source id is absent or resolves;
names may be unresolvable, range flags arbitrary) plus the invariants every way of building a
`SourceMap` keeps (tokens ordered, `sources_prefixed` as `set_source_root` computes it, the ignore
list a set) -/
structure WfMap (m : SMap) : Prop where
  toks : wfToks m.sources.length m.tokens = true
  sorted : Lookup.SortedByPos m.tokens
  prefixed : m.prefixed = prefixedOf m.root m.sources
  ignore : m.ignore.Pairwise (· < ·)

/-- `sourcesContent` as written: one entry per source, or nothing when no source has contents -/
def canonContents (m : SMap) : List (Option Bytes) :=
  if m.sourceContents.any Option.isSome then m.sourceContents else []

/-- the map read back from what was written for `m`: exact consecutive duplicates removed, tokens in
wire normal form, contents one per source -/
def canon (m : SMap) : SMap :=
  { m with tokens := (dedup m.tokens).map (normTok m.names.length), contents := canonContents m }

/-- what a map decoded from text additionally satisfies: tokens already in wire normal form -/
structure Decoded (m : SMap) : Prop where
  wf : WfMap m
  norm : ∀ t ∈ m.tokens, normTok m.names.length t = t

/-- C01's observational equality of regular maps, `a` read back from what was written for `b` -/
structure ObsEq (a b : SMap) : Prop where
  file : a.file = b.file
  root : a.root = b.root
  debugId : a.debugId = b.debugId
  names : a.names = b.names
  ignore : a.ignore = b.ignore
  nsources : a.sources.length = b.sources.length
  sources : ∀ i, a.getSource i = b.getSource i
  contents : a.sourceContents = b.sourceContents
  /-- same token sequence up to exact consecutive duplicates; `normTok` only clears what no accessor
  shows (original position / name of a source-less token, an unresolvable name id) -/
  tokens : a.tokens = (dedup b.tokens).map (normTok b.names.length)

/-- sections ordered by offset -/
def secsSorted : DSecs → Prop
  | .nil => True
  | .cons _ _ _ _ .nil => True
  | .cons l c _ _ (.cons l' c' u' m' rest) => offLe (l, c) (l', c') = true ∧ secsSorted (.cons l' c' u' m' rest)

mutual
/-- well-formed decoded map: every regular map inside satisfies `P`, sections ordered by offset -/
def WfD (P : SMap → Prop) : DMap → Prop
  | .regular m => P m
  | .hermes m _ => P m
  | .index _ secs _ _ => secsSorted secs ∧ WfSecs P secs
def WfSecs (P : SMap → Prop) : DSecs → Prop
  | .nil => True
  | .cons _ _ _ m rest => WfOpt P m ∧ WfSecs P rest
def WfOpt (P : SMap → Prop) : DOpt → Prop
  | .none => True
  | .some m => WfD P m
end

end SmVerif.RawP
