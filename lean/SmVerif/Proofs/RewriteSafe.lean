import SmVerif.Proofs.RewriteLoop
/-
C09 helper lemmas, part 6: `rewrite_with_mapping` completes for *every* map (no bound on the number
of tokens, ids arbitrary): the only panic sites are in `set_source_contents`, which is called with
the id `add_token` has just returned.
-/
namespace SmVerif.RwProofs
open SmVerif

/-- every id in the source table is an index of the `sources` vector -/
def SafeInv (b : Bld) : Prop := ∀ k v, Bld.lookupKey k b.sourceMap = some v → v < b.sources.length

theorem addSourceWithId_safe (b : Bld) (s : Bytes) (oid : Nat) (h : SafeInv b) :
    SafeInv (b.addSourceWithId s oid).1 ∧ (b.addSourceWithId s oid).2 < (b.addSourceWithId s oid).1.sources.length := by
  unfold Bld.addSourceWithId
  cases hl : Bld.lookupKey s b.sourceMap with
  | none =>
    simp only []
    refine ⟨?_, by simp⟩
    intro k v hk
    simp only [lookupKey_snoc] at hk
    cases hk0 : Bld.lookupKey k b.sourceMap with
    | some v0 =>
      rw [hk0] at hk
      simp only [Option.some.injEq] at hk
      have := h k v0 hk0
      simp only [List.length_append, List.length_cons, List.length_nil]; omega
    | none =>
      rw [hk0] at hk
      simp only at hk
      by_cases e : s = k
      · simp only [e, ↓reduceIte, Option.some.injEq] at hk
        simp only [List.length_append, List.length_cons, List.length_nil]; omega
      · simp [e] at hk
  | some id =>
    have hid := h s id hl
    simp only []
    by_cases e : id = b.sources.length
    · omega
    · simp only [e, ↓reduceIte]
      exact ⟨h, hid⟩

theorem addToken_safe (b : Bld) (m : SMap) (t : Tok) (wn : Bool) (h : SafeInv b) :
    SafeInv (b.addToken m t wn).1 ∧
      ((b.addToken m t wn).2.src = NONE ∨ (b.addToken m t wn).2.src < (b.addToken m t wn).1.sources.length) := by
  have hname : ∀ (b0 : Bld) (n : Bytes), (b0.addName n).1.sources = b0.sources ∧ (b0.addName n).1.sourceMap = b0.sourceMap := by
    intro b0 n
    unfold Bld.addName
    cases Bld.lookupKey n b0.nameMap with
    | none => exact ⟨rfl, rfl⟩
    | some id => by_cases e : id = b0.names.length <;> simp [e]
  unfold Bld.addToken Bld.addWithId
  cases hs : m.tokSource t with
  | none =>
    cases hn : (if wn then m.tokName t else none) with
    | none => exact ⟨h, Or.inl rfl⟩
    | some n =>
      simp only []
      obtain ⟨e1, e2⟩ := hname b n
      refine ⟨?_, by simp⟩
      intro k v hk
      simp only [e1, e2] at hk ⊢
      exact h k v hk
  | some s =>
    obtain ⟨hs1, hs2⟩ := addSourceWithId_safe b s t.src h
    cases hn : (if wn then m.tokName t else none) with
    | none =>
      simp only []
      exact ⟨hs1, Or.inr hs2⟩
    | some n =>
      simp only []
      obtain ⟨e1, e2⟩ := hname (b.addSourceWithId s t.src).1 n
      refine ⟨?_, Or.inr (by simp only [e1]; exact hs2)⟩
      intro k v hk
      simp only [e1, e2] at hk ⊢
      exact hs1 k v hk

theorem length_resizeOpt (l : List (Option Bytes)) (n : Nat) : (SMap.resizeOpt l n).length = n := by
  unfold SMap.resizeOpt
  by_cases h : l.length ≥ n
  · simp only [h, ↓reduceIte, List.length_take]; omega
  · simp only [h, ↓reduceIte, List.length_append, List.length_replicate]; omega

theorem stepRes_safe (m : SMap) (o : RewriteOpts) (t : Tok) (b : Bld) (h : SafeInv b) :
    ∃ b1, stepRes m o t b = .ok b1 ∧ SafeInv b1 := by
  obtain ⟨h1, h2⟩ := addToken_safe b m t o.withNames h
  unfold stepRes
  simp only []
  generalize b.addToken m t o.withNames = r at h1 h2
  by_cases hc : r.2.src ≠ NONE ∧ o.withContents = true ∧ (!r.1.hasSourceContents r.2.src) = true
  · rw [if_pos hc]
    have hlt : r.2.src < r.1.sources.length := by
      rcases h2 with e | e
      · exact absurd e hc.1
      · exact e
    unfold Bld.setSourceContents
    have hne : ¬ r.2.src = NONE := hc.1
    simp only [hne, ↓reduceIte]
    by_cases hg : r.1.sources.length > r.1.contents.length
    · have : ¬ r.2.src ≥ (SMap.resizeOpt r.1.contents r.1.sources.length).length := by
        rw [length_resizeOpt]; omega
      simp only [hg, ↓reduceIte, this]
      exact ⟨_, rfl, h1⟩
    · have : ¬ r.2.src ≥ r.1.contents.length := by omega
      simp only [hg, ↓reduceIte, this]
      exact ⟨_, rfl, h1⟩
  · rw [if_neg hc]
    exact ⟨_, rfl, h1⟩

theorem rewriteLoop_safe (m : SMap) (o : RewriteOpts) (ts : List Tok) :
    ∀ b, SafeInv b → ∃ b', SMap.rewriteLoop m o ts b = .ok b' := by
  induction ts with
  | nil => intro b _; exact ⟨b, by simp [SMap.rewriteLoop]⟩
  | cons t ts ih =>
    intro b h
    obtain ⟨b1, e1, h1⟩ := stepRes_safe m o t b h
    obtain ⟨b', e'⟩ := ih b1 h1
    exact ⟨b', by rw [rewriteLoop_cons, e1]; exact e'⟩

theorem rewrite_safe (m : SMap) (o : RewriteOpts) : ∃ m', m.rewrite o = .ok m' := by
  obtain ⟨b, hb⟩ := rewriteLoop_safe m o m.tokens { Bld.new m.file with debugId := m.debugId }
    (by intro k v hk; simp [Bld.new, Bld.lookupKey] at hk)
  unfold SMap.rewrite SMap.rewriteWithMapping
  simp only [hb]
  exact ⟨_, rfl⟩

end SmVerif.RwProofs
