import SmVerif.Proofs.ConcInv
/-
C16: progress.  In every state satisfying the invariant a thread that has not finished can move when
the lock is free, and the holder of the lock can always move; a later caller is served by the
sequential model on the state left behind; the driver's replay of a harness schedule is a run of
the model.
-/
namespace SmVerif.SVC
open SmVerif SmVerif.SV

theorem startStep_enabled {src : List Nat} {sh : Sh} (hS : SInv src sh) (hl : sh.lock = none)
    (th : Th) (ctx : Ctx) (idx : Nat) : ∃ r, startStep sh th ctx idx = some r := by
  unfold startStep
  simp only [hl, ne_eq, not_true_eq_false, ↓reduceIte, hS.npois, Bool.false_eq_true]
  cases sh.lines[idx]? <;> exact ⟨_, rfl⟩

/-- with the lock free every unfinished thread can take its next step (the relaxed load may for
instance return the current value) -/
theorem tstep_enabled_free {src : List Nat} {sh : Sh} {me : Nat} {th : Th} (hS : SInv src sh)
    (hl : sh.lock = none) (hT : TInv src sh me th) (hunf : th.finished = false) :
    ∃ r, tstep true src sh me th sh.processed = some r := by
  have hpc := hT.pc
  unfold tstep
  unfold Th.finished at hunf
  cases hp : th.pc with
  | panicked => simp [hp] at hunf
  | idle =>
    simp only [hp] at hunf ⊢
    cases hprog : th.prog with
    | nil => simp [hprog] at hunf
    | cons cl rest =>
      cases cl <;> exact startStep_enabled hS hl _ _ _
  | cnt =>
    simp only [hl, ne_eq, not_true_eq_false, ↓reduceIte, hS.npois, Bool.false_eq_true]
    exact ⟨_, rfl⟩
  | gl ctx idx ph =>
    cases ph with
    | start => exact startStep_enabled hS hl _ _ _
    | fin =>
      simp only [hS.cur, ↓reduceIte]
      split <;> exact ⟨_, rfl⟩
    | finGet =>
      simp only [hl, ne_eq, not_true_eq_false, ↓reduceIte, hS.npois, Bool.false_eq_true]
      exact ⟨_, rfl⟩
    | acq =>
      simp only [hl, ne_eq, not_true_eq_false, ↓reduceIte, hS.npois, Bool.false_eq_true]
      cases sh.lines[idx]? with
      | some l => exact ⟨_, rfl⟩
      | none => dsimp only; split <;> exact ⟨_, rfl⟩
    | loop =>
      simp only [hp, PcOk, PhOk] at hpc
      rw [hl] at hpc; exact absurd hpc.1.1 (by simp)

/-- the holder of the lock is inside the indexing loop and its next iteration is enabled -/
theorem tstep_enabled_holder {src : List Nat} {sh : Sh} {me : Nat} {th : Th}
    (hl : sh.lock = some me) (hT : TInv src sh me th) (v : Nat) :
    (∃ ctx idx, th.pc = .gl ctx idx .loop) ∧ ∃ r, tstep true src sh me th v = some r := by
  have hpc := hT.pc
  unfold tstep
  cases hp : th.pc with
  | panicked => simp [hp, PcOk] at hpc
  | idle => simp only [hp, PcOk] at hpc; exact absurd hl hpc
  | cnt => simp only [hp, PcOk] at hpc; exact absurd hl hpc.1
  | gl ctx idx ph =>
    simp only [hp, PcOk] at hpc
    cases ph with
    | start => exact absurd hl hpc.1
    | fin => exact absurd hl hpc.1
    | finGet => exact absurd hl hpc.1.1
    | acq => exact absurd hl hpc.1
    | loop =>
      refine ⟨⟨ctx, idx, rfl⟩, ?_⟩
      have hle : ¬ sh.processed > src.length := by
        have := hpc.1.2.1; omega
      simp only [hl, ne_eq, not_true_eq_false, ↓reduceIte, hle]
      cases (sh.lines ++ [(scan (List.drop sh.processed src)).1])[idx]? with
      | some l => exact ⟨_, rfl⟩
      | none => dsimp only; split <;> exact ⟨_, rfl⟩

theorem step_of_tstep {src : List Nat} {s : State} {t v : Nat} {th : Th} {r : Sh × Th}
    (hth : s.threads[t]? = some th) (h : tstep true src s.sh t th v = some r) :
    ∃ s', step? true src s t v = some s' := by
  unfold step?
  simp only [hth, h]
  exact ⟨_, rfl⟩

theorem inv_no_deadlock {src : List Nat} {progs : List (List Call)} {s : State} (hI : Inv src progs s)
    {t : Nat} {th : Th} (hth : s.threads[t]? = some th) (hunf : th.finished = false) :
    (∃ u v s', step? true src s u v = some s') ∧
    (s.sh.lock = none → ∃ s', step? true src s t s.sh.processed = some s') := by
  have hfree : s.sh.lock = none → ∃ s', step? true src s t s.sh.processed = some s' := by
    intro hl
    obtain ⟨r, hr⟩ := tstep_enabled_free hI.sh hl (hI.th t th hth) hunf
    exact step_of_tstep hth hr
  refine ⟨?_, hfree⟩
  cases hl : s.sh.lock with
  | none => exact ⟨t, _, hfree hl⟩
  | some u =>
    have hlt := hI.holder u hl
    have hu : s.threads[u]? = some s.threads[u] := List.getElem?_eq_getElem hlt
    obtain ⟨_, r, hr⟩ := tstep_enabled_holder hl (hI.th u _ hu) 0
    exact ⟨u, 0, step_of_tstep hu hr⟩

/-- when every thread has finished nobody holds the lock -/
theorem inv_quiescent_lock {src : List Nat} {progs : List (List Call)} {s : State} (hI : Inv src progs s)
    (hall : ∀ (t : Nat) (th : Th), s.threads[t]? = some th → th.finished = true) : s.sh.lock = none := by
  cases hl : s.sh.lock with
  | none => rfl
  | some u =>
    have hlt := hI.holder u hl
    have hu : s.threads[u]? = some s.threads[u] := List.getElem?_eq_getElem hlt
    obtain ⟨⟨ctx, idx, hpc⟩, _⟩ := tstep_enabled_holder (src := src) hl (hI.th u _ hu) 0
    have := hall u _ hu
    simp [Th.finished, hpc] at this

/-! ### a later single-threaded caller (sequential model) on the state left behind -/

theorem indexLoop_spec (src : List Nat) (idx : Nat) : ∀ (fuel : Nat) (st : St),
    st.processed ≤ src.length → src.length + 2 ≤ fuel + st.processed →
    splitLines src = st.lines ++ splitLines (src.drop st.processed) → st.lines[idx]? = none →
    ∃ st', indexLoop src idx fuel st = .ok ((splitLines src)[idx]?, st') := by
  intro fuel
  induction fuel with
  | zero => intro st h1 h2; omega
  | succ fuel ih =>
    intro st hle hfuel hsplit hmiss
    obtain ⟨hadv, hdone, hnd⟩ := split_drop_step src st.processed hle
    unfold indexLoop
    have hngt : ¬ st.processed > src.length := by omega
    simp only [hngt, ↓reduceIte]
    cases hi : (st.lines ++ [(scan (List.drop st.processed src)).1])[idx]? with
    | some l =>
      have hlt : idx < (st.lines ++ [(scan (List.drop st.processed src)).1]).length := by
        rcases Nat.lt_or_ge idx (st.lines ++ [(scan (List.drop st.processed src)).1]).length with h' | h'
        · exact h'
        · rw [List.getElem?_eq_none h'] at hi; cases hi
      by_cases hd : (scan (List.drop st.processed src)).2.2 = true
      · have hL : splitLines src = st.lines ++ [(scan (List.drop st.processed src)).1] := by
          rw [hsplit, (hdone hd).1]
        rw [hL, hi]; exact ⟨_, rfl⟩
      · have hd' : (scan (List.drop st.processed src)).2.2 = false := by simpa using hd
        have hL : splitLines src = (st.lines ++ [(scan (List.drop st.processed src)).1]) ++
            splitLines (src.drop (st.processed + (scan (List.drop st.processed src)).2.1)) := by
          rw [hsplit, (hnd hd').1]; simp
        rw [hL, List.getElem?_append_left hlt, hi]; exact ⟨_, rfl⟩
    | none =>
      by_cases hd : (scan (List.drop st.processed src)).2.2 = true
      · have hL : splitLines src = st.lines ++ [(scan (List.drop st.processed src)).1] := by
          rw [hsplit, (hdone hd).1]
        simp only [hd, ↓reduceIte]
        rw [hL, hi]; exact ⟨_, rfl⟩
      · have hd' : (scan (List.drop st.processed src)).2.2 = false := by simpa using hd
        have hL : splitLines src = (st.lines ++ [(scan (List.drop st.processed src)).1]) ++
            splitLines (src.drop (st.processed + (scan (List.drop st.processed src)).2.1)) := by
          rw [hsplit, (hnd hd').1]; simp
        simp only [hd', Bool.false_eq_true, ↓reduceIte]
        exact ih _ (hnd hd').2 (by show src.length + 2 ≤ fuel + (st.processed + (scan (List.drop st.processed src)).2.1); omega) hL hi

/-- the sequential `get_line` of Model/SourceView.lean, started on whatever shared state the threads
left behind, neither panics nor diverges and returns the specification's answer -/
theorem getLine_after {src : List Nat} {sh : Sh} (hS : SInv src sh) (idx : Nat) :
    ∃ st', getLine src { processed := sh.processed, lines := sh.lines } idx
      = .ok ((splitLines src)[idx]?, st') := by
  unfold getLine
  cases hi : sh.lines[idx]? with
  | some l => dsimp only; rw [hS.hit hi]; exact ⟨_, rfl⟩
  | none =>
    dsimp only
    by_cases hfin : sh.processed > src.length
    · simp only [hfin, ↓reduceIte]
      rw [hS.finished hfin, hi]; exact ⟨_, rfl⟩
    · simp only [hfin, ↓reduceIte]
      rcases hS.split with ⟨hle, e⟩ | ⟨e, _⟩
      · exact indexLoop_spec src idx (fuelFor src) _ hle (by simp only [fuelFor]; omega) e hi
      · omega

/-! ### the driver's replay is a run of the model -/

theorem runToPause_reachable {src : List Nat} {progs : List (List Call)} (t : Nat) :
    ∀ (fuel : Nat) (s : State), Reachable src progs s → Reachable src progs (runToPause true src fuel s t) := by
  intro fuel
  induction fuel with
  | zero => intro s h; exact h
  | succ fuel ih =>
    intro s h
    unfold runToPause
    cases hs : step? true src s t s.sh.processed with
    | none => exact h
    | some s' =>
      have h' : Reachable src progs s' := Reachable.step h hs
      dsimp only
      cases s'.threads[t]? with
      | none => exact h'
      | some th =>
        dsimp only
        split
        · exact h'
        · exact ih s' h'

theorem runToEnd_reachable {src : List Nat} {progs : List (List Call)} (t : Nat) :
    ∀ (fuel : Nat) (s : State), Reachable src progs s → Reachable src progs (runToEnd true src fuel s t) := by
  intro fuel
  induction fuel with
  | zero => intro s h; exact h
  | succ fuel ih =>
    intro s h
    unfold runToEnd
    cases hs : step? true src s t s.sh.processed with
    | none => exact h
    | some s' => exact ih s' (Reachable.step h hs)

theorem replay_reachable (src : List Nat) (progs : List (List Call)) (sched : List Nat) :
    Reachable src progs (replay true src progs sched) := by
  unfold replay
  have h1 : ∀ (l : List Nat) (s : State), Reachable src progs s →
      Reachable src progs (l.foldl (fun s t => runToPause true src (pauseFuel src) s t) s) := by
    intro l
    induction l with
    | nil => intro s h; exact h
    | cons a l ih => intro s h; exact ih _ (runToPause_reachable a _ s h)
  have h2 : ∀ (l : List Nat) (s : State), Reachable src progs s →
      Reachable src progs (l.foldl (fun s t => runToEnd true src (endFuel src s) s t) s) := by
    intro l
    induction l with
    | nil => intro s h; exact h
    | cons a l ih => intro s h; exact ih _ (runToEnd_reachable a _ s h)
  exact h2 _ _ (h1 _ _ (Reachable.init progs))

end SmVerif.SVC
