import SmVerif.Model.Header
/-
Helper lemmas for C12 (reader / slice junk-header stripping).  Core Lean only.
  * `scan_spec`, `stripHeadRead_spec`, `read_spec`: one pass over a chunk / one `strip_head_read`
    call / one `read` call, expressed through the byte automaton `Spec.runBytes`;
  * `consume_eq`: the flatten lemma (any list of non-empty chunks);
  * `runBytes_eq_strip`, `stripJunkHeader_eq_strip`: automaton and slice function against the
    declarative reading `Spec.strip`;
  * `strip_agree`, `afterFirstLine_suffix`: the two paths differ by at most the kept `\n`; the output
    is a suffix of the input.
-/
namespace SmVerif.Header
open SmVerif

/-- the regenerated junk set of the code and the four bytes named by the property are the same set -/
theorem junk_mem_iff (b : Nat) : isJunk b = Spec.junkStart.contains b := by
  have h1 : ∀ x ∈ Consts.junkBytes, x ∈ Spec.junkStart := by decide
  have h2 : ∀ x ∈ Spec.junkStart, x ∈ Consts.junkBytes := by decide
  unfold isJunk
  rw [Bool.eq_iff_iff]
  simp only [List.contains_iff_mem]
  exact ⟨h1 b, h2 b⟩

@[simp] theorem runBytes_nil (st : HState) : Spec.runBytes st [] = .ok [] := by
  cases st <;> rfl

@[simp] theorem runBytes_past (bs : List Nat) : Spec.runBytes .pastHeader bs = .ok bs := by
  cases bs <;> rfl

theorem drop_succ_of_drop_cons {l : List Nat} {n : Nat} {a : Nat} {t : List Nat}
    (h : l.drop n = a :: t) : l.drop (n + 1) = t := by
  have := congrArg List.tail h
  simpa [List.tail_drop] using this

/-- what one pass of the per-byte loop over (the rest of) a chunk means for the byte automaton -/
theorem scan_spec (chunk : List Nat) (tail : List Nat) :
    ∀ (bs : List Nat) (st : HState) (off : Nat), chunk.drop off = bs → (st = .undecided → off = 0) →
      (∀ out st', scan chunk st off bs = .ret out st' →
          st' = .pastHeader ∧ out ≠ [] ∧ Spec.runBytes st (bs ++ tail) = .ok (out ++ tail)) ∧
      (scan chunk st off bs = .fail → Spec.runBytes st (bs ++ tail) = .error .io) ∧
      (∀ st', scan chunk st off bs = .next st' →
          Spec.runBytes st (bs ++ tail) = Spec.runBytes st' tail) := by
  intro bs
  induction bs with
  | nil =>
    intro st off _ _
    refine ⟨?_, ?_, ?_⟩
    · intro out st' h; cases st <;> simp [scan] at h
    · intro h; cases st <;> simp [scan] at h
    · intro st' h
      have : st' = st := by cases st <;> simp [scan] at h <;> exact h.symm
      subst this; simp
  | cons b rest ih =>
    intro st off hd hu
    have hd' := drop_succ_of_drop_cons hd
    cases st with
    | undecided =>
      have h0 : off = 0 := hu rfl
      subst h0
      have hc : chunk = b :: rest := by simpa using hd
      by_cases hj : isJunk b = true
      · have hj' : Spec.junkStart.contains b = true := by rw [← junk_mem_iff]; exact hj
        have := ih .junk 1 hd' (by intro h; cases h)
        simp only [scan, hj, ↓reduceIte, List.cons_append, Spec.runBytes, hj']
        simpa using this
      · have hj' : Spec.junkStart.contains b = false := by
          rw [← junk_mem_iff]; simpa using hj
        simp only [scan, hj, List.cons_append, Spec.runBytes, hj']
        simp [hc]
    | junk =>
      by_cases h13 : b = 13
      · have := ih .awaitingNewline (off + 1) hd' (by intro h; cases h)
        simp only [scan, CR, h13, ↓reduceIte, List.cons_append, Spec.runBytes]
        simpa using this
      · by_cases h10 : b = 10
        · have := ih .pastHeader (off + 1) hd' (by intro h; cases h)
          simp only [scan, CR, LF, h10, ↓reduceIte, List.cons_append, Spec.runBytes]
          simpa using this
        · have := ih .junk (off + 1) hd' (by intro h; cases h)
          simp only [scan, CR, LF, h13, h10, ↓reduceIte, List.cons_append, Spec.runBytes]
          simpa using this
    | awaitingNewline =>
      by_cases h10 : b = 10
      · have := ih .pastHeader (off + 1) hd' (by intro h; cases h)
        simp only [scan, LF, h10, ↓reduceIte, List.cons_append, Spec.runBytes]
        simpa using this
      · simp [scan, LF, h10, Spec.runBytes]
    | pastHeader =>
      simp [scan, hd]


/-- one `strip_head_read` call in terms of the automaton: it delivers a non-empty piece and is past
the header, or fails, or reports end of input having consumed every chunk -/
theorem stripHeadRead_spec :
    ∀ (chunks : List (List Nat)) (st : HState), (∀ c ∈ chunks, c ≠ []) →
      (∃ b o, (stripHeadRead st chunks).out = .ok (b :: o) ∧ (stripHeadRead st chunks).st = .pastHeader ∧
          (stripHeadRead st chunks).rest.length < chunks.length ∧
          (∀ c ∈ (stripHeadRead st chunks).rest, c ∈ chunks) ∧
          Spec.runBytes st chunks.flatten = .ok (b :: o ++ (stripHeadRead st chunks).rest.flatten)) ∨
      ((stripHeadRead st chunks).out = .error .io ∧ Spec.runBytes st chunks.flatten = .error .io) ∨
      ((stripHeadRead st chunks).out = .ok [] ∧ (stripHeadRead st chunks).rest = [] ∧
          Spec.runBytes st chunks.flatten = .ok []) := by
  intro chunks
  induction chunks with
  | nil => intro st _; right; right; simp [stripHeadRead]
  | cons c cs ih =>
    intro st hne
    have hc : c ≠ [] := hne c (by simp)
    have hcs : ∀ x ∈ cs, x ≠ [] := fun x hx => hne x (by simp [hx])
    obtain ⟨h1, h2, h3⟩ := scan_spec c cs.flatten c st 0 (by simp) (by intro _; rfl)
    cases hsc : scan c st 0 c with
    | ret out st' =>
      obtain ⟨hs, hout, hrun⟩ := h1 out st' hsc
      left
      cases out with
      | nil => exact absurd rfl hout
      | cons b o =>
        refine ⟨b, o, ?_⟩
        simp [stripHeadRead, hc, hsc, hs, hrun]
        exact fun x hx => Or.inr hx
    | fail =>
      right; left
      simp [stripHeadRead, hc, hsc, h2 hsc]
    | next st' =>
      have hrun := h3 st' hsc
      have hstep : stripHeadRead st (c :: cs) = stripHeadRead st' cs := by
        simp [stripHeadRead, hc, hsc]
      rw [hstep, List.flatten_cons, hrun]
      rcases ih st' hcs with ⟨b, o, ho, hst, hlen, hmem, hr⟩ | ⟨ho, hr⟩ | ⟨ho, hrest, hr⟩
      · left
        exact ⟨b, o, ho, hst, by simp; omega, fun x hx => by simp [hmem x hx], hr⟩
      · right; left; exact ⟨ho, hr⟩
      · right; right; exact ⟨ho, hrest, hr⟩

/-- the same for `read` (which delegates to the inner reader once past the header) -/
theorem read_spec (chunks : List (List Nat)) (st : HState) (hne : ∀ c ∈ chunks, c ≠ []) :
      (∃ b o, (read st chunks).out = .ok (b :: o) ∧ (read st chunks).st = .pastHeader ∧
          (read st chunks).rest.length < chunks.length ∧
          (∀ c ∈ (read st chunks).rest, c ∈ chunks) ∧
          Spec.runBytes st chunks.flatten = .ok (b :: o ++ (read st chunks).rest.flatten)) ∨
      ((read st chunks).out = .error .io ∧ Spec.runBytes st chunks.flatten = .error .io) ∨
      ((read st chunks).out = .ok [] ∧ (read st chunks).rest = [] ∧
          Spec.runBytes st chunks.flatten = .ok []) := by
  by_cases hp : st = .pastHeader
  · subst hp
    cases chunks with
    | nil => right; right; simp [read]
    | cons c cs =>
      have hc : c ≠ [] := hne c (by simp)
      cases c with
      | nil => exact absurd rfl hc
      | cons b o =>
        left
        refine ⟨b, o, ?_⟩
        simp [read]
        exact fun x hx => Or.inr hx
  · have : read st chunks = stripHeadRead st chunks := by simp [read, hp]
    rw [this]
    exact stripHeadRead_spec chunks st hne

/-- the caller sees exactly what the byte automaton yields on the concatenated input -/
theorem consume_eq :
    ∀ (fuel : Nat) (chunks : List (List Nat)) (st : HState), (∀ c ∈ chunks, c ≠ []) →
      chunks.length < fuel → consume fuel st chunks = Spec.runBytes st chunks.flatten := by
  intro fuel
  induction fuel with
  | zero => intro chunks st _ h; omega
  | succ fuel ih =>
    intro chunks st hne hlen
    rcases read_spec chunks st hne with ⟨b, o, ho, hst, hl, hmem, hr⟩ | ⟨ho, hr⟩ | ⟨ho, _, hr⟩
    · have hrest : ∀ c ∈ (read st chunks).rest, c ≠ [] := fun c hc => hne c (hmem c hc)
      have := ih (read st chunks).rest (read st chunks).st hrest (by omega)
      rw [hst, runBytes_past] at this
      simp only [consume, ho, hst, this, hr]
    · simp [consume, ho, hr]
    · simp [consume, ho, hr]


/-! ### the automaton and `strip_junk_header` against the declarative reading -/

theorem junk_not_nl : isJunk 10 = false ∧ isJunk 13 = false := by decide

theorem afterFirstLine_cons (keep : Bool) (b : Nat) (rest : List Nat) :
    Spec.afterFirstLine keep (b :: rest) =
      if b = 10 then .ok (if keep then 10 :: rest else rest)
      else if b = 13 then
        (match rest with
          | [] => .ok []
          | c :: u => if c = 10 then .ok (if keep then 10 :: u else u) else .error .io)
      else Spec.afterFirstLine keep rest := by
  by_cases h10 : b = 10
  · subst h10; simp [Spec.afterFirstLine, Spec.isNl]
  · by_cases h13 : b = 13
    · subst h13; cases rest <;> simp [Spec.afterFirstLine, Spec.isNl]
    · simp [Spec.afterFirstLine, Spec.isNl, h10, h13]

theorem runBytes_await (bs : List Nat) :
    Spec.runBytes .awaitingNewline bs =
      (match bs with
        | [] => .ok []
        | c :: u => if c = 10 then .ok u else .error .io) := by
  cases bs with
  | nil => rfl
  | cons c u => by_cases h : c = 10 <;> simp [Spec.runBytes, h]

theorem runBytes_junk (bs : List Nat) : Spec.runBytes .junk bs = Spec.afterFirstLine false bs := by
  induction bs with
  | nil => rfl
  | cons b rest ih =>
    rw [afterFirstLine_cons]
    by_cases h10 : b = 10
    · subst h10; simp [Spec.runBytes]
    · by_cases h13 : b = 13
      · subst h13; simp [Spec.runBytes, runBytes_await]
      · simp [Spec.runBytes, h10, h13, ih]

/-- the byte automaton is the declarative reading of the rule (reader path: newline dropped) -/
theorem runBytes_eq_strip (bs : List Nat) : Spec.runBytes .undecided bs = Spec.strip false bs := by
  cases bs with
  | nil => rfl
  | cons b rest =>
    by_cases hj : b ∈ Spec.junkStart
    · simp [Spec.runBytes, Spec.strip, hj, runBytes_junk]
    · simp [Spec.runBytes, Spec.strip, hj]

theorem stripLoop_need (slice : List Nat) (idx : Nat) (bs : List Nat) (hd : slice.drop idx = bs) :
    stripLoop slice true idx bs =
      (match bs with
        | [] => .ok []
        | c :: u => if c = 10 then .ok (10 :: u) else .error .io) := by
  cases bs with
  | nil => simp [stripLoop]
  | cons c u =>
    by_cases h : c = 10
    · subst h
      simp [stripLoop, LF, CR, junk_not_nl.1, hd]
    · simp [stripLoop, LF, h]

theorem stripLoop_free (slice : List Nat) :
    ∀ (bs : List Nat) (idx : Nat), slice.drop idx = bs →
      stripLoop slice false idx bs = Spec.afterFirstLine true bs := by
  intro bs
  induction bs with
  | nil => intro idx _; simp [stripLoop, Spec.afterFirstLine]
  | cons b rest ih =>
    intro idx hd
    have hd' := drop_succ_of_drop_cons hd
    rw [afterFirstLine_cons]
    by_cases h10 : b = 10
    · subst h10
      simp [stripLoop, LF, CR, junk_not_nl.1, hd]
    · by_cases h13 : b = 13
      · subst h13
        have hn := stripLoop_need slice (idx + 1) rest hd'
        have hs : stripLoop slice false idx (13 :: rest) = stripLoop slice true (idx + 1) rest := by
          simp [stripLoop, LF, CR, junk_not_nl.2]
        rw [hs, hn]
        cases rest <;> simp
      · by_cases hj : isJunk b = true
        · simp [stripLoop, LF, h10, h13, hj, ih (idx + 1) hd']
        · simp [stripLoop, LF, CR, h10, h13, hj, ih (idx + 1) hd']

/-- `strip_junk_header` is the declarative reading of the rule (slice path: the `\n` is kept) -/
theorem stripJunkHeader_eq_strip (bs : List Nat) : stripJunkHeader bs = Spec.strip true bs := by
  cases bs with
  | nil => rfl
  | cons b rest =>
    by_cases hj : isJunk b = true
    · have hj' : b ∈ Spec.junkStart := by
        have : Spec.junkStart.contains b = true := by rw [← junk_mem_iff]; exact hj
        simpa using this
      have := stripLoop_free (b :: rest) rest 1 (by simp)
      simp [stripJunkHeader, Spec.strip, hj, hj', stripLoop, this]
    · have hj' : b ∉ Spec.junkStart := by
        have : Spec.junkStart.contains b = false := by rw [← junk_mem_iff]; simpa using hj
        simpa using this
      simp [stripJunkHeader, Spec.strip, hj, hj']


/-! ### the two paths against each other -/

theorem afterFirstLine_agree : ∀ (rest : List Nat),
    (∃ r, Spec.afterFirstLine false rest = .ok r ∧ Spec.afterFirstLine true rest = .ok r) ∨
    (∃ r, Spec.afterFirstLine false rest = .ok r ∧ Spec.afterFirstLine true rest = .ok (10 :: r)) ∨
    (Spec.afterFirstLine false rest = .error .io ∧ Spec.afterFirstLine true rest = .error .io) := by
  intro rest
  induction rest with
  | nil => left; exact ⟨[], rfl, rfl⟩
  | cons b rest ih =>
    rw [afterFirstLine_cons, afterFirstLine_cons]
    by_cases h10 : b = 10
    · right; left; exact ⟨rest, by simp [h10], by simp [h10]⟩
    · by_cases h13 : b = 13
      · cases rest with
        | nil => left; exact ⟨[], by simp [h13], by simp [h13]⟩
        | cons c u =>
          by_cases hc : c = 10
          · right; left; exact ⟨u, by simp [h13, hc], by simp [h13, hc]⟩
          · right; right; exact ⟨by simp [h13, hc], by simp [h13, hc]⟩
      · simpa [h10, h13] using ih

theorem strip_agree (bs : List Nat) :
    (∃ r, Spec.strip false bs = .ok r ∧ Spec.strip true bs = .ok r) ∨
    (∃ r, Spec.strip false bs = .ok r ∧ Spec.strip true bs = .ok (10 :: r)) ∨
    (Spec.strip false bs = .error .io ∧ Spec.strip true bs = .error .io) := by
  cases bs with
  | nil => left; exact ⟨[], rfl, rfl⟩
  | cons b rest =>
    by_cases hj : b ∈ Spec.junkStart
    · simpa [Spec.strip, hj] using afterFirstLine_agree rest
    · left; exact ⟨b :: rest, by simp [Spec.strip, hj], by simp [Spec.strip, hj]⟩

/-- what is handed to the parser after a header is a suffix of what followed the first byte:
nothing is invented, repeated or reordered -/
theorem afterFirstLine_suffix (keep : Bool) : ∀ (rest out : List Nat),
    Spec.afterFirstLine keep rest = .ok out → out <:+ rest := by
  intro rest
  induction rest with
  | nil => intro out h; simp [Spec.afterFirstLine] at h; subst h; exact List.suffix_refl _
  | cons b rest ih =>
    intro out h
    rw [afterFirstLine_cons] at h
    by_cases h10 : b = 10
    · subst h10
      simp only [↓reduceIte, Except.ok.injEq] at h
      subst h
      cases keep
      · exact List.suffix_cons _ _
      · exact List.suffix_refl _
    · by_cases h13 : b = 13
      · subst h13
        cases rest with
        | nil => simp at h; subst h; exact List.nil_suffix
        | cons c u =>
          by_cases hc : c = 10
          · subst hc
            simp at h
            subst h
            cases keep
            · exact (List.suffix_cons _ _).trans (List.suffix_cons _ _)
            · exact List.suffix_cons _ _
          · simp [hc] at h
      · simp only [h10, h13, ↓reduceIte] at h
        exact (ih out h).trans (List.suffix_cons _ _)

theorem strip_suffix (keep : Bool) (bs out : List Nat) (h : Spec.strip keep bs = .ok out) : out <:+ bs := by
  cases bs with
  | nil => simp [Spec.strip] at h; subst h; exact List.suffix_refl _
  | cons b rest =>
    by_cases hj : b ∈ Spec.junkStart
    · simp only [Spec.strip, List.contains_iff_mem, hj, ↓reduceIte] at h
      exact (afterFirstLine_suffix keep rest out h).trans (List.suffix_cons _ _)
    · simp only [Spec.strip, List.contains_iff_mem, hj, ↓reduceIte, Except.ok.injEq] at h
      subst h; exact List.suffix_refl _

end SmVerif.Header
