import SmVerif.Proofs.RoundTripTop
/-
The encoders of `mappings` / `rangeMappings` skip a token equal to its predecessor, so removing exact
consecutive duplicates first (`V3.dedup`) does not change their output.  No ordering hypothesis is needed.
-/
namespace SmVerif.EncDedup
open SmVerif SmVerif.Mappings SmVerif.V3 SmVerif.Lookup SmVerif.RoundTrip

/-! ### `dedup` facts -/

theorem dd_sublist : ∀ (ts : List Tok) (p : Tok), List.Sublist (dd p ts) ts := by
  intro ts
  induction ts with
  | nil => intro p; exact List.Sublist.slnil
  | cons t ts ih =>
    intro p
    rw [dd]
    by_cases h : p = t
    · simp only [h, ↓reduceIte]
      exact List.Sublist.cons t (ih t)
    · simp only [h, ↓reduceIte]
      exact List.Sublist.cons_cons t (ih t)

theorem dedup_sublist (ts : List Tok) : List.Sublist (dedup ts) ts := by
  cases ts with
  | nil => exact List.Sublist.slnil
  | cons p ts =>
    rw [dedup_cons]
    exact List.Sublist.cons_cons p (dd_sublist ts p)

theorem dd_dd : ∀ (ts : List Tok) (p : Tok), dd p (dd p ts) = dd p ts := by
  intro ts
  induction ts with
  | nil => intro p; rfl
  | cons t ts ih =>
    intro p
    by_cases h : p = t
    · subst h
      have e : dd p (p :: ts) = dd p ts := by rw [dd]; simp only [↓reduceIte]
      rw [e]
      exact ih p
    · have e : dd p (t :: ts) = t :: dd t ts := by rw [dd]; simp only [h, ↓reduceIte]
      rw [e]
      have e2 : dd p (t :: dd t ts) = t :: dd t (dd t ts) := by rw [dd]; simp only [h, ↓reduceIte]
      rw [e2, ih t]

theorem dedup_dedup (ts : List Tok) : dedup (dedup ts) = dedup ts := by
  cases ts with
  | nil => rfl
  | cons p ts => rw [dedup_cons, dedup_cons, dd_dd]

/-- dedup yields a sublist, so order is kept -/
theorem dedup_sorted (ts : List Tok) (hs : SortedByPos ts) : SortedByPos (dedup ts) := by
  unfold SortedByPos at hs ⊢
  exact List.Pairwise.sublist (dedup_sublist ts) hs

theorem dedup_wf (nsrc : Nat) (ts : List Tok) (h : wfToks nsrc ts = true) :
    wfToks nsrc (dedup ts) = true := by
  unfold wfToks at h ⊢
  rw [List.all_eq_true] at h ⊢
  intro t ht
  exact h t ((dedup_sublist ts).subset ht)

/-! ### `serializeLoop` -/

theorem encodeTok_line (nn : Nat) (t : Tok) (st : EState) : (encodeTok nn t st).2.line = st.line := by
  unfold encodeTok
  cases hasSource t <;> cases hasName nn t <;> rfl

theorem serializeLoop_cons (nn : Nat) (t : Tok) (ts : List Tok) (prev : Option Tok) (st : EState)
    (out : List Nat) :
    serializeLoop nn (t :: ts) prev st out =
      if t.dl ≠ st.line then
        if t.dl < st.line then .error .diverge
        else
          serializeLoop nn ts (some t) (encodeTok nn t { st with line := t.dl, col := 0 }).2
            (out ++ List.replicate (t.dl - st.line) SEMI ++
              (encodeTok nn t { st with line := t.dl, col := 0 }).1)
      else
        match prev with
        | none => serializeLoop nn ts (some t) (encodeTok nn t st).2 (out ++ (encodeTok nn t st).1)
        | some p =>
          if p = t then serializeLoop nn ts (some t) st out
          else serializeLoop nn ts (some t) (encodeTok nn t st).2 (out ++ [COMMA] ++ (encodeTok nn t st).1) := by
  rw [serializeLoop.eq_def]
  rfl

/-- one step of the loop: either an error that does not depend on the rest, or the loop continues on the
rest with `prev = some t` and the running line equal to `t.dl` -/
theorem serializeLoop_step (nn : Nat) (t : Tok) (prev : Option Tok) (st : EState) (out : List Nat) :
    (∃ e, ∀ ts, serializeLoop nn (t :: ts) prev st out = .error e) ∨
    (∃ st' out', st'.line = t.dl ∧
      ∀ ts, serializeLoop nn (t :: ts) prev st out = serializeLoop nn ts (some t) st' out') := by
  by_cases h1 : t.dl ≠ st.line
  · by_cases h2 : t.dl < st.line
    · left
      refine ⟨.diverge, ?_⟩
      intro ts
      rw [serializeLoop_cons, if_pos h1, if_pos h2]
    · right
      refine ⟨(encodeTok nn t { st with line := t.dl, col := 0 }).2,
        out ++ List.replicate (t.dl - st.line) SEMI ++ (encodeTok nn t { st with line := t.dl, col := 0 }).1,
        ?_, ?_⟩
      · rw [encodeTok_line]
      · intro ts
        rw [serializeLoop_cons, if_pos h1, if_neg h2]
  · right
    have h1' : st.line = t.dl := by omega
    cases prev with
    | none =>
      refine ⟨(encodeTok nn t st).2, out ++ (encodeTok nn t st).1, ?_, ?_⟩
      · rw [encodeTok_line]; exact h1'
      · intro ts
        rw [serializeLoop_cons, if_neg h1]
    | some p =>
      by_cases h3 : p = t
      · refine ⟨st, out, h1', ?_⟩
        intro ts
        rw [serializeLoop_cons, if_neg h1]
        simp only [h3, ↓reduceIte]
      · refine ⟨(encodeTok nn t st).2, out ++ [COMMA] ++ (encodeTok nn t st).1, ?_, ?_⟩
        · rw [encodeTok_line]; exact h1'
        · intro ts
          rw [serializeLoop_cons, if_neg h1]
          simp only [h3, ↓reduceIte]

theorem serializeLoop_dd (nn : Nat) : ∀ (ts : List Tok) (p : Tok) (st : EState) (out : List Nat),
    st.line = p.dl →
    serializeLoop nn (dd p ts) (some p) st out = serializeLoop nn ts (some p) st out := by
  intro ts
  induction ts with
  | nil => intro p st out _; rfl
  | cons t ts ih =>
    intro p st out hl
    by_cases h : p = t
    · subst h
      have e : dd p (p :: ts) = dd p ts := by rw [dd]; simp only [↓reduceIte]
      have hne : ¬ (p.dl ≠ st.line) := by omega
      rw [e, ih p st out hl]
      conv => rhs; rw [serializeLoop_cons, if_neg hne]
      simp only [↓reduceIte]
    · have e : dd p (t :: ts) = t :: dd t ts := by rw [dd]; simp only [h, ↓reduceIte]
      rw [e]
      rcases serializeLoop_step nn t (some p) st out with ⟨e, he⟩ | ⟨st', out', hl', he⟩
      · rw [he, he]
      · rw [he, he]
        exact ih t st' out' hl'

theorem serializeMappings_dedup (ts : List Tok) (nn : Nat) :
    serializeMappings (dedup ts) nn = serializeMappings ts nn := by
  unfold serializeMappings
  cases ts with
  | nil => rfl
  | cons p ts =>
    rw [dedup_cons]
    rcases serializeLoop_step nn p none {} [] with ⟨e, he⟩ | ⟨st', out', hl', he⟩
    · rw [he, he]
    · rw [he, he]
      exact serializeLoop_dd nn ts p st' out' hl'

/-! ### `serializeRmiLoop` -/

theorem serializeRmiLoop_cons (t : Tok) (ts : List Tok) (prev : Option Tok) (line : Nat) (bits : List Bool)
    (had : Bool) (seg : Nat) (empty : Bool) (out : List Nat) :
    serializeRmiLoop (t :: ts) prev line bits had seg empty out =
      if t.dl < line then .error .diverge
      else
        let newline := t.dl ≠ line
        let out := if newline then
            (if had then out ++ encodeRmi bits else out) ++ SEMI :: (List.replicate (t.dl - line - 1) SEMI)
          else out
        let bits := if newline then [] else bits
        let had := if newline then false else had
        let seg := if newline then 0 else seg
        let dup := !newline && (prev = some t)
        if dup then serializeRmiLoop ts (some t) t.dl bits had seg empty out
        else if t.rng then serializeRmiLoop ts (some t) t.dl (setBit bits seg) true (seg + 1) false out
        else serializeRmiLoop ts (some t) t.dl bits had (seg + 1) empty out := by
  rw [serializeRmiLoop]

/-- one step of the range loop: an error independent of the rest, or the loop continues on the rest with
`prev = some t` and running line `t.dl` -/
theorem serializeRmiLoop_step (t : Tok) (prev : Option Tok) (line : Nat) (bits : List Bool) (had : Bool)
    (seg : Nat) (empty : Bool) (out : List Nat) :
    (∃ e, ∀ ts, serializeRmiLoop (t :: ts) prev line bits had seg empty out = .error e) ∨
    (∃ bits' had' seg' empty' out',
      ∀ ts, serializeRmiLoop (t :: ts) prev line bits had seg empty out =
        serializeRmiLoop ts (some t) t.dl bits' had' seg' empty' out') := by
  by_cases h1 : t.dl < line
  · left
    refine ⟨.diverge, ?_⟩
    intro ts
    rw [serializeRmiLoop_cons]
    simp only [h1, ↓reduceIte]
  · right
    by_cases hnl : t.dl ≠ line
    · by_cases h3 : t.rng = true
      · refine ⟨setBit [] 0, true, 0 + 1, false,
          (if had then out ++ encodeRmi bits else out) ++ SEMI :: (List.replicate (t.dl - line - 1) SEMI), ?_⟩
        intro ts
        rw [serializeRmiLoop_cons]
        simp [h1, hnl, h3]
      · refine ⟨[], false, 0 + 1, empty,
          (if had then out ++ encodeRmi bits else out) ++ SEMI :: (List.replicate (t.dl - line - 1) SEMI), ?_⟩
        intro ts
        rw [serializeRmiLoop_cons]
        simp [h1, hnl, h3]
    · by_cases h2 : prev = some t
      · refine ⟨bits, had, seg, empty, out, ?_⟩
        intro ts
        rw [serializeRmiLoop_cons]
        simp [h1, hnl, h2]
      · by_cases h3 : t.rng = true
        · refine ⟨setBit bits seg, true, seg + 1, false, out, ?_⟩
          intro ts
          rw [serializeRmiLoop_cons]
          simp [h1, hnl, h2, h3]
        · refine ⟨bits, had, seg + 1, empty, out, ?_⟩
          intro ts
          rw [serializeRmiLoop_cons]
          simp [h1, hnl, h2, h3]

theorem serializeRmiLoop_dd : ∀ (ts : List Tok) (p : Tok) (bits : List Bool) (had : Bool) (seg : Nat)
    (empty : Bool) (out : List Nat),
    serializeRmiLoop (dd p ts) (some p) p.dl bits had seg empty out =
      serializeRmiLoop ts (some p) p.dl bits had seg empty out := by
  intro ts
  induction ts with
  | nil => intro p bits had seg empty out; rfl
  | cons t ts ih =>
    intro p bits had seg empty out
    by_cases h : p = t
    · subst h
      have e : dd p (p :: ts) = dd p ts := by rw [dd]; simp only [↓reduceIte]
      rw [e, ih p bits had seg empty out]
      rw [serializeRmiLoop_cons]
      simp
    · have e : dd p (t :: ts) = t :: dd t ts := by rw [dd]; simp only [h, ↓reduceIte]
      rw [e]
      rcases serializeRmiLoop_step t (some p) p.dl bits had seg empty out with
        ⟨e, he⟩ | ⟨bits', had', seg', empty', out', he⟩
      · rw [he, he]
      · rw [he, he]
        exact ih t bits' had' seg' empty' out'

theorem serializeRangeMappings_dedup (ts : List Tok) :
    serializeRangeMappings (dedup ts) = serializeRangeMappings ts := by
  unfold serializeRangeMappings
  cases ts with
  | nil => rfl
  | cons p ts =>
    rw [dedup_cons]
    rcases serializeRmiLoop_step p none 0 [] false 0 true [] with
      ⟨e, he⟩ | ⟨bits', had', seg', empty', out', he⟩
    · rw [he, he]
    · rw [he, he]
      exact serializeRmiLoop_dd ts p bits' had' seg' empty' out'

end SmVerif.EncDedup

section
open SmVerif SmVerif.Mappings SmVerif.V3 SmVerif.Lookup
end
