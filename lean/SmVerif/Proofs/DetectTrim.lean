import SmVerif.Model.Detect
/-
C18 helper lemmas, part 2: `str::trim` — identity on printable non-space ASCII, and the general
characterisation against the list of White_Space code points.
-/
namespace SmVerif.Detect
open SmVerif SmVerif.Detect.Spec

/-- printable ASCII other than the space -/
def Plain (x : Nat) : Prop := 33 ≤ x ∧ x ≤ 126

instance (x : Nat) : Decidable (Plain x) := by unfold Plain; infer_instance

theorem isAsciiWs_plain {a : Nat} (h : Plain a) : isAsciiWs a = false := by
  unfold Plain at h
  simp [isAsciiWs]; omega
theorem isWs2_first_plain {a : Nat} (b : Nat) (h : Plain a) : isWs2 a b = false := by
  unfold Plain at h
  simp [isWs2]; omega
theorem isWs2_last_plain (a : Nat) {b : Nat} (h : Plain b) : isWs2 a b = false := by
  unfold Plain at h
  simp [isWs2]; omega
theorem isWs3_first_plain {a : Nat} (b c : Nat) (h : Plain a) : isWs3 a b c = false := by
  unfold Plain at h
  simp [isWs3]; omega
theorem isWs3_last_plain (a b : Nat) {c : Nat} (h : Plain c) : isWs3 a b c = false := by
  unfold Plain at h
  simp [isWs3]; omega

theorem wsLen_plain (a : Nat) (t : Bytes) (h : Plain a) : wsLen (a :: t) = 0 := by
  rcases t with _ | ⟨b, _ | ⟨c, t⟩⟩ <;>
    simp [wsLen, isAsciiWs_plain h, isWs2_first_plain _ h, isWs3_first_plain _ _ h]

theorem wsLenRev_plain (a : Nat) (t : Bytes) (h : Plain a) : wsLenRev (a :: t) = 0 := by
  rcases t with _ | ⟨b, _ | ⟨c, t⟩⟩ <;>
    simp [wsLenRev, isAsciiWs_plain h, isWs2_last_plain _ h, isWs3_last_plain _ _ h]

theorem trimStart_of_wsLen (s : Bytes) (h : wsLen s = 0) : trimStart s = s := by
  unfold trimStart
  cases s.length <;> simp [trimStartFuel, h]

theorem trimEnd_of_wsLenRev (s : Bytes) (h : wsLenRev s.reverse = 0) : trimEnd s = s := by
  unfold trimEnd
  cases s.length <;> simp [trimEndFuel, h]

/-- a string of printable non-space ASCII is its own trim -/
theorem trim_plain (u : Bytes) (h : ∀ x ∈ u, Plain x) : trim u = u := by
  unfold trim
  have h1 : trimStart u = u := by
    cases u with
    | nil => rfl
    | cons a t => exact trimStart_of_wsLen _ (wsLen_plain a t (h a (by simp)))
  rw [h1]
  cases hr : u.reverse with
  | nil =>
    have : u = [] := by simpa using hr
    subst this; rfl
  | cons a t =>
    apply trimEnd_of_wsLenRev
    rw [hr]
    exact wsLenRev_plain a t (h a (by
      have : a ∈ u.reverse := by rw [hr]; simp
      simpa using this))



/-- the UTF-8 encodings of the 25 code points with the Unicode property White_Space -/
def wsChars : List Bytes :=
  [[9], [10], [11], [12], [13], [32], [0xC2, 0x85], [0xC2, 0xA0], [0xE1, 0x9A, 0x80],
   [0xE2, 0x80, 0x80], [0xE2, 0x80, 0x81], [0xE2, 0x80, 0x82], [0xE2, 0x80, 0x83], [0xE2, 0x80, 0x84],
   [0xE2, 0x80, 0x85], [0xE2, 0x80, 0x86], [0xE2, 0x80, 0x87], [0xE2, 0x80, 0x88], [0xE2, 0x80, 0x89],
   [0xE2, 0x80, 0x8A], [0xE2, 0x80, 0xA8], [0xE2, 0x80, 0xA9], [0xE2, 0x80, 0xAF], [0xE2, 0x81, 0x9F],
   [0xE3, 0x80, 0x80]]

/-- `c` is exactly one character that `wsLen` recognises -/
def wsCharOk : Bytes → Bool
  | [a] => isAsciiWs a
  | [a, b] => !isAsciiWs a && isWs2 a b
  | [a, b, c] => !isAsciiWs a && !isWs2 a b && isWs3 a b c
  | _ => false

/-- the same for `wsLenRev` (the character's bytes in reverse order) -/
def wsCharOkRev : Bytes → Bool
  | [a] => isAsciiWs a
  | [a, b] => !isAsciiWs a && isWs2 b a
  | [a, b, c] => !isAsciiWs a && !isWs2 b a && isWs3 c b a
  | _ => false

theorem wsChars_ok : wsChars.all (fun c => wsCharOk c && wsCharOkRev c.reverse) = true := by decide

theorem asciiWs_cases {a : Nat} (h : isAsciiWs a = true) : a = 9 ∨ a = 10 ∨ a = 11 ∨ a = 12 ∨ a = 13 ∨ a = 32 := by
  simp [isAsciiWs] at h; omega

theorem ws2_cases {a b : Nat} (h : isWs2 a b = true) : a = 0xC2 ∧ (b = 0x85 ∨ b = 0xA0) := by
  simpa [isWs2] using h

theorem ws3_mem {a b c : Nat} (h : isWs3 a b c = true) : [a, b, c] ∈ wsChars := by
  simp only [isWs3, Bool.or_eq_true, Bool.and_eq_true, decide_eq_true_eq] at h
  rcases h with ((⟨⟨rfl, rfl⟩, rfl⟩ | ⟨⟨rfl, rfl⟩, h⟩) | ⟨⟨rfl, rfl⟩, rfl⟩) | ⟨⟨rfl, rfl⟩, rfl⟩
  · decide
  · have : c = 128 ∨ c = 129 ∨ c = 130 ∨ c = 131 ∨ c = 132 ∨ c = 133 ∨ c = 134 ∨ c = 135 ∨ c = 136 ∨ c = 137
        ∨ c = 138 ∨ c = 0xA8 ∨ c = 0xA9 ∨ c = 0xAF := by omega
    rcases this with rfl | rfl | rfl | rfl | rfl | rfl | rfl | rfl | rfl | rfl | rfl | rfl | rfl | rfl <;> decide
  · decide
  · decide

theorem wsCharOk_mem {c : Bytes} (h : wsCharOk c = true) : c ∈ wsChars := by
  rcases c with _ | ⟨a, _ | ⟨b, _ | ⟨c, _ | ⟨d, t⟩⟩⟩⟩
  · simp [wsCharOk] at h
  · simp only [wsCharOk] at h
    rcases asciiWs_cases h with rfl | rfl | rfl | rfl | rfl | rfl <;> decide
  · simp only [wsCharOk, Bool.and_eq_true] at h
    obtain ⟨rfl, rfl | rfl⟩ := ws2_cases h.2 <;> decide
  · simp only [wsCharOk, Bool.and_eq_true] at h
    exact ws3_mem h.2
  · simp [wsCharOk] at h

theorem wsCharOkRev_mem {c : Bytes} (h : wsCharOkRev c = true) : c.reverse ∈ wsChars := by
  rcases c with _ | ⟨a, _ | ⟨b, _ | ⟨c, _ | ⟨d, t⟩⟩⟩⟩
  · simp [wsCharOkRev] at h
  · simp only [wsCharOkRev] at h
    rcases asciiWs_cases h with rfl | rfl | rfl | rfl | rfl | rfl <;> decide
  · simp only [wsCharOkRev, Bool.and_eq_true] at h
    obtain ⟨rfl, rfl | rfl⟩ := ws2_cases h.2 <;> decide
  · simp only [wsCharOkRev, Bool.and_eq_true] at h
    simpa using ws3_mem h.2
  · simp [wsCharOkRev] at h

/-- what `wsLen` returns is the length of a whitespace character the string starts with -/
theorem wsLen_take (s : Bytes) (h : wsLen s ≠ 0) : wsCharOk (s.take (wsLen s)) = true ∧ wsLen s ≤ s.length := by
  rcases s with _ | ⟨a, _ | ⟨b, _ | ⟨c, t⟩⟩⟩
  · simp [wsLen] at h
  · by_cases h1 : isAsciiWs a = true <;> simp_all [wsLen, wsCharOk]
  · by_cases h1 : isAsciiWs a = true
    · simp_all [wsLen, wsCharOk]
    · by_cases h2 : isWs2 a b = true <;> simp_all [wsLen, wsCharOk]
  · by_cases h1 : isAsciiWs a = true
    · simp_all [wsLen, wsCharOk]
    · by_cases h2 : isWs2 a b = true
      · simp_all [wsLen, wsCharOk]
      · by_cases h3 : isWs3 a b c = true <;> simp_all [wsLen, wsCharOk]

theorem wsLenRev_take (s : Bytes) (h : wsLenRev s ≠ 0) : wsCharOkRev (s.take (wsLenRev s)) = true ∧ wsLenRev s ≤ s.length := by
  rcases s with _ | ⟨a, _ | ⟨b, _ | ⟨c, t⟩⟩⟩
  · simp [wsLenRev] at h
  · by_cases h1 : isAsciiWs a = true <;> simp_all [wsLenRev, wsCharOkRev]
  · by_cases h1 : isAsciiWs a = true
    · simp_all [wsLenRev, wsCharOkRev]
    · by_cases h2 : isWs2 b a = true <;> simp_all [wsLenRev, wsCharOkRev]
  · by_cases h1 : isAsciiWs a = true
    · simp_all [wsLenRev, wsCharOkRev]
    · by_cases h2 : isWs2 b a = true
      · simp_all [wsLenRev, wsCharOkRev]
      · by_cases h3 : isWs3 c b a = true <;> simp_all [wsLenRev, wsCharOkRev]

/-- a string that starts with a whitespace character has a non-zero `wsLen` -/
theorem wsLen_of_prefix (c t : Bytes) (h : wsCharOk c = true) : wsLen (c ++ t) ≠ 0 := by
  rcases c with _ | ⟨a, _ | ⟨b, _ | ⟨c, _ | ⟨d, u⟩⟩⟩⟩
  · simp [wsCharOk] at h
  · simp only [wsCharOk] at h
    rcases t with _ | ⟨x, _ | ⟨y, t⟩⟩ <;> simp [wsLen, h]
  · simp only [wsCharOk, Bool.and_eq_true, Bool.not_eq_true'] at h
    rcases t with _ | ⟨x, t⟩ <;> simp [wsLen, h.1, h.2]
  · simp only [wsCharOk, Bool.and_eq_true, Bool.not_eq_true'] at h
    simp [wsLen, h.1.1, h.1.2, h.2]
  · simp [wsCharOk] at h

theorem wsLenRev_of_prefix (c t : Bytes) (h : wsCharOkRev c = true) : wsLenRev (c ++ t) ≠ 0 := by
  rcases c with _ | ⟨a, _ | ⟨b, _ | ⟨c, _ | ⟨d, u⟩⟩⟩⟩
  · simp [wsCharOkRev] at h
  · simp only [wsCharOkRev] at h
    rcases t with _ | ⟨x, _ | ⟨y, t⟩⟩ <;> simp [wsLenRev, h]
  · simp only [wsCharOkRev, Bool.and_eq_true, Bool.not_eq_true'] at h
    rcases t with _ | ⟨x, t⟩ <;> simp [wsLenRev, h.1, h.2]
  · simp only [wsCharOkRev, Bool.and_eq_true, Bool.not_eq_true'] at h
    simp [wsLenRev, h.1.1, h.1.2, h.2]
  · simp [wsCharOkRev] at h



theorem trimStartFuel_spec (n : Nat) (s : Bytes) :
    ∃ a : List Bytes, (∀ c ∈ a, c ∈ wsChars) ∧ s = a.flatten ++ trimStartFuel n s
      ∧ (s.length ≤ n → wsLen (trimStartFuel n s) = 0) := by
  induction n generalizing s with
  | zero =>
    refine ⟨[], by simp, by simp [trimStartFuel], ?_⟩
    intro h
    have : s = [] := by simpa using h
    subst this; simp [trimStartFuel, wsLen]
  | succ n ih =>
    by_cases h : wsLen s = 0
    · exact ⟨[], by simp, by simp [trimStartFuel, h], by simp [trimStartFuel, h]⟩
    · obtain ⟨hok, hle⟩ := wsLen_take s h
      obtain ⟨a, ha, hs, hz⟩ := ih (s.drop (wsLen s))
      refine ⟨s.take (wsLen s) :: a, ?_, ?_, ?_⟩
      · intro c hc
        rcases List.mem_cons.mp hc with rfl | hc
        · exact wsCharOk_mem hok
        · exact ha c hc
      · simp only [trimStartFuel, h, ↓reduceIte, List.flatten_cons, List.append_assoc]
        rw [← hs, List.take_append_drop]
      · intro hlen
        simp only [trimStartFuel, h, ↓reduceIte]
        apply hz
        simp only [List.length_drop]; omega

theorem trimEndFuel_spec (n : Nat) (s : Bytes) :
    ∃ a : List Bytes, (∀ c ∈ a, c.reverse ∈ wsChars) ∧ s = a.flatten ++ trimEndFuel n s
      ∧ (s.length ≤ n → wsLenRev (trimEndFuel n s) = 0) := by
  induction n generalizing s with
  | zero =>
    refine ⟨[], by simp, by simp [trimEndFuel], ?_⟩
    intro h
    have : s = [] := by simpa using h
    subst this; simp [trimEndFuel, wsLenRev]
  | succ n ih =>
    by_cases h : wsLenRev s = 0
    · exact ⟨[], by simp, by simp [trimEndFuel, h], by simp [trimEndFuel, h]⟩
    · obtain ⟨hok, hle⟩ := wsLenRev_take s h
      obtain ⟨a, ha, hs, hz⟩ := ih (s.drop (wsLenRev s))
      refine ⟨s.take (wsLenRev s) :: a, ?_, ?_, ?_⟩
      · intro c hc
        rcases List.mem_cons.mp hc with rfl | hc
        · exact wsCharOkRev_mem hok
        · exact ha c hc
      · simp only [trimEndFuel, h, ↓reduceIte, List.flatten_cons, List.append_assoc]
        rw [← hs, List.take_append_drop]
      · intro hlen
        simp only [trimEndFuel, h, ↓reduceIte]
        apply hz
        simp only [List.length_drop]; omega

theorem wsLen_zero_no_prefix (s : Bytes) (h : wsLen s = 0) : ∀ c ∈ wsChars, ¬ c <+: s := by
  intro c hc ⟨t, ht⟩
  have hall := List.all_eq_true.mp wsChars_ok c hc
  simp only [Bool.and_eq_true] at hall
  exact wsLen_of_prefix c t hall.1 (by rw [ht]; exact h)

theorem wsLenRev_zero_no_suffix (s : Bytes) (h : wsLenRev s.reverse = 0) : ∀ c ∈ wsChars, ¬ c <:+ s := by
  intro c hc ⟨t, ht⟩
  have hall := List.all_eq_true.mp wsChars_ok c hc
  simp only [Bool.and_eq_true] at hall
  have : s.reverse = c.reverse ++ t.reverse := by rw [← ht]; simp
  exact wsLenRev_of_prefix c.reverse t.reverse hall.2 (by rw [← this]; exact h)

/-- **`trim` takes whitespace characters, and only those, off both ends, as long as there are any.** -/
theorem trim_spec (s : Bytes) :
    ∃ a b : List Bytes, (∀ c ∈ a, c ∈ wsChars) ∧ (∀ c ∈ b, c ∈ wsChars)
      ∧ s = a.flatten ++ trim s ++ b.flatten
      ∧ (∀ c ∈ wsChars, ¬ c <+: trim s) ∧ (∀ c ∈ wsChars, ¬ c <:+ trim s) := by
  obtain ⟨a, ha, hs, hz⟩ := trimStartFuel_spec s.length s
  have hz := hz (Nat.le_refl _)
  obtain ⟨b, hb, hm, hy⟩ := trimEndFuel_spec (trimStart s).length (trimStart s).reverse
  have hy := hy (by simp)
  -- the middle, written forwards
  have hm' : trimStart s = trim s ++ (b.reverse.map List.reverse).flatten := by
    have := congrArg List.reverse hm
    simp only [List.reverse_reverse, List.reverse_append] at this
    rw [this]
    simp [trim, trimEnd, List.reverse_flatten]
  refine ⟨a, b.reverse.map List.reverse, ha, ?_, ?_, ?_, ?_⟩
  · intro c hc
    simp only [List.mem_map, List.mem_reverse] at hc
    obtain ⟨d, hd, rfl⟩ := hc
    exact hb d hd
  · have h1 : s = a.flatten ++ trimStart s := hs
    rw [List.append_assoc, ← hm']
    exact h1
  · intro c hc hpre
    apply wsLen_zero_no_prefix (trimStart s) hz c hc
    rw [hm']
    exact List.IsPrefix.trans hpre (List.prefix_append _ _)
  · apply wsLenRev_zero_no_suffix
    simpa [trim, trimEnd] using hy


end SmVerif.Detect
