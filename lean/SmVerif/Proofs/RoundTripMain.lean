import SmVerif.Proofs.RoundTripDec
/-
The lock-step induction: decoder over `emit` / `rmiTail`.
-/
namespace SmVerif.RoundTrip
open SmVerif SmVerif.Vlq SmVerif.Mappings SmVerif.V3

/-- text that starts a new segment, a new line, or nothing -/
def SepStart (x : List Nat) : Prop := x = [] ∨ (∃ y, x = COMMA :: y) ∨ (∃ y, x = SEMI :: y)

theorem emit_sepStart (nn : Nat) : ∀ (ts : List Tok) (p : Tok) (st : EState), Mono st.line ts →
    SepStart (emit nn ts (some p) st) := by
  intro ts
  induction ts with
  | nil => intro p st _; left; rfl
  | cons t ts ih =>
    intro p st hm
    obtain ⟨hle, hm'⟩ := hm
    by_cases hl : t.dl ≠ st.line
    · obtain ⟨k, hk⟩ : ∃ k, t.dl - st.line = k + 1 := ⟨t.dl - st.line - 1, by omega⟩
      rw [emit_newline _ _ _ _ _ hl, hk, List.replicate_succ, List.cons_append]
      right; right; exact ⟨_, rfl⟩
    · have hl' : t.dl = st.line := by omega
      by_cases hp : p = t
      · subst hp
        rw [emit_dup _ _ _ _ hl']
        exact ih _ _ (by rw [← hl']; exact hm')
      · rw [emit_next _ _ _ _ _ hl' hp]
        right; left; exact ⟨_, rfl⟩

theorem sepStart_head (x : List Nat) (h : SepStart x) :
    (splitOn COMMA ((splitOn SEMI x).headD [])).headD [] = [] := by
  rcases h with h | ⟨y, h⟩ | ⟨y, h⟩
  · subst h; simp [splitOn]
  · subst h
    rw [splitOn_cons_ne SEMI COMMA y (by decide)]
    simp [splitOn_sep_cons]
  · subst h
    rw [splitOn_sep_cons]
    simp [splitOn]

/-- the decoder in the middle of line `l`: `txt` / `rtxt` are the texts from here on -/
def contMid (nsrc nn l : Nat) (back : List Bool) (txt rtxt : List Nat) (seg col : Nat) (dst : DState)
    (acc : List Tok) : Res (List Tok) :=
  match decodeSegs nsrc nn l back (splitOn COMMA ((splitOn SEMI txt).headD [])).tail seg col dst acc with
  | .error e => .error e
  | .ok (st', acc') =>
    decodeLines nsrc nn (splitOn SEMI txt).tail (splitOn SEMI rtxt).tail (l + 1) st' acc'

theorem contMid_nil (nsrc nn l : Nat) (back : List Bool) (rtxt : List Nat) (seg col : Nat) (dst : DState)
    (acc : List Tok) : contMid nsrc nn l back [] rtxt seg col dst acc = .ok acc.reverse := by
  simp [contMid, splitOn, decodeSegs, decodeLines]

theorem contMid_tok (nsrc nn : Nat) (t : Tok) (st : EState) (back : List Bool) (E rtxt : List Nat)
    (seg : Nat) (acc : List Tok) (hwf : wfTok nsrc t = true) (hb : EBound st) (hE : SepStart E) :
    contMid nsrc nn t.dl back (COMMA :: (tokText nn t st ++ E)) rtxt seg st.col (dstOf st) acc =
      contMid nsrc nn t.dl back E rtxt (seg + 1) t.dc (dstOf (tokState nn t st))
        ({ normTok nn t with rng := back.getD seg false } :: acc) := by
  have hns : SEMI ∉ COMMA :: tokText nn t st := by
    simp only [List.mem_cons, not_or]
    exact ⟨by decide, tokText_nosemi nn t st⟩
  unfold contMid
  rw [← List.cons_append, splitOn_append SEMI _ _ hns]
  simp only [List.headD_cons, List.tail_cons, List.cons_append]
  rw [splitOn_sep_cons, List.tail_cons, splitOn_append COMMA _ _ (tokText_nocomma nn t st),
    sepStart_head E hE, List.append_nil, decodeSegs_step nsrc nn t st back _ seg acc hwf hb]

theorem decodeLines_skip (nsrc nn : Nat) : ∀ (k : Nat) (L rl : List (List Nat)) (dl : Nat) (st : DState)
    (acc : List Tok),
    decodeLines nsrc nn (List.replicate k [] ++ L) rl dl st acc =
      decodeLines nsrc nn L (rl.drop k) (dl + k) st acc := by
  intro k
  induction k with
  | zero => intro L rl dl st acc; simp
  | succ k ih =>
    intro L rl dl st acc
    rw [List.replicate_succ, List.cons_append, decodeLines]
    simp only [↓reduceIte]
    rw [ih]
    congr 1
    · cases rl <;> simp
    · omega

theorem contMid_newline (nsrc nn l : Nat) (back : List Bool) (k : Nat) (X lb R : List Nat) (seg col : Nat)
    (dst : DState) (acc : List Tok) (hlb : SEMI ∉ lb) :
    contMid nsrc nn l back (SEMI :: (List.replicate k SEMI ++ X)) (lb ++ SEMI :: (List.replicate k SEMI ++ R))
        seg col dst acc =
      decodeLines nsrc nn (splitOn SEMI X) (splitOn SEMI R) (l + 1 + k) dst acc := by
  unfold contMid
  rw [splitOn_sep_cons, splitOn_append SEMI _ _ hlb, splitOn_sep_cons, splitOn_replicate, splitOn_replicate]
  simp only [List.headD_cons, List.tail_cons]
  have : (splitOn COMMA []).tail = [] := by simp [splitOn]
  rw [this, decodeSegs]
  simp only
  rw [decodeLines_skip]
  congr 1
  simp

theorem decodeLines_first (nsrc nn : Nat) (t : Tok) (st : EState) (back : List Bool) (E R : List Nat)
    (acc : List Tok) (hwf : wfTok nsrc t = true) (hb : EBound st) (hE : SepStart E) (hcol : st.col = 0)
    (hdec : decodeRmi ((splitOn SEMI R).headD []) = some back) :
    decodeLines nsrc nn (splitOn SEMI (tokText nn t st ++ E)) (splitOn SEMI R) t.dl (dstOf st) acc =
      contMid nsrc nn t.dl back E R 1 t.dc (dstOf (tokState nn t st))
        ({ normTok nn t with rng := back.getD 0 false } :: acc) := by
  rw [splitOn_append SEMI _ _ (tokText_nosemi nn t st), decodeLines]
  have hne : tokText nn t st ++ (splitOn SEMI E).headD [] ≠ [] := by
    simp [tokText_ne_nil]
  simp only [hne, ↓reduceIte, hdec]
  rw [splitOn_append COMMA _ _ (tokText_nocomma nn t st), sepStart_head E hE, List.append_nil]
  have := decodeSegs_step nsrc nn t st back (splitOn COMMA ((splitOn SEMI E).headD [])).tail 0 acc hwf hb
  rw [hcol] at this
  rw [this]
  rfl

/-! ### the induction -/

/-- `dedup (p :: ts)` without its head -/
def dd : Tok → List Tok → List Tok
  | _, [] => []
  | p, t :: ts => if p = t then dd t ts else t :: dd t ts

theorem dedup_cons : ∀ (ts : List Tok) (p : Tok), dedup (p :: ts) = p :: dd p ts := by
  intro ts
  induction ts with
  | nil => intro p; rfl
  | cons t ts ih =>
    intro p
    rw [dedup, dd, ih t]
    by_cases h : p = t
    · simp [h]
    · simp [h]

/-- state of the range serialiser: bits beyond the next segment index are clear -/
def Inv (bits : List Bool) (had : Bool) (seg : Nat) : Prop :=
  (∀ j, seg ≤ j → bits.getD j false = false) ∧ (had = false → ∀ j, bits.getD j false = false)

theorem normTok_rng (nn : Nat) (t : Tok) : (normTok nn t).rng = t.rng := by
  unfold normTok; split
  · rfl
  · split <;> rfl

theorem normTok_with_rng (nn : Nat) (t : Tok) (b : Bool) (h : b = t.rng) :
    { normTok nn t with rng := b } = normTok nn t := by
  subst h
  rw [← normTok_rng nn t]

def MidStmt (nsrc nn : Nat) (ts : List Tok) : Prop :=
  ∀ (l : Nat) (p : Tok) (est : EState) (bits : List Bool) (had : Bool) (seg : Nat) (acc : List Tok)
    (back : List Bool),
    EBound est → est.line = l → Mono l ts → p.dl = l → Inv bits had seg →
    decodeRmi ((splitOn SEMI (rmiTail ts (some p) l bits had seg)).headD []) = some back →
    contMid nsrc nn l back (emit nn ts (some p) est) (rmiTail ts (some p) l bits had seg) seg est.col
        (dstOf est) acc =
      .ok (acc.reverse ++ (dd p ts).map (normTok nn))

theorem first_of_mid (nsrc nn : Nat) (t : Tok) (ts : List Tok) (hmid : MidStmt nsrc nn ts)
    (hwt : wfTok nsrc t = true) (st : EState) (hb : EBound st) (hline : st.line = t.dl)
    (hcol : st.col = 0) (hm : Mono t.dl ts) (acc : List Tok) :
    decodeLines nsrc nn (splitOn SEMI (tokText nn t st ++ emit nn ts (some t) (tokState nn t st)))
        (splitOn SEMI (rmiAfterFirst t ts)) t.dl (dstOf st) acc =
      .ok (acc.reverse ++ normTok nn t :: (dd t ts).map (normTok nn)) := by
  have hline' : (tokState nn t st).line = t.dl := by rw [tokState_line, hline]
  have hE : SepStart (emit nn ts (some t) (tokState nn t st)) :=
    emit_sepStart nn ts t _ (by rw [hline']; exact hm)
  have hb' := tokState_bound nsrc nn t st hwt hb
  unfold rmiAfterFirst
  cases hr : t.rng
  · simp only [Bool.false_eq_true, ↓reduceIte]
    obtain ⟨back, hdec, hg⟩ := rmiTail_head ts (some t) t.dl [] false 1 hm (by simp)
    rw [decodeLines_first nsrc nn t st back _ _ acc hwt hb hE hcol hdec]
    have h0 : back.getD 0 false = t.rng := by rw [hg 0 (by omega), hr]; rfl
    rw [normTok_with_rng nn t _ h0]
    have := hmid t.dl t (tokState nn t st) [] false 1 (normTok nn t :: acc) back hb' hline' hm rfl
      ⟨by simp, by simp⟩ hdec
    rw [tokState_col] at this
    rw [this]
    simp
  · simp only [↓reduceIte]
    obtain ⟨back, hdec, hg⟩ := rmiTail_head ts (some t) t.dl (setBit [] 0) true 1 hm (by simp)
    rw [decodeLines_first nsrc nn t st back _ _ acc hwt hb hE hcol hdec]
    have h0 : back.getD 0 false = t.rng := by rw [hg 0 (by omega), hr, setBit_getD]; rfl
    rw [normTok_with_rng nn t _ h0]
    have hinv : Inv (setBit [] 0) true 1 := by
      refine ⟨fun j hj => ?_, by simp⟩
      rw [setBit_getD]
      simp [show j ≠ 0 by omega]
    have := hmid t.dl t (tokState nn t st) (setBit [] 0) true 1 (normTok nn t :: acc) back hb' hline' hm rfl
      hinv hdec
    rw [tokState_col] at this
    rw [this]
    simp

theorem mid_all (nsrc nn : Nat) : ∀ ts : List Tok, wfToks nsrc ts = true → MidStmt nsrc nn ts := by
  intro ts
  induction ts with
  | nil =>
    intro _ l p est bits had seg acc back _ _ _ _ _ _
    rw [emit, contMid_nil]
    simp [dd]
  | cons t ts ih =>
    intro hwf l p est bits had seg acc back hb hline hm hp hinv hdec
    have hwt : wfTok nsrc t = true := by simp [wfToks] at hwf; exact hwf.1
    have hwts : wfToks nsrc ts = true := by simp [wfToks] at hwf ⊢; exact hwf.2
    have ih := ih hwts
    obtain ⟨hle, hm'⟩ := hm
    by_cases hl : t.dl ≠ l
    · obtain ⟨k, hk⟩ : ∃ k, t.dl - l = k + 1 := ⟨t.dl - l - 1, by omega⟩
      have hl2 : t.dl ≠ est.line := by rw [hline]; exact hl
      have hk2 : t.dl - est.line = k + 1 := by rw [hline]; exact hk
      rw [emit_newline _ _ _ _ _ hl2, rmiTail_newline _ _ _ _ _ _ _ hl, hk, hk2, List.replicate_succ,
        List.cons_append, List.cons_append, contMid_newline _ _ _ _ _ _ _ _ _ _ _ _ (lineBits_nosemi bits had)]
      have hlk : l + 1 + k = t.dl := by omega
      rw [hlk]
      have hb0 : EBound { est with line := t.dl, col := 0 } := by
        obtain ⟨_, b2, b3, b4, b5⟩ := hb
        exact ⟨by simp [U32], b2, b3, b4, b5⟩
      have := first_of_mid nsrc nn t ts ih hwt { est with line := t.dl, col := 0 } hb0 rfl rfl hm' acc
      have hpt : ¬ p = t := by intro h; apply hl; rw [← h]; exact hp
      rw [dd]
      simp only [hpt, ↓reduceIte, List.map_cons]
      exact this
    · have hl' : t.dl = l := by omega
      subst hl'
      by_cases hpt : p = t
      · subst hpt
        rw [emit_dup _ _ _ _ hline.symm]
        rw [rmiTail_dup] at hdec ⊢
        rw [dd]
        simp only [↓reduceIte]
        exact ih p.dl p est bits had seg acc back hb hline hm' rfl hinv hdec
      · have hps : (some p : Option Tok) ≠ some t := by simp [hpt]
        rw [emit_next _ _ _ _ _ hline.symm hpt]
        rw [rmiTail_next _ _ _ _ _ _ hps] at hdec ⊢
        have hline' : (tokState nn t est).line = t.dl := by rw [tokState_line, hline]
        have hE : SepStart (emit nn ts (some t) (tokState nn t est)) :=
          emit_sepStart nn ts t _ (by rw [hline']; exact hm')
        have hb' := tokState_bound nsrc nn t est hwt hb
        rw [contMid_tok nsrc nn t est back _ _ seg acc hwt hb hE]
        rw [dd]
        simp only [hpt, ↓reduceIte, List.map_cons]
        cases hr : t.rng
        · simp only [hr, Bool.false_eq_true, ↓reduceIte] at hdec ⊢
          obtain ⟨back', hdec', hg⟩ := rmiTail_head ts (some t) t.dl bits had (seg + 1) hm' hinv.2
          have hbb : back' = back := by rw [hdec] at hdec'; exact (Option.some.inj hdec').symm
          subst hbb
          have h0 : back'.getD seg false = t.rng := by
            rw [hg seg (by omega), hr]; exact hinv.1 seg (Nat.le_refl _)
          rw [normTok_with_rng nn t _ h0]
          have hinv' : Inv bits had (seg + 1) := ⟨fun j hj => hinv.1 j (by omega), hinv.2⟩
          have := ih t.dl t (tokState nn t est) bits had (seg + 1) (normTok nn t :: acc) back' hb' hline' hm' rfl
            hinv' hdec
          rw [tokState_col] at this
          rw [this]
          simp
        · simp only [hr, ↓reduceIte] at hdec ⊢
          obtain ⟨back', hdec', hg⟩ := rmiTail_head ts (some t) t.dl (setBit bits seg) true (seg + 1) hm' (by simp)
          have hbb : back' = back := by rw [hdec] at hdec'; exact (Option.some.inj hdec').symm
          subst hbb
          have h0 : back'.getD seg false = t.rng := by
            rw [hg seg (by omega), hr, setBit_getD]; simp
          rw [normTok_with_rng nn t _ h0]
          have hinv' : Inv (setBit bits seg) true (seg + 1) := by
            refine ⟨fun j hj => ?_, by simp⟩
            rw [setBit_getD]
            simp only [show j ≠ seg by omega, ↓reduceIte]
            exact hinv.1 j (by omega)
          have := ih t.dl t (tokState nn t est) (setBit bits seg) true (seg + 1) (normTok nn t :: acc) back' hb'
            hline' hm' rfl hinv' hdec
          rw [tokState_col] at this
          rw [this]
          simp

end SmVerif.RoundTrip
