import SmVerif.Model.Detect
/-
C18 helper lemmas, part 1: `BufRead::lines` against the declarative splitting, uniqueness of the
decomposition of a text into lines, a line placed inside a text, and the discovery loop.
-/
namespace SmVerif.Detect
open SmVerif SmVerif.Detect.Spec

/-- `specLines` on the pieces, recursively -/
def finishR : List Bytes → List Bytes
  | [] => []
  | [l] => if l = [] then [] else [l]
  | p :: q :: ps => stripCr p :: finishR (q :: ps)

def finish (ps : List Bytes) : List Bytes :=
  ps.dropLast.map stripCr ++ (match ps.getLast? with | some l => if l = [] then [] else [l] | none => [])

theorem finish_eq_finishR (ps : List Bytes) : finish ps = finishR ps := by
  induction ps with
  | nil => rfl
  | cons p t ih =>
    cases t with
    | nil => simp [finish, finishR]
    | cons q ps =>
      simp only [finishR, ← ih]
      simp [finish, List.dropLast, List.getLast?_cons_cons]

theorem splitNl_ne_nil (t : Bytes) : splitNl t ≠ [] := by
  induction t with
  | nil => simp [splitNl]
  | cons b r ih =>
    simp only [splitNl]
    split
    · simp
    · split <;> simp

theorem linesAux_eq (text cur : Bytes) :
    linesAux cur text = match splitNl text with
      | p :: ps => finishR ((cur.reverse ++ p) :: ps)
      | [] => [] := by
  induction text generalizing cur with
  | nil => simp [linesAux, splitNl, finishR]
  | cons b r ih =>
    by_cases hb : b = 10
    · subst hb
      have := ih []
      simp only [linesAux, splitNl, ↓reduceIte]
      rw [this]
      cases h : splitNl r with
      | nil => exact absurd h (splitNl_ne_nil r)
      | cons p ps => simp [finishR]
    · simp only [linesAux, splitNl, hb, ↓reduceIte]
      rw [ih (b :: cur)]
      cases h : splitNl r with
      | nil => exact absurd h (splitNl_ne_nil r)
      | cons p ps => simp

theorem lines_eq_specLines (text : Bytes) : lines text = specLines text := by
  have h := linesAux_eq text []
  show linesAux [] text = finish (splitNl text)
  rw [h, finish_eq_finishR]
  cases h2 : splitNl text with
  | nil => exact absurd h2 (splitNl_ne_nil text)
  | cons p ps => simp


/-- the text written back from terminated pieces and a last piece -/
def joinNl (ps : List Bytes) (last : Bytes) : Bytes := (ps.map (· ++ [10])).flatten ++ last

theorem splitNl_decomp (text : Bytes) :
    ∃ ps last, splitNl text = ps ++ [last] ∧ (∀ p ∈ ps, 10 ∉ p) ∧ 10 ∉ last ∧ text = joinNl ps last := by
  induction text with
  | nil => exact ⟨[], [], by simp [splitNl, joinNl]⟩
  | cons b r ih =>
    obtain ⟨ps, last, hs, hp, hl, ht⟩ := ih
    by_cases hb : b = 10
    · subst hb
      refine ⟨[] :: ps, last, by simp [splitNl, hs], ?_, hl, ?_⟩
      · intro p hp'
        rcases List.mem_cons.mp hp' with rfl | h
        · simp
        · exact hp p h
      · simp [joinNl] at ht ⊢
        exact ht
    · cases ps with
      | nil =>
        refine ⟨[], b :: last, by simp [splitNl, hb, hs], by simp, ?_, ?_⟩
        · simp [hl]; exact fun h => hb h.symm
        · simp [joinNl] at ht ⊢; exact ht
      | cons p ps' =>
        refine ⟨(b :: p) :: ps', last, by simp [splitNl, hb, hs], ?_, hl, ?_⟩
        · intro q hq
          rcases List.mem_cons.mp hq with rfl | h
          · have := hp p (by simp)
            simp [this]; exact fun h => hb h.symm
          · exact hp q (by simp [h])
        · simp [joinNl] at ht ⊢; exact ht


theorem joinNl_cons (p : Bytes) (ps : List Bytes) (last : Bytes) :
    joinNl (p :: ps) last = p ++ 10 :: joinNl ps last := by
  simp [joinNl]

theorem append_nl_inj (a a' x x' : Bytes) (ha : 10 ∉ a) (ha' : 10 ∉ a')
    (h : a ++ 10 :: x = a' ++ 10 :: x') : a = a' ∧ x = x' := by
  induction a generalizing a' with
  | nil =>
    cases a' with
    | nil => simpa using h
    | cons c t =>
      simp at h
      exact absurd h.1 (by intro e; apply ha'; simp [e])
  | cons c t ih =>
    cases a' with
    | nil =>
      simp at h
      exact absurd h.1 (by intro e; apply ha; simp [e])
    | cons c' t' =>
      simp at h
      have := ih t' (by intro e; apply ha; simp [e]) (by intro e; apply ha'; simp [e]) h.2
      exact ⟨by rw [h.1, this.1], this.2⟩

theorem joinNl_unique (ps ps' : List Bytes) (last last' : Bytes)
    (hp : ∀ p ∈ ps, 10 ∉ p) (hl : 10 ∉ last) (hp' : ∀ p ∈ ps', 10 ∉ p) (hl' : 10 ∉ last')
    (h : joinNl ps last = joinNl ps' last') : ps = ps' ∧ last = last' := by
  induction ps generalizing ps' with
  | nil =>
    cases ps' with
    | nil => simpa [joinNl] using h
    | cons p' t' =>
      rw [joinNl_cons] at h
      exfalso; apply hl
      have : last = p' ++ 10 :: joinNl t' last' := by simpa [joinNl] using h
      rw [this]; simp
  | cons p t ih =>
    cases ps' with
    | nil =>
      rw [joinNl_cons] at h
      exfalso; apply hl'
      have : last' = p ++ 10 :: joinNl t last := by simpa [joinNl] using h.symm
      rw [this]; simp
    | cons p' t' =>
      rw [joinNl_cons, joinNl_cons] at h
      have h1 := append_nl_inj p p' _ _ (hp p (by simp)) (hp' p' (by simp)) h
      have h2 := ih t' (fun q hq => hp q (by simp [hq])) (fun q hq => hp' q (by simp [hq])) h1.2
      exact ⟨by rw [h1.1, h2.1], h2.2⟩



theorem linesAux_append_nl (l cur r : Bytes) (h : 10 ∉ l) :
    linesAux cur (l ++ 10 :: r) = stripCr (cur.reverse ++ l) :: linesAux [] r := by
  induction l generalizing cur with
  | nil => simp [linesAux]
  | cons b l ih =>
    have hb : b ≠ 10 := by intro e; apply h; simp [e]
    have hl : 10 ∉ l := by intro e; apply h; simp [e]
    simp only [List.cons_append, linesAux, hb, ↓reduceIte, ih (b :: cur) hl]
    simp

theorem linesAux_no_nl (l cur : Bytes) (h : 10 ∉ l) :
    linesAux cur l = if cur.reverse ++ l = [] then [] else [cur.reverse ++ l] := by
  induction l generalizing cur with
  | nil => simp [linesAux]
  | cons b l ih =>
    have hb : b ≠ 10 := by intro e; apply h; simp [e]
    have hl : 10 ∉ l := by intro e; apply h; simp [e]
    simp only [linesAux, hb, ↓reduceIte, ih (b :: cur) hl]
    simp

theorem linesAux_split (a cur rest : Bytes) :
    linesAux cur (a ++ 10 :: rest) = linesAux cur (a ++ [10]) ++ linesAux [] rest := by
  induction a generalizing cur with
  | nil => simp [linesAux]
  | cons b a ih =>
    by_cases hb : b = 10
    · subst hb
      simp only [List.cons_append, linesAux, ↓reduceIte, ih []]
    · simp only [List.cons_append, linesAux, hb, ↓reduceIte, ih (b :: cur)]

theorem stripCr_of_last_ne (l : Bytes) (h : l.getLast? ≠ some 13) : stripCr l = l := by
  simp [stripCr, h]

theorem stripCr_append_cr (l : Bytes) : stripCr (l ++ [13]) = l := by
  simp [stripCr]

/-- a line placed at a line start and followed by end of text, `\n` or `\r\n` is one of the lines, after
those of the text before it -/
theorem lines_embed (pre line post : Bytes) (hline : 10 ∉ line) (hne : line ≠ [])
    (hlast : line.getLast? ≠ some 13)
    (hpre : pre = [] ∨ ∃ p, pre = p ++ [10])
    (hpost : post = [] ∨ (∃ t, post = 10 :: t) ∨ (∃ t, post = 13 :: 10 :: t)) :
    ∃ rest, lines (pre ++ line ++ post) = lines pre ++ line :: rest := by
  have key : ∃ rest, linesAux [] (line ++ post) = line :: rest := by
    rcases hpost with rfl | ⟨t, rfl⟩ | ⟨t, rfl⟩
    · refine ⟨[], ?_⟩
      rw [List.append_nil, linesAux_no_nl line [] hline]
      simp [hne]
    · refine ⟨linesAux [] t, ?_⟩
      rw [linesAux_append_nl line [] t hline]
      simp [stripCr_of_last_ne line hlast]
    · refine ⟨linesAux [] t, ?_⟩
      have : line ++ 13 :: 10 :: t = (line ++ [13]) ++ 10 :: t := by simp
      rw [this, linesAux_append_nl (line ++ [13]) [] t (by simp [hline])]
      simp [stripCr_append_cr]
  obtain ⟨rest, hrest⟩ := key
  rcases hpre with rfl | ⟨p, rfl⟩
  · exact ⟨rest, by simp [lines, hrest, linesAux]⟩
  · refine ⟨rest, ?_⟩
    unfold lines
    have : p ++ [10] ++ line ++ post = p ++ 10 :: (line ++ post) := by simp
    rw [this, linesAux_split p [] (line ++ post), hrest]



theorem isPrefixOf_append_of_le (p q t : Bytes) (h : p.length ≤ q.length) :
    p.isPrefixOf (q ++ t) = p.isPrefixOf q := by
  induction p generalizing q with
  | nil => simp
  | cons a p ih =>
    cases q with
    | nil => simp at h
    | cons b q =>
      simp only [List.cons_append, List.isPrefixOf]
      rw [ih q (by simpa using h)]

theorem refPrefixes_eq : Consts.refPrefixes = [pHash, pAt] := by decide
theorem refSkip_eq : Consts.refSkip = pHash.length ∧ Consts.refSkip = pAt.length := by decide
theorem legacyMarker_facts :
    Consts.refLegacyMarker.isPrefixOf pAt = true ∧ Consts.refLegacyMarker.isPrefixOf pHash = false
    ∧ pAt.isPrefixOf pHash = false ∧ Consts.refLegacyMarker.length ≤ pAt.length := by decide

theorem isRefLine_eq (l : Bytes) : isRefLine l = begins l := by
  simp [isRefLine, begins, refPrefixes_eq, startsWith]

theorem prefix_split {p l : Bytes} (h : p.isPrefixOf l = true) : ∃ t, l = p ++ t := by
  obtain ⟨t, ht⟩ := List.isPrefixOf_iff_prefix.mp h
  exact ⟨t, ht.symm⟩

theorem refOfLine_eq (l : Bytes) (h : begins l = true) : refOfLine l = .ok (refOf l) := by
  obtain ⟨hm1, hm2, hm3, hm4⟩ := legacyMarker_facts
  have hlen : pHash.length = 21 ∧ pAt.length = 21 := by decide
  simp only [begins, Bool.or_eq_true] at h
  rcases h with h | h
  · obtain ⟨t, rfl⟩ := prefix_split h
    have h1 : startsWith (pHash ++ t) Consts.refLegacyMarker = false := by
      unfold startsWith
      rw [isPrefixOf_append_of_le _ _ _ (by omega), hm2]
    have h2 : pAt.isPrefixOf (pHash ++ t) = false := by
      rw [isPrefixOf_append_of_le _ _ _ (by omega), hm3]
    simp only [refOfLine, h1, refOf, h2, refSkip_eq.1]
    simp
  · obtain ⟨t, rfl⟩ := prefix_split h
    have h1 : startsWith (pAt ++ t) Consts.refLegacyMarker = true := by
      unfold startsWith
      rw [isPrefixOf_append_of_le _ _ _ hm4, hm1]
    simp only [refOfLine, h1, refOf, h, refSkip_eq.2]
    simp

theorem locateLoop_eq (ls : List Bytes) : locateLoop ls = .ok ((ls.find? begins).map refOf) := by
  induction ls with
  | nil => rfl
  | cons l ls ih =>
    by_cases h : begins l = true
    · simp [locateLoop, isRefLine_eq, h, refOfLine_eq l h, List.find?]
    · simp only [Bool.not_eq_true] at h
      simp [locateLoop, isRefLine_eq, h, ih, List.find?]


end SmVerif.Detect
