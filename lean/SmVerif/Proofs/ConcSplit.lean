import SmVerif.Model.SourceView
/-
C16/C-conc helper lemmas: one iteration of the indexing loop (`scan`) against the specification
`splitLines` (both in Model/SourceView.lean).
-/
namespace SmVerif.SVC
open SmVerif SmVerif.SV

theorem splitAux_nil (cur : List Nat) : splitLinesAux [] cur = [cur.reverse] := by
  simp [splitLinesAux]

theorem splitAux_lf (rest cur : List Nat) :
    splitLinesAux (10 :: rest) cur = cur.reverse :: splitLinesAux rest [] := by
  simp [splitLinesAux]

theorem splitAux_crlf (rest cur : List Nat) :
    splitLinesAux (13 :: 10 :: rest) cur = cur.reverse :: splitLinesAux rest [] := by
  simp [splitLinesAux]

theorem splitAux_cr (rest cur : List Nat) (h : rest.head? ≠ some 10) :
    splitLinesAux (13 :: rest) cur = cur.reverse :: splitLinesAux rest [] := by
  cases rest with
  | nil => simp [splitLinesAux]
  | cons b r =>
    have hb : b ≠ 10 := by simpa using h
    rw [splitLinesAux]
    intro r' hr
    simp at hr
    exact hb hr.1

theorem splitAux_other (b : Nat) (rest cur : List Nat) (h10 : b ≠ 10) (h13 : b ≠ 13) :
    splitLinesAux (b :: rest) cur = splitLinesAux rest (b :: cur) := by
  rw [splitLinesAux]
  · intro r hr; exact absurd hr h13
  · intro r; exact h13 r
  · intro r; exact h10 r

theorem scan_nil : scan [] = ([], 1, true) := by simp [scan]

theorem isNl_iff (b : Nat) : isNl b = true ↔ b = 10 ∨ b = 13 := by simp [isNl]

theorem scan_cons_nl (b : Nat) (rest : List Nat) (h : isNl b = true) :
    scan (b :: rest) = ([], (if b = 13 ∧ rest.head? = some 10 then 2 else 1), false) := by
  simp [scan, List.findIdx?_cons, h]
  cases rest <;> simp

theorem scan_cons_other (b : Nat) (rest : List Nat) (h : isNl b = false) :
    scan (b :: rest) = (b :: (scan rest).1, (scan rest).2.1 + 1, (scan rest).2.2) := by
  simp only [scan, List.findIdx?_cons, h]
  cases hf : rest.findIdx? isNl with
  | none => simp
  | some i => simp; split <;> omega

/-- what one iteration of the indexing loop does, in terms of the specification -/
theorem scan_spec (rest cur : List Nat) :
    splitLinesAux rest cur =
      if (scan rest).2.2 then [cur.reverse ++ (scan rest).1]
      else (cur.reverse ++ (scan rest).1) :: splitLinesAux (rest.drop (scan rest).2.1) [] := by
  induction rest generalizing cur with
  | nil => simp [scan_nil, splitAux_nil]
  | cons b rest ih =>
    by_cases hb : isNl b = true
    · rw [scan_cons_nl b rest hb]
      rcases (isNl_iff b).1 hb with h | h
      · subst h; simp [splitAux_lf]
      · subst h
        by_cases h10 : rest.head? = some 10
        · cases rest with
          | nil => simp at h10
          | cons x r =>
            have : x = 10 := by simpa using h10
            subst this
            simp [splitAux_crlf]
        · simp [h10, splitAux_cr rest cur h10]
    · have hb' : isNl b = false := by simpa using hb
      have h10 : b ≠ 10 := fun e => by simp [isNl, e] at hb'
      have h13 : b ≠ 13 := fun e => by simp [isNl, e] at hb'
      rw [scan_cons_other b rest hb', splitAux_other b rest cur h10 h13, ih (b :: cur)]
      simp

theorem scan_adv (rest : List Nat) :
    1 ≤ (scan rest).2.1 ∧
      (if (scan rest).2.2 then (scan rest).2.1 = rest.length + 1 else (scan rest).2.1 ≤ rest.length) := by
  induction rest with
  | nil => simp [scan_nil]
  | cons b rest ih =>
    by_cases hb : isNl b = true
    · rw [scan_cons_nl b rest hb]
      by_cases h : b = 13 ∧ rest.head? = some 10
      · cases rest with
        | nil => simp at h
        | cons x r => simp [h]
      · simp [h]
    · have hb' : isNl b = false := by simpa using hb
      rw [scan_cons_other b rest hb']
      refine ⟨by simp, ?_⟩
      have := ih.2
      by_cases hd : (scan rest).2.2 = true
      · simp [hd] at this ⊢; omega
      · simp [hd] at this ⊢; omega

/-- one loop iteration at offset `p ≤ len` peels exactly the next piece of the specification -/
theorem split_drop_step (src : List Nat) (p : Nat) (hp : p ≤ src.length) :
    1 ≤ (scan (src.drop p)).2.1 ∧
    ((scan (src.drop p)).2.2 = true →
        splitLines (src.drop p) = [(scan (src.drop p)).1] ∧ p + (scan (src.drop p)).2.1 = src.length + 1) ∧
    ((scan (src.drop p)).2.2 = false →
        splitLines (src.drop p) = (scan (src.drop p)).1 :: splitLines (src.drop (p + (scan (src.drop p)).2.1))
        ∧ p + (scan (src.drop p)).2.1 ≤ src.length) := by
  have h1 := scan_spec (src.drop p) []
  have h2 := scan_adv (src.drop p)
  have hl : (src.drop p).length = src.length - p := by simp
  refine ⟨h2.1, ?_, ?_⟩
  · intro hd
    simp only [hd, ↓reduceIte] at h1 h2
    refine ⟨by simpa [splitLines] using h1, ?_⟩
    have := h2.2; omega
  · intro hd
    simp only [hd, Bool.false_eq_true, ↓reduceIte] at h1 h2
    refine ⟨?_, ?_⟩
    · rw [splitLines, h1]; simp [splitLines, List.drop_drop]
    · have := h2.2; omega

theorem splitLinesAux_ne_nil (rest cur : List Nat) : splitLinesAux rest cur ≠ [] := by
  rw [scan_spec]; split <;> simp

theorem splitLines_ne_nil (src : List Nat) : splitLines src ≠ [] := splitLinesAux_ne_nil src []

theorem splitLinesAux_length_le (n : Nat) : ∀ (rest cur : List Nat), rest.length ≤ n →
    (splitLinesAux rest cur).length ≤ rest.length + 1 := by
  induction n with
  | zero =>
    intro rest cur h
    have : rest = [] := List.eq_nil_of_length_eq_zero (by omega)
    subst this; simp [splitAux_nil]
  | succ n ih =>
    intro rest cur h
    rw [scan_spec]
    have ha := scan_adv rest
    split
    · simp
    · rename_i hd
      simp only [hd, Bool.false_eq_true, ↓reduceIte] at ha
      have hl : (rest.drop (scan rest).2.1).length = rest.length - (scan rest).2.1 := by simp
      have := ih (rest.drop (scan rest).2.1) [] (by omega)
      simp only [List.length_cons]
      omega

theorem splitLines_length_le (src : List Nat) : (splitLines src).length ≤ src.length + 1 :=
  splitLinesAux_length_le src.length src [] (Nat.le_refl _)

end SmVerif.SVC
