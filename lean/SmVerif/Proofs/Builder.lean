import SmVerif.Model.BldSeq
/-
C13 — helper lemmas for the builder side: the interning table (association list) against the
list of strings, the invariant of `SourceMapBuilder`, refinement of the abstract interning model.
-/
namespace SmVerif.C13
open SmVerif SmVerif.C13Spec

/-! ### association list = hash map with `entry().or_insert()` -/

theorem lookupKey_append (k : Bytes) (l : List (Bytes × Nat)) (k' : Bytes) (v : Nat) :
    Bld.lookupKey k (l ++ [(k', v)]) =
      match Bld.lookupKey k l with
      | some x => some x
      | none => if k' = k then some v else none := by
  induction l with
  | nil => simp [Bld.lookupKey]
  | cons p l ih =>
    obtain ⟨a, b⟩ := p
    simp only [List.cons_append, Bld.lookupKey]
    by_cases h : a = k
    · simp [h]
    · simp only [h, ↓reduceIte]; exact ih

/-- the table is the list: no duplicates, and `s ↦ i` is in the table exactly when `l[i] = s` -/
def TableOk (tbl : List (Bytes × Nat)) (l : List Bytes) : Prop :=
  l.Nodup ∧ ∀ s i, Bld.lookupKey s tbl = some i ↔ l[i]? = some s

theorem TableOk.nil : TableOk [] [] := by
  refine ⟨List.nodup_nil, ?_⟩
  intro s i; simp [Bld.lookupKey]

theorem TableOk.id_lt {tbl l} (h : TableOk tbl l) {s i} (hl : Bld.lookupKey s tbl = some i) : i < l.length := by
  have := (h.2 s i).1 hl
  exact (List.getElem?_eq_some_iff.1 this).1

theorem TableOk.mem_iff {tbl l} (h : TableOk tbl l) (s : Bytes) :
    s ∈ l ↔ ∃ i, Bld.lookupKey s tbl = some i := by
  constructor
  · intro hm
    obtain ⟨i, hi, he⟩ := List.getElem_of_mem hm
    exact ⟨i, (h.2 s i).2 (by simp [List.getElem?_eq_getElem hi, he])⟩
  · rintro ⟨i, hi⟩
    exact List.mem_of_getElem? ((h.2 s i).1 hi)

theorem TableOk.lookup_none {tbl l} (h : TableOk tbl l) {s : Bytes} (hn : Bld.lookupKey s tbl = none) : s ∉ l := by
  intro hm
  obtain ⟨i, hi⟩ := (h.mem_iff s).1 hm
  rw [hn] at hi; cases hi

/-- a found id is the index of the (only) occurrence -/
theorem TableOk.lookup_some {tbl l} (h : TableOk tbl l) {s : Bytes} {i} (hs : Bld.lookupKey s tbl = some i) :
    s ∈ l ∧ i = l.idxOf s := by
  have hg := (h.2 s i).1 hs
  have hm : s ∈ l := List.mem_of_getElem? hg
  refine ⟨hm, ?_⟩
  obtain ⟨hlt, he⟩ := List.getElem?_eq_some_iff.1 hg
  have := h.1.idxOf_getElem i hlt
  rw [he] at this; exact this.symm

theorem singleton_getElem?_some {α} {s k : α} {j : Nat} (h : ([s] : List α)[j]? = some k) : j = 0 ∧ s = k := by
  cases j with
  | zero => simp at h; exact ⟨rfl, h⟩
  | succ n => simp at h

/-- interning a new string appends it with the next id -/
theorem TableOk.insert {tbl l} (h : TableOk tbl l) {s : Bytes} (hn : Bld.lookupKey s tbl = none) :
    TableOk (tbl ++ [(s, l.length)]) (l ++ [s]) := by
  have hnm := h.lookup_none hn
  refine ⟨?_, ?_⟩
  · rw [List.nodup_append]
    refine ⟨h.1, by simp, ?_⟩
    intro a ha b hb
    simp at hb; subst hb
    intro e; subst e; exact hnm ha
  · intro k i
    rw [lookupKey_append, List.getElem?_append]
    by_cases hi : i < l.length
    · simp only [hi, ↓reduceIte]
      rw [← h.2 k i]
      cases hk : Bld.lookupKey k tbl with
      | some x => simp
      | none =>
        simp only
        by_cases hsk : s = k
        · simp only [hsk, ↓reduceIte, Option.some.injEq]
          constructor
          · intro e; omega
          · intro e; cases e
        · simp [hsk]
    · simp only [hi, ↓reduceIte]
      cases hk : Bld.lookupKey k tbl with
      | some x =>
        have hx := h.id_lt hk
        simp only [Option.some.injEq]
        constructor
        · intro e; omega
        · intro e
          obtain ⟨_, e2⟩ := singleton_getElem?_some e
          subst e2; rw [hn] at hk; cases hk
      | none =>
        simp only
        by_cases hsk : s = k
        · subst hsk
          simp only [↓reduceIte, Option.some.injEq]
          constructor
          · intro e; subst e; simp
          · intro e
            obtain ⟨e1, _⟩ := singleton_getElem?_some e
            omega
        · simp only [hsk, ↓reduceIte]
          constructor
          · intro e; cases e
          · intro e
            obtain ⟨_, e2⟩ := singleton_getElem?_some e
            exact absurd e2 hsk

/-! ### ordered insert (`BTreeSet::insert`) -/

theorem mem_insertSorted (x : Nat) : ∀ (l : List Nat) (i : Nat), i ∈ SMap.insertSorted x l ↔ i = x ∨ i ∈ l
  | [], i => by simp [SMap.insertSorted]
  | y :: ys, i => by
    unfold SMap.insertSorted
    by_cases h1 : x < y
    · simp [h1]
    · by_cases h2 : x = y
      · subst h2; simp
      · simp only [h1, h2, ↓reduceIte, List.mem_cons, mem_insertSorted x ys i]
        constructor
        · rintro (h | h | h)
          · exact Or.inr (Or.inl h)
          · exact Or.inl h
          · exact Or.inr (Or.inr h)
        · rintro (h | h | h)
          · exact Or.inr (Or.inl h)
          · exact Or.inl h
          · exact Or.inr (Or.inr h)

theorem insertSorted_sorted (x : Nat) : ∀ (l : List Nat), l.Pairwise (· < ·) → (SMap.insertSorted x l).Pairwise (· < ·)
  | [], _ => by simp [SMap.insertSorted]
  | y :: ys, h => by
    unfold SMap.insertSorted
    have hy := (List.pairwise_cons.1 h)
    by_cases h1 : x < y
    · simp only [h1, ↓reduceIte]
      refine List.pairwise_cons.2 ⟨?_, h⟩
      intro a ha
      rcases List.mem_cons.1 ha with e | hm
      · subst e; exact h1
      · exact Nat.lt_trans h1 (hy.1 a hm)
    · by_cases h2 : x = y
      · subst h2; simp only [Nat.lt_irrefl, ↓reduceIte]; exact h
      · simp only [h1, h2, ↓reduceIte]
        refine List.pairwise_cons.2 ⟨?_, insertSorted_sorted x ys hy.2⟩
        intro a ha
        rcases (mem_insertSorted x ys a).1 ha with e | hm
        · subst e; omega
        · exact hy.1 a hm

/-! ### the builder invariant -/

/-- what every reachable builder state satisfies -/
structure Inv (b : Bld) : Prop where
  src : TableOk b.sourceMap b.sources
  nam : TableOk b.nameMap b.names
  contents_le : b.contents.length ≤ b.sources.length
  mapping_len : b.mapping.length = b.sources.length
  ignore_sorted : b.ignore.Pairwise (· < ·)

theorem inv_new (f : Option Bytes) : Inv (Bld.new f) :=
  ⟨TableOk.nil, TableOk.nil, Nat.le_refl _, rfl, List.Pairwise.nil⟩

/-- `add_source_with_id` against the abstract table: the id is the index of the first occurrence (the
next unused id for a new string), the list is appended to only for a new string, and the
`if id == count` test succeeds exactly for a new string -/
theorem addSourceWithId_spec (b : Bld) (h : Inv b) (s : Bytes) (old : Nat) :
    (b.addSourceWithId s old).2 = internId b.sources s ∧
    (b.addSourceWithId s old).1.sources = intern b.sources s ∧
    TableOk (b.addSourceWithId s old).1.sourceMap (b.addSourceWithId s old).1.sources ∧
    (b.addSourceWithId s old).1.mapping.length = (b.addSourceWithId s old).1.sources.length ∧
    (b.addSourceWithId s old).1.names = b.names ∧ (b.addSourceWithId s old).1.nameMap = b.nameMap ∧
    (b.addSourceWithId s old).1.contents = b.contents ∧ (b.addSourceWithId s old).1.tokens = b.tokens ∧
    (b.addSourceWithId s old).1.ignore = b.ignore ∧ (b.addSourceWithId s old).1.root = b.root ∧
    (b.addSourceWithId s old).1.file = b.file ∧ (b.addSourceWithId s old).1.debugId = b.debugId := by
  unfold Bld.addSourceWithId
  cases hk : Bld.lookupKey s b.sourceMap with
  | some id =>
    have hlt := h.src.id_lt hk
    have hne : ¬ id = b.sources.length := by omega
    obtain ⟨hm, hid⟩ := h.src.lookup_some hk
    simp only [hne, ↓reduceIte, internId, intern, hm]
    refine ⟨hid, ?_, h.src, h.mapping_len, ?_⟩ <;> simp
  | none =>
    have hnm := h.src.lookup_none hk
    simp only [internId, intern, hnm, ↓reduceIte]
    refine ⟨(List.idxOf_eq_length hnm).symm, ?_, h.src.insert hk, ?_, ?_⟩ <;> simp [h.mapping_len]

theorem addName_spec (b : Bld) (h : Inv b) (s : Bytes) :
    (b.addName s).2 = internId b.names s ∧
    (b.addName s).1.names = intern b.names s ∧
    TableOk (b.addName s).1.nameMap (b.addName s).1.names ∧
    (b.addName s).1.sources = b.sources ∧ (b.addName s).1.sourceMap = b.sourceMap ∧
    (b.addName s).1.mapping = b.mapping ∧
    (b.addName s).1.contents = b.contents ∧ (b.addName s).1.tokens = b.tokens ∧
    (b.addName s).1.ignore = b.ignore ∧ (b.addName s).1.root = b.root ∧
    (b.addName s).1.file = b.file ∧ (b.addName s).1.debugId = b.debugId := by
  unfold Bld.addName
  cases hk : Bld.lookupKey s b.nameMap with
  | some id =>
    have hlt := h.nam.id_lt hk
    have hne : ¬ id = b.names.length := by omega
    obtain ⟨hm, hid⟩ := h.nam.lookup_some hk
    simp only [hne, ↓reduceIte, internId, intern, hm]
    refine ⟨hid, ?_, h.nam, ?_⟩ <;> simp
  | none =>
    have hnm := h.nam.lookup_none hk
    simp only [internId, intern, hnm, ↓reduceIte]
    refine ⟨(List.idxOf_eq_length hnm).symm, ?_, h.nam.insert hk, ?_⟩ <;> simp

theorem inv_addSourceWithId (b : Bld) (h : Inv b) (s : Bytes) (old : Nat) : Inv (b.addSourceWithId s old).1 := by
  obtain ⟨_, hs, ht, hm, hn, hnm, hc, _, hi, _⟩ := addSourceWithId_spec b h s old
  refine ⟨ht, by rw [hn, hnm]; exact h.nam, ?_, hm, by rw [hi]; exact h.ignore_sorted⟩
  rw [hc, hs]
  have := h.contents_le
  unfold intern; split
  · exact this
  · simp; omega

theorem inv_addName (b : Bld) (h : Inv b) (s : Bytes) : Inv (b.addName s).1 := by
  obtain ⟨_, _, ht, hs, hsm, hm, hc, _, hi, _⟩ := addName_spec b h s
  exact ⟨by rw [hs, hsm]; exact h.src, ht, by rw [hc, hs]; exact h.contents_le,
    by rw [hm, hs]; exact h.mapping_len, by rw [hi]; exact h.ignore_sorted⟩

/-! ### `add` / `add_raw` in steps -/

def srcStep (b : Bld) : Option Bytes → Bld × Nat
  | none => (b, SmVerif.NONE)
  | some s => b.addSourceWithId s SmVerif.NONE
def nameStep (b : Bld) : Option Bytes → Bld × Nat
  | none => (b, SmVerif.NONE)
  | some s => b.addName s

theorem add_eq (b : Bld) (dl dc sl sc : Nat) (src name : Option Bytes) (rng : Bool) :
    b.add dl dc sl sc src name rng =
      ({ (nameStep (srcStep b src).1 name).1 with
           tokens := (nameStep (srcStep b src).1 name).1.tokens ++
             [{ dl := dl, dc := dc, sl := sl, sc := sc, src := (srcStep b src).2,
                name := (nameStep (srcStep b src).1 name).2, rng := rng }] },
       { dl := dl, dc := dc, sl := sl, sc := sc, src := (srcStep b src).2,
         name := (nameStep (srcStep b src).1 name).2, rng := rng }) := by
  cases src <;> cases name <;> rfl

/-- what does not change when a source is interned -/
def SameButSources (b b' : Bld) : Prop :=
  b'.names = b.names ∧ b'.nameMap = b.nameMap ∧ b'.contents = b.contents ∧ b'.tokens = b.tokens ∧
  b'.ignore = b.ignore ∧ b'.root = b.root ∧ b'.file = b.file ∧ b'.debugId = b.debugId
/-- what does not change when a name is interned -/
def SameButNames (b b' : Bld) : Prop :=
  b'.sources = b.sources ∧ b'.sourceMap = b.sourceMap ∧ b'.mapping = b.mapping ∧ b'.contents = b.contents ∧
  b'.tokens = b.tokens ∧ b'.ignore = b.ignore ∧ b'.root = b.root ∧ b'.file = b.file ∧ b'.debugId = b.debugId

theorem srcStep_spec (b : Bld) (h : Inv b) (src : Option Bytes) :
    Inv (srcStep b src).1 ∧ (srcStep b src).2 = optId b.sources src ∧
    (srcStep b src).1.sources = optIntern b.sources src ∧ SameButSources b (srcStep b src).1 := by
  cases src with
  | none => exact ⟨h, rfl, rfl, rfl, rfl, rfl, rfl, rfl, rfl, rfl, rfl⟩
  | some s =>
    obtain ⟨h1, h2, _, _, h5⟩ := addSourceWithId_spec b h s SmVerif.NONE
    exact ⟨inv_addSourceWithId b h s _, h1, h2, h5⟩

theorem nameStep_spec (b : Bld) (h : Inv b) (name : Option Bytes) :
    Inv (nameStep b name).1 ∧ (nameStep b name).2 = optId b.names name ∧
    (nameStep b name).1.names = optIntern b.names name ∧ SameButNames b (nameStep b name).1 := by
  cases name with
  | none => exact ⟨h, rfl, rfl, rfl, rfl, rfl, rfl, rfl, rfl, rfl, rfl, rfl⟩
  | some s =>
    obtain ⟨h1, h2, _, h5⟩ := addName_spec b h s
    exact ⟨inv_addName b h s, h1, h2, h5⟩

/-! ### lists that only grow at the end -/

/-- every index keeps its string -/
def Ext (l l' : List Bytes) : Prop := ∀ (i : Nat) (x : Bytes), l[i]? = some x → l'[i]? = some x

theorem Ext.refl (l : List Bytes) : Ext l l := fun _ _ h => h
theorem Ext.trans {a b c : List Bytes} (h1 : Ext a b) (h2 : Ext b c) : Ext a c := fun i x h => h2 i x (h1 i x h)
theorem Ext.append (l r : List Bytes) : Ext l (l ++ r) := by
  intro i x h
  have hlt := (List.getElem?_eq_some_iff.1 h).1
  rw [List.getElem?_append]; simp only [hlt, ↓reduceIte]; exact h
theorem ext_intern (l : List Bytes) (s : Bytes) : Ext l (intern l s) := by
  unfold intern; split
  · exact Ext.refl l
  · exact Ext.append l [s]
theorem ext_optIntern (l : List Bytes) (o : Option Bytes) : Ext l (optIntern l o) := by
  cases o with
  | none => exact Ext.refl l
  | some s => exact ext_intern l s
theorem Ext.length_le {l l' : List Bytes} (h : Ext l l') : l.length ≤ l'.length := by
  cases hl : l.length with
  | zero => omega
  | succ n =>
    have hn : n < l.length := by omega
    have := h n l[n] (by simp [hn])
    have := (List.getElem?_eq_some_iff.1 this).1
    omega

/-- the id handed out for a string indexes that string in the table afterwards -/
theorem intern_getElem? (l : List Bytes) (s : Bytes) : (intern l s)[internId l s]? = some s := by
  unfold intern internId
  by_cases hm : s ∈ l
  · simp only [hm, ↓reduceIte]
    have hlt := List.idxOf_lt_length_of_mem hm
    rw [List.getElem?_eq_getElem hlt, List.getElem_idxOf hlt]
  · simp only [hm, ↓reduceIte]
    rw [List.idxOf_eq_length hm]; simp

end SmVerif.C13
