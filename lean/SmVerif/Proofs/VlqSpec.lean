import SmVerif.Proofs.Vlq
/-
Canonical texts and agreement with the independent reading of the standard.
-/
namespace SmVerif.Vlq
open SmVerif

/-! ### canonical groups -/

/-- structural canonicity of one digit group: continuation digits, then a final digit `< 32`;
no zero top digit on a multi-digit group -/
def CanonGroup : List Nat → Prop
  | [] => False
  | [d] => d < 32
  | d :: g => 32 ≤ d ∧ d < 64 ∧ CanonGroup g ∧ 0 < groupValue g

/-- a canonical VLQ value: canonical digits, not "negative zero", fits 63 bits -/
def Canon (g : List Nat) : Prop :=
  CanonGroup g ∧ groupValue g ≠ 1 ∧ groupValue g < 9223372036854775808

theorem encDigits_groupValue : ∀ g : List Nat, CanonGroup g → encDigits (groupValue g) = g := by
  intro g
  induction g with
  | nil => intro h; exact absurd h (by simp [CanonGroup])
  | cons d g ih =>
    intro h
    cases g with
    | nil =>
      simp only [CanonGroup] at h
      simp only [groupValue]
      rw [encDigits]
      have : d % 32 = d := Nat.mod_eq_of_lt h
      simp [this, h]
    | cons d2 g2 =>
      simp only [CanonGroup] at h
      obtain ⟨h1, h2, h3, h4⟩ := h
      have ihg := ih h3
      rw [groupValue, encDigits]
      have hge : ¬ (d % 32 + 32 * groupValue (d2 :: g2) < 32) := by omega
      simp only [hge, ↓reduceDIte]
      have e1 : (d % 32 + 32 * groupValue (d2 :: g2)) % 32 + 32 = d := by omega
      have e2 : (d % 32 + 32 * groupValue (d2 :: g2)) / 32 = groupValue (d2 :: g2) := by omega
      rw [e1, e2, ihg]

theorem zig_unzig (v : Nat) (h : v ≠ 1) : zig (unzig v) = v := by
  unfold zig unzig
  split <;> split <;> omega

theorem unzig_bounds (v : Nat) (h : v < 9223372036854775808) :
    -4611686018427387904 < unzig v ∧ unzig v < 4611686018427387904 := by
  unfold unzig; split <;> omega

/-! ### splitGroups facts -/

theorem splitGroups_overlong : ∀ (ds g : List Nat), 13 < g.length →
    (((splitGroups ds g).1.any fun g' => decide (13 < g'.length)) || decide (13 < (splitGroups ds g).2.length)) = true := by
  intro ds
  induction ds with
  | nil => intro g h; simp [splitGroups, h]
  | cons d ds ih =>
    intro g h
    rw [splitGroups]
    split
    · simp only [List.any_cons, List.length_reverse, List.length_cons]
      have : 13 < g.length + 1 := by omega
      simp [this]
    · exact ih (d :: g) (by simp; omega)

theorem groupValue_snoc : ∀ (g : List Nat) (d : Nat),
    groupValue (g ++ [d]) = groupValue g + (d % 32) * 32 ^ g.length := by
  intro g
  induction g with
  | nil => intro d; simp [groupValue]
  | cons x g ih =>
    intro d
    simp only [List.cons_append, groupValue, ih, List.length_cons, Nat.pow_succ]
    rw [Nat.mul_add, Nat.add_assoc]
    congr 2
    rw [Nat.mul_comm (32 ^ g.length) 32, ← Nat.mul_assoc, ← Nat.mul_assoc, Nat.mul_comm 32 (d % 32)]

theorem groupValue_lt : ∀ g : List Nat, groupValue g < 32 ^ g.length := by
  intro g
  induction g with
  | nil => simp [groupValue]
  | cons d g ih =>
    simp only [groupValue, List.length_cons, Nat.pow_succ]
    have : d % 32 < 32 := Nat.mod_lt _ (by omega)
    omega

theorem pow32 (k : Nat) : 32 ^ k = 2 ^ (5 * k) := by
  rw [Nat.pow_mul]

end SmVerif.Vlq

namespace SmVerif.Vlq
open SmVerif

/-- `specVlq` continued from a state in which `acc` (reversed) has already been produced -/
def specTail (gs : List (List Nat)) (r : List Nat) (acc : List Int) : Res (List Int) :=
  if (gs.any (fun g => decide (13 < g.length))) || decide (13 < r.length) then .error .overflow
  else if r ≠ [] then .error .leftover
  else if acc = [] ∧ gs = [] then .error .novalues
  else .ok (acc.reverse ++ gs.map (fun g => unzig (groupValue g)))

theorem specVlq_eq_specTail (ds : List Nat) :
    specVlq ds = specTail (splitGroups ds []).1 (splitGroups ds []).2 [] := by
  unfold specVlq specTail
  simp

theorem two_pow_60 : (2:Nat) ^ (5 * 12) = 1152921504606846976 := by decide

theorem pow_le_60 (k : Nat) (h : k ≤ 12) : 2 ^ (5 * k) ≤ 1152921504606846976 := by
  rw [← two_pow_60]
  exact Nat.pow_le_pow_right (by omega) (by omega)

theorem decLoop_spec : ∀ (ds g : List Nat) (cur : Int) (acc : List Int),
    g.length ≤ 13 → (g.length ≤ 12 → cur = ((groupValue g.reverse : Nat) : Int)) →
    (∀ g' ∈ (splitGroups ds g).1, g'.length ≤ 13 → groupValue g' < 9223372036854775808) →
    decLoop ds cur g.length acc = specTail (splitGroups ds g).1 (splitGroups ds g).2 acc := by
  intro ds
  induction ds with
  | nil =>
    intro g cur acc hlen hcur _
    simp only [splitGroups, decLoop, specTail, List.any_nil, List.length_reverse, Bool.false_or]
    have h13 : ¬ 13 < g.length := by omega
    simp only [h13, decide_false, Bool.false_eq_true, ↓reduceIte]
    cases g with
    | nil =>
      have := hcur (by simp)
      simp [groupValue] at this
      subst this
      simp
    | cons x g => simp
  | cons d ds ih =>
    intro g cur acc hlen hcur hfit
    by_cases hk : 13 ≤ g.length
    · -- 14th digit
      rw [decLoop]
      simp only [hk, ↓reduceIte]
      have hov := splitGroups_overlong
      by_cases hd : d / 32 = 0
      · simp only [splitGroups, hd, ↓reduceIte, specTail, List.any_cons, List.length_reverse, List.length_cons]
        have : 13 < g.length + 1 := by omega
        simp [this]
      · simp only [splitGroups, hd, ↓reduceIte, specTail]
        have := hov ds (d :: g) (by simp; omega)
        simp only [this, ↓reduceIte]
    · have hk' : g.length < 13 := by omega
      have hcur' := hcur (by omega)
      rw [decLoop_cons _ _ _ _ _ hk']
      have hP := two_pow_pos' (5 * g.length)
      have hPle := pow_le_60 g.length (by omega)
      have hx : ((d % 32 : Nat) : Int) * (2 : Int) ^ (5 * g.length)
          = (((d % 32) * 2 ^ (5 * g.length) : Nat) : Int) := by simp
      have hgv := groupValue_lt g.reverse
      rw [List.length_reverse, pow32] at hgv
      have hd32 : d % 32 < 32 := Nat.mod_lt _ (by omega)
      have hmul : (d % 32) * 2 ^ (5 * g.length) ≤ 31 * 2 ^ (5 * g.length) :=
        Nat.mul_le_mul_right _ (by omega)
      by_cases hd : d / 32 = 0
      · -- terminator: the group is complete
        have hsg : splitGroups (d :: ds) g
            = ((d :: g).reverse :: (splitGroups ds []).1, (splitGroups ds []).2) := by
          simp [splitGroups, hd]
        have hG : groupValue ((d :: g).reverse) = groupValue g.reverse + (d % 32) * 2 ^ (5 * g.length) := by
          rw [List.reverse_cons, groupValue_snoc, List.length_reverse, pow32]
        have hfitG : groupValue ((d :: g).reverse) < 9223372036854775808 := by
          apply hfit
          · rw [hsg]; simp
          · simp; omega
        rw [hG] at hfitG
        simp only [hd, ↓reduceIte, hx, hcur']
        rw [wrap64_id (by omega) (by omega)]
        have hin : inI64 (((groupValue g.reverse : Nat) : Int) + (((d % 32) * 2 ^ (5 * g.length) : Nat) : Int)) = true :=
          inI64_of (by omega) (by omega)
        simp only [hin, Bool.not_true, Bool.false_eq_true, ↓reduceIte]
        have hsum : ((groupValue g.reverse : Nat) : Int) + (((d % 32) * 2 ^ (5 * g.length) : Nat) : Int)
            = ((groupValue ((d :: g).reverse) : Nat) : Int) := by rw [hG]; omega
        rw [hsum, finish_nat]
        have := ih [] 0 (unzig (groupValue (d :: g).reverse) :: acc) (by simp) (by simp [groupValue])
          (by
            intro g' hg' hl
            apply hfit g' _ hl
            rw [hsg]; simp [hg'])
        simp only [List.length_nil] at this
        rw [this, hsg]
        simp only [specTail, List.any_cons, List.length_reverse, List.length_cons]
        have h14 : ¬ 13 < g.length + 1 := by omega
        simp only [h14, decide_false, Bool.false_or]
        split
        · rfl
        · split
          · rfl
          · simp
      · -- continuation digit
        have hsg : splitGroups (d :: ds) g = splitGroups ds (d :: g) := by
          simp [splitGroups, hd]
        simp only [hd, ↓reduceIte, hx, hcur']
        by_cases hk12 : g.length = 12
        · -- 13th digit with continuation: the shifted digit may wrap, the sum stays in range
          have hP12 : 2 ^ (5 * g.length) = 1152921504606846976 := by rw [hk12]
          rw [hP12] at hgv ⊢
          have hin : inI64 (((groupValue g.reverse : Nat) : Int)
              + wrap64 (((d % 32) * 1152921504606846976 : Nat) : Int)) = true := by
            unfold wrap64
            apply inI64_of <;> omega
          simp only [hin, Bool.not_true, Bool.false_eq_true, ↓reduceIte]
          have := ih (d :: g) (((groupValue g.reverse : Nat) : Int)
              + wrap64 (((d % 32) * 1152921504606846976 : Nat) : Int)) acc
            (by simp; omega) (by intro h; simp only [List.length_cons] at h; omega)
            (by rw [← hsg]; exact hfit)
          simp only [List.length_cons] at this
          rw [this, hsg]
        · have hk11 : g.length ≤ 11 := by omega
          have hPle2 : 32 * 2 ^ (5 * g.length) ≤ 1152921504606846976 := by
            have := pow_le_60 (g.length + 1) (by omega)
            rw [pow5_succ] at this
            exact this
          rw [wrap64_id (by omega) (by omega)]
          have hin : inI64 (((groupValue g.reverse : Nat) : Int) + (((d % 32) * 2 ^ (5 * g.length) : Nat) : Int)) = true :=
            inI64_of (by omega) (by omega)
          simp only [hin, Bool.not_true, Bool.false_eq_true, ↓reduceIte]
          have hG : groupValue ((d :: g).reverse) = groupValue g.reverse + (d % 32) * 2 ^ (5 * g.length) := by
            rw [List.reverse_cons, groupValue_snoc, List.length_reverse, pow32]
          have := ih (d :: g) (((groupValue g.reverse : Nat) : Int) + (((d % 32) * 2 ^ (5 * g.length) : Nat) : Int)) acc
            (by simp; omega) (by intro _; rw [hG]; omega)
            (by rw [← hsg]; exact hfit)
          simp only [List.length_cons] at this
          rw [this, hsg]

end SmVerif.Vlq
