import SmVerif.Proofs.Lookup
/-
C08 helper lemmas, part 3: `greatest_lower_bound` characterised by a predicate on the index it
returns (`IsGlb`), so that it can be transported along the section shift and located inside a
concatenation of sections without reasoning about the bisection again.  Also: on *any* key list
(sorted or not) the returned element is not after the query.
-/
namespace SmVerif.IndexP
open SmVerif SmVerif.Lookup

/-! ### without sortedness: the returned key is at or before the query -/

theorem bsearchLoop_le (keys : List Pos) (q : Pos) :
    ∀ fuel size base, 1 ≤ size → size ≤ fuel → base + size ≤ keys.length →
      (base = 0 ∨ posLe (keys.getD base (0, 0)) q = true) →
      bsearchLoop keys q fuel size base < keys.length ∧
      (bsearchLoop keys q fuel size base = 0 ∨
        posLe (keys.getD (bsearchLoop keys q fuel size base) (0, 0)) q = true) := by
  intro fuel
  induction fuel with
  | zero => intro size base h1 h2; omega
  | succ fuel ih =>
    intro size base h1 h2 h3 h4
    rw [bsearchLoop]
    by_cases hsz : size ≤ 1
    · simp only [hsz, ↓reduceIte]
      exact ⟨by omega, h4⟩
    · simp only [hsz, ↓reduceIte]
      by_cases hlt : posLt q (keys.getD (base + size / 2) (0, 0)) = true
      · simp only [hlt, ↓reduceIte]
        exact ih (size - size / 2) base (by omega) (by omega) (by omega) h4
      · simp only [hlt]
        have hle : posLe (keys.getD (base + size / 2) (0, 0)) q = true := by
          rw [← posLt_false_iff]; simpa using hlt
        exact ih (size - size / 2) (base + size / 2) (by omega) (by omega) (by omega) (Or.inr hle)

/-- `greatest_lower_bound` on any slice: the element it returns exists and is not after the key -/
theorem glb_le_any (keys : List Pos) (q : Pos) (i : Nat) (h : glb keys q = some i) :
    i < keys.length ∧ posLe (keys.getD i (0, 0)) q = true := by
  by_cases hne : keys.length = 0
  · simp [glb, bsearch, hne] at h
  · obtain ⟨hb, hb0⟩ := bsearchLoop_le keys q keys.length keys.length 0 (by omega) (by omega) (by omega) (Or.inl rfl)
    generalize hbd : bsearchLoop keys q keys.length keys.length 0 = b at hb hb0
    have hbs : bsearch keys q =
        (if keys.getD b (0, 0) = q then (true, b)
         else (false, b + (if posLt (keys.getD b (0, 0)) q then 1 else 0))) := by
      simp only [bsearch, hne, ↓reduceIte, hbd]
    unfold glb at h
    rw [hbs] at h
    by_cases hk : keys.getD b (0, 0) = q
    · simp only [hk, ↓reduceIte, Option.some.injEq] at h
      obtain ⟨hw1, hw2, _⟩ := walkBack_spec keys q b
      rw [h] at hw1 hw2
      have hki : keys.getD i (0, 0) = q := by
        by_cases hib : i = b
        · rw [hib]; exact hk
        · exact hw2 i (Nat.le_refl _) (by omega)
      exact ⟨by omega, posLe_of_eq hki⟩
    · simp only [hk, ↓reduceIte] at h
      by_cases hlt : posLt (keys.getD b (0, 0)) q = true
      · simp only [hlt, ↓reduceIte] at h
        have hib : i = b := by simp at h; omega
        subst hib
        refine ⟨hb, ?_⟩
        rcases posLe_total (keys.getD i (0, 0)) q with h' | h'
        · exact h'
        · exact (posLt_irrefl_le hlt h').elim
      · simp only [hlt] at h
        have hnle : ¬ posLe (keys.getD b (0, 0)) q = true := by
          intro hle
          have hge : posLe q (keys.getD b (0, 0)) = true := by
            rw [← posLt_false_iff]; simpa using hlt
          exact hk (posLe_antisymm hle hge)
        have hb00 : b = 0 := by
          rcases hb0 with h' | h'
          · exact h'
          · exact (hnle h').elim
        subst hb00
        simp at h

/-! ### the index `glb` returns, as a predicate -/

/-- `i` is the answer of `greatest_lower_bound`: the key there is at or before `q`; if it equals `q`
it is the first such key, otherwise every later key is after `q` -/
def IsGlb (keys : List Pos) (q : Pos) (i : Nat) : Prop :=
  i < keys.length ∧ posLe (keys.getD i (0, 0)) q = true ∧
    (keys.getD i (0, 0) = q → ∀ j, j < i → keys.getD j (0, 0) ≠ q) ∧
    (keys.getD i (0, 0) ≠ q → ∀ j, i < j → j < keys.length → posLt q (keys.getD j (0, 0)) = true)

theorem glb_isGlb (keys : List Pos) (q : Pos) (hs : SortedK keys) (i : Nat) (hg : glb keys q = some i) :
    IsGlb keys q i := by
  obtain ⟨hi, hle, _, hfirst⟩ := glb_some keys q hs i hg
  refine ⟨hi, hle, hfirst, ?_⟩
  intro hne j hij hj
  have hlen : keys.length ≠ 0 := by omega
  obtain ⟨b, hb, hb0, hgt, hbs⟩ := bsearch_spec keys q hs hlen
  unfold glb at hg
  rw [hbs] at hg
  by_cases hk : keys.getD b (0, 0) = q
  · simp only [hk, ↓reduceIte, Option.some.injEq] at hg
    obtain ⟨hw1, hw2, _⟩ := walkBack_spec keys q b
    rw [hg] at hw1 hw2
    have hki : keys.getD i (0, 0) = q := by
      by_cases hib : i = b
      · rw [hib]; exact hk
      · exact hw2 i (Nat.le_refl _) (by omega)
    exact (hne hki).elim
  · simp only [hk, ↓reduceIte] at hg
    by_cases hlt : posLt (keys.getD b (0, 0)) q = true
    · simp only [hlt, ↓reduceIte] at hg
      have hib : i = b := by simp at hg; omega
      subst hib
      exact hgt j hij hj
    · simp only [hlt] at hg
      have hnle : ¬ posLe (keys.getD b (0, 0)) q = true := by
        intro hle'
        have hge : posLe q (keys.getD b (0, 0)) = true := by
          rw [← posLt_false_iff]; simpa using hlt
        exact hk (posLe_antisymm hle' hge)
      have hb00 : b = 0 := by
        rcases hb0 with h' | h'
        · exact h'
        · exact (hnle h').elim
      subst hb00
      simp at hg

theorem isGlb_unique {keys : List Pos} {q : Pos} (hs : SortedK keys) {i j : Nat}
    (hi : IsGlb keys q i) (hj : IsGlb keys q j) : i = j := by
  have key : ∀ a b, IsGlb keys q a → IsGlb keys q b → a < b → False := by
    intro a b ha hb hab
    obtain ⟨ha1, ha2, ha3, ha4⟩ := ha
    obtain ⟨hb1, hb2, hb3, hb4⟩ := hb
    by_cases hka : keys.getD a (0, 0) = q
    · have hab' : posLe (keys.getD a (0, 0)) (keys.getD b (0, 0)) = true := hs a b (by omega) hb1
      rw [hka] at hab'
      have hkb : keys.getD b (0, 0) = q := posLe_antisymm hb2 hab'
      exact hb3 hkb a hab hka
    · exact posLt_irrefl_le (ha4 hka b hab hb1) hb2
  rcases Nat.lt_trichotomy i j with h | h | h
  · exact (key i j hi hj h).elim
  · exact h
  · exact (key j i hj hi h).elim

theorem isGlb_glb (keys : List Pos) (q : Pos) (hs : SortedK keys) (i : Nat) (h : IsGlb keys q i) :
    glb keys q = some i := by
  cases hg : glb keys q with
  | none =>
    have := glb_none keys q hs hg i h.1
    rw [h.2.1] at this; exact absurd this (by simp)
  | some j =>
    have := isGlb_unique hs (glb_isGlb keys q hs j hg) h
    rw [this]

theorem glb_iff_isGlb (keys : List Pos) (q : Pos) (hs : SortedK keys) (i : Nat) :
    glb keys q = some i ↔ IsGlb keys q i :=
  ⟨glb_isGlb keys q hs i, isGlb_glb keys q hs i⟩

/-! ### transport along an order embedding -/

theorem getD_map_lt (keys : List Pos) (f : Pos → Pos) (j : Nat) (hj : j < keys.length) :
    (keys.map f).getD j (0, 0) = f (keys.getD j (0, 0)) := by
  simp [List.getD_eq_getElem?_getD, hj]

/-- if `f` relates the orders around `q'` and `q`, the answer for `q'` on `keys` is the answer for
`q` on the mapped keys -/
theorem isGlb_map (keys : List Pos) (f : Pos → Pos) (q q' : Pos) (i : Nat)
    (hle : ∀ p, posLe (f p) q = posLe p q') (hlt : ∀ p, posLt q (f p) = posLt q' p)
    (heq : ∀ p, f p = q ↔ p = q') (h : IsGlb keys q' i) : IsGlb (keys.map f) q i := by
  obtain ⟨h1, h2, h3, h4⟩ := h
  refine ⟨by simpa using h1, ?_, ?_, ?_⟩
  · rw [getD_map_lt keys f i h1, hle]; exact h2
  · rw [getD_map_lt keys f i h1, heq]
    intro hk j hj
    rw [getD_map_lt keys f j (by omega), Ne, heq]
    exact h3 hk j hj
  · rw [getD_map_lt keys f i h1, Ne, heq]
    intro hk j hij hj
    rw [List.length_map] at hj
    rw [getD_map_lt keys f j hj, hlt]
    exact h4 hk j hij hj

/-! ### inside a concatenation -/

theorem getD_append_left' (A B : List Pos) (j : Nat) (hj : j < A.length) :
    (A ++ B).getD j (0, 0) = A.getD j (0, 0) := by
  simp [List.getD_eq_getElem?_getD, List.getElem?_append_left hj]

theorem getD_append_right' (A B : List Pos) (j : Nat) (hj : A.length ≤ j) :
    (A ++ B).getD j (0, 0) = B.getD (j - A.length) (0, 0) := by
  simp [List.getD_eq_getElem?_getD, List.getElem?_append_right hj]

theorem getD_mem (A : List Pos) (j : Nat) (hj : j < A.length) : A.getD j (0, 0) ∈ A := by
  have : A.getD j (0, 0) = A[j] := by simp [List.getD_eq_getElem?_getD, hj]
  rw [this]; exact List.getElem_mem hj

/-- the answer inside a block `B` whose predecessors are all before `q` and whose successors are all
after `q` is the answer on the whole list -/
theorem isGlb_block (A B C : List Pos) (q : Pos) (i : Nat)
    (hA : ∀ a ∈ A, posLt a q = true) (hC : ∀ c ∈ C, posLt q c = true) (h : IsGlb B q i) :
    IsGlb (A ++ (B ++ C)) q (A.length + i) := by
  obtain ⟨h1, h2, h3, h4⟩ := h
  have hAi : (A ++ (B ++ C)).getD (A.length + i) (0, 0) = B.getD i (0, 0) := by
    rw [getD_append_right' _ _ _ (by omega), Nat.add_sub_cancel_left, getD_append_left' _ _ _ h1]
  refine ⟨by simp; omega, by rw [hAi]; exact h2, ?_, ?_⟩
  · rw [hAi]
    intro hk j hj
    by_cases hjA : j < A.length
    · rw [getD_append_left' _ _ _ hjA]
      intro he
      have := hA _ (getD_mem A j hjA)
      rw [he] at this
      exact posLt_irrefl_le this (posLe_refl q)
    · rw [getD_append_right' _ _ _ (by omega), getD_append_left' _ _ _ (by omega)]
      exact h3 hk (j - A.length) (by omega)
  · rw [hAi]
    intro hk j hij hj
    simp only [List.length_append] at hj
    rw [getD_append_right' _ _ _ (by omega)]
    by_cases hjB : j - A.length < B.length
    · rw [getD_append_left' _ _ _ hjB]
      exact h4 hk (j - A.length) (by omega) hjB
    · rw [getD_append_right' _ _ _ (by omega)]
      exact hC _ (getD_mem C _ (by omega))

end SmVerif.IndexP
