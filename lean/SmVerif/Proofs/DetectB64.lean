import SmVerif.Model.Detect
import SmVerif.Proofs.DetectLines
import SmVerif.Proofs.DetectTrim
/-
C18 helper lemmas, part 3: RFC 4648 round trip by three-byte groups, preamble acceptance over the
regenerated producer / consumer constants, detection of serialised maps.
-/
namespace SmVerif.Detect
open SmVerif SmVerif.Detect.Spec

theorem decChar_encChar_fin : ∀ d : Fin 64, decChar (encChar d.val) = some d.val := by decide

theorem decChar_encChar (d : Nat) (h : d < 64) : decChar (encChar d) = some d :=
  decChar_encChar_fin ⟨d, h⟩

theorem encChar_range (d : Nat) : 43 ≤ encChar d ∧ encChar d ≤ 122 ∧ encChar d ≠ PAD := by
  unfold encChar PAD
  split
  · omega
  · split
    · omega
    · split
      · omega
      · split <;> omega

theorem decBlock3 (a b c : Nat) (ha : a < 256) (hb : b < 256) (hc : c < 256) :
    decBlock (encChar (a / 4)) (encChar ((a % 4) * 16 + b / 16)) (encChar ((b % 16) * 4 + c / 64)) (encChar (c % 64))
      = some [a, b, c] := by
  have h3 := (encChar_range (c % 64)).2.2
  simp only [decBlock, h3, ne_eq, not_false_eq_true, ↓reduceIte,
    decChar_encChar (a / 4) (by omega), decChar_encChar ((a % 4) * 16 + b / 16) (by omega),
    decChar_encChar ((b % 16) * 4 + c / 64) (by omega), decChar_encChar (c % 64) (by omega)]
  congr 1
  have e1 : a / 4 * 4 + (a % 4 * 16 + b / 16) / 16 = a := by omega
  have e2 : (a % 4 * 16 + b / 16) % 16 * 16 + (b % 16 * 4 + c / 64) / 4 = b := by omega
  have e3 : (b % 16 * 4 + c / 64) % 4 * 64 + c % 64 = c := by omega
  rw [e1, e2, e3]

theorem decBlock2 (a b : Nat) (ha : a < 256) (hb : b < 256) :
    decBlock (encChar (a / 4)) (encChar ((a % 4) * 16 + b / 16)) (encChar ((b % 16) * 4)) PAD = some [a, b] := by
  have h2 := (encChar_range ((b % 16) * 4)).2.2
  have e0 : (b % 16 * 4) % 4 = 0 := by omega
  simp only [decBlock, h2, ne_eq, not_true_eq_false, not_false_eq_true, ↓reduceIte,
    decChar_encChar (a / 4) (by omega), decChar_encChar ((a % 4) * 16 + b / 16) (by omega),
    decChar_encChar ((b % 16) * 4) (by omega), e0]
  congr 1
  have e1 : a / 4 * 4 + (a % 4 * 16 + b / 16) / 16 = a := by omega
  have e2 : (a % 4 * 16 + b / 16) % 16 * 16 + (b % 16 * 4) / 4 = b := by omega
  rw [e1, e2]

theorem decBlock1 (a : Nat) (ha : a < 256) :
    decBlock (encChar (a / 4)) (encChar ((a % 4) * 16)) PAD PAD = some [a] := by
  have h1 := (encChar_range ((a % 4) * 16)).2.2
  have e0 : (a % 4 * 16) % 16 = 0 := by omega
  simp only [decBlock, h1, ne_eq, not_true_eq_false, not_false_eq_true, ↓reduceIte,
    decChar_encChar (a / 4) (by omega), decChar_encChar ((a % 4) * 16) (by omega), e0]
  congr 1
  have e1 : a / 4 * 4 + (a % 4 * 16) / 16 = a := by omega
  rw [e1]

/-- byte strings: every element is a byte -/
def IsBytes (bs : Bytes) : Prop := ∀ x ∈ bs, x < 256

theorem b64_roundtrip (bs : Bytes) (h : IsBytes bs) : b64Decode (b64Encode bs) = .ok bs := by
  induction bs using b64Encode.induct with
  | case1 a b c r ih =>
    have ha : a < 256 := h a (by simp)
    have hb : b < 256 := h b (by simp)
    have hc : c < 256 := h c (by simp)
    have hr : IsBytes r := fun x hx => h x (by simp [hx])
    simp only [b64Encode, b64Decode, decBlock3 a b c ha hb hc, ih hr]
    simp
  | case2 a b =>
    have ha : a < 256 := h a (by simp)
    have hb : b < 256 := h b (by simp)
    simp only [b64Encode, b64Decode, decBlock2 a b ha hb]
    simp
  | case3 a =>
    have ha : a < 256 := h a (by simp)
    simp only [b64Encode, b64Decode, decBlock1 a ha]
    simp
  | case4 => simp [b64Encode, b64Decode]



/-- the producer's preamble is the first accepted preamble that is a prefix of it, and no accepted
preamble is longer (so the choice does not depend on the payload) -/
def prefixAccepted (accepted : List Bytes) (produced : Bytes) : Bool :=
  (accepted.find? (fun p => p.isPrefixOf produced) == some produced)
    && accepted.all (fun p => p.length ≤ produced.length)

theorem findSome_strip (acc : List Bytes) (prod e : Bytes) (hlen : ∀ p ∈ acc, p.length ≤ prod.length) :
    acc.findSome? (fun p => stripPrefix p (prod ++ e))
      = (acc.find? (fun p => p.isPrefixOf prod)).map (fun p => (prod ++ e).drop p.length) := by
  induction acc with
  | nil => rfl
  | cons p acc ih =>
    have hp := hlen p (by simp)
    have ih' := ih (fun q hq => hlen q (by simp [hq]))
    simp only [List.findSome?, List.find?, stripPrefix, isPrefixOf_append_of_le p prod e hp]
    by_cases h : p.isPrefixOf prod = true
    · simp [h]
    · simp only [Bool.not_eq_true] at h
      simp only [h]
      exact ih'

theorem strip_accepted (acc : List Bytes) (prod e : Bytes) (h : prefixAccepted acc prod = true) :
    acc.findSome? (fun p => stripPrefix p (prod ++ e)) = some e := by
  simp only [prefixAccepted, Bool.and_eq_true, beq_iff_eq, List.all_eq_true, decide_eq_true_eq] at h
  rw [findSome_strip acc prod e h.2, h.1]
  simp





/-! ### the produced URL consists of printable non-space ASCII -/

theorem b64Encode_plain (bs : Bytes) : ∀ x ∈ b64Encode bs, Plain x := by
  have hp : Plain PAD := by decide
  have he : ∀ d, Plain (encChar d) := fun d => by
    have := encChar_range d
    unfold Plain; omega
  induction bs using b64Encode.induct with
  | case1 a b c r ih =>
    intro x hx
    simp only [b64Encode, List.mem_cons] at hx
    rcases hx with rfl | rfl | rfl | rfl | hx
    · exact he _
    · exact he _
    · exact he _
    · exact he _
    · exact ih x hx
  | case2 a b =>
    intro x hx
    simp only [b64Encode, List.mem_cons, List.not_mem_nil, or_false] at hx
    rcases hx with rfl | rfl | rfl | rfl
    · exact he _
    · exact he _
    · exact he _
    · exact hp
  | case3 a =>
    intro x hx
    simp only [b64Encode, List.mem_cons, List.not_mem_nil, or_false] at hx
    rcases hx with rfl | rfl | rfl | rfl
    · exact he _
    · exact he _
    · exact hp
    · exact hp
  | case4 => simp [b64Encode]

theorem produced_plain : ∀ x ∈ Consts.dataUrlProduced, Plain x := by decide
theorem pHash_no_nl_cr : ∀ x ∈ pHash, x ≠ 10 ∧ x ≠ 13 := by decide

theorem toDataUrl_plain (bs : Bytes) : ∀ x ∈ toDataUrl bs, Plain x := by
  intro x hx
  simp only [toDataUrl, List.mem_append] at hx
  rcases hx with hx | hx
  · exact produced_plain x hx
  · exact b64Encode_plain bs x hx

/-- the comment line that embeds a map: what `lines_embed` and `trim_plain` need of it -/
theorem refLine_facts (u : Bytes) (hu : ∀ x ∈ u, Plain x) :
    10 ∉ pHash ++ u ∧ pHash ++ u ≠ [] ∧ (pHash ++ u).getLast? ≠ some 13 := by
  have hall : ∀ x ∈ pHash ++ u, x ≠ 10 ∧ x ≠ 13 := by
    intro x hx
    rcases List.mem_append.mp hx with h | h
    · exact pHash_no_nl_cr x h
    · have := hu x h
      unfold Plain at this; omega
  refine ⟨?_, ?_, ?_⟩
  · intro h
    exact (hall 10 h).1 rfl
  · simp [pHash]
  · intro h
    have hm : (13 : Nat) ∈ pHash ++ u := List.mem_of_getLast? h
    exact (hall 13 hm).2 rfl

theorem detects_regularP (f r c g i d : Bool) : isSourcemapDoc (emit (asRawRegularP f r c g i d)) = true := by
  cases f <;> cases r <;> cases c <;> cases g <;> cases i <;> cases d <;> decide

theorem detects_hermesP (f r c g i d b : Bool) : isSourcemapDoc (emit (asRawHermesP f r c g i d b)) = true := by
  cases f <;> cases r <;> cases c <;> cases g <;> cases i <;> cases d <;> cases b <;> decide

theorem detects_indexP (f : Bool) : isSourcemapDoc (emit (asRawIndexP f)) = true := by
  cases f <;> decide

theorem detects_serialised (d : Serialisable) : isSourcemapDoc (emit (asRaw d)) = true := by
  cases d with
  | regular m => exact detects_regularP _ _ _ _ _ _
  | index file => exact detects_indexP _
  | hermes m fb => exact detects_hermesP _ _ _ _ _ _ _


end SmVerif.Detect
