import SmVerif.Model.Adjust
import SmVerif.Proofs.Lookup
/-
Helper lemmas for C10, part 1: the two-pointer sweep of `adjust_mappings` over *any* two lists of
weakly ordered ranges (`start ≤ end`, `end ≤ every later start`) pushes, for each adjustment range in
turn, one token for every original range `o` with `o.start < a.end ∧ a.start < o.end`
(`sweep_spec`).  Empty ranges are allowed here: this is exactly what the code does.
-/
namespace SmVerif.Adjust
open SmVerif SmVerif.Lookup

/-- the overlap test the sweep effectively applies -/
def ovb (o a : Range) : Bool := posLt o.start a.stop && posLt a.start o.stop

/-- the displaced token in exact arithmetic -/
def E (o a : Range) : Tok :=
  { o.value with dl := (posMax o.start a.start).1 + a.value.dl - a.value.sl,
                 dc := (posMax o.start a.start).2 + a.value.dc - a.value.sc }

def one (a o : Range) : Option Tok := if ovb o a then some (E o a) else none

/-- weakly ordered ranges -/
def WS (rs : List Range) : Prop :=
  (∀ r ∈ rs, posLe r.start r.stop = true) ∧ rs.Pairwise (fun r r' => posLe r.stop r'.start = true)

/-- the displacement arithmetic of adjustment range `a` does not overflow against the ranges `rs` -/
def ArithOK (rs : List Range) (a : Range) : Prop :=
  ∃ ld cd, diffs a = .ok (ld, cd) ∧
    ∀ o ∈ rs, posLt o.start a.stop = true → emit a o ld cd = .ok (E o a)

theorem WS_tail {r : Range} {rs : List Range} (h : WS (r :: rs)) : WS rs :=
  ⟨fun x hx => h.1 x (List.mem_cons_of_mem _ hx), (List.pairwise_cons.mp h.2).2⟩

theorem WS_head_le {r : Range} {rs : List Range} (h : WS (r :: rs)) :
    ∀ x ∈ rs, posLe r.stop x.start = true := (List.pairwise_cons.mp h.2).1

theorem WS_append_right {l₁ l₂ : List Range} (h : WS (l₁ ++ l₂)) : WS l₂ :=
  ⟨fun x hx => h.1 x (List.mem_append_right _ hx), (List.pairwise_append.mp h.2).2.1⟩

theorem flatMap_congr' {α β} {l : List α} {f g : α → List β} (h : ∀ a ∈ l, f a = g a) :
    l.flatMap f = l.flatMap g := by
  induction l with
  | nil => rfl
  | cons x l ih =>
    simp only [List.flatMap_cons]
    rw [h x (List.mem_cons_self), ih (fun a ha => h a (List.mem_cons_of_mem _ ha))]

/-! ### the skip loop -/

theorem skip_none {a : Range} : ∀ (os : List Range) (o : Range), skip a o os = none →
    ∀ r ∈ o :: os, posLe r.stop a.start = true := by
  intro os
  induction os with
  | nil =>
    intro o h r hr
    simp only [skip] at h
    split at h
    · simp only [List.mem_singleton] at hr; subst hr; assumption
    · cases h
  | cons o' os ih =>
    intro o h r hr
    simp only [skip] at h
    split at h
    · rename_i hc
      rcases List.mem_cons.mp hr with rfl | hr
      · exact hc
      · exact ih o' h r hr
    · cases h

theorem skip_some {a : Range} : ∀ (os : List Range) (o o1 : Range) (os1 : List Range),
    skip a o os = some (o1, os1) →
    ∃ pre, o :: os = pre ++ o1 :: os1 ∧ (∀ r ∈ pre, posLe r.stop a.start = true) ∧
      posLt a.start o1.stop = true := by
  intro os
  induction os with
  | nil =>
    intro o o1 os1 h
    simp only [skip] at h
    split at h
    · cases h
    · rename_i hc
      simp only [Option.some.injEq, Prod.mk.injEq] at h
      obtain ⟨rfl, rfl⟩ := h
      exact ⟨[], rfl, by simp, (posLe_false_iff _ _).mp (by simpa using hc)⟩
  | cons o' os ih =>
    intro o o1 os1 h
    simp only [skip] at h
    split at h
    · rename_i hc
      obtain ⟨pre, hp, hpre, hlt⟩ := ih o' o1 os1 h
      refine ⟨o :: pre, by rw [hp]; rfl, ?_, hlt⟩
      intro r hr
      rcases List.mem_cons.mp hr with rfl | hr
      · exact hc
      · exact hpre r hr
    · rename_i hc
      simp only [Option.some.injEq, Prod.mk.injEq] at h
      obtain ⟨rfl, rfl⟩ := h
      exact ⟨[], rfl, by simp, (posLe_false_iff _ _).mp (by simpa using hc)⟩

/-! ### the inner loop -/

theorem one_none_of_start {a r : Range} (h : posLe a.stop r.start = true) : one a r = none := by
  have : posLt r.start a.stop = false := (posLt_false_iff _ _).mpr h
  simp [one, ovb, this]

theorem one_none_of_stop {a r : Range} (h : posLe r.stop a.start = true) : one a r = none := by
  have : posLt a.start r.stop = false := (posLt_false_iff _ _).mpr h
  simp [one, ovb, this]

theorem one_some {a r : Range} (h1 : posLt r.start a.stop = true) (h2 : posLt a.start r.stop = true) :
    one a r = some (E r a) := by
  simp [one, ovb, h1, h2]

/-- what `inner` returns: the tokens of all ranges of `o :: os` that overlap `a`, and where it stops -/
def InnerPost (a : Range) (o : Range) (os : List Range) (st : Option (Range × List Range)) : Prop :=
  match st with
  | none => ∀ r ∈ o :: os, posLt r.stop a.stop = true
  | some (o2, os2) => ∃ mid, o :: os = mid ++ o2 :: os2 ∧ ∀ r ∈ mid, posLt r.stop a.stop = true

theorem inner_spec {a : Range} {ld cd : Int} (rs : List Range)
    (hemit : ∀ o ∈ rs, posLt o.start a.stop = true → emit a o ld cd = .ok (E o a)) :
    ∀ (os : List Range) (o : Range), (∀ r ∈ o :: os, r ∈ rs) → WS (o :: os) →
      posLt a.start o.stop = true →
      ∃ st, inner a ld cd o os = .ok ((o :: os).filterMap (one a), st) ∧ InnerPost a o os st := by
  intro os
  induction os with
  | nil =>
    intro o hsub hws hlt
    simp only [inner]
    by_cases h1 : posLt o.start a.stop = true
    · simp only [h1, ↓reduceIte, hemit o (hsub o (by simp)) h1]
      have hone : [o].filterMap (one a) = [E o a] := by simp [one_some h1 hlt]
      by_cases h2 : posLe a.stop o.stop = true
      · simp only [h2, ↓reduceIte]
        exact ⟨some (o, []), by rw [hone], [], rfl, by simp⟩
      · simp only [h2]
        refine ⟨none, by rw [hone]; rfl, ?_⟩
        intro r hr
        simp only [List.mem_singleton] at hr; subst hr
        exact (posLe_false_iff _ _).mp (by simpa using h2)
    · simp only [h1]
      have h1' : posLe a.stop o.start = true := (posLt_false_iff _ _).mp (by simpa using h1)
      refine ⟨some (o, []), ?_, [], rfl, by simp⟩
      simp [one_none_of_start h1']
  | cons o' os ih =>
    intro o hsub hws hlt
    simp only [inner]
    have hws' := WS_tail hws
    have hhead := WS_head_le hws
    by_cases h1 : posLt o.start a.stop = true
    · simp only [h1, ↓reduceIte, hemit o (hsub o (by simp)) h1]
      by_cases h2 : posLe a.stop o.stop = true
      · simp only [h2, ↓reduceIte]
        refine ⟨some (o, o' :: os), ?_, [], rfl, by simp⟩
        have hrest : (o' :: os).filterMap (one a) = [] := by
          rw [List.filterMap_eq_nil_iff]
          intro r hr
          exact one_none_of_start (posLe_trans h2 (hhead r hr))
        rw [List.filterMap_cons, one_some h1 hlt, hrest]
      · have h2f : posLe a.stop o.stop = false := by simpa using h2
        simp only [h2f, Bool.false_eq_true, ↓reduceIte]
        have h2' : posLt o.stop a.stop = true := (posLe_false_iff _ _).mp h2f
        have hlt' : posLt a.start o'.stop = true := by
          have ha := hhead o' (by simp)
          have hb := hws.1 o' (by simp)
          rw [posLe_iff] at ha hb; rw [posLt_iff] at hlt ⊢; omega
        obtain ⟨st, hin, hpost⟩ := ih o' (fun r hr => hsub r (List.mem_cons_of_mem _ hr)) hws' hlt'
        rw [hin]
        refine ⟨st, ?_, ?_⟩
        · simp only [List.filterMap_cons (a := o), one_some h1 hlt]
        · cases st with
          | none =>
            intro r hr
            rcases List.mem_cons.mp hr with rfl | hr
            · exact h2'
            · exact hpost r hr
          | some p =>
            obtain ⟨o2, os2⟩ := p
            obtain ⟨mid, hm, hmid⟩ := hpost
            refine ⟨o :: mid, by rw [hm]; rfl, ?_⟩
            intro r hr
            rcases List.mem_cons.mp hr with rfl | hr
            · exact h2'
            · exact hmid r hr
    · have h1f : posLt o.start a.stop = false := by simpa using h1
      simp only [h1f, Bool.false_eq_true, ↓reduceIte]
      have h1' : posLe a.stop o.start = true := (posLt_false_iff _ _).mp h1f
      refine ⟨some (o, o' :: os), ?_, [], rfl, by simp⟩
      have hall : (o :: o' :: os).filterMap (one a) = [] := by
        rw [List.filterMap_eq_nil_iff]
        intro r hr
        rcases List.mem_cons.mp hr with rfl | hr
        · exact one_none_of_start h1'
        · exact one_none_of_start (posLe_trans (posLe_trans h1' (hws.1 o (by simp))) (hhead r hr))
      rw [hall]

/-! ### the outer loop -/

theorem filterMap_one_nil_of_stop {a : Range} {l : List Range}
    (h : ∀ r ∈ l, posLe r.stop a.start = true) : l.filterMap (one a) = [] := by
  rw [List.filterMap_eq_nil_iff]
  intro r hr
  exact one_none_of_stop (h r hr)

/-- later adjustment ranges start at or after the end of an earlier one -/
theorem WS_start_le {a : Range} {as : List Range} (h : WS (a :: as)) :
    ∀ a' ∈ a :: as, posLe a.start a'.start = true := by
  intro a' ha'
  rcases List.mem_cons.mp ha' with rfl | ha'
  · exact posLe_refl _
  · exact posLe_trans (h.1 a (by simp)) (WS_head_le h a' ha')

theorem sweep_spec (rs : List Range) : ∀ (as : List Range) (o : Range) (os : List Range),
    (∀ r ∈ o :: os, r ∈ rs) → WS (o :: os) → WS as → (∀ a ∈ as, ArithOK rs a) →
    sweep o os as = .ok (as.flatMap fun a => (o :: os).filterMap (one a)) := by
  intro as
  induction as with
  | nil => intro o os _ _ _ _; simp [sweep]
  | cons a as ih =>
    intro o os hsub hws hwa hok
    obtain ⟨ld, cd, hd, hemit⟩ := hok a (by simp)
    have hwa' := WS_tail hwa
    have hstart := WS_start_le hwa
    rw [sweep]
    simp only [hd]
    cases hs : skip a o os with
    | none =>
      have hall := skip_none os o hs
      simp only
      congr 1
      symm
      rw [List.flatMap_eq_nil_iff]
      intro a' ha'
      apply filterMap_one_nil_of_stop
      intro r hr
      exact posLe_trans (hall r hr) (hstart a' ha')
    | some p =>
      obtain ⟨o1, os1⟩ := p
      obtain ⟨pre, hp, hpre, hlt⟩ := skip_some os o o1 os1 hs
      simp only
      -- the skipped prefix overlaps nothing that is left
      have hdrop : ((a :: as).flatMap fun a' => (o :: os).filterMap (one a'))
          = (a :: as).flatMap fun a' => (o1 :: os1).filterMap (one a') := by
        apply flatMap_congr'
        intro a' ha'
        have hnil := filterMap_one_nil_of_stop (a := a') (l := pre) (by
          intro r hr
          exact posLe_trans (hpre r hr) (hstart a' ha'))
        rw [hp, List.filterMap_append, hnil, List.nil_append]
      rw [hdrop]
      have hsub1 : ∀ r ∈ o1 :: os1, r ∈ rs := by
        intro r hr; apply hsub; rw [hp]; exact List.mem_append_right _ hr
      have hws1 : WS (o1 :: os1) := by rw [hp] at hws; exact WS_append_right hws
      obtain ⟨st, hin, hpost⟩ := inner_spec rs hemit os1 o1 hsub1 hws1 hlt
      rw [hin]
      have hnext : ∀ a' ∈ as, posLe a.stop a'.start = true := WS_head_le hwa
      cases st with
      | none =>
        simp only [List.flatMap_cons]
        have : (as.flatMap fun a' => (o1 :: os1).filterMap (one a')) = [] := by
          rw [List.flatMap_eq_nil_iff]
          intro a' ha'
          apply filterMap_one_nil_of_stop
          intro r hr
          have h1 := hpost r hr
          have h2 := hnext a' ha'
          rw [posLe_iff] at h2 ⊢; rw [posLt_iff] at h1; omega
        rw [this, List.append_nil]
      | some q =>
        obtain ⟨o2, os2⟩ := q
        obtain ⟨mid, hm, hmid⟩ := hpost
        simp only
        have hsub2 : ∀ r ∈ o2 :: os2, r ∈ rs := by
          intro r hr; apply hsub1; rw [hm]; exact List.mem_append_right _ hr
        have hws2 : WS (o2 :: os2) := by rw [hm] at hws1; exact WS_append_right hws1
        rw [ih o2 os2 hsub2 hws2 hwa' (fun a' ha' => hok a' (List.mem_cons_of_mem _ ha'))]
        simp only [List.flatMap_cons]
        congr 2
        apply flatMap_congr'
        intro a' ha'
        have hnil := filterMap_one_nil_of_stop (a := a') (l := mid) (by
          intro r hr
          have h1 := hmid r hr
          have h2 := hnext a' ha'
          rw [posLe_iff] at h2 ⊢; rw [posLt_iff] at h1; omega)
        rw [hm, List.filterMap_append, hnil, List.nil_append]

end SmVerif.Adjust
