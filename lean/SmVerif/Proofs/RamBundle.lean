import SmVerif.Model.RamBundle
/-
Helper lemmas for C20 (indexed RAM bundles).  Three groups:
  1. what the writer (`putLe32`, `layout`, `body`, `serialize`) puts where;
  2. what the reader (`parse`, `startupCode`, `getModule`, `iterModules`) returns when the table
     entry of a slot and the bytes it points at are known;
  3. bounds: `slice` only ever returns `(bs.drop i).take n` with `i + n ≤ bs.length`.
The property statements themselves are in `SmVerif/Props/C20.lean`.
-/
namespace SmVerif.Ram
open SmVerif

/-! ### 1a. little-endian fields -/

theorem putLe32_length (n : Nat) : (putLe32 n).length = 4 := rfl

theorem putLe32_lt (n x : Nat) (h : x ∈ putLe32 n) : x < 256 := by
  simp only [putLe32, List.mem_cons, List.not_mem_nil, or_false] at h
  omega

/-- reading back a field that was written with `putLe32`, anywhere in a buffer -/
theorem le32_putLe32_mid (pre post : List Nat) (v : Nat) (hv : v < 4294967296) :
    le32 (pre ++ putLe32 v ++ post) pre.length = some v := by
  unfold le32
  have hlen : pre.length + 4 ≤ (pre ++ putLe32 v ++ post).length := by
    simp [putLe32_length]
  rw [if_pos hlen]
  simp [putLe32, List.getD_eq_getElem?_getD]
  omega

/-- the same, with the decomposition of the buffer given as an equation -/
theorem le32_of_eq {bs : List Nat} {k : Nat} (pre post : List Nat) (v : Nat) (hv : v < 4294967296)
    (hbs : bs = pre ++ putLe32 v ++ post) (hk : k = pre.length) : le32 bs k = some v := by
  subst hbs; subst hk; exact le32_putLe32_mid pre post v hv

theorem le32_some_of_le {bs : List Nat} {off : Nat} (h : off + 4 ≤ bs.length) :
    ∃ v, le32 bs off = some v := by
  unfold le32; rw [if_pos h]; exact ⟨_, rfl⟩

theorem le32_none_of_lt {bs : List Nat} {off : Nat} (h : bs.length < off + 4) :
    le32 bs off = none := by
  unfold le32; rw [if_neg (by omega)]

theorem le32_some_le {bs : List Nat} {off v : Nat} (h : le32 bs off = some v) :
    off + 4 ≤ bs.length := by
  unfold le32 at h
  by_cases hc : off + 4 ≤ bs.length
  · exact hc
  · rw [if_neg hc] at h; cases h

/-! ### 1b. the offset table -/

/-- one table entry on the wire -/
def enc (e : Nat × Nat) : List Nat := putLe32 e.1 ++ putLe32 e.2

theorem enc_eq : (fun (x : Nat × Nat) => match x with | (o, l) => putLe32 o ++ putLe32 l) = enc := by
  funext x; cases x; rfl

theorem enc_length (e : Nat × Nat) : (enc e).length = 8 := rfl

theorem table_length (L : List (Nat × Nat)) : ((L.map enc).flatten).length = 8 * L.length := by
  induction L with
  | nil => rfl
  | cons e r ih =>
    simp only [List.map_cons, List.flatten_cons, List.length_append, enc_length, ih, List.length_cons]
    omega

/-- entry `id` of a written table is read back as the pair that was written -/
theorem table_entry (L : List (Nat × Nat)) : ∀ (pre post : List Nat) (id : Nat) (e : Nat × Nat),
    L[id]? = some e → e.1 < 4294967296 → e.2 < 4294967296 →
    le32 (pre ++ (L.map enc).flatten ++ post) (pre.length + 8 * id) = some e.1 ∧
    le32 (pre ++ (L.map enc).flatten ++ post) (pre.length + 8 * id + 4) = some e.2 := by
  induction L with
  | nil => intro pre post id e h; simp at h
  | cons x r ih =>
    intro pre post id e h h1 h2
    cases id with
    | zero =>
      simp only [List.getElem?_cons_zero, Option.some.injEq] at h
      subst h
      constructor
      · exact le32_of_eq pre (putLe32 x.2 ++ (r.map enc).flatten ++ post) x.1 h1
          (by simp [enc, List.append_assoc]) (by simp)
      · exact le32_of_eq (pre ++ putLe32 x.1) ((r.map enc).flatten ++ post) x.2 h2
          (by simp [enc, List.append_assoc]) (by simp [putLe32_length])
    | succ j =>
      simp only [List.getElem?_cons_succ] at h
      have := ih (pre ++ enc x) post j e h h1 h2
      have e1 : pre ++ ((x :: r).map enc).flatten ++ post = pre ++ enc x ++ (r.map enc).flatten ++ post := by
        simp [List.append_assoc]
      have e2 : (pre ++ enc x).length + 8 * j = pre.length + 8 * (j + 1) := by
        simp [enc_length]; omega
      rw [e1, ← e2]
      exact this

/-! ### 1c. where `layout`/`body` put the modules -/

theorem layout_length (slots : List (Option (List Nat))) : ∀ pos, (layout slots pos).length = slots.length := by
  induction slots with
  | nil => intro pos; rfl
  | cons s r ih =>
    intro pos
    cases s with
    | none => simp [layout, ih]
    | some d => simp [layout, ih]

/-- an empty slot gets the all-zero entry -/
theorem layout_none (slots : List (Option (List Nat))) : ∀ (pos id : Nat),
    slots[id]? = some none → (layout slots pos)[id]? = some (0, 0) := by
  induction slots with
  | nil => intro pos id h; simp at h
  | cons s r ih =>
    intro pos id h
    cases id with
    | zero =>
      simp only [List.getElem?_cons_zero, Option.some.injEq] at h
      subst h; simp [layout]
    | succ j =>
      simp only [List.getElem?_cons_succ] at h
      cases s with
      | none => simp only [layout, List.getElem?_cons_succ]; exact ih pos j h
      | some d => simp only [layout, List.getElem?_cons_succ]; exact ih _ j h

/-- a present module gets an entry `(off, |d|+1)` and `d ++ [0]` sits `off` bytes into the data
area (`pre` = whatever precedes the modules there, i.e. the startup code) -/
theorem layout_some (slots : List (Option (List Nat))) : ∀ (pre : List Nat) (id : Nat) (d : List Nat),
    slots[id]? = some (some d) →
    ∃ off, (layout slots pre.length)[id]? = some (off, d.length + 1) ∧
      ((pre ++ body slots).drop off).take (d.length + 1) = d ++ [0] := by
  induction slots with
  | nil => intro pre id d h; simp at h
  | cons s r ih =>
    intro pre id d h
    cases id with
    | zero =>
      simp only [List.getElem?_cons_zero, Option.some.injEq] at h
      subst h
      refine ⟨pre.length, by simp [layout], ?_⟩
      have : d ++ 0 :: body r = (d ++ [0]) ++ body r := by simp
      simp only [body, List.drop_left', this]
      rw [List.take_left' (by simp)]
    | succ j =>
      simp only [List.getElem?_cons_succ] at h
      cases s with
      | none =>
        obtain ⟨off, h1, h2⟩ := ih pre j d h
        exact ⟨off, by simpa [layout] using h1, by simpa [body] using h2⟩
      | some d0 =>
        obtain ⟨off, h1, h2⟩ := ih (pre ++ d0 ++ [0]) j d h
        refine ⟨off, ?_, ?_⟩
        · have : (pre ++ d0 ++ [0]).length = pre.length + d0.length + 1 := by
            simp only [List.length_append, List.length_cons, List.length_nil]
          rw [this] at h1
          simp only [layout, List.getElem?_cons_succ]; exact h1
        · have : pre ++ body (some d0 :: r) = pre ++ d0 ++ [0] ++ body r := by simp [body]
          rw [this]; exact h2

/-! ### 1d. the image written by `serialize` -/

/-- `serialize` as header ++ table ++ data area -/
theorem serialize_eq (startup : List Nat) (slots : List (Option (List Nat))) :
    serialize startup slots =
      (putLe32 Consts.ramMagic ++ putLe32 slots.length ++ putLe32 startup.length) ++
        ((layout slots startup.length).map enc).flatten ++ (startup ++ body slots) := by
  unfold serialize
  rw [enc_eq]
  simp [List.append_assoc]

theorem serialize_head_length (startup : List Nat) (slots : List (Option (List Nat))) :
    ((putLe32 Consts.ramMagic ++ putLe32 slots.length ++ putLe32 startup.length) ++
        ((layout slots startup.length).map enc).flatten).length = HEADER + slots.length * ENTRY := by
  rw [List.length_append, table_length, layout_length]
  simp [putLe32_length, HEADER, ENTRY]; omega

theorem serialize_length (startup : List Nat) (slots : List (Option (List Nat))) :
    (serialize startup slots).length = HEADER + slots.length * ENTRY + startup.length + (body slots).length := by
  rw [serialize_eq, List.length_append, serialize_head_length, List.length_append]; omega

theorem ramMagic_lt : Consts.ramMagic < 4294967296 := by decide

theorem serialize_magic (startup : List Nat) (slots : List (Option (List Nat))) :
    le32 (serialize startup slots) 0 = some Consts.ramMagic :=
  le32_of_eq [] (putLe32 slots.length ++ putLe32 startup.length ++
      ((layout slots startup.length).map enc).flatten ++ (startup ++ body slots)) _ ramMagic_lt
    (by rw [serialize_eq]; simp [List.append_assoc]) rfl

theorem serialize_count (startup : List Nat) (slots : List (Option (List Nat)))
    (hn : slots.length < 4294967296) : le32 (serialize startup slots) 4 = some slots.length :=
  le32_of_eq (putLe32 Consts.ramMagic) (putLe32 startup.length ++
      ((layout slots startup.length).map enc).flatten ++ (startup ++ body slots)) _ hn
    (by rw [serialize_eq]; simp [List.append_assoc]) rfl

theorem serialize_ssize (startup : List Nat) (slots : List (Option (List Nat)))
    (hs : startup.length < 4294967296) : le32 (serialize startup slots) 8 = some startup.length :=
  le32_of_eq (putLe32 Consts.ramMagic ++ putLe32 slots.length)
      (((layout slots startup.length).map enc).flatten ++ (startup ++ body slots)) _ hs
    (by rw [serialize_eq]; simp [List.append_assoc]) rfl

/-- the data area (startup code, then the modules) starts right behind the table -/
theorem serialize_drop (startup : List Nat) (slots : List (Option (List Nat))) (off : Nat) :
    (serialize startup slots).drop (HEADER + slots.length * ENTRY + off) = (startup ++ body slots).drop off := by
  rw [serialize_eq, ← serialize_head_length startup slots, List.drop_append]
  simp

theorem serialize_startup (startup : List Nat) (slots : List (Option (List Nat))) :
    ((serialize startup slots).drop (HEADER + slots.length * ENTRY)).take startup.length = startup := by
  have := serialize_drop startup slots 0
  simp only [Nat.add_zero, List.drop_zero] at this
  rw [this, List.take_left' rfl]

/-- table entry `id` of a serialized bundle, read back -/
theorem serialize_entry (startup : List Nat) (slots : List (Option (List Nat))) (id : Nat) (e : Nat × Nat)
    (he : (layout slots startup.length)[id]? = some e) (h1 : e.1 < 4294967296) (h2 : e.2 < 4294967296) :
    le32 (serialize startup slots) (HEADER + id * ENTRY) = some e.1 ∧
    le32 (serialize startup slots) (HEADER + id * ENTRY + 4) = some e.2 := by
  have := table_entry (layout slots startup.length)
    (putLe32 Consts.ramMagic ++ putLe32 slots.length ++ putLe32 startup.length) (startup ++ body slots) id e he h1 h2
  rw [← serialize_eq] at this
  have hk : (putLe32 Consts.ramMagic ++ putLe32 slots.length ++ putLe32 startup.length).length + 8 * id
      = HEADER + id * ENTRY := by
    simp [putLe32_length, HEADER, ENTRY]; omega
  rw [hk] at this
  exact this

/-- total size below 2^32 makes every written field fit into 32 bits -/
theorem layout_bound (slots : List (Option (List Nat))) : ∀ (pos : Nat) (e : Nat × Nat),
    e ∈ layout slots pos → e.1 + e.2 ≤ pos + (body slots).length := by
  induction slots with
  | nil => intro pos e h; simp [layout] at h
  | cons s r ih =>
    intro pos e h
    cases s with
    | none =>
      simp only [layout, List.mem_cons] at h
      rcases h with h | h
      · subst h; simp
      · simpa [body] using ih pos e h
    | some d =>
      simp only [layout, List.mem_cons] at h
      rcases h with h | h
      · subst h; simp [body]
      · have := ih _ e h
        simp only [body, List.length_append, List.length_cons]; omega

/-! ### 2. the reader, given what the table says -/

theorem parse_of_header {bs : List Nat} {n s : Nat} (h0 : le32 bs 0 = some Consts.ramMagic)
    (h4 : le32 bs 4 = some n) (h8 : le32 bs 8 = some s) :
    parse bs = .ok { bytes := bs, count := n, startupSize := s, startupOff := HEADER + n * ENTRY } := by
  unfold parse; rw [h0, h4, h8]; simp

/-- whatever `parse` accepts, the bundle it returns is the buffer plus the three header fields -/
theorem parse_ok_iff {bs : List Nat} {b : Bundle} :
    parse bs = .ok b ↔ le32 bs 0 = some Consts.ramMagic ∧ le32 bs 4 = some b.count ∧
      le32 bs 8 = some b.startupSize ∧ b.bytes = bs ∧ b.startupOff = HEADER + b.count * ENTRY := by
  constructor
  · intro h
    unfold parse at h
    split at h
    · rename_i magic count ssize h0 h4 h8
      by_cases hm : magic = Consts.ramMagic
      · rw [if_neg (by simpa using hm)] at h
        cases h
        subst hm
        exact ⟨h0, h4, h8, rfl, rfl⟩
      · rw [if_pos hm] at h; cases h
    · cases h
  · rintro ⟨h0, h4, h8, hb, ho⟩
    rw [parse_of_header h0 h4 h8]
    cases b; simp_all

theorem slice_eq_some {bs : List Nat} {off size : Nat} (h1 : off < bs.length) (h2 : off + size ≤ bs.length) :
    slice bs off size = some ((bs.drop off).take size) := by
  unfold slice
  rw [if_neg (by omega), if_neg (by omega)]

/-- a window of the buffer that is known to hold a list of that length lies inside the buffer -/
theorem window_le {bs w : List Nat} {off : Nat} (h : (bs.drop off).take w.length = w) :
    off + w.length ≤ bs.length ∨ w = [] := by
  by_cases hw : w = []
  · exact Or.inr hw
  · left
    have hp := List.length_pos_iff.mpr hw
    have := congrArg List.length h
    simp only [List.length_take, List.length_drop] at this
    omega

theorem startupCode_of_window {b : Bundle} {s : List Nat} (hne : s ≠ []) (hsz : b.startupSize = s.length)
    (hw : (b.bytes.drop b.startupOff).take s.length = s) : startupCode b = .ok s := by
  have hl : b.startupOff + s.length ≤ b.bytes.length := (window_le hw).resolve_right hne
  have hpos : 0 < s.length := List.length_pos_iff.mpr hne
  unfold startupCode
  rw [hsz, slice_eq_some (by omega) hl, hw]

theorem getModule_past {b : Bundle} {id : Nat} (h : b.count ≤ id) : getModule b id = .error .ramindex := by
  unfold getModule; rw [if_pos h]

theorem getModule_of_empty {b : Bundle} {id : Nat} (hid : id < b.count)
    (h1 : le32 b.bytes (HEADER + id * ENTRY) = some 0) (h2 : le32 b.bytes (HEADER + id * ENTRY + 4) = some 0) :
    getModule b id = .ok none := by
  unfold getModule
  rw [if_neg (by omega)]
  simp only [h1, h2]
  simp

theorem getModule_of_window {b : Bundle} {id off : Nat} {d : List Nat} (hid : id < b.count)
    (h1 : le32 b.bytes (HEADER + id * ENTRY) = some off)
    (h2 : le32 b.bytes (HEADER + id * ENTRY + 4) = some (d.length + 1))
    (hw : (b.bytes.drop (b.startupOff + off)).take (d.length + 1) = d ++ [0]) :
    getModule b id = .ok (some d) := by
  have hl : b.startupOff + off + (d ++ [0]).length ≤ b.bytes.length :=
    (window_le (w := d ++ [0]) (by simpa using hw)).resolve_right (by simp)
  simp only [List.length_append, List.length_cons, List.length_nil] at hl
  have hd : (b.bytes.drop (b.startupOff + off)).take d.length = d := by
    have := congrArg (List.take d.length) hw
    rw [List.take_take, Nat.min_eq_left (by omega), List.take_left' rfl] at this
    exact this
  unfold getModule
  rw [if_neg (by omega)]
  simp only [h1, h2]
  rw [if_neg (by omega), if_neg (by omega)]
  simp only [Nat.add_sub_cancel]
  rw [slice_eq_some (by omega) (by omega), hd]

/-- the iterator is the id-ordered walk over `getModule` that drops the empty slots: if `getModule`
answers `slots[id]` on the table, the walk yields the present modules with their ids, in id order -/
theorem walk_eq {β : Type} (slots : List (Option (List Nat))) (g : Nat → Option β) (h : Nat → List Nat → β) :
    ∀ (k : Nat), (∀ i s, slots[i]? = some s → g (k + i) = s.map (h (k + i))) →
      (List.range' k slots.length).filterMap g
        = (slots.zipIdx k).filterMap fun p => p.1.map (h p.2) := by
  induction slots with
  | nil => intro k _; rfl
  | cons s r ih =>
    intro k hg
    have h0 := hg 0 s (by simp)
    have hr := ih (k + 1) (fun i s' hs => by
      have := hg (i + 1) s' (by simpa using hs)
      rw [show k + 1 + i = k + (i + 1) by omega]; exact this)
    simp only [List.length_cons, List.range'_succ, List.zipIdx_cons]
    rw [List.filterMap_cons, List.filterMap_cons, hr]
    simp only [Nat.add_zero] at h0
    rw [h0]

theorem startupCode_cases (b : Bundle) :
    startupCode b = .error .scroll ∨
    ∃ s, slice b.bytes b.startupOff b.startupSize = some s ∧ startupCode b = .ok s := by
  unfold startupCode
  cases h : slice b.bytes b.startupOff b.startupSize with
  | none => exact Or.inl rfl
  | some s => exact Or.inr ⟨s, rfl, rfl⟩

/-- every way `getModule` can end: three refusals, an empty slot, or a `slice` of the buffer -/
theorem getModule_cases (b : Bundle) (id : Nat) :
    getModule b id = .error .ramindex ∨ getModule b id = .error .scroll ∨
    getModule b id = .error .ramentry ∨ getModule b id = .ok none ∨
    ∃ off len d, slice b.bytes (b.startupOff + off) (len - 1) = some d ∧ getModule b id = .ok (some d) := by
  unfold getModule
  by_cases hid : id ≥ b.count
  · rw [if_pos hid]; exact Or.inl rfl
  · rw [if_neg hid]
    dsimp only
    cases h1 : le32 b.bytes (HEADER + id * ENTRY) with
    | none => exact Or.inr (Or.inl rfl)
    | some off =>
      cases h2 : le32 b.bytes (HEADER + id * ENTRY + 4) with
      | none => exact Or.inr (Or.inl rfl)
      | some len =>
        dsimp only
        by_cases hz : off = 0 ∧ len = 0
        · rw [if_pos hz]; exact Or.inr (Or.inr (Or.inr (Or.inl rfl)))
        · rw [if_neg hz]
          by_cases hl : len = 0
          · rw [if_pos hl]; exact Or.inr (Or.inr (Or.inl rfl))
          · rw [if_neg hl]
            cases h3 : slice b.bytes (b.startupOff + off) (len - 1) with
            | none => exact Or.inr (Or.inl rfl)
            | some d => exact Or.inr (Or.inr (Or.inr (Or.inr ⟨off, len, d, h3, rfl⟩)))

/-- every item of the iterator is `getModule` of its id -/
theorem mem_iterModules {b : Bundle} {lim : Nat} {p : Nat × Res (List Nat)} (h : p ∈ iterModules b lim) :
    p.1 < b.count ∧ p.1 < lim ∧
    ((∃ d, getModule b p.1 = .ok (some d) ∧ p.2 = .ok d) ∨ (∃ e, getModule b p.1 = .error e ∧ p.2 = .error e)) := by
  unfold iterModules at h
  rw [List.mem_filterMap] at h
  obtain ⟨id, hid, hf⟩ := h
  rw [List.mem_range] at hid
  cases hg : getModule b id with
  | error e =>
    rw [hg] at hf; simp only [Option.some.injEq] at hf; subst hf
    exact ⟨by omega, by omega, Or.inr ⟨e, hg, rfl⟩⟩
  | ok o =>
    cases o with
    | none => rw [hg] at hf; cases hf
    | some d =>
      rw [hg] at hf; simp only [Option.some.injEq] at hf; subst hf
      exact ⟨by omega, by omega, Or.inl ⟨d, hg, rfl⟩⟩

/-! ### 3. bounds -/

/-- `slice` never reads outside the buffer -/
theorem slice_in_bounds {bs s : List Nat} {off size : Nat} (h : slice bs off size = some s) :
    off + size ≤ bs.length ∧ s = (bs.drop off).take size := by
  unfold slice at h
  by_cases h1 : off ≥ bs.length
  · rw [if_pos h1] at h; cases h
  · rw [if_neg h1] at h
    by_cases h2 : size > bs.length - off
    · rw [if_pos h2] at h; cases h
    · rw [if_neg h2] at h
      cases h
      exact ⟨by omega, rfl⟩

end SmVerif.Ram
