import SmVerif.Model.Paths
/-
Helper lemmas for C19 (make_relative_path).
-/
namespace SmVerif.Paths

/-! ### leadingMatches -/

theorem leadingMatches_self (s : List (List Nat)) : leadingMatches s s = s.length := by
  induction s with
  | nil => rfl
  | cons a as ih => simp [leadingMatches, ih]; omega

theorem leadingMatches_comm (s o : List (List Nat)) : leadingMatches s o = leadingMatches o s := by
  induction s generalizing o with
  | nil => cases o <;> rfl
  | cons a as ih =>
    cases o with
    | nil => rfl
    | cons b bs =>
      simp only [leadingMatches]
      by_cases h : b = a
      · subst h; simp [ih bs]
      · have h' : ¬ a = b := fun e => h e.symm
        simp [h, h']

theorem leadingMatches_le_left (s o : List (List Nat)) : leadingMatches s o ≤ s.length := by
  induction s generalizing o with
  | nil => cases o <;> simp [leadingMatches]
  | cons a as ih =>
    cases o with
    | nil => simp [leadingMatches]
    | cons b bs =>
      simp only [leadingMatches]
      by_cases h : b = a
      · have := ih bs
        simp [h]; omega
      · simp [h]

theorem leadingMatches_le_right (s o : List (List Nat)) : leadingMatches s o ≤ o.length := by
  rw [leadingMatches_comm]; exact leadingMatches_le_left o s

theorem take_leadingMatches (s o : List (List Nat)) :
    s.take (leadingMatches s o) = o.take (leadingMatches s o) := by
  induction s generalizing o with
  | nil => cases o <;> simp [leadingMatches]
  | cons a as ih =>
    cases o with
    | nil => simp [leadingMatches]
    | cons b bs =>
      simp only [leadingMatches]
      by_cases h : b = a
      · subst h
        simp only [↓reduceIte]
        rw [Nat.add_comm]
        simp [List.take_succ_cons, ih bs]
      · simp [h]

theorem commonPrefixTwo_eq (t b : List (List Nat)) : commonPrefixTwo t b = leadingMatches t b := by
  unfold commonPrefixTwo
  by_cases h : t.length ≤ b.length
  · simp only [h, ↓reduceIte, leadingMatches_self]
    have := leadingMatches_le_left t b
    by_cases h0 : t.length = 0
    · simp [h0]
    · simp only [h0, ↓reduceIte]
      by_cases h1 : leadingMatches t b < t.length
      · simp [h1]
      · simp only [h1, ↓reduceIte]; omega
  · simp only [h, ↓reduceIte, leadingMatches_self]
    have := leadingMatches_le_left b t
    rw [leadingMatches_comm t b]
    by_cases h0 : b.length = 0
    · simp [h0]
    · simp only [h0, ↓reduceIte]
      by_cases h1 : leadingMatches b t < b.length
      · simp [h1]
      · simp only [h1, ↓reduceIte]; omega

/-! ### splitSep / comps -/

def sepFree (a : List Nat) : Prop := ∀ x ∈ a, isSep x = false

theorem splitSep_ne_nil (p : List Nat) : splitSep p ≠ [] := by
  cases p with
  | nil => simp [splitSep]
  | cons c cs =>
    simp only [splitSep]
    split
    · simp
    · split <;> simp

theorem splitSep_sepFree (a : List Nat) (ha : sepFree a) : splitSep a = [a] := by
  induction a with
  | nil => rfl
  | cons c cs ih =>
    have hc : isSep c = false := ha c (by simp)
    have hcs : sepFree cs := fun x hx => ha x (by simp [hx])
    simp [splitSep, hc, ih hcs]

theorem splitSep_append_sep (a : List Nat) (s : Nat) (b : List Nat)
    (ha : sepFree a) (hs : isSep s = true) :
    splitSep (a ++ s :: b) = a :: splitSep b := by
  induction a with
  | nil => simp [splitSep, hs]
  | cons c cs ih =>
    have hc : isSep c = false := ha c (by simp)
    have hcs : sepFree cs := fun x hx => ha x (by simp [hx])
    simp [splitSep, hc, ih hcs]

theorem splitSep_mem_sepFree (p : List Nat) : ∀ c ∈ splitSep p, sepFree c := by
  induction p with
  | nil => intro c hc; simp [splitSep] at hc; subst hc; intro x hx; simp at hx
  | cons a as ih =>
    intro c hc
    simp only [splitSep] at hc
    by_cases h : isSep a = true
    · simp only [h, ↓reduceIte, List.mem_cons] at hc
      rcases hc with rfl | hc
      · intro x hx; simp at hx
      · exact ih c hc
    · simp only [h] at hc
      have ha : isSep a = false := by simpa using h
      cases hsp : splitSep as with
      | nil => exact absurd hsp (splitSep_ne_nil as)
      | cons q qs =>
        rw [hsp] at hc ih
        simp only [Bool.false_eq_true, ↓reduceIte, List.mem_cons] at hc
        rcases hc with rfl | hc
        · intro x hx
          simp only [List.mem_cons] at hx
          rcases hx with rfl | hx
          · exact ha
          · exact ih q (by simp) x hx
        · exact ih c (by simp [hc])

theorem comps_mem (p : List Nat) : ∀ c ∈ comps p, c ≠ [] ∧ sepFree c := by
  intro c hc
  simp only [comps, List.mem_filter, decide_eq_true_eq] at hc
  exact ⟨hc.2, splitSep_mem_sepFree p c hc.1⟩

theorem comps_nil : comps [] = [] := by simp [comps, splitSep]

theorem comps_sepFree (a : List Nat) (ha : sepFree a) (hne : a ≠ []) : comps a = [a] := by
  simp [comps, splitSep_sepFree a ha, hne]

theorem comps_append_sep (a : List Nat) (s : Nat) (b : List Nat)
    (ha : sepFree a) (hne : a ≠ []) (hs : isSep s = true) :
    comps (a ++ s :: b) = a :: comps b := by
  simp [comps, splitSep_append_sep a s b ha hs, hne]

/-- a list of well-formed components -/
def goodComps (cs : List (List Nat)) : Prop := ∀ c ∈ cs, c ≠ [] ∧ sepFree c

theorem comps_joinSlash (cs : List (List Nat)) (h : goodComps cs) : comps (joinSlash cs) = cs := by
  induction cs with
  | nil => simp [joinSlash, comps_nil]
  | cons c cs ih =>
    have hc := h c (by simp)
    have hcs : goodComps cs := fun x hx => h x (by simp [hx])
    cases cs with
    | nil => simp [joinSlash, comps_sepFree c hc.2 hc.1]
    | cons d ds =>
      simp only [joinSlash]
      rw [comps_append_sep c 47 _ hc.2 hc.1 (by decide), ih hcs]

theorem joinSlash_eq_nil (cs : List (List Nat)) (h : goodComps cs) :
    joinSlash cs = [] ↔ cs = [] := by
  constructor
  · intro hj
    have := comps_joinSlash cs h
    rw [hj, comps_nil] at this
    exact this.symm
  · intro hj; subst hj; rfl

theorem sepFree_dotdot : sepFree [46, 46] := by
  intro x hx
  simp only [List.mem_cons, List.not_mem_nil, or_false, or_self] at hx
  subst hx; decide

theorem comps_dotdots (n : Nat) (x : List Nat) :
    comps ((List.replicate n [46, 46, 47]).flatten ++ x) = List.replicate n DOTDOT ++ comps x := by
  induction n with
  | zero => simp
  | succ n ih =>
    simp only [List.replicate_succ, List.flatten_cons, List.cons_append, List.append_assoc]
    have := comps_append_sep [46, 46] 47 ((List.replicate n [46, 46, 47]).flatten ++ x)
      sepFree_dotdot (by simp) (by decide)
    simp only [List.cons_append, List.nil_append] at this
    simp only [List.nil_append]
    rw [this, ih]
    rfl

theorem dotdots_eq_nil (n : Nat) : (List.replicate n [46, 46, 47]).flatten = [] ↔ n = 0 := by
  cases n with
  | zero => simp
  | succ n => simp [List.replicate_succ]

/-! ### resolve -/

theorem resolve_dotdots (n : Nat) (d r : List (List Nat)) :
    resolve d (List.replicate n DOTDOT ++ r) = resolve (d.take (d.length - n)) r := by
  induction n generalizing d with
  | zero => simp
  | succ n ih =>
    simp only [List.replicate_succ, List.cons_append, resolve, ↓reduceIte]
    rw [ih d.dropLast]
    congr 1
    rw [List.dropLast_eq_take, List.take_take, List.length_take]
    congr 1
    omega

theorem resolve_ordinary (d r : List (List Nat)) (h : ∀ c ∈ r, c ≠ DOT ∧ c ≠ DOTDOT) :
    resolve d r = d ++ r := by
  induction r generalizing d with
  | nil => simp [resolve]
  | cons c cs ih =>
    have hc := h c (by simp)
    have hcs : ∀ x ∈ cs, x ≠ DOT ∧ x ≠ DOTDOT := fun x hx => h x (by simp [hx])
    simp only [resolve, hc.1, hc.2, ↓reduceIte]
    rw [ih (d ++ [c]) hcs]
    simp

/-! ### assembly -/

theorem makeRel_unfold (base target : List Nat) :
    makeRel base target =
      (let t := comps target
       let b := (comps base).dropLast
       let k := leadingMatches t b
       let rel := (List.replicate (b.length - k) [46, 46, 47]).flatten ++ joinSlash (t.drop k)
       if rel = [] then [46] else rel) := by
  simp only [makeRel, commonPrefixTwo_eq]

theorem goodComps_drop (p : List Nat) (k : Nat) : goodComps ((comps p).drop k) :=
  fun c hc => comps_mem p c (List.mem_of_mem_drop hc)

/-- the `rel = []` condition says target's components are the base directory -/
theorem rel_nil_iff (t b : List (List Nat)) (ht : goodComps (t.drop (leadingMatches t b))) :
    ((List.replicate (b.length - leadingMatches t b) [46, 46, 47]).flatten
        ++ joinSlash (t.drop (leadingMatches t b)) = []) ↔ t = b := by
  have hl := leadingMatches_le_left t b
  have hr := leadingMatches_le_right t b
  have htk := take_leadingMatches t b
  rw [List.append_eq_nil_iff, dotdots_eq_nil, joinSlash_eq_nil _ ht, List.drop_eq_nil_iff]
  constructor
  · rintro ⟨h1, h2⟩
    have e1 : leadingMatches t b = t.length := by omega
    have e2 : leadingMatches t b = b.length := by omega
    rw [e1, List.take_length] at htk
    rw [htk, ← e1, e2, List.take_length]
  · intro h; subst h
    rw [leadingMatches_self]; omega

theorem resolves_core (base target : List Nat) (ht : ordinary target) :
    resolve (comps base).dropLast (comps (makeRel base target)) = comps target := by
  rw [makeRel_unfold]
  simp only
  generalize hb : (comps base).dropLast = b
  have hgood := goodComps_drop target (leadingMatches (comps target) b)
  have hl := leadingMatches_le_left (comps target) b
  have hr := leadingMatches_le_right (comps target) b
  have htk := take_leadingMatches (comps target) b
  split
  · next h =>
    have := (rel_nil_iff (comps target) b hgood).mp h
    rw [this]
    have : comps [46] = [DOT] := by simp [comps, splitSep, isSep, DOT]
    rw [this]
    simp [resolve, DOT, DOTDOT]
  · rw [comps_dotdots, comps_joinSlash _ hgood, resolve_dotdots,
      resolve_ordinary _ _ (fun c hc => ht c (List.mem_of_mem_drop hc))]
    have : b.length - (b.length - leadingMatches (comps target) b)
        = leadingMatches (comps target) b := by omega
    rw [this, ← htk, List.take_append_drop]

theorem joinSlash_singleton_byte (cs : List (List Nat)) (h : goodComps cs) (x : Nat)
    (hj : joinSlash cs = [x]) : cs = [[x]] := by
  have := comps_joinSlash cs h
  rw [hj] at this
  have hx : sepFree [x] := by
    cases cs with
    | nil => simp [joinSlash] at hj
    | cons c cs =>
      cases cs with
      | nil =>
        simp only [joinSlash] at hj
        subst hj
        exact (h _ (by simp)).2
      | cons d ds =>
        simp only [joinSlash] at hj
        have hc := (h c (by simp)).1
        have hlen := congrArg List.length hj
        simp only [List.length_append, List.length_cons, List.length_nil] at hlen
        have : c.length > 0 := List.length_pos_iff.mpr hc
        omega
  rw [comps_sepFree [x] hx (by simp)] at this
  exact this.symm

theorem dot_iff_core (base target : List Nat) (ht : ordinary target) :
    makeRel base target = [46] ↔ comps target = (comps base).dropLast := by
  rw [makeRel_unfold]
  simp only
  generalize hb : (comps base).dropLast = b
  have hgood := goodComps_drop target (leadingMatches (comps target) b)
  have hiff := rel_nil_iff (comps target) b hgood
  constructor
  · intro h
    split at h
    · next hnil => exact hiff.mp hnil
    · next hnil =>
      exfalso
      -- rel = [46]
      have hn : b.length - leadingMatches (comps target) b = 0 := by
        cases hk : b.length - leadingMatches (comps target) b with
        | zero => rfl
        | succ n =>
          rw [hk] at h
          simp [List.replicate_succ] at h
      rw [hn] at h
      simp only [List.replicate_zero, List.flatten_nil, List.nil_append] at h
      have := joinSlash_singleton_byte _ hgood 46 h
      have hmem' : [46] ∈ List.drop (leadingMatches (comps target) b) (comps target) := by
        rw [this]; simp
      have hmem : [46] ∈ comps target := List.mem_of_mem_drop hmem'
      exact (ht [46] hmem).1 rfl
  · intro h
    rw [if_pos (hiff.mpr h)]

end SmVerif.Paths
