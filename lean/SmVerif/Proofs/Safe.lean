import SmVerif.Proofs.Decode
import SmVerif.Proofs.Lookup
import SmVerif.Proofs.RoundTripTop
/-
Helper lemmas for C05 (crash freedom): the explicit `.error .panic` / `.error .diverge` outcomes of the
decoding / serialisation models are unreachable.
-/
namespace SmVerif.Safe
open SmVerif SmVerif.Vlq SmVerif.Mappings SmVerif.V3 SmVerif.Lookup

/-- `Res.safe` in a form that does not need a `match` on the value -/
def NoCrash {α} (r : Res α) : Prop := r ≠ .error .panic ∧ r ≠ .error .diverge

theorem safe_iff {α} (r : Res α) : r.safe ↔ NoCrash r := by
  unfold NoCrash
  cases r with
  | ok x => simp [Res.safe]
  | error e => cases e <;> simp [Res.safe]

theorem noCrash_ok {α} (x : α) : NoCrash (.ok x : Res α) := by
  constructor <;> intro h <;> cases h

theorem noCrash_error {α} (e : Err) (h1 : e ≠ .panic) (h2 : e ≠ .diverge) : NoCrash (.error e : Res α) := by
  constructor
  · intro h; cases h; exact h1 rfl
  · intro h; cases h; exact h2 rfl

/-! ### VLQ: the accumulator never leaves `i64` -/

/-- the accumulator invariant of `parse_vlq_segment_into`: with `k ≤ 12` digits consumed the
accumulator holds a `5k`-bit natural number (at `k = 13` no arithmetic happens any more) -/
def AccInv (cur : Int) (k : Nat) : Prop := k ≤ 12 → 0 ≤ cur ∧ cur < ((2 ^ (5 * k) : Nat) : Int)

theorem accInv_zero : AccInv 0 0 := by
  intro _; simp

/-- one digit: the checked `+=` is in range, and the invariant is kept -/
theorem acc_step (cur : Int) (k d : Nat) (hk : k < 13) (hi : AccInv cur k) :
    inI64 (cur + wrap64 ((d % 32 : Nat) * (2 : Int) ^ (5 * k))) = true ∧
    AccInv (cur + wrap64 ((d % 32 : Nat) * (2 : Int) ^ (5 * k))) (k + 1) := by
  obtain ⟨h0, h1⟩ := hi (by omega)
  have hP := two_pow_pos' (5 * k)
  have hPle := pow_le_60 k (by omega)
  have hd32 : d % 32 < 32 := Nat.mod_lt _ (by omega)
  have hx : ((d % 32 : Nat) : Int) * (2 : Int) ^ (5 * k) = (((d % 32) * 2 ^ (5 * k) : Nat) : Int) := by simp
  have hmul : (d % 32) * 2 ^ (5 * k) ≤ 31 * 2 ^ (5 * k) := Nat.mul_le_mul_right _ (by omega)
  rw [hx]
  by_cases hk12 : k = 12
  · subst hk12
    rw [two_pow_60] at h1 hmul ⊢
    constructor
    · unfold wrap64
      apply inI64_of <;> omega
    · intro h; omega
  · have hk11 : k ≤ 11 := by omega
    have hPle2 : 32 * 2 ^ (5 * k) ≤ 1152921504606846976 := by
      have := pow_le_60 (k + 1) (by omega)
      rw [pow5_succ] at this
      exact this
    rw [wrap64_id (by omega) (by omega)]
    constructor
    · apply inI64_of <;> omega
    · intro _
      rw [pow5_succ]
      omega

theorem decLoop_nil_noCrash (cur : Int) (k : Nat) (acc : List Int) : NoCrash (decLoop [] cur k acc) := by
  rw [decLoop]
  split
  · exact noCrash_error _ (by decide) (by decide)
  · split
    · exact noCrash_error _ (by decide) (by decide)
    · exact noCrash_ok _

theorem parseLoop_noCrash : ∀ (s : List Nat) (cur : Int) (k : Nat) (acc : List Int),
    AccInv cur k → NoCrash (parseLoop s cur k acc) := by
  intro s
  induction s with
  | nil =>
    intro cur k acc _
    rw [parseLoop]
    exact decLoop_nil_noCrash cur k acc
  | cons c cs ih =>
    intro cur k acc hi
    rw [parseLoop]
    cases hb : b64Rev c with
    | none => exact noCrash_error _ (by decide) (by decide)
    | some d =>
      simp only
      by_cases hk : 13 ≤ k
      · simp only [hk, ↓reduceIte]
        exact noCrash_error _ (by decide) (by decide)
      · simp only [hk, ↓reduceIte]
        obtain ⟨hin, hi'⟩ := acc_step cur k d (by omega) hi
        simp only [hin, Bool.not_true, Bool.false_eq_true, ↓reduceIte]
        by_cases hd : d / 32 = 0
        · simp only [hd, ↓reduceIte]
          exact ih _ _ _ accInv_zero
        · simp only [hd, ↓reduceIte]
          exact ih _ _ _ hi'

theorem parseVlq_noCrash (s : List Nat) : NoCrash (parseVlq s) :=
  parseLoop_noCrash s 0 0 [] accInv_zero

/-- the same for the digit-level loop (used by C11/C06 statements) -/
theorem decLoop_noCrash : ∀ (ds : List Nat) (cur : Int) (k : Nat) (acc : List Int),
    AccInv cur k → NoCrash (decLoop ds cur k acc) := by
  intro ds
  induction ds with
  | nil => intro cur k acc _; exact decLoop_nil_noCrash cur k acc
  | cons d ds ih =>
    intro cur k acc hi
    by_cases hk : 13 ≤ k
    · rw [decLoop]
      simp only [hk, ↓reduceIte]
      exact noCrash_error _ (by decide) (by decide)
    · rw [decLoop_cons _ _ _ _ _ (by omega)]
      obtain ⟨hin, hi'⟩ := acc_step cur k d (by omega) hi
      simp only [hin, Bool.not_true, Bool.false_eq_true, ↓reduceIte]
      by_cases hd : d / 32 = 0
      · simp only [hd, ↓reduceIte]
        exact ih _ _ _ accInv_zero
      · simp only [hd, ↓reduceIte]
        exact ih _ _ _ hi'

/-- a successful parse returns at least one value (`nums[0]` is in bounds) -/
theorem parseLoop_ok_ne_nil : ∀ (s : List Nat) (cur : Int) (k : Nat) (acc vs : List Int),
    parseLoop s cur k acc = .ok vs → vs ≠ [] := by
  intro s
  induction s with
  | nil =>
    intro cur k acc vs h
    rw [parseLoop, decLoop] at h
    split at h
    · cases h
    · split at h
      · cases h
      · rename_i hne
        cases h
        simpa using hne
  | cons c cs ih =>
    intro cur k acc vs h
    rw [parseLoop] at h
    cases hb : b64Rev c with
    | none => rw [hb] at h; cases h
    | some d =>
      rw [hb] at h
      simp only at h
      by_cases hk : 13 ≤ k
      · simp only [hk, ↓reduceIte] at h; cases h
      · simp only [hk, ↓reduceIte] at h
        split at h
        · cases h
        · split at h
          · exact ih _ _ _ _ h
          · exact ih _ _ _ _ h

/-! ### the token loop of `decode_regular` -/

theorem wrapU32_lt (x : Int) : wrapU32 x < U32 := by
  unfold wrapU32 U32; omega

/-- with at least one number (`nums[0]` exists) a segment is a token or an ordinary error -/
theorem decodeSeg_noCrash (nsrc nn dl : Nat) (bits : List Bool) (i dc : Nat) (st : DState) (nums : List Int)
    (hne : nums ≠ []) : NoCrash (decodeSeg nsrc nn dl bits i dc st nums) := by
  rcases nums with _ | ⟨n0, _ | ⟨n1, _ | ⟨n2, _ | ⟨n3, _ | ⟨n4, _ | ⟨n5, r⟩⟩⟩⟩⟩⟩
  · exact absurd rfl hne
  · rw [Decode.decodeSeg_one]; exact noCrash_ok _
  · rw [Decode.decodeSeg_two]; exact noCrash_error _ (by decide) (by decide)
  · rw [Decode.decodeSeg_three]; exact noCrash_error _ (by decide) (by decide)
  · by_cases hs : (st.src : Int) + n1 < 0 ∨ (st.src : Int) + n1 ≥ (nsrc : Int)
    · rw [Decode.decodeSeg_four_bad _ _ _ _ _ _ _ _ _ _ _ hs]; exact noCrash_error _ (by decide) (by decide)
    · rw [Decode.decodeSeg_four _ _ _ _ _ _ _ _ _ _ _ hs]; exact noCrash_ok _
  · by_cases hs : (st.src : Int) + n1 < 0 ∨ (st.src : Int) + n1 ≥ (nsrc : Int)
    · rw [Decode.decodeSeg_five_bad_src _ _ _ _ _ _ _ _ _ _ _ _ hs]; exact noCrash_error _ (by decide) (by decide)
    · by_cases hn : (st.name : Int) + n4 < 0 ∨ (st.name : Int) + n4 ≥ (nn : Int)
      · rw [Decode.decodeSeg_five_bad_name _ _ _ _ _ _ _ _ _ _ _ _ hs hn]
        exact noCrash_error _ (by decide) (by decide)
      · rw [Decode.decodeSeg_five _ _ _ _ _ _ _ _ _ _ _ _ hs hn]; exact noCrash_ok _
  · rw [Decode.decodeSeg_six]; exact noCrash_error _ (by decide) (by decide)

theorem noCrash_of_eq_error {α β} {r : Res α} {e : Err} (h : r = .error e) (hs : NoCrash r) :
    NoCrash (.error e : Res β) := by
  subst h
  obtain ⟨h1, h2⟩ := hs
  constructor
  · intro h; cases h; exact h1 rfl
  · intro h; cases h; exact h2 rfl

theorem decodeSegs_noCrash (nsrc nn dl : Nat) (bits : List Bool) :
    ∀ (segs : List (List Nat)) (i dc : Nat) (st : DState) (acc : List Tok),
    NoCrash (decodeSegs nsrc nn dl bits segs i dc st acc) := by
  intro segs
  induction segs with
  | nil => intro i dc st acc; rw [decodeSegs]; exact noCrash_ok _
  | cons seg segs ih =>
    intro i dc st acc
    rw [decodeSegs]
    by_cases hs : seg = []
    · simp only [hs, ↓reduceIte]; exact ih _ _ _ _
    · simp only [hs, ↓reduceIte]
      cases hp : parseVlq seg with
      | error e => exact noCrash_of_eq_error hp (parseVlq_noCrash seg)
      | ok nums =>
        simp only
        have hne : nums ≠ [] := parseLoop_ok_ne_nil seg 0 0 [] nums hp
        cases hd : decodeSeg nsrc nn dl bits i dc st nums with
        | error e => exact noCrash_of_eq_error hd (decodeSeg_noCrash nsrc nn dl bits i dc st nums hne)
        | ok x =>
          obtain ⟨t, dc', st'⟩ := x
          exact ih _ _ _ _

theorem decodeLines_noCrash (nsrc nn : Nat) :
    ∀ (lines rl : List (List Nat)) (dl : Nat) (st : DState) (acc : List Tok),
    NoCrash (decodeLines nsrc nn lines rl dl st acc) := by
  intro lines
  induction lines with
  | nil => intro rl dl st acc; rw [decodeLines]; exact noCrash_ok _
  | cons line lines ih =>
    intro rl dl st acc
    rw [decodeLines]
    by_cases hs : line = []
    · simp only [hs, ↓reduceIte]; exact ih _ _ _ _
    · simp only [hs, ↓reduceIte]
      cases hr : decodeRmi (rl.headD []) with
      | none => exact noCrash_error _ (by decide) (by decide)
      | some bits =>
        simp only
        cases hd : decodeSegs nsrc nn dl bits (splitOn COMMA line) 0 0 st acc with
        | error e => exact noCrash_of_eq_error hd (decodeSegs_noCrash nsrc nn dl bits _ _ _ _ _)
        | ok x =>
          obtain ⟨st', acc'⟩ := x
          exact ih _ _ _ _

/-! ### what a decoded token looks like -/

/-- generated line `< L`, the three wrapped coordinates are `u32` values -/
def Coords (L : Nat) (t : Tok) : Prop := t.dl < L ∧ t.dc < U32 ∧ t.sl < U32 ∧ t.sc < U32

theorem decodeSeg_ok_coords {nsrc nn dl : Nat} {bits : List Bool} {i dc : Nat} {st : DState}
    {nums : List Int} {t : Tok} {dc' : Nat} {st' : DState}
    (h : decodeSeg nsrc nn dl bits i dc st nums = .ok (t, dc', st')) : Coords (dl + 1) t := by
  have hz : (0 : Nat) < U32 := by decide
  rcases nums with _ | ⟨n0, _ | ⟨n1, _ | ⟨n2, _ | ⟨n3, _ | ⟨n4, _ | ⟨n5, r⟩⟩⟩⟩⟩⟩
  · cases h
  · rw [Decode.decodeSeg_one] at h
    cases h
    exact ⟨Nat.lt_succ_self _, wrapU32_lt _, hz, hz⟩
  · cases h
  · cases h
  · by_cases hs : (st.src : Int) + n1 < 0 ∨ (st.src : Int) + n1 ≥ (nsrc : Int)
    · rw [Decode.decodeSeg_four_bad _ _ _ _ _ _ _ _ _ _ _ hs] at h; cases h
    · rw [Decode.decodeSeg_four _ _ _ _ _ _ _ _ _ _ _ hs] at h
      cases h
      exact ⟨Nat.lt_succ_self _, wrapU32_lt _, wrapU32_lt _, wrapU32_lt _⟩
  · by_cases hs : (st.src : Int) + n1 < 0 ∨ (st.src : Int) + n1 ≥ (nsrc : Int)
    · rw [Decode.decodeSeg_five_bad_src _ _ _ _ _ _ _ _ _ _ _ _ hs] at h; cases h
    · by_cases hn : (st.name : Int) + n4 < 0 ∨ (st.name : Int) + n4 ≥ (nn : Int)
      · rw [Decode.decodeSeg_five_bad_name _ _ _ _ _ _ _ _ _ _ _ _ hs hn] at h; cases h
      · rw [Decode.decodeSeg_five _ _ _ _ _ _ _ _ _ _ _ _ hs hn] at h
        cases h
        exact ⟨Nat.lt_succ_self _, wrapU32_lt _, wrapU32_lt _, wrapU32_lt _⟩
  · cases h

theorem coords_mono {L L' : Nat} {t : Tok} (h : Coords L t) (hl : L ≤ L') : Coords L' t :=
  ⟨Nat.lt_of_lt_of_le h.1 hl, h.2⟩

theorem decodeSegs_coords {nsrc nn dl : Nat} {bits : List Bool} (L : Nat) (hL : dl < L) :
    ∀ (segs : List (List Nat)) (i dc : Nat) (st : DState) (acc : List Tok) (r : DState × List Tok),
    (∀ t ∈ acc, Coords L t) → decodeSegs nsrc nn dl bits segs i dc st acc = .ok r →
    ∀ t ∈ r.2, Coords L t := by
  intro segs
  induction segs with
  | nil =>
    intro i dc st acc r ha h
    rw [decodeSegs] at h
    cases h
    exact ha
  | cons seg segs ih =>
    intro i dc st acc r ha h
    rcases Decode.decodeSegs_cons_inv h with ⟨_, h'⟩ | ⟨_, nums, t, dc', st', _, hd, h'⟩
    · exact ih (i + 1) dc st acc r ha h'
    · refine ih (i + 1) dc' st' (t :: acc) r ?_ h'
      intro t' ht'
      rcases List.mem_cons.mp ht' with rfl | ht'
      · exact coords_mono (decodeSeg_ok_coords hd) hL
      · exact ha t' ht'

theorem decodeLines_coords {nsrc nn : Nat} (L : Nat) :
    ∀ (lines rl : List (List Nat)) (dl : Nat) (st : DState) (acc ts : List Tok),
    dl + lines.length ≤ L →
    (∀ t ∈ acc, Coords L t) → decodeLines nsrc nn lines rl dl st acc = .ok ts →
    ∀ t ∈ ts, Coords L t := by
  intro lines
  induction lines with
  | nil =>
    intro rl dl st acc ts _ ha h
    rw [decodeLines] at h
    cases h
    intro t ht
    exact ha t (List.mem_reverse.mp ht)
  | cons line lines ih =>
    intro rl dl st acc ts hl ha h
    simp only [List.length_cons] at hl
    rcases Decode.decodeLines_cons_inv h with ⟨_, h'⟩ | ⟨_, bits, st', acc', _, hd, h'⟩
    · exact ih rl.tail (dl + 1) st acc ts (by omega) ha h'
    · exact ih rl.tail (dl + 1) st' acc' ts (by omega)
        (decodeSegs_coords L (by omega) _ _ _ _ _ _ ha hd) h'

theorem splitOn_length_le (sep : Nat) : ∀ l : List Nat, (splitOn sep l).length ≤ l.length + 1 := by
  intro l
  induction l with
  | nil => simp [splitOn]
  | cons c cs ih =>
    rw [splitOn]
    by_cases h : c = sep
    · simp only [h, ↓reduceIte, List.length_cons]; omega
    · simp only [h, ↓reduceIte]
      split
      · simp
      · rename_i p ps hp
        rw [hp] at ih
        simp only [List.length_cons] at ih ⊢
        omega

/-- every token of a decoded map: line below the number of `;`-pieces, `u32` coordinates -/
theorem decodeMappings_coords {m rmi : List Nat} {nsrc nn : Nat} {ts : List Tok}
    (h : decodeMappings m rmi nsrc nn = .ok ts) : ∀ t ∈ ts, Coords (m.length + 1) t := by
  unfold decodeMappings at h
  refine decodeLines_coords (m.length + 1) _ _ 0 _ [] ts ?_ (by intro t ht; cases ht) h
  have := splitOn_length_le SEMI m
  omega

/-- a resolving token with `u32` coordinates is well formed -/
theorem wfTok_of {nsrc nn : Nat} {t : Tok} (hn : nsrc ≤ U32) (hnn : nn ≤ U32)
    (hc : Coords U32 t) (hr : Decode.Resolves nsrc nn t) : wfTok nsrc t = true := by
  obtain ⟨h1, h2, h3, h4⟩ := hc
  obtain ⟨hs, hm⟩ := hr
  have hN : NONE < U32 := by decide
  have hsrc : t.src < U32 := by
    rcases hs with hs | hs
    · rw [hs]; exact hN
    · omega
  have hname : t.name < U32 := by
    rcases hm with hm | hm
    · rw [hm]; exact hN
    · omega
  simp only [wfTok, Bool.and_eq_true, Bool.or_eq_true, decide_eq_true_eq]
  exact ⟨⟨⟨⟨⟨⟨h1, h2⟩, h3⟩, h4⟩, hsrc⟩, hname⟩, hs⟩

theorem wfToks_perm {nsrc : Nat} {a b : List Tok} (hp : a.Perm b) (h : wfToks nsrc b = true) :
    wfToks nsrc a = true := by
  unfold wfToks at *
  rw [List.all_eq_true] at *
  intro t ht
  exact h t (hp.mem_iff.mp ht)

/-! ### serialisation: the line loops terminate on a position-ordered list -/

open SmVerif.RoundTrip in
theorem encodeTok_line (nn : Nat) (t : Tok) (st : EState) : (encodeTok nn t st).2.line = st.line := by
  unfold encodeTok
  simp only
  split
  · split <;> rfl
  · rfl

open SmVerif.RoundTrip in
/-- no well-formedness needed: `serialize_mappings` only needs the generated lines not to go back -/
theorem serializeLoop_ok (nn : Nat) : ∀ (ts : List Tok) (prev : Option Tok) (st : EState) (out : List Nat),
    Mono st.line ts → ∃ out', serializeLoop nn ts prev st out = .ok out' := by
  intro ts
  induction ts with
  | nil => intro prev st out _; exact ⟨out, by simp [serializeLoop]⟩
  | cons t ts ih =>
    intro prev st out hm
    obtain ⟨hle, hm'⟩ := hm
    rw [serializeLoop.eq_def]
    simp only
    by_cases hl : t.dl ≠ st.line
    · have hnlt : ¬ t.dl < st.line := by omega
      simp only [hl, hnlt, ↓reduceIte, ne_eq, not_false_eq_true]
      apply ih
      rw [encodeTok_line]
      exact hm'
    · have hl' : t.dl = st.line := by omega
      simp only [hl, ↓reduceIte]
      cases prev with
      | none =>
        simp only
        apply ih
        rw [encodeTok_line, ← hl']
        exact hm'
      | some p =>
        simp only
        by_cases hp : p = t
        · simp only [hp, ↓reduceIte]
          exact ih _ _ _ (by rw [← hl']; exact hm')
        · simp only [hp, ↓reduceIte]
          apply ih
          rw [encodeTok_line, ← hl']
          exact hm'

open SmVerif.RoundTrip in
theorem serializeMappings_ok (ts : List Tok) (nn : Nat) (hs : SortedByPos ts) :
    ∃ out, serializeMappings ts nn = .ok out := by
  unfold serializeMappings
  exact serializeLoop_ok nn ts none {} [] (mono_of_sorted ts 0 (fun _ _ => Nat.zero_le _) hs)

open SmVerif.RoundTrip in
theorem serializeRangeMappings_ok (ts : List Tok) (hs : SortedByPos ts) :
    ∃ out, serializeRangeMappings ts = .ok out := by
  unfold serializeRangeMappings
  exact ⟨_, serializeRmiLoop_eq ts none 0 [] false 0 true []
    (mono_of_sorted ts 0 (fun _ _ => Nat.zero_le _) hs)⟩

/-- the differences the encoder writes (`u32 - u32`) are always encodable: the `-num` and `<< 1` of
`encode_vlq` stay far inside `i64` -/
theorem encodeVlq_u32_ok (a b : Nat) (ha : a < U32) (hb : b < U32) :
    ∃ s, encodeVlq ((a : Int) - (b : Int)) = .ok s := by
  unfold U32 at ha hb
  exact ⟨_, encodeVlq_of_zig _ (by omega) (by omega)⟩

/-- `rmi_bits.set(seg, true)` after the resize: the index is in bounds -/
theorem setBit_length (bits : List Bool) (i : Nat) : i < (setBit bits i).length := by
  unfold setBit
  rw [List.length_set, List.length_append, List.length_replicate]
  omega

theorem setBit_get (bits : List Bool) (i : Nat) : (setBit bits i)[i]? = some true := by
  have h := setBit_length bits i
  unfold setBit at *
  rw [List.getElem?_set_self (by simpa using h)]

end SmVerif.Safe
