import SmVerif.Proofs.NameResIter
/-
C17 helper lemmas, part 3: the `take(128).peekable()` loop over the iterator, and the index of the
looked-up token.
-/
namespace SmVerif.NameRes
open SmVerif SmVerif.Lookup

/-- the loop of `get_original_function_name` as a recursion over the items the stream still holds -/
def loopSpec {ν} (names : List ν) (name : Str) : List Item → Option ν
  | [] => none
  | [_] => none
  | x :: y :: rest =>
    if x.2 = some name ∧ y.2 = some FUNCTION then tokName names x.1.2
    else loopSpec names name (y :: rest)

theorem loopSpec_eq_findDecl {ν} (names : List ν) (name : Str) : ∀ (L : List Item),
    loopSpec names name L = (findDecl name L).bind fun x => tokName names x.1.2 := by
  intro L
  induction L with
  | nil => simp [loopSpec, findDecl]
  | cons x L ih =>
    cases L with
    | nil => simp [loopSpec, findDecl]
    | cons y rest =>
      simp only [loopSpec]
      by_cases h : x.2 = some name ∧ y.2 = some FUNCTION
      · rw [if_pos h]
        simp [findDecl, h]
      · rw [if_neg h, ih]
        simp only [findDecl, List.tail_cons, List.zip_cons_cons, List.find?]
        simp [h]

theorem loopSpec_skip {ν} (names : List ν) (name : Str) (x : Item) (L : List Item) (h : x.2 ≠ some name) :
    loopSpec names name (x :: L) = loopSpec names name L := by
  cases L with
  | nil => simp [loopSpec]
  | cons y rest =>
    simp only [loopSpec]
    rw [if_neg (fun hh => h hh.1)]

theorem loopSpec_none {ν} (names : List ν) (name : Str) : ∀ (L : List Item),
    (∀ x ∈ L, x.2 ≠ some name) → loopSpec names name L = none := by
  intro L
  induction L with
  | nil => intro _; rfl
  | cons x L ih =>
    intro h
    rw [loopSpec_skip names name x L (h x (by simp))]
    exact ih (fun y hy => h y (by simp [hy]))

/-- what the peekable stream still holds -/
def StreamOf (P : Preds) (lines : List Str) (ts : List Tok) (it : PkIter) (S : List Item) : Prop :=
  match it.peeked with
  | some none => S = []
  | some (some x) => ∃ L, revCollect P lines ts it.n it.rev = .ok L ∧ S = x :: L
  | none => revCollect P lines ts it.n it.rev = .ok S

/-- `Take::next` on a stream without a peeked item -/
theorem takeNext_stream (P : Preds) (lines : List Str) (ts : List Tok) (it : PkIter) (S : List Item)
    (hp : it.peeked = none) (h : revCollect P lines ts it.n it.rev = .ok S) :
    ∃ it1, takeNext P lines ts it = .ok (S.head?, it1) ∧ it1.peeked = none ∧
      (∀ x S', S = x :: S' → revCollect P lines ts it1.n it1.rev = .ok S') := by
  simp only [takeNext]
  cases hn : it.n with
  | zero =>
    rw [hn] at h
    simp only [revCollect, Except.ok.injEq] at h
    subst h
    exact ⟨it, by simp, hp, by intro x S' h; simp at h⟩
  | succ n =>
    rw [hn] at h
    simp only [revCollect] at h
    rw [if_neg (by omega)]
    cases hr : revNext P lines ts it.rev with
    | error e => rw [hr] at h; simp at h
    | ok r =>
      obtain ⟨r, rev'⟩ := r
      rw [hr] at h
      cases r with
      | none =>
        simp only [Except.ok.injEq] at h
        subst h
        exact ⟨_, rfl, hp, by intro x S' h; simp at h⟩
      | some x =>
        simp only at h
        cases hc : revCollect P lines ts n rev' with
        | error e => rw [hc] at h; simp at h
        | ok L =>
          rw [hc] at h
          simp only [Except.ok.injEq] at h
          subst h
          refine ⟨_, rfl, hp, ?_⟩
          intro y S' hy
          simp only [List.cons.injEq] at hy
          simp only [Nat.add_sub_cancel]
          rw [← hy.2]; exact hc

theorem pkNext_stream (P : Preds) (lines : List Str) (ts : List Tok) (it : PkIter) (S : List Item)
    (h : StreamOf P lines ts it S) :
    ∃ it1, pkNext P lines ts it = .ok (S.head?, it1) ∧
      (∀ x S', S = x :: S' → it1.peeked = none ∧ revCollect P lines ts it1.n it1.rev = .ok S') := by
  simp only [pkNext]
  cases hp : it.peeked with
  | none =>
    simp only [StreamOf, hp] at h
    obtain ⟨it1, h1, h2, h3⟩ := takeNext_stream P lines ts it S hp h
    exact ⟨it1, h1, fun x S' hx => ⟨h2, h3 x S' hx⟩⟩
  | some v =>
    cases v with
    | none =>
      simp only [StreamOf, hp] at h
      subst h
      exact ⟨_, rfl, by intro x S' h; simp at h⟩
    | some x =>
      simp only [StreamOf, hp] at h
      obtain ⟨L, hL, hS⟩ := h
      subst hS
      refine ⟨_, rfl, ?_⟩
      intro y S' hy
      simp only [List.cons.injEq] at hy
      rw [← hy.2]
      exact ⟨rfl, hL⟩

theorem pkPeek_stream (P : Preds) (lines : List Str) (ts : List Tok) (it : PkIter) (S : List Item)
    (hp : it.peeked = none) (h : revCollect P lines ts it.n it.rev = .ok S) :
    ∃ it2, pkPeek P lines ts it = .ok (S.head?, it2) ∧ StreamOf P lines ts it2 S := by
  simp only [pkPeek, hp]
  obtain ⟨it1, h1, h2, h3⟩ := takeNext_stream P lines ts it S hp h
  rw [h1]
  refine ⟨_, rfl, ?_⟩
  cases S with
  | nil => simp [StreamOf]
  | cons x S' =>
    simp only [StreamOf, List.head?_cons]
    exact ⟨S', h3 x S' rfl, rfl⟩

/-- the loop computes `loopSpec` of the stream, and never runs out of fuel -/
theorem resolveLoop_eq {ν} (P : Preds) (lines : List Str) (ts : List Tok) (names : List ν) (name : Str) :
    ∀ (fuel : Nat) (it : PkIter) (S : List Item), StreamOf P lines ts it S → S.length + 1 ≤ fuel →
      resolveLoop P lines ts names name fuel it = .ok (loopSpec names name S) := by
  intro fuel
  induction fuel with
  | zero => intro it S _ h; omega
  | succ fuel ih =>
    intro it S hS hf
    obtain ⟨it1, h1, h1'⟩ := pkNext_stream P lines ts it S hS
    simp only [resolveLoop, h1]
    cases S with
    | nil => simp [loopSpec]
    | cons x S' =>
      obtain ⟨hp1, hc1⟩ := h1' x S' rfl
      obtain ⟨tk, ident⟩ := x
      simp only [List.head?_cons]
      simp only [List.length_cons] at hf
      by_cases hid : ident = some name
      · rw [if_pos hid]
        obtain ⟨it2, h2, hS2⟩ := pkPeek_stream P lines ts it1 S' hp1 hc1
        rw [h2]
        cases S' with
        | nil =>
          simp only [List.head?_nil]
          rw [ih it2 [] hS2 (by simp; omega)]
          simp [loopSpec]
        | cons y rest =>
          obtain ⟨tk2, id2⟩ := y
          simp only [List.head?_cons]
          simp only [List.length_cons] at hf
          cases id2 with
          | none =>
            simp only
            rw [ih it2 _ hS2 (by simp; omega)]
            simp [loopSpec]
          | some i2 =>
            simp only
            by_cases hfn : i2 = FUNCTION
            · rw [if_pos hfn]
              simp [loopSpec, hid, hfn]
            · rw [if_neg hfn, ih it2 _ hS2 (by simp; omega)]
              simp [loopSpec, hfn]
      · rw [if_neg hid]
        have hS1 : StreamOf P lines ts it1 S' := by simp only [StreamOf, hp1]; exact hc1
        rw [ih it1 S' hS1 (by omega)]
        rw [loopSpec_skip names name (tk, ident) S' hid]

/-! ### the index of the looked-up token -/

theorem firstIdxWhere_eq_some (p : Tok → Bool) : ∀ (ts : List Tok) (i : Nat) (hi : i < ts.length),
    p ts[i] = true → (∀ j (hj : j < i), p (ts[j]'(by omega)) = false) → firstIdxWhere p ts = some i := by
  intro ts
  induction ts with
  | nil => intro i hi; simp at hi
  | cons t ts ih =>
    intro i hi hp hmin
    cases i with
    | zero => simp at hp; simp [firstIdxWhere, hp]
    | succ i =>
      have h0 := hmin 0 (by omega)
      simp at h0
      simp only [firstIdxWhere, h0]
      simp only [List.getElem_cons_succ] at hp
      rw [ih i (by simpa using hi) hp (fun j hj => by
        have := hmin (j + 1) (by omega)
        simpa using this)]
      simp

theorem firstIdxWhere_eq_none (p : Tok → Bool) : ∀ (ts : List Tok),
    (∀ t ∈ ts, p t = false) → firstIdxWhere p ts = none := by
  intro ts
  induction ts with
  | nil => intro _; rfl
  | cons t ts ih =>
    intro h
    simp only [firstIdxWhere, h t (by simp)]
    rw [ih (fun u hu => h u (by simp [hu]))]
    simp

theorem lastIdxWhere_eq_none (p : Tok → Bool) : ∀ (ts : List Tok),
    (∀ t ∈ ts, p t = false) → lastIdxWhere p ts = none := by
  intro ts
  induction ts with
  | nil => intro _; rfl
  | cons t ts ih =>
    intro h
    simp only [lastIdxWhere]
    rw [ih (fun u hu => h u (by simp [hu]))]
    simp [h t (by simp)]

theorem lastIdxWhere_eq_some (p : Tok → Bool) : ∀ (ts : List Tok) (i : Nat) (hi : i < ts.length),
    p ts[i] = true → (∀ j (hj : j < ts.length), i < j → p ts[j] = false) → lastIdxWhere p ts = some i := by
  intro ts
  induction ts with
  | nil => intro i hi; simp at hi
  | cons t ts ih =>
    intro i hi hp hmax
    cases i with
    | zero =>
      simp only [lastIdxWhere]
      rw [lastIdxWhere_eq_none p ts (by
        intro u hu
        obtain ⟨j, hj, rfl⟩ := List.getElem_of_mem hu
        have := hmax (j + 1) (by simpa using hj) (by omega)
        simpa using this)]
      simp at hp
      simp [hp]
    | succ i =>
      simp only [lastIdxWhere]
      simp only [List.getElem_cons_succ] at hp
      rw [ih i (by simpa using hi) hp (fun j hj hij => by
        have := hmax (j + 1) (by simpa using hj) (by omega)
        simpa using this)]

/-- `glb` on an ordered map is the specification's index: the first token exactly at the position,
otherwise the last token before it -/
theorem glb_eq_startSpec (ts : List Tok) (q : Pos) (hs : SortedT ts) :
    glb (ts.map Tok.pos) q = startSpec ts q := by
  have hK := sortedK_map hs
  have hlen : (ts.map Tok.pos).length = ts.length := List.length_map _
  by_cases hne : (ts.map Tok.pos).length = 0
  · have : ts = [] := by rw [hlen] at hne; exact List.eq_nil_of_length_eq_zero hne
    subst this
    simp [glb, bsearch, startSpec, firstIdxWhere, lastIdxWhere]
  · obtain ⟨b, hb, hle, hgt, hbs⟩ := bsearch_spec (ts.map Tok.pos) q hK hne
    have hbl : b < ts.length := by omega
    have key : ∀ j (hj : j < ts.length), (ts.map Tok.pos).getD j (0, 0) = Tok.pos ts[j] :=
      fun j hj => getD_map_pos ts j hj
    have hsorted : ∀ i j (hij : i ≤ j) (hj : j < ts.length), posLe (Tok.pos (ts[i]'(by omega))) (Tok.pos ts[j]) = true := by
      intro i j hij hj
      have := hK i j hij (by omega)
      rw [key i (by omega), key j hj] at this; exact this
    have hgt' : ∀ j (hj : j < ts.length), b < j → posLt q (Tok.pos ts[j]) = true := by
      intro j hj hbj
      have := hgt j hbj (by omega)
      rw [key j hj] at this; exact this
    rw [key b hbl] at hbs hle
    simp only [glb, hbs, startSpec]
    by_cases heq : Tok.pos ts[b] = q
    · -- exact hit: walk back to the first equal key
      rw [if_pos heq]
      simp only
      obtain ⟨hw1, hw2, hw3⟩ := walkBack_spec (ts.map Tok.pos) q b
      generalize walkBack (ts.map Tok.pos) q b = w at hw1 hw2 hw3
      have hwl : w < ts.length := by omega
      have hkw : Tok.pos ts[w] = q := by
        rcases Nat.lt_or_eq_of_le hw1 with h | h
        · have := hw2 w (by omega) h
          rw [key w hwl] at this; exact this
        · subst h; exact heq
      have hfirst : firstIdxWhere (fun t => decide (Tok.pos t = q)) ts = some w := by
        apply firstIdxWhere_eq_some _ ts w hwl (by simp [hkw])
        intro j hj
        simp only [decide_eq_false_iff_not]
        intro hjq
        rcases hw3 with h0 | hprev
        · omega
        · rw [key (w - 1) (by omega)] at hprev
          have h1 := hsorted j (w - 1) (by omega) (by omega)
          have h2 := hsorted (w - 1) w (by omega) hwl
          rw [hjq] at h1
          rw [hkw] at h2
          exact hprev (posLe_antisymm h2 h1)
      rw [hfirst]
    · rw [if_neg heq]
      have hnone : firstIdxWhere (fun t => decide (Tok.pos t = q)) ts = none := by
        apply firstIdxWhere_eq_none
        intro u hu
        obtain ⟨j, hj, rfl⟩ := List.getElem_of_mem hu
        simp only [decide_eq_false_iff_not]
        intro hjq
        rcases Nat.lt_or_ge b j with h | h
        · have := hgt' j hj h
          rw [hjq] at this
          exact posLt_irrefl_le this (posLe_refl q)
        · have h1 := hsorted j b h hbl
          rw [hjq] at h1
          rcases hle with h0 | hle
          · subst h0
            have : j = 0 := by omega
            subst this
            exact heq hjq
          · exact heq (posLe_antisymm hle h1)
      rw [hnone]
      by_cases hlt : posLt (Tok.pos ts[b]) q = true
      · simp only [hlt, ↓reduceIte]
        rw [if_neg (by omega)]
        simp only [Nat.add_sub_cancel]
        symm
        apply lastIdxWhere_eq_some _ ts b hbl hlt
        intro j hj hbj
        have := hgt' j hj hbj
        rcases hq : posLt (Tok.pos ts[j]) q with _ | _
        · rfl
        · rw [posLt_iff] at this hq; omega
      · have hb0 : b = 0 := by
          rcases hle with h0 | hle
          · exact h0
          · exfalso
            rw [posLe_iff] at hle
            have hlt' : ¬ (posLt (Tok.pos ts[b]) q = true) := hlt
            rw [posLt_iff] at hlt'
            apply heq
            apply Prod.ext <;> omega
        simp only [hlt, Bool.false_eq_true, ↓reduceIte, Nat.add_zero]
        rw [if_pos hb0]
        symm
        apply lastIdxWhere_eq_none
        intro u hu
        obtain ⟨j, hj, rfl⟩ := List.getElem_of_mem hu
        rcases Nat.eq_zero_or_pos j with h | h
        · subst h; subst hb0; simpa using hlt
        · have := hgt' j hj (by omega)
          rcases hq : posLt (Tok.pos ts[j]) q with _ | _
          · rfl
          · rw [posLt_iff] at this hq; omega

/-- `lookup_token` on an ordered map: never panics, finds the token `startSpec` names -/
theorem lookup_index (ts : List Tok) (q : Pos) (hs : SortedT ts) :
    (lookup ts q = .ok none ∧ startSpec ts q = none) ∨
    (∃ i t c, lookup ts q = .ok (some (i, t, c)) ∧ startSpec ts q = some i ∧ ts[i]? = some t) := by
  obtain ⟨r, hr⟩ := lookup_ok ts q hs
  cases r with
  | none =>
    left
    refine ⟨hr, ?_⟩
    rw [← glb_eq_startSpec ts q hs]
    exact (lookup_none_iff_glb ts q hs).mp hr
  | some r =>
    obtain ⟨i, t, c⟩ := r
    right
    obtain ⟨hg, ht, _, _⟩ := lookup_some_inv ts q i t c hr
    exact ⟨i, t, c, hr, by rw [← glb_eq_startSpec ts q hs]; exact hg, ht⟩

end SmVerif.NameRes
