import SmVerif.Props.C11
import SmVerif.Model.V3Spec
/-
Helper lemmas for C06 / C02: the decoder's nested loops against the independent reading.
-/
namespace SmVerif.Decode
open SmVerif SmVerif.Vlq SmVerif.Mappings SmVerif.V3

/-- same shape as `C06.isErr` / `C11.isErr` -/
abbrev IsErr {α} (r : Res α) : Prop := ∃ e, r = .error e

theorem isErr_error {α} (e : Err) : IsErr (.error e : Res α) := ⟨e, rfl⟩

theorem not_isErr_ok {α} {x : α} : ¬ IsErr (.ok x : Res α) := by
  intro ⟨e, h⟩; cases h

/-! ### segment level -/

theorem parseLoop_foreign : ∀ (s : List Nat) (b : Nat) (cur : Int) (k : Nat) (acc : List Int),
    b ∈ s → b64Rev b = none → IsErr (parseLoop s cur k acc) := by
  intro s
  induction s with
  | nil => intro b cur k acc hb; simp at hb
  | cons c cs ih =>
    intro b cur k acc hb hn
    rw [parseLoop]
    cases hc : b64Rev c with
    | none => exact isErr_error _
    | some d =>
      have hb' : b ∈ cs := by
        rcases List.mem_cons.mp hb with h | h
        · subst h; rw [hn] at hc; cases hc
        · exact h
      simp only
      by_cases hk : 13 ≤ k
      · simp only [hk, ↓reduceIte]; exact isErr_error _
      · simp only [hk, ↓reduceIte]
        generalize cur + wrap64 (((d % 32 : Nat) : Int) * 2 ^ (5 * k)) = c'
        by_cases hin : inI64 c' = true
        · simp only [hin, Bool.not_true, Bool.false_eq_true, ↓reduceIte]
          by_cases hd : d / 32 = 0
          · simp only [hd, ↓reduceIte]; exact ih b 0 0 _ hb' hn
          · simp only [hd, ↓reduceIte]; exact ih b c' (k + 1) acc hb' hn
        · simp only [hin, Bool.not_false, ↓reduceIte]; exact isErr_error _

theorem parseVlq_foreign (s : List Nat) (b : Nat) (hb : b ∈ s) (hf : b ∉ Consts.b64Chars) :
    IsErr (parseVlq s) :=
  parseLoop_foreign s b 0 0 [] hb (C11.c11_table_foreign b hf)

theorem toDigits_none : ∀ s : List Nat, toDigits s = none → ∃ b ∈ s, b64Rev b = none := by
  intro s
  induction s with
  | nil => intro h; simp [toDigits] at h
  | cons c cs ih =>
    intro h
    simp only [toDigits] at h
    cases hc : b64Rev c with
    | none => exact ⟨c, by simp, hc⟩
    | some d =>
      simp only [hc] at h
      cases hcs : toDigits cs with
      | none =>
        obtain ⟨b, hb, h2⟩ := ih hcs
        exact ⟨b, by simp [hb], h2⟩
      | some ds => simp [hcs] at h

theorem segFits_hfit {s ds : List Nat} (hd : toDigits s = some ds) (hf : segFits s = true) :
    ∀ g ∈ (splitGroups ds []).1, g.length ≤ 13 → groupValue g < 9223372036854775808 := by
  unfold segFits at hf
  simp only [hd, List.all_eq_true, Bool.or_eq_true, decide_eq_true_eq] at hf
  intro g hg hl
  rcases hf g hg with h | h
  · omega
  · exact h

theorem parse_of_fields_some {s : List Nat} {vs : List Int} (hf : segFits s = true)
    (h : fields s = some vs) : parseVlq s = .ok vs := by
  unfold fields at h
  cases hd : toDigits s with
  | none => simp [hd] at h
  | some ds =>
    simp only [hd] at h
    rw [C11.c11_agrees_standard s ds hd (segFits_hfit hd hf)]
    cases hs : specVlq ds with
    | ok v => simp only [hs, Option.some.injEq] at h; subst h; rfl
    | error e => simp [hs] at h

theorem parse_of_fields_none {s : List Nat} (hf : segFits s = true)
    (h : fields s = none) : IsErr (parseVlq s) := by
  unfold fields at h
  cases hd : toDigits s with
  | none =>
    obtain ⟨b, hb, hn⟩ := toDigits_none s hd
    exact parseLoop_foreign s b 0 0 [] hb hn
  | some ds =>
    simp only [hd] at h
    rw [C11.c11_agrees_standard s ds hd (segFits_hfit hd hf)]
    cases hs : specVlq ds with
    | ok v => simp [hs] at h
    | error e => exact isErr_error _

/-! ### `decodeSeg` by arity -/

section seg
variable (nsrc nn dl : Nat) (bits : List Bool) (i dc : Nat) (st : DState)

theorem decodeSeg_nil : decodeSeg nsrc nn dl bits i dc st [] = .error .panic := rfl

theorem decodeSeg_one (n0 : Int) : decodeSeg nsrc nn dl bits i dc st [n0] =
    .ok ({ dl := dl, dc := wrapU32 ((dc : Int) + n0), sl := 0, sc := 0, src := NONE, name := NONE,
           rng := bits.getD i false }, wrapU32 ((dc : Int) + n0), st) := rfl

theorem decodeSeg_two (n0 n1 : Int) : decodeSeg nsrc nn dl bits i dc st [n0, n1] = .error .segsize := rfl

theorem decodeSeg_three (n0 n1 n2 : Int) :
    decodeSeg nsrc nn dl bits i dc st [n0, n1, n2] = .error .segsize := rfl

theorem decodeSeg_four_bad (n0 n1 n2 n3 : Int)
    (h : (st.src : Int) + n1 < 0 ∨ (st.src : Int) + n1 ≥ (nsrc : Int)) :
    decodeSeg nsrc nn dl bits i dc st [n0, n1, n2, n3] = .error .srcref := by
  simp only [decodeSeg, h, ↓reduceIte]

theorem decodeSeg_four (n0 n1 n2 n3 : Int)
    (h : ¬ ((st.src : Int) + n1 < 0 ∨ (st.src : Int) + n1 ≥ (nsrc : Int))) :
    decodeSeg nsrc nn dl bits i dc st [n0, n1, n2, n3] =
    .ok ({ dl := dl, dc := wrapU32 ((dc : Int) + n0), sl := wrapU32 (st.sl + n2), sc := wrapU32 (st.sc + n3),
           src := ((st.src : Int) + n1).toNat, name := NONE, rng := bits.getD i false },
         wrapU32 ((dc : Int) + n0),
         { st with src := ((st.src : Int) + n1).toNat, sl := wrapU32 (st.sl + n2), sc := wrapU32 (st.sc + n3) }) := by
  simp only [decodeSeg, h, ↓reduceIte]

theorem decodeSeg_five_bad_src (n0 n1 n2 n3 n4 : Int)
    (h : (st.src : Int) + n1 < 0 ∨ (st.src : Int) + n1 ≥ (nsrc : Int)) :
    decodeSeg nsrc nn dl bits i dc st [n0, n1, n2, n3, n4] = .error .srcref := by
  simp only [decodeSeg, h, ↓reduceIte]

theorem decodeSeg_five_bad_name (n0 n1 n2 n3 n4 : Int)
    (h : ¬ ((st.src : Int) + n1 < 0 ∨ (st.src : Int) + n1 ≥ (nsrc : Int)))
    (h2 : (st.name : Int) + n4 < 0 ∨ (st.name : Int) + n4 ≥ (nn : Int)) :
    decodeSeg nsrc nn dl bits i dc st [n0, n1, n2, n3, n4] = .error .nameref := by
  simp only [decodeSeg, h, h2, ↓reduceIte]

theorem decodeSeg_five (n0 n1 n2 n3 n4 : Int)
    (h : ¬ ((st.src : Int) + n1 < 0 ∨ (st.src : Int) + n1 ≥ (nsrc : Int)))
    (h2 : ¬ ((st.name : Int) + n4 < 0 ∨ (st.name : Int) + n4 ≥ (nn : Int))) :
    decodeSeg nsrc nn dl bits i dc st [n0, n1, n2, n3, n4] =
    .ok ({ dl := dl, dc := wrapU32 ((dc : Int) + n0), sl := wrapU32 (st.sl + n2), sc := wrapU32 (st.sc + n3),
           src := ((st.src : Int) + n1).toNat, name := ((st.name : Int) + n4).toNat, rng := bits.getD i false },
         wrapU32 ((dc : Int) + n0),
         { src := ((st.src : Int) + n1).toNat, sl := wrapU32 (st.sl + n2), sc := wrapU32 (st.sc + n3),
           name := ((st.name : Int) + n4).toNat }) := by
  simp only [decodeSeg, h, h2, ↓reduceIte]

theorem decodeSeg_six (n0 n1 n2 n3 n4 n5 : Int) (r : List Int) :
    decodeSeg nsrc nn dl bits i dc st (n0 :: n1 :: n2 :: n3 :: n4 :: n5 :: r) = .error .segsize := rfl

end seg

/-! ### inversion of the loops -/

theorem decodeSeg_ok_arity {nsrc nn dl : Nat} {bits : List Bool} {i dc : Nat} {st : DState}
    {nums : List Int} {r : Tok × Nat × DState}
    (h : decodeSeg nsrc nn dl bits i dc st nums = .ok r) :
    nums.length = 1 ∨ nums.length = 4 ∨ nums.length = 5 := by
  rcases nums with _ | ⟨n0, _ | ⟨n1, _ | ⟨n2, _ | ⟨n3, _ | ⟨n4, _ | ⟨n5, r⟩⟩⟩⟩⟩⟩
  · cases h
  · simp
  · cases h
  · cases h
  · simp
  · simp
  · cases h

def Resolves (nsrc nn : Nat) (t : Tok) : Prop :=
  (t.src = NONE ∨ t.src < nsrc) ∧ (t.name = NONE ∨ t.name < nn)

theorem decodeSeg_ok_resolves {nsrc nn dl : Nat} {bits : List Bool} {i dc : Nat} {st : DState}
    {nums : List Int} {t : Tok} {dc' : Nat} {st' : DState}
    (h : decodeSeg nsrc nn dl bits i dc st nums = .ok (t, dc', st')) : Resolves nsrc nn t := by
  rcases nums with _ | ⟨n0, _ | ⟨n1, _ | ⟨n2, _ | ⟨n3, _ | ⟨n4, _ | ⟨n5, r⟩⟩⟩⟩⟩⟩
  · cases h
  · rw [decodeSeg_one] at h
    cases h
    simp [Resolves]
  · cases h
  · cases h
  · by_cases hs : (st.src : Int) + n1 < 0 ∨ (st.src : Int) + n1 ≥ (nsrc : Int)
    · rw [decodeSeg_four_bad _ _ _ _ _ _ _ _ _ _ _ hs] at h; cases h
    · rw [decodeSeg_four _ _ _ _ _ _ _ _ _ _ _ hs] at h
      cases h
      simp only [Resolves]
      constructor
      · right; omega
      · left; first | rfl | trivial
  · by_cases hs : (st.src : Int) + n1 < 0 ∨ (st.src : Int) + n1 ≥ (nsrc : Int)
    · rw [decodeSeg_five_bad_src _ _ _ _ _ _ _ _ _ _ _ _ hs] at h; cases h
    · by_cases hn : (st.name : Int) + n4 < 0 ∨ (st.name : Int) + n4 ≥ (nn : Int)
      · rw [decodeSeg_five_bad_name _ _ _ _ _ _ _ _ _ _ _ _ hs hn] at h; cases h
      · rw [decodeSeg_five _ _ _ _ _ _ _ _ _ _ _ _ hs hn] at h
        cases h
        simp only [Resolves]
        constructor <;> (right; omega)
  · cases h

theorem decodeSegs_cons_inv {nsrc nn dl : Nat} {bits : List Bool} {seg : List Nat} {segs : List (List Nat)}
    {i dc : Nat} {st : DState} {acc : List Tok} {r : DState × List Tok}
    (h : decodeSegs nsrc nn dl bits (seg :: segs) i dc st acc = .ok r) :
    (seg = [] ∧ decodeSegs nsrc nn dl bits segs (i + 1) dc st acc = .ok r) ∨
    (seg ≠ [] ∧ ∃ nums t dc' st', parseVlq seg = .ok nums ∧
      decodeSeg nsrc nn dl bits i dc st nums = .ok (t, dc', st') ∧
      decodeSegs nsrc nn dl bits segs (i + 1) dc' st' (t :: acc) = .ok r) := by
  rw [decodeSegs] at h
  by_cases hs : seg = []
  · simp only [hs, ↓reduceIte] at h
    exact Or.inl ⟨hs, h⟩
  · simp only [hs, ↓reduceIte] at h
    refine Or.inr ⟨hs, ?_⟩
    cases hp : parseVlq seg with
    | error e => simp [hp] at h
    | ok nums =>
      simp only [hp] at h
      cases hd : decodeSeg nsrc nn dl bits i dc st nums with
      | error e => simp [hd] at h
      | ok x =>
        obtain ⟨t, dc', st'⟩ := x
        simp only [hd] at h
        exact ⟨nums, t, dc', st', rfl, hd, h⟩

theorem decodeLines_cons_inv {nsrc nn : Nat} {line : List Nat} {lines rl : List (List Nat)}
    {dl : Nat} {st : DState} {acc ts : List Tok}
    (h : decodeLines nsrc nn (line :: lines) rl dl st acc = .ok ts) :
    (line = [] ∧ decodeLines nsrc nn lines rl.tail (dl + 1) st acc = .ok ts) ∨
    (line ≠ [] ∧ ∃ bits st' acc', decodeRmi (rl.headD []) = some bits ∧
      decodeSegs nsrc nn dl bits (splitOn COMMA line) 0 0 st acc = .ok (st', acc') ∧
      decodeLines nsrc nn lines rl.tail (dl + 1) st' acc' = .ok ts) := by
  rw [decodeLines] at h
  by_cases hs : line = []
  · rw [if_pos hs] at h
    exact Or.inl ⟨hs, h⟩
  · rw [if_neg hs] at h
    refine Or.inr ⟨hs, ?_⟩
    cases hr : decodeRmi (rl.headD []) with
    | none => rw [hr] at h; cases h
    | some bits =>
      rw [hr] at h; simp only at h
      cases hd : decodeSegs nsrc nn dl bits (splitOn COMMA line) 0 0 st acc with
      | error e => simp [hd] at h
      | ok x =>
        obtain ⟨st', acc'⟩ := x
        simp only [hd] at h
        exact ⟨bits, st', acc', rfl, hd, h⟩

/-! ### every pushed token resolves -/

theorem decodeSegs_resolves {nsrc nn dl : Nat} {bits : List Bool} :
    ∀ (segs : List (List Nat)) (i dc : Nat) (st : DState) (acc : List Tok) (r : DState × List Tok),
    (∀ t ∈ acc, Resolves nsrc nn t) → decodeSegs nsrc nn dl bits segs i dc st acc = .ok r →
    ∀ t ∈ r.2, Resolves nsrc nn t := by
  intro segs
  induction segs with
  | nil =>
    intro i dc st acc r ha h
    rw [decodeSegs] at h
    cases h
    exact ha
  | cons seg segs ih =>
    intro i dc st acc r ha h
    rcases decodeSegs_cons_inv h with ⟨_, h'⟩ | ⟨_, nums, t, dc', st', _, hd, h'⟩
    · exact ih (i + 1) dc st acc r ha h'
    · refine ih (i + 1) dc' st' (t :: acc) r ?_ h'
      intro t' ht'
      rcases List.mem_cons.mp ht' with rfl | ht'
      · exact decodeSeg_ok_resolves hd
      · exact ha t' ht'

theorem decodeLines_resolves {nsrc nn : Nat} :
    ∀ (lines rl : List (List Nat)) (dl : Nat) (st : DState) (acc ts : List Tok),
    (∀ t ∈ acc, Resolves nsrc nn t) → decodeLines nsrc nn lines rl dl st acc = .ok ts →
    ∀ t ∈ ts, Resolves nsrc nn t := by
  intro lines
  induction lines with
  | nil =>
    intro rl dl st acc ts ha h
    rw [decodeLines] at h
    cases h
    intro t ht
    exact ha t (List.mem_reverse.mp ht)
  | cons line lines ih =>
    intro rl dl st acc ts ha h
    rcases decodeLines_cons_inv h with ⟨_, h'⟩ | ⟨_, bits, st', acc', _, hd, h'⟩
    · exact ih rl.tail (dl + 1) st acc ts ha h'
    · exact ih rl.tail (dl + 1) st' acc' ts (decodeSegs_resolves _ _ _ _ _ _ ha hd) h'

/-! ### every non-empty segment of a successfully decoded string parses with arity 1, 4 or 5 -/

def GoodSeg (s : List Nat) : Prop :=
  ∃ vs, parseVlq s = .ok vs ∧ (vs.length = 1 ∨ vs.length = 4 ∨ vs.length = 5)

theorem decodeSegs_ok_good {nsrc nn dl : Nat} {bits : List Bool} :
    ∀ (segs : List (List Nat)) (i dc : Nat) (st : DState) (acc : List Tok) (r : DState × List Tok),
    decodeSegs nsrc nn dl bits segs i dc st acc = .ok r → ∀ s ∈ segs, s ≠ [] → GoodSeg s := by
  intro segs
  induction segs with
  | nil => intro i dc st acc r _ s hs; simp at hs
  | cons seg segs ih =>
    intro i dc st acc r h s hs hne
    rcases decodeSegs_cons_inv h with ⟨he, h'⟩ | ⟨_, nums, t, dc', st', hp, hd, h'⟩
    · rcases List.mem_cons.mp hs with rfl | hs
      · exact absurd he hne
      · exact ih (i + 1) dc st acc r h' s hs hne
    · rcases List.mem_cons.mp hs with rfl | hs
      · exact ⟨nums, hp, decodeSeg_ok_arity hd⟩
      · exact ih (i + 1) dc' st' (t :: acc) r h' s hs hne

theorem decodeLines_ok_good {nsrc nn : Nat} :
    ∀ (lines rl : List (List Nat)) (dl : Nat) (st : DState) (acc ts : List Tok),
    decodeLines nsrc nn lines rl dl st acc = .ok ts →
    ∀ ln ∈ lines, ∀ s ∈ splitOn COMMA ln, s ≠ [] → GoodSeg s := by
  intro lines
  induction lines with
  | nil => intro rl dl st acc ts _ ln hl; simp at hl
  | cons line lines ih =>
    intro rl dl st acc ts h ln hl s hs hne
    rcases decodeLines_cons_inv h with ⟨he, h'⟩ | ⟨_, bits, st', acc', _, hd, h'⟩
    · rcases List.mem_cons.mp hl with rfl | hl
      · subst he
        simp [splitOn] at hs
        exact absurd hs hne
      · exact ih rl.tail (dl + 1) st acc ts h' ln hl s hs hne
    · rcases List.mem_cons.mp hl with rfl | hl
      · exact decodeSegs_ok_good _ _ _ _ _ _ hd s hs hne
      · exact ih rl.tail (dl + 1) st' acc' ts h' ln hl s hs hne

theorem mem_segments {m : List Nat} {sg : Seg} (h : sg ∈ segments m) :
    ∃ ln ∈ splitOn SEMI m, sg.bytes ∈ splitOn COMMA ln ∧ sg.bytes ≠ [] := by
  unfold segments at h
  simp only [List.mem_flatten, List.mem_map] at h
  obtain ⟨l, ⟨⟨ln, li⟩, hln, rfl⟩, hsg⟩ := h
  simp only [List.mem_map, List.mem_filter] at hsg
  obtain ⟨⟨s, si⟩, ⟨hs, hne⟩, rfl⟩ := hsg
  have h1 := List.mem_zipIdx hln
  have h2 := List.mem_zipIdx hs
  refine ⟨ln, ?_, ?_, ?_⟩
  · rw [h1.2.2]; exact List.getElem_mem _
  · simp only; rw [h2.2.2]; exact List.getElem_mem _
  · simpa using hne

theorem decode_ok_segs {m rmi : List Nat} {nsrc nn : Nat} {ts : List Tok}
    (h : decodeMappings m rmi nsrc nn = .ok ts) : ∀ sg ∈ segments m, GoodSeg sg.bytes := by
  intro sg hsg
  obtain ⟨ln, hln, hs, hne⟩ := mem_segments hsg
  exact decodeLines_ok_good _ _ _ _ _ _ h ln hln _ hs hne

/-! ### the located segments, as recursive functions -/

def locSegs (segs : List (List Nat)) (i l : Nat) : List Seg :=
  ((segs.zipIdx i).filter (fun (s, _) => s ≠ [])).map fun (s, i) => { line := l, idx := i, bytes := s : Seg }

def locLines (lines : List (List Nat)) (dl : Nat) : List Seg :=
  ((lines.zipIdx dl).map fun (ln, l) => locSegs (splitOn COMMA ln) 0 l).flatten

theorem segments_eq (m : List Nat) : segments m = locLines (splitOn SEMI m) 0 := rfl

theorem locSegs_nil (i l : Nat) : locSegs [] i l = [] := rfl

theorem locSegs_cons (seg : List Nat) (segs : List (List Nat)) (i l : Nat) :
    locSegs (seg :: segs) i l =
      if seg = [] then locSegs segs (i + 1) l else ⟨l, i, seg⟩ :: locSegs segs (i + 1) l := by
  by_cases h : seg = []
  · simp [locSegs, List.zipIdx_cons, h]
  · simp [locSegs, List.zipIdx_cons, h]

theorem locLines_nil (dl : Nat) : locLines [] dl = [] := rfl

theorem locLines_cons (ln : List Nat) (lines : List (List Nat)) (dl : Nat) :
    locLines (ln :: lines) dl = locSegs (splitOn COMMA ln) 0 dl ++ locLines lines (dl + 1) := by
  simp [locLines, List.zipIdx_cons]

/-- pair every located segment with its reading -/
def tag (l : List Seg) : List (Seg × Option (List Int)) := l.map fun s => (s, fields s.bytes)

theorem tag_nil : tag [] = [] := rfl
theorem tag_cons (s : Seg) (l : List Seg) : tag (s :: l) = (s, fields s.bytes) :: tag l := rfl
theorem tag_append (l₁ l₂ : List Seg) : tag (l₁ ++ l₂) = tag l₁ ++ tag l₂ := by simp [tag]

/-! ### coupling of the two states -/

/-- source and name indices are range-checked on both sides: always equal -/
def Weak (a : Acc) (st : DState) : Prop := a.src = (st.src : Int) ∧ a.name = (st.name : Int)

/-- the u32 coordinates agree as long as the reading has not left u32 -/
def Strong (a : Acc) (st : DState) (dl dc : Nat) : Prop :=
  (if dl = a.line then a.col else 0) = (dc : Int) ∧ a.sl = (st.sl : Int) ∧ a.sc = (st.sc : Int) ∧
  (a.line ≤ dl ∨ a.col = 0)

theorem wrapU32_of_inU32 {x : Int} (h : inU32 x = true) : wrapU32 x = x.toNat := by
  simp only [inU32, Bool.and_eq_true, decide_eq_true_eq] at h
  unfold wrapU32; omega

theorem inU32_nonneg {x : Int} (h : inU32 x = true) : 0 ≤ x := by
  simp only [inU32, Bool.and_eq_true, decide_eq_true_eq] at h
  omega

theorem accumulate_four_bad (nsrc nn : Nat) (rb : Nat → Nat → Bool) (a : Acc) (out : List Tok) (o : Bool)
    (s : Seg) (rest : List (Seg × Option (List Int))) (c ds dl dc : Int)
    (h : a.src + ds < 0 ∨ a.src + ds ≥ (nsrc : Int)) :
    accumulate nsrc nn rb ((s, some [c, ds, dl, dc]) :: rest) a out o = .fault := by
  rw [accumulate, if_pos h]

theorem accumulate_five_bad_src (nsrc nn : Nat) (rb : Nat → Nat → Bool) (a : Acc) (out : List Tok) (o : Bool)
    (s : Seg) (rest : List (Seg × Option (List Int))) (c ds dl dc dn : Int)
    (h : a.src + ds < 0 ∨ a.src + ds ≥ (nsrc : Int)) :
    accumulate nsrc nn rb ((s, some [c, ds, dl, dc, dn]) :: rest) a out o = .fault := by
  rw [accumulate, if_pos h]

theorem accumulate_five_bad_name (nsrc nn : Nat) (rb : Nat → Nat → Bool) (a : Acc) (out : List Tok) (o : Bool)
    (s : Seg) (rest : List (Seg × Option (List Int))) (c ds dl dc dn : Int)
    (h : ¬ (a.src + ds < 0 ∨ a.src + ds ≥ (nsrc : Int)))
    (h2 : a.name + dn < 0 ∨ a.name + dn ≥ (nn : Int)) :
    accumulate nsrc nn rb ((s, some [c, ds, dl, dc, dn]) :: rest) a out o = .fault := by
  rw [accumulate, if_neg h, if_pos h2]

theorem accumulate_four (nsrc nn : Nat) (rb : Nat → Nat → Bool) (a : Acc) (out : List Tok) (o : Bool)
    (s : Seg) (rest : List (Seg × Option (List Int))) (c ds dl dc : Int)
    (h : ¬ (a.src + ds < 0 ∨ a.src + ds ≥ (nsrc : Int))) :
    accumulate nsrc nn rb ((s, some [c, ds, dl, dc]) :: rest) a out o =
    accumulate nsrc nn rb rest
      { line := s.line, col := (if s.line = a.line then a.col else 0) + c, src := a.src + ds, sl := a.sl + dl,
        sc := a.sc + dc, name := a.name }
      ({ dl := s.line, dc := ((if s.line = a.line then a.col else 0) + c).toNat, sl := (a.sl + dl).toNat,
         sc := (a.sc + dc).toNat, src := (a.src + ds).toNat, name := NONE, rng := rb s.line s.idx } :: out)
      (o || !inU32 ((if s.line = a.line then a.col else 0) + c) || !inU32 (a.sl + dl) || !inU32 (a.sc + dc)) := by
  rw [accumulate, if_neg h]

theorem accumulate_five (nsrc nn : Nat) (rb : Nat → Nat → Bool) (a : Acc) (out : List Tok) (o : Bool)
    (s : Seg) (rest : List (Seg × Option (List Int))) (c ds dl dc dn : Int)
    (h : ¬ (a.src + ds < 0 ∨ a.src + ds ≥ (nsrc : Int)))
    (h2 : ¬ (a.name + dn < 0 ∨ a.name + dn ≥ (nn : Int))) :
    accumulate nsrc nn rb ((s, some [c, ds, dl, dc, dn]) :: rest) a out o =
    accumulate nsrc nn rb rest
      { line := s.line, col := (if s.line = a.line then a.col else 0) + c, src := a.src + ds, sl := a.sl + dl,
        sc := a.sc + dc, name := a.name + dn }
      ({ dl := s.line, dc := ((if s.line = a.line then a.col else 0) + c).toNat, sl := (a.sl + dl).toNat,
         sc := (a.sc + dc).toNat, src := (a.src + ds).toNat, name := (a.name + dn).toNat,
         rng := rb s.line s.idx } :: out)
      (o || !inU32 ((if s.line = a.line then a.col else 0) + c) || !inU32 (a.sl + dl) || !inU32 (a.sc + dc)) := by
  rw [accumulate, if_neg h, if_neg h2]

/-- one parsed segment: both sides fail, or both sides step and stay coupled -/
theorem step_nums (nsrc nn dl : Nat) (bits : List Bool) (rb : Nat → Nat → Bool) (i dc : Nat) (st : DState)
    (a : Acc) (out : List Tok) (outside : Bool) (bytes : List Nat) (f : List Int)
    (hrb : rb dl i = bits.getD i false) (hw : Weak a st) (hs : outside = false → Strong a st dl dc) :
    (IsErr (decodeSeg nsrc nn dl bits i dc st f) ∧
      ∀ rest, accumulate nsrc nn rb ((⟨dl, i, bytes⟩, some f) :: rest) a out outside = .fault) ∨
    (∃ t t' dc' st' a' outside', decodeSeg nsrc nn dl bits i dc st f = .ok (t, dc', st') ∧
      (∀ rest, accumulate nsrc nn rb ((⟨dl, i, bytes⟩, some f) :: rest) a out outside
         = accumulate nsrc nn rb rest a' (t' :: out) outside') ∧
      Weak a' st' ∧ (outside' = false → outside = false ∧ Strong a' st' dl dc' ∧ t' = t)) := by
  obtain ⟨hsrc, hname⟩ := hw
  rcases f with _ | ⟨c, _ | ⟨ds, _ | ⟨dl', _ | ⟨dc', _ | ⟨dn, _ | ⟨x, r⟩⟩⟩⟩⟩⟩
  · exact Or.inl ⟨isErr_error _, fun rest => by simp [accumulate]⟩
  · refine Or.inr ⟨_, _, _, _, _, _, decodeSeg_one _ _ _ _ _ _ _ _, fun rest => accumulate.eq_3 .., ⟨hsrc, hname⟩, ?_⟩
    intro ho
    simp only [Bool.or_eq_false_iff, Bool.not_eq_false'] at ho
    obtain ⟨ho1, ho2⟩ := ho
    obtain ⟨hcol, hsl, hsc, hline⟩ := hs ho1
    simp only [hcol] at ho2 ⊢
    refine ⟨ho1, ⟨?_, hsl, hsc, Or.inl (Nat.le_refl _)⟩, ?_⟩
    · simp only [↓reduceIte]
      rw [wrapU32_of_inU32 ho2]; have := inU32_nonneg ho2; omega
    · rw [wrapU32_of_inU32 ho2, hrb]
  · exact Or.inl ⟨isErr_error _, fun rest => by simp [accumulate]⟩
  · exact Or.inl ⟨isErr_error _, fun rest => by simp [accumulate]⟩
  · by_cases hb : (st.src : Int) + ds < 0 ∨ (st.src : Int) + ds ≥ (nsrc : Int)
    · exact Or.inl ⟨⟨_, decodeSeg_four_bad _ _ _ _ _ _ _ _ _ _ _ hb⟩, fun rest =>
        accumulate_four_bad _ _ _ _ _ _ _ _ _ _ _ _ (by rw [hsrc]; exact hb)⟩
    · have hb' : ¬ (a.src + ds < 0 ∨ a.src + ds ≥ (nsrc : Int)) := by rw [hsrc]; exact hb
      refine Or.inr ⟨_, _, _, _, _, _, decodeSeg_four _ _ _ _ _ _ _ _ _ _ _ hb,
        fun rest => accumulate_four _ _ _ _ _ _ _ _ _ _ _ _ hb', ?_, ?_⟩
      · constructor
        · show a.src + ds = (((st.src : Int) + ds).toNat : Int)
          omega
        · exact hname
      · intro ho
        simp only [Bool.or_eq_false_iff, Bool.not_eq_false'] at ho
        obtain ⟨⟨⟨ho1, ho2⟩, ho3⟩, ho4⟩ := ho
        obtain ⟨hcol, hsl, hsc, hline⟩ := hs ho1
        simp only [hcol] at ho2 ⊢
        have n2 := inU32_nonneg ho2
        have n3 := inU32_nonneg ho3
        have n4 := inU32_nonneg ho4
        refine ⟨ho1, ⟨?_, ?_, ?_, Or.inl (Nat.le_refl _)⟩, ?_⟩
        · simp only [↓reduceIte]
          rw [wrapU32_of_inU32 ho2]; omega
        · show a.sl + dl' = ((wrapU32 ((st.sl : Int) + dl') : Nat) : Int)
          rw [← hsl, wrapU32_of_inU32 ho3]; omega
        · show a.sc + dc' = ((wrapU32 ((st.sc : Int) + dc') : Nat) : Int)
          rw [← hsc, wrapU32_of_inU32 ho4]; omega
        · rw [← hsl, ← hsc, ← hsrc, wrapU32_of_inU32 ho2, wrapU32_of_inU32 ho3, wrapU32_of_inU32 ho4, hrb]
  · by_cases hb : (st.src : Int) + ds < 0 ∨ (st.src : Int) + ds ≥ (nsrc : Int)
    · exact Or.inl ⟨⟨_, decodeSeg_five_bad_src _ _ _ _ _ _ _ _ _ _ _ _ hb⟩, fun rest =>
        accumulate_five_bad_src _ _ _ _ _ _ _ _ _ _ _ _ _ (by rw [hsrc]; exact hb)⟩
    · have hb' : ¬ (a.src + ds < 0 ∨ a.src + ds ≥ (nsrc : Int)) := by rw [hsrc]; exact hb
      by_cases hn : (st.name : Int) + dn < 0 ∨ (st.name : Int) + dn ≥ (nn : Int)
      · exact Or.inl ⟨⟨_, decodeSeg_five_bad_name _ _ _ _ _ _ _ _ _ _ _ _ hb hn⟩, fun rest =>
          accumulate_five_bad_name _ _ _ _ _ _ _ _ _ _ _ _ _ hb' (by rw [hname]; exact hn)⟩
      · have hn' : ¬ (a.name + dn < 0 ∨ a.name + dn ≥ (nn : Int)) := by rw [hname]; exact hn
        refine Or.inr ⟨_, _, _, _, _, _, decodeSeg_five _ _ _ _ _ _ _ _ _ _ _ _ hb hn,
          fun rest => accumulate_five _ _ _ _ _ _ _ _ _ _ _ _ _ hb' hn', ?_, ?_⟩
        · constructor
          · show a.src + ds = (((st.src : Int) + ds).toNat : Int)
            omega
          · show a.name + dn = (((st.name : Int) + dn).toNat : Int)
            omega
        · intro ho
          simp only [Bool.or_eq_false_iff, Bool.not_eq_false'] at ho
          obtain ⟨⟨⟨ho1, ho2⟩, ho3⟩, ho4⟩ := ho
          obtain ⟨hcol, hsl, hsc, hline⟩ := hs ho1
          simp only [hcol] at ho2 ⊢
          have n2 := inU32_nonneg ho2
          have n3 := inU32_nonneg ho3
          have n4 := inU32_nonneg ho4
          refine ⟨ho1, ⟨?_, ?_, ?_, Or.inl (Nat.le_refl _)⟩, ?_⟩
          · simp only [↓reduceIte]
            rw [wrapU32_of_inU32 ho2]; omega
          · show a.sl + dl' = ((wrapU32 ((st.sl : Int) + dl') : Nat) : Int)
            rw [← hsl, wrapU32_of_inU32 ho3]; omega
          · show a.sc + dc' = ((wrapU32 ((st.sc : Int) + dc') : Nat) : Int)
            rw [← hsc, wrapU32_of_inU32 ho4]; omega
          · rw [← hsl, ← hsc, ← hsrc, ← hname, wrapU32_of_inU32 ho2, wrapU32_of_inU32 ho3,
              wrapU32_of_inU32 ho4, hrb]
  · exact Or.inl ⟨isErr_error _, fun rest => by simp [accumulate]⟩

/-! ### one line -/

theorem sim_segs (nsrc nn dl : Nat) (bits : List Bool) (rb : Nat → Nat → Bool)
    (hrb : ∀ i, rb dl i = bits.getD i false) :
    ∀ (segs : List (List Nat)) (i dc : Nat) (st : DState) (acc : List Tok) (a : Acc) (out : List Tok)
      (outside : Bool),
    (∀ sg ∈ locSegs segs i dl, segFits sg.bytes = true) → Weak a st →
    (outside = false → Strong a st dl dc ∧ acc = out) →
    (IsErr (decodeSegs nsrc nn dl bits segs i dc st acc) ∧
      ∀ rest, accumulate nsrc nn rb (tag (locSegs segs i dl) ++ rest) a out outside = .fault) ∨
    (∃ st' acc' a' out' outside' dc', decodeSegs nsrc nn dl bits segs i dc st acc = .ok (st', acc') ∧
      (∀ rest, accumulate nsrc nn rb (tag (locSegs segs i dl) ++ rest) a out outside
        = accumulate nsrc nn rb rest a' out' outside') ∧
      Weak a' st' ∧ (outside' = false → Strong a' st' dl dc' ∧ acc' = out')) := by
  intro segs
  induction segs with
  | nil =>
    intro i dc st acc a out outside _ hw hs
    refine Or.inr ⟨st, acc, a, out, outside, dc, by rw [decodeSegs], fun rest => ?_, hw, hs⟩
    rw [locSegs_nil, tag_nil, List.nil_append]
  | cons seg segs ih =>
    intro i dc st acc a out outside hfit hw hs
    by_cases he : seg = []
    · rw [decodeSegs, if_pos he, locSegs_cons, if_pos he]
      rw [locSegs_cons, if_pos he] at hfit
      exact ih (i + 1) dc st acc a out outside hfit hw hs
    · rw [decodeSegs, if_neg he, locSegs_cons, if_neg he, tag_cons]
      rw [locSegs_cons, if_neg he] at hfit
      have hf : segFits seg = true := hfit ⟨dl, i, seg⟩ (by simp)
      have hfit' : ∀ sg ∈ locSegs segs (i + 1) dl, segFits sg.bytes = true :=
        fun sg h => hfit sg (by simp [h])
      simp only [List.cons_append]
      cases hfl : fields seg with
      | none =>
        obtain ⟨e, hpe⟩ := parse_of_fields_none hf hfl
        rw [hpe]
        exact Or.inl ⟨isErr_error _, fun rest => by rw [accumulate]⟩
      | some f =>
        rw [parse_of_fields_some hf hfl]
        simp only
        rcases step_nums nsrc nn dl bits rb i dc st a out outside seg f (hrb i) hw (fun h => (hs h).1) with
          ⟨⟨e, hde⟩, hfault⟩ | ⟨t, t', dc', st', a', outside', hd, hacc, hw', hs'⟩
        · rw [hde]
          exact Or.inl ⟨isErr_error _, fun rest => hfault _⟩
        · rw [hd]
          simp only
          have hs'' : outside' = false → Strong a' st' dl dc' ∧ t :: acc = t' :: out := by
            intro h
            obtain ⟨h1, h2, h3⟩ := hs' h
            exact ⟨h2, by rw [h3, (hs h1).2]⟩
          rcases ih (i + 1) dc' st' (t :: acc) a' (t' :: out) outside' hfit' hw' hs'' with
            ⟨herr, hfl⟩ | ⟨st2, acc2, a2, out2, outside2, dc2, hok, hacc2, hw2, hs2⟩
          · exact Or.inl ⟨herr, fun rest => by rw [hacc]; exact hfl rest⟩
          · exact Or.inr ⟨st2, acc2, a2, out2, outside2, dc2, hok,
              fun rest => by rw [hacc]; exact hacc2 rest, hw2, hs2⟩

/-! ### all lines -/

def LStrong (a : Acc) (st : DState) (dl : Nat) : Prop :=
  a.sl = (st.sl : Int) ∧ a.sc = (st.sc : Int) ∧ (a.line < dl ∨ a.col = 0)

theorem getD_tail (rl : List (List Nat)) (k : Nat) : rl.tail.getD k [] = rl.getD (k + 1) [] := by
  cases rl <;> simp

theorem headD_eq_getD (rl : List (List Nat)) : rl.headD [] = rl.getD 0 [] := by
  cases rl <;> simp

/-- the range bit the reading uses for line `l` is the bit the decoder finds in piece `l` -/
def RbOk (rb : Nat → Nat → Bool) (rl : List (List Nat)) (dl : Nat) : Prop :=
  ∀ k i, rb (dl + k) i = match decodeRmi (rl.getD k []) with
    | some b => b.getD i false
    | none => false

theorem sim_lines (nsrc nn : Nat) (rb : Nat → Nat → Bool) :
    ∀ (lines rl : List (List Nat)) (dl : Nat) (st : DState) (acc : List Tok) (a : Acc) (out : List Tok)
      (outside : Bool),
    RbOk rb rl dl → (∀ sg ∈ locLines lines dl, segFits sg.bytes = true) → Weak a st →
    (outside = false → LStrong a st dl ∧ acc = out) →
    (IsErr (decodeLines nsrc nn lines rl dl st acc) ∧
       (accumulate nsrc nn rb (tag (locLines lines dl)) a out outside = .fault ∨
        ∃ k ln, lines[k]? = some ln ∧ ln ≠ [] ∧ decodeRmi (rl.getD k []) = none)) ∨
    (∃ ts, decodeLines nsrc nn lines rl dl st acc = .ok ts ∧
       (accumulate nsrc nn rb (tag (locLines lines dl)) a out outside = .outside ∨
        accumulate nsrc nn rb (tag (locLines lines dl)) a out outside = .toks ts)) := by
  intro lines
  induction lines with
  | nil =>
    intro rl dl st acc a out outside _ _ _ hs
    refine Or.inr ⟨acc.reverse, by rw [decodeLines], ?_⟩
    rw [locLines_nil, tag_nil, accumulate]
    cases outside with
    | true => exact Or.inl rfl
    | false => right; rw [(hs rfl).2]; rfl
  | cons line lines ih =>
    intro rl dl st acc a out outside hrb hfit hw hs
    rw [locLines_cons] at hfit
    rw [locLines_cons, tag_append]
    have hrb' : RbOk rb rl.tail (dl + 1) := by
      intro k i
      have := hrb (k + 1) i
      rw [getD_tail, ← this]
      congr 1; omega
    have hfit' : ∀ sg ∈ locLines lines (dl + 1), segFits sg.bytes = true :=
      fun sg h => hfit sg (List.mem_append_right _ h)
    by_cases he : line = []
    · rw [decodeLines, if_pos he]
      subst he
      have hnil : locSegs (splitOn COMMA []) 0 dl = [] := by
        simp [splitOn, locSegs_cons, locSegs_nil]
      rw [hnil, tag_nil, List.nil_append]
      have hs' : outside = false → LStrong a st (dl + 1) ∧ acc = out := by
        intro h
        obtain ⟨⟨h1, h2, h3⟩, h4⟩ := hs h
        exact ⟨⟨h1, h2, by omega⟩, h4⟩
      rcases ih rl.tail (dl + 1) st acc a out outside hrb' hfit' hw hs' with
        ⟨herr, hf | ⟨k, ln, h1, h2, h3⟩⟩ | hok
      · exact Or.inl ⟨herr, Or.inl hf⟩
      · refine Or.inl ⟨herr, Or.inr ⟨k + 1, ln, by simpa using h1, h2, ?_⟩⟩
        rw [← getD_tail]; exact h3
      · exact Or.inr hok
    · rw [decodeLines, if_neg he]
      cases hr : decodeRmi (rl.headD []) with
      | none =>
        refine Or.inl ⟨isErr_error _, Or.inr ⟨0, line, by simp, he, ?_⟩⟩
        rw [← headD_eq_getD]; exact hr
      | some bits =>
        simp only
        have hrb0 : ∀ i, rb dl i = bits.getD i false := by
          intro i
          have := hrb 0 i
          rw [← headD_eq_getD, hr] at this
          simpa using this
        have hfit0 : ∀ sg ∈ locSegs (splitOn COMMA line) 0 dl, segFits sg.bytes = true :=
          fun sg h => hfit sg (List.mem_append_left _ h)
        have hs0 : outside = false → Strong a st dl 0 ∧ acc = out := by
          intro h
          obtain ⟨⟨h1, h2, h3⟩, h4⟩ := hs h
          refine ⟨⟨?_, h1, h2, by omega⟩, h4⟩
          by_cases hl : dl = a.line
          · rw [if_pos hl]
            rcases h3 with h3 | h3
            · omega
            · rw [h3]; rfl
          · rw [if_neg hl]; rfl
        rcases sim_segs nsrc nn dl bits rb hrb0 (splitOn COMMA line) 0 0 st acc a out outside hfit0 hw hs0 with
          ⟨⟨e, herr⟩, hfault⟩ | ⟨st', acc', a', out', outside', dc', hok, hacc, hw', hs'⟩
        · rw [herr]
          exact Or.inl ⟨isErr_error _, Or.inl (hfault _)⟩
        · rw [hok, hacc]
          simp only
          have hs'' : outside' = false → LStrong a' st' (dl + 1) ∧ acc' = out' := by
            intro h
            obtain ⟨⟨_, h1, h2, h3⟩, h4⟩ := hs' h
            exact ⟨⟨h1, h2, by omega⟩, h4⟩
          rcases ih rl.tail (dl + 1) st' acc' a' out' outside' hrb' hfit' hw' hs'' with
            ⟨herr, hf | ⟨k, ln, h1, h2, h3⟩⟩ | hok
          · exact Or.inl ⟨herr, Or.inl hf⟩
          · refine Or.inl ⟨herr, Or.inr ⟨k + 1, ln, by simpa using h1, h2, ?_⟩⟩
            rw [← getD_tail]; exact h3
          · exact Or.inr hok

/-- the two readings of a whole `mappings` string, when every value fits -/
theorem sim_mappings (m rmi : List Nat) (nsrc nn : Nat)
    (hfit : ∀ sg ∈ segments m, segFits sg.bytes = true) :
    (IsErr (decodeMappings m rmi nsrc nn) ∧
       (accumulate nsrc nn (rangeBit rmi) (tag (segments m)) {} [] false = .fault ∨
        ∃ k ln, (splitOn SEMI m)[k]? = some ln ∧ ln ≠ [] ∧
          decodeRmi ((splitOn SEMI rmi).getD k []) = none)) ∨
    (∃ ts, decodeMappings m rmi nsrc nn = .ok ts ∧
       (accumulate nsrc nn (rangeBit rmi) (tag (segments m)) {} [] false = .outside ∨
        accumulate nsrc nn (rangeBit rmi) (tag (segments m)) {} [] false = .toks ts)) := by
  rw [segments_eq] at hfit ⊢
  refine sim_lines nsrc nn (rangeBit rmi) (splitOn SEMI m) (splitOn SEMI rmi) 0 {} [] {} [] false
    ?_ hfit ⟨rfl, rfl⟩ (fun _ => ⟨⟨rfl, rfl, Or.inr rfl⟩, rfl⟩)
  intro k i
  rw [Nat.zero_add]
  rfl

theorem specDecode_fit {m rmi : List Nat} {nsrc nn : Nat} (h : specDecode m rmi nsrc nn ≠ .outside) :
    (∀ sg ∈ segments m, segFits sg.bytes = true) ∧
    specDecode m rmi nsrc nn = accumulate nsrc nn (rangeBit rmi) (tag (segments m)) {} [] false := by
  unfold specDecode at h ⊢
  by_cases ha : (segments m).any (fun s => !segFits s.bytes) = true
  · simp only [ha, ↓reduceIte] at h
    exact absurd rfl h
  · simp only [ha]
    refine ⟨?_, rfl⟩
    intro sg hsg
    simp only [List.any_eq_true, Bool.not_eq_true', not_exists, not_and, Bool.not_eq_false] at ha
    exact ha sg hsg

end SmVerif.Decode
