import SmVerif.Proofs.ConcInv
/-
C16: a measure that every step of every thread strictly decreases (in states satisfying the
invariant), so every run is finite whatever the schedule: the indexing loop is paid for by the
distance of `processed` from `len + 1`, everything else by a per-thread count of the steps left.
-/
namespace SmVerif.SVC
open SmVerif SmVerif.SV

def phCost : Ph → Nat
  | .start => 3 | .fin => 2 | .finGet => 1 | .acq => 1 | .loop => 0

/-- steps still owed after the current `get_line` returns (`M` bounds the number of `get_line`s of one
`lines()` call) -/
def afterCost (M idx : Nat) : Ctx → Nat
  | .plain => 0
  | .count => 1
  | .all _ => 3 * (M - idx)

def callCost (M : Nat) : Call → Nat
  | .g _ => 3
  | .c => 4
  | .a => 3 + 3 * M

def progCost (M : Nat) (p : List Call) : Nat := (p.map (callCost M)).sum

def thCost (M : Nat) (th : Th) : Nat :=
  match th.pc with
  | .idle => progCost M th.prog
  | .panicked => 0
  | .cnt => 1 + progCost M th.prog.tail
  | .gl ctx idx ph => phCost ph + afterCost M idx ctx + progCost M th.prog.tail

def measure (src : List Nat) (s : State) : Nat :=
  (src.length + 1 - s.sh.processed) + (s.threads.map (thCost (src.length + 2))).sum

theorem progCost_cons (M : Nat) (cl : Call) (rest : List Call) :
    progCost M (cl :: rest) = callCost M cl + progCost M rest := by
  simp [progCost]

theorem ctx_idx_lt {src : List Nat} {cl : Call} {ctx : Ctx} {idx : Nat} (h : CtxOk src cl ctx idx) :
    (∃ acc, ctx = .all acc) → idx < src.length + 2 := by
  intro ⟨acc, hacc⟩
  cases cl with
  | g i => obtain ⟨rfl, _⟩ := h; cases hacc
  | c => obtain ⟨rfl, _⟩ := h; cases hacc
  | a =>
    obtain ⟨_, _, _, hle⟩ := h
    have := splitLines_length_le src
    omega

theorem crash_cost (M : Nat) (th : Th) : thCost M th.crash = 0 := by
  simp [thCost, crash_pc]

theorem ret_cost {src : List Nat} {th : Th} {cl : Call} {rest : List Call} {ctx : Ctx} {idx : Nat}
    (r : Option (List Nat)) (hprog : th.prog = cl :: rest) (hctx : CtxOk src cl ctx idx) :
    thCost (src.length + 2) (th.ret ctx idx r)
      ≤ afterCost (src.length + 2) idx ctx + progCost (src.length + 2) rest := by
  have hlt := ctx_idx_lt hctx
  cases ctx with
  | plain => simp [Th.ret, finish_eq th _ _ _ hprog, thCost, afterCost]
  | count => simp [Th.ret, thCost, afterCost, hprog]
  | all acc =>
    have hlt' := hlt ⟨acc, rfl⟩
    cases r with
    | none => simp [Th.ret, finish_eq th _ _ _ hprog, thCost, afterCost]
    | some l =>
      simp only [Th.ret]
      split
      · rw [crash_cost]; exact Nat.zero_le _
      · simp only [thCost, phCost, afterCost, hprog, List.tail_cons]
        omega

/-- cost of a thread that is about to run the first critical section of `get_line(idx)` for `ctx` -/
theorem startStep_cost {src : List Nat} {sh sh' : Sh} {th th' : Th} {cl : Call} {rest : List Call}
    {ctx : Ctx} {idx : Nat} (hprog : th.prog = cl :: rest) (hctx : CtxOk src cl ctx idx)
    (h : startStep sh th ctx idx = some (sh', th')) :
    sh' = sh ∧ thCost (src.length + 2) th'
      < 3 + afterCost (src.length + 2) idx ctx + progCost (src.length + 2) rest := by
  unfold startStep at h
  split at h
  · cases h
  · split at h
    · simp only [Option.some.injEq, Prod.mk.injEq] at h
      obtain ⟨rfl, rfl⟩ := h
      rw [crash_cost]; exact ⟨rfl, by omega⟩
    · split at h
      · simp only [Option.some.injEq, Prod.mk.injEq] at h
        obtain ⟨rfl, rfl⟩ := h
        exact ⟨rfl, Nat.lt_of_le_of_lt (ret_cost _ hprog hctx) (by omega)⟩
      · simp only [Option.some.injEq, Prod.mk.injEq] at h
        obtain ⟨rfl, rfl⟩ := h
        refine ⟨rfl, ?_⟩
        simp only [thCost, phCost, hprog, List.tail_cons]
        omega

theorem tstep_measure {src : List Nat} {sh sh' : Sh} {me v : Nat} {th th' : Th}
    (hT : TInv src sh me th) (h : tstep true src sh me th v = some (sh', th')) :
    (src.length + 1 - sh'.processed) + thCost (src.length + 2) th'
      < (src.length + 1 - sh.processed) + thCost (src.length + 2) th := by
  have hpc := hT.pc
  unfold tstep at h
  cases hp : th.pc with
  | panicked => simp [hp] at h
  | idle =>
    simp only [hp] at h
    cases hprog : th.prog with
    | nil => simp [hprog] at h
    | cons cl rest =>
      have hc : thCost (src.length + 2) th = callCost (src.length + 2) cl + progCost (src.length + 2) rest := by
        simp [thCost, hp, hprog, progCost_cons]
      cases cl with
      | g i =>
        simp only [hprog] at h
        obtain ⟨rfl, hlt⟩ := startStep_cost (src := src) hprog (by simp [CtxOk]) h
        simp only [afterCost] at hlt; simp only [callCost] at hc; omega
      | c =>
        simp only [hprog] at h
        obtain ⟨rfl, hlt⟩ := startStep_cost (src := src) hprog (by simp [CtxOk]) h
        simp only [afterCost] at hlt; simp only [callCost] at hc; omega
      | a =>
        simp only [hprog] at h
        obtain ⟨rfl, hlt⟩ := startStep_cost (src := src) hprog
          (show CtxOk src .a (.all []) 0 from ⟨[], rfl, by simp, Nat.zero_le _⟩) h
        simp only [afterCost] at hlt; simp only [callCost] at hc; omega
  | cnt =>
    simp only [hp] at h
    simp only [hp, PcOk] at hpc
    obtain ⟨_, _, rest, hprog⟩ := hpc
    have hc : thCost (src.length + 2) th = 1 + progCost (src.length + 2) rest := by
      simp [thCost, hp, hprog]
    split at h
    · cases h
    · split at h
      · simp only [Option.some.injEq, Prod.mk.injEq] at h
        obtain ⟨rfl, rfl⟩ := h
        rw [crash_cost]; omega
      · simp only [Option.some.injEq, Prod.mk.injEq] at h
        obtain ⟨rfl, rfl⟩ := h
        have : thCost (src.length + 2) (th.finish (.count sh.lines.length)) = progCost (src.length + 2) rest := by
          simp [finish_eq th _ _ _ hprog, thCost]
        omega
  | gl ctx idx ph =>
    simp only [hp, PcOk] at hpc
    obtain ⟨hph, cl, rest, hprog, hctx⟩ := hpc
    have hc : thCost (src.length + 2) th
        = phCost ph + afterCost (src.length + 2) idx ctx + progCost (src.length + 2) rest := by
      simp [thCost, hp, hprog]
    rw [hc]
    cases ph with
    | start =>
      simp only [hp] at h
      obtain ⟨rfl, hlt⟩ := startStep_cost hprog hctx h
      simp only [phCost] at hc ⊢; omega
    | fin =>
      simp only [hp] at h
      split at h
      · split at h
        · simp only [↓reduceIte, Option.some.injEq, Prod.mk.injEq] at h
          obtain ⟨rfl, rfl⟩ := h
          simp only [thCost, phCost, hprog, List.tail_cons]; omega
        · simp only [Option.some.injEq, Prod.mk.injEq] at h
          obtain ⟨rfl, rfl⟩ := h
          simp only [thCost, phCost, hprog, List.tail_cons]; omega
      · cases h
    | finGet =>
      simp only [hp] at h
      simp only [phCost] at hc ⊢
      split at h
      · cases h
      · split at h
        · simp only [Option.some.injEq, Prod.mk.injEq] at h
          obtain ⟨rfl, rfl⟩ := h
          rw [crash_cost]; omega
        · simp only [Option.some.injEq, Prod.mk.injEq] at h
          obtain ⟨rfl, rfl⟩ := h
          have := ret_cost sh.lines[idx]? hprog hctx
          omega
    | acq =>
      simp only [hp] at h
      simp only [phCost] at hc ⊢
      split at h
      · cases h
      · split at h
        · simp only [Option.some.injEq, Prod.mk.injEq] at h
          obtain ⟨rfl, rfl⟩ := h
          rw [crash_cost]; omega
        · simp only [↓reduceIte] at h
          split at h
          · simp only [Option.some.injEq, Prod.mk.injEq] at h
            obtain ⟨rfl, rfl⟩ := h
            rename_i l _
            have := ret_cost (some l) hprog hctx
            omega
          · split at h
            · simp only [Option.some.injEq, Prod.mk.injEq] at h
              obtain ⟨rfl, rfl⟩ := h
              have := ret_cost none hprog hctx
              omega
            · simp only [Option.some.injEq, Prod.mk.injEq] at h
              obtain ⟨rfl, rfl⟩ := h
              simp only [thCost, phCost, hprog, List.tail_cons]; omega
    | loop =>
      simp only [hp] at h
      simp only [phCost] at hc ⊢
      simp only [PhOk] at hph
      obtain ⟨hlk, hle, _⟩ := hph
      have hadv := (scan_adv (src.drop sh.processed)).1
      have hngt : ¬ sh.processed > src.length := by omega
      simp only [hlk, ne_eq, not_true_eq_false, ↓reduceIte, hngt] at h
      split at h
      · simp only [Option.some.injEq, Prod.mk.injEq] at h
        obtain ⟨rfl, rfl⟩ := h
        rename_i l _
        have := ret_cost (some l) hprog hctx
        simp only; omega
      · split at h
        · simp only [Option.some.injEq, Prod.mk.injEq] at h
          obtain ⟨rfl, rfl⟩ := h
          have := ret_cost none hprog hctx
          simp only; omega
        · simp only [Option.some.injEq, Prod.mk.injEq] at h
          obtain ⟨rfl, rfl⟩ := h
          simp only; omega

theorem sum_map_set {α : Type} (f : α → Nat) : ∀ (l : List α) (t : Nat) (x : α) (h : t < l.length),
    ((l.set t x).map f).sum + f l[t] = (l.map f).sum + f x := by
  intro l
  induction l with
  | nil => intro t x h; simp at h
  | cons a l ih =>
    intro t x h
    cases t with
    | zero => simp; omega
    | succ t =>
      have := ih t x (by simpa using h)
      simp only [List.set_cons_succ, List.map_cons, List.sum_cons, List.getElem_cons_succ]
      omega

theorem step_measure {src : List Nat} {progs : List (List Call)} {s s' : State} {t v : Nat}
    (hI : Inv src progs s) (h : step? true src s t v = some s') : measure src s' < measure src s := by
  unfold step? at h
  cases hth : s.threads[t]? with
  | none => simp [hth] at h
  | some th =>
    simp only [hth] at h
    cases hts : tstep true src s.sh t th v with
    | none => simp [hts] at h
    | some r =>
      obtain ⟨sh', th'⟩ := r
      simp only [hts, Option.some.injEq] at h
      subst h
      have htlt : t < s.threads.length := by
        rcases Nat.lt_or_ge t s.threads.length with h' | h'
        · exact h'
        · rw [List.getElem?_eq_none h'] at hth; cases hth
      have hget : s.threads[t] = th := by
        have := List.getElem?_eq_getElem htlt
        rw [hth] at this; exact (Option.some.inj this).symm
      have hm := tstep_measure (hI.th t th hth) hts
      have hsum := sum_map_set (thCost (src.length + 2)) s.threads t th' htlt
      rw [hget] at hsum
      simp only [measure]
      omega

/-- `n` steps (of any threads, with any values for the relaxed loads) lead from `s` to `s'` -/
inductive Run (src : List Nat) : State → Nat → State → Prop
  | refl (s : State) : Run src s 0 s
  | step {s s' s'' : State} {n t v : Nat} :
      step? true src s t v = some s' → Run src s' n s'' → Run src s (n + 1) s''

theorem run_bounded {src : List Nat} {progs : List (List Call)} (hfit : Fits src) {s s' : State} {n : Nat}
    (hI : Inv src progs s) (hr : Run src s n s') : n + measure src s' ≤ measure src s := by
  induction hr with
  | refl s => omega
  | step hstep _ ih =>
    have h1 := step_measure hI hstep
    have h2 := ih (step_inv hfit hI hstep)
    omega

end SmVerif.SVC
