import SmVerif.Model.V3Spec
import SmVerif.Props.C11
/-
Layers A, B, D of the C01 round trip: text of one segment, splitting, one decoder step.
-/
namespace SmVerif.RoundTrip
open SmVerif SmVerif.Vlq SmVerif.Mappings SmVerif.V3

/-! ### splitting -/

theorem splitOn_ne_nil (sep : Nat) : ∀ l : List Nat, splitOn sep l ≠ [] := by
  intro l
  induction l with
  | nil => simp [splitOn]
  | cons c cs ih =>
    rw [splitOn]
    split
    · simp
    · split <;> simp

theorem splitOn_eq_cons (sep : Nat) (l : List Nat) :
    splitOn sep l = (splitOn sep l).headD [] :: (splitOn sep l).tail := by
  have := splitOn_ne_nil sep l
  cases h : splitOn sep l with
  | nil => exact absurd h this
  | cons a b => rfl

theorem splitOn_sep_cons (sep : Nat) (b : List Nat) : splitOn sep (sep :: b) = [] :: splitOn sep b := by
  rw [splitOn]; simp

theorem splitOn_cons_ne (sep c : Nat) (b : List Nat) (h : c ≠ sep) :
    splitOn sep (c :: b) = (c :: (splitOn sep b).headD []) :: (splitOn sep b).tail := by
  rw [splitOn]
  simp only [h, ↓reduceIte]
  have := splitOn_ne_nil sep b
  cases hb : splitOn sep b with
  | nil => exact absurd hb this
  | cons a b => rfl

theorem splitOn_append (sep : Nat) (a b : List Nat) (h : sep ∉ a) :
    splitOn sep (a ++ b) = (a ++ (splitOn sep b).headD []) :: (splitOn sep b).tail := by
  induction a with
  | nil => simpa using splitOn_eq_cons sep b
  | cons c a ih =>
    have hc : c ≠ sep := by intro hh; apply h; simp [hh]
    have ha : sep ∉ a := by intro hh; apply h; simp [hh]
    rw [List.cons_append, splitOn_cons_ne _ _ _ hc, ih ha]
    simp

theorem splitOn_nosep (sep : Nat) (a : List Nat) (h : sep ∉ a) : splitOn sep a = [a] := by
  have := splitOn_append sep a [] h
  simpa [splitOn] using this

theorem splitOn_replicate (sep : Nat) (k : Nat) (b : List Nat) :
    splitOn sep (List.replicate k sep ++ b) = List.replicate k [] ++ splitOn sep b := by
  induction k with
  | zero => simp
  | succ k ih =>
    rw [List.replicate_succ, List.cons_append, splitOn_sep_cons, ih]
    simp [List.replicate_succ]

/-! ### text of one value -/

theorem b64Char_ne_sep : ∀ d, d < 64 → b64Char d ≠ 44 ∧ b64Char d ≠ 59 := by
  decide +kernel

theorem encDigits_ne_nil (n : Nat) : encDigits n ≠ [] := by
  rw [encDigits]; split <;> simp

theorem vlqDiff_eq (a b : Nat) (ha : a < U32) (hb : b < U32) :
    vlqDiff a b = (encDigits (zig ((a : Int) - (b : Int)))).map b64Char := by
  unfold vlqDiff
  unfold U32 at ha hb
  rw [encodeVlq_of_zig _ (by omega) (by omega)]

theorem parseVlq_segDigits (xs : List Int) (hne : xs ≠ [])
    (hb : ∀ x ∈ xs, -4611686018427387904 < x ∧ x < 4611686018427387904) :
    parseVlq ((segDigits xs).map b64Char) = .ok xs := by
  have := C11.c11_roundtrip xs hne hb
  unfold C11.roundtrip at this
  rw [encodeSeg_ok xs hb] at this
  exact this

theorem segDigits_ne_nil (xs : List Int) (hne : xs ≠ []) : segDigits xs ≠ [] := by
  cases xs with
  | nil => exact absurd rfl hne
  | cons x xs =>
    have := encDigits_ne_nil (zig x)
    simp [segDigits, this]

theorem segText_nosep (xs : List Int) :
    COMMA ∉ (segDigits xs).map b64Char ∧ SEMI ∉ (segDigits xs).map b64Char := by
  constructor
  · intro h
    simp only [List.mem_map] at h
    obtain ⟨d, hd, he⟩ := h
    exact (b64Char_ne_sep d (segDigits_lt xs d hd)).1 he
  · intro h
    simp only [List.mem_map] at h
    obtain ⟨d, hd, he⟩ := h
    exact (b64Char_ne_sep d (segDigits_lt xs d hd)).2 he

theorem wrapU32_add_sub (a b : Nat) (hb : b < U32) :
    wrapU32 ((a : Int) + ((b : Int) - (a : Int))) = b := by
  unfold wrapU32
  unfold U32 at hb
  omega

/-! ### one token -/

def dstOf (st : EState) : DState := { src := st.src, sl := st.sl, sc := st.sc, name := st.name }

def EBound (st : EState) : Prop :=
  st.col < U32 ∧ st.sl < U32 ∧ st.sc < U32 ∧ st.name < U32 ∧ st.src < U32

/-- the integer fields written for `t` in state `st` -/
def tokDiffs (nn : Nat) (t : Tok) (st : EState) : List Int :=
  if t.src = NONE then [(t.dc : Int) - st.col]
  else if t.name ≠ NONE ∧ t.name < nn then
    [(t.dc : Int) - st.col, (t.src : Int) - st.src, (t.sl : Int) - st.sl, (t.sc : Int) - st.sc, (t.name : Int) - st.name]
  else [(t.dc : Int) - st.col, (t.src : Int) - st.src, (t.sl : Int) - st.sl, (t.sc : Int) - st.sc]

/-- encoder state after `t` -/
def tokState (nn : Nat) (t : Tok) (st : EState) : EState :=
  if t.src = NONE then { st with col := t.dc }
  else if t.name ≠ NONE ∧ t.name < nn then
    { st with col := t.dc, src := t.src, sl := t.sl, sc := t.sc, name := t.name }
  else { st with col := t.dc, src := t.src, sl := t.sl, sc := t.sc }

theorem wfTok_iff (nsrc : Nat) (t : Tok) : wfTok nsrc t = true ↔
    t.dl < U32 ∧ t.dc < U32 ∧ t.sl < U32 ∧ t.sc < U32 ∧ t.src < U32 ∧ t.name < U32 ∧
      (t.src = NONE ∨ t.src < nsrc) := by
  simp [wfTok, and_assoc]

theorem encodeTok_eq (nsrc nn : Nat) (t : Tok) (st : EState) (hwf : wfTok nsrc t = true) (hb : EBound st) :
    encodeTok nn t st = ((segDigits (tokDiffs nn t st)).map b64Char, tokState nn t st) := by
  rw [wfTok_iff] at hwf
  obtain ⟨_, h1, h2, h3, h4, h5, _⟩ := hwf
  obtain ⟨b1, b2, b3, b4, b5⟩ := hb
  unfold encodeTok tokDiffs tokState hasSource hasName
  by_cases hs : t.src = NONE
  · simp [hs, vlqDiff_eq _ _ h1 b1, segDigits]
  · by_cases hn : t.name ≠ NONE ∧ t.name < nn
    · simp [hs, hn.1, hn.2, vlqDiff_eq _ _ h1 b1, vlqDiff_eq _ _ h2 b2, vlqDiff_eq _ _ h3 b3,
        vlqDiff_eq _ _ h4 b5, vlqDiff_eq _ _ h5 b4, segDigits]
    · have hn' : (t.name ≠ NONE && decide (t.name < nn)) = false := by
        simp only [ne_eq, not_and, Nat.not_lt] at hn
        by_cases h : t.name = NONE
        · simp [h]
        · simp [h]; exact hn h
      simp [hs, hn, vlqDiff_eq _ _ h1 b1, vlqDiff_eq _ _ h2 b2, vlqDiff_eq _ _ h3 b3,
        vlqDiff_eq _ _ h4 b5, segDigits]


theorem wrapU32_nat (b : Nat) (hb : b < U32) : wrapU32 (b : Int) = b := by
  unfold wrapU32
  unfold U32 at hb
  omega

theorem int_add_sub (a b : Nat) : (a : Int) + ((b : Int) - (a : Int)) = (b : Int) := by omega

theorem decodeSeg_tok (nsrc nn : Nat) (t : Tok) (st : EState) (bits : List Bool) (i : Nat)
    (hwf : wfTok nsrc t = true) :
    decodeSeg nsrc nn t.dl bits i st.col (dstOf st) (tokDiffs nn t st) =
      .ok ({ normTok nn t with rng := bits.getD i false }, t.dc, dstOf (tokState nn t st)) := by
  rw [wfTok_iff] at hwf
  obtain ⟨_, h1, h2, h3, h4, h5, h6⟩ := hwf
  unfold tokDiffs tokState normTok
  by_cases hs : t.src = NONE
  · simp only [hs, ↓reduceIte, decodeSeg, int_add_sub, wrapU32_nat _ h1]
    rfl
  · have hlt : t.src < nsrc := by cases h6 with
      | inl h => exact absurd h hs
      | inr h => exact h
    have hc : ¬ ((t.src : Int) < 0 ∨ (t.src : Int) ≥ (nsrc : Int)) := by omega
    by_cases hn : t.name ≠ NONE ∧ t.name < nn
    · have hc2 : ¬ ((t.name : Int) < 0 ∨ (t.name : Int) ≥ (nn : Int)) := by omega
      simp only [hs, hn, ↓reduceIte, decodeSeg, dstOf, int_add_sub, wrapU32_nat _ h1,
        wrapU32_nat _ h2, wrapU32_nat _ h3, hc, hc2, Int.toNat_natCast, and_self,
        ne_eq, not_false_eq_true]
    · simp only [hs, hn, ↓reduceIte, decodeSeg, dstOf, int_add_sub, wrapU32_nat _ h1,
        wrapU32_nat _ h2, wrapU32_nat _ h3, hc, Int.toNat_natCast]

theorem tokDiffs_ne_nil (nn : Nat) (t : Tok) (st : EState) : tokDiffs nn t st ≠ [] := by
  unfold tokDiffs; split
  · simp
  · split <;> simp

theorem tokDiffs_bound (nsrc nn : Nat) (t : Tok) (st : EState) (hwf : wfTok nsrc t = true) (hb : EBound st) :
    ∀ x ∈ tokDiffs nn t st, -4611686018427387904 < x ∧ x < 4611686018427387904 := by
  rw [wfTok_iff] at hwf
  obtain ⟨_, h1, h2, h3, h4, h5, _⟩ := hwf
  obtain ⟨b1, b2, b3, b4, b5⟩ := hb
  unfold U32 at *
  intro x hx
  unfold tokDiffs at hx
  split at hx
  · simp at hx; omega
  · split at hx
    · simp at hx; omega
    · simp at hx; omega

/-- the bytes written for `t` -/
def tokText (nn : Nat) (t : Tok) (st : EState) : List Nat := (segDigits (tokDiffs nn t st)).map b64Char

theorem tokText_ne_nil (nn : Nat) (t : Tok) (st : EState) : tokText nn t st ≠ [] := by
  unfold tokText
  simp only [ne_eq, List.map_eq_nil_iff]
  exact segDigits_ne_nil _ (tokDiffs_ne_nil nn t st)

theorem tokText_nocomma (nn : Nat) (t : Tok) (st : EState) : COMMA ∉ tokText nn t st :=
  (segText_nosep _).1
theorem tokText_nosemi (nn : Nat) (t : Tok) (st : EState) : SEMI ∉ tokText nn t st :=
  (segText_nosep _).2

theorem tokState_line (nn : Nat) (t : Tok) (st : EState) : (tokState nn t st).line = st.line := by
  unfold tokState; split
  · rfl
  · split <;> rfl

theorem tokState_col (nn : Nat) (t : Tok) (st : EState) : (tokState nn t st).col = t.dc := by
  unfold tokState; split
  · rfl
  · split <;> rfl

theorem tokState_bound (nsrc nn : Nat) (t : Tok) (st : EState) (hwf : wfTok nsrc t = true) (hb : EBound st) :
    EBound (tokState nn t st) := by
  rw [wfTok_iff] at hwf
  obtain ⟨_, h1, h2, h3, h4, h5, _⟩ := hwf
  obtain ⟨b1, b2, b3, b4, b5⟩ := hb
  unfold tokState; split
  · exact ⟨h1, b2, b3, b4, b5⟩
  · split
    · exact ⟨h1, h2, h3, h5, h4⟩
    · exact ⟨h1, h2, h3, b4, h4⟩

/-- one decoder step over the segment written for `t` -/
theorem decodeSegs_step (nsrc nn : Nat) (t : Tok) (st : EState) (bits : List Bool)
    (rest : List (List Nat)) (i : Nat) (acc : List Tok)
    (hwf : wfTok nsrc t = true) (hb : EBound st) :
    decodeSegs nsrc nn t.dl bits (tokText nn t st :: rest) i st.col (dstOf st) acc =
      decodeSegs nsrc nn t.dl bits rest (i + 1) t.dc (dstOf (tokState nn t st))
        ({ normTok nn t with rng := bits.getD i false } :: acc) := by
  rw [decodeSegs]
  simp only [tokText_ne_nil, ↓reduceIte]
  unfold tokText
  rw [parseVlq_segDigits _ (tokDiffs_ne_nil nn t st) (tokDiffs_bound nsrc nn t st hwf hb)]
  simp only [decodeSeg_tok nsrc nn t st bits i hwf]

end SmVerif.RoundTrip
