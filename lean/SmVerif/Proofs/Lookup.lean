import SmVerif.Model.Lookup
/-
Helper lemmas for C04: the order on positions, the bisection (`bsearchLoop`/`bsearch`),
`walkBack`, and the characterisation of `glb` on sorted keys.
-/
namespace SmVerif.Lookup
open SmVerif

/-! ### the order on positions -/

theorem posLe_iff (a b : Pos) : posLe a b = true ↔ a.1 < b.1 ∨ (a.1 = b.1 ∧ a.2 ≤ b.2) := by
  simp [posLe]

theorem posLt_iff (a b : Pos) : posLt a b = true ↔ a.1 < b.1 ∨ (a.1 = b.1 ∧ a.2 < b.2) := by
  simp [posLt]

theorem posLe_false_iff (a b : Pos) : posLe a b = false ↔ posLt b a = true := by
  rw [← Bool.not_eq_true, posLe_iff, posLt_iff]; omega

theorem posLt_false_iff (a b : Pos) : posLt a b = false ↔ posLe b a = true := by
  rw [← Bool.not_eq_true, posLe_iff, posLt_iff]; omega

theorem posLe_refl (a : Pos) : posLe a a = true := by
  rw [posLe_iff]; omega

theorem posLe_trans {a b c : Pos} (h1 : posLe a b = true) (h2 : posLe b c = true) :
    posLe a c = true := by
  rw [posLe_iff] at *; omega

theorem posLe_total (a b : Pos) : posLe a b = true ∨ posLe b a = true := by
  rw [posLe_iff, posLe_iff]; omega

theorem posLe_antisymm {a b : Pos} (h1 : posLe a b = true) (h2 : posLe b a = true) : a = b := by
  rw [posLe_iff] at *
  apply Prod.ext <;> omega

theorem posLt_of_lt_of_le {a b c : Pos} (h1 : posLt a b = true) (h2 : posLe b c = true) :
    posLt a c = true := by
  rw [posLe_iff] at *; rw [posLt_iff] at *; omega

theorem posLt_irrefl_le {a b : Pos} (h1 : posLt a b = true) (h2 : posLe b a = true) : False := by
  rw [posLe_iff] at *; rw [posLt_iff] at *; omega

theorem posLe_of_eq {a b : Pos} (h : a = b) : posLe a b = true := h ▸ posLe_refl a

/-! ### sorted key lists, index form -/

/-- index form of sortedness, on the total accessor used by the model -/
def SortedK (keys : List Pos) : Prop :=
  ∀ i j, i ≤ j → j < keys.length → posLe (keys.getD i (0, 0)) (keys.getD j (0, 0)) = true

theorem sortedK_of_pairwise {keys : List Pos}
    (h : keys.Pairwise (fun a b => posLe a b = true)) : SortedK keys := by
  intro i j hij hj
  rcases Nat.lt_or_eq_of_le hij with hlt | heq
  · have hi : i < keys.length := by omega
    have := (List.pairwise_iff_getElem.mp h) i j hi hj hlt
    simpa [List.getD_eq_getElem?_getD, List.getElem?_eq_getElem hi, List.getElem?_eq_getElem hj]
      using this
  · subst heq; exact posLe_refl _

/-! ### the bisection -/

theorem bsearchLoop_spec (keys : List Pos) (q : Pos) (hs : SortedK keys) :
    ∀ fuel size base, 1 ≤ size → size ≤ fuel → base + size ≤ keys.length →
      (base = 0 ∨ posLe (keys.getD base (0, 0)) q = true) →
      (∀ i, base + size ≤ i → i < keys.length → posLt q (keys.getD i (0, 0)) = true) →
      bsearchLoop keys q fuel size base < keys.length ∧
      (bsearchLoop keys q fuel size base = 0 ∨
        posLe (keys.getD (bsearchLoop keys q fuel size base) (0, 0)) q = true) ∧
      ∀ i, bsearchLoop keys q fuel size base < i → i < keys.length →
        posLt q (keys.getD i (0, 0)) = true := by
  intro fuel
  induction fuel with
  | zero => intro size base h1 h2; omega
  | succ fuel ih =>
    intro size base h1 h2 h3 h4 h5
    rw [bsearchLoop]
    by_cases hsz : size ≤ 1
    · simp only [hsz, ↓reduceIte]
      have : size = 1 := by omega
      subst this
      exact ⟨by omega, h4, fun i hi hl => h5 i (by omega) hl⟩
    · simp only [hsz, ↓reduceIte]
      have hhalf : 1 ≤ size / 2 := by omega
      have hhalf2 : size / 2 + size / 2 ≤ size := by omega
      by_cases hlt : posLt q (keys.getD (base + size / 2) (0, 0)) = true
      · simp only [hlt, ↓reduceIte]
        apply ih (size - size / 2) base (by omega) (by omega) (by omega) h4
        intro i hi hl
        exact posLt_of_lt_of_le hlt (hs (base + size / 2) i (by omega) hl)
      · simp only [hlt]
        have hle : posLe (keys.getD (base + size / 2) (0, 0)) q = true := by
          rw [← posLt_false_iff]; simpa using hlt
        apply ih (size - size / 2) (base + size / 2) (by omega) (by omega) (by omega) (Or.inr hle)
        intro i hi hl
        exact h5 i (by omega) hl

/-- what `bsearch` returns on a non-empty sorted list -/
theorem bsearch_spec (keys : List Pos) (q : Pos) (hs : SortedK keys) (hne : keys.length ≠ 0) :
    ∃ b, b < keys.length ∧
      (b = 0 ∨ posLe (keys.getD b (0, 0)) q = true) ∧
      (∀ i, b < i → i < keys.length → posLt q (keys.getD i (0, 0)) = true) ∧
      bsearch keys q =
        (if keys.getD b (0, 0) = q then (true, b)
         else (false, b + (if posLt (keys.getD b (0, 0)) q then 1 else 0))) := by
  refine ⟨bsearchLoop keys q keys.length keys.length 0, ?_⟩
  have := bsearchLoop_spec keys q hs keys.length keys.length 0 (by omega) (by omega) (by omega)
    (Or.inl rfl) (fun i hi hl => by omega)
  refine ⟨this.1, this.2.1, this.2.2, ?_⟩
  simp only [bsearch, hne, ↓reduceIte]

/-! ### walking back over equal keys -/

theorem walkBack_spec (keys : List Pos) (q : Pos) :
    ∀ idx, walkBack keys q idx ≤ idx ∧
      (∀ i, walkBack keys q idx ≤ i → i < idx → keys.getD i (0, 0) = q) ∧
      (walkBack keys q idx = 0 ∨ keys.getD (walkBack keys q idx - 1) (0, 0) ≠ q) := by
  intro idx
  induction idx with
  | zero => simp [walkBack]
  | succ n ih =>
    rw [walkBack]
    by_cases hk : keys.getD n (0, 0) = q
    · simp only [hk, ↓reduceIte]
      refine ⟨by omega, ?_, ih.2.2⟩
      intro i hi hl
      by_cases hin : i = n
      · subst hin; exact hk
      · exact ih.2.1 i hi (by omega)
    · simp only [hk, ↓reduceIte]
      refine ⟨by omega, fun i hi hl => by omega, Or.inr ?_⟩
      simpa using hk

/-! ### `glb` on sorted keys -/

theorem glb_some (keys : List Pos) (q : Pos) (hs : SortedK keys) (i : Nat)
    (hg : glb keys q = some i) :
    i < keys.length ∧ posLe (keys.getD i (0, 0)) q = true ∧
      (∀ j, j < keys.length → posLe (keys.getD j (0, 0)) q = true →
        posLe (keys.getD j (0, 0)) (keys.getD i (0, 0)) = true) ∧
      (keys.getD i (0, 0) = q → ∀ j, j < i → keys.getD j (0, 0) ≠ q) := by
  by_cases hne : keys.length = 0
  · simp [glb, bsearch, hne] at hg
  · obtain ⟨b, hb, hb0, hgt, hbs⟩ := bsearch_spec keys q hs hne
    -- every index with key ≤ q is ≤ b
    have hle_b : ∀ j, j < keys.length → posLe (keys.getD j (0, 0)) q = true → j ≤ b := by
      intro j hj hjq
      by_cases hjb : j ≤ b
      · exact hjb
      · exact (posLt_irrefl_le (hgt j (by omega) hj) hjq).elim
    unfold glb at hg
    rw [hbs] at hg
    by_cases hk : keys.getD b (0, 0) = q
    · simp only [hk, ↓reduceIte, Option.some.injEq] at hg
      obtain ⟨hw1, hw2, hw3⟩ := walkBack_spec keys q b
      rw [hg] at hw1 hw2 hw3
      have hki : keys.getD i (0, 0) = q := by
        by_cases hib : i = b
        · rw [hib]; exact hk
        · exact hw2 i (Nat.le_refl _) (by omega)
      refine ⟨by omega, posLe_of_eq hki, ?_, ?_⟩
      · intro j hj hjq
        rw [hki]; exact hjq
      · intro _ j hji hjq
        rcases hw3 with h0 | hprev
        · omega
        · apply hprev
          have h1 : posLe (keys.getD j (0, 0)) (keys.getD (i - 1) (0, 0)) = true :=
            hs j (i - 1) (by omega) (by omega)
          have h2 : posLe (keys.getD (i - 1) (0, 0)) (keys.getD i (0, 0)) = true :=
            hs (i - 1) i (by omega) (by omega)
          rw [hjq] at h1; rw [hki] at h2
          exact posLe_antisymm h2 h1
    · simp only [hk, ↓reduceIte] at hg
      by_cases hlt : posLt (keys.getD b (0, 0)) q = true
      · simp only [hlt, ↓reduceIte] at hg
        have hib : i = b := by
          simp at hg; omega
        subst hib
        have hle : posLe (keys.getD i (0, 0)) q = true := by
          rcases posLe_total (keys.getD i (0, 0)) q with h | h
          · exact h
          · exact (posLt_irrefl_le hlt h).elim
        refine ⟨hb, hle, ?_, fun h => (hk h).elim⟩
        intro j hj hjq
        exact hs j i (hle_b j hj hjq) hb
      · simp only [hlt] at hg
        have hnle : ¬ posLe (keys.getD b (0, 0)) q = true := by
          intro hle
          have hge : posLe q (keys.getD b (0, 0)) = true := by
            rw [← posLt_false_iff]; simpa using hlt
          exact hk (posLe_antisymm hle hge)
        have hb00 : b = 0 := by
          rcases hb0 with h | h
          · exact h
          · exact (hnle h).elim
        subst hb00
        simp at hg

theorem glb_none (keys : List Pos) (q : Pos) (hs : SortedK keys) (hg : glb keys q = none) :
    ∀ j, j < keys.length → posLe (keys.getD j (0, 0)) q = false := by
  intro j hj
  have hne : keys.length ≠ 0 := by omega
  obtain ⟨b, hb, hb0, hgt, hbs⟩ := bsearch_spec keys q hs hne
  unfold glb at hg
  rw [hbs] at hg
  by_cases hk : keys.getD b (0, 0) = q
  · rw [if_pos hk] at hg; simp at hg
  · rw [if_neg hk] at hg
    by_cases hlt : posLt (keys.getD b (0, 0)) q = true
    · rw [if_pos hlt] at hg; simp at hg
    · have hge : posLe q (keys.getD b (0, 0)) = true := by
        rw [← posLt_false_iff]; simpa using hlt
      have hnle : ¬ posLe (keys.getD b (0, 0)) q = true :=
        fun hle => hk (posLe_antisymm hle hge)
      have hb00 : b = 0 := by
        rcases hb0 with h | h
        · exact h
        · exact (hnle h).elim
      subst hb00
      by_cases hj0 : j = 0
      · subst hj0; simpa using hnle
      · rw [posLe_false_iff]; exact hgt j (by omega) hj

theorem glb_none_iff (keys : List Pos) (q : Pos) (hs : SortedK keys) :
    glb keys q = none ↔ ∀ j, j < keys.length → posLe (keys.getD j (0, 0)) q = false := by
  constructor
  · exact glb_none keys q hs
  · intro h
    cases hg : glb keys q with
    | none => rfl
    | some i =>
      obtain ⟨hi, hle, _⟩ := glb_some keys q hs i hg
      rw [h i hi] at hle
      exact absurd hle (by simp)

/-! ### token level -/

/-- tokens ordered by generated position -/
def SortedT (ts : List Tok) : Prop :=
  List.Pairwise (fun a b => posLe (Tok.pos a) (Tok.pos b) = true) ts

theorem sortedK_map {ts : List Tok} (h : SortedT ts) : SortedK (ts.map Tok.pos) :=
  sortedK_of_pairwise (List.pairwise_map.mpr h)

theorem getD_map_pos (ts : List Tok) (i : Nat) (hi : i < ts.length) :
    (ts.map Tok.pos).getD i (0, 0) = Tok.pos ts[i] := by
  simp [List.getD_eq_getElem?_getD, hi]

theorem glb_tok_some (ts : List Tok) (q : Pos) (h : SortedT ts) (i : Nat)
    (hg : glb (ts.map Tok.pos) q = some i) :
    ∃ hi : i < ts.length, posLe (Tok.pos ts[i]) q = true ∧
      (∀ u ∈ ts, posLe (Tok.pos u) q = true → posLe (Tok.pos u) (Tok.pos ts[i]) = true) ∧
      (Tok.pos ts[i] = q → ∀ j (hj : j < i), Tok.pos (ts[j]'(by omega)) ≠ q) := by
  obtain ⟨hi, hle, hmax, hfirst⟩ := glb_some (ts.map Tok.pos) q (sortedK_map h) i hg
  rw [List.length_map] at hi
  rw [getD_map_pos ts i hi] at hle hfirst hmax
  refine ⟨hi, hle, ?_, ?_⟩
  · intro u hu huq
    obtain ⟨j, hj, rfl⟩ := List.getElem_of_mem hu
    have := hmax j (by rw [List.length_map]; exact hj)
    rw [getD_map_pos ts j hj] at this
    exact this huq
  · intro hq j hj
    have := hfirst hq j hj
    rw [getD_map_pos ts j (by omega)] at this
    exact this

theorem glb_tok_none_iff (ts : List Tok) (q : Pos) (h : SortedT ts) :
    glb (ts.map Tok.pos) q = none ↔ ∀ t ∈ ts, posLe (Tok.pos t) q = false := by
  rw [glb_none_iff _ _ (sortedK_map h)]
  constructor
  · intro hall t ht
    obtain ⟨j, hj, rfl⟩ := List.getElem_of_mem ht
    have := hall j (by rw [List.length_map]; exact hj)
    rw [getD_map_pos ts j hj] at this
    exact this
  · intro hall j hj
    rw [List.length_map] at hj
    rw [getD_map_pos ts j hj]
    exact hall _ (List.getElem_mem hj)

/-- what a successful lookup says about `glb` and the reported column (no sortedness needed) -/
theorem lookup_some_inv (ts : List Tok) (q : Pos) (i : Nat) (t : Tok) (c : Nat)
    (hl : lookup ts q = .ok (some (i, t, c))) :
    glb (ts.map Tok.pos) q = some i ∧ ts[i]? = some t ∧
      ((t.rng = true ∧ t.dl = q.1) → ¬ q.2 < t.dc ∧ c = satAdd t.sc (q.2 - t.dc)) ∧
      (¬ (t.rng = true ∧ t.dl = q.1) → c = t.sc) := by
  unfold lookup at hl
  cases hg : glb (ts.map Tok.pos) q with
  | none => rw [hg] at hl; simp at hl
  | some k =>
    simp only [hg] at hl
    cases ht : ts[k]? with
    | none => simp only [ht] at hl; simp at hl
    | some u =>
      simp only [ht] at hl
      by_cases hc : (u.rng && decide (u.dl = q.1)) = true
      · rw [if_pos hc] at hl
        by_cases hlt : q.2 < u.dc
        · rw [if_pos hlt] at hl; simp at hl
        · rw [if_neg hlt] at hl
          simp only [Except.ok.injEq, Option.some.injEq, Prod.mk.injEq] at hl
          obtain ⟨rfl, rfl, rfl⟩ := hl
          refine ⟨rfl, ht, fun _ => ⟨hlt, rfl⟩, fun hn => ?_⟩
          simp at hc; exact (hn hc).elim
      · rw [if_neg hc] at hl
        simp only [Except.ok.injEq, Option.some.injEq, Prod.mk.injEq] at hl
        obtain ⟨rfl, rfl, rfl⟩ := hl
        refine ⟨rfl, ht, fun hy => ?_, fun _ => rfl⟩
        simp at hc; exact absurd hy.2 (hc hy.1)

/-- `lookup` answers `none` exactly when `glb` does, on an ordered map -/
theorem lookup_none_iff_glb (ts : List Tok) (q : Pos) (h : SortedT ts) :
    lookup ts q = .ok none ↔ glb (ts.map Tok.pos) q = none := by
  unfold lookup
  cases hg : glb (ts.map Tok.pos) q with
  | none => simp
  | some k =>
    obtain ⟨hk, hle, _, _⟩ := glb_tok_some ts q h k hg
    simp only [List.getElem?_eq_getElem hk]
    have hdc : ts[k].dl = q.1 → ¬ q.2 < ts[k].dc := by
      intro hdl
      rw [posLe_iff] at hle
      simp only [Tok.pos] at hle
      omega
    by_cases hc : (ts[k].rng && decide (ts[k].dl = q.1)) = true
    · rw [if_pos hc]
      have : ts[k].dl = q.1 := by simp at hc; exact hc.2
      rw [if_neg (hdc this)]
      simp
    · rw [if_neg hc]; simp

/-- on an ordered map the lookup never takes the `panic` branch -/
theorem lookup_ok (ts : List Tok) (q : Pos) (h : SortedT ts) : ∃ r, lookup ts q = .ok r := by
  unfold lookup
  cases hg : glb (ts.map Tok.pos) q with
  | none => exact ⟨_, rfl⟩
  | some k =>
    obtain ⟨hk, hle, _, _⟩ := glb_tok_some ts q h k hg
    simp only [List.getElem?_eq_getElem hk]
    have hdc : ts[k].dl = q.1 → ¬ q.2 < ts[k].dc := by
      intro hdl
      rw [posLe_iff] at hle
      simp only [Tok.pos] at hle
      omega
    by_cases hc : (ts[k].rng && decide (ts[k].dl = q.1)) = true
    · rw [if_pos hc]
      have : ts[k].dl = q.1 := by simp at hc; exact hc.2
      rw [if_neg (hdc this)]
      exact ⟨_, rfl⟩
    · rw [if_neg hc]; exact ⟨_, rfl⟩

/-! ### the declarative specification -/

theorem foldl_best (cs : List (Tok × Nat)) :
    ∀ b0 : Pos,
      (cs.foldl (fun b p => if posLt b (Tok.pos p.1) then Tok.pos p.1 else b) b0 = b0 ∨
        ∃ p ∈ cs, Tok.pos p.1 =
          cs.foldl (fun b p => if posLt b (Tok.pos p.1) then Tok.pos p.1 else b) b0) ∧
      posLe b0 (cs.foldl (fun b p => if posLt b (Tok.pos p.1) then Tok.pos p.1 else b) b0) = true ∧
      ∀ p ∈ cs, posLe (Tok.pos p.1)
        (cs.foldl (fun b p => if posLt b (Tok.pos p.1) then Tok.pos p.1 else b) b0) = true := by
  induction cs with
  | nil => intro b0; simp [posLe_refl]
  | cons x xs ih =>
    intro b0
    rw [List.foldl_cons]
    by_cases hlt : posLt b0 (Tok.pos x.1) = true
    · rw [if_pos hlt]
      obtain ⟨h1, h2, h3⟩ := ih (Tok.pos x.1)
      have hb0x : posLe b0 (Tok.pos x.1) = true := by
        rcases posLe_total b0 (Tok.pos x.1) with h | h
        · exact h
        · exact (posLt_irrefl_le hlt h).elim
      refine ⟨Or.inr ?_, posLe_trans hb0x h2, ?_⟩
      · rcases h1 with h | ⟨p, hp, hpe⟩
        · exact ⟨x, List.mem_cons_self, h.symm⟩
        · exact ⟨p, List.mem_cons_of_mem _ hp, hpe⟩
      · intro p hp
        rcases List.mem_cons.mp hp with rfl | hp
        · exact h2
        · exact h3 p hp
    · rw [if_neg hlt]
      obtain ⟨h1, h2, h3⟩ := ih b0
      have hxb0 : posLe (Tok.pos x.1) b0 = true := by
        rw [← posLt_false_iff]; simpa using hlt
      refine ⟨?_, h2, ?_⟩
      · rcases h1 with h | ⟨p, hp, hpe⟩
        · exact Or.inl h
        · exact Or.inr ⟨p, List.mem_cons_of_mem _ hp, hpe⟩
      · intro p hp
        rcases List.mem_cons.mp hp with rfl | hp
        · exact posLe_trans hxb0 h2
        · exact h3 p hp

/-- the running maximum of a non-empty candidate list is attained and dominates -/
theorem best_spec (c : Tok × Nat) (cs : List (Tok × Nat)) :
    (∃ p ∈ c :: cs, Tok.pos p.1 =
      cs.foldl (fun b p => if posLt b (Tok.pos p.1) then Tok.pos p.1 else b) (Tok.pos c.1)) ∧
    ∀ p ∈ c :: cs, posLe (Tok.pos p.1)
      (cs.foldl (fun b p => if posLt b (Tok.pos p.1) then Tok.pos p.1 else b) (Tok.pos c.1)) = true := by
  obtain ⟨h1, h2, h3⟩ := foldl_best cs (Tok.pos c.1)
  constructor
  · rcases h1 with h | ⟨p, hp, hpe⟩
    · exact ⟨c, List.mem_cons_self, h.symm⟩
    · exact ⟨p, List.mem_cons_of_mem _ hp, hpe⟩
  · intro p hp
    rcases List.mem_cons.mp hp with rfl | hp
    · exact h2
    · exact h3 p hp

theorem mem_take_one_of_head? {α} {l : List α} {x : α} (h : l.head? = some x) : x ∈ l.take 1 := by
  cases l with
  | nil => simp at h
  | cons a as => simp at h; simp [h]

end SmVerif.Lookup
