import SmVerif.Proofs.RewriteMain
import Mathlib.Data.List.Nodup
import Mathlib.Data.List.Perm.Subperm
/-
C09 helper lemmas, part 5: the permutation of Hermes function maps through `sources_mapping`.
-/
namespace SmVerif.RwProofs
open SmVerif SmVerif.RwSpec SmVerif.Lookup SmVerif.Rw

theorem takeLoop_nodup {α : Type} (is : List Nat) (fms : List (Option α)) (h : is.Nodup) :
    takeLoop is fms = is.map (fun i => (fms[i]?).join) := by
  induction is generalizing fms with
  | nil => rfl
  | cons i is ih =>
    rw [List.nodup_cons] at h
    simp only [takeLoop, List.map_cons]
    congr 1
    rw [ih _ h.2]
    apply List.map_congr_left
    intro j hj
    have hne : i ≠ j := fun e => h.1 (e ▸ hj)
    rw [List.getElem?_set]; simp [hne]

/-- the first token that uses a name in use -/
theorem firstId_spec (m : SMap) (ts : List Tok) (s : Bytes) (h : s ∈ ts.filterMap m.tokSource) :
    ∃ t0 ∈ ts, m.tokSource t0 = some s ∧ firstId m ts s = t0.src := by
  unfold firstId
  rw [List.mem_filterMap] at h
  obtain ⟨t1, ht1, e1⟩ := h
  rcases hf : ts.find? (fun t => m.tokSource t == some s) with _ | t0
  · rw [List.find?_eq_none] at hf
    exact absurd (by simp [e1]) (hf t1 ht1)
  · refine ⟨t0, List.mem_of_find?_eq_some hf, ?_, by simp⟩
    have := List.find?_some hf
    simpa using this

theorem getSource_firstId (m : SMap) (s : Bytes) (h : s ∈ srcStrings m) :
    m.getSource (firstId m m.tokens s) = some s := by
  rw [srcStrings, mem_firstUse] at h
  obtain ⟨t0, _, e, hid⟩ := firstId_spec m m.tokens s h
  rw [hid]
  unfold SMap.tokSource at e
  by_cases hn : t0.src = NONE
  · simp [hn] at e
  · simpa [hn] using e

theorem closedMapping_nodup (m : SMap) : (closedMapping m).Nodup := by
  unfold closedMapping
  apply List.Nodup.map_on _ (nodup_firstUse _)
  intro x hx y hy e
  have h1 := getSource_firstId m x hx
  have h2 := getSource_firstId m y hy
  rw [e, h2] at h1
  exact (Option.some.inj h1).symm

/-- the distinct names in use are names of the source list: there are no more of them than sources -/
theorem srcStrings_len_le_sources (m : SMap) : (srcStrings m).length ≤ (m.prefixed.getD m.sources).length := by
  apply List.Subperm.length_le
  apply List.subperm_of_subset (nodup_firstUse _)
  intro s hs
  rw [mem_firstUse, List.mem_filterMap] at hs
  obtain ⟨t, _, e⟩ := hs
  unfold SMap.tokSource SMap.getSource at e
  by_cases hn : t.src = NONE
  · simp [hn] at e
  · simp only [hn, ↓reduceIte] at e
    exact List.mem_of_getElem? e

theorem hermesRewrite_eq {α : Type} (m : SMap) (fms : List (Option α)) (o : RewriteOpts)
    (hs : SortedByPos m.tokens) (hlen : m.tokens.length ≤ NONE) :
    hermesRewrite m fms o =
      .ok (closedMap m o,
           if fms.length ≥ (srcStrings m).length then (closedMapping m).map (fun i => (fms[i]?).join) else fms) := by
  unfold hermesRewrite
  rw [rewriteWithMapping_eq m o hs hlen]
  simp only [takeLoop_nodup _ _ (closedMapping_nodup m)]
  simp [closedMapping]

/-- which function map the rewritten token is resolved against: the one of the id under which its
source name was first used -/
theorem fm_after {α : Type} (m : SMap) (fms : List (Option α)) (o : RewriteOpts) (t : Tok) (s : Bytes)
    (ht : t ∈ m.tokens) (hsrc : m.tokSource t = some s) :
    (((closedMapping m).map (fun i => (fms[i]?).join))[(newTok m o.withNames (srcStrings m) (namesOut m o) t).src]?).join =
      (fms[firstId m m.tokens s]?).join := by
  have hm : s ∈ srcStrings m := by
    rw [srcStrings, mem_firstUse, List.mem_filterMap]; exact ⟨t, ht, hsrc⟩
  simp only [newTok, hsrc, idOf, closedMapping, List.map_map, List.getElem?_map, getElem?_idxOf hm,
    Option.map_some, Function.comp]
  rfl

theorem scope_preserved {α : Type} (fmScope : α → Nat → Nat → Option Bytes) (m : SMap) (fms : List (Option α))
    (o : RewriteOpts) (hlen : m.tokens.length < NONE)
    (hfm : fms.length = (m.prefixed.getD m.sources).length) (hsl : (m.prefixed.getD m.sources).length ≤ NONE)
    (hsame : ∀ t ∈ m.tokens, ∀ u ∈ m.tokens, m.tokSource t = m.tokSource u → m.tokSource t ≠ none →
      (fms[t.src]?).join = (fms[u.src]?).join)
    (t : Tok) (ht : t ∈ m.tokens) :
    scopeFor fmScope ((closedMapping m).map (fun i => (fms[i]?).join))
        (newTok m o.withNames (srcStrings m) (namesOut m o) t) =
      scopeFor fmScope fms t := by
  unfold scopeFor
  cases hsrc : m.tokSource t with
  | some s =>
    rw [fm_after m fms o t s ht hsrc]
    have hm : s ∈ m.tokens.filterMap m.tokSource := by
      rw [List.mem_filterMap]; exact ⟨t, ht, hsrc⟩
    obtain ⟨t0, ht0, e0, hid⟩ := firstId_spec m m.tokens s hm
    rw [hid, hsame t0 ht0 t ht (by rw [e0, hsrc]) (by simp [e0])]
    rfl
  | none =>
    have h1 : (newTok m o.withNames (srcStrings m) (namesOut m o) t).src = NONE := by simp [newTok, hsrc, idOf]
    have hlen' : (closedMapping m).length ≤ m.tokens.length := by
      simp only [closedMapping, List.length_map]; exact srcStrings_len m
    have h2 : (((closedMapping m).map (fun i => (fms[i]?).join))[NONE]?) = none := by
      apply List.getElem?_eq_none; simp only [List.length_map]; omega
    have h3 : fms[t.src]? = none := by
      apply List.getElem?_eq_none
      unfold SMap.tokSource SMap.getSource at hsrc
      by_cases hn : t.src = NONE
      · omega
      · simp only [hn, ↓reduceIte] at hsrc
        rw [List.getElem?_eq_none_iff] at hsrc
        omega
    rw [h1, h2, h3]; rfl

theorem same_of_nodup {α : Type} (m : SMap) (fms : List (Option α)) (hnd : (m.prefixed.getD m.sources).Nodup) :
    ∀ t ∈ m.tokens, ∀ u ∈ m.tokens, m.tokSource t = m.tokSource u → m.tokSource t ≠ none →
      (fms[t.src]?).join = (fms[u.src]?).join := by
  intro t _ u _ e hne
  have : t.src = u.src := by
    unfold SMap.tokSource SMap.getSource at e hne
    by_cases h1 : t.src = NONE
    · simp [h1] at hne
    · by_cases h2 : u.src = NONE
      · simp only [h1, h2, ↓reduceIte] at e hne; exact absurd e hne
      · simp only [h1, h2, ↓reduceIte] at e hne
        rcases hx : (m.prefixed.getD m.sources)[t.src]? with _ | x
        · exact absurd hx hne
        · rw [hx] at e
          have a1 := List.getElem?_eq_some_iff.mp hx
          have a2 := List.getElem?_eq_some_iff.mp e.symm
          obtain ⟨l1, e1⟩ := a1
          obtain ⟨l2, e2⟩ := a2
          exact (List.Nodup.getElem_inj_iff hnd).mp (e1.trans e2.symm)
  rw [this]

end SmVerif.RwProofs
