import SmVerif.Proofs.Raw
import SmVerif.Props.C01
import SmVerif.Props.C04
import SmVerif.Props.C06
import SmVerif.Proofs.EncDedup
import SmVerif.Proofs.SpecEnc
/-
Document level round trip of a regular map (C01 at the level of the serde record):
  R0  a well-formed map can always be written,
  R1  reading back what was written gives the wire normal form `canon m`,
  R2  `canon m` is well-formed, decoded, and observationally equal to `m`,
  R3  writing `canon m` gives the same record again; `canon` is idempotent on decoded maps,
  R4  what `decode_regular` returns is `Decoded`.
-/
namespace SmVerif.RawRt
open SmVerif SmVerif.Raw SmVerif.Mappings SmVerif.V3 SmVerif.Lookup SmVerif.RawP

/-! ### `normTok` -/

theorem normTok_dl (nn : Nat) (t : Tok) : (normTok nn t).dl = t.dl := by
  unfold normTok; split
  · rfl
  · split <;> rfl

theorem normTok_dc (nn : Nat) (t : Tok) : (normTok nn t).dc = t.dc := by
  unfold normTok; split
  · rfl
  · split <;> rfl

theorem normTok_src (nn : Nat) (t : Tok) : (normTok nn t).src = t.src := by
  unfold normTok; split
  · rfl
  · split <;> rfl

theorem normTok_pos (nn : Nat) (t : Tok) : Tok.pos (normTok nn t) = Tok.pos t := by
  unfold Tok.pos
  rw [normTok_dl, normTok_dc]

theorem normTok_idem (nn : Nat) (t : Tok) : normTok nn (normTok nn t) = normTok nn t := by
  unfold normTok
  by_cases h1 : t.src = NONE
  · simp only [h1, ↓reduceIte]
  · by_cases h2 : t.name ≠ NONE ∧ t.name < nn
    · simp only [h1, h2, ↓reduceIte, and_self, ne_eq, not_false_eq_true]
    · simp only [h1, h2, ↓reduceIte, ne_eq, not_true_eq_false, false_and]

theorem normTok_wf (nsrc nn : Nat) (t : Tok) (h : wfTok nsrc t = true) :
    wfTok nsrc (normTok nn t) = true := by
  unfold wfTok at h ⊢
  simp only [Bool.and_eq_true, Bool.or_eq_true, decide_eq_true_eq] at h ⊢
  unfold normTok
  by_cases h1 : t.src = NONE
  · rw [if_pos h1]
    refine ⟨⟨⟨⟨⟨⟨h.1.1.1.1.1.1, h.1.1.1.1.1.2⟩, ?_⟩, ?_⟩, h.1.1.2⟩, ?_⟩, h.2⟩ <;>
      simp [U32, NONE]
  · rw [if_neg h1]
    by_cases h2 : t.name ≠ NONE ∧ t.name < nn
    · rw [if_pos h2]
      exact h
    · rw [if_neg h2]
      refine ⟨⟨h.1.1, ?_⟩, h.2⟩
      simp [U32, NONE]

theorem map_normTok_sorted (nn : Nat) (ts : List Tok) (h : SortedByPos ts) :
    SortedByPos (ts.map (normTok nn)) := by
  unfold SortedByPos at h ⊢
  rw [List.pairwise_map]
  refine h.imp ?_
  intro a b hab
  rw [normTok_pos, normTok_pos]
  exact hab

theorem map_normTok_wf (nsrc nn : Nat) (ts : List Tok) (h : wfToks nsrc ts = true) :
    wfToks nsrc (ts.map (normTok nn)) = true := by
  unfold wfToks at h ⊢
  rw [List.all_eq_true] at h ⊢
  intro t ht
  obtain ⟨u, hu, rfl⟩ := List.mem_map.mp ht
  exact normTok_wf nsrc nn u (h u hu)

theorem map_normTok_fixed (nn : Nat) (ts : List Tok) (h : ∀ t ∈ ts, normTok nn t = t) :
    ts.map (normTok nn) = ts := by
  conv => rhs; rw [← List.map_id ts]
  exact List.map_congr_left h

/-- the token list of `canon m` -/
theorem canonToks_sorted (nn : Nat) (ts : List Tok) (h : SortedByPos ts) :
    SortedByPos ((dedup ts).map (normTok nn)) :=
  map_normTok_sorted nn _ (EncDedup.dedup_sorted ts h)

theorem canonToks_wf (nsrc nn : Nat) (ts : List Tok) (h : wfToks nsrc ts = true) :
    wfToks nsrc ((dedup ts).map (normTok nn)) = true :=
  map_normTok_wf nsrc nn _ (EncDedup.dedup_wf nsrc ts h)

/-! ### the ignore list: folding `insertSorted` over a strictly increasing list rebuilds it -/

theorem insertSorted_append (x : Nat) : ∀ (l : List Nat), (∀ y ∈ l, y < x) →
    SMap.insertSorted x l = l ++ [x] := by
  intro l
  induction l with
  | nil => intro _; rfl
  | cons y ys ih =>
    intro h
    have hy : y < x := h y (List.mem_cons_self)
    have h1 : ¬ x < y := by omega
    have h2 : ¬ x = y := by omega
    rw [SMap.insertSorted]
    simp only [h1, h2, ↓reduceIte, List.cons_append]
    rw [ih (fun z hz => h z (List.mem_cons_of_mem _ hz))]

theorem ignoreOf_sorted_aux : ∀ (l g : List Nat), (g ++ l).Pairwise (· < ·) → ignoreOf l g = g ++ l := by
  intro l
  induction l with
  | nil => intro g _; simp [ignoreOf]
  | cons x xs ih =>
    intro g h
    have hx : ∀ y ∈ g, y < x := by
      intro y hy
      rw [List.pairwise_append] at h
      exact h.2.2 y hy x List.mem_cons_self
    have e : ignoreOf (x :: xs) g = ignoreOf xs (SMap.insertSorted x g) := rfl
    rw [e, insertSorted_append x g hx, ih]
    · simp
    · simpa using h

theorem ignoreOf_sorted (l : List Nat) (h : l.Pairwise (· < ·)) : ignoreOf l [] = l := by
  have := ignoreOf_sorted_aux l [] (by simpa using h)
  simpa using this

theorem insertSorted_mem (x : Nat) : ∀ (l : List Nat) (z : Nat),
    z ∈ SMap.insertSorted x l → z = x ∨ z ∈ l := by
  intro l
  induction l with
  | nil => intro z hz; simp [SMap.insertSorted] at hz; exact Or.inl hz
  | cons y ys ih =>
    intro z hz
    rw [SMap.insertSorted] at hz
    by_cases h1 : x < y
    · simp only [h1, ↓reduceIte] at hz
      rcases List.mem_cons.mp hz with h | h
      · exact Or.inl h
      · exact Or.inr h
    · by_cases h2 : x = y
      · subst h2
        simp only [h1, ↓reduceIte] at hz
        exact Or.inr hz
      · simp only [h1, h2, ↓reduceIte] at hz
        rcases List.mem_cons.mp hz with h | h
        · exact Or.inr (h ▸ List.mem_cons_self)
        · rcases ih z h with h | h
          · exact Or.inl h
          · exact Or.inr (List.mem_cons_of_mem _ h)

theorem insertSorted_pairwise (x : Nat) : ∀ (l : List Nat), l.Pairwise (· < ·) →
    (SMap.insertSorted x l).Pairwise (· < ·) := by
  intro l
  induction l with
  | nil => intro _; simp [SMap.insertSorted]
  | cons y ys ih =>
    intro h
    rw [SMap.insertSorted]
    have hy := List.pairwise_cons.mp h
    by_cases h1 : x < y
    · simp only [h1, ↓reduceIte]
      refine List.pairwise_cons.mpr ⟨?_, h⟩
      intro z hz
      rcases List.mem_cons.mp hz with rfl | hz
      · exact h1
      · exact Nat.lt_trans h1 (hy.1 z hz)
    · by_cases h2 : x = y
      · subst h2
        simp only [h1, ↓reduceIte]
        exact h
      · simp only [h1, h2, ↓reduceIte]
        refine List.pairwise_cons.mpr ⟨?_, ih hy.2⟩
        intro z hz
        rcases insertSorted_mem x ys z hz with rfl | hz
        · omega
        · exact hy.1 z hz

theorem ignoreOf_pairwise : ∀ (l g : List Nat), g.Pairwise (· < ·) → (ignoreOf l g).Pairwise (· < ·) := by
  intro l
  induction l with
  | nil => intro g h; exact h
  | cons x xs ih =>
    intro g h
    have e : ignoreOf (x :: xs) g = ignoreOf xs (SMap.insertSorted x g) := rfl
    rw [e]
    exact ih _ (insertSorted_pairwise x g h)

/-! ### `source_contents()` of the normal form -/

theorem not_any_isSome {l : List (Option Bytes)} (h : ¬ l.any Option.isSome = true) :
    ∀ x ∈ l, x = none := by
  intro x hx
  cases x with
  | none => rfl
  | some v => exact absurd (List.any_eq_true.mpr ⟨some v, hx, rfl⟩) h

theorem getSourceContents_mem (m : SMap) (i : Nat) (hi : i < m.sources.length) :
    m.getSourceContents i ∈ m.sourceContents := by
  unfold SMap.sourceContents
  exact List.mem_map.mpr ⟨i, List.mem_range.mpr hi, rfl⟩

theorem canon_sourceContents (m : SMap) : (canon m).sourceContents = m.sourceContents := by
  unfold SMap.sourceContents
  show (List.range m.sources.length).map (canon m).getSourceContents = _
  apply List.map_congr_left
  intro i hi
  rw [List.mem_range] at hi
  unfold SMap.getSourceContents
  show ((canonContents m)[i]?).join = (m.contents[i]?).join
  unfold canonContents
  by_cases ha : m.sourceContents.any Option.isSome = true
  · rw [if_pos ha]
    unfold SMap.sourceContents
    rw [List.getElem?_map, List.getElem?_range hi]
    rfl
  · rw [if_neg ha]
    have := not_any_isSome ha _ (getSourceContents_mem m i hi)
    unfold SMap.getSourceContents at this
    rw [this]
    rfl

theorem canon_canonContents (m : SMap) : canonContents (canon m) = canonContents m := by
  unfold canonContents
  rw [canon_sourceContents]

/-! ### R0 / R1 -/

/-- the record `as_raw_sourcemap` fills once both strings are there -/
def recordOf (m : SMap) (rm : Option (List Nat)) (mp : List Nat) : RawFlat :=
  { version := some (Consts.encoderVersions.getD 0 0)
    file := m.file.map JVal.str
    sources := some (m.sources.map some)
    sourceRoot := m.root
    sourcesContent := if m.sourceContents.any Option.isSome then some m.sourceContents else none
    names := some (m.names.map JVal.str)
    rangeMappings := rm
    mappings := some mp
    ignoreList := if m.ignore.isEmpty then none else some m.ignore
    debugId := m.debugId }

theorem asRawRegular_eq (m : SMap) :
    asRawRegular m =
      match serializeRangeMappings m.tokens with
      | .error e => .error e
      | .ok rm => match serializeMappings m.tokens m.names.length with
        | .error e => .error e
        | .ok mp => .ok (recordOf m rm mp) := rfl

theorem asRawRegular_ok {m : SMap} {f : RawFlat} (he : asRawRegular m = .ok f) :
    ∃ rm mp, serializeRangeMappings m.tokens = .ok rm ∧
      serializeMappings m.tokens m.names.length = .ok mp ∧ f = recordOf m rm mp := by
  rw [asRawRegular_eq] at he
  cases h1 : serializeRangeMappings m.tokens with
  | error e => rw [h1] at he; cases he
  | ok rm =>
    rw [h1] at he
    cases h2 : serializeMappings m.tokens m.names.length with
    | error e => rw [h2] at he; cases he
    | ok mp =>
      rw [h2] at he
      exact ⟨rm, mp, rfl, rfl, (Except.ok.inj he).symm⟩

/-- both strings can be written for well-formed ordered tokens, and read back as C01 says -/
theorem strings_ok (m : SMap) (h : WfMap m) :
    ∃ rm mp, serializeRangeMappings m.tokens = .ok rm ∧
      serializeMappings m.tokens m.names.length = .ok mp ∧
      decodeMappings mp (rm.getD []) m.sources.length m.names.length =
        .ok ((dedup m.tokens).map (normTok m.names.length)) := by
  have hc := C01.c01_mappings_roundtrip m.sources.length m.names.length m.tokens h.toks h.sorted
  unfold encDec at hc
  cases h1 : serializeRangeMappings m.tokens with
  | error e => rw [h1] at hc; cases hc
  | ok rm =>
    rw [h1] at hc
    cases h2 : serializeMappings m.tokens m.names.length with
    | error e => rw [h2] at hc; cases hc
    | ok mp =>
      rw [h2] at hc
      exact ⟨rm, mp, rfl, rfl, hc⟩

/-- R0: a well-formed map can always be written -/
theorem asRawRegular_total (m : SMap) (h : WfMap m) : ∃ f, asRawRegular m = .ok f := by
  obtain ⟨rm, mp, h1, h2, _⟩ := strings_ok m h
  refine ⟨recordOf m rm mp, ?_⟩
  rw [asRawRegular_eq, h1, h2]

theorem map_lenientFile (x : Option Bytes) : (x.map JVal.str).map (lenientFile 0) = x := by
  cases x <;> rfl

theorem map_lenientName (l : List Bytes) : (l.map JVal.str).map lenientName = l := by
  rw [List.map_map]
  conv => rhs; rw [← List.map_id l]
  apply List.map_congr_left
  intro a _; rfl

theorem map_some_getD (l : List Bytes) : (l.map some).map (fun s => s.getD []) = l := by
  rw [List.map_map]
  conv => rhs; rw [← List.map_id l]
  apply List.map_congr_left
  intro a _; rfl

theorem optOr_none {α} (x : Option α) : optOr x none = x := by
  cases x <;> rfl

theorem builtMap_recordOf (m : SMap) (h : WfMap m) (rm : Option (List Nat)) (mp : List Nat) :
    builtMap (recordOf m rm mp) ((dedup m.tokens).map (normTok m.names.length)) = canon m := by
  have e1 : namesOf (recordOf m rm mp) = m.names := by
    unfold namesOf recordOf
    exact map_lenientName m.names
  have e2 : sourcesOf (recordOf m rm mp) = m.sources := by
    unfold sourcesOf recordOf
    exact map_some_getD m.sources
  have e3 : (recordOf m rm mp).sourcesContent.getD [] = canonContents m := by
    unfold recordOf canonContents
    by_cases ha : m.sourceContents.any Option.isSome = true
    · simp only [ha, ↓reduceIte, Option.getD_some]
    · simp only [ha, ↓reduceIte, Option.getD_none, Bool.false_eq_true]
  have e4 : ignoreOf ((recordOf m rm mp).ignoreList.getD []) [] = m.ignore := by
    unfold recordOf
    by_cases hi : m.ignore.isEmpty = true
    · simp only [hi, ↓reduceIte, Option.getD_none]
      rw [List.isEmpty_iff.mp hi]
      rfl
    · simp only [hi, ↓reduceIte, Option.getD_some, Bool.false_eq_true]
      exact ignoreOf_sorted m.ignore h.ignore
  have e5 : sortToks ((dedup m.tokens).map (normTok m.names.length)) =
      (dedup m.tokens).map (normTok m.names.length) :=
    C04.c04_sort_of_sorted _ (canonToks_sorted _ _ h.sorted)
  unfold builtMap
  rw [e1, e2, e3, e4, e5]
  unfold canon
  have e6 : (recordOf m rm mp).file.map (lenientFile 0) = m.file := map_lenientFile m.file
  have e7 : optOr (recordOf m rm mp).debugId (recordOf m rm mp).debugIdNew = m.debugId :=
    optOr_none m.debugId
  have e8 : (recordOf m rm mp).sourceRoot = m.root := rfl
  rw [e6, e7, e8, ← h.prefixed]

/-- R1: reading back what was written for a well-formed map gives its wire normal form -/
theorem decode_asRaw (m : SMap) (f : RawFlat) (h : WfMap m) (he : asRawRegular m = .ok f) :
    decodeRegular f = .ok (canon m) := by
  obtain ⟨rm, mp, h1, h2, hd⟩ := strings_ok m h
  obtain ⟨rm', mp', h1', h2', rfl⟩ := asRawRegular_ok he
  rw [h1] at h1'; cases h1'
  rw [h2] at h2'; cases h2'
  rw [decodeRegular_eq]
  have e : decodeMappings ((recordOf m rm mp).mappings.getD []) ((recordOf m rm mp).rangeMappings.getD [])
      ((recordOf m rm mp).sources.getD []).length ((recordOf m rm mp).names.getD []).length =
      .ok ((dedup m.tokens).map (normTok m.names.length)) := by
    have l1 : ((recordOf m rm mp).sources.getD []).length = m.sources.length := by
      simp only [recordOf, Option.getD_some, List.length_map]
    have l2 : ((recordOf m rm mp).names.getD []).length = m.names.length := by
      simp only [recordOf, Option.getD_some, List.length_map]
    rw [l1, l2]
    exact hd
  rw [e]
  simp only
  rw [builtMap_recordOf m h]

/-- `decodeRegular` does not look at x_facebook_sources -/
theorem decodeRegular_fb (f : RawFlat) (x : Option FbSources) :
    decodeRegular { f with fbSources := x } = decodeRegular f := rfl

/-! ### R2 -/

theorem canon_wf (m : SMap) (h : WfMap m) : WfMap (canon m) where
  toks := canonToks_wf m.sources.length m.names.length m.tokens h.toks
  sorted := canonToks_sorted m.names.length m.tokens h.sorted
  prefixed := h.prefixed
  ignore := h.ignore

theorem canon_decoded (m : SMap) (h : WfMap m) : Decoded (canon m) where
  wf := canon_wf m h
  norm := by
    intro t ht
    obtain ⟨u, _, rfl⟩ := List.mem_map.mp (show t ∈ (dedup m.tokens).map (normTok m.names.length) from ht)
    exact normTok_idem m.names.length u

theorem canon_obs (m : SMap) (_h : WfMap m) : ObsEq (canon m) m where
  file := rfl
  root := rfl
  debugId := rfl
  names := rfl
  ignore := rfl
  nsources := rfl
  sources := fun _ => rfl
  contents := canon_sourceContents m
  tokens := rfl

/-! ### R3 -/

/-- on a decoded map `canon` only removes exact consecutive duplicates from the token list -/
theorem canon_tokens_decoded (m : SMap) (h : Decoded m) : (canon m).tokens = dedup m.tokens := by
  show (dedup m.tokens).map (normTok m.names.length) = dedup m.tokens
  exact map_normTok_fixed _ _ (fun t ht => h.norm t ((EncDedup.dedup_sublist m.tokens).subset ht))

/-- R3: writing the map that was read back gives the same record again -/
theorem asRaw_canon (m : SMap) (h : Decoded m) : asRawRegular (canon m) = asRawRegular m := by
  rw [asRawRegular_eq, asRawRegular_eq, canon_tokens_decoded m h,
    EncDedup.serializeRangeMappings_dedup]
  have e : (canon m).names.length = m.names.length := rfl
  rw [e, EncDedup.serializeMappings_dedup]
  have r : ∀ rm mp, recordOf (canon m) rm mp = recordOf m rm mp := by
    intro rm mp
    unfold recordOf
    rw [canon_sourceContents]
    rfl
  simp only [r]

/-- `canon` is idempotent on decoded maps.  (With `WfMap m` only the statement is false, see
`cex_canon_canon` below; `canon_canon_canon` is what holds for every well-formed map.) -/
theorem canon_canon (m : SMap) (h : Decoded m) : canon (canon m) = canon m := by
  have e1 : (canon (canon m)).tokens = (canon m).tokens := by
    have hd := canon_tokens_decoded m h
    show (dedup (canon m).tokens).map (normTok (canon m).names.length) = (canon m).tokens
    rw [hd, EncDedup.dedup_dedup]
    exact map_normTok_fixed _ _ (fun t ht => h.norm t ((EncDedup.dedup_sublist m.tokens).subset ht))
  have e2 : (canon (canon m)).contents = (canon m).contents := canon_canonContents m
  show ({ canon m with tokens := (canon (canon m)).tokens, contents := (canon (canon m)).contents } : SMap)
    = canon m
  rw [e1, e2]

/-- for an arbitrary well-formed map the normal form is reached after one step and then stays -/
theorem canon_canon_canon (m : SMap) (h : WfMap m) : canon (canon (canon m)) = canon (canon m) :=
  canon_canon (canon m) (canon_decoded m h)

/-- `canon (canon m) = canon m` is **false** for a map that is merely well-formed: two neighbouring
tokens that differ only in fields `normTok` clears (here the original line of a source-less token)
are both kept by `dedup`, made equal by `normTok`, and merged by the next `dedup`. -/
def cex : SMap := { tokens := [⟨0, 0, 1, 0, NONE, NONE, false⟩, ⟨0, 0, 2, 0, NONE, NONE, false⟩] }

theorem cex_wf : WfMap cex where
  toks := by decide
  sorted := by simp [cex, SortedByPos, posLe, Tok.pos]
  prefixed := rfl
  ignore := List.Pairwise.nil

theorem cex_canon_canon : canon (canon cex) ≠ canon cex := by decide

/-! ### R4: what the token loop pushes -/

/-- a token as the decoder builds it: coordinates are results of `as u32`, the line is below `bound`,
a token without source has neither original position nor name, indices resolve -/
def OutTok (nsrc nn bound : Nat) (t : Tok) : Prop :=
  t.dl < bound ∧ t.dc < U32 ∧ t.sl < U32 ∧ t.sc < U32 ∧
  ((t.src = NONE ∧ t.name = NONE ∧ t.sl = 0 ∧ t.sc = 0) ∨ (t.src < nsrc ∧ (t.name = NONE ∨ t.name < nn)))

theorem wrapU32_lt (x : Int) : wrapU32 x < U32 := by
  unfold wrapU32 U32
  omega

theorem OutTok.mono {nsrc nn b b' : Nat} {t : Tok} (h : OutTok nsrc nn b t) (hb : b ≤ b') :
    OutTok nsrc nn b' t :=
  ⟨Nat.lt_of_lt_of_le h.1 hb, h.2⟩

theorem decodeSeg_ok_out {nsrc nn dl : Nat} {bits : List Bool} {i dc : Nat} {st : DState}
    {nums : List Int} {t : Tok} {dc' : Nat} {st' : DState}
    (h : decodeSeg nsrc nn dl bits i dc st nums = .ok (t, dc', st')) : OutTok nsrc nn (dl + 1) t := by
  rcases nums with _ | ⟨n0, _ | ⟨n1, _ | ⟨n2, _ | ⟨n3, _ | ⟨n4, _ | ⟨n5, r⟩⟩⟩⟩⟩⟩
  · cases h
  · rw [Decode.decodeSeg_one] at h
    cases h
    exact ⟨Nat.lt_succ_self _, wrapU32_lt _, by simp [U32], by simp [U32], Or.inl ⟨rfl, rfl, rfl, rfl⟩⟩
  · cases h
  · cases h
  · by_cases hs : (st.src : Int) + n1 < 0 ∨ (st.src : Int) + n1 ≥ (nsrc : Int)
    · rw [Decode.decodeSeg_four_bad _ _ _ _ _ _ _ _ _ _ _ hs] at h; cases h
    · rw [Decode.decodeSeg_four _ _ _ _ _ _ _ _ _ _ _ hs] at h
      cases h
      refine ⟨Nat.lt_succ_self _, wrapU32_lt _, wrapU32_lt _, wrapU32_lt _, Or.inr ⟨?_, Or.inl rfl⟩⟩
      show ((st.src : Int) + n1).toNat < nsrc
      omega
  · by_cases hs : (st.src : Int) + n1 < 0 ∨ (st.src : Int) + n1 ≥ (nsrc : Int)
    · rw [Decode.decodeSeg_five_bad_src _ _ _ _ _ _ _ _ _ _ _ _ hs] at h; cases h
    · by_cases hn : (st.name : Int) + n4 < 0 ∨ (st.name : Int) + n4 ≥ (nn : Int)
      · rw [Decode.decodeSeg_five_bad_name _ _ _ _ _ _ _ _ _ _ _ _ hs hn] at h; cases h
      · rw [Decode.decodeSeg_five _ _ _ _ _ _ _ _ _ _ _ _ hs hn] at h
        cases h
        refine ⟨Nat.lt_succ_self _, wrapU32_lt _, wrapU32_lt _, wrapU32_lt _, Or.inr ⟨?_, Or.inr ?_⟩⟩
        · show ((st.src : Int) + n1).toNat < nsrc
          omega
        · show ((st.name : Int) + n4).toNat < nn
          omega
  · cases h

theorem decodeSegs_out {nsrc nn dl B : Nat} {bits : List Bool} (hB : dl < B) :
    ∀ (segs : List (List Nat)) (i dc : Nat) (st : DState) (acc : List Tok) (r : DState × List Tok),
    (∀ t ∈ acc, OutTok nsrc nn B t) → decodeSegs nsrc nn dl bits segs i dc st acc = .ok r →
    ∀ t ∈ r.2, OutTok nsrc nn B t := by
  intro segs
  induction segs with
  | nil =>
    intro i dc st acc r ha h
    rw [decodeSegs] at h
    cases h
    exact ha
  | cons seg segs ih =>
    intro i dc st acc r ha h
    rcases Decode.decodeSegs_cons_inv h with ⟨_, h'⟩ | ⟨_, nums, t, dc', st', _, hd, h'⟩
    · exact ih (i + 1) dc st acc r ha h'
    · refine ih (i + 1) dc' st' (t :: acc) r ?_ h'
      intro t' ht'
      rcases List.mem_cons.mp ht' with rfl | ht'
      · exact (decodeSeg_ok_out hd).mono hB
      · exact ha t' ht'

theorem decodeLines_out {nsrc nn B : Nat} :
    ∀ (lines rl : List (List Nat)) (dl : Nat) (st : DState) (acc ts : List Tok),
    dl + lines.length ≤ B →
    (∀ t ∈ acc, OutTok nsrc nn B t) → decodeLines nsrc nn lines rl dl st acc = .ok ts →
    ∀ t ∈ ts, OutTok nsrc nn B t := by
  intro lines
  induction lines with
  | nil =>
    intro rl dl st acc ts _ ha h
    rw [decodeLines] at h
    cases h
    intro t ht
    exact ha t (List.mem_reverse.mp ht)
  | cons line lines ih =>
    intro rl dl st acc ts hB ha h
    have hB' : dl + 1 + lines.length ≤ B := by
      rw [List.length_cons] at hB; omega
    have hdl : dl < B := by omega
    rcases Decode.decodeLines_cons_inv h with ⟨_, h'⟩ | ⟨_, bits, st', acc', _, hd, h'⟩
    · exact ih rl.tail (dl + 1) st acc ts hB' ha h'
    · exact ih rl.tail (dl + 1) st' acc' ts hB' (decodeSegs_out hdl _ _ _ _ _ _ ha hd) h'

theorem decodeMappings_out {mp rmi : List Nat} {nsrc nn : Nat} {ts : List Tok}
    (h : decodeMappings mp rmi nsrc nn = .ok ts) :
    ∀ t ∈ ts, OutTok nsrc nn (splitOn SEMI mp).length t := by
  unfold decodeMappings at h
  exact decodeLines_out _ _ _ _ _ _ (by omega) (by intro t ht; cases ht) h

theorem OutTok.wf {nsrc nn B : Nat} {t : Tok} (h : OutTok nsrc nn B t)
    (hB : B ≤ U32) (hs : nsrc < U32) (hn : nn < U32) : wfTok nsrc t = true := by
  obtain ⟨h1, h2, h3, h4, h5⟩ := h
  unfold wfTok
  simp only [Bool.and_eq_true, Bool.or_eq_true, decide_eq_true_eq]
  unfold NONE U32 at *
  rcases h5 with ⟨a, b, _, _⟩ | ⟨a, b⟩
  · refine ⟨⟨⟨⟨⟨⟨?_, h2⟩, h3⟩, h4⟩, ?_⟩, ?_⟩, Or.inl a⟩ <;> omega
  · refine ⟨⟨⟨⟨⟨⟨?_, h2⟩, h3⟩, h4⟩, ?_⟩, ?_⟩, Or.inr a⟩ <;> omega

theorem OutTok.norm {nsrc nn B : Nat} {t : Tok} (h : OutTok nsrc nn B t) (hs : nsrc < U32) :
    normTok nn t = t := by
  obtain ⟨_, _, _, _, h5⟩ := h
  unfold normTok
  rcases h5 with ⟨a, b, c, d⟩ | ⟨a, b⟩
  · rw [if_pos a]
    cases t
    simp only at a b c d
    subst b c d
    rfl
  · have hne : ¬ t.src = NONE := by
      unfold NONE U32 at *; omega
    rw [if_neg hne]
    by_cases hnm : t.name = NONE
    · have : ¬ (t.name ≠ NONE ∧ t.name < nn) := fun x => x.1 hnm
      rw [if_neg this]
      cases t
      simp only at hnm
      subst hnm
      rfl
    · have : t.name ≠ NONE ∧ t.name < nn := ⟨hnm, b.resolve_left hnm⟩
      rw [if_pos this]

/-- the document is not astronomically large (the model's lists are unbounded; Rust's `u32` casts of
the line counter and of the array lengths are not modelled) -/
def SmallFlat (f : RawFlat) : Prop :=
  (splitOn SEMI (f.mappings.getD [])).length ≤ U32 ∧ (f.sources.getD []).length < U32 ∧
    (f.names.getD []).length < U32

/-- R4: what `decode_regular` returns is `Decoded` -/
theorem decodeRegular_decoded (f : RawFlat) (m : SMap) (hs : SmallFlat f) (h : decodeRegular f = .ok m) :
    Decoded m := by
  obtain ⟨toks, hd, rfl⟩ := decodeRegular_ok h
  obtain ⟨hl, hsrc, hnm⟩ := hs
  have hout := decodeMappings_out hd
  have hsort := C04.c04_sorted_new toks
  have hmem : ∀ t ∈ (builtMap f toks).tokens, t ∈ toks := fun t ht => hsort.2.mem_iff.mp ht
  refine ⟨⟨?_, hsort.1, rfl, ignoreOf_pairwise _ [] List.Pairwise.nil⟩, ?_⟩
  · unfold wfToks
    rw [List.all_eq_true]
    intro t ht
    show wfTok (sourcesOf f).length t = true
    rw [sourcesOf_length]
    exact (hout t (hmem t ht)).wf hl hsrc hnm
  · intro t ht
    show normTok (namesOf f).length t = t
    rw [namesOf_length]
    exact (hout t (hmem t ht)).norm hsrc

/-! ### non-vacuity -/

/-- a map with a duplicate token, a source-less token, a source root, more contents than sources -/
def exMap : SMap :=
  { file := some [97]
    tokens := [⟨0, 0, 0, 0, 0, 0, true⟩, ⟨0, 0, 0, 0, 0, 0, true⟩, ⟨0, 5, 3, 2, 1, NONE, false⟩,
      ⟨2, 1, 0, 0, NONE, NONE, false⟩, ⟨2, 9, 1, 4, 0, 1, true⟩]
    names := [[120], [121]]
    root := some [114]
    sources := [[97], [47, 98]]
    prefixed := some [[114, 47, 97], [47, 98]]
    contents := [none, some [1], some [2]]
    ignore := [0, 1] }

theorem exMap_wf : WfMap exMap where
  toks := by decide
  sorted := by simp [exMap, SortedByPos, posLe, Tok.pos]
  prefixed := by decide
  ignore := by simp [exMap]

example : Decoded exMap := ⟨exMap_wf, by decide⟩
example : canon exMap ≠ exMap := by decide

/-- `AAAA,CAAC;;AACAA`, rangeMappings `C;;B`, one source, one name, ignoreList `[0, 0]` -/
def exFlat : RawFlat :=
  { sources := some [some [97]]
    names := some [.str [120]]
    mappings := some [65,65,65,65,44,67,65,65,67,59,59,65,65,67,65,65]
    rangeMappings := some [67,59,59,66]
    ignoreList := some [0, 0] }

example : SmallFlat exFlat := by
  have e : splitOn SEMI (exFlat.mappings.getD []) =
      [[65,65,65,65,44,67,65,65,67], [], [65,65,67,65,65]] := by rfl
  refine ⟨?_, ?_, ?_⟩
  · rw [e]; simp [U32]
  · simp [exFlat, U32]
  · simp [exFlat, U32]
example : ∃ m, decodeRegular exFlat = .ok m := ⟨_, rfl⟩

end SmVerif.RawRt
