import SmVerif.Proofs.IndexLookup
import SmVerif.Proofs.IndexFlat
/-
C08 helper lemmas, part 5: the section shift as an order embedding, and what well-formedness of an
index says about the flattened token list: it is already in order, every token of an earlier
section lies before a later section's offset, every token lies at or after its section's offset.
-/
namespace SmVerif.IndexP
open SmVerif SmVerif.Lookup SmVerif.Index SmVerif.Index.Spec

/-! ### the shift on positions -/

def shiftP (o p : Pos) : Pos := (p.1 + o.1, if p.1 = 0 then p.2 + o.2 else p.2)

theorem shiftV_pos (ol oc : Nat) (v : VTok) : (shiftV ol oc v).pos = shiftP (ol, oc) v.pos := rfl

theorem shift_le (o p q : Pos) (h : posLe o q = true) : posLe (shiftP o p) q = posLe p (subPos q o) := by
  obtain ⟨o1, o2⟩ := o; obtain ⟨p1, p2⟩ := p; obtain ⟨q1, q2⟩ := q
  rw [posLe_iff] at h
  simp only at h
  rw [Bool.eq_iff_iff, posLe_iff, posLe_iff]
  simp only [shiftP, subPos]
  by_cases h0 : p1 = 0 <;> by_cases h1 : q1 = o1 <;> simp only [h0, h1, ↓reduceIte] <;> omega

theorem shift_lt (o p q : Pos) (h : posLe o q = true) : posLt q (shiftP o p) = posLt (subPos q o) p := by
  obtain ⟨o1, o2⟩ := o; obtain ⟨p1, p2⟩ := p; obtain ⟨q1, q2⟩ := q
  rw [posLe_iff] at h
  simp only at h
  rw [Bool.eq_iff_iff, posLt_iff, posLt_iff]
  simp only [shiftP, subPos]
  by_cases h0 : p1 = 0 <;> by_cases h1 : q1 = o1 <;> simp only [h0, h1, ↓reduceIte] <;> omega

theorem shift_eq (o p q : Pos) (h : posLe o q = true) : shiftP o p = q ↔ p = subPos q o := by
  obtain ⟨o1, o2⟩ := o; obtain ⟨p1, p2⟩ := p; obtain ⟨q1, q2⟩ := q
  rw [posLe_iff] at h
  simp only at h
  simp only [shiftP, subPos, Prod.mk.injEq]
  by_cases h0 : p1 = 0 <;> by_cases h1 : q1 = o1 <;> simp only [h0, h1, ↓reduceIte] <;> omega

theorem shift_ge (o p : Pos) : posLe o (shiftP o p) = true := by
  obtain ⟨o1, o2⟩ := o; obtain ⟨p1, p2⟩ := p
  rw [posLe_iff]
  simp only [shiftP]
  by_cases h0 : p1 = 0 <;> simp only [h0, ↓reduceIte] <;> omega

theorem shift_mono (o p p' : Pos) (h : posLe p p' = true) : posLe (shiftP o p) (shiftP o p') = true := by
  obtain ⟨o1, o2⟩ := o; obtain ⟨p1, p2⟩ := p; obtain ⟨q1, q2⟩ := p'
  rw [posLe_iff] at h ⊢
  simp only at h
  simp only [shiftP]
  by_cases h0 : p1 = 0 <;> by_cases h1 : q1 = 0 <;> simp only [h0, h1, ↓reduceIte] <;>
    first | omega | (simp only [true_and]; omega)

/-! ### ordered token lists -/

def SortedX (xs : List XTok) : Prop := xs.Pairwise fun a b => posLe a.v.pos b.v.pos = true

theorem sortedB_iff (ts : List Tok) : SortedB ts = true ↔ SortedT ts := by
  induction ts with
  | nil => simp [SortedB, SortedT]
  | cons t rest ih =>
    rw [SortedB, Bool.and_eq_true, ih]
    unfold SortedT
    rw [List.pairwise_cons, List.all_eq_true]

theorem sortX_sorted (xs : List XTok) : SortedX (sortX xs) := by
  unfold SortedX sortX
  exact List.pairwise_mergeSort (le := fun a b : XTok => posLe a.v.pos b.v.pos)
    (fun a b c h1 h2 => posLe_trans h1 h2)
    (fun a b => by rcases posLe_total a.v.pos b.v.pos with h | h <;> simp [h]) xs

theorem sortX_of_sorted (xs : List XTok) (h : SortedX xs) : sortX xs = xs := by
  unfold sortX; exact List.mergeSort_of_pairwise h

theorem wf_index (f : Option Bytes) (secs : Secs) : wf (.index f secs) = wfSecs secs := by
  rw [wf, wfG, wfSecs]

theorem specX_sorted (d : DMap) (h : wf d = true) : SortedX (specX d) := by
  cases d with
  | regular m =>
    rw [wf, wfG, sortedB_iff] at h
    rw [specX, SortedX, List.pairwise_map]
    exact h
  | hermes m =>
    rw [wf, wfG, sortedB_iff] at h
    rw [specX, SortedX, List.pairwise_map]
    exact h
  | index f secs => rw [specX]; exact sortX_sorted _

/-! ### sections as a list -/

/-- the shifted tokens one section contributes -/
def secX (s : Pos × Option DMap) : List XTok :=
  match s.2 with
  | none => []
  | some d => (specX d).map (shiftX s.1.1 s.1.2)

theorem specSecs_eq : (secs : Secs) → specSecs secs = (sections secs).flatMap secX
  | .nil => rfl
  | .unres _ _ _ rest => by rw [specSecs, sections, List.flatMap_cons, specSecs_eq rest]; rfl
  | .cons _ _ _ _ rest => by rw [specSecs, sections, List.flatMap_cons, specSecs_eq rest]; rfl

theorem firstOffset_eq : (secs : Secs) → firstOffset secs = ((sections secs)[0]?).map (·.1)
  | .nil => rfl
  | .unres _ _ _ _ => rfl
  | .cons _ _ _ _ _ => rfl

theorem secX_ge (s : Pos × Option DMap) (x : XTok) (hx : x ∈ secX s) : posLe s.1 x.v.pos = true := by
  unfold secX at hx
  cases hs : s.2 with
  | none => rw [hs] at hx; simp at hx
  | some d =>
    rw [hs] at hx
    obtain ⟨y, _, rfl⟩ := List.mem_map.mp hx
    exact shift_ge s.1 y.v.pos

/-- what `wfSecs` says, section by section -/
theorem wfSecs_sections : (secs : Secs) → wfSecs secs = true →
    (∀ (j : Nat) (s : Pos × Option DMap), (sections secs)[j]? = some s →
      ∃ d, s.2 = some d ∧ wf d = true ∧ (specX d).all (fun x => fitsShift s.1.1 s.1.2 x.v) = true) ∧
    (∀ (j : Nat) (s s' : Pos × Option DMap), (sections secs)[j]? = some s → (sections secs)[j + 1]? = some s' →
      posLt s.1 s'.1 = true ∧ ∀ x ∈ secX s, posLt x.v.pos s'.1 = true)
  | .nil, _ => ⟨fun j s h => by simp [sections] at h, fun j s s' h => by simp [sections] at h⟩
  | .unres _ _ _ _, h => by rw [wfSecs, wfSecsG] at h; simp at h
  | .cons ol oc url d rest, h => by
    rw [wfSecs, wfSecsG] at h
    simp only [Bool.and_eq_true] at h
    obtain ⟨⟨⟨hd, hfit⟩, hnext⟩, hrest⟩ := h
    obtain ⟨ih1, ih2⟩ := wfSecs_sections rest hrest
    constructor
    · intro j s hs
      cases j with
      | zero =>
        simp only [sections, List.getElem?_cons_zero, Option.some.injEq] at hs
        subst hs
        exact ⟨d, rfl, hd, hfit⟩
      | succ j => exact ih1 j s (by simpa [sections] using hs)
    · intro j s s' hs hs'
      cases j with
      | zero =>
        simp only [sections, List.getElem?_cons_zero, Option.some.injEq] at hs
        subst hs
        have hs'' : (sections rest)[0]? = some s' := by simpa [sections] using hs'
        rw [firstOffset_eq, hs''] at hnext
        simp only [Option.map_some, Bool.and_eq_true, List.all_eq_true] at hnext
        refine ⟨hnext.1, ?_⟩
        intro x hx
        simp only [secX] at hx
        obtain ⟨y, hy, rfl⟩ := List.mem_map.mp hx
        exact hnext.2 y hy
      | succ j =>
        exact ih2 j s s' (by simpa [sections] using hs) (by simpa [sections] using hs')

theorem offsets_strict : (secs : Secs) → wfSecs secs = true →
    (offsets secs).Pairwise (fun a b => posLt a b = true) := by
  intro secs h
  obtain ⟨_, h2⟩ := wfSecs_sections secs h
  rw [offsets_eq]
  -- adjacent offsets increase, hence all do
  have key : ∀ (l : List (Pos × Option DMap)),
      (∀ (j : Nat) (s s' : Pos × Option DMap), l[j]? = some s → l[j + 1]? = some s' → posLt s.1 s'.1 = true) →
      (l.map (·.1)).Pairwise (fun a b => posLt a b = true) := by
    intro l
    induction l with
    | nil => intro _; exact List.Pairwise.nil
    | cons a l ih =>
      intro hadj
      have hl := ih (fun j s s' hs hs' => hadj (j + 1) s s' (by simpa using hs) (by simpa using hs'))
      rw [List.map_cons, List.pairwise_cons]
      refine ⟨?_, hl⟩
      intro b hb
      cases l with
      | nil => simp at hb
      | cons c l' =>
        have hac : posLt a.1 c.1 = true := hadj 0 a c (by simp) (by simp)
        rw [List.map_cons, List.mem_cons] at hb
        rcases hb with rfl | hb
        · exact hac
        · rw [List.map_cons, List.pairwise_cons] at hl
          have hcb := hl.1 b hb
          rw [posLt_iff] at hac hcb ⊢; omega
  exact key _ (fun j s s' hs hs' => (h2 j s s' hs hs').1)

/-- every token of a section before the `i`-th lies strictly before the `i`-th section's offset -/
theorem before_section (secs : Secs) (h : wfSecs secs = true) (i : Nat) (s : Pos × Option DMap)
    (hs : (sections secs)[i]? = some s) :
    ∀ x ∈ ((sections secs).take i).flatMap secX, posLt x.v.pos s.1 = true := by
  intro x hx
  obtain ⟨s0, hs0, hx0⟩ := List.mem_flatMap.mp hx
  obtain ⟨j, hj, hjs⟩ := List.getElem_of_mem hs0
  rw [List.length_take] at hj
  rw [List.getElem_take] at hjs
  have hi : i < (sections secs).length := by
    rcases Nat.lt_or_ge i (sections secs).length with h' | h'
    · exact h'
    · rw [List.getElem?_eq_none h'] at hs; exact absurd hs (by simp)
  have hji : j < i := by omega
  have hjl : j + 1 < (sections secs).length := by omega
  obtain ⟨_, h2⟩ := wfSecs_sections secs h
  have hstep := (h2 j s0 (sections secs)[j + 1] (by rw [List.getElem?_eq_getElem (by omega), hjs])
    (List.getElem?_eq_getElem hjl)).2 x hx0
  -- offset j+1 is at or before offset i
  have hinc := offsets_strict secs h
  have hle : posLe (sections secs)[j + 1].1 s.1 = true := by
    have hsi : (sections secs)[i] = s := by
      rw [List.getElem?_eq_getElem hi] at hs; exact Option.some.inj hs
    by_cases heq : j + 1 = i
    · subst heq; rw [hsi]; exact posLe_refl _
    · have hlt := strict_getD hinc (show j + 1 < i by omega) (by rw [offsets_eq, List.length_map]; exact hi)
      rw [getD_offsets secs (j + 1) _ (List.getElem?_eq_getElem hjl), getD_offsets secs i s hs] at hlt
      rw [posLe_iff]; rw [posLt_iff] at hlt; omega
  exact posLt_of_lt_of_le hstep hle

/-- a token of a later section lies at or after that section's offset -/
theorem after_section (secs : Secs) (i : Nat) (q : Pos)
    (hq : ∀ (j : Nat) (s' : Pos × Option DMap), i < j → (sections secs)[j]? = some s' → posLt q s'.1 = true) :
    ∀ x ∈ ((sections secs).drop (i + 1)).flatMap secX, posLt q x.v.pos = true := by
  intro x hx
  obtain ⟨s0, hs0, hx0⟩ := List.mem_flatMap.mp hx
  obtain ⟨j, hj, hjs⟩ := List.getElem_of_mem hs0
  rw [List.length_drop] at hj
  rw [List.getElem_drop] at hjs
  have h1 := hq (i + 1 + j) s0 (by omega) (by rw [List.getElem?_eq_getElem (by omega), hjs])
  exact posLt_of_lt_of_le h1 (secX_ge s0 x hx0)

/-- the flattened token list of a well-formed index is already in order -/
theorem specSecs_sorted : (secs : Secs) → wfSecs secs = true →
    SortedX (specSecs secs) ∧ ∀ x ∈ specSecs secs, ∀ o, firstOffset secs = some o → posLe o x.v.pos = true
  | .nil, _ => ⟨List.Pairwise.nil, fun x hx => by simp [specSecs] at hx⟩
  | .unres _ _ _ _, h => by rw [wfSecs, wfSecsG] at h; simp at h
  | .cons ol oc url d rest, h => by
    have h' := h
    rw [wfSecs, wfSecsG] at h'
    simp only [Bool.and_eq_true] at h'
    obtain ⟨⟨⟨hd, _⟩, hnext⟩, hrest⟩ := h'
    obtain ⟨ihs, ihge⟩ := specSecs_sorted rest hrest
    have hdsorted := specX_sorted d hd
    constructor
    · rw [specSecs, SortedX, List.pairwise_append]
      refine ⟨?_, ihs, ?_⟩
      · rw [List.pairwise_map]
        exact hdsorted.imp fun {a b} hab => shift_mono (ol, oc) a.v.pos b.v.pos hab
      · intro a ha b hb
        -- a is before the next offset, b at or after it
        cases hfo : firstOffset rest with
        | none =>
          exfalso
          cases rest with
          | nil => simp [specSecs] at hb
          | unres _ _ _ _ => simp [firstOffset] at hfo
          | cons _ _ _ _ _ => simp [firstOffset] at hfo
        | some o' =>
          rw [hfo] at hnext
          simp only [Bool.and_eq_true, List.all_eq_true] at hnext
          obtain ⟨y, hy, rfl⟩ := List.mem_map.mp ha
          have h1 : posLt (shiftX ol oc y).v.pos o' = true := hnext.2 y hy
          have h2 := ihge b hb o' hfo
          have := posLt_of_lt_of_le h1 h2
          rw [posLe_iff]; rw [posLt_iff] at this
          exact Or.elim this Or.inl (fun h => Or.inr ⟨h.1, by omega⟩)
    · intro x hx o ho
      simp only [firstOffset, Option.some.injEq] at ho
      subst ho
      rw [specSecs_eq] at hx
      obtain ⟨s0, hs0, hx0⟩ := List.mem_flatMap.mp hx
      have hge := secX_ge s0 x hx0
      -- s0 is the head or a later section, whose offset is after (ol, oc)
      rw [sections, List.mem_cons] at hs0
      rcases hs0 with rfl | hs0
      · exact hge
      · have hinc := offsets_strict _ h
        rw [offsets, List.pairwise_cons] at hinc
        have := hinc.1 s0.1 (by rw [offsets_eq]; exact List.mem_map_of_mem hs0)
        rw [posLe_iff] at hge ⊢; rw [posLt_iff] at this; omega

end SmVerif.IndexP
