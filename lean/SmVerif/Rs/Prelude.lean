import SmVerif.Model.Basic
/-
Vocabulary of the code that `tools/rs2lean` generates from `/repo/src/*.rs`
(`SmVerif/Generated/Rs*.lean`).  Import-free like the model, so that the driver can run
generated code too.

Conventions of the translation (the translator's contract, part of the trusted base):

* unsigned Rust integers (`u8 u16 u32 u64 usize`) are `Nat`, signed ones are `Int`; every
  arithmetic operation is emitted with the guard that rustc's overflow checks apply
  (`a + b` on `u32` becomes `if a + b ≤ 4294967295 then … else .error .panic`), shifts and
  `as` casts truncate as two's complement (`wrapS`, `% 2^n`);
* `&str`, `String`, `&[u8]`, `Vec<u8>` are `List Nat` (bytes); `Vec<T>`/slices are `List T`;
* every translated function returns `Res α` = `Except Err α`: `.error .panic` where the Rust
  code panics, `.error .diverge` when a `loop`/`while` runs out of the fuel it was given,
  the crate's own `Error` variants mapped to `Err` (payloads dropped);
* `&mut` parameters are returned next to the result;
* a `for` loop is a structurally recursive auxiliary function over the list it iterates,
  a `while`/`loop` one over a fuel argument.
-/
namespace SmVerif.Rs
open SmVerif

/-- two's-complement truncation of `x` to a signed integer of `bits` bits -/
def wrapS (bits : Nat) (x : Int) : Int :=
  (x + 2 ^ (bits - 1)) % 2 ^ bits - 2 ^ (bits - 1)

/-- the unsigned `bits`-bit pattern of a signed value -/
def toU (bits : Nat) (x : Int) : Nat := (x % 2 ^ bits).toNat

/-- signed value of an unsigned `bits`-bit pattern -/
def ofU (bits : Nat) (n : Nat) : Int :=
  if n % 2 ^ bits < 2 ^ (bits - 1) then ((n % 2 ^ bits : Nat) : Int) else ((n % 2 ^ bits : Nat) : Int) - 2 ^ bits

/-- `a & b` on a signed type -/
def andS (bits : Nat) (a b : Int) : Int := ofU bits (toU bits a &&& toU bits b)
/-- `a | b` on a signed type -/
def orS (bits : Nat) (a b : Int) : Int := ofU bits (toU bits a ||| toU bits b)
/-- `a ^ b` on a signed type -/
def xorS (bits : Nat) (a b : Int) : Int := ofU bits (toU bits a ^^^ toU bits b)
/-- `!a` on an unsigned type -/
def notU (bits : Nat) (a : Nat) : Nat := 2 ^ bits - 1 - a % 2 ^ bits

/-- `xs[i]` -/
def rsIndex {α} (xs : List α) (i : Nat) : Res α :=
  match xs[i]? with
  | some v => .ok v
  | none => .error .panic

/-- `&xs[a..b]` (panics unless `a ≤ b ≤ len`) -/
def rsSlice {α} (xs : List α) (a b : Nat) : Res (List α) :=
  if a ≤ b ∧ b ≤ xs.length then .ok ((xs.drop a).take (b - a)) else .error .panic

/-- `xs.iter().enumerate()` -/
def enumFrom {α} : Nat → List α → List (Nat × α)
  | _, [] => []
  | n, x :: xs => (n, x) :: enumFrom (n + 1) xs

def rsEnumerate {α} (xs : List α) : List (Nat × α) := enumFrom 0 xs

/-- `(a..b)` as a list -/
def rsRange (a b : Nat) : List Nat := (List.range (b - a)).map (· + a)

/-- `s.split(c)` on bytes: the pieces between occurrences of `c` (always at least one piece) -/
def rsSplitOn (c : Nat) : List Nat → List (List Nat)
  | [] => [[]]
  | x :: xs =>
    if x = c then [] :: rsSplitOn c xs
    else match rsSplitOn c xs with
      | [] => [[x]]
      | p :: ps => (x :: p) :: ps

/-- `xs.zip(ys.chain(repeat(pad)))` -/
def rsZipPad {α β} : List α → List β → β → List (α × β)
  | [], _, _ => []
  | x :: xs, [], pad => (x, pad) :: rsZipPad xs [] pad
  | x :: xs, y :: ys, pad => (x, y) :: rsZipPad xs ys pad

/-- `v.resize(n, x)` -/
def rsResize {α} (xs : List α) (n : Nat) (x : α) : List α :=
  if n ≤ xs.length then xs.take n else xs ++ List.replicate (n - xs.length) x

/-- `bits[a..b].store_le::<u8>(v)` on a `BitVec<u8, Lsb0>`: bit `i` of `v` goes to position `a + i`.
bitvec panics on an empty or over-wide (> 8 bit) region, and the slicing panics unless `a ≤ b ≤ len`. -/
def rsStoreLe (bits : List Bool) (a b v : Nat) : Res (List Bool) :=
  if a < b ∧ b ≤ bits.length ∧ b - a ≤ 8 then
    .ok (bits.take a ++ (List.range (b - a)).map (fun i => v.testBit i) ++ bits.drop b)
  else .error .panic

/-- `slice.partition_point(pred)` as std implements it: `binary_search_by(|x| if pred(x) {Less} else {Greater})
.unwrap_or_else(|i| i)` - the same halving loop as `bsLoop`, the probe moving `base` to `mid` while `pred` holds -/
def ppLoop {α} (pred : α → Bool) (xs : List α) : Nat → Nat → Nat → Nat
  | 0, _, base => base
  | fuel + 1, size, base =>
    if size ≤ 1 then base
    else
      let half := size / 2
      let mid := base + half
      let base := match xs[mid]? with
        | some x => if pred x then mid else base
        | none => base
      ppLoop pred xs fuel (size - half) base

def rsPartitionPoint {α} (pred : α → Bool) (xs : List α) : Nat :=
  if xs.length = 0 then 0
  else
    let base := ppLoop pred xs xs.length xs.length 0
    match xs[base]? with
    | some x => if pred x then base + 1 else base
    | none => base

/-- `bytes.view_bits::<Lsb0>()`: bit `8*i + j` is bit `j` of byte `i` -/
def rsViewBits : List Nat → List Bool
  | [] => []
  | b :: bs => (List.range 8).map (fun j => b.testBit j) ++ rsViewBits bs

/-- `bits.load::<u8>()` on an `Lsb0` region of at most 8 bits: bit `i` has weight `2^i` -/
def rsLoadLe : List Bool → Nat
  | [] => 0
  | b :: bs => (if b then 1 else 0) + 2 * rsLoadLe bs

/-- `bits.chunks(n)` (`n ≠ 0`): consecutive pieces of length `n`, the last one possibly shorter -/
def rsChunks {α} (n : Nat) (xs : List α) : List (List α) :=
  if h : n = 0 ∨ xs = [] then [] else xs.take n :: rsChunks n (xs.drop n)
termination_by xs.length
decreasing_by
  have h1 : n ≠ 0 := fun e => h (Or.inl e)
  have h2 : xs ≠ [] := fun e => h (Or.inr e)
  have : 0 < xs.length := List.length_pos_iff.mpr h2
  simp only [List.length_drop]
  omega

/-- `bytes.view_bits_mut::<Lsb0>().set(i, b)`: panics when `i` is past the last bit -/
def rsSetBit (bytes : List Nat) (i : Nat) (b : Bool) : Res (List Nat) :=
  match bytes[i / 8]? with
  | none => .error .panic
  | some byte =>
    let bit := 2 ^ (i % 8)
    let cleared := if byte.testBit (i % 8) then byte - bit else byte
    .ok (bytes.set (i / 8) (if b then cleared + bit else cleared))

/-- `Option<T: Ord>` comparison: `None` is below every `Some`; `strict` selects `<` or `≤` -/
def rsOptLt (strict : Bool) : Option Nat → Option Nat → Bool
  | none, none => !strict
  | none, some _ => true
  | some _, none => false
  | some a, some b => if strict then decide (a < b) else decide (a ≤ b)

/-- `s.split(&[c1, c2, …][..])`: pieces between occurrences of any of the listed bytes -/
def rsSplitAny (cs : List Nat) : List Nat → List (List Nat)
  | [] => [[]]
  | x :: xs =>
    if cs.contains x then [] :: rsSplitAny cs xs
    else match rsSplitAny cs xs with
      | [] => [[x]]
      | p :: ps => (x :: p) :: ps

/-- `pieces.join(sep)` -/
def rsJoin (sep : List Nat) : List (List Nat) → List Nat
  | [] => []
  | [p] => p
  | p :: q :: rest => p ++ sep ++ rsJoin sep (q :: rest)

/-- insertion into a list sorted by `key`, after all elements with a smaller or equal key (stable) -/
def rsInsertByKey {α} (key : α → Nat) (x : α) : List α → List α
  | [] => [x]
  | y :: ys => if key x < key y then x :: y :: ys else y :: rsInsertByKey key x ys

/-- `v.sort_by_key(key)` (a stable sort) -/
def rsSortByKey {α} (key : α → Nat) (xs : List α) : List α :=
  xs.foldl (fun acc x => rsInsertByKey key x acc) []

/-- lexicographic `<` on pairs, the `Ord` of `(u32, u32)` -/
def ltPair (a b : Nat × Nat) : Bool := decide (a.1 < b.1 ∨ (a.1 = b.1 ∧ a.2 < b.2))

/-- outcome of a loop body that may `return` from the enclosing function -/
inductive Exit (ρ σ : Type) where
  | done (s : σ)   -- the loop ended (exhausted or `break`), final values of the mutated variables
  | ret (v : ρ)    -- `return v` inside the loop

/-- `slice.binary_search_by_key(key, f)` as std implements it (library/core/src/slice/mod.rs,
`binary_search_by`): `size` halves, `base` moves right while `f(base + half) ≤ key`; the
final comparison decides between `Ok(base)` and `Err(base + (cmp == Less))`.  -/
def bsLoop {κ} (lt : κ → κ → Bool) (keys : List κ) (key : κ) : Nat → Nat → Nat → Nat
  | 0, _, base => base
  | fuel + 1, size, base =>
    if size ≤ 1 then base
    else
      let half := size / 2
      let mid := base + half
      let base := match keys[mid]? with
        | some k => if lt key k then base else mid   -- cmp == Greater → keep base, else mid
        | none => base
      bsLoop lt keys key fuel (size - half) base

/-- `Ok(i)` → `.ok i`, `Err(i)` → `.error i` -/
def binarySearchBy {κ} (lt : κ → κ → Bool) (keys : List κ) (key : κ) : Except Nat Nat :=
  if keys.length = 0 then .error 0
  else
    let base := bsLoop lt keys key keys.length keys.length 0
    match keys[base]? with
    | none => .error 0
    | some k =>
      if !lt k key && !lt key k then .ok base
      else if lt k key then .error (base + 1) else .error base

end SmVerif.Rs
