import SmVerif.Model.Basic
/-
Vocabulary of the code that `tools/rs2lean` generates from `/repo/src/*.rs`
(`SmVerif/Generated/Rs*.lean`).  Import-free like the model, so that the driver can run
generated code too.

Conventions of the translation (the translator's contract, part of the trusted base):

* unsigned Rust integers (`u8 u16 u32 u64 usize`) are `Nat`, signed ones are `Int`; every
  arithmetic operation is emitted with the guard that rustc's overflow checks apply
  (`a + b` on `u32` becomes `if a + b ≤ 4294967295 then … else .error .panic`), shifts and
  `as` casts truncate as two's complement (`wrapS`, `% 2^n`);
* `&str`, `String`, `&[u8]`, `Vec<u8>` are `List Nat` (bytes); `Vec<T>`/slices are `List T`;
* every translated function returns `Res α` = `Except Err α`: `.error .panic` where the Rust
  code panics, `.error .diverge` when a `loop`/`while` runs out of the fuel it was given,
  the crate's own `Error` variants mapped to `Err` (payloads dropped);
* `&mut` parameters are returned next to the result;
* a `for` loop is a structurally recursive auxiliary function over the list it iterates,
  a `while`/`loop` one over a fuel argument.
-/
namespace SmVerif.Rs
open SmVerif

/-- two's-complement truncation of `x` to a signed integer of `bits` bits -/
def wrapS (bits : Nat) (x : Int) : Int :=
  (x + 2 ^ (bits - 1)) % 2 ^ bits - 2 ^ (bits - 1)

/-- the unsigned `bits`-bit pattern of a signed value -/
def toU (bits : Nat) (x : Int) : Nat := (x % 2 ^ bits).toNat

/-- signed value of an unsigned `bits`-bit pattern -/
def ofU (bits : Nat) (n : Nat) : Int :=
  if n % 2 ^ bits < 2 ^ (bits - 1) then ((n % 2 ^ bits : Nat) : Int) else ((n % 2 ^ bits : Nat) : Int) - 2 ^ bits

/-- `a & b` on a signed type -/
def andS (bits : Nat) (a b : Int) : Int := ofU bits (toU bits a &&& toU bits b)
/-- `a | b` on a signed type -/
def orS (bits : Nat) (a b : Int) : Int := ofU bits (toU bits a ||| toU bits b)
/-- `a ^ b` on a signed type -/
def xorS (bits : Nat) (a b : Int) : Int := ofU bits (toU bits a ^^^ toU bits b)
/-- `!a` on an unsigned type -/
def notU (bits : Nat) (a : Nat) : Nat := 2 ^ bits - 1 - a % 2 ^ bits

/-- `xs[i]` -/
def rsIndex {α} (xs : List α) (i : Nat) : Res α :=
  match xs[i]? with
  | some v => .ok v
  | none => .error .panic

/-- `&xs[a..b]` (panics unless `a ≤ b ≤ len`) -/
def rsSlice {α} (xs : List α) (a b : Nat) : Res (List α) :=
  if a ≤ b ∧ b ≤ xs.length then .ok ((xs.drop a).take (b - a)) else .error .panic

/-- `xs.iter().enumerate()` -/
def enumFrom {α} : Nat → List α → List (Nat × α)
  | _, [] => []
  | n, x :: xs => (n, x) :: enumFrom (n + 1) xs

def rsEnumerate {α} (xs : List α) : List (Nat × α) := enumFrom 0 xs

/-- `(a..b)` as a list -/
def rsRange (a b : Nat) : List Nat := (List.range (b - a)).map (· + a)

/-- `s.split(c)` on bytes: the pieces between occurrences of `c` (always at least one piece) -/
def rsSplitOn (c : Nat) : List Nat → List (List Nat)
  | [] => [[]]
  | x :: xs =>
    if x = c then [] :: rsSplitOn c xs
    else match rsSplitOn c xs with
      | [] => [[x]]
      | p :: ps => (x :: p) :: ps

/-- `xs.zip(ys.chain(repeat(pad)))` -/
def rsZipPad {α β} : List α → List β → β → List (α × β)
  | [], _, _ => []
  | x :: xs, [], pad => (x, pad) :: rsZipPad xs [] pad
  | x :: xs, y :: ys, pad => (x, y) :: rsZipPad xs ys pad

/-- `v.resize(n, x)` -/
def rsResize {α} (xs : List α) (n : Nat) (x : α) : List α :=
  if n ≤ xs.length then xs.take n else xs ++ List.replicate (n - xs.length) x

/-- `bits[a..b].store_le::<u8>(v)` on a `BitVec<u8, Lsb0>`: bit `i` of `v` goes to position `a + i`.
bitvec panics on an empty or over-wide (> 8 bit) region, and the slicing panics unless `a ≤ b ≤ len`. -/
def rsStoreLe (bits : List Bool) (a b v : Nat) : Res (List Bool) :=
  if a < b ∧ b ≤ bits.length ∧ b - a ≤ 8 then
    .ok (bits.take a ++ (List.range (b - a)).map (fun i => v.testBit i) ++ bits.drop b)
  else .error .panic

/-- `slice.partition_point(pred)` as std implements it: `binary_search_by(|x| if pred(x) {Less} else {Greater})
.unwrap_or_else(|i| i)` - the same halving loop as `bsLoop`, the probe moving `base` to `mid` while `pred` holds -/
def ppLoop {α} (pred : α → Bool) (xs : List α) : Nat → Nat → Nat → Nat
  | 0, _, base => base
  | fuel + 1, size, base =>
    if size ≤ 1 then base
    else
      let half := size / 2
      let mid := base + half
      let base := match xs[mid]? with
        | some x => if pred x then mid else base
        | none => base
      ppLoop pred xs fuel (size - half) base

def rsPartitionPoint {α} (pred : α → Bool) (xs : List α) : Nat :=
  if xs.length = 0 then 0
  else
    let base := ppLoop pred xs xs.length xs.length 0
    match xs[base]? with
    | some x => if pred x then base + 1 else base
    | none => base

/-! ### `BufRead::lines`, `str::from_utf8`, `str::trim` -/

/-- UTF-8 well-formedness (RFC 3629: no overlong forms, no surrogates, at most U+10FFFF), as `str::from_utf8` checks it -/
def rsUtf8Valid : List Nat → Bool
  | [] => true
  | a :: r =>
    if a < 128 then rsUtf8Valid r
    else match r with
      | b :: r2 =>
        if 194 ≤ a ∧ a ≤ 223 then (128 ≤ b && b ≤ 191) && rsUtf8Valid r2
        else match r2 with
          | c :: r3 =>
            if 224 ≤ a ∧ a ≤ 239 then
              ((if a = 224 then 160 ≤ b && b ≤ 191 else if a = 237 then 128 ≤ b && b ≤ 159 else 128 ≤ b && b ≤ 191)
                && (128 ≤ c && c ≤ 191)) && rsUtf8Valid r3
            else match r3 with
              | d :: r4 =>
                if 240 ≤ a ∧ a ≤ 244 then
                  ((if a = 240 then 144 ≤ b && b ≤ 191 else if a = 244 then 128 ≤ b && b ≤ 143 else 128 ≤ b && b ≤ 191)
                    && (128 ≤ c && c ≤ 191) && (128 ≤ d && d ≤ 191)) && rsUtf8Valid r4
                else false
              | [] => false
          | [] => false
      | [] => false

/-- `str::from_utf8(bytes)`; the `Utf8Error` is reported in the `io` class (it has no class of its own in `Err`) -/
def rsFromUtf8 (bytes : List Nat) : Res (List Nat) := if rsUtf8Valid bytes then .ok bytes else .error .io

/-- the line splitting of `BufRead::lines`: pieces end at `\n` (dropped, with one preceding `\r`); a final piece
without `\n` is a line unless it is empty -/
def rsLinesAux : List Nat → List Nat → List (List Nat)
  | cur, [] => if cur.isEmpty then [] else [cur.reverse]
  | cur, b :: r =>
    if b = 10 then (let l := cur.reverse; if l.getLast? = some 13 then l.dropLast else l) :: rsLinesAux [] r
    else rsLinesAux (b :: cur) r

/-- `BufReader::new(bytes).lines()`: a line that is not valid UTF-8 is an `io::Error` (InvalidData) -/
def rsLines (bytes : List Nat) : List (Res (List Nat)) :=
  (rsLinesAux [] bytes).map fun l => if rsUtf8Valid l then .ok l else .error .io

/-- `char::is_whitespace` on UTF-8 bytes: length of the White_Space character a string starts with (0: none) -/
def rsWsLen : List Nat → Nat
  | a :: b :: c :: _ =>
    if (9 ≤ a && a ≤ 13) || a = 32 then 1
    else if a = 194 && (b = 133 || b = 160) then 2
    else if (a = 225 && b = 154 && c = 128) || (a = 226 && b = 128 && ((128 ≤ c && c ≤ 138) || c = 168 || c = 169 || c = 175))
        || (a = 226 && b = 129 && c = 159) || (a = 227 && b = 128 && c = 128) then 3
    else 0
  | [a, b] => if (9 ≤ a && a ≤ 13) || a = 32 then 1 else if a = 194 && (b = 133 || b = 160) then 2 else 0
  | [a] => if (9 ≤ a && a ≤ 13) || a = 32 then 1 else 0
  | [] => 0

/-- the same for the character a string ends with, on the reversed string -/
def rsWsLenRev : List Nat → Nat
  | a :: b :: c :: _ =>
    if (9 ≤ a && a ≤ 13) || a = 32 then 1
    else if b = 194 && (a = 133 || a = 160) then 2
    else if (c = 225 && b = 154 && a = 128) || (c = 226 && b = 128 && ((128 ≤ a && a ≤ 138) || a = 168 || a = 169 || a = 175))
        || (c = 226 && b = 129 && a = 159) || (c = 227 && b = 128 && a = 128) then 3
    else 0
  | [a, b] => if (9 ≤ a && a ≤ 13) || a = 32 then 1 else if b = 194 && (a = 133 || a = 160) then 2 else 0
  | [a] => if (9 ≤ a && a ≤ 13) || a = 32 then 1 else 0
  | [] => 0

def rsTrimStartFuel : Nat → List Nat → List Nat
  | 0, s => s
  | n + 1, s => if rsWsLen s = 0 then s else rsTrimStartFuel n (s.drop (rsWsLen s))

def rsTrimEndFuel : Nat → List Nat → List Nat
  | 0, r => r
  | n + 1, r => if rsWsLenRev r = 0 then r else rsTrimEndFuel n (r.drop (rsWsLenRev r))

/-- `str::trim` -/
def rsTrim (s : List Nat) : List Nat :=
  let t := rsTrimStartFuel s.length s
  (rsTrimEndFuel t.length t.reverse).reverse

/-- `s.chars()` on the bytes of a `&str` (valid UTF-8 by Rust's invariant): the code points.  On byte sequences that
are not valid UTF-8 the result is unspecified (lead bytes decide the length, missing bytes read as 0). -/
def rsChars : List Nat → List Nat
  | [] => []
  | b :: bs =>
    if b < 128 then b :: rsChars bs
    else if b < 224 then ((b % 32) * 64 + (bs.headD 0) % 64) :: rsChars (bs.drop 1)
    else if b < 240 then ((b % 16) * 4096 + ((bs.headD 0) % 64) * 64 + (bs.getD 1 0) % 64) :: rsChars (bs.drop 2)
    else ((b % 8) * 262144 + ((bs.headD 0) % 64) * 4096 + ((bs.getD 1 0) % 64) * 64 + (bs.getD 2 0) % 64) :: rsChars (bs.drop 3)
termination_by bs => bs.length
decreasing_by all_goals simp only [List.length_drop, List.length_cons] <;> omega

/-- `char::len_utf8` -/
def rsLenUtf8 (c : Nat) : Nat := if c < 128 then 1 else if c < 2048 then 2 else if c < 65536 then 3 else 4
/-- `char::len_utf16` -/
def rsLenUtf16 (c : Nat) : Nat := if c < 65536 then 1 else 2

/-- `char::is_ascii_alphabetic`, `char::is_ascii_alphanumeric` on a code point -/
def rsIsAsciiAlphabetic (c : Nat) : Bool := (65 ≤ c && c ≤ 90) || (97 ≤ c && c ≤ 122)
def rsIsAsciiAlphanumeric (c : Nat) : Bool := rsIsAsciiAlphabetic c || (48 ≤ c && c ≤ 57)

/-- `s.char_indices()`: every character with the byte offset it starts at -/
def rsCharIndicesFrom : Nat → List Nat → List (Nat × Nat)
  | _, [] => []
  | off, c :: cs => (off, c) :: rsCharIndicesFrom (off + (if c < 128 then 1 else if c < 2048 then 2 else if c < 65536 then 3 else 4)) cs

/-- `s.is_char_boundary(i)`: the start, the end, or a byte that is not a continuation byte -/
def rsIsCharBoundary (s : List Nat) (i : Nat) : Bool :=
  i == 0 || i == s.length || (match s[i]? with | some b => b < 128 || 192 ≤ b | none => false)

/-- `s.get(a..b)` -/
def rsStrGet (s : List Nat) (a b : Nat) : Option (List Nat) :=
  if a ≤ b ∧ b ≤ s.length ∧ rsIsCharBoundary s a ∧ rsIsCharBoundary s b then some ((s.drop a).take (b - a)) else none

def rsCharIndices (s : List Nat) : List (Nat × Nat) := rsCharIndicesFrom 0 (rsChars s)

/-- `&s[a..b]` on a `str`: panics unless `a ≤ b ≤ len` and both are character boundaries -/
def rsStrSlice (s : List Nat) (a b : Nat) : Res (List Nat) :=
  match rsStrGet s a b with
  | some r => .ok r
  | none => .error .panic

/-- `s.split_whitespace()`: maximal runs of non-whitespace characters (`char::is_whitespace`, via `rsWsLen`) -/
def rsSplitWsFuel : Nat → List Nat → List Nat → List (List Nat)
  | 0, cur, _ => if cur.isEmpty then [] else [cur.reverse]
  | _ + 1, cur, [] => if cur.isEmpty then [] else [cur.reverse]
  | n + 1, cur, b :: r =>
    let w := rsWsLen (b :: r)
    if w = 0 then rsSplitWsFuel n (b :: cur) r
    else (if cur.isEmpty then [] else [cur.reverse]) ++ rsSplitWsFuel n [] ((b :: r).drop w)

def rsSplitWhitespace (s : List Nat) : List (List Nat) := rsSplitWsFuel (s.length + 1) [] s

/-- little-endian value of a byte list -/
def rsLe : List Nat → Nat
  | [] => 0
  | b :: bs => b + 256 * rsLe bs

/-- `bytes.pread_with::<T>(off, scroll::LE)` for a packed struct `T` of `n` `u32` fields: scroll refuses an offset at
or past the end (`BadOffset`) and a read that does not fit (`TooBig`); both are `Error::Scroll` -/
def rsPreadU32s (bytes : List Nat) (off n : Nat) : Res (List Nat) :=
  if off < bytes.length ∧ off + 4 * n ≤ bytes.length then
    .ok ((List.range n).map fun i => rsLe ((bytes.drop (off + 4 * i)).take 4))
  else .error .scroll

/-- `bytes.pread_with::<&[u8]>(off, len)`: the same two refusals (in particular `off = bytes.len()` is refused even
for `len = 0`) -/
def rsPreadBytes (bytes : List Nat) (off len : Nat) : Res (List Nat) :=
  if off < bytes.length ∧ off + len ≤ bytes.length then .ok ((bytes.drop off).take len) else .error .scroll

/-- `Result::ok()`: `Err` to `None`; a panic or divergence inside the computation is not an `Err` value -/
def rsOk {α} : Res α → Res (Option α)
  | .ok v => .ok (some v)
  | .error .panic => .error .panic
  | .error .diverge => .error .diverge
  | .error _ => .ok none

/-- `bytes.view_bits::<Lsb0>()`: bit `8*i + j` is bit `j` of byte `i` -/
def rsViewBits : List Nat → List Bool
  | [] => []
  | b :: bs => (List.range 8).map (fun j => b.testBit j) ++ rsViewBits bs

/-- `bits.load::<u8>()` on an `Lsb0` region of at most 8 bits: bit `i` has weight `2^i` -/
def rsLoadLe : List Bool → Nat
  | [] => 0
  | b :: bs => (if b then 1 else 0) + 2 * rsLoadLe bs

/-- `bits.chunks(n)` (`n ≠ 0`): consecutive pieces of length `n`, the last one possibly shorter -/
def rsChunks {α} (n : Nat) (xs : List α) : List (List α) :=
  if h : n = 0 ∨ xs = [] then [] else xs.take n :: rsChunks n (xs.drop n)
termination_by xs.length
decreasing_by
  have h1 : n ≠ 0 := fun e => h (Or.inl e)
  have h2 : xs ≠ [] := fun e => h (Or.inr e)
  have : 0 < xs.length := List.length_pos_iff.mpr h2
  simp only [List.length_drop]
  omega

/-- `bytes.view_bits_mut::<Lsb0>().set(i, b)`: panics when `i` is past the last bit -/
def rsSetBit (bytes : List Nat) (i : Nat) (b : Bool) : Res (List Nat) :=
  match bytes[i / 8]? with
  | none => .error .panic
  | some byte =>
    let bit := 2 ^ (i % 8)
    let cleared := if byte.testBit (i % 8) then byte - bit else byte
    .ok (bytes.set (i / 8) (if b then cleared + bit else cleared))

/-- `Option<T: Ord>` comparison: `None` is below every `Some`; `strict` selects `<` or `≤` -/
def rsOptLt (strict : Bool) : Option Nat → Option Nat → Bool
  | none, none => !strict
  | none, some _ => true
  | some _, none => false
  | some a, some b => if strict then decide (a < b) else decide (a ≤ b)

/-- `s.split(&[c1, c2, …][..])`: pieces between occurrences of any of the listed bytes -/
def rsSplitAny (cs : List Nat) : List Nat → List (List Nat)
  | [] => [[]]
  | x :: xs =>
    if cs.contains x then [] :: rsSplitAny cs xs
    else match rsSplitAny cs xs with
      | [] => [[x]]
      | p :: ps => (x :: p) :: ps

/-- `pieces.join(sep)` -/
def rsJoin (sep : List Nat) : List (List Nat) → List Nat
  | [] => []
  | [p] => p
  | p :: q :: rest => p ++ sep ++ rsJoin sep (q :: rest)

/-- insertion into a list sorted by `key`, after all elements with a smaller or equal key (stable) -/
def rsInsertByKey {α} (key : α → Nat) (x : α) : List α → List α
  | [] => [x]
  | y :: ys => if key x < key y then x :: y :: ys else y :: rsInsertByKey key x ys

/-- `v.sort_by_key(key)` (a stable sort) -/
def rsSortByKey {α} (key : α → Nat) (xs : List α) : List α :=
  xs.foldl (fun acc x => rsInsertByKey key x acc) []

/-- insertion into a list sorted by a pair-valued `key`, after all elements with a smaller or equal key (stable) -/
def rsInsertByKeyP {α} (key : α → Nat × Nat) (x : α) : List α → List α
  | [] => [x]
  | y :: ys =>
    if decide ((key x).1 < (key y).1 ∨ ((key x).1 = (key y).1 ∧ (key x).2 < (key y).2)) then x :: y :: ys
    else y :: rsInsertByKeyP key x ys

/-- `v.sort_by_key(key)` / `v.sort_unstable_by_key(key)` with a `(u32, u32)` key, as a STABLE sort (for the unstable
one this is the trusted-base assumption of DESIGN.md section 4: elements with equal keys keep their order) -/
def rsSortByKeyP {α} (key : α → Nat × Nat) (xs : List α) : List α :=
  xs.foldl (fun acc x => rsInsertByKeyP key x acc) []

/-- `*map.entry(k).or_insert(v)` on a map kept as an association list in insertion order: the value stored under `k`
(inserting `v` when absent) and the map afterwards -/
def rsEntryOrInsert {κ ν} [DecidableEq κ] (m : List (κ × ν)) (k : κ) (v : ν) : ν × List (κ × ν) :=
  match m.find? (fun p => decide (p.1 = k)) with
  | some p => (p.2, m)
  | none => (v, m ++ [(k, v)])

/-- `s.strip_suffix(p)` -/
def rsStripSuffix (p s : List Nat) : Option (List Nat) :=
  if p.length ≤ s.length ∧ s.drop (s.length - p.length) = p then some (s.take (s.length - p.length)) else none

/-- `reader.read(buf)` for a reader that still has `chunks` to deliver: `Ok(0)` at the end of input (or into an empty
buffer), else the first `min(len(chunk), len(buf))` bytes of the next chunk into the front of `buf`; what is left of the
chunk stays first in line.  Empty chunks are skipped (a `Read` returns `Ok(0)` only at the end).
Returns (bytes read, buffer, remaining chunks). -/
def rsReaderRead : List (List Nat) → List Nat → Nat × List Nat × List (List Nat)
  | [], buf => (0, buf, [])
  | c :: cs, buf =>
    if c = [] then rsReaderRead cs buf
    else
      let k := min c.length buf.length
      (k, c.take k ++ buf.drop k, if k < c.length then c.drop k :: cs else cs)

/-- `dst[a..b].copy_from_slice(src)`: panics unless `a ≤ b ≤ dst.len()` and `src.len() = b - a` -/
def rsCopyInto {α} (dst : List α) (a b : Nat) (src : List α) : Res (List α) :=
  if a ≤ b ∧ b ≤ dst.length ∧ src.length = b - a then .ok (dst.take a ++ src ++ dst.drop b) else .error .panic

/-- lexicographic `<` on pairs, the `Ord` of `(u32, u32)` -/
def ltPair (a b : Nat × Nat) : Bool := decide (a.1 < b.1 ∨ (a.1 = b.1 ∧ a.2 < b.2))

/-- outcome of a loop body that may `return` from the enclosing function -/
inductive Exit (ρ σ : Type) where
  | done (s : σ)   -- the loop ended (exhausted or `break`), final values of the mutated variables
  | ret (v : ρ)    -- `return v` inside the loop

/-- the same for a loop whose body can also `break 'label` out of the loop that directly encloses it -/
inductive ExitB (ρ σ : Type) where
  | done (s : σ)
  | ret (v : ρ)
  | brk (s : σ)    -- `break 'label` of the directly enclosing loop, with this loop's variables

/-- `slice.binary_search_by_key(key, f)` as std implements it (library/core/src/slice/mod.rs,
`binary_search_by`): `size` halves, `base` moves right while `f(base + half) ≤ key`; the
final comparison decides between `Ok(base)` and `Err(base + (cmp == Less))`.  -/
def bsLoop {κ} (lt : κ → κ → Bool) (keys : List κ) (key : κ) : Nat → Nat → Nat → Nat
  | 0, _, base => base
  | fuel + 1, size, base =>
    if size ≤ 1 then base
    else
      let half := size / 2
      let mid := base + half
      let base := match keys[mid]? with
        | some k => if lt key k then base else mid   -- cmp == Greater → keep base, else mid
        | none => base
      bsLoop lt keys key fuel (size - half) base

/-- `Ok(i)` → `.ok i`, `Err(i)` → `.error i` -/
def binarySearchBy {κ} (lt : κ → κ → Bool) (keys : List κ) (key : κ) : Except Nat Nat :=
  if keys.length = 0 then .error 0
  else
    let base := bsLoop lt keys key keys.length keys.length 0
    match keys[base]? with
    | none => .error 0
    | some k =>
      if !lt k key && !lt key k then .ok base
      else if lt k key then .error (base + 1) else .error base

/-- `BTreeSet<u32>::insert` on the ascending duplicate-free list that represents the set -/
def rsSetInsert : List Nat → Nat → List Nat
  | [], x => [x]
  | y :: ys, x => if x < y then x :: y :: ys else if x = y then y :: ys else y :: rsSetInsert ys x

/-- `iter.map(f).collect()` with a fallible `f`: left to right, the first error wins -/
def rsMapM {α β : Type} (f : α → Res β) : List α → Res (List β)
  | [] => .ok []
  | x :: xs =>
    match f x with
    | .error e => .error e
    | .ok y =>
      match rsMapM f xs with
      | .error e => .error e
      | .ok ys => .ok (y :: ys)

end SmVerif.Rs
