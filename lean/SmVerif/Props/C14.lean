import SmVerif.Proofs.HermesMetro
import SmVerif.Proofs.HermesRound
import SmVerif.Props.C01
import SmVerif.Props.C04
/-
C14 — Hermes maps resolve tokens to the enclosing function their metadata describes.

Model: `SmVerif/Model/Hermes.lean` (decode_hermes, get_scope_for_token, get_original_function_name,
as_raw_sourcemap).  Independent reading of Metro's format: `SmVerif/Model/HermesSpec.lean`
(`Metro.read`: prefix sums; `Metro.scope`: last entry at or before the position).
Property theorems only; helper lemmas are in `SmVerif/Proofs/Hermes*.lean`.
-/
namespace SmVerif.C14
open SmVerif SmVerif.Hermes SmVerif.Lookup SmVerif.V3 SmVerif.Mappings

/-! ### the decoder is Metro's reader -/

/-- **decoder = Metro's reading.**  For every element of `x_facebook_sources` whose first metadata
entry is a well-formed text (`Metro.wfMeta`, decidable: every VLQ value fits 63 bits and, if the text
is readable at all, every running line / column / name index is a `u32`) the function map the code
builds is exactly the one the format description gives: none for `null`, `[]` and an unreadable
text, otherwise the names with the entries at the prefix sums.  Any number of `;` groups, empty
groups and segments, omitted trailing fields and extra fields. -/
theorem c14_decode_eq_metro (r : RawSrc) (hwf : Metro.wfSrc r = true) :
    decodeSrc r = .ok (Metro.fmOf r) := by
  match r, hwf with
  | none, _ => rfl
  | some [], _ => rfl
  | some (m :: _), hwf => exact decodeMeta_eq_read m hwf

/-- the same for the whole `x_facebook_sources` array -/
theorem c14_decode_all_eq_metro (raw : List RawSrc) (hwf : ∀ r ∈ raw, Metro.wfSrc r = true) :
    decodeSources raw = .ok (raw.map Metro.fmOf) := by
  rw [decodeSources_eq]
  congr 1
  apply List.map_congr_left
  intro r hr
  have h1 := decodeSrc_eq r
  rw [c14_decode_eq_metro r (hwf r hr)] at h1
  exact (Except.ok.inj h1).symm

-- non-vacuity: Metro's own layout (one group per line, third field = line delta), omitted fields,
-- an empty group, an extra field
example : Metro.wfSrc (some [{ names := [[102], [103]], mappings := [65,65,65,59,59,69,67,67,44,71,67,65,65] }]) = true := by
  decide +kernel
example : Metro.fmOf (some [{ names := [[102], [103]], mappings := [65,65,65,59,59,69,67,67,44,71,67,65,65] }]) =
    some { names := [[102], [103]], entries := [⟨1, 0, 0⟩, ⟨2, 2, 1⟩, ⟨2, 5, 2⟩] } := by
  decide +kernel
-- an unreadable text is well-formed in this sense and reads as "no function map"
example : Metro.wfSrc (some [{ names := [[102]], mappings := [65,65,33] }]) = true ∧
    Metro.fmOf (some [{ names := [[102]], mappings := [65,65,33] }]) = none := by
  decide +kernel

/-! ### the scope is the last entry at or before the position -/

/-- **scope = last entry at or before the position.**  Order assumption: the entries are in
*non-decreasing* order of (line, column) (`Metro.Sorted`; equal positions allowed - strictness is
not needed, the last of several entries at one position wins, as in Metro).  For a source line below
`u32::MAX` the answer of `get_scope_for_token` is the name the last entry (in document order) with
`(line, column) ≤ (src_line + 1, src_col)` points to - none if there is no such entry or its name
index does not resolve.

Full-strength statement (no `hl`):  `scopeAt fms src sl sc = Metro.scope fm sl sc` for every `sl`.
That is false for `sl = u32::MAX` (`c14_line_max`, `c14_line_max_witness`: the `checked_add(1)` of the
F8 repair answers none where the literal reading finds the last entry), so the hypothesis `sl < NONE`
is forced by the code as it is. -/
theorem c14_scope (fms : List (Option FMap)) (src sl sc : Nat) (fm : FMap)
    (hfm : fms[src]? = some (some fm)) (hs : Metro.Sorted fm.entries) (hl : sl < NONE) :
    scopeAt fms src sl sc = Metro.scope fm sl sc :=
  scopeAt_eq_scope fms src sl sc fm hfm hs hl

/-- the same for a bytecode offset: the token is the one `lookup_token(0, offset)` returns (C04), the
position its source line and *reported* source column (range offset included) -/
theorem c14_scope_offset (h : HMap) (off i : Nat) (t : Tok) (c : Nat) (fm : FMap)
    (hlk : lookup h.toks (0, off) = .ok (some (i, t, c)))
    (hfm : h.fms[t.src]? = some (some fm)) (hs : Metro.Sorted fm.entries) (hl : t.sl < NONE) :
    functionName h off = .ok (Metro.scope fm t.sl c) := by
  unfold functionName
  rw [hlk]
  simp only
  rw [c14_scope h.fms t.src t.sl c fm hfm hs hl]

-- non-vacuity: ties (entries 1 and 2 share a position: the later one wins on an exact hit and after)
example : Metro.Sorted [⟨1, 0, 0⟩, ⟨2, 4, 1⟩, ⟨2, 4, 2⟩, ⟨5, 1, 0⟩] := by
  simp [Metro.Sorted, posLe, Entry.pos]
example : scopeAt [some { names := [[97], [98], [99]], entries := [⟨1, 0, 0⟩, ⟨2, 4, 1⟩, ⟨2, 4, 2⟩, ⟨5, 1, 0⟩] }] 0 1 4
    = some [99] := by decide +kernel
example : scopeAt [some { names := [[97], [98], [99]], entries := [⟨1, 0, 0⟩, ⟨2, 4, 1⟩, ⟨2, 4, 2⟩, ⟨5, 1, 0⟩] }] 0 1 3
    = some [97] := by decide +kernel
/-- the order assumption is needed: on unsorted entries the bisection misses the last entry at or
before the position (here entry 2, name `c`; the code answers `a`) -/
theorem c14_scope_needs_order :
    scopeAt [some { names := [[97], [98], [99]], entries := [⟨1, 0, 0⟩, ⟨5, 0, 1⟩, ⟨1, 0, 2⟩] }] 0 1 0 = some [97] ∧
    Metro.scope { names := [[97], [98], [99]], entries := [⟨1, 0, 0⟩, ⟨5, 0, 1⟩, ⟨1, 0, 2⟩] } 1 0 = some [99] := by
  decide +kernel

/-! ### when nothing is returned -/

/-- **none cases**: (1) the source index lies beyond `x_facebook_sources`; (2) the source has no
function map (`null`, `[]`, unreadable); (3) every entry lies after the position (no order
assumption needed); (4) the token has no source (`src_id = !0`; `x_facebook_sources` has fewer than
2^32 elements); (5) no token at or before the bytecode offset. -/
theorem c14_none_cases (fms : List (Option FMap)) (src sl sc : Nat) :
    (fms[src]? = none → scopeAt fms src sl sc = none) ∧
    (fms[src]? = some none → scopeAt fms src sl sc = none) ∧
    (∀ fm, fms[src]? = some (some fm) → (∀ e ∈ fm.entries, posLt (sl + 1, sc) e.pos = true) →
      scopeAt fms src sl sc = none) ∧
    (fms.length ≤ NONE → scopeAt fms NONE sl sc = none) ∧
    (∀ (h : HMap) (off : Nat), lookup h.toks (0, off) = .ok none → functionName h off = .ok none) := by
  refine ⟨?_, ?_, ?_, ?_, ?_⟩
  · intro h; simp [scopeAt, h]
  · intro h; simp [scopeAt, h]
  · intro fm hfm hall; exact scopeAt_before_all fms src sl sc fm hfm hall
  · intro hlen; exact scopeAt_none_src fms hlen sl sc
  · intro h off hlk; simp [functionName, hlk]

/-- boundary, recorded: a token on source line `u32::MAX` gets no scope (`checked_add(1)` fails),
although every entry of the function map lies before its 1-based line 2^32 -/
theorem c14_line_max (fms : List (Option FMap)) (src sc : Nat) : scopeAt fms src NONE sc = none := by
  unfold scopeAt
  cases fms[src]? with
  | none => rfl
  | some o => cases o with
    | none => rfl
    | some fm => simp [NONE]

theorem decodeHermes_ok_inv {d : HDoc} {h : HMap} (hd : decodeHermes d = .ok h) :
    ∃ raw ts, d.fsources = some raw ∧
      decodeMappings d.mappings (d.rmi.getD []) d.nsrc d.nnames = .ok ts ∧
      h = { nsrc := d.nsrc, nnames := d.nnames, toks := sortToks ts, fms := raw.map fmModel, raw := raw } := by
  unfold decodeHermes at hd
  cases hf : d.fsources with
  | none =>
    simp only [hf] at hd
    cases hm : decodeMappings d.mappings (d.rmi.getD []) d.nsrc d.nnames with
    | error e => simp [hm] at hd
    | ok ts => simp [hm] at hd
  | some raw =>
    simp only [hf, decodeSources_eq] at hd
    cases hm : decodeMappings d.mappings (d.rmi.getD []) d.nsrc d.nnames with
    | error e => simp [hm] at hd
    | ok ts =>
      simp only [hm, Except.ok.injEq] at hd
      exact ⟨raw, ts, rfl, rfl, hd.symm⟩

/-- the witness for the hypothesis `sl < NONE` of `c14_scope`: without it the equation fails (the
code answers none, the last entry at or before line 2^32 is entry 0) -/
theorem c14_line_max_witness :
    scopeAt [some { names := [[102]], entries := [⟨1, 0, 0⟩] }] 0 NONE 0 = none ∧
    Metro.scope { names := [[102]], entries := [⟨1, 0, 0⟩] } NONE 0 = some [102] := by
  decide +kernel

/-! ### end to end: from the document to the name -/

/-- **tokens resolve to the function their metadata describes.**  For a decoded Hermes map and a
token whose source has the payload `r` (well-formed text): if Metro's reading of `r` gives no
function map the token has no scope; if it gives `fm` with entries in non-decreasing order, the
token's scope is the name of the last entry of `fm` at or before (line + 1, column). -/
theorem c14_resolves (d : HDoc) (h : HMap) (hd : decodeHermes d = .ok h) (t : Tok) (r : RawSrc)
    (hr : h.raw[t.src]? = some r) (hwf : Metro.wfSrc r = true) :
    (Metro.fmOf r = none → scopeTok h.fms t = none) ∧
    (∀ fm, Metro.fmOf r = some fm → Metro.Sorted fm.entries → t.sl < NONE →
      scopeTok h.fms t = Metro.scope fm t.sl t.sc) := by
  obtain ⟨raw, ts, _, _, rfl⟩ := decodeHermes_ok_inv hd
  simp only at hr ⊢
  have hm : fmModel r = Metro.fmOf r := by
    have h1 := decodeSrc_eq r
    rw [c14_decode_eq_metro r hwf] at h1
    exact (Except.ok.inj h1).symm
  have hf : (raw.map fmModel)[t.src]? = some (Metro.fmOf r) := by
    rw [List.getElem?_map, hr]; simp [hm]
  constructor
  · intro hn
    rw [hn] at hf
    simp [scopeTok, scopeAt, hf]
  · intro fm hfm hs hl
    rw [hfm] at hf
    exact c14_scope _ t.src t.sl t.sc fm hf hs hl

/-! ### a bad function map is a local matter -/

/-- **a function map that does not parse disables scope lookup for its source only.**
Let element `i` of `x_facebook_sources` start with a metadata entry whose text is unreadable by the
standard (foreign byte, cut-off value, over-long value; values within 63 bits).  Then whenever the
map's own `mappings` decode, the Hermes map decodes, with the same tokens; source `i` has no function
map and every scope query for it answers none; and every other source has exactly the function map
it has in any other document that differs only in element `i` (so all their answers coincide). -/
theorem c14_bad_map_local (d : HDoc) (raw : List RawSrc) (i : Nat) (m : Meta) (rest : List Meta)
    (hd : d.fsources = some raw) (hi : raw[i]? = some (some (m :: rest)))
    (hfit : Metro.fits m = true) (hbad : Metro.read m = none)
    (ts : List Tok) (hts : decodeMappings d.mappings (d.rmi.getD []) d.nsrc d.nnames = .ok ts) :
    ∃ h, decodeHermes d = .ok h ∧ h.toks = sortToks ts ∧ h.fms.length = raw.length ∧
      h.fms[i]? = some none ∧ (∀ sl sc, scopeAt h.fms i sl sc = none) ∧
      ∀ (raw' : List RawSrc) (h' : HMap), raw'.length = raw.length →
        (∀ j, j ≠ i → raw'[j]? = raw[j]?) →
        decodeHermes { d with fsources := some raw' } = .ok h' →
        ∀ j, j ≠ i → h'.fms[j]? = h.fms[j]? ∧ ∀ sl sc, scopeAt h'.fms j sl sc = scopeAt h.fms j sl sc := by
  have hwf : Metro.wfMeta m = true := by
    unfold Metro.wfMeta Metro.inRange Metro.read at *
    cases hr : Metro.readGroups m.mappings with
    | none => simp [hfit]
    | some gs => simp [hr] at hbad
  have hmi : fmModel (some (m :: rest)) = none := by
    simp only [fmModel, decodeSrc, decodeMeta_eq_read m hwf, hbad]
    rfl
  have hfi : (raw.map fmModel)[i]? = some none := by
    rw [List.getElem?_map, hi]; simp [hmi]
  refine ⟨⟨d.nsrc, d.nnames, sortToks ts, raw.map fmModel, raw⟩, ?_, rfl, by simp, hfi, ?_, ?_⟩
  · unfold decodeHermes
    simp only [hd, decodeSources_eq, hts]
  · intro sl sc
    simp [scopeAt, hfi]
  · intro raw' h' _ hsame hd' j hj
    have hf' : h'.fms = raw'.map fmModel := by
      unfold decodeHermes at hd'
      simp only [decodeSources_eq, hts] at hd'
      cases hd'
      rfl
    have hj' : h'.fms[j]? = (raw.map fmModel)[j]? := by
      rw [hf', List.getElem?_map, List.getElem?_map, hsame j hj]
    refine ⟨hj', ?_⟩
    intro sl sc
    unfold scopeAt
    rw [hj']

-- non-vacuity: the text `AA!` of source 0 is unreadable
example : Metro.fits { names := [[102]], mappings := [65,65,33] } = true ∧
    Metro.read { names := [[102]], mappings := [65,65,33] } = none := by decide +kernel

/-! ### serialising and decoding again -/

/-- `to_writer` followed by `from_slice` -/
def reDecode (h : HMap) : Res HMap :=
  match encodeHermes h with
  | .error e => .error e
  | .ok d => decodeHermes d

/-- **the answers survive a round trip.**  For every decoded Hermes map (any `mappings` of fewer than
2^32 bytes, at most 2^32 sources and names, fewer than 2^32 elements in `x_facebook_sources`):
`to_writer` succeeds and writes the raw `x_facebook_sources` payload back verbatim; decoding the
result succeeds, keeps the payload, recomputes *the same* function maps, and its tokens are the
original ones up to what the writer does to every map (exact consecutive duplicates dropped, hidden
fields normalised - C01).  Consequently every scope query has the same answer, the tokens' scopes are
the same (duplicates dropped), and every bytecode offset resolves to the same function name. -/
theorem c14_roundtrip_stable (d : HDoc) (h : HMap) (hd : decodeHermes d = .ok h)
    (hm : d.mappings.length < U32) (hs : d.nsrc ≤ U32) (hn : d.nnames ≤ U32)
    (hlen : h.raw.length ≤ NONE) :
    ∃ d' h', encodeHermes h = .ok d' ∧ d'.fsources = some h.raw ∧
      reDecode h = .ok h' ∧ h'.raw = h.raw ∧ h'.fms = h.fms ∧
      h'.toks = (dedup h.toks).map (normTok h.nnames) ∧
      (∀ src sl sc, scopeAt h'.fms src sl sc = scopeAt h.fms src sl sc) ∧
      h'.toks.map (scopeTok h'.fms) = (dedup h.toks).map (scopeTok h.fms) ∧
      (∀ off, functionName h' off = functionName h off) := by
  obtain ⟨raw, ts, _, hts, rfl⟩ := decodeHermes_ok_inv hd
  simp only at hlen ⊢
  -- the decoded tokens are ordered and well-formed
  have hsorted : SortedByPos (sortToks ts) := (C04.c04_sorted_new ts).1
  have hwf : wfToks d.nsrc (sortToks ts) = true := by
    have h0 := decodeMappings_wf hts hm hs hn
    unfold wfToks at h0 ⊢
    rw [List.all_eq_true] at h0 ⊢
    intro t ht
    exact h0 t ((C04.c04_sorted_new ts).2.mem_iff.mp ht)
  have hrt := C01.c01_mappings_roundtrip d.nsrc d.nnames (sortToks ts) hwf hsorted
  unfold encDec at hrt
  cases hr : serializeRangeMappings (sortToks ts) with
  | error e => simp [hr] at hrt
  | ok r =>
    simp only [hr] at hrt
    cases hmm : serializeMappings (sortToks ts) d.nnames with
    | error e => simp [hmm] at hrt
    | ok m =>
      simp only [hmm] at hrt
      have hX : SortedT ((dedup (sortToks ts)).map (normTok d.nnames)) :=
        sortedT_map_norm (sortedT_dedup hsorted)
      have hsortX : sortToks ((dedup (sortToks ts)).map (normTok d.nnames))
          = (dedup (sortToks ts)).map (normTok d.nnames) := C04.c04_sort_of_sorted _ hX
      have henc : encodeHermes ⟨d.nsrc, d.nnames, sortToks ts, raw.map fmModel, raw⟩
          = .ok ⟨d.nsrc, d.nnames, m, r, some raw⟩ := by
        simp [encodeHermes, hr, hmm]
      have hflen : (raw.map fmModel).length ≤ NONE := by simpa using hlen
      refine ⟨_, ⟨d.nsrc, d.nnames, (dedup (sortToks ts)).map (normTok d.nnames), raw.map fmModel, raw⟩,
        henc, rfl, ?_, rfl, rfl, rfl, fun _ _ _ => rfl, ?_, ?_⟩
      · unfold reDecode
        rw [henc]
        simp only [decodeHermes, decodeSources_eq, hrt, hsortX]
      · simp only [List.map_map]
        apply List.map_congr_left
        intro t _
        exact scopeTok_norm _ hflen _ t
      · intro off
        rw [functionName_eq, functionName_eq]
        simp only
        rw [lookupT_map_norm, lookupT_dedup _ _ hsorted]
        cases lookupT (sortToks ts) (0, off) with
        | none => rfl
        | some t => exact fnAnswer_norm _ hflen _ off t

-- non-vacuity: a two-source map with a duplicate token decodes and meets the size hypotheses
example : ∃ h, decodeHermes ⟨2, 0, [65,65,65,65,44,65,65,65,65,44,69,67,65,67], none,
      some [some [{ names := [[102]], mappings := [65,65,65] }], none]⟩ = .ok h ∧
    h.toks = sortToks [⟨0, 0, 0, 0, 0, NONE, false⟩, ⟨0, 0, 0, 0, 0, NONE, false⟩, ⟨0, 2, 0, 1, 1, NONE, false⟩] ∧
    h.raw.length ≤ NONE := by
  have hm : decodeMappings [65,65,65,65,44,65,65,65,65,44,69,67,65,67] [] 2 0 =
      .ok [⟨0, 0, 0, 0, 0, NONE, false⟩, ⟨0, 0, 0, 0, 0, NONE, false⟩, ⟨0, 2, 0, 1, 1, NONE, false⟩] := by rfl
  refine ⟨⟨2, 0, sortToks [⟨0, 0, 0, 0, 0, NONE, false⟩, ⟨0, 0, 0, 0, 0, NONE, false⟩, ⟨0, 2, 0, 1, 1, NONE, false⟩],
    [some [{ names := [[102]], mappings := [65,65,65] }], none].map fmModel,
    [some [{ names := [[102]], mappings := [65,65,65] }], none]⟩, ?_, rfl, by decide⟩
  simp only [decodeHermes, decodeSources_eq, Option.getD_none, hm]

/-! ### no panic, no hang -/

/-- **safety.**  For every input: the function-map decoder always returns (a parse failure is
`None`, the `i64` additions cannot overflow); decoding the document never panics or hangs (errors
are the documented ones of `decode_regular`); on every decoded map every bytecode offset is answered
(the range-offset subtraction cannot underflow) - `get_scope_for_token` is a total function in the
model (`scopeAt`). -/
theorem c14_safe (d : HDoc) :
    (∀ raw : List RawSrc, ∃ fms, decodeSources raw = .ok fms) ∧
    NoCrash (decodeHermes d) ∧
    ∀ h, decodeHermes d = .ok h → ∀ off, ∃ r, functionName h off = .ok r := by
  refine ⟨fun raw => ⟨_, decodeSources_eq raw⟩, ?_, ?_⟩
  · have hmc := decodeMappings_noCrash d.mappings (d.rmi.getD []) d.nsrc d.nnames
    unfold decodeHermes
    cases hf : d.fsources with
    | none =>
      simp only
      cases hm : decodeMappings d.mappings (d.rmi.getD []) d.nsrc d.nnames with
      | error e =>
        intro e' he'
        simp only [Except.error.injEq] at he'
        subst he'
        exact hmc e hm
      | ok ts => intro e' he'; cases he'; simp
    | some raw =>
      simp only [decodeSources_eq]
      cases hm : decodeMappings d.mappings (d.rmi.getD []) d.nsrc d.nnames with
      | error e =>
        intro e' he'
        simp only [Except.error.injEq] at he'
        subst he'
        exact hmc e hm
      | ok ts => exact noCrash_ok _
  · intro h hd off
    obtain ⟨raw, ts, _, _, rfl⟩ := decodeHermes_ok_inv hd
    obtain ⟨r, hr⟩ := C04.c04_lookup_safe (sortToks ts) (0, off) (C04.c04_sorted_new ts).1
    unfold functionName
    simp only [hr]
    cases r with
    | none => exact ⟨_, rfl⟩
    | some x => obtain ⟨i, t, c⟩ := x; exact ⟨_, rfl⟩

end SmVerif.C14
