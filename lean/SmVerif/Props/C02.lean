import SmVerif.Proofs.Raw
import SmVerif.Props.C06
import SmVerif.Props.C04
/-
C02 — decoding follows the Source Map v3 wire format: the document level.
(The token loop is `C06.c02_decode_eq_spec`; the ordering is `C04.c04_sorted_new`.)
Model: SmVerif/Model/Raw.lean (`decodeCommon`, `decodeRegular` on the serde record `RawDoc`).
-/
namespace SmVerif.C02
open SmVerif SmVerif.Raw SmVerif.Mappings SmVerif.V3 SmVerif.Lookup SmVerif.RawP

/-! ### which kind of map a document is: the tests in the order `decode_common` makes them -/

/-- a document with `sections` decodes as an index map, whatever else it carries
(in particular `x_facebook_sources`) -/
theorem c02_kind_index (f : RawFlat) (secs : RawSecs) (d : DMap)
    (h : decodeCommon (.indexed f secs) = .ok d) :
    ∃ file ss, d = .index file ss f.fbOffsets f.metroPaths := by
  rw [decodeCommon] at h
  cases hs : decodeSecs secs with
  | error e => rw [hs] at h; cases h
  | ok ds =>
    rw [hs] at h
    exact ⟨_, _, (Except.ok.inj h).symm⟩

/-- without `sections`, a document with `x_facebook_sources` decodes as a Hermes map that keeps
the payload verbatim; its map is what `decode_regular` gives -/
theorem c02_kind_hermes (f : RawFlat) (raw : FbSources) (d : DMap) (hf : f.fbSources = some raw)
    (h : decodeCommon (.plain f) = .ok d) :
    ∃ m, d = .hermes m raw ∧ decodeRegular f = .ok m := by
  rw [decodeCommon] at h
  simp only [hf, Option.isSome_some, ↓reduceIte, decodeHermes] at h
  cases hr : decodeRegular f with
  | error e => rw [hr] at h; cases h
  | ok m =>
    rw [hr] at h
    exact ⟨m, (Except.ok.inj h).symm, rfl⟩

/-- everything else decodes as a regular map -/
theorem c02_kind_regular (f : RawFlat) (d : DMap) (hf : f.fbSources = none)
    (h : decodeCommon (.plain f) = .ok d) :
    ∃ m, d = .regular m ∧ decodeRegular f = .ok m := by
  rw [decodeCommon] at h
  simp only [hf, Option.isSome_none, Bool.false_eq_true, ↓reduceIte] at h
  cases hr : decodeRegular f with
  | error e => rw [hr] at h; cases h
  | ok m =>
    rw [hr] at h
    exact ⟨m, (Except.ok.inj h).symm, rfl⟩

/-- `{"version":3,"sources":["a"],"mappings":"AAAA"}` -/
def exFlat : RawFlat := { version := some 3, sources := some [some [97]], mappings := some [65, 65, 65, 65] }
/-- the same with `"x_facebook_sources":[null]` -/
def exHermes : RawFlat := { exFlat with fbSources := some [none] }

/-- the Hermes document inside a section, next to a url-only section, in a document that also has
`x_facebook_sources`: an index map -/
example : ∃ d, decodeCommon (.indexed { fbSources := some [] }
    (.cons 0 0 none (.some (.plain exHermes)) (.cons 1 0 (some [117]) .none .nil))) = .ok d := ⟨_, rfl⟩
example : ∃ d, decodeCommon (.plain exHermes) = .ok d := ⟨_, rfl⟩
example : ∃ d, decodeCommon (.plain exFlat) = .ok d := ⟨_, rfl⟩

/-! ### lenient fields -/

/-- a `null` entry of `sources` reads as the empty name -/
theorem c02_null_source (f : RawFlat) (m : SMap) (srcs : List (Option Bytes)) (i : Nat)
    (h : decodeRegular f = .ok m) (hs : f.sources = some srcs) (hi : srcs[i]? = some none) :
    m.sources[i]? = some [] := by
  obtain ⟨toks, _, rfl⟩ := decodeRegular_ok h
  simp [builtMap, sourcesOf, hs, hi]

/-- a numeric entry of `names` reads as its decimal text; a string as itself -/
theorem c02_numeric_name (f : RawFlat) (m : SMap) (ns : List JVal) (i : Nat) (t : Bytes)
    (h : decodeRegular f = .ok m) (hn : f.names = some ns) :
    (ns[i]? = some (.num t) → m.getName i = some t) ∧ (ns[i]? = some (.str t) → m.getName i = some t) := by
  obtain ⟨toks, _, rfl⟩ := decodeRegular_ok h
  constructor <;> intro hi <;> simp [builtMap, namesOf, SMap.getName, hn, hi, lenientName]

/-- `debug_id` wins over `debugId`; `debugId` is used only when `debug_id` is absent -/
theorem c02_debug_id_precedence (f : RawFlat) (m : SMap) (h : decodeRegular f = .ok m) :
    (∀ d, f.debugId = some d → m.debugId = some d) ∧ (f.debugId = none → m.debugId = f.debugIdNew) := by
  obtain ⟨toks, _, rfl⟩ := decodeRegular_ok h
  constructor
  · intro d hd; simp [builtMap, optOr, hd]
  · intro hd; simp [builtMap, optOr, hd]

/-- `{"sources":[null,"a"],"names":[12,"x"],"mappings":"AAAAA","debug_id":"1","debugId":"2"}` -/
def exLenient : RawFlat :=
  { sources := some [none, some [97]], names := some [.num [49, 50], .str [120]], mappings := some [65, 65, 65, 65, 65],
    debugId := some [49], debugIdNew := some [50] }
example : ∃ m, decodeRegular exLenient = .ok m := ⟨_, rfl⟩

/-! ### the source root -/

/-- the prefixes `prefix_source` tests, regenerated from types.rs: `/`, `http:`, `https:` -/
theorem c02_abs_prefixes :
    Consts.absPrefixes = [[47], [104, 116, 116, 112, 58], [104, 116, 116, 112, 115, 58]] := by decide

/-- a source is absolute when it starts with one of the regenerated prefixes -/
def isAbs (s : Bytes) : Bool := Consts.absPrefixes.any fun p => p.isPrefixOf s

/-- the root without one trailing `/` -/
def stripSlash (root : Bytes) : Bytes := if root.getLast? = some 47 then root.dropLast else root

theorem isAbs_nil : isAbs [] = false := by decide

theorem prefixSource_eq (root s : Bytes) :
    SMap.prefixSource root s = if isAbs s then s else stripSlash root ++ 47 :: s := by
  unfold SMap.prefixSource isAbs stripSlash SMap.isPrefixOf
  cases s with
  | nil => simp [c02_abs_prefixes]
  | cons a as => simp

/-- a non-empty `sourceRoot` is joined to every source that is not absolute; an absolute source is
read as it is -/
theorem c02_source_root_join (f : RawFlat) (m : SMap) (root : Bytes) (srcs : List (Option Bytes)) (i : Nat)
    (s : Option Bytes) (h : decodeRegular f = .ok m) (hr : f.sourceRoot = some root) (hne : root ≠ [])
    (hs : f.sources = some srcs) (hi : srcs[i]? = some s) :
    m.getSource i = some (if isAbs (s.getD []) then s.getD [] else stripSlash root ++ 47 :: s.getD []) := by
  obtain ⟨toks, _, rfl⟩ := decodeRegular_ok h
  have hne' : root.isEmpty = false := by cases root <;> simp_all
  simp [builtMap, SMap.getSource, prefixedOf, hr, hne', sourcesOf, hs, hi, prefixSource_eq]

/-- without a root, or with the empty root, sources read as written -/
theorem c02_source_root_empty (f : RawFlat) (m : SMap) (srcs : List (Option Bytes)) (i : Nat)
    (h : decodeRegular f = .ok m) (hr : f.sourceRoot = none ∨ f.sourceRoot = some [])
    (hs : f.sources = some srcs) :
    m.getSource i = (srcs[i]?).map fun s => s.getD [] := by
  obtain ⟨toks, _, rfl⟩ := decodeRegular_ok h
  rcases hr with hr | hr <;> simp [builtMap, SMap.getSource, prefixedOf, hr, sourcesOf, hs]

/-- `{"sources":["a","/b",null],"sourceRoot":"r/","mappings":"AAAA"}` -/
def exRoot : RawFlat :=
  { sources := some [some [97], some [47, 98], none], sourceRoot := some [114, 47], mappings := some [65, 65, 65, 65] }
example : ∃ m, decodeRegular exRoot = .ok m := ⟨_, rfl⟩
example : ([114, 47] : Bytes) ≠ [] := by decide
example : isAbs [47, 98] = true ∧ isAbs [97] = false ∧ stripSlash [114, 47] = [114] := by decide

/-! ### tokens -/

/-- the tokens of a decoded document are the independent reading of its `mappings` string
(`V3.specDecode`: generated line = number of preceding `;`, generated column restarting on each
line, the other four fields accumulating over the whole string, 1-field segments without source and
name), ordered by generated position -/
theorem c02_doc_tokens (f : RawFlat) (m : SMap) (ts : List Tok) (h : decodeRegular f = .ok m)
    (hr : C06.rmiOk (f.mappings.getD []) (f.rangeMappings.getD []))
    (hspec : specDecode (f.mappings.getD []) (f.rangeMappings.getD []) (f.sources.getD []).length
      (f.names.getD []).length = .toks ts) :
    m.tokens = sortToks ts ∧ C04.Sorted m.tokens ∧ m.tokens.Perm ts := by
  obtain ⟨toks, hd, rfl⟩ := decodeRegular_ok h
  have := C06.c02_decode_eq_spec _ _ _ _ ts hr hspec
  rw [this] at hd
  cases hd
  exact ⟨rfl, (C04.c04_sorted_new ts).1, (C04.c04_sorted_new ts).2⟩

theorem rmiOk_nil (m : List Nat) : C06.rmiOk m [] := by
  intro l ln _ _
  have : (splitOn SEMI []).getD l [] = [] := by cases l <;> simp [splitOn]
  rw [this]; rfl

/-- `exFlat`: one token, hypotheses of `c02_doc_tokens` -/
example : specDecode (exFlat.mappings.getD []) (exFlat.rangeMappings.getD []) (exFlat.sources.getD []).length
    (exFlat.names.getD []).length = .toks [{ dl := 0, dc := 0, sl := 0, sc := 0, src := 0, name := NONE, rng := false }] := by rfl
example : C06.rmiOk (exFlat.mappings.getD []) (exFlat.rangeMappings.getD []) := rmiOk_nil _

/-- the source and name of a decoded token resolve (an index outside its array is an error) -/
theorem c02_doc_tokens_resolve (f : RawFlat) (m : SMap) (h : decodeRegular f = .ok m) :
    ∀ t ∈ m.tokens, (t.src = NONE ∨ t.src < m.sources.length) ∧ (t.name = NONE ∨ t.name < m.names.length) := by
  obtain ⟨toks, hd, rfl⟩ := decodeRegular_ok h
  intro t ht
  have hp : t ∈ toks := (C04.c04_sorted_new toks).2.mem_iff.mp ht
  have := C06.c06_ok_resolves _ _ _ _ _ hd t hp
  simpa [builtMap, sourcesOf_length, namesOf_length] using this

end SmVerif.C02
