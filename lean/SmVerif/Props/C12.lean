import SmVerif.Model.Header
import SmVerif.Proofs.Header
import SmVerif.Proofs.HeaderB64
/-
C12 — reader, slice and data-URL decoding agree, however the stream is chunked.
Property theorems only; helper lemmas are in SmVerif/Proofs/Header.lean and HeaderB64.lean.

Vocabulary (Model/Header.lean): `readerOutput chunks` is the byte stream `serde_json::from_reader`
is given by `decode(rdr)` / `is_sourcemap(rdr)` when the successive `read` calls of `rdr` return
`chunks` (an `Err` of the wrapper is `.error .io`); `stripJunkHeader bs` is what
`serde_json::from_slice` is given by `decode_slice(bs)` / `is_sourcemap_slice(bs)`;
`Spec.runBytes` is the chunk-free byte automaton, `Spec.strip keepNl` the declarative reading of the
rule.  What the JSON parser makes of a stream is outside the model (trusted: reader ≡ slice on equal
bytes, a leading `\n` is insignificant).
-/
namespace SmVerif.C12
open SmVerif SmVerif.Header

/-! ### chunking -/

/-- **However the inner reader splits the input into reads** (any number of reads of any non-zero
sizes: one byte at a time, a read ending inside the header, between `\r` and `\n`, exactly at the
end of the header, …) **the JSON parser is given what the byte automaton yields on the
concatenated input**, and the wrapper fails exactly when the automaton refuses. -/
theorem c12_chunking_irrelevant (chunks : List (List Nat)) (hne : ∀ c ∈ chunks, c ≠ []) :
    readerOutput chunks = Spec.runBytes .undecided chunks.flatten :=
  consume_eq _ chunks .undecided hne (by omega)

/-- in particular two ways of chunking the same bytes are indistinguishable -/
theorem c12_any_two_chunkings (cs ds : List (List Nat)) (hc : ∀ c ∈ cs, c ≠ []) (hd : ∀ c ∈ ds, c ≠ [])
    (h : cs.flatten = ds.flatten) : readerOutput cs = readerOutput ds := by
  rw [c12_chunking_irrelevant cs hc, c12_chunking_irrelevant ds hd, h]

-- non-vacuity: `)]}'\r\n{}` read as `)]}'\r` + `\n{` + `}` (split inside the newline pair)
example : ∀ c ∈ [[41, 93, 125, 39, 13], [10, 123], [125]], c ≠ ([] : List Nat) := by decide
example : readerOutput [[41, 93, 125, 39, 13], [10, 123], [125]] = .ok [123, 125] := by rfl
example : readerOutput [[41], [93], [125], [39], [13], [10], [123], [125]] = .ok [123, 125] := by rfl

/-- **A read call returns 0 bytes only at the end of the input**: whatever state the wrapper is in
and whatever the inner reader still has to deliver (in non-empty reads), `Ok(0)` comes back only when
every remaining chunk was consumed — and then all of it belonged to the header.  (A wrapper that
returned `Ok(0)` because one read happened to contain only header bytes would make the parser see a
truncated document.) -/
theorem c12_no_false_eof (st : HState) (chunks : List (List Nat)) (hne : ∀ c ∈ chunks, c ≠ [])
    (h : (read st chunks).out = .ok []) :
    (read st chunks).rest = [] ∧ Spec.runBytes st chunks.flatten = .ok [] := by
  rcases read_spec chunks st hne with ⟨b, o, ho, _⟩ | ⟨ho, _⟩ | ⟨_, hrest, hr⟩
  · rw [ho] at h; cases h
  · rw [ho] at h; cases h
  · exact ⟨hrest, hr⟩

/-- the same, read the other way: while something other than header is left, a call delivers at
least one byte or fails -/
theorem c12_progress (st : HState) (chunks : List (List Nat)) (hne : ∀ c ∈ chunks, c ≠ [])
    (hleft : Spec.runBytes st chunks.flatten ≠ .ok []) :
    (∃ b o, (read st chunks).out = .ok (b :: o)) ∨ (read st chunks).out = .error .io := by
  rcases read_spec chunks st hne with ⟨b, o, ho, _⟩ | ⟨ho, _⟩ | ⟨_, _, hr⟩
  · exact Or.inl ⟨b, o, ho⟩
  · exact Or.inr ho
  · exact absurd hr hleft

-- non-vacuity: a first read holding only header bytes, the newline closing the second read
example : Spec.runBytes .undecided [[41, 93], [125, 10], [123, 125]].flatten ≠ .ok [] := by
  intro h; cases h
example : ∀ c ∈ [[41, 93], [125, 10]], c ≠ ([] : List Nat) := by decide
example : (read .undecided [[41, 93], [125, 10]]).out = .ok [] := by rfl
-- … and with a document behind it the same call skips both reads and delivers the third
example : (read .undecided [[41, 93], [125, 10], [123, 125]]).out = .ok [123, 125] := by rfl

/-! ### reader against slice -/

/-- outcome of the reader path against outcome of the slice path: the same bytes, or the slice path
additionally keeps the `\n` that ended the header (JSON whitespace), or both refuse -/
inductive AgreeWs : Res (List Nat) → Res (List Nat) → Prop
  | same (r : List Nat) : AgreeWs (.ok r) (.ok r)
  | newline (r : List Nat) : AgreeWs (.ok r) (.ok (10 :: r))
  | refused : AgreeWs (.error .io) (.error .io)

/-- **The reader path and the slice path hand the parser the same document** — up to the one
leading `\n` which `strip_junk_header` leaves in place — **for every chunking, and refuse exactly
the same inputs** (a header whose first line ends in a `\r` not followed by `\n`), both with the
I/O error. -/
theorem c12_reader_eq_slice (chunks : List (List Nat)) (hne : ∀ c ∈ chunks, c ≠ []) :
    AgreeWs (readerOutput chunks) (stripJunkHeader chunks.flatten) := by
  rw [c12_chunking_irrelevant chunks hne, runBytes_eq_strip, stripJunkHeader_eq_strip]
  rcases strip_agree chunks.flatten with ⟨r, h1, h2⟩ | ⟨r, h1, h2⟩ | ⟨h1, h2⟩
  · rw [h1, h2]; exact .same r
  · rw [h1, h2]; exact .newline r
  · rw [h1, h2]; exact .refused

/-- errors on exactly the same inputs -/
theorem c12_errors_coincide (chunks : List (List Nat)) (hne : ∀ c ∈ chunks, c ≠ []) :
    (∃ e, readerOutput chunks = .error e) ↔ (∃ e, stripJunkHeader chunks.flatten = .error e) := by
  have h := c12_reader_eq_slice chunks hne
  generalize readerOutput chunks = a at h
  generalize stripJunkHeader chunks.flatten = b at h
  cases h with
  | same r => exact ⟨fun ⟨_, h⟩ => (nomatch h), fun ⟨_, h⟩ => (nomatch h)⟩
  | newline r => exact ⟨fun ⟨_, h⟩ => (nomatch h), fun ⟨_, h⟩ => (nomatch h)⟩
  | refused => exact ⟨fun _ => ⟨_, rfl⟩, fun _ => ⟨_, rfl⟩⟩

-- non-vacuity: the three shapes (`\n`, `\r\n`, bare `\r`)
example : readerOutput [[41, 10, 49]] = .ok [49] ∧ stripJunkHeader [41, 10, 49] = .ok [10, 49] := ⟨rfl, rfl⟩
example : readerOutput [[41, 13], [10, 49]] = .ok [49] ∧ stripJunkHeader [41, 13, 10, 49] = .ok [10, 49] := ⟨rfl, rfl⟩
example : readerOutput [[41, 13], [49]] = .error .io ∧ stripJunkHeader [41, 13, 49] = .error .io := ⟨rfl, rfl⟩

/-- the parser is given a suffix of the input on either path: no byte is invented, repeated or
reordered by the copying exits of `strip_head_read` -/
theorem c12_output_is_suffix (chunks : List (List Nat)) (hne : ∀ c ∈ chunks, c ≠ []) (out : List Nat) :
    (readerOutput chunks = .ok out → out <:+ chunks.flatten) ∧
    (stripJunkHeader chunks.flatten = .ok out → out <:+ chunks.flatten) := by
  rw [c12_chunking_irrelevant chunks hne, runBytes_eq_strip, stripJunkHeader_eq_strip]
  exact ⟨strip_suffix false _ out, strip_suffix true _ out⟩

/-! ### the header rule -/

/-- the junk set **as regenerated from `is_junk_json`** is `)` `]` `}` `'` -/
theorem c12_junk_set (b : Nat) : isJunk b = true ↔ b = 41 ∨ b = 93 ∨ b = 125 ∨ b = 39 := by
  rw [junk_mem_iff]
  simp [Spec.junkStart]

/-- **A header is skipped iff the first byte is a junk byte.**  With a non-junk first byte (or no
byte at all) both paths pass the input through untouched; with a junk first byte both drop the whole
first line — everything up to and including the first `\n`, or `\r\n` (the slice path keeps the
`\n`); a `\r` followed by another byte is refused; end of input inside the header leaves nothing. -/
theorem c12_header_rule (b : Nat) (rest : List Nat) (chunks : List (List Nat))
    (hne : ∀ c ∈ chunks, c ≠ []) (hflat : chunks.flatten = b :: rest) :
    (isJunk b = false →
      readerOutput chunks = .ok (b :: rest) ∧ stripJunkHeader (b :: rest) = .ok (b :: rest)) ∧
    (isJunk b = true →
      readerOutput chunks = Spec.afterFirstLine false rest ∧
      stripJunkHeader (b :: rest) = Spec.afterFirstLine true rest) := by
  rw [c12_chunking_irrelevant chunks hne, hflat, runBytes_eq_strip, stripJunkHeader_eq_strip]
  constructor
  · intro hj
    have : b ∉ Spec.junkStart := by
      have h := junk_mem_iff b; rw [hj] at h; simpa using h.symm
    simp [Spec.strip, this]
  · intro hj
    have : b ∈ Spec.junkStart := by
      have h := junk_mem_iff b; rw [hj] at h; simpa using h.symm
    simp [Spec.strip, this]

/-- the "iff" in one line, for both paths: the parser is given the whole input exactly when the
first byte is not a junk byte -/
theorem c12_header_skipped_iff (b : Nat) (rest : List Nat) (chunks : List (List Nat))
    (hne : ∀ c ∈ chunks, c ≠ []) (hflat : chunks.flatten = b :: rest) :
    (readerOutput chunks ≠ .ok (b :: rest) ↔ isJunk b = true) ∧
    (stripJunkHeader (b :: rest) ≠ .ok (b :: rest) ↔ isJunk b = true) := by
  obtain ⟨h0, h1⟩ := c12_header_rule b rest chunks hne hflat
  have hshort : ∀ keep, Spec.afterFirstLine keep rest ≠ .ok (b :: rest) := by
    intro keep h
    have := (afterFirstLine_suffix keep rest _ h).length_le
    simp only [List.length_cons] at this
    omega
  cases hj : isJunk b with
  | false =>
    obtain ⟨a, c⟩ := h0 hj
    simp [a, c]
  | true =>
    obtain ⟨a, c⟩ := h1 hj
    rw [a, c]
    simp [hshort]

-- non-vacuity: `]x\n7` (junk start) and `x]\n7` (not), read as two chunks
example : isJunk 93 = true ∧ isJunk 120 = false := by decide
example : (∀ c ∈ [[93, 120], [10, 55]], c ≠ ([] : List Nat)) ∧ [[93, 120], [10, 55]].flatten = 93 :: [120, 10, 55] :=
  ⟨by decide, rfl⟩
example : (∀ c ∈ [[120, 93], [10, 55]], c ≠ ([] : List Nat)) ∧ [[120, 93], [10, 55]].flatten = 120 :: [93, 10, 55] :=
  ⟨by decide, rfl⟩
example : readerOutput [[93, 120], [10, 55]] = .ok [55] ∧ readerOutput [[120, 93], [10, 55]] = .ok [120, 93, 10, 55] :=
  ⟨rfl, rfl⟩

/-! ### data URLs -/

/-- the model codec is RFC 4648: decoding an encoding gives the bytes back -/
theorem c12_b64_roundtrip (p : List Nat) (hp : ∀ x ∈ p, x < 256) : b64Decode (b64Encode p) = some p :=
  b64_roundtrip p hp

/-- its alphabet is the 64-character table regenerated from the crate (`B64_CHARS`) -/
theorem c12_b64_alphabet : ∀ v, v < 64 → Consts.b64Chars[v]? = some (b64Char v) := b64Char_alphabet

/-- **A base64 data URL decodes to the same map as its payload**: for each preamble
`decode_data_url` accepts (the regenerated list) and every byte string, the URL
`preamble ++ base64(payload)` makes `decode_data_url` call `decode_slice` on exactly `payload`. -/
theorem c12_data_url (pre : List Nat) (hpre : pre ∈ Consts.dataUrlAccepted) (payload : List Nat)
    (hp : ∀ x ∈ payload, x < 256) :
    decodeDataUrl (pre ++ b64Encode payload) = .ok payload := by
  simp [decodeDataUrl, stripAccepted_hit _ pre _ accepted_diverge hpre, b64_roundtrip payload hp]

/-- in particular the URLs `to_data_url` writes are read back (the produced preamble is accepted) -/
theorem c12_data_url_produced (json : List Nat) (hp : ∀ x ∈ json, x < 256) :
    decodeDataUrl (toDataUrl json) = .ok json :=
  c12_data_url Consts.dataUrlProduced (by decide) json hp

-- non-vacuity: both preambles are there (the one `to_data_url` writes among them), and `{}` = `e30=`
example : Consts.dataUrlProduced ∈ Consts.dataUrlAccepted := by decide
example : Consts.dataUrlAccepted.length = 2 := by decide
example : ∀ x ∈ [123, 125], x < 256 := by decide
example : b64Encode [123, 125] = [101, 51, 48, 61] := by decide

end SmVerif.C12
