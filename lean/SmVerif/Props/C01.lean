import SmVerif.Model.V3Spec
import SmVerif.Proofs.RoundTripTop
/-
C01 (mappings level) and C07 (range flags) — writing a map and reading it back.
Statements are fixed; helper lemmas are in SmVerif/Proofs/RoundTrip{Rmi,Seg,Enc,Dec,Main,Top}.lean.
-/
namespace SmVerif.C01
open SmVerif SmVerif.Vlq SmVerif.Mappings SmVerif.V3 SmVerif.Lookup

/-- **Round trip of the token sequence.**  For every ordered, well-formed token list (any number of
tokens and lines, duplicate positions, source-less tokens, unresolvable names, any assignment of range
flags) serialising `mappings` + `rangeMappings` and decoding them again yields the same sequence up to
removal of exact consecutive duplicates, each token in its wire normal form (`normTok`: a token
without source has no original position and no name; a name that does not resolve is dropped). -/
theorem c01_mappings_roundtrip (nsrc nnames : Nat) (ts : List Tok)
    (hwf : wfToks nsrc ts = true) (hs : SortedByPos ts) :
    encDec nsrc nnames ts = .ok ((dedup ts).map (normTok nnames)) :=
  RoundTrip.encDec_eq nsrc nnames ts hwf hs

/-- **C07: range flags survive.**  Exactly the same tokens are ranges after the round trip, wherever
they sit on their line and however many tokens precede them. -/
theorem c07_flags_roundtrip (nsrc nnames : Nat) (ts : List Tok)
    (hwf : wfToks nsrc ts = true) (hs : SortedByPos ts) :
    ∃ back, encDec nsrc nnames ts = .ok back ∧ back.map (·.rng) = (dedup ts).map (·.rng) := by
  refine ⟨_, c01_mappings_roundtrip nsrc nnames ts hwf hs, ?_⟩
  rw [List.map_map]
  apply List.map_congr_left
  intro t _
  exact RoundTrip.normTok_rng nnames t

/-- **C07: the bit-level codec.**  Decoding the encoding of a bit vector gives the bits back up to
trailing `false`s (here: every index reads the same). -/
theorem c07_rmi_codec (bits : List Bool) (h : true ∈ bits) :
    ∃ back, decodeRmi (encodeRmi bits) = some back ∧ ∀ i, back.getD i false = bits.getD i false := by
  have _ := h   -- not needed: with no bit set the text is "A" and reads as all-false
  exact RoundTrip.decodeRmi_encodeRmi bits

/-- **C01, second sentence.**  A token list in wire normal form without exact consecutive duplicates
(what decoding produces) is reproduced exactly, hence serialising it again gives the same bytes. -/
theorem c01_idempotent (nsrc nnames : Nat) (ts : List Tok)
    (hwf : wfToks nsrc ts = true) (hs : SortedByPos ts)
    (hn : ∀ t ∈ ts, normTok nnames t = t) (hd : dedup ts = ts) :
    encDec nsrc nnames ts = .ok ts := by
  rw [c01_mappings_roundtrip nsrc nnames ts hwf hs, hd]
  congr 1
  conv => rhs; rw [← List.map_id ts]
  exact List.map_congr_left hn

-- non-vacuity
example : wfToks 2 [⟨0, 0, 5, 5, NONE, NONE, false⟩, ⟨0, 0, 0, 0, 1, 7, true⟩, ⟨3, 9, 1, 1, 0, 0, true⟩] = true := by
  decide
example : SortedByPos [⟨0, 0, 5, 5, NONE, NONE, false⟩, ⟨0, 0, 0, 0, 1, 7, true⟩, ⟨3, 9, 1, 1, 0, 0, true⟩] := by
  simp [SortedByPos, posLe, Tok.pos]

example : true ∈ [false, false, false, false, false, false, false, true, false] := by decide
-- hypotheses of `c01_idempotent`
example : ∀ t ∈ [(⟨0, 0, 5, 5, 1, NONE, false⟩ : Tok), ⟨0, 0, 0, 0, 1, 7, true⟩, ⟨3, 9, 0, 0, NONE, NONE, true⟩],
    normTok 8 t = t := by decide
example : dedup [(⟨0, 0, 5, 5, 1, NONE, false⟩ : Tok), ⟨0, 0, 0, 0, 1, 7, true⟩, ⟨3, 9, 0, 0, NONE, NONE, true⟩] =
    [⟨0, 0, 5, 5, 1, NONE, false⟩, ⟨0, 0, 0, 0, 1, 7, true⟩, ⟨3, 9, 0, 0, NONE, NONE, true⟩] := by decide


end SmVerif.C01
