import SmVerif.Proofs.Safe
import SmVerif.Props.C01
import SmVerif.Props.C04
import SmVerif.Props.C06
/-
C05 — untrusted bytes never crash the library: the decoding / query / serialisation core.
Every place where the Rust code could panic (overflow check, index, unwrap) is an explicit
`.error .panic` outcome of the model, every possible non-termination an explicit `.error .diverge`.
The theorems below say that these outcomes are unreachable, for all inputs.
Property theorems only; helper lemmas are in SmVerif/Proofs/Safe.lean.
-/
namespace SmVerif.C05
open SmVerif SmVerif.Vlq SmVerif.Mappings SmVerif.V3 SmVerif.Lookup

/-- `Res.safe` spelled out: neither of the two crash outcomes -/
theorem c05_safe_iff {α} (r : Res α) : r.safe ↔ (r ≠ .error .panic ∧ r ≠ .error .diverge) :=
  Safe.safe_iff r

/-! ### 1-2  VLQ segments -/

/-- **`parse_vlq_segment_into` never overflows its `i64` accumulator**, for every byte string: with
`k ≤ 12` digits consumed the accumulator is a `5k`-bit natural number; the 13th digit adds a multiple
of `2^60` from `[-2^63, 2^63)`; a 14th digit is refused before any arithmetic. -/
theorem c05_parseVlq_safe : ∀ s : List Nat, (Vlq.parseVlq s).safe := by
  intro s
  exact (Safe.safe_iff _).mpr (Safe.parseVlq_noCrash s)

/-- the same for the digit-level loop that C11 / C06 reason about -/
theorem c05_decLoop_safe : ∀ ds : List Nat, (Vlq.decLoop ds 0 0 []).safe := by
  intro ds
  exact (Safe.safe_iff _).mpr (Safe.decLoop_noCrash ds 0 0 [] Safe.accInv_zero)

/-- a successful parse returns at least one number: `nums[0]` in `decode_regular` is in bounds -/
theorem c05_parse_nonempty (s : List Nat) (vs : List Int) (h : Vlq.parseVlq s = .ok vs) : vs ≠ [] :=
  Safe.parseLoop_ok_ne_nil s 0 0 [] vs h

example : Vlq.parseVlq [65, 103, 67] = .ok [0, 32] := by rfl

/-! ### 3  the token loop -/

/-- **`decode_regular`'s token loop returns tokens or an ordinary error for every pair of strings and
every pair of array lengths.** -/
theorem c05_decode_safe : ∀ (m rmi : List Nat) (nsrc nnames : Nat),
    (Mappings.decodeMappings m rmi nsrc nnames).safe := by
  intro m rmi nsrc nnames
  exact (Safe.safe_iff _).mpr (Safe.decodeLines_noCrash nsrc nnames _ _ 0 {} [])

/-! ### 4  what decoding establishes -/

/-- For every input: each decoded token lies on a line below the number of `;`-pieces (at most the
length of the string), its three wrapped coordinates are `u32` values, its source and name index are
absent or resolve. -/
theorem c05_decoded_tokens (m rmi : List Nat) (nsrc nn : Nat) (ts : List Tok)
    (h : decodeMappings m rmi nsrc nn = .ok ts) :
    ∀ t ∈ ts, t.dl ≤ m.length ∧ t.dc < U32 ∧ t.sl < U32 ∧ t.sc < U32 ∧
      (t.src = NONE ∨ t.src < nsrc) ∧ (t.name = NONE ∨ t.name < nn) := by
  intro t ht
  obtain ⟨h1, h2, h3, h4⟩ := Safe.decodeMappings_coords h t ht
  obtain ⟨h5, h6⟩ := C06.c06_ok_resolves m rmi nsrc nn ts h t ht
  exact ⟨by omega, h2, h3, h4, h5, h6⟩

/-
Full statement asked for:
  c05_decoded_wf : decodeMappings m rmi nsrc nn = .ok ts →
      V3.wfToks nsrc ts = true ∧ (∀ t ∈ ts, t.name = NONE ∨ t.name < nn)
It is FALSE in the model without a size bound (`c05_decoded_wf_needs_size` below): the model's line
counter is an unbounded `Nat`, the code's is `dst_line as u32`; likewise `new_src_id as u32` for more
than 2^32 sources.  The three hypotheses all follow from "the document is shorter than 4 GiB" (every
`sources` / `names` entry takes at least three bytes of JSON).  `c05_decoded_tokens` above is the
part that holds unconditionally.
-/
/-- **A decoded map is well formed** (documents below 4 GiB). -/
theorem c05_decoded_wf_partial (m rmi : List Nat) (nsrc nn : Nat) (ts : List Tok)
    (hlen : m.length < U32) (hnsrc : nsrc ≤ U32) (hnn : nn ≤ U32)
    (h : decodeMappings m rmi nsrc nn = .ok ts) :
    V3.wfToks nsrc ts = true ∧ (∀ t ∈ ts, t.name = NONE ∨ t.name < nn) := by
  have hres := C06.c06_ok_resolves m rmi nsrc nn ts h
  refine ⟨?_, fun t ht => (hres t ht).2⟩
  unfold wfToks
  rw [List.all_eq_true]
  intro t ht
  exact Safe.wfTok_of hnsrc hnn
    (Safe.coords_mono (Safe.decodeMappings_coords h t ht) (by omega)) (hres t ht)

/-- the size bound is needed in the model: `n` semicolons put a token on line `n`, whatever `n` -/
theorem c05_decoded_wf_needs_size (n : Nat) :
    decodeMappings (List.replicate n SEMI ++ [65]) [] 0 0 = .ok [⟨n, 0, 0, 0, NONE, NONE, false⟩] := by
  unfold decodeMappings
  rw [RoundTrip.splitOn_replicate, RoundTrip.decodeLines_skip]
  have h1 : splitOn SEMI [65] = [[65]] := by decide
  have h2 : splitOn COMMA [65] = [[65]] := by decide
  have h3 : parseVlq [65] = .ok [0] := by rfl
  have h4 : decodeRmi (List.headD (List.drop n (splitOn SEMI [])) []) = some [] := by
    have : splitOn SEMI [] = [[]] := rfl
    rw [this]
    cases n with
    | zero => rfl
    | succ n => simp [decodeRmi]
  rw [h1, decodeLines]
  simp only [List.cons_ne_self, ↓reduceIte, h4, h2]
  rw [decodeSegs]
  simp only [reduceCtorEq, ↓reduceIte, h3, Decode.decodeSeg_one]
  simp [decodeSegs, decodeLines, wrapU32]

example : wfToks 0 [⟨U32, 0, 0, 0, NONE, NONE, false⟩] = false := by decide

-- non-vacuity: a three-line document with a negative delta back to column 0, a name, a range bit
example : decodeMappings [65,65,65,65,44,67,65,65,67,59,59,65,65,67,65,65] [67,59,59,66] 1 1 = .ok [
    { dl := 0, dc := 0, sl := 0, sc := 0, src := 0, name := NONE, rng := false },
    { dl := 0, dc := 1, sl := 0, sc := 1, src := 0, name := NONE, rng := true },
    { dl := 2, dc := 0, sl := 1, sc := 1, src := 0, name := 0, rng := true }] := by rfl
example : ([65,65,65,65,44,67,65,65,67,59,59,65,65,67,65,65] : List Nat).length < U32 := by decide

/-! ### 5  lookups on the decoded map -/

/-- **Lookup at any position of any decoded map returns** (`SourceMap::new` orders the tokens, so the
checked `col - dst_col` of a range token cannot underflow). -/
theorem c05_lookup_safe (m rmi : List Nat) (nsrc nn : Nat) (ts : List Tok)
    (_h : decodeMappings m rmi nsrc nn = .ok ts) (q : Pos) :
    ∃ r, Lookup.lookup (sortToks ts) q = .ok r :=
  C04.c04_lookup_safe (sortToks ts) q (C04.c04_sorted_new ts).1

/-- the same for any token list whatsoever that went through `SourceMap::new` -/
theorem c05_lookup_safe_any (ts : List Tok) (q : Pos) : (Lookup.lookup (sortToks ts) q).safe := by
  obtain ⟨r, hr⟩ := C04.c04_lookup_safe (sortToks ts) q (C04.c04_sorted_new ts).1
  rw [hr]
  exact (Safe.safe_iff _).mpr (Safe.noCrash_ok r)

-- non-vacuity: a range token reached from a larger column of its own line (the subtraction happens)
example : Lookup.lookup (sortToks [⟨0, 2, 0, 0, 0, NONE, false⟩, ⟨0, 7, 1, 1, 0, NONE, true⟩]) (0, 9)
    = .ok (some (1, ⟨0, 7, 1, 1, 0, NONE, true⟩, 3)) := by
  rw [C04.c04_sort_of_sorted _ (by simp [C04.Sorted, posLe, Tok.pos])]
  rfl

/-! ### 6  serialisation -/

/-- **`serialize_mappings` terminates on every position-ordered token list** (no well-formedness
needed: the `while` loop on the line counter never has to go backwards). -/
theorem c05_serialize_safe (ts : List Tok) (nn : Nat) (hs : SortedByPos ts) :
    ∃ out, Mappings.serializeMappings ts nn = .ok out :=
  Safe.serializeMappings_ok ts nn hs

/-- **`serialize_range_mappings` likewise** -/
theorem c05_serialize_rmi_safe (ts : List Tok) (hs : SortedByPos ts) :
    ∃ out, Mappings.serializeRangeMappings ts = .ok out :=
  Safe.serializeRangeMappings_ok ts hs

/-- in particular for whatever `SourceMap::new` holds -/
theorem c05_serialize_sorted (ts : List Tok) (nn : Nat) :
    (Mappings.serializeMappings (sortToks ts) nn).safe ∧ (Mappings.serializeRangeMappings (sortToks ts)).safe := by
  obtain ⟨a, ha⟩ := c05_serialize_safe (sortToks ts) nn (C04.c04_sorted_new ts).1
  obtain ⟨b, hb⟩ := c05_serialize_rmi_safe (sortToks ts) (C04.c04_sorted_new ts).1
  rw [ha, hb]
  exact ⟨(Safe.safe_iff _).mpr (Safe.noCrash_ok a), (Safe.safe_iff _).mpr (Safe.noCrash_ok b)⟩

/-- the ordering hypothesis is needed: a token on an earlier line makes the loop run away -/
example : Mappings.serializeMappings [⟨1, 0, 0, 0, NONE, NONE, false⟩, ⟨0, 0, 0, 0, NONE, NONE, false⟩] 0
    = .error .diverge := by rfl

example : SortedByPos [⟨0, 4294967295, 0, 0, NONE, NONE, false⟩, ⟨0, 4294967295, 7, 7, 0, 9, true⟩,
    ⟨99999, 0, 4294967295, 0, 0, NONE, true⟩] := by
  simp [SortedByPos, posLe, Tok.pos]

/-- **`encode_vlq` on the difference of two `u32` values returns**: the `.error _ => []` fallback of
`vlqDiff` is dead code (`-num` and `<< 1` stay far inside `i64`). -/
theorem c05_vlqDiff_total (a b : Nat) (ha : a < 2 ^ 32) (hb : b < 2 ^ 32) :
    ∃ s, Vlq.encodeVlq ((a : Int) - (b : Int)) = .ok s :=
  Safe.encodeVlq_u32_ok a b ha hb

example : (0 : Nat) < 2 ^ 32 ∧ (4294967295 : Nat) < 2 ^ 32 := by decide
example : Vlq.encodeVlq ((0 : Nat) - (4294967295 : Nat) : Int) = .ok [47, 47, 47, 47, 47, 47, 72] :=
  (Vlq.encodeVlq_of_zig _ (by decide) (by decide)).trans (congrArg Except.ok (by decide +kernel))

/-! ### 7  the serialised form decodes again -/

/-
Full statement asked for:
  c05_reencode_decodes : decodeMappings m rmi nsrc nn = .ok ts →
      ∃ ts', V3.encDec nsrc nn (Lookup.sortToks ts) = .ok ts'
Proved with the size bounds of `c05_decoded_wf_partial` (document below 4 GiB), because the round-trip
theorem `c01_mappings_roundtrip` is stated for `wfToks` lists.  Missing: the case `m.length ≥ 2^32`
(probably true: the line number is written as a run of `;`, never as a number) and array lengths above
2^32 (there `vlqDiff`'s fallback is live and the statement may fail in the model).
-/
/-- **Whatever decodes, serialises to something that decodes again**, and to exactly the ordered token
list without exact consecutive duplicates, each token in wire normal form. -/
theorem c05_reencode_decodes_partial (m rmi : List Nat) (nsrc nn : Nat) (ts : List Tok)
    (hlen : m.length < U32) (hnsrc : nsrc ≤ U32) (hnn : nn ≤ U32)
    (h : decodeMappings m rmi nsrc nn = .ok ts) :
    ∃ ts', V3.encDec nsrc nn (Lookup.sortToks ts) = .ok ts' ∧
      ts' = (dedup (sortToks ts)).map (normTok nn) := by
  obtain ⟨hwf, _⟩ := c05_decoded_wf_partial m rmi nsrc nn ts hlen hnsrc hnn h
  obtain ⟨hsorted, hperm⟩ := C04.c04_sorted_new ts
  have hwf' : wfToks nsrc (sortToks ts) = true := Safe.wfToks_perm hperm hwf
  exact ⟨_, C01.c01_mappings_roundtrip nsrc nn (sortToks ts) hwf' hsorted, rfl⟩

/-! ### 8  range-mapping bit vectors -/

/-- **`decode_rmi` / `encode_rmi` / the bit set are total**: in the model they are plain functions
(`Option` only for a foreign byte); the one index the real `bitvec` needs is in bounds after the resize
that the F4 repair sizes by the bit index. -/
theorem c05_rmi_safe (bits : List Bool) (i : Nat) :
    i < (setBit bits i).length ∧ (setBit bits i)[i]? = some true ∧
    (∃ back, decodeRmi (encodeRmi bits) = some back) := by
  obtain ⟨back, hb, _⟩ := RoundTrip.decodeRmi_encodeRmi bits
  exact ⟨Safe.setBit_length bits i, Safe.setBit_get bits i, back, hb⟩

example : setBit [true] 17 = [true, false, false, false, false, false, false, false, false, false, false,
    false, false, false, false, false, false, true] := by decide

end SmVerif.C05
