import SmVerif.Proofs.NameResLoop
import SmVerif.Props.C04
/-
C17 — function-name resolution finds the original name of the enclosing function.

Model: `SmVerif/Model/NameRes.lean` (`resolve` = `SourceMap::get_original_function_name`,
`revNext` = `RevTokenIter::next` with its byte-offset cache, `revCollect n` = the first `n` items the
iterator yields).  Specification: `SmVerif/Model/NameResSpec.lean` (`textAt`, `startSpec`,
`resolveSpec`).  Every theorem is for ALL character predicates `P` (the Unicode tables and
`char::is_whitespace` are outside the crate), all texts, all maps.

The hypothesis `onBoundary lines u` ("the token's column is a position of its line: the UTF-16 length
of a prefix, or at/after the end of the line, or the line does not exist") is what the property's
"token text is read at UTF-16 columns" presupposes; a column inside a surrogate pair is no position.
It is needed: for such a column the forward and the backward scan stop at different characters (see
`c17_inside_pair_cache_visible`).  There is no restriction to the BMP.
-/
namespace SmVerif.C17
open SmVerif SmVerif.Lookup SmVerif.NameRes

/-- The cache is only an optimisation: on an ordered map, walking back from token `i`, the first `n`
items of the reverse iterator are exactly the tokens `i, i-1, …` each with the text the
specification reads at its position - whichever of the two scans (forward over the line, backward
from the cached byte offset) produced the offset, BMP and astral characters alike. -/
theorem c17_cache_correct (P : Preds) (lines : List Str) (ts : List Tok) (hs : C04.Sorted ts)
    (i n : Nat) (t : Tok) (ht : ts[i]? = some t)
    (hb : ∀ j ∈ windowIdx i n, ∀ u, ts[j]? = some u → onBoundary lines u = true) :
    revCollect P lines ts n { tok := some (i, t), cache := none } = .ok (itemsBack P lines ts i n) := by
  have hil : i < ts.length := by
    rcases Nat.lt_or_ge i ts.length with h | h
    · exact h
    · rw [List.getElem?_eq_none h] at ht; simp at ht
  rw [revCollect_correct P lines ts hs n i _ t ht rfl (by simp) ?_, itemsFrom_eq P lines ts n i hil]
  intro k hk hki u hu
  apply hb (i - k) _ u hu
  simp only [windowIdx, List.mem_map, List.mem_range]
  exact ⟨k, by omega, rfl⟩

/-- `suffixAt` read declaratively: the rest of the line after the prefix of `k` characters whose
UTF-16 length is the column; no such prefix (inside a surrogate pair, past the end) - no text -/
theorem c17_textAt_suffix (l : Str) (col : Nat) (s : Str) :
    suffixAt l col = some s ↔ ∃ k, k ≤ l.length ∧ u16len (l.take k) = col ∧ s = l.drop k := by
  constructor
  · intro h
    obtain ⟨a, ha, hu⟩ := suffixAt_some l col s h
    refine ⟨a.length, by rw [ha]; simp, ?_, ?_⟩
    · rw [ha]; simpa using hu
    · rw [ha]; simp
  · rintro ⟨k, _, hu, rfl⟩
    have := suffixAt_append (l.take k) (l.drop k)
    rw [List.take_append_drop, hu] at this
    exact this

/-- the looked-up token (with the repaired index of `greatest_lower_bound`): the first token exactly
at the position, otherwise the last token before it; no panic -/
theorem c17_lookup_index (ts : List Tok) (q : Pos) (hs : C04.Sorted ts) :
    (lookup ts q = .ok none ∧ startSpec ts q = none) ∨
    (∃ i t c, lookup ts q = .ok (some (i, t, c)) ∧ startSpec ts q = some i ∧ ts[i]? = some t) :=
  lookup_index ts q hs

theorem itemsBack_length (P : Preds) (lines : List Str) (ts : List Tok) (i n : Nat) :
    (itemsBack P lines ts i n).length ≤ n := by
  simp only [itemsBack, windowIdx]
  refine Nat.le_trans (List.length_filterMap_le _ _) ?_
  simp; omega

theorem itemsBack_text_ne_nil (P : Preds) (lines : List Str) (ts : List Tok) (i n : Nat) :
    ∀ x ∈ itemsBack P lines ts i n, x.2 ≠ some [] := by
  intro x hx
  simp only [itemsBack, List.mem_filterMap] at hx
  obtain ⟨j, _, hj⟩ := hx
  cases ht : ts[j]? with
  | none => rw [ht] at hj; simp at hj
  | some t =>
    rw [ht] at hj; simp at hj; subst hj
    exact textAt_ne_nil P lines _ _

/-- Resolution is the specification: among the at most 128 tokens walking back from the looked-up
token, the first whose text is the name and whose predecessor inside the window reads `function`
gives its name; nothing otherwise, and nothing when the name is not an identifier. -/
theorem c17_resolve_eq_spec {ν} (P : Preds) (lines : List Str) (ts : List Tok) (names : List ν)
    (q : Pos) (name : Str) (hs : C04.Sorted ts)
    (hb : ∀ i, startSpec ts q = some i → ∀ j ∈ windowIdx i Consts.nameWindow, ∀ u,
      ts[j]? = some u → onBoundary lines u = true) :
    resolve P lines ts names q name = .ok (resolveSpec P lines ts names q name) := by
  rcases lookup_index ts q hs with ⟨hl, hsN⟩ | ⟨i, t, c, hl, hsS, ht⟩
  · simp only [resolve, hl, resolveSpec, hsN]
    split <;> rfl
  · have hcoll := c17_cache_correct P lines ts hs i Consts.nameWindow t ht (hb i hsS)
    have hloop := resolveLoop_eq P lines ts names name (Consts.nameWindow + 2)
      { rev := { tok := some (i, t), cache := none }, n := Consts.nameWindow, peeked := none }
      (itemsBack P lines ts i Consts.nameWindow) (by simp only [StreamOf]; exact hcoll)
      (by have := itemsBack_length P lines ts i Consts.nameWindow; omega)
    simp only [resolve, hl, svResolve, isValidJsIdentifier_eq, resolveSpec, hsS, windowItems]
    cases name with
    | nil =>
      simp only [List.isEmpty_nil, Bool.true_or, isIdentifier, Bool.not_false, ↓reduceIte]
      rw [hloop, loopSpec_none names [] _ (itemsBack_text_ne_nil P lines ts i _)]
    | cons ch cs =>
      simp only [List.isEmpty_cons, Bool.false_or]
      cases hid : isIdentifier P (ch :: cs) with
      | false => simp
      | true =>
        simp only [Bool.not_true, Bool.false_eq_true, ↓reduceIte]
        rw [hloop, loopSpec_eq_findDecl]

/-- the same for any token list given to `SourceMap::new` (which orders it) -/
theorem c17_resolve_new_eq_spec {ν} (P : Preds) (lines : List Str) (raw : List Tok) (names : List ν)
    (q : Pos) (name : Str)
    (hb : ∀ i, startSpec (sortToks raw) q = some i → ∀ j ∈ windowIdx i Consts.nameWindow, ∀ u,
      (sortToks raw)[j]? = some u → onBoundary lines u = true) :
    resolve P lines (sortToks raw) names q name = .ok (resolveSpec P lines (sortToks raw) names q name) :=
  c17_resolve_eq_spec P lines (sortToks raw) names q name (C04.c04_sorted_new raw).1 hb

/-- the characters of identifiers, as coded: `$`, `_`, ASCII letters (and digits after the start),
ZWNJ / ZWJ after the start, and outside ASCII exactly what the Unicode tables say -/
theorem c17_identifier_chars (P : Preds) :
    isValidStart P '$' = true ∧ isValidStart P '_' = true ∧
    isValidContinue P '$' = true ∧ isValidContinue P '_' = true ∧
    isValidContinue P ZWNJ = true ∧ isValidContinue P ZWJ = true ∧
    (∀ c, isAscii c = true → isValidStart P c = (c == '$' || c == '_' || isAsciiAlpha c)) ∧
    (∀ c, isAscii c = true → isValidContinue P c = (c == '$' || c == '_' || isAsciiAlpha c || isAsciiDigit c)) ∧
    (∀ c, isAscii c = false → isValidStart P c = P.idStart c) ∧
    (∀ c, isAscii c = false → isValidContinue P c = (c == ZWNJ || c == ZWJ || P.idContinue c)) := by
  refine ⟨by simp [isValidStart], by simp [isValidStart], by simp [isValidContinue], by simp [isValidContinue],
    by simp [isValidContinue], by simp [isValidContinue], ?_, ?_, ?_, ?_⟩
  · intro c h; simp [isValidStart, h]
  · intro c h
    have h1 : (c == ZWNJ) = false := by
      rw [beq_eq_false_iff_ne]; rintro rfl; simp [isAscii, ZWNJ] at h
    have h2 : (c == ZWJ) = false := by
      rw [beq_eq_false_iff_ne]; rintro rfl; simp [isAscii, ZWJ] at h
    simp [isValidContinue, h, h1, h2]
  · intro c h
    have h1 : (c == '$') = false := by
      rw [beq_eq_false_iff_ne]; rintro rfl; simp [isAscii] at h
    have h2 : (c == '_') = false := by
      rw [beq_eq_false_iff_ne]; rintro rfl; simp [isAscii] at h
    have h3 : isAsciiAlpha c = false := by
      simp only [isAscii, decide_eq_false_iff_not] at h
      simp only [isAsciiAlpha]
      rcases hb : (65 ≤ c.toNat && c.toNat ≤ 90 || 97 ≤ c.toNat && c.toNat ≤ 122) with _ | _
      · rfl
      · simp at hb; omega
    simp [isValidStart, h, h1, h2, h3]
  · intro c h
    have h1 : (c == '$') = false := by
      rw [beq_eq_false_iff_ne]; rintro rfl; simp [isAscii] at h
    have h2 : (c == '_') = false := by
      rw [beq_eq_false_iff_ne]; rintro rfl; simp [isAscii] at h
    have h3 : isAsciiAlpha c = false := by
      simp only [isAscii, decide_eq_false_iff_not] at h
      simp only [isAsciiAlpha]
      rcases hb : (65 ≤ c.toNat && c.toNat ≤ 90 || 97 ≤ c.toNat && c.toNat ≤ 122) with _ | _
      · rfl
      · simp at hb; omega
    have h4 : isAsciiDigit c = false := by
      simp only [isAscii, decide_eq_false_iff_not] at h
      simp only [isAsciiDigit]
      rcases hb : (48 ≤ c.toNat && c.toNat ≤ 57) with _ | _
      · rfl
      · simp at hb; omega
    simp [isValidContinue, h, h1, h2, h3, h4]

theorem takeWhile_all {α} (p : α → Bool) : ∀ (l : List α), (∀ x ∈ l, p x = true) → l.takeWhile p = l := by
  intro l
  induction l with
  | nil => intro _; rfl
  | cons a l ih =>
    intro h
    simp only [List.takeWhile, h a (by simp)]
    rw [ih (fun x hx => h x (by simp [hx]))]

/-- an identifier standing at a column is read back whole - whatever it is made of (non-ASCII and
astral letters, `$`, `_`, joiners) and whatever precedes it on the line - provided it is followed by
the end of the line, a blank or a character that cannot continue an identifier -/
theorem c17_identifier_text (P : Preds) (lines : List Str) (ln : Nat) (pre s post : Str)
    (hl : lines[ln]? = some (pre ++ s ++ post)) (hid : isIdentifier P s = true)
    (hws : ∀ c ∈ s, P.isWs c = false)
    (hpost : post = [] ∨ ∃ d r, post = d :: r ∧ (isValidContinue P d = false ∨ P.isWs d = true)) :
    textAt P lines ln (u16len pre) = some s := by
  simp only [textAt, hl, List.append_assoc, suffixAt_append]
  cases s with
  | nil => simp [isIdentifier] at hid
  | cons c cs =>
    simp only [isIdentifier, Bool.and_eq_true] at hid
    have hc : P.isWs c = false := hws c (by simp)
    have hcs : ∀ d ∈ cs, (!P.isWs d) = true := fun d hd => by simp [hws d (by simp [hd])]
    simp only [identAtStart, List.cons_append, List.dropWhile, hc, List.takeWhile, Bool.not_false]
    simp only [hid.1, ↓reduceIte, Option.some.injEq, List.cons.injEq, true_and]
    have hall : ∀ d ∈ cs, isValidContinue P d = true := by
      simpa [List.all_eq_true] using hid.2
    rcases hpost with rfl | ⟨d, r, rfl, hd⟩
    · rw [List.append_nil, takeWhile_all _ _ hcs]
      exact takeWhile_all _ _ hall
    · rcases hd with hd | hd
      · -- the next character cannot continue an identifier
        have h1 : (cs ++ d :: r).takeWhile (fun c => !P.isWs c) = cs ++ (d :: r).takeWhile (fun c => !P.isWs c) :=
          List.takeWhile_append_of_pos hcs
        rw [h1, List.takeWhile_append_of_pos hall]
        by_cases hdw : P.isWs d = true
        · simp [List.takeWhile, hdw]
        · simp [List.takeWhile, hdw, hd]
      · -- the next character is a blank: the word ends
        have h1 : (cs ++ d :: r).takeWhile (fun c => !P.isWs c) = cs ++ (d :: r).takeWhile (fun c => !P.isWs c) :=
          List.takeWhile_append_of_pos hcs
        rw [h1]
        simp only [List.takeWhile, hd, Bool.not_true, List.append_nil]
        exact takeWhile_all _ _ hall

/-- a name that is not a JavaScript identifier resolves to nothing (for every text and ordered map,
tokens on positions or not) -/
theorem c17_not_identifier_none {ν} (P : Preds) (lines : List Str) (ts : List Tok) (names : List ν)
    (q : Pos) (name : Str) (hs : C04.Sorted ts) (hn : isIdentifier P name = false) :
    resolve P lines ts names q name = .ok none := by
  rcases lookup_index ts q hs with ⟨hl, _⟩ | ⟨i, t, c, hl, _, ht⟩
  · simp only [resolve, hl]
  · simp only [resolve, hl, svResolve, isValidJsIdentifier_eq, hn, Bool.or_false]
    cases name with
    | cons ch cs => simp
    | nil =>
      simp only [List.isEmpty_nil]
      obtain ⟨L, hL, hlen, hne⟩ := revCollect_ok P lines ts hs Consts.nameWindow i
        { tok := some (i, t), cache := none } t ht rfl (by simp)
      rw [resolveLoop_eq P lines ts names [] (Consts.nameWindow + 2) _ L (by simp only [StreamOf]; exact hL)
        (by omega), loopSpec_none names [] L hne]

/-- No text, map, position or name makes the resolution panic or hang: on an ordered map every step
of the iterator succeeds (the `usize` subtraction `last_char_offset - dst_col` cannot underflow, the
byte offset walked back never goes below zero, `strip_identifier` slices on a character boundary)
and the loop ends within its window. -/
theorem c17_safe {ν} (P : Preds) (lines : List Str) (ts : List Tok) (names : List ν)
    (q : Pos) (name : Str) (hs : C04.Sorted ts) :
    ∃ r, resolve P lines ts names q name = .ok r := by
  rcases lookup_index ts q hs with ⟨hl, _⟩ | ⟨i, t, c, hl, _, ht⟩
  · exact ⟨none, by simp only [resolve, hl]⟩
  · simp only [resolve, hl, svResolve, isValidJsIdentifier_eq]
    cases (name.isEmpty || isIdentifier P name) with
    | false => exact ⟨none, rfl⟩
    | true =>
      obtain ⟨L, hL, hlen, _⟩ := revCollect_ok P lines ts hs Consts.nameWindow i
        { tok := some (i, t), cache := none } t ht rfl (by simp)
      exact ⟨_, resolveLoop_eq P lines ts names name (Consts.nameWindow + 2) _ L
        (by simp only [StreamOf]; exact hL) (by omega)⟩

/-- … in particular for whatever token list `SourceMap::new` was given -/
theorem c17_safe_new {ν} (P : Preds) (lines : List Str) (raw : List Tok) (names : List ν)
    (q : Pos) (name : Str) :
    ∃ r, resolve P lines (sortToks raw) names q name = .ok r :=
  c17_safe P lines (sortToks raw) names q name (C04.c04_sorted_new raw).1

/-! ### witnesses: the hypotheses are met by non-trivial values, and they are needed -/

def exP : Preds :=
  ⟨fun c => c.toNat = 0xe9 || c.toNat = 0x1d4b3, fun c => c.toNat = 0xe9 || c.toNat = 0x1d4b3, fun c => c = ' '⟩
def exLines : List Str := ["/*😀*/function é𝒳(){a}".toList, "function a‍$(){}".toList]
def exToks : List Tok :=
  [⟨0, 6, 0, 0, 0, NONE, false⟩, ⟨0, 15, 0, 0, 0, 0, false⟩, ⟨0, 21, 0, 0, 0, 2, false⟩,
   ⟨1, 0, 0, 0, 0, NONE, false⟩, ⟨1, 9, 0, 0, 0, 1, false⟩, ⟨1, 40, 0, 0, 0, 2, false⟩]

example : C04.Sorted exToks := by unfold C04.Sorted; decide
example : ∀ u ∈ exToks, onBoundary exLines u = true := by decide
-- astral characters before and inside the identifier; the lookup is inexact, three tokens are walked
example : resolveSpec exP exLines exToks ["orig", "second", "x"] (0, 22) ['é', '𝒳'] = some "orig" := by decide
example : resolve exP exLines exToks ["orig", "second", "x"] (0, 22) ['é', '𝒳'] = .ok (some "orig") := rfl
example : resolve exP exLines exToks ["orig", "second", "x"] (1, 50) ['a', ZWJ, '$'] = .ok (some "second") := rfl
example : revCollect exP exLines exToks 3 { tok := some (2, ⟨0, 21, 0, 0, 0, 2, false⟩), cache := none } =
    .ok [((2, ⟨0, 21, 0, 0, 0, 2, false⟩), some ['a']), ((1, ⟨0, 15, 0, 0, 0, 0, false⟩), some ['é', '𝒳']),
      ((0, ⟨0, 6, 0, 0, 0, NONE, false⟩), some FUNCTION)] := rfl
example : isIdentifier exP ['1', 'a'] = false := by decide
example : textAt exP exLines 1 9 = some ['a', ZWJ, '$'] := by decide

/-- Sortedness is needed for `c17_safe`: walking from a token to an earlier-indexed token that lies
*later* on the same line takes the underflowing subtraction. -/
theorem c17_underflow_unsorted :
    svResolve exP exLines [⟨0, 15, 0, 0, 0, 0, false⟩, ⟨0, 6, 0, 0, 0, 1, false⟩] ["n0", "n1"]
      (1, ⟨0, 6, 0, 0, 0, 1, false⟩) ['a'] = .error .panic := rfl

/-- `onBoundary` is needed for `c17_cache_correct`: in `xfunction 😀;` a token at column 11, inside
the surrogate pair of `😀`, is reached by the forward scan, which stops after the pair; the cache then
pairs column 11 with the byte offset of column 12, and the token at column 0 is read one column too
far right: the iterator yields `function` where the line has `xfunction`. -/
theorem c17_inside_pair_cache_visible :
    revCollect exP ["xfunction 😀;".toList] [⟨0, 0, 0, 0, 0, 0, false⟩, ⟨0, 11, 0, 0, 0, 1, false⟩] 2
        { tok := some (1, ⟨0, 11, 0, 0, 0, 1, false⟩), cache := none } =
      .ok [((1, ⟨0, 11, 0, 0, 0, 1, false⟩), none), ((0, ⟨0, 0, 0, 0, 0, 0, false⟩), some FUNCTION)] ∧
    itemsBack exP ["xfunction 😀;".toList] [⟨0, 0, 0, 0, 0, 0, false⟩, ⟨0, 11, 0, 0, 0, 1, false⟩] 1 2 =
      [((1, ⟨0, 11, 0, 0, 0, 1, false⟩), none), ((0, ⟨0, 0, 0, 0, 0, 0, false⟩), some ('x' :: FUNCTION))] ∧
    onBoundary ["xfunction 😀;".toList] ⟨0, 11, 0, 0, 0, 1, false⟩ = false :=
  ⟨rfl, by decide, by decide⟩

/-- the window of the statement: the `take(N)` literal regenerated from sourceview.rs is 128 (re-checked on every
run; changing the literal in the source breaks this obligation even though every other theorem is stated over
`Consts.nameWindow`) -/
theorem c17_window : Consts.nameWindow = 128 := by decide

end SmVerif.C17
