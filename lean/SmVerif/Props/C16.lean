import SmVerif.Proofs.ConcInv
import SmVerif.Proofs.ConcLive
import SmVerif.Proofs.ConcTerm
/-
C16 - a `SourceView` shared between threads answers as if accessed by one.

Model: Model/SourceViewConc.lean (small-step semantics of `get_line` / `line_count` / `lines()` run by
any number of threads; `Reachable src progs s`: `s` is reachable from a fresh view of the text `src`
by the threads with programs `progs`, under ANY interleaving of their steps, ANY earlier value of the
counter returned by each un-synchronised relaxed load, with further threads joining at any time).
Specification: `specAns` - each call answered from `splitLines src` alone.
Property theorems only; the invariant and its preservation are in Proofs/ConcInv.lean, progress in
Proofs/ConcLive.lean, the termination measure in Proofs/ConcTerm.lean.

All theorems are unbounded in the number of threads, the programs, the schedule and the text.  The one
hypothesis, `Fits src` (the text has at most 2^32-1 lines - implied by a length below 4 GiB - 2), is
forced by the code itself: line indices are `u32`, `line_count` asks for line `!0`, and the `lines()`
iterator counts in `u32`, so beyond that many lines `line_count` is wrong (and `lines()` overflows)
already for a single thread.  What is assumed, not proved: `std::sync::Mutex`, the OS scheduler and the
hardware memory model refine the model's lock / interleaving / "any earlier value" semantics.
-/
namespace SmVerif.C16
open SmVerif SmVerif.SV SmVerif.SVC

/-- every text shorter than 2^32-2 bytes is inside the quantifier -/
theorem c16_fits_of_length (src : List Nat) (h : src.length + 1 ≤ NONE) : Fits src :=
  fits_of_length src h

/-- **Invariant.**  In every reachable state: the cached lines are a prefix of the specification's
pieces and the remaining pieces are exactly the split of the unprocessed suffix (or the text is
finished: `processed = len + 1` and all pieces are cached); every value the counter ever had is at most
the current one; the lock is not poisoned; the lock is held exactly by a thread inside the indexing
loop, and then the text is unfinished; no thread has panicked; every recorded result is the
specification's answer; every thread still has exactly the calls it was given. -/
theorem c16_invariant {src : List Nat} {progs : List (List Call)} {s : State} (hfit : Fits src)
    (hR : Reachable src progs s) : Inv src progs s :=
  reachable_inv hfit hR

/-- the invariant in the form of the design note: `lines = take k (splitLines src)` -/
theorem c16_lines_prefix {src : List Nat} {progs : List (List Call)} {s : State} (hfit : Fits src)
    (hR : Reachable src progs s) :
    s.sh.lines = (splitLines src).take s.sh.lines.length ∧
    (s.sh.processed > src.length → s.sh.lines = splitLines src) ∧
    (∀ v ∈ s.sh.history, v ≤ s.sh.processed) := by
  have hS := (reachable_inv hfit hR).sh
  refine ⟨?_, fun h => (hS.finished h).symm, hS.hist⟩
  rcases hS.split with ⟨_, e⟩ | ⟨_, e⟩
  · rw [e]; simp
  · rw [e]; simp

/-- **No panic, no poisoning**: no reachable state has a poisoned lock, a panicked thread or a call
recorded as panicked. -/
theorem c16_no_panic {src : List Nat} {progs : List (List Call)} {s : State} (hfit : Fits src)
    (hR : Reachable src progs s) :
    s.sh.poisoned = false ∧
    ∀ (t : Nat) (th : Th), s.threads[t]? = some th →
      th.pc ≠ .panicked ∧ ∀ cv ∈ th.results, cv.2 ≠ .panic := by
  have hI := reachable_inv hfit hR
  refine ⟨hI.sh.npois, fun t th hth => ⟨?_, ?_⟩⟩
  · intro hp
    have := (hI.th t th hth).pc
    rw [hp] at this; exact this
  · intro cv hcv hp
    have := (hI.th t th hth).res cv hcv
    rw [hp] at this
    cases hc : cv.1 <;> simp [hc, specAns] at this

/-- **Linearizable**: in every reachable state, the calls answered so far by thread `t` followed by the
calls it still has to make are the program it was given, and every answer is the one the sequential
specification gives for that call: `get_line i` ↦ `(splitLines src)[i]?`, `line_count` ↦ the number of
pieces, `lines()` ↦ all pieces. -/
theorem c16_linearizable {src : List Nat} {progs : List (List Call)} {s : State} (hfit : Fits src)
    (hR : Reachable src progs s) (t : Nat) (th : Th) (hth : s.threads[t]? = some th) :
    progs[t]? = some (th.results.map (·.1) ++ th.prog) ∧
    ∀ cv ∈ th.results, cv.2 = specAns src cv.1 := by
  have hI := reachable_inv hfit hR
  exact ⟨hI.calls t th hth, (hI.th t th hth).res⟩

/-- a thread that has finished has answered its whole program, call by call, as the specification -/
theorem c16_finished_thread {src : List Nat} {progs : List (List Call)} {s : State} (hfit : Fits src)
    (hR : Reachable src progs s) (t : Nat) (th : Th) (hth : s.threads[t]? = some th)
    (hfin : th.finished = true) :
    ∃ p, progs[t]? = some p ∧ th.results = p.map fun cl => (cl, specAns src cl) := by
  obtain ⟨hc, hres⟩ := c16_linearizable hfit hR t th hth
  have hnp := ((c16_no_panic hfit hR).2 t th hth).1
  have hprog : th.prog = [] := by
    unfold Th.finished at hfin
    cases hp : th.pc with
    | panicked => exact absurd hp hnp
    | idle => simpa [hp] using hfin
    | cnt => simp [hp] at hfin
    | gl ctx idx ph => simp [hp] at hfin
  refine ⟨th.results.map (·.1), by simpa [hprog] using hc, ?_⟩
  rw [List.map_map]
  have : ∀ (l : List (Call × Val)), (∀ cv ∈ l, cv.2 = specAns src cv.1) →
      l = l.map ((fun cl => (cl, specAns src cl)) ∘ fun x => x.1) := by
    intro l
    induction l with
    | nil => intro _; rfl
    | cons a l ih =>
      intro h
      have ha := h a (by simp)
      have hl := ih (fun cv hcv => h cv (by simp [hcv]))
      simp only [List.map_cons, Function.comp]
      rw [← ha]
      exact congrArg (a :: ·) hl
  exact this _ hres

/-- **No deadlock**: in every reachable state in which some thread has not finished, some thread can
take a step; more precisely every unfinished thread can step whenever the lock is free, and the
holder of the lock can always step. -/
theorem c16_no_deadlock {src : List Nat} {progs : List (List Call)} {s : State} (hfit : Fits src)
    (hR : Reachable src progs s) (t : Nat) (th : Th) (hth : s.threads[t]? = some th)
    (hunf : th.finished = false) :
    (∃ u v s', step? true src s u v = some s') ∧
    (s.sh.lock = none → ∃ s', step? true src s t s.sh.processed = some s') :=
  inv_no_deadlock (reachable_inv hfit hR) hth hunf

/-- **Termination under any schedule**: every step strictly decreases `measure`, so no run from a
reachable state is longer than its measure; with `c16_no_deadlock` (a step exists as long as a
thread is unfinished) every maximal run ends with all threads finished - no fairness needed, since a
thread that cannot move is simply not scheduled. -/
theorem c16_terminates {src : List Nat} {progs : List (List Call)} {s s' : State} {n : Nat}
    (hfit : Fits src) (hR : Reachable src progs s) (hrun : Run src s n s') :
    n + measure src s' ≤ measure src s :=
  run_bounded hfit (reachable_inv hfit hR) hrun

theorem c16_step_decreases {src : List Nat} {progs : List (List Call)} {s s' : State} {t v : Nat}
    (hfit : Fits src) (hR : Reachable src progs s) (h : step? true src s t v = some s') :
    measure src s' < measure src s :=
  step_measure (reachable_inv hfit hR) h

/-- **The view stays usable**: once all threads have finished the lock is free and not poisoned; a
later caller may join (the state with a new thread is again reachable, so all theorems above apply to
it); and the sequential `get_line` of Model/SourceView.lean started on the state left behind returns
the specification's answer for every index, without panic or divergence. -/
theorem c16_view_usable_after {src : List Nat} {progs : List (List Call)} {s : State} (hfit : Fits src)
    (hR : Reachable src progs s)
    (hall : ∀ (t : Nat) (th : Th), s.threads[t]? = some th → th.finished = true) :
    s.sh.lock = none ∧ s.sh.poisoned = false ∧
    (∀ p, Reachable src (progs ++ [p]) { s with threads := s.threads ++ [{ prog := p }] }) ∧
    ∀ idx, ∃ st', getLine src { processed := s.sh.processed, lines := s.sh.lines } idx
      = .ok ((splitLines src)[idx]?, st') := by
  have hI := reachable_inv hfit hR
  exact ⟨inv_quiescent_lock hI hall, hI.sh.npois, fun p => Reachable.spawn p hR,
    fun idx => getLine_after hI.sh idx⟩

/-- the sequential model on whatever state the threads are in (not only at the end) -/
theorem c16_sequential_view_any_time {src : List Nat} {progs : List (List Call)} {s : State}
    (hfit : Fits src) (hR : Reachable src progs s) (idx : Nat) :
    ∃ st', getLine src { processed := s.sh.processed, lines := s.sh.lines } idx
      = .ok ((splitLines src)[idx]?, st') :=
  getLine_after (reachable_inv hfit hR).sh idx

/-- **The driver's replay of a harness schedule is a run of the model**, so everything above holds
for the state whose results the `conc.run` op prints (whatever the schedule). -/
theorem c16_replay_reachable (src : List Nat) (progs : List (List Call)) (sched : List Nat) :
    Reachable src progs (replay true src progs sched) :=
  replay_reachable src progs sched

theorem c16_replay_results {src : List Nat} (hfit : Fits src) (progs : List (List Call))
    (sched : List Nat) (t : Nat) (th : Th)
    (hth : (replay true src progs sched).threads[t]? = some th) :
    ∀ cv ∈ th.results, cv.2 = specAns src cv.1 :=
  (c16_linearizable hfit (replay_reachable src progs sched) t th hth).2

/-! ### regression witnesses: the code before the repair (`fixed = false`: no re-check under the second
lock, `None` straight after the finished check)

Text `"a"`, two threads calling `get_line(0)`.  Harness schedule `1,1,0,0,0`: thread 1 passes the
cache check and the finished check, thread 0 then indexes the text to its end, thread 1 takes the
lock and slices `source[2..]`: panic with the lock held, mutex poisoned, the view unusable for the
next caller (F11).  These document what the theorems exclude and show that the model is not vacuous:
the same semantics without the repair does reach the bad states. -/

theorem c16_counterexample_prefix :
    replay false [97] [[.g 0], [.g 0]] [1, 1, 0, 0, 0] =
      { sh := { processed := 2, history := [0, 2], lines := [[97]], lock := none, poisoned := true },
        threads := [{ prog := [], results := [(.g 0, .line (some [97]))], pc := .idle },
                    { prog := [], results := [(.g 0, .panic)], pc := .panicked }] }
    ∧ usableAfter false [97] (replay false [97] [[.g 0], [.g 0]] [1, 1, 0, 0, 0]) = .panic := by
  decide

/-- second window of the same race: thread 1 misses the cache, thread 0 finishes indexing, thread 1
then sees "fetched everything" and answered `None` for line 0, which exists -/
theorem c16_counterexample_prefix_none :
    (replay false [97] [[.g 0], [.g 0]] [1, 0, 0, 0]).threads.map (·.results) =
      [[(.g 0, .line (some [97]))], [(.g 0, .line none)]]
    ∧ specAns [97] (.g 0) = .line (some [97]) := by
  decide

/-- the same schedules on the repaired code -/
theorem c16_fixed_on_witness :
    (replay true [97] [[.g 0], [.g 0]] [1, 1, 0, 0, 0]).threads.map (·.results) =
      [[(.g 0, .line (some [97]))], [(.g 0, .line (some [97]))]]
    ∧ (replay true [97] [[.g 0], [.g 0]] [1, 0, 0, 0]).threads.map (·.results) =
      [[(.g 0, .line (some [97]))], [(.g 0, .line (some [97]))]]
    ∧ usableAfter true [97] (replay true [97] [[.g 0], [.g 0]] [1, 1, 0, 0, 0]) = .line (some [97]) := by
  decide

/-! ### non-vacuity of the hypotheses -/

-- "a\r\nb\n": three pieces, inside the quantifier
example : Fits [97, 13, 10, 98, 10] := c16_fits_of_length _ (by decide)
example : splitLines [97, 13, 10, 98, 10] = [[97], [98], []] := by decide
-- a reachable state with work in flight: three threads, thread 2 holds the lock inside the loop,
-- thread 0 is between the two unlocked checks
example : ∃ s, Reachable [97, 10, 98] [[.g 1], [.c, .a], [.g 5]] s ∧ s.sh.lock = some 2 ∧
    (∃ th, s.threads[0]? = some th ∧ th.pc = .gl .plain 1 .fin) := by
  refine ⟨_, Reachable.step (t := 2) (v := 0) (Reachable.step (t := 2) (v := 0) (Reachable.step (t := 2) (v := 0)
    (Reachable.step (t := 0) (v := 0) (Reachable.init _) rfl) rfl) rfl) rfl, by decide, ?_⟩
  exact ⟨_, rfl, rfl⟩
-- a stale read: thread 1 reads the old value 0 after thread 0 has finished the text
example : ∃ s, Reachable [97] [[.g 0], [.g 3]] s ∧ s.sh.processed = 2 ∧
    (∃ th, s.threads[1]? = some th ∧ th.pc = .gl .plain 3 .acq) := by
  refine ⟨_, Reachable.step (t := 1) (v := 0) (Reachable.step (t := 0) (v := 0) (Reachable.step (t := 0) (v := 0)
    (Reachable.step (t := 0) (v := 0) (Reachable.step (t := 0) (v := 0)
    (Reachable.step (t := 1) (v := 0) (Reachable.init _) rfl) rfl) rfl) rfl) rfl) rfl, by decide, ?_⟩
  exact ⟨_, rfl, rfl⟩
-- a finished run, for `c16_view_usable_after` / `c16_finished_thread`
example : ∀ (t : Nat) (th : Th), (replay true [97, 10] [[.a], [.c]] [0, 1, 1]).threads[t]? = some th →
    th.finished = true := by
  intro t th h
  have hall : (replay true [97, 10] [[.a], [.c]] [0, 1, 1]).threads.all (·.finished) = true := by decide
  exact List.all_eq_true.1 hall th (List.mem_of_getElem? h)

end SmVerif.C16
