import SmVerif.Proofs.RawEnc
/-
C03 — encoder output is valid v3 that any conforming reader decodes identically.

Model: SmVerif/Model/Raw.lean — `asRaw` (the three `as_raw_sourcemap` impls of encoder.rs) and
`emitted` (which keys serde writes for the record, driven by the attribute table of `RawSourceMap`
regenerated from jsontypes.rs into `Consts.serdeFields`).  The independent reader is
`V3.specDecode` (Model/V3Spec.lean) for `mappings` and `DocSpec.joinRoot` for `sources`; the demands
of the property on a written record are collected in the executable specification
`DocSpec.checkEncoded` (the same function the correspondence run evaluates on every case).
Helper lemmas: Proofs/SpecEnc.lean, Proofs/RawEnc.lean.
-/
namespace SmVerif.C03
open SmVerif SmVerif.Raw SmVerif.Mappings SmVerif.V3 SmVerif.Lookup SmVerif.RawP SmVerif.DocSpec

/-- **The independent reader reads the encoder's `mappings` back as the map's tokens.**  For every
ordered well-formed token list the two serialisers succeed and the independent reading of their
output is exactly the token list - generated positions, source indices, original positions, name
indices, range flags - up to removal of exact consecutive duplicates, each token in wire normal form
(`normTok`: what no accessor shows is cleared). -/
theorem c03_spec_reads_encoder (nsrc nn : Nat) (ts : List Tok)
    (hwf : wfToks nsrc ts = true) (hs : SortedByPos ts) :
    ∃ m r, serializeMappings ts nn = .ok m ∧ serializeRangeMappings ts = .ok r ∧
      specDecode m (r.getD []) nsrc nn = .toks ((dedup ts).map (normTok nn)) :=
  SpecEnc.spec_reads_encoder nsrc nn ts hwf hs

/-- every written map says version 3 (the literals are regenerated from encoder.rs) -/
theorem c03_version (dm : DMap) (r : RawDoc) (h : asRaw dm = .ok r) : r.flat.version = some 3 := by
  cases dm with
  | regular m =>
    rw [asRaw] at h
    cases hf : asRawRegular m with
    | error e => rw [hf] at h; cases h
    | ok f =>
      rw [hf] at h; cases h
      obtain ⟨rm, mp, _, _, rfl⟩ := RawEnc.asRawRegular_ok hf
      rfl
  | hermes m raw =>
    rw [asRaw] at h
    cases hf : asRawRegular m with
    | error e => rw [hf] at h; cases h
    | ok f =>
      rw [hf] at h; cases h
      obtain ⟨rm, mp, _, _, rfl⟩ := RawEnc.asRawRegular_ok hf
      rfl
  | index file secs fbo mmp =>
    rw [asRaw] at h
    cases hs : asRawSecs secs with
    | error e => rw [hs] at h; cases h
    | ok rs =>
      rw [hs] at h; cases h
      exact RawEnc.index_version file

/-- the attribute table says `skip_serializing_if = "Option::is_none"` for each of the five optional
keys (checked against the regenerated table: removing the attribute in jsontypes.rs breaks this) -/
theorem c03_optional_keys_table :
    ∀ k ∈ optionalKeys, ((Consts.serdeFields.filter (fun e => e.2.1 = k)).map fun e => e.2.2) = [true] := by
  decide

/-- **a key whose value is absent is left out**: for every record, whichever map it was written for -/
theorem c03_optional_keys_omitted (d : RawDoc) :
    (d.flat.file = none → key "file" ∉ emittedKeys d) ∧
    (d.flat.sourceRoot = none → key "sourceRoot" ∉ emittedKeys d) ∧
    (d.flat.sourcesContent = none → key "sourcesContent" ∉ emittedKeys d) ∧
    (d.flat.ignoreList = none → key "ignoreList" ∉ emittedKeys d) ∧
    (d.flat.debugId = none → key "debug_id" ∉ emittedKeys d) :=
  RawEnc.optional_key_omitted d

/-- the same in terms of the map: a regular map without file / root / contents / ignore list / debug id
is written without the key -/
theorem c03_map_keys_omitted (m : SMap) (f : RawFlat) (h : asRawRegular m = .ok f) :
    (m.file = none → key "file" ∉ emittedKeys (.plain f)) ∧
    (m.root = none → key "sourceRoot" ∉ emittedKeys (.plain f)) ∧
    (m.sourceContents.any Option.isSome = false → key "sourcesContent" ∉ emittedKeys (.plain f)) ∧
    (m.ignore = [] → key "ignoreList" ∉ emittedKeys (.plain f)) ∧
    (m.debugId = none → key "debug_id" ∉ emittedKeys (.plain f)) := by
  obtain ⟨rm, mp, _, _, rfl⟩ := RawEnc.asRawRegular_ok h
  obtain ⟨h1, h2, h3, h4, h5⟩ := RawEnc.optional_key_omitted (.plain _)
  refine ⟨fun hm => h1 ?_, fun hm => h2 ?_, fun hm => h3 ?_, fun hm => h4 ?_, fun hm => h5 ?_⟩
  · simp [RawDoc.flat, hm]
  · simp [RawDoc.flat, hm]
  · simp [RawDoc.flat, hm]
  · simp [RawDoc.flat, hm]
  · simp [RawDoc.flat, hm]

/-- **no optional key is ever written as `null`** -/
theorem c03_no_null_keys (d : RawDoc) : ∀ k ∈ optionalKeys, (k, false) ∉ emitted d :=
  RawEnc.optional_never_null d

/-- a regular map is written with `version`, `mappings`, `sources` and `names`, each with a value -/
theorem c03_required_keys (m : SMap) (f : RawFlat) (h : asRawRegular m = .ok f) :
    (key "version", true) ∈ emitted (.plain f) ∧ (key "mappings", true) ∈ emitted (.plain f) ∧
    (key "sources", true) ∈ emitted (.plain f) ∧ (key "names", true) ∈ emitted (.plain f) := by
  obtain ⟨rm, mp, _, _, rfl⟩ := RawEnc.asRawRegular_ok h
  obtain ⟨h1, h2, h3, h4⟩ := RawEnc.present_key (.plain _)
  exact ⟨h1 rfl, h2 rfl, h3 rfl, h4 rfl⟩

/-- **the values** written for a well-formed regular map meet every demand of the property
(`checkFlat`): version 3; `mappings` read by the independent reader gives the map's tokens; what a
reader joins from `sources` and `sourceRoot` is what the map shows through `get_source`; `names`,
`sourceRoot`, `file`, `debug_id`, `ignoreList`, per-source `sourcesContent` carry the map's values;
each of the five optional keys is left out when the map has no value for it and never null.
`x` is the Hermes payload, if any. -/
theorem c03_values (m : SMap) (f : RawFlat) (x : Option FbSources) (h : WfMap m) (he : asRawRegular m = .ok f) :
    checkFlat m { f with fbSources := x } (emitted (.plain { f with fbSources := x })) = none :=
  RawEnc.checkFlat_ok m f x h he

/-- **recursively for index maps**: for every well-formed decoded map - regular, Hermes, or an index
map of any nesting depth - the written record meets the demands of the property at every level:
`checkEncoded` additionally asks that each section's `offset` is the section's offset, its `url` the
section's url, and its embedded `map` - recursively - a valid record of the embedded map. -/
theorem c03_sections_recursive (dm : DMap) (r : RawDoc) (h : WfD WfMap dm) (he : asRaw dm = .ok r) :
    checkEncoded dm r = none :=
  RawEnc.checkEncoded_ok dm r h he

/-- Observation (outside the five keys the property names): an index map is written with
`"sources":null`, because `RawSourceMap.sources` carries no `skip_serializing_if`. -/
theorem c03_index_sources_null (file : Option Bytes) (rs : RawSecs) :
    (key "sources", false) ∈ emitted (.indexed (indexFlat file) rs) :=
  RawEnc.index_sources_null file rs

-- non-vacuity: a map with a root, a relative and an absolute source, partial contents, an ignore list,
-- a duplicate token, a source-less token and a range token; an index map with a Hermes section, a
-- url-only section, a nested empty index and a tie in offsets
example : WfMap RawEnc.exMap := RawEnc.exMap_wf
example : ∃ f, asRawRegular RawEnc.exMap = .ok f := ⟨_, rfl⟩
example : WfD WfMap RawEnc.exIndex := by
  simp [RawEnc.exIndex, WfD, WfSecs, WfOpt, secsSorted, offLe, RawEnc.exMap_wf]
example : ∃ r, asRaw RawEnc.exIndex = .ok r := ⟨_, rfl⟩
example : wfToks 2 RawEnc.exMap.tokens = true ∧ SortedByPos RawEnc.exMap.tokens :=
  ⟨RawEnc.exMap_wf.toks, RawEnc.exMap_wf.sorted⟩

end SmVerif.C03
