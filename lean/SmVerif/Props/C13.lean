import SmVerif.Model.BldSeq
import SmVerif.Proofs.Builder
import SmVerif.Proofs.BuilderRefine
import SmVerif.Proofs.BuilderMap
import SmVerif.Proofs.BuilderRun
/-
C13 — Builder and in-place setters behave like a simple interning model.
Property theorems only; helper lemmas are in SmVerif/Proofs/Builder*.lean.

Vocabulary
* `Bld` / `SMap` (Model/Builder.lean, Model/SourceMap.lean): the models of `SourceMapBuilder` and `SourceMap`;
  `Bld.run`, `SMap.runOps`, `SMap.trace` (Model/BldSeq.lean): sequences of calls on them
  (`Res`: `.error .panic` = the Rust code panics).
* `C13Spec` (Model/BldSpec.lean): the abstract interning model written from the property statement:
  `ABld` (sources = list of distinct strings, `internId l s = index of the first occurrence`, `intern` =
  append-if-new, tokens remembered with the strings they were added with, `ABld.finish` = what the finished
  map must report), `AMap` (`raw`, `root`, `read i = join root raw[i]`; `reload` = identity),
  `join` = the documented joining rule.
* `Inv b` (Proofs/Builder.lean): the builder invariant; `MapWF m` (Proofs/BuilderMap.lean): the prefixed
  cache of a map is a function of its raw names and root; `absOf m`: the abstract map of a model map.
All theorems quantify over *all* finite sequences of calls and all byte strings; the only size hypothesis
is that fewer than 2^32 distinct sources / names were interned (ids are `u32` in the code, `!0` is the
"no source" sentinel).
-/
namespace SmVerif.C13
open SmVerif SmVerif.C13Spec

/-! ## Builder -/

/-- **Every reachable builder state satisfies the invariant**: each interning table is exactly its list
(`lookupKey s table = some i ↔ list[i] = s`), the list has no duplicates, the contents vector is never
longer than the sources, `sources_mapping` is as long as the sources, the ignore set is ordered. -/
theorem c13_inv_reachable (file : Option Bytes) (ops : List BOp) (b : Bld) (outs : List BOut)
    (h : (Bld.new file).run ops = .ok (b, outs)) : Inv b := by
  obtain ⟨_, _, _, hI, _⟩ := run_ok ops (Bld.new file) { file := file } (inv_new file) (rel_new file) b outs h
  exact hI

/-- consequences of the invariant: ids in the table are below the count — so the `if id == count`
branch of `add_source_with_id` / `add_name` is taken exactly for a new string — and a found id is the
index of the first occurrence -/
theorem c13_inv_ids (b : Bld) (h : Inv b) (s : Bytes) (i : Nat) :
    (Bld.lookupKey s b.sourceMap = some i → i < b.sources.length ∧ i = b.sources.idxOf s) ∧
    (Bld.lookupKey s b.nameMap = some i → i < b.names.length ∧ i = b.names.idxOf s) :=
  ⟨fun hl => ⟨h.src.id_lt hl, (h.src.lookup_some hl).2⟩, fun hl => ⟨h.nam.id_lt hl, (h.nam.lookup_some hl).2⟩⟩

/-- **`add_source` refines the abstract table**: the returned id is the index of the first occurrence
of the string (for a new string: the next unused id), and the list of sources is updated by
append-if-new. -/
theorem c13_abs_add_source (b : Bld) (h : Inv b) (s : Bytes) :
    (b.addSource s).2 = internId b.sources s ∧ (b.addSource s).1.sources = intern b.sources s ∧
    (b.addSource s).1.names = b.names ∧ Inv (b.addSource s).1 := by
  obtain ⟨h1, h2, _, _, h3, _⟩ := addSourceWithId_spec b h s SmVerif.NONE
  exact ⟨h1, h2, h3, inv_addSourceWithId b h s SmVerif.NONE⟩

theorem c13_abs_add_name (b : Bld) (h : Inv b) (s : Bytes) :
    (b.addName s).2 = internId b.names s ∧ (b.addName s).1.names = intern b.names s ∧
    (b.addName s).1.sources = b.sources ∧ Inv (b.addName s).1 := by
  obtain ⟨h1, h2, _, h3, _⟩ := addName_spec b h s
  exact ⟨h1, h2, h3, inv_addName b h s⟩

/-- the abstract id is what the property says: an equal string gets the id it got the first time,
a new string gets the next unused id, and afterwards the id indexes the string -/
theorem c13_intern_spec (l : List Bytes) (s : Bytes) :
    (s ∈ l → intern l s = l ∧ internId l s < l.length ∧ l[internId l s]? = some s) ∧
    (s ∉ l → intern l s = l ++ [s] ∧ internId l s = l.length) ∧
    (intern l s)[internId l s]? = some s ∧ internId (intern l s) s = internId l s := by
  refine ⟨?_, ?_, intern_getElem? l s, ?_⟩
  · intro hm
    have hlt := List.idxOf_lt_length_of_mem hm
    refine ⟨by simp [intern, hm], hlt, ?_⟩
    unfold internId
    rw [List.getElem?_eq_getElem hlt, List.getElem_idxOf hlt]
  · intro hm
    exact ⟨by simp [intern, hm], List.idxOf_eq_length hm⟩
  · unfold intern internId
    by_cases hm : s ∈ l
    · simp [hm]
    · simp only [hm, ↓reduceIte]; rw [List.idxOf_append]; simp [hm, List.idxOf_eq_length hm]

/-- **Refinement, for every sequence of builder calls**: whenever the model of `SourceMapBuilder`
completes a sequence of calls, the abstract interning model completes it with the same results
(ids returned by `add_source` / `add_name`, ids in the returned `RawToken`s, `get_source`), and the
map produced by `into_sourcemap` shows exactly what the abstract model's `finish` says: every added
token at its place with the strings it was added with (the source read through the root rule), sources
as read and as written, root, names, contents, ignore list, file, debug id. -/
theorem c13_builder_refines (file : Option Bytes) (ops : List BOp) (b : Bld) (outs : List BOut)
    (h : (Bld.new file).run ops = .ok (b, outs))
    (hs : b.sources.length ≤ SmVerif.NONE) (hn : b.names.length ≤ SmVerif.NONE) :
    ∃ a, ({ file := file } : ABld).run ops = some (a, outs) ∧ b.intoSourcemap.view = a.finish := by
  obtain ⟨a, ha, hR, hI, _⟩ := run_ok ops (Bld.new file) { file := file } (inv_new file) (rel_new file) b outs h
  exact ⟨a, ha, finish_eq b a hI hR hs hn⟩

/-- the model fails only with the documented panic (`set_source_contents` for a source that does not
exist), and exactly on the sequences on which the abstract model is undefined -/
theorem c13_builder_panic_iff (file : Option Bytes) (ops : List BOp) (e : Err)
    (h : (Bld.new file).run ops = .error e) :
    e = .panic ∧ ({ file := file } : ABld).run ops = none :=
  run_err ops (Bld.new file) { file := file } (inv_new file) (rel_new file) e h

/-- the token added by the `k`-th call stays in the builder, with ids that index the strings it was
added with (generalised start state for the induction) -/
theorem run_token : ∀ (ops : List BOp) (b0 : Bld) (a0 : ABld) (_ : Inv b0) (_ : Rel b0 a0) (b : Bld)
    (outs : List BOut), b0.run ops = .ok (b, outs) →
    ∀ (k dl dc sl sc : Nat) (src name : Option Bytes) (rng : Bool),
      ops[k]? = some (.add dl dc sl sc src name rng) →
      ∃ t ∈ b.tokens, t.dl = dl ∧ t.dc = dc ∧ t.sl = sl ∧ t.sc = sc ∧ t.rng = rng ∧
        outs[k]? = some (.tok t.src t.name) ∧ idRel b.sources t.src src ∧ idRel b.names t.name name
  | [], _, _, _, _, _, _, _, k, _, _, _, _, _, _, _, hk => by simp at hk
  | op :: ops, b0, a0, hI, hR, b, outs, h, k, dl, dc, sl, sc, src, name, rng, hk => by
    simp only [Bld.run] at h
    cases hs : b0.step op with
    | error e => simp [hs] at h
    | ok r =>
      obtain ⟨b1, o⟩ := r
      simp only [hs] at h
      obtain ⟨a1, _, hR1, hI1, _⟩ := step_ok b0 a0 hI hR op b1 o hs
      cases hr : b1.run ops with
      | error e => simp [hr] at h
      | ok r2 =>
        obtain ⟨b2, os⟩ := r2
        simp only [hr, Except.ok.injEq, Prod.mk.injEq] at h
        obtain ⟨h1, h2⟩ := h; subst h1; subst h2
        cases k with
        | succ k =>
          simp only [List.getElem?_cons_succ] at hk ⊢
          exact run_token ops b1 a1 hI1 hR1 b2 os hr k dl dc sl sc src name rng hk
        | zero =>
          simp only [List.getElem?_cons_zero, Option.some.injEq] at hk
          subst hk
          obtain ⟨_, _, _, _, hG⟩ := run_ok ops b1 a1 hI1 hR1 b2 os hr
          simp only [Bld.step, add_eq, Except.ok.injEq, Prod.mk.injEq] at hs
          obtain ⟨hb1, ho⟩ := hs
          obtain ⟨hI', hid1, hs1, _⟩ := srcStep_spec b0 hI src
          obtain ⟨_, hid2, hn2, hs2, _⟩ := nameStep_spec (srcStep b0 src).1 hI' name
          obtain ⟨hn1, _⟩ := (srcStep_spec b0 hI src).2.2.2
          rw [hn1] at hid2 hn2
          rw [hs1] at hs2
          obtain ⟨r, hrt⟩ := hG.tokens
          refine ⟨Tok.mk dl dc sl sc (srcStep b0 src).2 (nameStep (srcStep b0 src).1 name).2 rng, ?_,
            rfl, rfl, rfl, rfl, rfl, ?_, ?_, ?_⟩
          · rw [hrt, ← hb1]; simp
          · simp only [List.getElem?_cons_zero, ← ho]
          · apply idRel.ext hG.sources
            rw [← hb1]
            show idRel (nameStep (srcStep b0 src).1 name).1.sources _ src
            rw [hs2, hid1]; exact optIntern_getElem? _ _
          · apply idRel.ext hG.names
            rw [← hb1]
            show idRel (nameStep (srcStep b0 src).1 name).1.names _ name
            rw [hn2, hid2]; exact optIntern_getElem? _ _

/-- **Every added token resolves to exactly the strings it was added with**: for every sequence of
builder calls and every `add` among them, the finished map contains a token with the given
coordinates whose ids are the ones `add` returned, whose source reads as the string it was added with
(joined with the final root by the documented rule) and whose name is the string it was added with. -/
theorem c13_token_resolves (file : Option Bytes) (ops : List BOp) (b : Bld) (outs : List BOut)
    (h : (Bld.new file).run ops = .ok (b, outs))
    (hs : b.sources.length ≤ SmVerif.NONE) (hn : b.names.length ≤ SmVerif.NONE)
    (k dl dc sl sc : Nat) (src name : Option Bytes) (rng : Bool)
    (hk : ops[k]? = some (.add dl dc sl sc src name rng)) :
    ∃ t ∈ b.intoSourcemap.tokens, t.dl = dl ∧ t.dc = dc ∧ t.sl = sl ∧ t.sc = sc ∧ t.rng = rng ∧
      outs[k]? = some (.tok t.src t.name) ∧
      b.intoSourcemap.tokSource t = src.map (join b.root) ∧ b.intoSourcemap.tokName t = name := by
  have hI := c13_inv_reachable file ops b outs h
  obtain ⟨t, ht, h1, h2, h3, h4, h5, h6, h7, h8⟩ :=
    run_token ops (Bld.new file) { file := file } (inv_new file) (rel_new file) b outs h k dl dc sl sc src name rng hk
  rw [intoSourcemap_eq b hI.ignore_sorted]
  refine ⟨t, ?_, h1, h2, h3, h4, h5, h6, idRel_source b hI.ignore_sorted hs t src h7, idRel_name b hn t name h8⟩
  show t ∈ Lookup.sortToks b.tokens
  unfold Lookup.sortToks
  exact (List.mergeSort_perm _ _).mem_iff.2 ht

/-- **The finished map reports what was set**: `into_sourcemap` of a builder state that satisfies the
invariant has the builder's sources (raw), root, names, file, debug id and ignore set, the builder's
contents per source, its tokens ordered by position, every source read through the root rule, and a
consistent prefixed cache. -/
theorem c13_into_sourcemap_fields (b : Bld) (h : Inv b) :
    b.intoSourcemap.sources = b.sources ∧ b.intoSourcemap.root = b.root ∧ b.intoSourcemap.names = b.names ∧
    b.intoSourcemap.file = b.file ∧ b.intoSourcemap.debugId = b.debugId ∧ b.intoSourcemap.ignore = b.ignore ∧
    (∀ i, b.intoSourcemap.getSourceContents i = b.getSourceContents i) ∧
    (∀ i, b.intoSourcemap.getSource i = (b.sources[i]?).map (join b.root)) ∧
    b.intoSourcemap.tokens = Lookup.sortToks b.tokens ∧ MapWF b.intoSourcemap := by
  rw [intoSourcemap_eq b h.ignore_sorted]
  have hw := wf_finished b h.ignore_sorted
  exact ⟨rfl, rfl, rfl, rfl, rfl, rfl, fun _ => rfl, fun i => getSource_eq _ hw i, rfl, hw⟩

/-- the ignore list is the ordered set of the ids that were added -/
theorem c13_ignore_set (x : Nat) (l : List Nat) (h : l.Pairwise (· < ·)) :
    (∀ i, i ∈ setInsert x l ↔ i = x ∨ i ∈ l) ∧ (setInsert x l).Pairwise (· < ·) := by
  rw [setInsert_eq]
  exact ⟨mem_insertSorted x l, insertSorted_sorted x l h⟩

/-! ## In-place setters on a map -/

/-- **The prefixed cache is a function of the raw names and the root, after any sequence of calls**:
`sources_prefixed = if root is non-empty then Some(raw.map(prefix_source(root))) else None` holds for
`SourceMap::new`, for what `from_slice` builds, and is preserved by `set_source_root`, `set_source`,
`set_source_contents`, `to_writer`+`from_slice`, `add_to_ignore_list`, `set_file`, `set_debug_id`. -/
theorem c13_prefixed_inv (m : SMap) (h : MapWF m) (ops : List MOp) (m' : SMap)
    (hr : m.runOps ops = .ok m') : MapWF m' :=
  (mrun_ok ops m h m' hr).2

theorem c13_prefixed_inv_new (file : Option Bytes) (toks : List Tok) (names sources : List Bytes)
    (contents : Option (List (Option Bytes))) (r : SMap.RawFields) :
    MapWF (SMap.new file toks names sources contents) ∧ MapWF (SMap.ofRawFields r toks) := by
  refine ⟨wf_new _ _ _ _ _, ?_⟩
  unfold SMap.ofRawFields
  simp only [foldl_addToIgnoreList]
  have hw := wf_setSourceRoot _ (wf_new r.file toks r.names r.sources r.contents) r.root
  exact ⟨hw.1, foldl_insert_pairwise _ _ hw.2⟩

/-- **The read rule**: each source reads as the raw name joined with the current root by the
documented rule — unchanged when there is no root, the root is empty, or the name is absolute
(`/…`, `http:…`, `https:…`); otherwise the root without one trailing `/`, a `/`, and the name. -/
theorem c13_read_rule (m : SMap) (h : MapWF m) (i : Nat) :
    m.getSource i = (m.sources[i]?).map (join m.root) ∧ m.sourcesRead = m.sources.map (join m.root) :=
  ⟨getSource_eq m h i, sourcesRead_eq m h⟩

/-- the joining rule spelled out -/
theorem c13_join_rule (r : Option Bytes) (s : Bytes) :
    join r s = if r = none ∨ r = some [] ∨ isAbs s then s
               else (let x := r.getD []; if x.getLast? = some 47 then x.dropLast else x) ++ [47] ++ s := by
  cases r with
  | none => simp [join]
  | some x =>
    by_cases hx : x = []
    · simp [join, hx]
    · by_cases ha : isAbs s = true
      · simp [join, ha]
      · simp [join, hx, ha, stripSlash]

/-- **Refinement, for every sequence of calls on a map**: the states the model goes through are
well-formed and their abstractions are the states of the abstract map (`raw`, `root`, contents per
source, names, ignore set, file, debug id) under the same calls — in particular `reload` (write, then
read back) does not change the abstract map — and what is observed of each state (sources through
`get_source`, `sources` / `sourceRoot` as written, contents, …) is the abstract map's view. -/
theorem c13_map_refines (m : SMap) (h : MapWF m) (ops : List MOp) (ms : List SMap)
    (ht : m.trace ops = .ok ms) :
    (absOf m).trace ops = some (ms.map absOf) ∧
    ∀ x ∈ ms, MapWF x ∧ { x.view with toks := [] } = (absOf x).view := by
  obtain ⟨h1, h2⟩ := mtrace_ok ops m h ms ht
  exact ⟨h1, fun x hx => ⟨h2 x hx, view_eq x (h2 x hx)⟩⟩

/-- the driver's initial abstract map is the abstraction of `SourceMap::new` -/
theorem c13_map_init (names sources : List Bytes) (contents : Option (List (Option Bytes))) :
    absOf (SMap.new none [] names sources contents) =
      { raw := sources, root := none,
        contents := (List.range sources.length).map fun i => ((contents.getD [])[i]?).join,
        names := names, ignore := [], file := none, debugId := none } := rfl

/-- the model of a map fails only with the documented panic (`set_source` / `set_source_contents` for
a source that does not exist), exactly where the abstract map is undefined -/
theorem c13_map_panic_iff (m : SMap) (h : MapWF m) (ops : List MOp) (e : Err)
    (ht : m.trace ops = .error e) : e = .panic ∧ (absOf m).trace ops = none :=
  mtrace_err ops m h e ht

/-- **Serialisation writes the raw names plus the root**, after any sequence of calls: the `sources`
and `sourceRoot` that `as_raw_sourcemap` emits are the abstract map's `raw` and `root`, never the
prefixed names. -/
theorem c13_serialise_raw (m : SMap) (h : MapWF m) (ops : List MOp) (m' : SMap) (hr : m.runOps ops = .ok m') :
    ∃ a', (absOf m).run ops = some a' ∧ m'.asRawFields.sources = a'.raw ∧ m'.asRawFields.root = a'.root :=
  ⟨absOf m', (mrun_ok ops m h m' hr).1, rfl, rfl⟩

/-- `k` save/load cycles -/
def reloadN : Nat → SMap → SMap
  | 0, m => m
  | k + 1, m => reloadN k m.reload

/-- **Repeated save/load cycles never prefix a name twice**: after any number of
`to_writer` + `from_slice` cycles every source reads as before, and the raw names, the root and
everything else observed of the map are unchanged. -/
theorem c13_no_double_prefix (m : SMap) (h : MapWF m) (k : Nat) :
    (∀ i, (reloadN k m).getSource i = m.getSource i) ∧ absOf (reloadN k m) = absOf m ∧ MapWF (reloadN k m) := by
  induction k generalizing m with
  | zero => exact ⟨fun _ => rfl, rfl, h⟩
  | succ k ih =>
    obtain ⟨hw, ha⟩ := reload_spec m h
    obtain ⟨i1, i2, i3⟩ := ih m.reload hw
    refine ⟨fun i => ?_, i2.trans ha, i3⟩
    show (reloadN k m.reload).getSource i = _
    rw [i1 i, getSource_eq _ hw, getSource_eq _ h]
    have e1 : m.reload.sources = m.sources := congrArg AMap.raw ha
    have e2 : m.reload.root = m.root := congrArg AMap.root ha
    rw [e1, e2]

/-! ## Non-vacuity: concrete values meeting the hypotheses -/

-- "a", "b", "a" again, then a token on ("/abs", name "n"), contents for source 1, root "r/"
def exOps : List BOp :=
  [.addSource [97], .addSource [98], .addSource [97], .add 0 3 1 2 (some [47, 97, 98, 115]) (some [110]) false,
   .setSourceContents 1 (some [120]), .setSourceRoot (some [114, 47])]

example : ∃ b, (Bld.new none).run exOps = .ok (b, [.id 0, .id 1, .id 0, .tok 2 0, .unit, .unit]) ∧
    b.sources = [[97], [98], [47, 97, 98, 115]] ∧ b.sources.length ≤ SmVerif.NONE ∧ b.names.length ≤ SmVerif.NONE ∧
    b.intoSourcemap.sourcesRead = [[114, 47, 97], [114, 47, 98], [47, 97, 98, 115]] :=
  ⟨_, rfl, rfl, by decide, by decide, by decide⟩

-- a documented panic: contents for a source that does not exist
example : (Bld.new none).run [.addSource [97], .setSourceContents 1 none] = .error .panic := rfl

example : Inv (Bld.new (some [102])) := inv_new _

-- a map with a root: "a" reads "r/a", "/b" stays
def exMap : SMap := (SMap.new none [] [] [[97], [47, 98]] none).setSourceRoot (some [114, 47])
example : MapWF exMap := wf_setSourceRoot _ (wf_new _ _ _ _ _) _
example : exMap.sourcesRead = [[114, 47, 97], [47, 98]] := by decide
example : (reloadN 3 exMap).sourcesRead = [[114, 47, 97], [47, 98]] ∧ (reloadN 3 exMap).sources = [[97], [47, 98]] := by
  decide
example : ∃ ms, exMap.trace [.setSource 0 [99], .reload, .setSourceRoot none] = .ok ms ∧ ms.length = 4 :=
  ⟨_, rfl, rfl⟩
example : exMap.trace [.setSource 2 [99]] = .error .panic := rfl
example : (setInsert 3 [1, 5]) = [1, 3, 5] ∧ [1, 5].Pairwise (· < ·) := by decide

end SmVerif.C13
