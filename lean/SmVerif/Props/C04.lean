import SmVerif.Proofs.Lookup
/-
C04 — token lookup returns the closest preceding mapping; tokens are always ordered.
(also the lookup part of C07: range offset only on the token's own line, no lookup panics)
Property theorems only; helper lemmas are in SmVerif/Proofs/Lookup.lean.
-/
namespace SmVerif.C04
open SmVerif SmVerif.Lookup

/-- tokens ordered by generated position (what every map-producing operation establishes);
the same predicate as `Lookup.SortedByPos` -/
def Sorted (ts : List Tok) : Prop :=
  List.Pairwise (fun a b => posLe (Tok.pos a) (Tok.pos b) = true) ts

theorem sorted_iff (ts : List Tok) : Sorted ts ↔ SortedByPos ts := Iff.rfl

/-- `SourceMap::new` orders any token list and keeps exactly its tokens -/
theorem c04_sorted_new (ts : List Tok) : Sorted (sortToks ts) ∧ (sortToks ts).Perm ts := by
  refine ⟨?_, List.mergeSort_perm _ _⟩
  unfold Sorted sortToks
  have := List.pairwise_mergeSort (le := fun a b : Tok => posLe (Tok.pos a) (Tok.pos b))
    (fun a b c h1 h2 => posLe_trans h1 h2)
    (fun a b => by
      rcases posLe_total (Tok.pos a) (Tok.pos b) with h | h <;> simp [h]) ts
  exact this

/-- an ordered list is left as it is (ties keep their order) -/
theorem c04_sort_of_sorted (ts : List Tok) (h : Sorted ts) : sortToks ts = ts := by
  unfold sortToks
  exact List.mergeSort_of_pairwise h

/-- lookup never panics on an ordered map (the `col - dst_col` subtraction cannot underflow) -/
theorem c04_lookup_safe (ts : List Tok) (q : Pos) (h : Sorted ts) : ∃ r, lookup ts q = .ok r := by
  exact lookup_ok ts q h

/-- nothing is returned exactly when no token starts at or before the query -/
theorem c04_lookup_none_iff (ts : List Tok) (q : Pos) (h : Sorted ts) :
    lookup ts q = .ok none ↔ ∀ t ∈ ts, posLe (Tok.pos t) q = false := by
  rw [lookup_none_iff_glb ts q h, glb_tok_none_iff ts q h]

/-- the returned token is the `i`-th token, lies at or before the query, and no token at or before the
query lies after it -/
theorem c04_lookup_greatest (ts : List Tok) (q : Pos) (i : Nat) (t : Tok) (c : Nat) (h : Sorted ts)
    (hl : lookup ts q = .ok (some (i, t, c))) :
    ts[i]? = some t ∧ posLe (Tok.pos t) q = true ∧
      ∀ u ∈ ts, posLe (Tok.pos u) q = true → posLe (Tok.pos u) (Tok.pos t) = true := by
  obtain ⟨hg, ht, _, _⟩ := lookup_some_inv ts q i t c hl
  obtain ⟨hi, hle, hmax, _⟩ := glb_tok_some ts q h i hg
  have hti : ts[i] = t := by
    rw [List.getElem?_eq_getElem hi] at ht; exact Option.some.inj ht
  rw [hti] at hle hmax
  exact ⟨ht, hle, hmax⟩

/-- when the query is exactly a token's position, the first token at that position is returned -/
theorem c04_lookup_exact_first (ts : List Tok) (q : Pos) (i : Nat) (t : Tok) (c : Nat) (h : Sorted ts)
    (hl : lookup ts q = .ok (some (i, t, c))) (hq : Tok.pos t = q) :
    ∀ j, j < i → ∀ u, ts[j]? = some u → Tok.pos u ≠ q := by
  obtain ⟨hg, ht, _, _⟩ := lookup_some_inv ts q i t c hl
  obtain ⟨hi, _, _, hfirst⟩ := glb_tok_some ts q h i hg
  have hti : ts[i] = t := by
    rw [List.getElem?_eq_getElem hi] at ht; exact Option.some.inj ht
  rw [hti] at hfirst
  intro j hj u hu
  have hjl : j < ts.length := by omega
  have huj : ts[j] = u := by
    rw [List.getElem?_eq_getElem hjl] at hu; exact Option.some.inj hu
  rw [← huj]
  exact hfirst hq j hj

/-- the model's answer is one of the answers the declarative specification admits -/
theorem c04_lookup_admissible (ts : List Tok) (q : Pos) (h : Sorted ts) :
    (lookup ts q = .ok none → lookupSpec ts q = []) ∧
    (∀ i t c, lookup ts q = .ok (some (i, t, c)) → (i, t) ∈ lookupSpec ts q) := by
  constructor
  · intro hn
    rw [c04_lookup_none_iff ts q h] at hn
    have hc : (ts.zipIdx.filter fun p => posLe (Tok.pos p.1) q) = [] := by
      rw [List.filter_eq_nil_iff]
      intro p hp
      have hp' : (p.1, p.2) ∈ ts.zipIdx := hp
      obtain ⟨hlen, heq⟩ := List.mem_zipIdx' hp'
      rw [heq, hn _ (List.getElem_mem hlen)]
      simp
    simp only [lookupSpec, hc]
  · intro i t c hl
    obtain ⟨hti, hle, hmax⟩ := c04_lookup_greatest ts q i t c h hl
    have hfirst := c04_lookup_exact_first ts q i t c h hl
    -- the answer is a candidate
    have hzip : (t, i) ∈ ts.zipIdx := List.mem_zipIdx_iff_getElem?.mpr hti
    have hcand : (t, i) ∈ ts.zipIdx.filter fun p => posLe (Tok.pos p.1) q :=
      List.mem_filter.mpr ⟨hzip, hle⟩
    have hcands_ts : ∀ p ∈ ts.zipIdx.filter (fun p => posLe (Tok.pos p.1) q),
        p.1 ∈ ts ∧ posLe (Tok.pos p.1) q = true := by
      intro p hp
      obtain ⟨hp1, hp2⟩ := List.mem_filter.mp hp
      have hp' : (p.1, p.2) ∈ ts.zipIdx := hp1
      obtain ⟨hlen, heq⟩ := List.mem_zipIdx' hp'
      exact ⟨heq ▸ List.getElem_mem hlen, hp2⟩
    -- the exact case: the answer heads the candidates at `q`
    have hhead : Tok.pos t = q →
        ((ts.zipIdx.filter fun p => posLe (Tok.pos p.1) q).filter
          fun p => Tok.pos p.1 = q).head? = some (t, i) := by
      intro hq
      rw [List.filter_filter, List.head?_filter, List.find?_eq_some_iff_getElem]
      have hi : i < ts.length := by
        rcases Nat.lt_or_ge i ts.length with h' | h'
        · exact h'
        · rw [List.getElem?_eq_none h'] at hti; exact absurd hti (by simp)
      refine ⟨by simp [hq, posLe_refl], i, by simpa using hi, ?_, ?_⟩
      · rw [List.getElem_zipIdx]
        rw [List.getElem?_eq_getElem hi] at hti
        simp [Option.some.inj hti]
      · intro j hj
        rw [List.getElem_zipIdx]
        have hjl : j < ts.length := by omega
        have := hfirst hq j hj ts[j] (List.getElem?_eq_getElem hjl)
        simp [this]
    unfold lookupSpec
    generalize hcs : (ts.zipIdx.filter fun p => posLe (Tok.pos p.1) q) = cands at *
    cases cands with
    | nil => simp at hcand
    | cons c0 cs =>
      simp only
      obtain ⟨⟨p, hp, hpbest⟩, hdom⟩ := best_spec c0 cs
      generalize hbest : cs.foldl
        (fun b p => if posLt b (Tok.pos p.1) then Tok.pos p.1 else b) (Tok.pos c0.1) = best at *
      have hbt : best = Tok.pos t := by
        obtain ⟨hpts, hpq⟩ := hcands_ts p hp
        have h1 := hmax p.1 hpts hpq
        have h2 := hdom (t, i) hcand
        rw [← hpbest] at h2 ⊢
        exact posLe_antisymm h1 h2
      subst hbt
      by_cases hq : Tok.pos t = q
      · rw [if_pos hq]
        have hh := hhead hq
        rw [← hq] at hh
        have : ((List.filter (fun p => decide (Tok.pos p.1 = Tok.pos t)) (c0 :: cs)).map
            fun p => (p.2, p.1)).head? = some (i, t) := by
          rw [List.head?_map, hh]; rfl
        exact mem_take_one_of_head? this
      · rw [if_neg hq]
        rw [List.mem_map]
        exact ⟨(t, i), List.mem_filter.mpr ⟨hcand, by simp⟩, rfl⟩

/-- C07: on the token's own line a range token reports its original column advanced by the distance
from its generated column (saturating) -/
theorem c07_lookup_same_line (ts : List Tok) (q : Pos) (i : Nat) (t : Tok) (c : Nat) (h : Sorted ts)
    (hl : lookup ts q = .ok (some (i, t, c))) (hr : t.rng = true) (hline : t.dl = q.1) :
    t.dc ≤ q.2 ∧ c = satAdd t.sc (q.2 - t.dc) := by
  have _ := h
  obtain ⟨_, _, hsame, _⟩ := lookup_some_inv ts q i t c hl
  obtain ⟨h1, h2⟩ := hsame ⟨hr, hline⟩
  exact ⟨by omega, h2⟩

/-- C07: a non-range token, or a token reached from a later line, reports its own original column -/
theorem c07_lookup_other (ts : List Tok) (q : Pos) (i : Nat) (t : Tok) (c : Nat)
    (hl : lookup ts q = .ok (some (i, t, c))) (hr : t.rng = false ∨ t.dl ≠ q.1) : c = t.sc := by
  obtain ⟨_, _, _, hother⟩ := lookup_some_inv ts q i t c hl
  apply hother
  rintro ⟨h1, h2⟩
  rcases hr with hr | hr
  · rw [h1] at hr; exact absurd hr (by simp)
  · exact hr h2

-- non-vacuity: a concrete ordered map with ties, an exact and an inexact query
example : Sorted [⟨0, 2, 0, 0, 0, NONE, false⟩, ⟨0, 2, 1, 1, 0, NONE, true⟩, ⟨1, 0, 2, 2, 0, NONE, false⟩] := by
  simp [Sorted, posLe, Tok.pos]

-- non-vacuity of the lookup hypotheses: an exact query (first of the tie is returned), a query past
-- a range token on its own line (column advanced), and a query before every token
example : lookup [⟨0, 2, 0, 0, 0, NONE, false⟩, ⟨0, 2, 1, 1, 0, NONE, true⟩, ⟨1, 0, 2, 2, 0, NONE, false⟩] (0, 2)
    = .ok (some (0, ⟨0, 2, 0, 0, 0, NONE, false⟩, 0)) := by rfl
example : lookup [⟨0, 2, 0, 0, 0, NONE, false⟩, ⟨0, 2, 1, 1, 0, NONE, true⟩, ⟨1, 0, 2, 2, 0, NONE, false⟩] (0, 5)
    = .ok (some (1, ⟨0, 2, 1, 1, 0, NONE, true⟩, 4)) := by rfl
example : lookup [⟨0, 2, 0, 0, 0, NONE, false⟩, ⟨0, 2, 1, 1, 0, NONE, true⟩, ⟨1, 0, 2, 2, 0, NONE, false⟩] (0, 1)
    = .ok none := by rfl

end SmVerif.C04
