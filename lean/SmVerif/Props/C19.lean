import SmVerif.Model.Paths
import SmVerif.Proofs.Paths
/-
C19 — make_relative_path leads from the base file to the target.
Property theorems only; helper lemmas are in SmVerif/Proofs/Paths.lean.
-/
namespace SmVerif.C19
open SmVerif.Paths

/-- length of the longest common prefix of two component lists (the specification of the helper) -/
def lcp : List (List Nat) → List (List Nat) → Nat
  | a :: as, b :: bs => if a = b then 1 + lcp as bs else 0
  | _, _ => 0

/-- the common-prefix helper is right for two lists, whichever is shorter -/
theorem lcp_eq_leadingMatches (t b : List (List Nat)) : lcp t b = leadingMatches t b := by
  induction t generalizing b with
  | nil => cases b <;> rfl
  | cons a as ih =>
    cases b with
    | nil => rfl
    | cons c cs =>
      simp only [lcp, leadingMatches, ih cs]
      by_cases h : a = c
      · subst h; simp
      · have h' : ¬ c = a := fun e => h e.symm
        simp [h, h']

theorem c19_common_prefix_two (t b : List (List Nat)) : commonPrefixTwo t b = lcp t b := by
  rw [commonPrefixTwo_eq, lcp_eq_leadingMatches]

/-- **Resolving the returned relative path against the directory that contains the base file gives
the target**, whatever the depths of the two paths and however many leading components they share
(separators `/` and `\`, absolute or relative, repeated separators; the base may contain anything,
the target's components must be ordinary, i.e. not `.` or `..`). -/
theorem c19_resolves (base target : List Nat) (ht : ordinary target) :
    resolve (comps base).dropLast (comps (makeRel base target)) = comps target :=
  resolves_core base target ht

/-- the result is `.` only when the target is that directory itself -/
theorem c19_dot_iff (base target : List Nat) (ht : ordinary target) :
    makeRel base target = [46] ↔ comps target = (comps base).dropLast :=
  dot_iff_core base target ht

/-- **The result climbs exactly to the deepest common ancestor and no further**: when the target is not
the base directory itself, the returned path consists of one `..` per base-directory component below
the longest common prefix, followed by precisely the target's components below that prefix - no
component of the shared prefix is ever left and re-entered, and nothing else is emitted.  (No
ordinariness hypothesis: this is the shape of the output for every pair of paths.) -/
theorem c19_shape (base target : List Nat) (hne : comps target ≠ (comps base).dropLast) :
    comps (makeRel base target) =
      List.replicate ((comps base).dropLast.length - lcp (comps target) (comps base).dropLast) DOTDOT
        ++ (comps target).drop (lcp (comps target) (comps base).dropLast) := by
  rw [makeRel_unfold, lcp_eq_leadingMatches]
  simp only
  have hgood := goodComps_drop target (leadingMatches (comps target) (comps base).dropLast)
  split
  · next h => exact absurd ((rel_nil_iff _ _ hgood).mp h) hne
  · rw [comps_dotdots, comps_joinSlash _ hgood]

/-- the result is never the empty string -/
theorem c19_nonempty (base target : List Nat) : makeRel base target ≠ [] := by
  rw [makeRel_unfold]
  simp only
  split
  · simp
  · next h => exact h

/-- a target inside the base directory (the base directory's components are a proper prefix of the
target's) is reached without any `..`: the result's components are the remaining target components -/
theorem c19_descend (base target : List Nat) (rest : List (List Nat)) (hr : rest ≠ [])
    (h : comps target = (comps base).dropLast ++ rest) :
    comps (makeRel base target) = rest := by
  have hne : comps target ≠ (comps base).dropLast := by
    rw [h]; intro e
    have := congrArg List.length e
    simp only [List.length_append] at this
    exact hr (List.eq_nil_of_length_eq_zero (by omega))
  have hk : lcp (comps target) (comps base).dropLast = (comps base).dropLast.length := by
    rw [lcp_eq_leadingMatches, h]
    generalize (comps base).dropLast = b
    induction b with
    | nil => cases rest <;> simp [leadingMatches]
    | cons x xs ih => simp [leadingMatches, ih]; omega
  rw [c19_shape base target hne, hk, h]
  simp

-- concrete check of the shape: "/a/b/c.js" -> "/a/x/y.map" climbs once ("b"), then descends "x/y.map"
example : comps (makeRel [47, 97, 47, 98, 47, 99, 46, 106, 115] [47, 97, 47, 120, 47, 121, 46, 109, 97, 112])
    = [DOTDOT, [120], [121, 46, 109, 97, 112]] := by decide

-- non-vacuity: "/foo/a.js" -> "/foo/bar/baz.map"
example : ordinary [47, 102, 111, 111, 47, 98, 97, 114, 47, 98, 97, 122, 46, 109, 97, 112] := by
  simp [ordinary, comps, splitSep, isSep, DOT, DOTDOT]

-- concrete checks of the model: "/foo/a.js" -> "/foo/bar/baz.map" gives "bar/baz.map";
-- "/a/b/c.js" -> "/a/x.map" gives "../x.map"; "/foo/a.js" -> "/foo" gives "."
example : makeRel [47, 102, 111, 111, 47, 97, 46, 106, 115]
    [47, 102, 111, 111, 47, 98, 97, 114, 47, 98, 97, 122, 46, 109, 97, 112]
    = [98, 97, 114, 47, 98, 97, 122, 46, 109, 97, 112] := by decide
example : makeRel [47, 97, 47, 98, 47, 99, 46, 106, 115] [47, 97, 47, 120, 46, 109, 97, 112]
    = [46, 46, 47, 120, 46, 109, 97, 112] := by decide
example : makeRel [47, 102, 111, 111, 47, 97, 46, 106, 115] [47, 102, 111, 111] = [46] := by decide


end SmVerif.C19
