import SmVerif.Proofs.IndexAgree
/-
C08 — index maps: section lookup and flattening describe the same mapping.
Property theorems only; helper lemmas are in SmVerif/Proofs/Index*.lean.

Model: `Index.flatten`, `Index.indexLookup` (Model/Index.lean, mirroring types.rs).
Specification: `Index.Spec.flattenSpec` (concatenation over the sections, recursively, of the
section's tokens shifted by its offset, with source / name strings, the contents and the ignore flag
of the token's source), `Index.Spec.wfSecs` (the quantifier of the property).

Standing size hypothesis `tokCountSecs secs < NONE`: fewer than 2^32-1 tokens in total.  Ids are
`len() as u32` in the builder and `!0` is the "no source" sentinel; with 2^32-1 distinct sources the
sentinel would become a real id (and `set_source_contents` would assert).  Not reachable in memory.
-/
namespace SmVerif.C08
open SmVerif SmVerif.Lookup SmVerif.Index SmVerif.Index.Spec SmVerif.IndexP

/-- a token of map `m` as the API shows it -/
def view (m : SMap) (t : Tok) : VTok := (xOfTok m t).v

/-- stable ordering by generated position -/
def sortByPos (vs : List VTok) : List VTok := vs.mergeSort fun a b => posLe a.pos b.pos

mutual
/-- an unresolved section somewhere (at any nesting depth) -/
def hasUnres : DMap → Prop
  | .regular _ => False
  | .hermes _ => False
  | .index _ secs => hasUnresSecs secs
def hasUnresSecs : Secs → Prop
  | .nil => False
  | .unres _ _ _ _ => True
  | .cons _ _ _ d rest => hasUnres d ∨ hasUnresSecs rest
end

/-! ### flatten -/

/-- what a successful flatten is: the builder that has consumed exactly the specification's tokens -/
theorem flatten_inv (f : Option Bytes) (secs : Secs) (m : SMap) (hsz : tokCountSecs secs < NONE)
    (h : flatten f secs = .ok m) :
    ∃ b, Inv b (flattenSpec secs) ∧ b.root = none ∧ m = b.intoSourcemap := by
  obtain ⟨hok, herr⟩ := flattenSecs_spec secs (Bld.new f) [] (inv_new f) (by simpa using hsz)
  unfold flatten at h
  rw [sectionMap] at h
  by_cases hfl : flattenableSecs secs = true
  · obtain ⟨b', hb', hinv, _, hroot⟩ := hok hfl
    rw [hb'] at h
    simp only [Except.ok.injEq] at h
    exact ⟨b', by simpa [flattenSpec] using hinv, by rw [hroot]; rfl, h.symm⟩
  · rw [herr (by simpa using hfl)] at h
    simp at h

/-- Flattening succeeds exactly when every section (at every depth) is resolved and no offset
addition leaves u32; otherwise it is the `CannotFlatten` error - never a panic. -/
theorem c08_flatten_ok_iff (f : Option Bytes) (secs : Secs) (hsz : tokCountSecs secs < NONE) :
    (flattenableSecs secs = true → ∃ m, flatten f secs = .ok m) ∧
    (flattenableSecs secs = false → flatten f secs = .error .flatten) := by
  have := sectionMap_spec (.index f secs) (by rw [tokCount]; exact hsz)
  obtain ⟨h1, h2⟩ := this
  rw [flattenable] at h1 h2
  exact ⟨fun h => by obtain ⟨m, hm, _⟩ := h1 h; exact ⟨m, hm⟩, h2⟩

mutual
theorem hasUnres_not_flattenable : (d : DMap) → hasUnres d → flattenable d = false
  | .regular _, h => by rw [hasUnres] at h; exact h.elim
  | .hermes _, h => by rw [hasUnres] at h; exact h.elim
  | .index _ secs, h => by rw [flattenable]; exact hasUnresSecs_not_flattenable secs (by rw [hasUnres] at h; exact h)
theorem hasUnresSecs_not_flattenable : (secs : Secs) → hasUnresSecs secs → flattenableSecs secs = false
  | .nil, h => by rw [hasUnresSecs] at h; exact h.elim
  | .unres _ _ _ _, _ => by rw [flattenableSecs]
  | .cons _ _ _ d rest, h => by
    rw [hasUnresSecs] at h
    rw [flattenableSecs]
    rcases h with h | h
    · rw [hasUnres_not_flattenable d h]; simp
    · rw [hasUnresSecs_not_flattenable rest h]; simp
end

/-- an unresolved section, at any depth, makes flatten an error -/
theorem c08_unresolved_err (f : Option Bytes) (secs : Secs) (hsz : tokCountSecs secs < NONE)
    (h : hasUnresSecs secs) : flatten f secs = .error .flatten :=
  (c08_flatten_ok_iff f secs hsz).2 (hasUnresSecs_not_flattenable secs h)

theorem sortByPos_map (xs : List XTok) : (sortX xs).map (·.v) = sortByPos (xs.map (·.v)) := by
  unfold sortX sortByPos
  exact List.map_mergeSort (fun a _ b _ => rfl)

/-- The flattened map's tokens (source and name as strings, range flag, original position) are
exactly the tokens of `flattenSpec`, ordered by generated position (ties in flatten order).
For every index map that can be flattened - no well-formedness needed. -/
theorem c08_flatten_tokens (f : Option Bytes) (secs : Secs) (m : SMap) (hsz : tokCountSecs secs < NONE)
    (h : flatten f secs = .ok m) :
    m.tokens.map (view m) = sortByPos ((flattenSpec secs).map (·.v)) := by
  obtain ⟨h1, _⟩ := sectionMap_spec (.index f secs) (by rw [tokCount]; exact hsz)
  have hfl : flattenable (.index f secs) = true := by
    cases hf : flattenable (.index f secs) with
    | true => rfl
    | false =>
      have := (sectionMap_spec (.index f secs) (by rw [tokCount]; exact hsz)).2 hf
      unfold flatten at h; rw [h] at this; simp at this
  obtain ⟨m', hm', hview⟩ := h1 hfl
  unfold flatten at h
  rw [h] at hm'
  simp only [Except.ok.injEq] at hm'
  subst hm'
  have := congrArg (List.map (·.v)) hview
  rw [List.map_map, specX, sortByPos_map, byName_eq, List.map_map] at this
  exact this

/-- inside the quantifier the specification's token list is already in order: flatten yields exactly
the concatenation of the shifted sections -/
theorem c08_flatten_tokens_wf (f : Option Bytes) (secs : Secs) (m : SMap) (hwf : wfSecs secs = true)
    (hsz : tokCountSecs secs < NONE) (h : flatten f secs = .ok m) :
    m.tokens.map (view m) = (flattenSpec secs).map (·.v) := by
  rw [c08_flatten_tokens f secs m hsz h, ← sortByPos_map]
  unfold flattenSpec
  rw [sortX_of_sorted _ (specSecs_sorted secs hwf).1]

/-- the contents of a source of the flattened map: the first contents present among the tokens (in
flatten order) that name it -/
theorem c08_flatten_contents (f : Option Bytes) (secs : Secs) (m : SMap) (hsz : tokCountSecs secs < NONE)
    (h : flatten f secs = .ok m) (i : Nat) (s : Bytes) (hs : m.getSource i = some s) :
    m.getSourceContents i = firstCont (flattenSpec secs) (some s) := by
  obtain ⟨b, hinv, hroot, rfl⟩ := flatten_inv f secs m hsz h
  obtain ⟨_, _, hsrc, hpre, hcont, _, _⟩ := into_fields b hroot
  simp only [SMap.getSource, hpre, hsrc, Option.getD_none] at hs
  have := hinv.cont i s hs
  simpa [SMap.getSourceContents, Bld.getSourceContents, hcont] using this

/-- a source of the flattened map is on the ignore list exactly when some token naming it had an
ignored source in its section -/
theorem c08_flatten_ignore (f : Option Bytes) (secs : Secs) (m : SMap) (hsz : tokCountSecs secs < NONE)
    (h : flatten f secs = .ok m) (i : Nat) (s : Bytes) (hs : m.getSource i = some s) :
    i ∈ m.ignore ↔ anyIgn (flattenSpec secs) (some s) = true := by
  obtain ⟨b, hinv, hroot, rfl⟩ := flatten_inv f secs m hsz h
  obtain ⟨_, _, hsrc, hpre, _, _, hign⟩ := into_fields b hroot
  simp only [SMap.getSource, hpre, hsrc, Option.getD_none] at hs
  rw [hign, hinv.ign]
  simp only [anyIgn, List.any_eq_true, Bool.and_eq_true, beq_iff_eq]
  have hlen : (flattenSpec secs).length < NONE := by
    unfold flattenSpec; rw [specSecs_length]; exact hsz
  have hi : i < b.sources.length := by
    rcases Nat.lt_or_ge i b.sources.length with h' | h'
    · exact h'
    · rw [List.getElem?_eq_none h'] at hs; exact absurd hs (by simp)
  constructor
  · rintro ⟨x, hx, hxi, hxr⟩
    refine ⟨x, hx, hxi, ?_⟩
    cases hxs : x.v.src with
    | none =>
      rw [hxs] at hxr; simp only [IdRel] at hxr
      have := hinv.slen; omega
    | some s' =>
      rw [hxs] at hxr; simp only [IdRel] at hxr
      rw [hs] at hxr; exact hxr.symm
  · rintro ⟨x, hx, hxi, hxs⟩
    exact ⟨x, hx, hxi, by rw [hxs]; exact hs⟩

/-- sources and names of the flattened map: the strings the tokens mention, each once, in order of
first appearance (interning by string) -/
theorem c08_flatten_sources (f : Option Bytes) (secs : Secs) (m : SMap) (hsz : tokCountSecs secs < NONE)
    (h : flatten f secs = .ok m) :
    m.sources = dedupFirst ((flattenSpec secs).filterMap (·.v.src)) [] ∧
    m.names = dedupFirst ((flattenSpec secs).filterMap (·.v.name)) [] ∧ m.root = none := by
  obtain ⟨b, hinv, hroot, rfl⟩ := flatten_inv f secs m hsz h
  obtain ⟨_, hnm, hsrc, _, _, _, _⟩ := into_fields b hroot
  refine ⟨by rw [hsrc]; exact hinv.srcs, by rw [hnm]; exact hinv.nms, ?_⟩
  have : ∀ (l : List Nat) (m0 : SMap), (l.foldl (fun m i => m.addToIgnoreList i) m0).root = m0.root := by
    intro l
    induction l with
    | nil => intro m0; rfl
    | cons a l ih => intro m0; rw [List.foldl_cons, ih]; rfl
  unfold Bld.intoSourcemap
  rw [this, hroot]
  rfl

/-! ### lookup -/

/-- With strictly increasing offsets the index lookup resolves within the section with the greatest
offset not after the position, at the position relative to that offset (line - offset line; column -
offset column on the section's first line only); with no such section there is no answer. -/
theorem c08_section_choice (secs : Secs) (q : Pos)
    (hinc : (offsets secs).Pairwise (fun a b => posLt a b = true)) :
    ((∀ s ∈ sections secs, posLe s.1 q = false) → indexLookup secs q = .ok none) ∧
    (∀ s ∈ sections secs, posLe s.1 q = true →
      (∀ s' ∈ sections secs, posLe s'.1 q = true → posLe s'.1 s.1 = true) →
      indexLookup secs q = inSection s q) :=
  ⟨fun h => choice_none none secs q h, fun s hs hle hmax => choice_some none secs q hinc s hs hle hmax⟩

/-- For a well-formed index map: whenever the index lookup finds a token, the flattened map's lookup
at the same position finds a token with the same source, original line, original column (including
the range-token column shift) and name.  Nested indexes included. -/
theorem c08_agree (f : Option Bytes) (secs : Secs) (q : Pos) (o : Origin) (hwf : wfSecs secs = true)
    (hsz : tokCountSecs secs < NONE) (h : indexLookup secs q = .ok (some o)) :
    ∃ m i t c, flatten f secs = .ok m ∧ lookup m.tokens q = .ok (some (i, t, c)) ∧ originOf m t c = o := by
  have hd : dmapLookup (.index f secs) q = .ok (some o) := by
    unfold indexLookup at h
    rw [dmapLookup] at h ⊢; exact h
  exact agreeD (.index f secs) (by rw [wf_index]; exact hwf) (by rw [tokCount]; exact hsz) q o hd

/-! ### no panics -/

/-- flatten never panics: it returns a map or `CannotFlatten` for *any* index map -/
theorem c08_safe_flatten (f : Option Bytes) (secs : Secs) (hsz : tokCountSecs secs < NONE) :
    (∃ m, flatten f secs = .ok m) ∨ flatten f secs = .error .flatten := by
  obtain ⟨h1, h2⟩ := c08_flatten_ok_iff f secs hsz
  cases hf : flattenableSecs secs with
  | true => exact Or.inl (h1 hf)
  | false => exact Or.inr (h2 hf)

/-- the index lookup never panics, for any arrangement of sections (unsorted, overlapping, equal
offsets, unresolved, nested): the offset subtractions cannot underflow because
`greatest_lower_bound` only returns an element that is not after the key, sorted slice or not.
(The plain maps inside have ordered tokens - the `SourceMap` invariant of C04.) -/
theorem c08_safe_lookup (secs : Secs) (q : Pos) (h : leavesSortedSecs secs) :
    ∃ r, indexLookup secs q = .ok r :=
  dmapLookup_safe (.index none secs) (by rw [leavesSorted]; exact h) q

/-- the subtraction itself, unconditionally: the index lookup is the chosen section's lookup at the
relative position - there is no panic branch left (any index map, any token order inside) -/
theorem c08_lookup_no_underflow (secs : Secs) (q : Pos) :
    indexLookup secs q = match glb (offsets secs) q with
      | none => .ok none
      | some i => match (sections secs)[i]? with
        | none => .ok none
        | some s => inSection s q :=
  dmapLookup_index none secs q

/-! ### non-vacuity -/

def exA : SMap := { tokens := [⟨0, 0, 1, 2, 0, 0, false⟩, ⟨0, 5, 3, 4, 1, NONE, true⟩], sources := [[97], [98]], names := [[110]] }
def exB : SMap := { tokens := [⟨0, 2, 0, 0, 0, NONE, false⟩, ⟨1, 1, 9, 9, 0, NONE, false⟩], sources := [[98]],
                    contents := [some [120]], ignore := [0] }
/-- two sections, the second starting mid-line -/
def exSecs : Secs := .cons 0 0 none (.regular exA) (.cons 1 3 none (.regular exB) .nil)
/-- the same, with the first section wrapped in a nested index -/
def exNested : Secs := .cons 0 0 none (.index none (.cons 0 0 none (.regular exA) .nil)) (.cons 1 3 none (.hermes exB) .nil)

example : wfSecs exSecs = true := by decide
example : tokCountSecs exSecs < NONE := by decide
-- the nested example is well-formed too (its inner index flattens to an already ordered list)
theorem exInner : specX (.index none (.cons 0 0 none (.regular exA) .nil)) =
    byName (specSecs (.cons 0 0 none (.regular exA) .nil)) := by
  rw [specX]; exact sortX_of_sorted _ (by unfold SortedX; decide)
example : wfSecs exNested = true := by
  unfold exNested
  rw [wfSecs, wfSecsG, exInner]
  decide
example : tokCountSecs exNested < NONE := by decide
example : indexLookup exNested (0, 7) = .ok (some ⟨some [98], 3, 6, none⟩) := by rfl
example : (offsets exSecs).Pairwise (fun a b => posLt a b = true) := by decide
example : flattenableSecs exSecs = true := by decide
example : leavesSortedSecs exSecs := by
  simp [leavesSortedSecs, leavesSorted, exSecs, exA, exB, SortedT, Tok.pos, posLe]
example : hasUnresSecs (.cons 0 0 none (.regular exA) (.unres 3 0 none .nil)) := by
  simp [hasUnresSecs]
-- a query on the second section's first line, right of its column offset: found by the index lookup
example : indexLookup exSecs (1, 6) = .ok (some ⟨some [98], 0, 0, none⟩) := by rfl
-- left of the column offset the first section's range token answers
example : indexLookup exSecs (1, 2) = .ok (some ⟨some [98], 3, 4, none⟩) := by rfl
example : ∃ m, flatten none exSecs = .ok m ∧ m.getSource 1 = some [98] ∧ m.getSourceContents 1 = some [120] ∧ 1 ∈ m.ignore :=
  ⟨_, rfl, by decide⟩

end SmVerif.C08
