import SmVerif.Model.RamBundle
import SmVerif.Proofs.RamBundle
/-
C20 — indexed RAM bundles are parsed exactly and malformed ones are refused.
Property theorems only; helper lemmas are in SmVerif/Proofs/RamBundle.lean.

Reader under verification (model `SmVerif.Ram`, mirrors ram_bundle.rs on scroll's bounds rules):
`parse`, `startupCode`, `getModule`, `iterModules`, `isRamBundle`.

Part 1 (well-formed bundles).  The hypothesis is stated twice:
  * `Layout img startup slots` — a *physical-layout-independent* description of a well-formed image:
    the three header fields say magic / `slots.length` / `startup.length`, the startup code sits right
    behind the table, an empty slot has the all-zero entry, and the entry of a present module `d` says
    `(off, |d|+1)` where `d ++ [0]` is what the image holds `off` bytes into the data area.  Nothing is
    said about *where* the modules lie: any physical order, gaps between modules, even shared bytes.
    (Non-overlap of the modules is not needed for reading, so it is not demanded: the theorems cover a
    superset of the bundles the property quantifies over.)
  * `img = serialize startup slots` — the model's own writer (modules in id order, no gaps), with every
    written field below 2^32 (`FieldsFit`).  `c20_serialize_layout` shows that this is an instance of
    `Layout`, so the `serialize` theorems are corollaries of the layout theorems.
Bytes need not be < 256 for any of this (the reader only copies startup/module bytes), so that
hypothesis is not carried; `serialize_bytes` records that a bundle written from bytes consists of bytes.

Part 2 (every byte string): `c20_recognise`, `c20_parse_iff`, `c20_parse_refused`, `c20_total`, `c20_in_bounds`.
-/
namespace SmVerif.C20
open SmVerif SmVerif.Ram

/-! ## vocabulary of the statements -/

/-- what the image must hold for table slot `id` of a bundle with `n` slots -/
def SlotAt (img : List Nat) (n id : Nat) : Option (List Nat) → Prop
  | none =>
      le32 img (HEADER + id * ENTRY) = some 0 ∧ le32 img (HEADER + id * ENTRY + 4) = some 0
  | some d =>
      ∃ off, le32 img (HEADER + id * ENTRY) = some off ∧
        le32 img (HEADER + id * ENTRY + 4) = some (d.length + 1) ∧
        (img.drop (HEADER + n * ENTRY + off)).take (d.length + 1) = d ++ [0]

/-- `img` is a well-formed indexed RAM bundle holding `startup` and `slots` (in any physical layout) -/
structure Layout (img startup : List Nat) (slots : List (Option (List Nat))) : Prop where
  magic : le32 img 0 = some Consts.ramMagic
  count : le32 img 4 = some slots.length
  ssize : le32 img 8 = some startup.length
  startup_at : (img.drop (HEADER + slots.length * ENTRY)).take startup.length = startup
  slot : ∀ (id : Nat) (h : id < slots.length), SlotAt img slots.length id slots[id]

/-- the present modules with their ids, in id order -/
def present (slots : List (Option (List Nat))) : List (Nat × List Nat) :=
  slots.zipIdx.filterMap fun p => p.1.map fun d => (p.2, d)

/-- every 32-bit field that `serialize` writes fits (count, startup size, each offset and length) -/
def FieldsFit (startup : List Nat) (slots : List (Option (List Nat))) : Prop :=
  slots.length < U32 ∧ startup.length < U32 ∧
  ∀ e ∈ layout slots startup.length, e.1 < U32 ∧ e.2 < U32

/-- `s` is a window of the buffer: `len` bytes from `i`, entirely inside -/
def IsWindow (bs s : List Nat) : Prop := ∃ i len, i + len ≤ bs.length ∧ s = (bs.drop i).take len

/-- a result that is a value or one of the reader's four refusals — never a panic, never a hang -/
def Refuses {α : Type} (r : Res α) : Prop :=
  ∀ e, r = .error e → e = .rammagic ∨ e = .ramindex ∨ e = .ramentry ∨ e = .scroll

theorem Refuses.no_panic {α : Type} {r : Res α} (h : Refuses r) :
    r ≠ .error .panic ∧ r ≠ .error .diverge := by
  constructor <;> intro hr <;> rcases h _ hr with h | h | h | h <;> cases h

/-! ## Part 1a: any physical layout -/

/-- the window equations of `Layout` put startup code and every module inside the image -/
theorem Layout.in_bounds {img startup : List Nat} {slots : List (Option (List Nat))}
    (h : Layout img startup slots) (hne : startup ≠ []) :
    HEADER + slots.length * ENTRY + startup.length ≤ img.length ∧
    ∀ (id : Nat) (hid : id < slots.length) (d : List Nat), slots[id] = some d →
      ∃ off, le32 img (HEADER + id * ENTRY) = some off ∧
        HEADER + slots.length * ENTRY + off + d.length + 1 ≤ img.length := by
  refine ⟨(window_le h.startup_at).resolve_right hne, ?_⟩
  intro id hid d hd
  have hs := h.slot id hid
  rw [hd] at hs
  obtain ⟨off, h1, _, hw⟩ := hs
  refine ⟨off, h1, ?_⟩
  have := (window_le (w := d ++ [0]) (by simpa using hw)).resolve_right (by simp)
  simp only [List.length_append, List.length_cons, List.length_nil] at this
  omega

/-- what `parse` returns on a laid-out image -/
theorem parse_layout {img startup : List Nat} {slots : List (Option (List Nat))}
    (h : Layout img startup slots) {b : Bundle} (hb : parse img = .ok b) :
    b.bytes = img ∧ b.count = slots.length ∧ b.startupSize = startup.length ∧
      b.startupOff = HEADER + slots.length * ENTRY := by
  rw [parse_of_header h.magic h.count h.ssize] at hb
  cases hb
  exact ⟨rfl, rfl, rfl, rfl⟩

/-- **parsing a well-formed bundle reports the module count and the startup code that were written** -/
theorem c20_parse_layout {img startup : List Nat} {slots : List (Option (List Nat))}
    (h : Layout img startup slots) (hne : startup ≠ []) :
    ∃ b, parse img = .ok b ∧ b.count = slots.length ∧ startupCode b = .ok startup := by
  refine ⟨_, parse_of_header h.magic h.count h.ssize, rfl, ?_⟩
  exact startupCode_of_window hne rfl h.startup_at

/-- **each present module's bytes without its trailing NUL, nothing for an empty slot** -/
theorem c20_get_module_layout {img startup : List Nat} {slots : List (Option (List Nat))}
    (h : Layout img startup slots) {b : Bundle} (hb : parse img = .ok b)
    (id : Nat) (hid : id < slots.length) : getModule b id = .ok slots[id] := by
  obtain ⟨hbytes, hcount, _, hoff⟩ := parse_layout h hb
  have hs := h.slot id hid
  cases hsl : slots[id] with
  | none =>
    rw [hsl] at hs
    exact getModule_of_empty (by omega) (by rw [hbytes]; exact hs.1) (by rw [hbytes]; exact hs.2)
  | some d =>
    rw [hsl] at hs
    obtain ⟨off, h1, h2, hw⟩ := hs
    exact getModule_of_window (by omega) (by rw [hbytes]; exact h1) (by rw [hbytes]; exact h2)
      (by rw [hbytes, hoff]; exact hw)

/-- **an error for ids past the table** -/
theorem c20_past_table_layout {img startup : List Nat} {slots : List (Option (List Nat))}
    (h : Layout img startup slots) {b : Bundle} (hb : parse img = .ok b)
    (id : Nat) (hid : slots.length ≤ id) : getModule b id = .error .ramindex := by
  obtain ⟨_, hcount, _, _⟩ := parse_layout h hb
  exact getModule_past (by omega)

/-- **the module iterator yields exactly the present modules in id order** (observed on the ids below
`lim`, as the harness does; `lim ≥ slots.length` gives the whole walk, see `c20_iter_layout_all`) -/
theorem c20_iter_layout {img startup : List Nat} {slots : List (Option (List Nat))}
    (h : Layout img startup slots) {b : Bundle} (hb : parse img = .ok b) (lim : Nat) :
    iterModules b lim = (present (slots.take lim)).map fun p => (p.1, .ok p.2) := by
  obtain ⟨_, hcount, _, _⟩ := parse_layout h hb
  have hlen : min b.count lim = (slots.take lim).length := by
    rw [List.length_take, hcount]; omega
  unfold iterModules present
  rw [hlen, List.range_eq_range', List.map_filterMap]
  rw [walk_eq (slots.take lim) _ (fun i d => (i, Except.ok d)) 0]
  · congr 1
    funext p
    rcases p with ⟨s, i⟩
    cases s <;> rfl
  · intro i s hs
    have hi : i < (slots.take lim).length := (List.getElem?_eq_some_iff.mp hs).1
    have hi' : i < slots.length := by rw [List.length_take] at hi; omega
    have hs' : slots[i] = s := by
      have := (List.getElem?_eq_some_iff.mp hs).2
      rw [List.getElem_take] at this; exact this
    rw [Nat.zero_add, c20_get_module_layout h hb i hi', hs']
    cases s <;> rfl

theorem c20_iter_layout_all {img startup : List Nat} {slots : List (Option (List Nat))}
    (h : Layout img startup slots) {b : Bundle} (hb : parse img = .ok b) (lim : Nat) (hl : slots.length ≤ lim) :
    iterModules b lim = (present slots).map fun p => (p.1, .ok p.2) := by
  rw [c20_iter_layout h hb lim, List.take_of_length_le hl]

/-! ## Part 1b: the model's writer is such a layout; the `serialize` statements -/

/-- total size below 2^32 is enough for every field to fit -/
theorem fieldsFit_of_size (startup : List Nat) (slots : List (Option (List Nat)))
    (h : (serialize startup slots).length < U32) : FieldsFit startup slots := by
  rw [serialize_length] at h
  simp only [HEADER, ENTRY, U32] at h
  refine ⟨by simp only [U32]; omega, by simp only [U32]; omega, ?_⟩
  intro e he
  have := layout_bound slots startup.length e he
  simp only [U32]; omega

/-- **`serialize startup slots` (modules in id order) is a well-formed layout** -/
theorem c20_serialize_layout (startup : List Nat) (slots : List (Option (List Nat)))
    (hf : FieldsFit startup slots) : Layout (serialize startup slots) startup slots := by
  obtain ⟨hn, hs, hl⟩ := hf
  refine ⟨serialize_magic startup slots, serialize_count startup slots hn,
    serialize_ssize startup slots hs, serialize_startup startup slots, ?_⟩
  intro id hid
  have hget : slots[id]? = some slots[id] := List.getElem?_eq_getElem hid
  cases hsl : slots[id] with
  | none =>
    rw [hsl] at hget
    have he := layout_none slots startup.length id hget
    have := serialize_entry startup slots id (0, 0) he (by decide) (by decide)
    exact this
  | some d =>
    rw [hsl] at hget
    obtain ⟨off, he, hw⟩ := layout_some slots startup id d hget
    have hm := hl _ (List.mem_of_getElem? he)
    obtain ⟨h1, h2⟩ := serialize_entry startup slots id (off, d.length + 1) he hm.1 hm.2
    exact ⟨off, h1, h2, by rw [serialize_drop]; exact hw⟩

/-- a bundle written from bytes consists of bytes -/
theorem serialize_bytes (startup : List Nat) (slots : List (Option (List Nat)))
    (hs : ∀ x ∈ startup, x < 256) (hm : ∀ d, some d ∈ slots → ∀ x ∈ d, x < 256) :
    ∀ x ∈ serialize startup slots, x < 256 := by
  have hbody : ∀ (sl : List (Option (List Nat))), (∀ d, some d ∈ sl → ∀ x ∈ d, x < 256) →
      ∀ x ∈ body sl, x < 256 := by
    intro sl
    induction sl with
    | nil => intro _ x hx; simp [body] at hx
    | cons s r ih =>
      intro hsl x hx
      have hr := ih (fun d hd => hsl d (List.mem_cons_of_mem _ hd))
      cases s with
      | none => exact hr x (by simpa [body] using hx)
      | some d =>
        simp only [body, List.mem_append, List.mem_cons] at hx
        rcases hx with hx | hx | hx
        · exact hsl d (by simp) x hx
        · omega
        · exact hr x hx
  intro x hx
  rw [serialize_eq] at hx
  simp only [List.mem_append, List.mem_flatten, List.mem_map] at hx
  rcases hx with ((((hx | hx) | hx) | ⟨l, ⟨e, _, rfl⟩, hx⟩) | hx | hx)
  · exact putLe32_lt _ x hx
  · exact putLe32_lt _ x hx
  · exact putLe32_lt _ x hx
  · simp only [enc, List.mem_append] at hx
    rcases hx with hx | hx <;> exact putLe32_lt _ x hx
  · exact hs x hx
  · exact hbody slots hm x hx

/-- **C20, first sentence, for the model's writer**: parsing what was written succeeds and reports the
module count and the startup code that were written -/
theorem c20_parse_serialize (startup : List Nat) (slots : List (Option (List Nat)))
    (hne : startup ≠ []) (hf : FieldsFit startup slots) :
    ∃ b, parse (serialize startup slots) = .ok b ∧ b.count = slots.length ∧
      startupCode b = .ok startup :=
  c20_parse_layout (c20_serialize_layout startup slots hf) hne

/-- each present module's bytes without its trailing NUL; nothing for an empty table slot -/
theorem c20_get_module (startup : List Nat) (slots : List (Option (List Nat)))
    (hf : FieldsFit startup slots) (b : Bundle) (hb : parse (serialize startup slots) = .ok b)
    (id : Nat) (hid : id < slots.length) : getModule b id = .ok slots[id] :=
  c20_get_module_layout (c20_serialize_layout startup slots hf) hb id hid

/-- an error for ids past the table -/
theorem c20_past_table (startup : List Nat) (slots : List (Option (List Nat)))
    (hf : FieldsFit startup slots) (b : Bundle) (hb : parse (serialize startup slots) = .ok b)
    (id : Nat) (hid : slots.length ≤ id) : getModule b id = .error .ramindex :=
  c20_past_table_layout (c20_serialize_layout startup slots hf) hb id hid

/-- the module iterator yields exactly the present modules in id order -/
theorem c20_iter (startup : List Nat) (slots : List (Option (List Nat)))
    (hf : FieldsFit startup slots) (b : Bundle) (hb : parse (serialize startup slots) = .ok b)
    (lim : Nat) (hl : slots.length ≤ lim) :
    iterModules b lim = (present slots).map fun p => (p.1, .ok p.2) :=
  c20_iter_layout_all (c20_serialize_layout startup slots hf) hb lim hl

/-! ### non-vacuity -/

/-- startup "abc", slots [ "x", empty, "" (a module that is only its NUL), ff 00 (non-UTF-8, inner NUL) ] -/
def exSlots : List (Option (List Nat)) := [some [120], none, some [], some [255, 0]]

theorem exFits : FieldsFit [97, 98, 99] exSlots := by
  refine ⟨by decide, by decide, ?_⟩
  intro e he
  simp only [exSlots, layout, List.length_cons, List.length_nil, List.mem_cons, List.not_mem_nil, or_false] at he
  rcases he with rfl | rfl | rfl | rfl <;> decide

-- … also obtainable from the total size (59 bytes)
example : (serialize [97, 98, 99] exSlots).length < U32 := by decide
example : FieldsFit [97, 98, 99] exSlots := fieldsFit_of_size _ _ (by decide)

-- the hypotheses of `serialize_bytes` for this bundle
example : (∀ x ∈ [97, 98, 99], x < 256) ∧ (∀ d, some d ∈ exSlots → ∀ x ∈ d, x < 256) := by
  refine ⟨by decide, ?_⟩
  intro d hd
  simp only [exSlots, List.mem_cons, List.not_mem_nil, or_false, Option.some.injEq, reduceCtorEq, false_or] at hd
  rcases hd with rfl | rfl | rfl <;> decide

-- the four `serialize` theorems instantiated: one parse result `b` answers every access as written
example : ∃ b, parse (serialize [97, 98, 99] exSlots) = .ok b ∧ b.count = 4 ∧
    startupCode b = .ok [97, 98, 99] ∧
    getModule b 0 = .ok (some [120]) ∧ getModule b 1 = .ok none ∧ getModule b 2 = .ok (some []) ∧
    getModule b 3 = .ok (some [255, 0]) ∧ getModule b 4 = .error .ramindex ∧
    iterModules b 6 = [(0, .ok [120]), (2, .ok []), (3, .ok [255, 0])] := by
  obtain ⟨b, hb, hc, hs⟩ := c20_parse_serialize [97, 98, 99] exSlots (by decide) exFits
  exact ⟨b, hb, hc, hs,
    c20_get_module _ _ exFits b hb 0 (by decide), c20_get_module _ _ exFits b hb 1 (by decide),
    c20_get_module _ _ exFits b hb 2 (by decide), c20_get_module _ _ exFits b hb 3 (by decide),
    c20_past_table _ _ exFits b hb 4 (by decide), c20_iter _ _ exFits b hb 6 (by decide)⟩

example : [97, 98, 99] ≠ [] := by decide

example : present exSlots = [(0, [120]), (2, []), (3, [255, 0])] := by decide

/-- the same bundle with the modules in the physical order 3, 0, 2, a two-byte gap (de ad) behind the
startup code and a one-byte gap (99) before the last module — as the generator's `build(.., shuffle, gap)`
writes them; not an image that `serialize` produces -/
def exShuffled : List Nat :=
  [229, 209, 11, 251,  4, 0, 0, 0,  3, 0, 0, 0,
   8, 0, 0, 0,  2, 0, 0, 0,     -- slot 0: off 8, len 2
   0, 0, 0, 0,  0, 0, 0, 0,     -- slot 1: empty
   11, 0, 0, 0, 1, 0, 0, 0,     -- slot 2: off 11, len 1
   5, 0, 0, 0,  3, 0, 0, 0,     -- slot 3: off 5, len 3
   97, 98, 99,  222, 173,  255, 0, 0,  120, 0,  99,  0]

theorem exLayout : Layout exShuffled [97, 98, 99] exSlots := by
  refine ⟨by decide, by decide, by decide, by decide, ?_⟩
  intro id hid
  match id, hid with
  | 0, _ => exact ⟨8, by decide, by decide, by decide⟩
  | 1, _ => exact ⟨by decide, by decide⟩
  | 2, _ => exact ⟨11, by decide, by decide, by decide⟩
  | 3, _ => exact ⟨5, by decide, by decide, by decide⟩
  | n + 4, h => simp [exSlots] at h; omega

example : exShuffled ≠ serialize [97, 98, 99] exSlots := by decide

-- the layout theorems instantiated on the shuffled image (this image is also the first corpus case of
-- tools/gen/c20.py, so the implementation is run on it)
example : ∃ b, parse exShuffled = .ok b ∧ b.count = 4 ∧ startupCode b = .ok [97, 98, 99] ∧
    getModule b 0 = .ok (some [120]) ∧ getModule b 1 = .ok none ∧ getModule b 2 = .ok (some []) ∧
    getModule b 3 = .ok (some [255, 0]) ∧ getModule b 4 = .error .ramindex ∧
    iterModules b 2 = [(0, .ok [120])] ∧
    iterModules b 6 = [(0, .ok [120]), (2, .ok []), (3, .ok [255, 0])] := by
  obtain ⟨b, hb, hc, hs⟩ := c20_parse_layout exLayout (by decide)
  exact ⟨b, hb, hc, hs,
    c20_get_module_layout exLayout hb 0 (by decide), c20_get_module_layout exLayout hb 1 (by decide),
    c20_get_module_layout exLayout hb 2 (by decide), c20_get_module_layout exLayout hb 3 (by decide),
    c20_past_table_layout exLayout hb 4 (by decide), c20_iter_layout exLayout hb 2,
    c20_iter_layout_all exLayout hb 6 (by decide)⟩

/-! ## Part 2: every byte string -/

/-- **recognition is true exactly when a complete 12-byte header with the magic number leads** -/
theorem c20_recognise (bs : List Nat) :
    isRamBundle bs = true ↔ 12 ≤ bs.length ∧ le32 bs 0 = some Consts.ramMagic := by
  unfold isRamBundle
  by_cases hlen : 12 ≤ bs.length
  · obtain ⟨m, h0⟩ := le32_some_of_le (bs := bs) (off := 0) (by omega)
    obtain ⟨c, h4⟩ := le32_some_of_le (bs := bs) (off := 4) (by omega)
    obtain ⟨s, h8⟩ := le32_some_of_le (bs := bs) (off := 8) (by omega)
    rw [h0, h4, h8]
    simp [hlen]
  · have h8 : le32 bs 8 = none := le32_none_of_lt (by omega)
    rw [h8]
    constructor
    · intro h
      split at h
      · rename_i heq; cases heq
      · cases h
    · intro h; exact absurd h.1 hlen

/-- **parsing succeeds exactly on the recognised byte strings** -/
theorem c20_parse_iff (bs : List Nat) : (∃ b, parse bs = .ok b) ↔ isRamBundle bs = true := by
  rw [c20_recognise]
  constructor
  · rintro ⟨b, hb⟩
    obtain ⟨h0, _, h8, _, _⟩ := parse_ok_iff.mp hb
    exact ⟨by have := le32_some_le h8; omega, h0⟩
  · rintro ⟨hlen, h0⟩
    obtain ⟨c, h4⟩ := le32_some_of_le (bs := bs) (off := 4) (by omega)
    obtain ⟨s, h8⟩ := le32_some_of_le (bs := bs) (off := 8) (by omega)
    exact ⟨_, parse_of_header h0 h4 h8⟩

/-- … and everything else is refused: a short buffer by scroll, a wrong magic as such -/
theorem c20_parse_refused (bs : List Nat) (h : isRamBundle bs = false) :
    parse bs = .error (if bs.length < 12 then .scroll else .rammagic) := by
  have hr := c20_recognise bs
  unfold parse
  by_cases hlen : 12 ≤ bs.length
  · obtain ⟨m, h0⟩ := le32_some_of_le (bs := bs) (off := 0) (by omega)
    obtain ⟨c, h4⟩ := le32_some_of_le (bs := bs) (off := 4) (by omega)
    obtain ⟨s, h8⟩ := le32_some_of_le (bs := bs) (off := 8) (by omega)
    have hm : m ≠ Consts.ramMagic := by
      intro hm; subst hm
      rw [hr.mpr ⟨hlen, h0⟩] at h; cases h
    rw [h0, h4, h8, if_neg (by omega)]
    simp [hm]
  · have h8 : le32 bs 8 = none := le32_none_of_lt (by omega)
    rw [h8, if_pos (by omega)]
    split
    · rename_i heq; cases heq
    · rfl

/-- **no read outside the buffer**: the bundle that `parse` returns carries the buffer unchanged, and
whatever `startupCode`, `getModule` or the iterator hand out — for *any* bytes, any count, any id —
is a window `(bs.drop i).take len` with `i + len ≤ bs.length` -/
theorem c20_in_bounds (bs : List Nat) (b : Bundle) (hb : parse bs = .ok b) :
    b.bytes = bs ∧
    (∀ s, startupCode b = .ok s → IsWindow bs s) ∧
    (∀ id d, getModule b id = .ok (some d) → IsWindow bs d) ∧
    (∀ lim, ∀ p ∈ iterModules b lim, ∀ d, p.2 = .ok d → IsWindow bs d) := by
  obtain ⟨_, _, _, hbytes, _⟩ := parse_ok_iff.mp hb
  have hmod : ∀ id d, getModule b id = .ok (some d) → IsWindow bs d := by
    intro id d hd
    rcases getModule_cases b id with h | h | h | h | ⟨off, len, d', hsl, h⟩
    · rw [h] at hd; cases hd
    · rw [h] at hd; cases hd
    · rw [h] at hd; cases hd
    · rw [h] at hd; cases hd
    · rw [h] at hd; cases hd
      obtain ⟨hle, heq⟩ := slice_in_bounds hsl
      rw [hbytes] at hle heq
      exact ⟨_, _, hle, heq⟩
  refine ⟨hbytes, ?_, hmod, ?_⟩
  · intro s hs
    rcases startupCode_cases b with h | ⟨s', hsl, h⟩
    · rw [h] at hs; cases hs
    · rw [h] at hs; cases hs
      obtain ⟨hle, heq⟩ := slice_in_bounds hsl
      rw [hbytes] at hle heq
      exact ⟨_, _, hle, heq⟩
  · intro lim p hp d hd
    obtain ⟨_, _, h | h⟩ := mem_iterModules hp
    · obtain ⟨d', hg, h2⟩ := h
      rw [h2] at hd; cases hd
      exact hmod _ _ hg
    · obtain ⟨e, _, h2⟩ := h
      rw [h2] at hd; cases hd

/-- **parsing and every later access return a value or an error, never a panic or a hang** — for every
byte string, every id and every iterator cap.  (By construction: the model has no `.panic`/`.diverge`
site, because on a 64-bit target the `usize` sums of 32-bit fields cannot overflow and every buffer access
goes through scroll's checked `pread`; the theorem records it so that a later model change that
introduces a panic site breaks the build.) -/
theorem c20_total (bs : List Nat) :
    Refuses (parse bs) ∧
    ∀ b, parse bs = .ok b →
      Refuses (startupCode b) ∧ (∀ id, Refuses (getModule b id)) ∧
      (∀ lim, ∀ p ∈ iterModules b lim, Refuses p.2) := by
  have hmod : ∀ (b : Bundle) id, Refuses (getModule b id) := by
    intro b id e he
    rcases getModule_cases b id with h | h | h | h | ⟨_, _, _, _, h⟩ <;> rw [h] at he <;> cases he <;> simp
  constructor
  · intro e he
    by_cases hrec : isRamBundle bs = true
    · obtain ⟨b, hb⟩ := (c20_parse_iff bs).mpr hrec
      rw [hb] at he; cases he
    · rw [c20_parse_refused bs (by simpa using hrec)] at he
      cases he
      by_cases hl : bs.length < 12 <;> simp [hl]
  · intro b _
    refine ⟨?_, hmod b, ?_⟩
    · intro e he
      rcases startupCode_cases b with h | ⟨_, _, h⟩ <;> rw [h] at he <;> cases he
      simp
    · intro lim p hp e he
      obtain ⟨_, _, h | h⟩ := mem_iterModules hp
      · obtain ⟨d, _, h2⟩ := h
        rw [h2] at he; cases he
      · obtain ⟨e', hg, h2⟩ := h
        rw [h2] at he; injection he with he
        rw [← he]; exact hmod b p.1 e' hg

-- a corrupted bundle that still parses (hypothesis of `c20_in_bounds`): `exShuffled` cut in the middle of
-- module 3, with slot 2's length set to 2^32-1; the accesses are refused or stay inside the 50 bytes
example : ∃ b, parse ((exShuffled.take 50).set 32 255 |>.set 33 255 |>.set 34 255 |>.set 35 255) = .ok b ∧
    getModule b 2 = .error .scroll ∧ getModule b 3 = .error .scroll ∧ startupCode b = .ok [97, 98, 99] :=
  ⟨_, parse_of_header (n := 4) (s := 3) (by decide) (by decide) (by decide), by rfl, by rfl, by rfl⟩

-- concrete refusals: 11 bytes of a correct header; a complete header with the last magic byte off by one
example : isRamBundle [229, 209, 11, 251, 0, 0, 0, 0, 0, 0, 0] = false := by decide
example : isRamBundle [229, 209, 11, 250, 0, 0, 0, 0, 0, 0, 0, 0] = false := by decide
example : isRamBundle [229, 209, 11, 251, 255, 255, 255, 255, 255, 255, 255, 255] = true := by decide

end SmVerif.C20
