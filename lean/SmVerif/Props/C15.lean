import SmVerif.Proofs.SourceViewSeq
/-
C15 — SourceView lines and UTF-16 slices match the text exactly, in any access order.

Model: `Model/SourceView.lean` (`getLine`, `lineCount`, `allLines`; state `St` = `processed_until` +
cached lines) and `Model/SourceViewSlice.lean` (`getLineSlice`, `allLines32`, `runReqs`).
Specification (stateless, from the text alone): `splitLines`, `lineStarts`, `sliceSpec`, `specAns`.

"Whatever happened before" = the state reached from the fresh view `{}` by an arbitrary request
list `reqs` (`runReqs src {} reqs = .ok (as, st)`); all theorems quantify over every byte text
`src`, every request list and every index/column/span (natural numbers, so in particular all of
`u32`).  The slice theorems need `ValidUtf8 src` - the invariant of `str`.
-/
namespace SmVerif.C15
open SmVerif SmVerif.SV

/-- **Invariant.**  After any request sequence the cache holds the first `k` pieces of the text and
`processed_until` is the byte offset at which piece `k` begins - or `len + 1` once all `n` pieces
are cached. -/
theorem c15_inv (src : List Nat) (reqs : List Req) (as : List Ans) (st : St)
    (h : runReqs src {} reqs = .ok (as, st)) :
    st.lines.length ≤ (splitLines src).length ∧
    st.lines = (splitLines src).take st.lines.length ∧
    st.processed = (if st.lines.length < (splitLines src).length
                    then (lineStarts src).getD st.lines.length 0 else src.length + 1) :=
  inv_public src st (runReqs_inv src reqs {} as st (inv_init src) h)

/-- what "the byte offset at which piece `k` begins" means: `lineStarts` has one entry per piece and
splitting the text from entry `k` on yields the pieces `k, k+1, …` -/
theorem c15_line_starts (src : List Nat) :
    (lineStarts src).length = (splitLines src).length ∧
    ∀ k s, (lineStarts src)[k]? = some s → splitLines (src.drop s) = (splitLines src).drop k :=
  ⟨lineStarts_length src, lineStarts_drop src⟩

/-- **get_line.**  Whatever was requested before, `get_line(i)` returns the `i`-th piece of the text
(`none` past the end) - and never panics or hangs. -/
theorem c15_get_line (src : List Nat) (reqs : List Req) (as : List Ans) (st : St)
    (h : runReqs src {} reqs = .ok (as, st)) (i : Nat) :
    ∃ st', getLine src st i = .ok ((splitLines src)[i]?, st') := by
  obtain ⟨st', hg, _⟩ := getLine_spec src i st (runReqs_inv src reqs {} as st (inv_init src) h)
  exact ⟨st', hg⟩

/-- **line_count.**  Whatever was requested before, `line_count()` is the number of pieces.
(`get_line(!0)` stops at line index `u32::MAX`: a text with more than 2^32 lines - at least 4 GiB -
would be counted as 2^32; hence the bound.) -/
theorem c15_line_count (src : List Nat) (reqs : List Req) (as : List Ans) (st : St)
    (h : runReqs src {} reqs = .ok (as, st)) (hn : (splitLines src).length ≤ U32) :
    ∃ st', lineCount src st = .ok ((splitLines src).length, st') := by
  obtain ⟨st', hg, _⟩ := lineCount_spec src st (runReqs_inv src reqs {} as st (inv_init src) h) hn
  exact ⟨st', hg⟩

/-- **lines().**  Whatever was requested before, the iterator yields all pieces in order.  With the
`u32` counter of `Lines` (`allLines32`) this needs fewer than 2^32 lines (at 2^32 lines
`self.idx += 1` overflows); the shared model `allLines` with an unbounded counter needs nothing. -/
theorem c15_lines_iter (src : List Nat) (reqs : List Req) (as : List Ans) (st : St)
    (h : runReqs src {} reqs = .ok (as, st)) :
    ((splitLines src).length < U32 → ∃ st', allLines32 src st = .ok (splitLines src, st')) ∧
    ∃ st', allLines src st = .ok (splitLines src, st') := by
  have hi := runReqs_inv src reqs {} as st (inv_init src) h
  constructor
  · intro hn
    obtain ⟨st', hg, _⟩ := allLines32_spec src st hi hn
    exact ⟨st', hg⟩
  · obtain ⟨st', hg, _⟩ := allLines_spec src st hi
    exact ⟨st', hg⟩

/-- **No panic, no hang.**  Every request sequence on every byte text runs to completion (the fuel
of the model loops never runs out, `source[processed_until..]` is never out of range); the one
exception is `lines()` on a text of 2^32 or more lines. -/
theorem c15_no_panic (src : List Nat) (reqs : List Req)
    (hn : (splitLines src).length < U32 ∨ Req.all ∉ reqs) :
    ∃ as st, runReqs src {} reqs = .ok (as, st) :=
  runReqs_total src reqs {} (inv_init src) hn

/-- **get_line_slice on a character boundary.**  Whatever was requested before, for a column that
is not strictly inside a surrogate pair of the line (any column of a missing line, any column at
or past the end of the line included) the result is `sliceSpec`: the characters covering code units
`c .. c+n`, whole surrogate pairs included at the end, nothing if the line is shorter than `c+n`
units or does not exist.  No bound on `c`, `n` (the code adds them in `usize`). -/
theorem c15_slice (src : List Nat) (reqs : List Req) (as : List Ans) (st : St)
    (h : runReqs src {} reqs = .ok (as, st)) (hv : ValidUtf8 src) (l c n : Nat)
    (hb : ∀ ln, (splitLines src)[l]? = some ln → midPair ln c = false) :
    ∃ st', getLineSlice src st l c n = .ok ((splitLines src)[l]?.bind fun ln => sliceSpec ln c n, st') := by
  obtain ⟨st', hg, _⟩ := getLineSlice_spec src st (runReqs_inv src reqs {} as st (inv_init src) h) hv l c n hb
  exact ⟨st', hg⟩

/-- **Column strictly inside a surrogate pair** (auxiliary, not judged: the property text does not
settle it).  The code skips the pair the column points into and keeps the end of the range: it
answers the request `(c+1, n-1)`.  `sliceSpec ln c n` itself would include the pair (the pair covers
code unit `c`), so the two differ exactly when `n ≥ 1`; see `c15_midpair_witness`. -/
theorem c15_slice_midpair (src : List Nat) (reqs : List Req) (as : List Ans) (st : St)
    (h : runReqs src {} reqs = .ok (as, st)) (hv : ValidUtf8 src) (l c n : Nat) (ln : List Nat)
    (hl : (splitLines src)[l]? = some ln) (hm : midPair ln c = true) :
    ∃ st', getLineSlice src st l c n = .ok (sliceSpec ln (c + 1) (n - 1), st') := by
  obtain ⟨st', hg, _⟩ := getLineSlice_run src st (runReqs_inv src reqs {} as st (inv_init src) h) l c n
  refine ⟨st', ?_⟩
  rw [hg, hl]
  simp only [Option.bind_some]
  rw [sliceLine_mid ln (splitLines_valid src hv ln (getElem?_mem' hl)) c n hm]

/-- **All requests, any order.**  On one view, every sequence of `get_line` / `line_count` /
`lines()` / `get_line_slice` requests (no slice column inside a surrogate pair) returns exactly the
stateless answers computed from the text. -/
theorem c15_requests (src : List Nat) (hv : ValidUtf8 src) (hn : (splitLines src).length < U32)
    (reqs : List Req) (hm : ∀ q ∈ reqs, reqMidPair src q = false) :
    ∃ st, runReqs src {} reqs = .ok (reqs.map (specAns src), st) := by
  obtain ⟨st, hr, _⟩ := runReqs_spec src hv hn reqs {} (inv_init src) hm
  exact ⟨st, hr⟩

/-! ### the hypotheses are met by concrete, non-trivial values -/

/-- the text `a👌\r\né\rb` -/
def exText : List Nat := [97, 240, 159, 145, 140, 13, 10, 195, 169, 13, 98]
def exReqs : List Req := [.get 2, .slice 5 0 0, .count, .slice 0 1 2, .all, .get 0]

example : ValidUtf8 exText := ⟨[[97], [240, 159, 145, 140], [13], [10], [195, 169], [13], [98]], by decide, rfl⟩
example : splitLines exText = [[97, 240, 159, 145, 140], [195, 169], [98]] := by decide
example : lineStarts exText = [0, 7, 10] := by decide
example : (splitLines exText).length < U32 := by decide
example : ∀ q ∈ exReqs, reqMidPair exText q = false := by decide
/-- late line first, slice of a missing line, count, slice, iterator, early line -/
example : ∃ st, runReqs exText {} exReqs = .ok (exReqs.map (specAns exText), st) :=
  c15_requests exText ⟨[[97], [240, 159, 145, 140], [13], [10], [195, 169], [13], [98]], by decide, rfl⟩
    (by decide) exReqs (by decide)
example : exReqs.map (specAns exText)
    = [.line (some [98]), .line none, .count 3, .line (some [240, 159, 145, 140]),
       .all [[97, 240, 159, 145, 140], [195, 169], [98]], .line (some [97, 240, 159, 145, 140])] := by decide
/-- column 1 of line 0 is on a boundary, column 2 is inside the pair -/
example : midPair [97, 240, 159, 145, 140] 1 = false ∧ midPair [97, 240, 159, 145, 140] 2 = true := by decide

/-- the mid-pair corner on `a👌b`: column 2, span 1 - the code returns the empty string, the
specification the pair (which covers code unit 2) -/
theorem c15_midpair_witness :
    sliceLine [97, 240, 159, 145, 140, 98] 2 1 = some [] ∧
    sliceSpec [97, 240, 159, 145, 140, 98] 2 1 = some [240, 159, 145, 140] := by decide

end SmVerif.C15
