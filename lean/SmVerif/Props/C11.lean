import SmVerif.Proofs.VlqSpec
/-
C11 — VLQ encoding and decoding are exact inverses and match the standard.
Property theorems only; helper lemmas live in Proofs/Vlq*.lean.
-/
namespace SmVerif.C11
open SmVerif SmVerif.Vlq

/-- encode, then decode -/
def roundtrip (xs : List Int) : Res (List Int) :=
  match encodeSeg xs with
  | .ok s => parseVlq s
  | .error e => .error e

/-- Every non-empty list of integers whose magnitudes fit in 62 bits decodes back to itself. -/
theorem c11_roundtrip (xs : List Int) (hne : xs ≠ [])
    (hb : ∀ x ∈ xs, -4611686018427387904 < x ∧ x < 4611686018427387904) :
    roundtrip xs = .ok xs := by
  unfold roundtrip
  rw [encodeSeg_ok xs hb]
  simp only
  unfold parseVlq
  rw [parseLoop_eq_decLoop _ _ _ _ _ (toDigits_map_b64Char _ (segDigits_lt xs))]
  have := decLoop_segDigits xs [] [] hb
  simp only [List.append_nil] at this
  rw [this, decLoop]
  simp [hne]

example : roundtrip [0, 1, -1, 4611686018427387903, -4611686018427387903] =
    .ok [0, 1, -1, 4611686018427387903, -4611686018427387903] :=
  c11_roundtrip _ (by simp) (by intro x hx; simp at hx; omega)

/-- In particular every difference of two `u32` values, which is all the map encoder emits. -/
theorem c11_u32_diffs (a b : Nat) (ha : a < 4294967296) (hb : b < 4294967296) :
    roundtrip [(a : Int) - (b : Int)] = .ok [(a : Int) - (b : Int)] := by
  apply c11_roundtrip
  · simp
  · intro x hx
    simp at hx
    subst hx
    omega

/-- the bytes of a list of digit groups -/
def text (gs : List (List Nat)) : List Nat := gs.flatten.map b64Char
def values (gs : List (List Nat)) : List Int := gs.map fun g => unzig (groupValue g)

theorem segDigits_values : ∀ gs : List (List Nat), (∀ g ∈ gs, Canon g) →
    segDigits (values gs) = gs.flatten := by
  intro gs
  induction gs with
  | nil => intro _; rfl
  | cons g gs ih =>
    intro h
    have hg := h g (by simp)
    have := ih (fun g' hg' => h g' (by simp [hg']))
    simp only [values, segDigits, List.map_cons, List.flatten_cons] at this ⊢
    rw [this, zig_unzig _ hg.2.1, encDigits_groupValue g hg.1]

/-- For every canonical VLQ text (a non-empty sequence of canonical digit groups) decoding
succeeds, and encoding the decoded values gives back exactly the text. -/
theorem c11_canonical (gs : List (List Nat)) (hne : gs ≠ []) (hc : ∀ g ∈ gs, Canon g) :
    parseVlq (text gs) = .ok (values gs) ∧ encodeSeg (values gs) = .ok (text gs) := by
  have hb : ∀ x ∈ values gs, -4611686018427387904 < x ∧ x < 4611686018427387904 := by
    intro x hx
    simp only [values, List.mem_map] at hx
    obtain ⟨g, hg, rfl⟩ := hx
    exact unzig_bounds _ (hc g hg).2.2
  have henc : encodeSeg (values gs) = .ok (text gs) := by
    rw [encodeSeg_ok _ hb, segDigits_values gs hc]; rfl
  refine ⟨?_, henc⟩
  have hv : values gs ≠ [] := by simp [values, hne]
  have := c11_roundtrip (values gs) hv hb
  unfold roundtrip at this
  rw [henc] at this
  exact this

example : Canon [35, 40, 1] ∧ Canon [0] ∧ Canon [63, 63, 63, 63, 63, 63, 63, 63, 63, 63, 63, 63, 7] := by
  simp [Canon, CanonGroup, groupValue]

/-- On every string over the base64 alphabet the decoder returns what the independent reading of
the standard returns, provided every value of at most 13 digits fits in 63 bits (beyond that the
`i64` accumulator of the code truncates; the standard has no such values). -/
theorem c11_agrees_standard (s ds : List Nat) (halpha : toDigits s = some ds)
    (hfit : ∀ g ∈ (splitGroups ds []).1, g.length ≤ 13 → groupValue g < 9223372036854775808) :
    parseVlq s = specVlq ds := by
  unfold parseVlq
  rw [parseLoop_eq_decLoop _ _ _ _ _ halpha, specVlq_eq_specTail]
  exact decLoop_spec ds [] 0 [] (by simp) (by simp [groupValue]) hfit

/-- the call returned an error (of any kind) -/
def isErr {α} (r : Res α) : Prop := ∃ e, r = .error e

theorem isErr_error {α} (e : Err) : isErr (.error e : Res α) := ⟨e, rfl⟩

/-- an error for empty input -/
theorem c11_err_empty : parseVlq [] = .error .novalues := by
  simp [parseVlq, parseLoop, decLoop]

theorem decLoop_cons_ge (d : Nat) (ds : List Nat) (cur : Int) (k : Nat) (acc : List Int) (hk : 13 ≤ k) :
    decLoop (d :: ds) cur k acc = .error .overflow := by
  rw [decLoop]; simp [hk]

theorem decLoop_unterminated : ∀ (ds : List Nat) (cur : Int) (k : Nat) (acc : List Int),
    ds ≠ [] → (∀ h : ds ≠ [], ds.getLast h / 32 ≠ 0) → isErr (decLoop ds cur k acc) := by
  intro ds
  induction ds with
  | nil => intro _ _ _ h; exact absurd rfl h
  | cons d ds ih =>
    intro cur k acc _ hl
    by_cases hk : 13 ≤ k
    · rw [decLoop_cons_ge _ _ _ _ _ hk]; exact isErr_error _
    · rw [decLoop_cons _ _ _ _ _ (by omega)]
      simp only
      generalize cur + wrap64 (((d % 32 : Nat) : Int) * 2 ^ (5 * k)) = c'
      by_cases hin : inI64 c' = true
      · simp only [hin, Bool.not_true, Bool.false_eq_true, ↓reduceIte]
        cases ds with
        | nil =>
          have := hl (by simp)
          simp only [List.getLast_singleton] at this
          simp only [this, ↓reduceIte, decLoop]
          simp [isErr]
        | cons d2 ds2 =>
          have hl' : ∀ h : d2 :: ds2 ≠ [], (d2 :: ds2).getLast h / 32 ≠ 0 := by
            intro h
            have := hl (by simp)
            rwa [List.getLast_cons h] at this
          by_cases hd : d / 32 = 0
          · simp only [hd, ↓reduceIte]; exact ih 0 0 (finish c' :: acc) (List.cons_ne_nil _ _) hl'
          · simp only [hd, ↓reduceIte]; exact ih c' (k + 1) acc (List.cons_ne_nil _ _) hl'
      · simp only [hin, Bool.not_false, ↓reduceIte]; exact isErr_error _

/-- an error whenever the last digit of the string carries the continuation bit -/
theorem c11_err_unterminated (s ds : List Nat) (halpha : toDigits s = some ds) (hne : ds ≠ [])
    (hlast : ds.getLast hne / 32 ≠ 0) : isErr (parseVlq s) := by
  unfold parseVlq
  rw [parseLoop_eq_decLoop _ _ _ _ _ halpha]
  exact decLoop_unterminated ds 0 0 [] hne (fun _ => hlast)

theorem decLoop_run : ∀ (run : List Nat) (d : Nat) (rest : List Nat) (cur : Int) (k : Nat) (acc : List Int),
    (∀ c ∈ run, c / 32 ≠ 0) → 13 ≤ run.length + k → isErr (decLoop (run ++ d :: rest) cur k acc) := by
  intro run
  induction run with
  | nil =>
    intro d rest cur k acc _ hk
    have : 13 ≤ k := by simpa using hk
    simp only [List.nil_append]
    rw [decLoop_cons_ge _ _ _ _ _ this]; exact isErr_error _
  | cons c run ih =>
    intro d rest cur k acc hc hk
    simp only [List.cons_append]
    by_cases hk13 : 13 ≤ k
    · rw [decLoop_cons_ge _ _ _ _ _ hk13]; exact isErr_error _
    · rw [decLoop_cons _ _ _ _ _ (by omega)]
      simp only
      generalize cur + wrap64 (((c % 32 : Nat) : Int) * 2 ^ (5 * k)) = c'
      by_cases hin : inI64 c' = true
      · have hc0 : c / 32 ≠ 0 := hc c (by simp)
        simp only [hin, Bool.not_true, Bool.false_eq_true, hc0, ↓reduceIte]
        exact ih d rest c' (k + 1) acc (fun x hx => hc x (by simp [hx])) (by simp only [List.length_cons] at hk; omega)
      · simp only [hin, Bool.not_false, ↓reduceIte]; exact isErr_error _

/-- complete groups in front either fail on their own or return the loop to its initial state -/
theorem decLoop_prefix : ∀ (pre : List Nat) (x : List Nat) (cur : Int) (k : Nat) (acc : List Int),
    (∀ h : pre ≠ [], pre.getLast h / 32 = 0) → (pre = [] → cur = 0 ∧ k = 0) →
    isErr (decLoop (pre ++ x) cur k acc) ∨ ∃ acc', decLoop (pre ++ x) cur k acc = decLoop x 0 0 acc' := by
  intro pre
  induction pre with
  | nil =>
    intro x cur k acc _ h0
    obtain ⟨rfl, rfl⟩ := h0 rfl
    exact Or.inr ⟨acc, rfl⟩
  | cons d pre ih =>
    intro x cur k acc hl _
    simp only [List.cons_append]
    by_cases hk13 : 13 ≤ k
    · rw [decLoop_cons_ge _ _ _ _ _ hk13]; exact Or.inl (isErr_error _)
    · rw [decLoop_cons _ _ _ _ _ (by omega)]
      simp only
      generalize cur + wrap64 (((d % 32 : Nat) : Int) * 2 ^ (5 * k)) = c'
      by_cases hin : inI64 c' = true
      · simp only [hin, Bool.not_true, Bool.false_eq_true, ↓reduceIte]
        cases pre with
        | nil =>
          have := hl (by simp)
          simp only [List.getLast_singleton] at this
          simp only [this, ↓reduceIte, List.nil_append]
          exact Or.inr ⟨_, rfl⟩
        | cons d2 pre2 =>
          have hl' : ∀ h : d2 :: pre2 ≠ [], (d2 :: pre2).getLast h / 32 = 0 := by
            intro h
            have := hl (by simp)
            rwa [List.getLast_cons h] at this
          by_cases hd : d / 32 = 0
          · simp only [hd, ↓reduceIte]; exact ih x 0 0 (finish c' :: acc) hl' (by simp)
          · simp only [hd, ↓reduceIte]; exact ih x c' (k + 1) acc hl' (by simp)
      · simp only [hin, Bool.not_false, ↓reduceIte]; exact Or.inl (isErr_error _)

/-- an error as soon as a single value runs past 13 digits: after any complete values `pre`,
13 continuation digits followed by one more digit make decoding fail whatever follows -/
theorem c11_err_too_long (s pre run rest : List Nat) (d : Nat)
    (halpha : toDigits s = some (pre ++ run ++ d :: rest))
    (hpre : ∀ h : pre ≠ [], pre.getLast h / 32 = 0)
    (hrun : ∀ c ∈ run, c / 32 ≠ 0) (hlen : 13 ≤ run.length) : isErr (parseVlq s) := by
  unfold parseVlq
  rw [parseLoop_eq_decLoop _ _ _ _ _ halpha, List.append_assoc]
  rcases decLoop_prefix pre (run ++ d :: rest) 0 0 [] hpre (fun _ => ⟨rfl, rfl⟩) with h | ⟨acc', h⟩
  · exact h
  · rw [h]; exact decLoop_run run d rest 0 0 acc' hrun (by omega)

/-- the reverse table inverts the alphabet (regenerated from vlq.rs on every run) -/
theorem c11_table_chars : ∀ d, d < 64 → b64Rev (b64Char d) = some d := b64Rev_b64Char

/-- every byte outside the alphabet is rejected by the lookup -/
theorem c11_table_foreign : ∀ c, c ∉ Consts.b64Chars → b64Rev c = none := by
  intro c hc
  by_cases h : c < 256
  · exact b64Rev_foreign c h hc
  · exact b64Rev_big c (by omega)

end SmVerif.C11
