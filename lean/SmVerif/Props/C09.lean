import SmVerif.Proofs.RewriteHermes
import SmVerif.Proofs.RewriteSafe
/-
C09 - rewriting a map never changes what any position resolves to.

Model: `SMap.rewrite` / `SMap.rewriteWithMapping` (Model/Builder.lean: the token loop through
`SourceMapBuilder::add_token`, the contents rule, `strip_prefixes`, `into_sourcemap`) and
`Rw.hermesRewrite` (Model/Rewrite.lean).  Specification: Model/RewriteSpec.lean (`rewriteSpec`,
written over what a reader observes; no builder, no ids).

Scope: explicit prefixes only.  The `"~"` entry of `strip_prefixes` (common-prefix detection) and
`load_local_source_contents` touch paths / the file system and are not modelled.

Hypothesis `wfMap`: the tokens are ordered by generated position (an invariant of every `SourceMap`,
C04: `SourceMap::new` sorts) and there are fewer than 2^32-1 of them (the builder numbers sources
and names with `u32` and `!0` is the "no source" sentinel).  Source and name ids need *not* be in
range: a token whose id does not resolve reads as source-less / name-less before the rewrite and
is stored with the `!0` sentinel after it (same view).

Property theorems only; helper lemmas are in SmVerif/Proofs/Rewrite*.lean.
-/
namespace SmVerif.C09
open SmVerif SmVerif.Lookup SmVerif.RwSpec SmVerif.Rw
open SmVerif.RwProofs (newTok namesOut closedMap closedMapping firstId idOf)

def wfMap (m : SMap) : Prop := SortedByPos m.tokens ∧ m.tokens.length < NONE

/-! ### a concrete map for the non-vacuity examples

sources `["a/x", "a/x", "b"]` (a duplicate, listed against first use), names `["n", "n", "u"]`,
contents only for ids 1 and 2, tokens using source 2, 1, 0, one source-less -/
def exMap : SMap :=
  { file := some [102]
    tokens := [⟨0, 0, 1, 1, 2, 1, false⟩, ⟨0, 4, 2, 2, 1, 0, true⟩, ⟨1, 0, 3, 3, 0, NONE, false⟩, ⟨1, 7, 0, 0, NONE, NONE, false⟩]
    names := [[110], [110], [117]]
    sources := [[97, 47, 120], [97, 47, 120], [98]]
    contents := [none, some [65], some [66]]
    ignore := [1]
    debugId := some [100] }

def exOpts : RewriteOpts := { withNames := true, withContents := true, stripPrefixes := [[97]] }

theorem exMap_wf : wfMap exMap := by
  refine ⟨?_, by decide⟩
  unfold SortedByPos exMap
  simp [posLe, Tok.pos]

-- the specification on the example, evaluated by the kernel: source 2 (`"b"`) is used first, the two
-- ids named `"a/x"` collapse into one entry whose contents are those of id 1 (id 0 has none and is
-- visited later), the prefix `a` (read as `a/`) is stripped, the duplicate name `"n"` collapses
example : (rewriteSpec exMap true true [[97]]).sources = [[98], [120]] := by decide
example : (rewriteSpec exMap true true [[97]]).names = [[110]] := by decide
example : (rewriteSpec exMap true true [[97]]).contents = [some [66], some [65]] := by decide
example : (rewriteSpec exMap false false [[97]]).contents = [none, none] := by decide
example : (rewriteSpec exMap true true [[97]]).toks.map (·.src) = [some [98], some [120], some [120], none] := by decide

/-! ### the rewrite completes -/

/-- **`rewrite` never panics**, for every map and every option combination - no hypothesis at all:
tokens in any order and number, source / name ids resolvable or not.  (The only panic sites are the
`assert!` and the index in `SourceMapBuilder::set_source_contents`; they are reached only with the
id `add_token` has just returned, which is an index of the builder's `sources`.) -/
theorem c09_safe (m : SMap) (o : RewriteOpts) : ∃ m', m.rewrite o = .ok m' :=
  RwProofs.rewrite_safe m o

/-! ### the whole observation equals the specification -/

/-- **Everything a reader observes of the rewritten map is what the property demands**: tokens in
the same order with the same generated position, original position and range flag, the source name
with the prefix stripped, the name kept or dropped; `sources` / `names` = the distinct strings in use
in first-use order; contents per source name; file and debug id. -/
theorem c09_observe (m : SMap) (o : RewriteOpts) (h : wfMap m) :
    ∃ m', m.rewrite o = .ok m' ∧ observe m' = rewriteSpec m o.withNames o.withContents o.stripPrefixes :=
  ⟨closedMap m o, RwProofs.rewrite_eq m o h.1 (Nat.le_of_lt h.2), RwProofs.observe_closed m o (Nat.le_of_lt h.2)⟩

example : wfMap exMap := exMap_wf

/-- the rewritten map as a value (ids included) -/
theorem rewrite_closed (m : SMap) (o : RewriteOpts) (h : wfMap m) (m' : SMap) (hr : m.rewrite o = .ok m') :
    m' = closedMap m o := by
  rw [RwProofs.rewrite_eq m o h.1 (Nat.le_of_lt h.2)] at hr
  exact (Except.ok.inj hr).symm

/-! ### tokens -/

/-- the token sequence, read through `get_source` / `get_name`, is the old one with the prefix
stripped from the source name and the name dropped if names are off -/
theorem c09_tokens (m : SMap) (o : RewriteOpts) (h : wfMap m) (m' : SMap) (hr : m.rewrite o = .ok m') :
    m'.tokens.map (view m') = m.tokens.map fun t => xform o.withNames o.stripPrefixes (view m t) := by
  obtain ⟨m'', hr', ho⟩ := c09_observe m o h
  rw [hr] at hr'
  cases hr'
  exact congrArg Out.toks ho

/-- **per index**: token `i` of the rewritten map has the same generated position, the same original
line and column, the same range flag; its source resolves to the old source name minus the stripped
prefix (`none` stays `none`); its name resolves to the old name, or to nothing if names were dropped -/
theorem c09_token_at (m : SMap) (o : RewriteOpts) (h : wfMap m) (m' : SMap) (hr : m.rewrite o = .ok m')
    (i : Nat) (hi : i < m.tokens.length) :
    ∃ hi' : i < m'.tokens.length,
      m'.tokens[i].dl = m.tokens[i].dl ∧ m'.tokens[i].dc = m.tokens[i].dc ∧
      m'.tokens[i].sl = m.tokens[i].sl ∧ m'.tokens[i].sc = m.tokens[i].sc ∧
      m'.tokens[i].rng = m.tokens[i].rng ∧
      m'.tokSource m'.tokens[i] = (m.tokSource m.tokens[i]).map (strip o.stripPrefixes) ∧
      m'.tokName m'.tokens[i] = (if o.withNames then m.tokName m.tokens[i] else none) := by
  have ht := c09_tokens m o h m' hr
  have hlen : m'.tokens.length = m.tokens.length := by simpa using congrArg List.length ht
  have hi' : i < m'.tokens.length := by omega
  refine ⟨hi', ?_⟩
  have e : (m'.tokens.map (view m'))[i]? = (m.tokens.map fun t => xform o.withNames o.stripPrefixes (view m t))[i]? := by
    rw [ht]
  simp only [List.getElem?_map, List.getElem?_eq_getElem hi, List.getElem?_eq_getElem hi', Option.map_some,
    Option.some.injEq] at e
  have e1 := congrArg View.dl e
  have e2 := congrArg View.dc e
  have e3 := congrArg View.sl e
  have e4 := congrArg View.sc e
  have e5 := congrArg View.rng e
  have e6 := congrArg View.src e
  have e7 := congrArg View.name e
  exact ⟨e1, e2, e3, e4, e5, e6, e7⟩

/-- raw ids: a token's new source id is the index of its source name in the new `sources`
(`!0` if it had no resolvable source), likewise for names -/
theorem c09_ids (m : SMap) (o : RewriteOpts) (h : wfMap m) (m' : SMap) (hr : m.rewrite o = .ok m') :
    m'.tokens = m.tokens.map fun t =>
      { t with src := match m.tokSource t with
                      | some s => (srcStrings m).idxOf s
                      | none => NONE
               name := match (if o.withNames then m.tokName t else none) with
                       | some n => (namesOut m o).idxOf n
                       | none => NONE } := by
  rw [rewrite_closed m o h m' hr]
  show m.tokens.map (newTok m o.withNames (srcStrings m) (namesOut m o)) = _
  apply List.map_congr_left
  intro t _
  unfold newTok idOf
  cases m.tokSource t <;> cases (if o.withNames then m.tokName t else none) <;> rfl

/-- **the result is ordered by generated position** (no hypothesis: `into_sourcemap` goes through
`SourceMap::new`, C04 `c04_sorted_new`) -/
theorem c09_sorted (m : SMap) (o : RewriteOpts) (m' : SMap) (hr : m.rewrite o = .ok m') :
    SortedByPos m'.tokens := by
  have key : ∀ b : Bld, SortedByPos b.intoSourcemap.tokens := by
    intro b
    have hf : ∀ (l : List Nat) (x : SMap), (l.foldl (fun m i => m.addToIgnoreList i) x).tokens = x.tokens := by
      intro l
      induction l with
      | nil => intro x; rfl
      | cons a as ih => intro x; rw [List.foldl_cons, ih]; rfl
    unfold Bld.intoSourcemap
    simp only [hf]
    have : ∀ r : Option Bytes, ((SMap.new b.file b.tokens b.names b.sources
        (if b.contents.isEmpty then none else some b.contents)).setSourceRoot r).tokens = sortToks b.tokens := by
      intro r
      unfold SMap.setSourceRoot SMap.new
      cases r with
      | none => rfl
      | some r => by_cases hr : r.isEmpty = true <;> simp [hr]
    rw [this]
    exact (C04.c04_sorted_new b.tokens).1
  unfold SMap.rewrite SMap.rewriteWithMapping at hr
  cases hl : SMap.rewriteLoop m o m.tokens { Bld.new m.file with debugId := m.debugId } with
  | error e => simp [hl] at hr
  | ok b =>
    simp only [hl] at hr
    cases hr
    exact key _

/-! ### sources and names -/

/-- `sources` = the distinct source names in use, first use first, each with the prefix stripped;
no source root is set, so `get_source` reads exactly this list -/
theorem c09_sources (m : SMap) (o : RewriteOpts) (h : wfMap m) (m' : SMap) (hr : m.rewrite o = .ok m') :
    m'.sources = (srcStrings m).map (strip o.stripPrefixes) ∧ m'.prefixed = none := by
  rw [rewrite_closed m o h m' hr]; exact ⟨rfl, rfl⟩

/-- `names` = the distinct names in use, first use first; empty if names were dropped -/
theorem c09_names (m : SMap) (o : RewriteOpts) (h : wfMap m) (m' : SMap) (hr : m.rewrite o = .ok m') :
    m'.names = if o.withNames then nameStrings m else [] := by
  rw [rewrite_closed m o h m' hr]; rfl

/-- **nothing unreferenced**: every source and every name of the result is used by a token -/
theorem c09_no_unreferenced (m : SMap) (o : RewriteOpts) (h : wfMap m) (m' : SMap) (hr : m.rewrite o = .ok m') :
    (∀ j, j < m'.sources.length → ∃ t ∈ m'.tokens, t.src = j) ∧
    (∀ j, j < m'.names.length → ∃ t ∈ m'.tokens, t.name = j) := by
  rw [rewrite_closed m o h m' hr]
  constructor
  · intro j hj
    simp only [closedMap, List.length_map] at hj
    have hmem : (srcStrings m)[j] ∈ srcStrings m := List.getElem_mem hj
    have hmem' := hmem
    unfold srcStrings at hmem'
    rw [RwProofs.mem_firstUse, List.mem_filterMap] at hmem'
    obtain ⟨t, ht, e⟩ := hmem'
    refine ⟨newTok m o.withNames (srcStrings m) (namesOut m o) t, List.mem_map_of_mem ht, ?_⟩
    simp only [newTok, e, idOf]
    exact (RwProofs.nodup_firstUse _).idxOf_getElem j hj
  · intro j hj
    simp only [closedMap] at hj
    have hnd : (namesOut m o).Nodup := by
      unfold namesOut; by_cases hw : o.withNames = true <;> simp [hw, nameStrings, RwProofs.nodup_firstUse]
    have hw : o.withNames = true := by
      by_cases hw : o.withNames = true
      · exact hw
      · simp [namesOut, hw] at hj
    have hidx := hnd.idxOf_getElem j hj
    have hmem : (namesOut m o)[j] ∈ namesOut m o := List.getElem_mem hj
    generalize (namesOut m o)[j] = n at hidx hmem
    simp only [namesOut, hw, ↓reduceIte, nameStrings] at hmem
    rw [RwProofs.mem_firstUse, List.mem_filterMap] at hmem
    obtain ⟨t, ht, e⟩ := hmem
    refine ⟨newTok m o.withNames (srcStrings m) (namesOut m o) t, List.mem_map_of_mem ht, ?_⟩
    simp only [newTok, hw, ↓reduceIte, e, idOf]
    exact hidx

/-- **no duplicates**: the source names before prefix stripping are pairwise distinct (so equal
entries of `sources` can only come from stripping), and `names` has no duplicates -/
theorem c09_no_dup_before_strip (m : SMap) (o : RewriteOpts) (h : wfMap m) (m' : SMap) (hr : m.rewrite o = .ok m') :
    (∃ pre : List Bytes, pre.Nodup ∧ m'.sources = pre.map (strip o.stripPrefixes)) ∧ m'.names.Nodup ∧
    (o.stripPrefixes = [] → m'.sources.Nodup) := by
  rw [rewrite_closed m o h m' hr]
  refine ⟨⟨srcStrings m, RwProofs.nodup_firstUse _, rfl⟩, ?_, ?_⟩
  · show (namesOut m o).Nodup
    unfold namesOut; by_cases hw : o.withNames = true <;> simp [hw, nameStrings, RwProofs.nodup_firstUse]
  · intro hp
    show ((srcStrings m).map (strip o.stripPrefixes)).Nodup
    rw [hp, RwProofs.map_stripOne_nil]; exact RwProofs.nodup_firstUse _

/-- the specification's "distinct strings in first-use order" is what it says: no duplicates, the
same members, and an earlier first use comes earlier -/
theorem firstUse_spec (l : List Bytes) :
    (firstUse l).Nodup ∧ (∀ x, x ∈ firstUse l ↔ x ∈ l) ∧ firstUse l = l.foldl RwProofs.intern [] :=
  ⟨RwProofs.nodup_firstUse l, fun _ => RwProofs.mem_firstUse, RwProofs.firstUse_eq_foldl l⟩

/-! ### contents, file, debug id -/

/-- **contents kept**: the entry of new source `j` is the contents attached, in the input, to its
(pre-strip) name - see `contentsFor` for the rule when several ids carry that name -/
theorem c09_contents (m : SMap) (o : RewriteOpts) (h : wfMap m) (m' : SMap) (hr : m.rewrite o = .ok m')
    (hc : o.withContents = true) : m'.sourceContents = (srcStrings m).map (contentsFor m) := by
  obtain ⟨m'', hr', ho⟩ := c09_observe m o h
  rw [hr] at hr'
  cases hr'
  have := congrArg Out.contents ho
  simpa [observe, rewriteSpec, hc] using this

/-- when every id that carries the name `s` (among the tokens) has the same contents, that is what
stays attached to `s` -/
theorem c09_contents_unique (m : SMap) (s : Bytes) (c : Option Bytes) (hs : s ∈ srcStrings m)
    (hall : ∀ t ∈ m.tokens, m.tokSource t = some s → m.getSourceContents t.src = c) : contentsFor m s = c := by
  unfold srcStrings at hs
  rw [RwProofs.mem_firstUse, List.mem_filterMap] at hs
  obtain ⟨t0, ht0, e0⟩ := hs
  unfold contentsFor contentsIn
  have hne : (m.tokens.filter fun t => m.tokSource t == some s) ≠ [] := by
    intro hnil
    rw [List.filter_eq_nil_iff] at hnil
    exact hnil t0 ht0 (by simp [e0])
  have hall' : ∀ t ∈ (m.tokens.filter fun t => m.tokSource t == some s), m.getSourceContents t.src = c := by
    intro t ht
    rw [List.mem_filter] at ht
    exact hall t ht.1 (by simpa using ht.2)
  generalize (m.tokens.filter fun t => m.tokSource t == some s) = l at hne hall'
  cases l with
  | nil => exact absurd rfl hne
  | cons a as =>
    have ha := hall' a (by simp)
    cases c with
    | some v => simp [ha]
    | none =>
      rw [List.findSome?_eq_none_iff]
      intro x hx; exact hall' x hx

/-- **contents dropped**: no source has contents -/
theorem c09_contents_dropped (m : SMap) (o : RewriteOpts) (h : wfMap m) (m' : SMap) (hr : m.rewrite o = .ok m')
    (hc : o.withContents = false) : ∀ i, m'.getSourceContents i = none := by
  rw [rewrite_closed m o h m' hr]
  intro i
  simp [SMap.getSourceContents, closedMap, hc]

/-- **file and debug id are preserved** -/
theorem c09_file_debugid (m : SMap) (o : RewriteOpts) (h : wfMap m) (m' : SMap) (hr : m.rewrite o = .ok m') :
    m'.file = m.file ∧ m'.debugId = m.debugId := by
  rw [rewrite_closed m o h m' hr]; exact ⟨rfl, rfl⟩

/-- (observation, not demanded by the property) the source root is folded into the source names and
not set on the result; the ignore list is **not** carried over -/
theorem c09_root_ignore_dropped (m : SMap) (o : RewriteOpts) (h : wfMap m) (m' : SMap) (hr : m.rewrite o = .ok m') :
    m'.root = none ∧ m'.ignore = [] := by
  rw [rewrite_closed m o h m' hr]; exact ⟨rfl, rfl⟩

/-- the builder's prefix loop is the specification's "first listed prefix that matches" -/
theorem c09_strip_spec (prefixes : List Bytes) (s : Bytes) : Bld.stripOne prefixes s = strip prefixes s :=
  RwProofs.stripOne_eq_strip prefixes s

/-! ### Hermes: function maps follow their sources -/

/-- `sources_mapping`: entry `j` is an old id whose (prefixed) name is new source `j`, namely the id
of the first token that used the name; the entries are pairwise distinct -/
theorem c09_mapping (m : SMap) (o : RewriteOpts) (h : wfMap m) :
    ∃ m', m.rewriteWithMapping o = .ok (m', closedMapping m) ∧
      (closedMapping m).Nodup ∧ (closedMapping m).length = (srcStrings m).length ∧
      ∀ j (hj : j < (srcStrings m).length), m.getSource ((closedMapping m)[j]'(by simpa [closedMapping] using hj)) = some (srcStrings m)[j] := by
  refine ⟨closedMap m o, RwProofs.rewriteWithMapping_eq m o h.1 (Nat.le_of_lt h.2), RwProofs.closedMapping_nodup m,
    by simp [closedMapping], ?_⟩
  intro j hj
  simp only [closedMapping, List.getElem_map]
  exact RwProofs.getSource_firstId m _ (List.getElem_mem hj)

/-- **the permutation**: when there is a function map for every new source, new source `j` receives
the function map of old id `mapping[j]` (each taken once: the entries of `mapping` are distinct, so
`Option::take` never meets an entry twice) -/
theorem c09_hermes_perm {α : Type} (m : SMap) (fms : List (Option α)) (o : RewriteOpts) (h : wfMap m)
    (hfm : (srcStrings m).length ≤ fms.length) :
    hermesRewrite m fms o = .ok (closedMap m o, (closedMapping m).map fun i => (fms[i]?).join) := by
  rw [RwProofs.hermesRewrite_eq m fms o h.1 (Nat.le_of_lt h.2)]
  simp [hfm]

/-- **every token resolves to the same enclosing function before and after**, for a Hermes map with
one function map per source, in any source order, provided tokens that carry the same source name
select equal function maps (`hsame`; see `c09_hermes_scope_distinct` and the counterexample below).
`fmScope` - the search inside one function map - is arbitrary (C14). -/
theorem c09_hermes_scope {α : Type} (fmScope : α → Nat → Nat → Option Bytes) (m : SMap) (fms : List (Option α))
    (o : RewriteOpts) (h : wfMap m)
    (hfm : fms.length = (m.prefixed.getD m.sources).length) (hsl : (m.prefixed.getD m.sources).length ≤ NONE)
    (hsame : ∀ t ∈ m.tokens, ∀ u ∈ m.tokens, m.tokSource t = m.tokSource u → m.tokSource t ≠ none →
      (fms[t.src]?).join = (fms[u.src]?).join) :
    ∃ m' fms', hermesRewrite m fms o = .ok (m', fms') ∧
      m'.tokens.map (scopeFor fmScope fms') = m.tokens.map (scopeFor fmScope fms) := by
  have hle : (srcStrings m).length ≤ fms.length := hfm ▸ RwProofs.srcStrings_len_le_sources m
  refine ⟨_, _, c09_hermes_perm m fms o h hle, ?_⟩
  show (m.tokens.map (newTok m o.withNames (srcStrings m) (namesOut m o))).map _ = _
  rw [List.map_map]
  apply List.map_congr_left
  intro t ht
  exact RwProofs.scope_preserved fmScope m fms o h.2 hfm hsl hsame t ht

/-- in particular for a map whose source names (as read through `get_source`) are pairwise distinct -/
theorem c09_hermes_scope_distinct {α : Type} (fmScope : α → Nat → Nat → Option Bytes) (m : SMap)
    (fms : List (Option α)) (o : RewriteOpts) (h : wfMap m)
    (hfm : fms.length = (m.prefixed.getD m.sources).length) (hsl : (m.prefixed.getD m.sources).length ≤ NONE)
    (hnd : (m.prefixed.getD m.sources).Nodup) :
    ∃ m' fms', hermesRewrite m fms o = .ok (m', fms') ∧
      m'.tokens.map (scopeFor fmScope fms') = m.tokens.map (scopeFor fmScope fms) :=
  c09_hermes_scope fmScope m fms o h hfm hsl (RwProofs.same_of_nodup m fms hnd)

/-- a Hermes map with permuted use of three distinct sources, one function map each -/
def exHermes : SMap :=
  { tokens := [⟨0, 0, 1, 1, 2, NONE, false⟩, ⟨0, 4, 2, 2, 1, NONE, false⟩, ⟨0, 9, 3, 3, 0, NONE, false⟩]
    sources := [[97], [98], [99]] }

example : wfMap exHermes ∧ [some 10, none, some 12].length = (exHermes.prefixed.getD exHermes.sources).length ∧
    (exHermes.prefixed.getD exHermes.sources).length ≤ NONE ∧ (exHermes.prefixed.getD exHermes.sources).Nodup := by
  refine ⟨⟨?_, by decide⟩, by decide, by decide, by decide⟩
  unfold SortedByPos exHermes
  simp [posLe, Tok.pos]

/-- two sources with the same name and different function maps: ids 0 and 2 are both `"a"` -/
def dupHermes : SMap :=
  { tokens := [⟨0, 0, 1, 1, 2, NONE, false⟩, ⟨0, 4, 2, 2, 1, NONE, false⟩, ⟨0, 9, 3, 3, 0, NONE, false⟩]
    sources := [[97], [98], [97]] }

theorem dupHermes_wf : wfMap dupHermes := by
  refine ⟨?_, by decide⟩
  unfold SortedByPos dupHermes
  simp [posLe, Tok.pos]

/-- **without `hsame` the statement fails**: the rewrite merges the two sources named `"a"` and keeps
only the function map of the id used first (here id 2), so the token on id 0 changes its enclosing
function from the one of function map 0 to the one of function map 2.
(harness witness: `rw.hermes 61,62,61 6e 6630=1.0.0,6631=1.0.0,6632=1.0.0 0:0:1:1:2:0:0;0:5:2:2:1:0:0;0:9:2:2:0:0:0 1 1 _`) -/
theorem c09_hermes_dup_counterexample :
    ∃ m' fms', hermesRewrite dupHermes [some 0, some 1, some 2] {} = .ok (m', fms') ∧
      dupHermes.tokens.map (scopeFor (fun fm _ _ => some [fm]) [some 0, some 1, some 2]) = [some [2], some [1], some [0]] ∧
      m'.tokens.map (scopeFor (fun fm _ _ => some [fm]) fms') = [some [2], some [1], some [2]] := by
  refine ⟨_, _, c09_hermes_perm dupHermes _ {} dupHermes_wf (by decide), by decide, by decide⟩

end SmVerif.C09
