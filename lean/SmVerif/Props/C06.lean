import SmVerif.Proofs.Decode
/-
C06 — malformed mappings are rejected, never silently mis-decoded.
C02 — decoding follows the Source Map v3 wire format (the token loop; document-level rules are elsewhere).
Helper lemmas: SmVerif/Proofs/Decode.lean.
-/
namespace SmVerif.C06
open SmVerif SmVerif.Vlq SmVerif.Mappings SmVerif.V3

/-- the call returned an error (of any kind) -/
def isErr {α} (r : Res α) : Prop := ∃ e, r = .error e

/-- every `rangeMappings` piece that belongs to a non-empty mappings line decodes -/
def rmiOk (m rmi : List Nat) : Prop :=
  ∀ l ln, (splitOn SEMI m)[l]? = some ln → ln ≠ [] → (decodeRmi ((splitOn SEMI rmi).getD l [])).isSome

/-- **C06 (general form).**  Whenever the independent reading finds a fault - a byte outside the
alphabet, a cut-off value, a value of more than 13 digits, a segment of 2, 3 or more than 5 fields,
a source or name index (as an unbounded running sum) outside its array - decoding returns an error. -/
theorem c06_fault_rejected (m rmi : List Nat) (nsrc nnames : Nat)
    (h : specDecode m rmi nsrc nnames = .fault) : isErr (decodeMappings m rmi nsrc nnames) := by
  obtain ⟨hfit, heq⟩ := Decode.specDecode_fit (m := m) (rmi := rmi) (nsrc := nsrc) (nn := nnames)
    (by rw [h]; intro h'; cases h')
  rw [heq] at h
  rcases Decode.sim_mappings m rmi nsrc nnames hfit with ⟨herr, _⟩ | ⟨ts, _, h' | h'⟩
  · exact herr
  · rw [h] at h'; cases h'
  · rw [h] at h'; cases h'

/-- `AAAA,CA` with one source: the second segment has two fields -/
example : specDecode [65,65,65,65,44,67,65] [] 1 0 = .fault := by rfl
/-- `AAAA,CAACA` with one source and no names: the name index does not resolve -/
example : specDecode [65,65,65,65,44,67,65,65,67,65] [] 1 0 = .fault := by rfl

/-- **C02 (token loop).**  Whenever the independent reading yields tokens (all coordinates inside
u32, all indices resolvable), the decoder returns exactly those tokens, in document order. -/
theorem c02_decode_eq_spec (m rmi : List Nat) (nsrc nnames : Nat) (ts : List Tok)
    (hr : rmiOk m rmi) (h : specDecode m rmi nsrc nnames = .toks ts) :
    decodeMappings m rmi nsrc nnames = .ok ts := by
  obtain ⟨hfit, heq⟩ := Decode.specDecode_fit (m := m) (rmi := rmi) (nsrc := nsrc) (nn := nnames)
    (by rw [h]; intro h'; cases h')
  rw [heq] at h
  rcases Decode.sim_mappings m rmi nsrc nnames hfit with
    ⟨_, h' | ⟨k, ln, h1, h2, h3⟩⟩ | ⟨ts', hok, h' | h'⟩
  · rw [h] at h'; cases h'
  · have := hr k ln h1 h2
    rw [h3] at this; cases this
  · rw [h] at h'; cases h'
  · rw [h] at h'; cases h'; exact hok

/-- `AAAA,CAAC;;AACAA` with `rangeMappings` `C;;B` -/
example : specDecode [65,65,65,65,44,67,65,65,67,59,59,65,65,67,65,65] [67,59,59,66] 1 1 = .toks [
    { dl := 0, dc := 0, sl := 0, sc := 0, src := 0, name := NONE, rng := false },
    { dl := 0, dc := 1, sl := 0, sc := 1, src := 0, name := NONE, rng := true },
    { dl := 2, dc := 0, sl := 1, sc := 1, src := 0, name := 0, rng := true }] := by rfl
example : rmiOk [65,65,65,65,44,67,65,65,67,59,59,65,65,67,65,65] [67,59,59,66] := by
  intro l ln h hne
  have e1 : splitOn SEMI [65,65,65,65,44,67,65,65,67,59,59,65,65,67,65,65] =
    [[65,65,65,65,44,67,65,65,67], [], [65,65,67,65,65]] := by rfl
  have e2 : splitOn SEMI [67,59,59,66] = [[67], [], [66]] := by rfl
  rw [e1] at h
  rw [e2]
  match l with
  | 0 => rfl
  | 1 => simp at h; exact absurd h hne
  | 2 => rfl
  | n + 3 => simp at h
/-- `rmiOk` cannot be dropped: with `mappings` `A` and `rangeMappings` `!` the reading yields a
token (an undecodable bitfield reads as "no range bits") while the decoder returns `InvalidBase64`. -/
example : specDecode [65] [33] 1 0 =
      .toks [{ dl := 0, dc := 0, sl := 0, sc := 0, src := NONE, name := NONE, rng := false }] ∧
    decodeMappings [65] [33] 1 0 = .error .b64 := ⟨by rfl, by rfl⟩

/-- a located non-empty segment of the string -/
def hasSeg (m : List Nat) (s : List Nat) : Prop := ∃ sg ∈ segments m, sg.bytes = s

/-- a byte outside the base64 alphabet anywhere in a segment -/
theorem c06_foreign_byte (m rmi : List Nat) (nsrc nnames : Nat) (s : List Nat) (b : Nat)
    (hs : hasSeg m s) (hb : b ∈ s) (hf : b ∉ Consts.b64Chars) :
    isErr (decodeMappings m rmi nsrc nnames) := by
  obtain ⟨sg, hsg, rfl⟩ := hs
  cases hdm : decodeMappings m rmi nsrc nnames with
  | error e => exact ⟨e, rfl⟩
  | ok ts =>
    obtain ⟨vs, hp, _⟩ := Decode.decode_ok_segs hdm sg hsg
    obtain ⟨e, he⟩ := Decode.parseVlq_foreign sg.bytes b hb hf
    rw [hp] at he; cases he

/-- `AAAA,C!;A` -/
example : isErr (decodeMappings [65,65,65,65,44,67,33,59,65] [] 1 0) := by
  have e : segments [65,65,65,65,44,67,33,59,65] =
    [⟨0, 0, [65,65,65,65]⟩, ⟨0, 1, [67,33]⟩, ⟨1, 0, [65]⟩] := by rfl
  exact c06_foreign_byte _ [] 1 0 [67,33] 33 ⟨⟨0, 1, [67,33]⟩, by rw [e]; simp, rfl⟩ (by simp) (by decide)

/-- a segment whose last digit carries the continuation bit (a cut-off value) -/
theorem c06_truncated (m rmi : List Nat) (nsrc nnames : Nat) (s ds : List Nat)
    (hs : hasSeg m s) (hd : toDigits s = some ds) (hne : ds ≠ [])
    (hlast : ds.getLast hne / 32 ≠ 0) : isErr (decodeMappings m rmi nsrc nnames) := by
  obtain ⟨sg, hsg, rfl⟩ := hs
  cases hdm : decodeMappings m rmi nsrc nnames with
  | error e => exact ⟨e, rfl⟩
  | ok ts =>
    obtain ⟨vs, hp, _⟩ := Decode.decode_ok_segs hdm sg hsg
    obtain ⟨e, he⟩ := C11.c11_err_unterminated sg.bytes ds hd hne hlast
    rw [hp] at he; cases he

/-- `AAAA;Cg` -/
example : isErr (decodeMappings [65,65,65,65,59,67,103] [] 1 0) := by
  have e : segments [65,65,65,65,59,67,103] = [⟨0, 0, [65,65,65,65]⟩, ⟨1, 0, [67,103]⟩] := by rfl
  exact c06_truncated _ [] 1 0 [67,103] [2,32] ⟨⟨1, 0, [67,103]⟩, by rw [e]; simp, rfl⟩ (by rfl)
    (by simp) (by decide)

/-- a segment in which some value runs past 13 digits -/
theorem c06_too_long (m rmi : List Nat) (nsrc nnames : Nat) (s pre run rest : List Nat) (d : Nat)
    (hs : hasSeg m s) (hd : toDigits s = some (pre ++ run ++ d :: rest))
    (hpre : ∀ h : pre ≠ [], pre.getLast h / 32 = 0)
    (hrun : ∀ c ∈ run, c / 32 ≠ 0) (hlen : 13 ≤ run.length) :
    isErr (decodeMappings m rmi nsrc nnames) := by
  obtain ⟨sg, hsg, rfl⟩ := hs
  cases hdm : decodeMappings m rmi nsrc nnames with
  | error e => exact ⟨e, rfl⟩
  | ok ts =>
    obtain ⟨vs, hp, _⟩ := Decode.decode_ok_segs hdm sg hsg
    obtain ⟨e, he⟩ := C11.c11_err_too_long sg.bytes pre run rest d hd hpre hrun hlen
    rw [hp] at he; cases he

/-- `CAggggggggggggggA`: after the values 1 and 0, fourteen continuation digits -/
example : isErr (decodeMappings [67,65,103,103,103,103,103,103,103,103,103,103,103,103,103,103,65] [] 1 0) := by
  have e : segments [67,65,103,103,103,103,103,103,103,103,103,103,103,103,103,103,65] =
    [⟨0, 0, [67,65,103,103,103,103,103,103,103,103,103,103,103,103,103,103,65]⟩] := by rfl
  exact c06_too_long _ [] 1 0 [67,65,103,103,103,103,103,103,103,103,103,103,103,103,103,103,65]
    [2,0] [32,32,32,32,32,32,32,32,32,32,32,32,32] [0] 32
    ⟨⟨0, 0, [67,65,103,103,103,103,103,103,103,103,103,103,103,103,103,103,65]⟩, by rw [e]; simp, rfl⟩
    (by rfl) (by simp) (by simp) (by simp)

/-- a segment that reads as 2, 3 or more than 5 fields -/
theorem c06_arity (m rmi : List Nat) (nsrc nnames : Nat) (s : List Nat) (vs : List Int)
    (hs : hasSeg m s) (hv : parseVlq s = .ok vs)
    (ha : vs.length = 2 ∨ vs.length = 3 ∨ 5 < vs.length) :
    isErr (decodeMappings m rmi nsrc nnames) := by
  obtain ⟨sg, hsg, rfl⟩ := hs
  cases hdm : decodeMappings m rmi nsrc nnames with
  | error e => exact ⟨e, rfl⟩
  | ok ts =>
    obtain ⟨vs', hp, ha'⟩ := Decode.decode_ok_segs hdm sg hsg
    rw [hv] at hp; cases hp
    omega

/-- `AC`: two fields -/
example : isErr (decodeMappings [65,67] [] 1 0) := by
  have e : segments [65,67] = [⟨0, 0, [65,67]⟩] := by rfl
  exact c06_arity _ [] 1 0 [65,67] [0,1] ⟨⟨0, 0, [65,67]⟩, by rw [e]; simp, rfl⟩ (by rfl) (by simp)

/-- consequently no successfully decoded map holds a token whose source or name index does not resolve -/
theorem c06_ok_resolves (m rmi : List Nat) (nsrc nnames : Nat) (ts : List Tok)
    (h : decodeMappings m rmi nsrc nnames = .ok ts) :
    ∀ t ∈ ts, (t.src = NONE ∨ t.src < nsrc) ∧ (t.name = NONE ∨ t.name < nnames) := by
  exact Decode.decodeLines_resolves _ _ _ _ _ _ (by intro t ht; simp at ht) h

example : decodeMappings [65,65,65,65,44,67,65,65,67,59,59,65,65,67,65,65] [67,59,59,66] 1 1 = .ok [
    { dl := 0, dc := 0, sl := 0, sc := 0, src := 0, name := NONE, rng := false },
    { dl := 0, dc := 1, sl := 0, sc := 1, src := 0, name := NONE, rng := true },
    { dl := 2, dc := 0, sl := 1, sc := 1, src := 0, name := 0, rng := true }] := by rfl

end SmVerif.C06
