import SmVerif.Proofs.RawIdx
/-
C01 — writing a map and reading it back yields the same map: the document level.
(The token level is Props/C01.lean: `c01_mappings_roundtrip`, `c01_idempotent`.)

Model: SmVerif/Model/Raw.lean — `asRaw` (the three `as_raw_sourcemap` impls) and `decodeCommon`
(`decode_common` / `decode_regular` / `decode_index` / `decode_hermes`) on the serde record
`RawDoc`; JSON text ↔ record is serde_json (trusted).  Definitions used in the statements
(`WfMap`, `canon`, `ObsEq`, `WfD`, `canonD`, `ObsEqD`, `SmallDoc`) are in Proofs/Raw.lean and
Proofs/RawIdx.lean; helper lemmas in Proofs/RawRt.lean, Proofs/EncDedup.lean.
-/
namespace SmVerif.C01Doc
open SmVerif SmVerif.Raw SmVerif.Mappings SmVerif.V3 SmVerif.Lookup SmVerif.RawP SmVerif.RawRt SmVerif.RawIdx

/-- **Regular maps.**  Every well-formed regular map (`WfMap`: u32 coordinates, every token without
source or with a source that resolves, names resolvable or not, any range flags, duplicate positions,
exact duplicates, any strings, any optional field present or absent, contents of any length) can be
written, and reading the record back gives a regular map (`canon m`) that is observationally equal
to it (`ObsEq`): same file, root, debug id, names, ignore list, number of sources, every source as
read through `get_source`, contents per source, and the same token sequence up to removal of exact
consecutive duplicates. -/
theorem c01_doc_roundtrip (m : SMap) (h : WfMap m) :
    ∃ f, asRawRegular m = .ok f ∧ decodeCommon (.plain f) = .ok (.regular (canon m)) ∧ ObsEq (canon m) m := by
  obtain ⟨f, hf⟩ := asRawRegular_total m h
  refine ⟨f, hf, ?_, canon_obs m h⟩
  have := decode_asRawD (.regular m) (.plain f) h (by rw [asRaw, hf])
  rw [canonD] at this
  exact this

/-- what `ObsEq` means for tokens as the accessors show them: the token read back at index `i` is
the `i`-th token of the de-duplicated sequence with the same generated position, the same source
*name*, the same original position when it has a source, the same name and range flag -/
theorem c01_doc_roundtrip_tokens (m : SMap) (h : WfMap m) (i : Nat) (t : Tok)
    (ht : (dedup m.tokens)[i]? = some t) :
    ∃ t', (canon m).tokens[i]? = some t' ∧ t'.dl = t.dl ∧ t'.dc = t.dc ∧ t'.rng = t.rng ∧
      (canon m).tokSource t' = m.tokSource t ∧ (t.src ≠ NONE → t'.sl = t.sl ∧ t'.sc = t.sc) ∧
      (t.src ≠ NONE → (canon m).tokName t' = m.tokName t) := by
  have hobs := canon_obs m h
  refine ⟨normTok m.names.length t, ?_, ?_⟩
  · rw [hobs.tokens, List.getElem?_map, ht]; rfl
  · have hsrc : ∀ i, (canon m).getSource i = m.getSource i := hobs.sources
    have hnames : (canon m).names = m.names := hobs.names
    unfold normTok
    by_cases h1 : t.src = NONE
    · simp [h1, SMap.tokSource]
    · by_cases h2 : t.name ≠ NONE ∧ t.name < m.names.length
      · simp [h1, h2, SMap.tokSource, SMap.tokName, SMap.getName, hsrc, hnames]
      · have hn : ¬ t.name = NONE → none = m.getName t.name := by
          intro h3
          have : ¬ t.name < m.names.length := fun hlt => h2 ⟨h3, hlt⟩
          simp [SMap.getName, List.getElem?_eq_none (Nat.le_of_not_gt this)]
        simp [h1, h2, SMap.tokSource, hsrc, SMap.tokName]
        exact hn

/-- **Hermes maps.**  The same, and the `x_facebook_sources` payload comes back verbatim. -/
theorem c01_hermes_roundtrip (m : SMap) (raw : FbSources) (h : WfMap m) :
    ∃ r, asRaw (.hermes m raw) = .ok r ∧ decodeCommon r = .ok (.hermes (canon m) raw) ∧ ObsEq (canon m) m := by
  obtain ⟨r, hr⟩ := asRaw_total (.hermes m raw) h
  refine ⟨r, hr, ?_, canon_obs m h⟩
  have := decode_asRawD (.hermes m raw) r h hr
  rw [canonD] at this
  exact this

/-- **Index maps, recursively.**  Every well-formed decoded map (`WfD WfMap`: every regular / Hermes
map inside is well-formed, sections of every index map ordered by offset, nesting of any depth) can
be written, and reading the record back gives `canonD dm`, observationally equal to it (`ObsEqD`:
same file; section by section the same offset, url and - recursively - embedded map). -/
theorem c01_index_roundtrip (dm : DMap) (h : WfD WfMap dm) :
    ∃ r, asRaw dm = .ok r ∧ decodeCommon r = .ok (canonD dm) ∧ ObsEqD (canonD dm) dm := by
  obtain ⟨r, hr⟩ := asRaw_total dm h
  exact ⟨r, hr, decode_asRawD dm r h hr, canonD_obs dm h⟩

/-- **Second generation.**  For every document that decodes (with fewer than 2^32 lines / sources /
names per map, `SmallDoc`): the decoded map can be written; what was written decodes again; and
writing that map gives the same record - hence, serde_json being deterministic, the same bytes. -/
theorem c01_doc_idempotent (d : RawDoc) (d1 : DMap) (hs : SmallDoc d) (h : decodeCommon d = .ok d1) :
    ∃ r1 d2, asRaw d1 = .ok r1 ∧ decodeCommon r1 = .ok d2 ∧ asRaw d2 = .ok r1 := by
  have hdec := decodeCommon_decoded d d1 hs h
  have hwf : WfD WfMap d1 := wfD_mono (fun _ hm => hm.wf) d1 hdec
  obtain ⟨r1, hr1⟩ := asRaw_total d1 hwf
  refine ⟨r1, canonD d1, hr1, decode_asRawD d1 r1 hwf hr1, ?_⟩
  rw [asRaw_canonD d1 hdec, hr1]

/-- a decoded map is well-formed: the round-trip theorems apply to whatever `decode` returns -/
theorem c01_decoded_wf (d : RawDoc) (d1 : DMap) (hs : SmallDoc d) (h : decodeCommon d = .ok d1) :
    WfD WfMap d1 :=
  wfD_mono (fun _ hm => hm.wf) d1 (decodeCommon_decoded d d1 hs h)

/-- The hypothesis of second-generation stability cannot be weakened to "well-formed": a map built
from raw components whose neighbouring source-less tokens differ only in their hidden original
position is written with both, read back as two equal tokens, and written again with one. -/
theorem c01_second_generation_needs_decoded : WfMap RawRt.cex ∧ canon (canon RawRt.cex) ≠ canon RawRt.cex :=
  ⟨RawRt.cex_wf, RawRt.cex_canon_canon⟩

-- non-vacuity
example : WfMap RawRt.exMap := RawRt.exMap_wf
example : WfD WfMap (.index (some [105]) (.cons 0 0 none (.some (.hermes RawRt.exMap [none])) (.cons 0 7 (some [117]) .none .nil))
    (some [none, some 3]) none) := by
  simp only [WfD, WfSecs, WfOpt, secsSorted, and_true]
  exact ⟨by decide, RawRt.exMap_wf⟩
example : SmallDoc (.indexed {} (.cons 1 0 none (.some (.plain RawRt.exFlat)) (.cons 0 0 (some [117]) .none .nil))) := by
  simp only [SmallDoc, SmallSecs, SmallOpt, and_true]
  have e : splitOn SEMI (RawRt.exFlat.mappings.getD []) =
      [[65,65,65,65,44,67,65,65,67], [], [65,65,67,65,65]] := by rfl
  refine ⟨?_, ?_, ?_⟩
  · rw [e]; simp [U32]
  · simp [RawRt.exFlat, U32]
  · simp [RawRt.exFlat, U32]
example : ∃ d1, decodeCommon (.indexed {} (.cons 1 0 none (.some (.plain RawRt.exFlat)) (.cons 0 0 (some [117]) .none .nil))) = .ok d1 :=
  ⟨_, rfl⟩

end SmVerif.C01Doc
